(* Proofs for C27 (Model/RowIds.v).  Part 1: the loop translated from the source equals [fill] (re-checked
   against the regenerated translation on every run).  Part 2: facts about [fill] and the row-id set.
   Part 3: the unchanged code (partial statements + exactness of the hypotheses).  Part 4: the repaired
   variant (full statements). *)
From Coq Require Import ZArith List Bool Lia.
Import ListNotations.
Require Import Grist.Lib.PyPrelude Grist.Lib.PyMonad Grist.Model.RowIds GristGen.RowIds_gen.
Open Scope Z_scope.

(* ================================================================================================ *)
(* Part 1: bridging lemma                                                                           *)

Definition lift_ids (r : py_result (list Z)) : py_result (list (option Z)) :=
  match r with PyOk l => PyOk (map Some l) | PyErr e => PyErr e end.

Lemma py_set_nth_app : forall (X : Type) (done : list X) (x v : X) (t : list X),
  py_set_nth (Z.of_nat (length done)) v (done ++ x :: t) = done ++ v :: t.
Proof.
  induction done as [|d done IH]; intros x v t.
  - reflexivity.
  - cbn [length app py_set_nth].
    replace (Z.of_nat (S (length done)) =? 0) with false by (symmetry; apply Z.eqb_neq; lia).
    replace (Z.of_nat (S (length done)) - 1) with (Z.of_nat (length done)) by lia.
    rewrite IH. reflexivity.
Qed.

(* the body of the translated loop, as a function (must stay convertible with the generated text) *)
Definition gen_body (st__ : list (option Z) * Z) (it__ : Z * option Z) : py_result (list (option Z) * Z) :=
  let '(filled_row_ids, next_row_id) := st__ in
  let '(i, row_id) := it__ in
  match row_id with
  | None =>
      let v__ := next_row_id in
      let filled_row_ids := py_set_nth i (Some v__) filled_row_ids in
      let row_id := v__ in
      let next_row_id := Z.max next_row_id row_id + 1 in
      PyOk (filled_row_ids, next_row_id)
  | Some row_id =>
      if row_id <? 0
      then
        let v__ := next_row_id in
        let filled_row_ids := py_set_nth i (Some v__) filled_row_ids in
        let row_id := v__ in
        let next_row_id := Z.max next_row_id row_id + 1 in
        PyOk (filled_row_ids, next_row_id)
      else if row_id >? 1000000 then PyErr PyValueError
      else let next_row_id := Z.max next_row_id row_id + 1 in PyOk (filled_row_ids, next_row_id)
  end.

Lemma gen_loop_is_fill : forall (todo : list (option Z)) (done : list Z) (next : Z),
  py_bind (py_fold gen_body (py_enumerate_from (Z.of_nat (length done)) todo) (map Some done ++ todo, next))
          (fun st__ => let '(filled_row_ids, _) := st__ in PyOk filled_row_ids)
  = match fill next todo with
    | PyOk l => PyOk (map Some done ++ map Some l)
    | PyErr e => PyErr e
    end.
Proof.
  induction todo as [|r t IH]; intros done next.
  - cbn. reflexivity.
  - cbn [py_enumerate_from py_fold fill].
    assert (Hstep : forall v, map Some done ++ Some v :: t = map Some (done ++ [v]) ++ t).
    { intros v. rewrite map_app. rewrite <- app_assoc. reflexivity. }
    assert (Hlen : forall v : Z, Z.of_nat (length done) + 1 = Z.of_nat (length (done ++ [v]))).
    { intros v. rewrite app_length. cbn [length]. lia. }
    assert (Hset : forall v, py_set_nth (Z.of_nat (length done)) (Some v) (map Some done ++ r :: t)
                             = map Some done ++ Some v :: t).
    { intros v. rewrite <- (map_length Some done). apply py_set_nth_app. }
    assert (Hout : forall v l, map Some (done ++ [v]) ++ map Some l = map Some done ++ map Some (v :: l)).
    { intros v l. rewrite map_app. rewrite <- app_assoc. reflexivity. }
    unfold gen_body at 1. unfold fill_one.
    destruct r as [z|].
    + destruct (z <? 0) eqn:Hneg.
      * cbv zeta. rewrite Hset, Hstep, (Hlen next), IH.
        destruct (fill (Z.max next next + 1) t); [rewrite Hout|]; reflexivity.
      * unfold MAX_ROW_ID. destruct (z >? 1000000) eqn:Hhigh.
        -- reflexivity.
        -- cbv zeta.
           replace (map Some done ++ Some z :: t) with (map Some (done ++ [z]) ++ t) by (symmetry; apply Hstep).
           rewrite (Hlen z), IH.
           destruct (fill (Z.max next z + 1) t); [rewrite Hout|]; reflexivity.
    + cbv zeta. rewrite Hset, Hstep, (Hlen next), IH.
      destruct (fill (Z.max next next + 1) t); [rewrite Hout|]; reflexivity.
Qed.

(* The loop as translated from useractions.py is [fill]. *)
Lemma fill_row_ids_is_fill : forall (row_ids : list (option Z)) (next : Z),
  fill_row_ids row_ids next = lift_ids (fill next row_ids).
Proof.
  intros row_ids next. unfold fill_row_ids, lift_ids.
  exact (gen_loop_is_fill row_ids [] next).
Qed.
