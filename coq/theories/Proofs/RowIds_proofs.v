(* Proofs for C27 (Model/RowIds.v).  Part 1: the two loops translated from the source equal [alloc] (re-checked
   against the regenerated translation on every run).  Part 2: the row-id set.  Part 3: validation, filling and
   the full statements.  Part 4: regression witnesses (the defects repaired by fix e346da4). *)
From Coq Require Import ZArith List Bool Lia.
Import ListNotations.
Require Import Grist.Lib.PyPrelude Grist.Lib.PyMonad Grist.Model.RowIds GristGen.RowIds_gen.
Open Scope Z_scope.

(* ================================================================================================ *)
(* Part 1: bridging lemma                                                                           *)

Definition lift_ids (r : py_result (list Z)) : py_result (list (option Z)) :=
  match r with PyOk l => PyOk (map Some l) | PyErr e => PyErr e end.

Lemma py_set_nth_app : forall (X : Type) (done : list X) (x v : X) (t : list X),
  py_set_nth (Z.of_nat (length done)) v (done ++ x :: t) = done ++ v :: t.
Proof.
  induction done as [|d done IH]; intros x v t.
  - reflexivity.
  - cbn [length app py_set_nth].
    replace (Z.of_nat (S (length done)) =? 0) with false by (symmetry; apply Z.eqb_neq; lia).
    replace (Z.of_nat (S (length done)) - 1) with (Z.of_nat (length done)) by lia.
    rewrite IH. reflexivity.
Qed.

Definition gen_validate_body (st__ : list Z * Z) (it__ : option Z) : py_result (list Z * Z) :=
  let '(seen, next_row_id) := st__ in
  let row_id := it__ in
  match row_id with
  | None => PyOk (seen, next_row_id)
  | Some row_id =>
      if row_id <? 0 then PyOk (seen, next_row_id)
      else if row_id >? 1000000 then PyErr PyValueError
      else if row_id =? 0 then PyErr PyValueError
      else if py_mem Z.eqb row_id seen then PyErr PyValueError
      else let seen := seen ++ [row_id] in
           let next_row_id := Z.max next_row_id (row_id + 1) in
           PyOk (seen, next_row_id)
  end.

Lemma gen_validate_is_validate : forall req seen next,
  py_fold gen_validate_body req (seen, next) =
  match validate_ids seen next req with
  | PyOk n' => PyOk (seen ++ explicit_ids req, n')
  | PyErr e => PyErr e
  end.
Proof.
  induction req as [|r t IH]; intros seen next.
  - cbn. rewrite app_nil_r. reflexivity.
  - cbn [py_fold validate_ids explicit_ids flat_map]. unfold gen_validate_body at 1. unfold explicit, MAX_ROW_ID.
    destruct r as [z|]; [|apply IH].
    destruct (z <? 0); [apply IH|]. destruct (z >? 1000000); [reflexivity|].
    destruct (z =? 0); [reflexivity|]. cbn [orb]. destruct (py_mem Z.eqb z seen); [reflexivity|].
    cbv zeta. rewrite IH. cbn [app]. rewrite <- app_assoc. reflexivity.
Qed.

Definition gen_fill_body (st__ : list (option Z) * Z) (it__ : Z * option Z) : py_result (list (option Z) * Z) :=
  let '(filled_row_ids, next_row_id) := st__ in
  let '(i, row_id) := it__ in
  match row_id with
  | None => let filled_row_ids := py_set_nth i (Some next_row_id) filled_row_ids in
            let next_row_id := next_row_id + 1 in PyOk (filled_row_ids, next_row_id)
  | Some row_id =>
      if row_id <? 0
      then let filled_row_ids := py_set_nth i (Some next_row_id) filled_row_ids in
           let next_row_id := next_row_id + 1 in PyOk (filled_row_ids, next_row_id)
      else PyOk (filled_row_ids, next_row_id)
  end.

Lemma gen_fill_is_fill_autos : forall (todo : list (option Z)) (done : list Z) (next : Z),
  py_bind (py_fold gen_fill_body (py_enumerate_from (Z.of_nat (length done)) todo) (map Some done ++ todo, next))
          (fun st__ => let '(filled_row_ids, _) := st__ in PyOk filled_row_ids)
  = PyOk (map Some done ++ map Some (fill_autos next todo)).
Proof.
  induction todo as [|r t IH]; intros done next.
  - cbn. reflexivity.
  - cbn [py_enumerate_from py_fold fill_autos].
    assert (Hstep : forall v, map Some done ++ Some v :: t = map Some (done ++ [v]) ++ t).
    { intros v. rewrite map_app. rewrite <- app_assoc. reflexivity. }
    assert (Hlen : forall v : Z, Z.of_nat (length done) + 1 = Z.of_nat (length (done ++ [v]))).
    { intros v. rewrite app_length. cbn [length]. lia. }
    assert (Hset : forall v, py_set_nth (Z.of_nat (length done)) (Some v) (map Some done ++ r :: t)
                             = map Some done ++ Some v :: t).
    { intros v. rewrite <- (map_length Some done). apply py_set_nth_app. }
    assert (Hout : forall v l, map Some (done ++ [v]) ++ map Some l = map Some done ++ map Some (v :: l)).
    { intros v l. rewrite map_app. rewrite <- app_assoc. reflexivity. }
    unfold gen_fill_body at 1. unfold explicit.
    destruct r as [z|].
    + destruct (z <? 0) eqn:Hneg.
      * cbv zeta. rewrite Hset, Hstep, (Hlen next), IH, Hout. reflexivity.
      * replace (map Some done ++ Some z :: t) with (map Some (done ++ [z]) ++ t) by (symmetry; apply Hstep).
        rewrite (Hlen z), IH, Hout. reflexivity.
    + cbv zeta. rewrite Hset, Hstep, (Hlen next), IH, Hout. reflexivity.
Qed.

(* The validation loop and the filling loop as translated from useractions.py are [alloc]. *)
Lemma fill_row_ids_is_alloc : forall (row_ids : list (option Z)) (next : Z),
  fill_row_ids row_ids next = lift_ids (alloc next row_ids).
Proof.
  intros row_ids next. unfold fill_row_ids, lift_ids, alloc.
  change (py_bind (py_fold gen_validate_body row_ids ([], next))
            (fun st__ => let '(_, next_row_id) := st__ in
               py_bind (py_fold gen_fill_body (py_enumerate row_ids) (row_ids, next_row_id))
                       (fun st__ => let '(filled_row_ids, _) := st__ in PyOk filled_row_ids))
          = match match validate_ids [] next row_ids with
                  | PyOk n' => PyOk (fill_autos n' row_ids) | PyErr e => PyErr e end with
            | PyOk l => PyOk (map Some l) | PyErr e => PyErr e end).
  rewrite gen_validate_is_validate.
  destruct (validate_ids [] next row_ids) as [n'|e]; [|reflexivity].
  cbn [py_bind]. exact (gen_fill_is_fill_autos row_ids [] n').
Qed.

(* ================================================================================================ *)
(* Part 2: the row-id set                                                                           *)

Lemma Forall2_impl : forall (A B : Type) (P Q : A -> B -> Prop),
  (forall a b, P a b -> Q a b) -> forall l m, Forall2 P l m -> Forall2 Q l m.
Proof. intros A B P Q H l m F. induction F; constructor; auto. Qed.

Lemma mem_In : forall x l, py_mem Z.eqb x l = true <-> In x l.
Proof. exact py_mem_Z_In. Qed.

Lemma mem_false : forall x l, py_mem Z.eqb x l = false <-> ~ In x l.
Proof.
  intros x l. rewrite <- mem_In. destruct (py_mem Z.eqb x l); split; intros; congruence.
Qed.

Lemma max_row_ge : forall rs e, In e rs -> e <= max_row rs.
Proof.
  induction rs as [|r rs IH]; intros e H; [contradiction|].
  cbn [max_row fold_right]. fold (max_row rs). destruct H as [->|H]; [lia|]. apply IH in H. lia.
Qed.

Lemma max_row_nonneg : forall rs, 0 <= max_row rs.
Proof. induction rs as [|r rs IH]; cbn [max_row fold_right]; [lia|]. fold (max_row rs). lia. Qed.

Lemma next_row_id_gt : forall rs e, In e rs -> e < next_row_id rs.
Proof. intros rs e H. unfold next_row_id. apply max_row_ge in H. lia. Qed.

Lemma next_row_id_pos : forall rs, 1 <= next_row_id rs.
Proof. intros rs. unfold next_row_id. pose proof (max_row_nonneg rs). lia. Qed.

Lemma add_row_In : forall rs r x, In x (add_row rs r) <-> In x rs \/ (x = r /\ 0 < r).
Proof.
  intros rs r x. unfold add_row.
  destruct (0 <? r) eqn:Hp; cbn [andb].
  - apply Z.ltb_lt in Hp. destruct (py_mem Z.eqb r rs) eqn:Hm; cbn [negb].
    + apply mem_In in Hm. split; [tauto|]. intros [H|[-> _]]; assumption.
    + rewrite in_app_iff. cbn [In]. split.
      * intros [H|[H|[]]]; [tauto|]. right. split; [congruence|assumption].
      * intros [H|[-> _]]; [tauto|]. right. left. reflexivity.
  - apply Z.ltb_ge in Hp. split; [tauto|]. intros [H|[_ H]]; [assumption|lia].
Qed.

Lemma NoDup_app_intro : forall (l m : list Z),
  NoDup l -> NoDup m -> (forall x, In x l -> ~ In x m) -> NoDup (l ++ m).
Proof.
  induction l as [|a l IH]; intros m Hl Hm Hd; [exact Hm|].
  inversion Hl as [|? ? Hna Hl']; subst. cbn [app]. constructor.
  - rewrite in_app_iff. intros [H|H]; [contradiction|]. apply (Hd a); [left; reflexivity|assumption].
  - apply IH; [assumption|assumption|]. intros x Hx. apply Hd. right. assumption.
Qed.

Lemma add_row_wf : forall rs r, wf_rows rs -> wf_rows (add_row rs r).
Proof.
  intros rs r [Hnd Hpos]. unfold add_row.
  destruct (0 <? r) eqn:Hp; cbn [andb]; [|split; assumption].
  destruct (py_mem Z.eqb r rs) eqn:Hm; cbn [negb]; [split; assumption|].
  apply mem_false in Hm. apply Z.ltb_lt in Hp. split.
  - apply NoDup_app_intro; [assumption|repeat constructor; intros []|].
    intros x Hx [Hy|[]]. subst. contradiction.
  - apply Forall_app. split; [assumption|]. repeat constructor. assumption.
Qed.

Lemma add_rows_In : forall ids rs x, In x (add_rows rs ids) <-> In x rs \/ (In x ids /\ 0 < x).
Proof.
  induction ids as [|r ids IH]; intros rs x; cbn [add_rows fold_left].
  - split; [tauto|]. intros [H|[[] _]]. assumption.
  - fold (add_rows (add_row rs r) ids). rewrite IH, add_row_In. cbn [In]. split.
    + intros [[H|[-> H]]|[H1 H2]]; [tauto| |tauto]. right. split; [left; reflexivity|assumption].
    + intros [H|[[->|H1] H2]]; [tauto| |tauto]. left. right. split; [reflexivity|assumption].
Qed.

Lemma add_rows_wf : forall ids rs, wf_rows rs -> wf_rows (add_rows rs ids).
Proof.
  induction ids as [|r ids IH]; intros rs H; cbn [add_rows fold_left]; [assumption|].
  apply IH. apply add_row_wf. assumption.
Qed.

Lemma wf_nil : wf_rows [].
Proof. split; constructor. Qed.

Lemma explicit_some : forall r z, explicit r = Some z -> r = Some z /\ 0 <= z.
Proof.
  intros [y|] z H; cbn [explicit] in H; [|discriminate].
  destruct (y <? 0) eqn:Hn; [discriminate|]. apply Z.ltb_ge in Hn. inversion H; subst. split; [reflexivity|assumption].
Qed.

Lemma explicit_ids_bounds : forall req z, In z (explicit_ids req) -> 0 <= z.
Proof.
  induction req as [|r t IH]; intros z Hz; [contradiction|].
  cbn [explicit_ids flat_map] in Hz. destruct (explicit r) as [y|] eqn:He.
  - destruct Hz as [<-|Hz]; [apply (explicit_some _ _ He)|apply IH; assumption].
  - apply IH; assumption.
Qed.

(* shape of the result: explicit ids honoured (and within the limit), automatic ids >= next *)
Lemma existsb_row_in_false : forall rs out, existsb (fun r => row_in r rs) out = false ->
  forall o, In o out -> 0 < o -> ~ In o rs.
Proof.
  intros rs out H o Ho Hp Hin.
  assert (E : existsb (fun r => row_in r rs) out = true).
  { apply existsb_exists. exists o. split; [assumption|]. unfold row_in.
    apply andb_true_iff. split; [apply Z.ltb_lt; assumption|apply mem_In; assumption]. }
  congruence.
Qed.

(* ================================================================================================ *)
(* Part 3: validation, filling, and the full statements                                             *)

Definition good_explicit (seen : list Z) (z : Z) : Prop := 0 < z <= MAX_ROW_ID /\ ~ In z seen.

Lemma validate_ok : forall req seen n n',
  validate_ids seen n req = PyOk n' ->
  n <= n' /\
  (forall z, In z (explicit_ids req) -> good_explicit seen z /\ z < n') /\
  NoDup (explicit_ids req).
Proof.
  induction req as [|r t IH]; intros seen n n' H.
  - cbn in H. inversion H; subst. split; [lia|]. split; [intros z []|constructor].
  - cbn [validate_ids] in H. cbn [explicit_ids flat_map]. destruct (explicit r) as [z|] eqn:He.
    + destruct (z >? MAX_ROW_ID) eqn:Hh; [discriminate|].
      destruct ((z =? 0) || py_mem Z.eqb z seen) eqn:Hc; [discriminate|].
      apply orb_false_iff in Hc. destruct Hc as [Hc1 Hc2].
      apply Z.eqb_neq in Hc1. apply mem_false in Hc2.
      pose proof (proj2 (explicit_some _ _ He)) as Hz0.
      destruct (IH _ _ _ H) as [I1 [I2 I3]].
      assert (Hgood : good_explicit seen z) by (split; [lia|assumption]).
      split; [lia|]. split.
      * intros y [<-|Hy]; [split; [assumption|lia]|].
        destruct (I2 y Hy) as [[G1 G2] G4]. split; [|assumption].
        split; [assumption|]. intros Hin. apply G2. apply in_or_app. left. assumption.
      * cbn [app]. constructor; [|assumption]. intros Hin. destruct (I2 z Hin) as [[_ G2] _].
        apply G2. apply in_or_app. right. left. reflexivity.
    + cbn [app]. apply (IH _ _ _ H).
Qed.

Lemma validate_accepts : forall req seen n,
  (forall z, In z (explicit_ids req) -> good_explicit seen z) ->
  NoDup (explicit_ids req) ->
  exists n', validate_ids seen n req = PyOk n'.
Proof.
  induction req as [|r t IH]; intros seen n Hg Hnd.
  - eexists; reflexivity.
  - cbn [validate_ids]. cbn [explicit_ids flat_map] in Hg, Hnd. destruct (explicit r) as [z|] eqn:He.
    + destruct (Hg z (or_introl eq_refl)) as [G1 G2].
      replace (z >? MAX_ROW_ID) with false by (symmetry; rewrite Z.gtb_ltb; apply Z.ltb_ge; lia).
      replace (z =? 0) with false by (symmetry; apply Z.eqb_neq; lia).
      replace (py_mem Z.eqb z seen) with false by (symmetry; apply mem_false; assumption).
      cbn [orb]. cbn [app] in Hnd. inversion Hnd as [|? ? Hz Hnd']; subst.
      apply IH; [|assumption].
      intros y Hy. destruct (Hg y (or_intror Hy)) as [Y1 Y2]. split; [assumption|].
      intros Hin. apply in_app_or in Hin. destruct Hin as [Hin|[<-|[]]]; [contradiction|contradiction].
    + cbn [app] in Hg, Hnd. apply IH; assumption.
Qed.

Lemma fill_autos_elems : forall req n o, In o (fill_autos n req) -> In o (explicit_ids req) \/ n <= o.
Proof.
  induction req as [|r t IH]; intros n o H; [contradiction|].
  cbn [fill_autos] in H. cbn [explicit_ids flat_map]. destruct (explicit r) as [z|].
  - destruct H as [<-|H]; [left; left; reflexivity|]. destruct (IH _ _ H); [left; right; assumption|right; assumption].
  - destruct H as [<-|H]; [right; lia|]. destruct (IH _ _ H); [left; assumption|right; lia].
Qed.

Lemma fill_autos_explicit_in : forall req n z, In z (explicit_ids req) -> In z (fill_autos n req).
Proof.
  induction req as [|r t IH]; intros n z H; [contradiction|].
  cbn [fill_autos]. cbn [explicit_ids flat_map] in H. destruct (explicit r) as [y|].
  - destruct H as [<-|H]; [left; reflexivity|right; apply IH; assumption].
  - right. apply IH. assumption.
Qed.

Lemma fill_autos_nodup : forall req n, NoDup (explicit_ids req) ->
  (forall z, In z (explicit_ids req) -> z < n) -> NoDup (fill_autos n req).
Proof.
  induction req as [|r t IH]; intros n Hnd Hlt; [constructor|].
  cbn [fill_autos]. cbn [explicit_ids flat_map] in Hnd, Hlt. destruct (explicit r) as [z|].
  - cbn [app] in Hnd. inversion Hnd as [|? ? Hz Hnd']; subst. constructor.
    + intros Hin. destruct (fill_autos_elems _ _ _ Hin) as [H|H]; [contradiction|].
      specialize (Hlt z (or_introl eq_refl)). lia.
    + apply IH; [assumption|]. intros y Hy. apply Hlt. right. assumption.
  - cbn [app] in Hnd, Hlt. constructor.
    + intros Hin. destruct (fill_autos_elems _ _ _ Hin) as [H|H]; [|lia]. specialize (Hlt n H). lia.
    + apply IH; [assumption|]. intros y Hy. specialize (Hlt y Hy). lia.
Qed.

Lemma fill_autos_shape : forall req n,
  Forall2 (fun r o => match explicit r with Some z => o = z | None => n <= o end) req (fill_autos n req).
Proof.
  induction req as [|r t IH]; intros n; [constructor|].
  cbn [fill_autos]. destruct (explicit r) as [z|] eqn:He.
  - constructor; [rewrite He; reflexivity|apply IH].
  - constructor; [rewrite He; lia|].
    eapply Forall2_impl; [|apply (IH (n + 1))]. intros a b Hab. cbv beta in *. destruct (explicit a); [assumption|lia].
Qed.

(* what validation guarantees about the ids then handed to the doc action *)
Lemma fixed_out_facts : forall req n0 n',
  1 <= n0 -> validate_ids [] n0 req = PyOk n' ->
  let out := fill_autos n' req in
  NoDup out /\ (forall o, In o out -> 0 < o) /\
  Forall2 (fun r o => match explicit r with Some z => o = z | None => n0 <= o end) req out.
Proof.
  intros req n0 n' Hn0 Hv out.
  destruct (validate_ok _ _ _ _ Hv) as [Hn [Hg Hnd]].
  split; [apply fill_autos_nodup; [assumption|intros z Hz; apply (Hg z Hz)]|]. split.
  - intros o Ho. destruct (fill_autos_elems _ _ _ Ho) as [H|H]; [|lia].
    destruct (Hg o H) as [[G _] _]. lia.
  - eapply Forall2_impl; [|apply fill_autos_shape]. intros a b Hab. cbv beta in *.
    destruct (explicit a); [assumption|lia].
Qed.

Lemma fixed_add_accepted : forall rs req out rs',
  do_bulk_add_or_replace false rs req = Accepted out rs' ->
  exists n', validate_ids [] (next_row_id rs) req = PyOk n' /\ out = fill_autos n' req /\
             existsb (fun r => row_in r rs) out = false /\ rs' = add_rows rs out.
Proof.
  intros rs req out rs' H. unfold do_bulk_add_or_replace, alloc in H.
  destruct (validate_ids [] (next_row_id rs) req) as [n'|] eqn:Hv; [|discriminate].
  unfold finish, doc_bulk_add in H.
  destruct (existsb (fun r => row_in r rs) (fill_autos n' req)) eqn:Hex; [discriminate|]. inversion H; subst.
  exists n'. repeat split; try reflexivity. assumption.
Qed.

(* C27_alloc at full strength for the repaired code *)
Lemma alloc_fixed : forall rs req, wf_rows rs ->
  alloc_statement (do_bulk_add_or_replace false) rs req.
Proof.
  intros rs req Hwf out rs' H.
  destruct (fixed_add_accepted _ _ _ _ H) as [n' [Hv [-> [Hex ->]]]].
  destruct (fixed_out_facts req _ n' (next_row_id_pos rs) Hv) as [Hnd [Hpos Hsh]].
  split; [assumption|]. split; [|split; [|split]].
  - intros r Hr. eapply existsb_row_in_false; [eassumption|assumption|apply Hpos; assumption].
  - eapply Forall2_impl; [|exact Hsh]. intros a b Hab. cbv beta in *. destruct (explicit a); [assumption|].
    intros e He. apply next_row_id_gt in He. lia.
  - intros r. rewrite add_rows_In. split; [tauto|]. intros [Hr|Hr]; [tauto|]. right. split; [assumption|apply Hpos; assumption].
  - apply add_rows_wf. assumption.
Qed.

Lemma alloc_fixed_replace : forall old req, wf_rows old ->
  alloc_statement (replace_as_add do_bulk_add_or_replace old) [] req.
Proof.
  intros old req Hwf out rs' H. unfold replace_as_add, do_bulk_add_or_replace, alloc in H.
  destruct (validate_ids [] 1 req) as [n'|] eqn:Hv; [|discriminate].
  cbn [finish] in H. inversion H; subst.
  destruct (fixed_out_facts req 1 n' (Z.le_refl 1) Hv) as [Hnd [Hpos Hsh]].
  split; [assumption|]. split; [intros r _ []|]. split; [|split].
  - eapply Forall2_impl; [|exact Hsh]. intros a b Hab. cbv beta in *. destruct (explicit a); [assumption|]. intros e [].
  - intros r. unfold doc_replace. rewrite add_rows_In. cbn [In]. split; [tauto|].
    intros [[]|Hr]. right. split; [assumption|apply Hpos; assumption].
  - apply add_rows_wf. apply wf_nil.
Qed.

(* C27_rejects at full strength for the repaired code *)
Lemma rejects_fixed : forall replace rs req, wf_rows rs ->
  rejects_statement (do_bulk_add_or_replace replace) (negb replace) rs req.
Proof.
  intros replace rs req Hwf Hbad.
  assert (E : exists e, do_bulk_add_or_replace replace rs req = Rejected e).
  { unfold do_bulk_add_or_replace, alloc.
    destruct (validate_ids [] (if replace then 1 else next_row_id rs) req) as [n'|e] eqn:Hv;
      [|eexists; reflexivity].
    destruct (validate_ok _ _ _ _ Hv) as [_ [Hg Hnd]].
    destruct Hbad as [[z [Hz1 Hz2]]|[H0|[Hd|[Hc [z [Hz1 Hz2]]]]]].
    - exfalso. destruct (Hg z Hz1) as [[G _] _]. lia.
    - exfalso. destruct (Hg 0 H0) as [[G _] _]. lia.
    - contradiction.
    - destruct replace; [discriminate|]. unfold finish, doc_bulk_add.
      assert (Hex : existsb (fun r => row_in r rs) (fill_autos n' req) = true).
      { apply existsb_exists. exists z. split; [apply fill_autos_explicit_in; assumption|].
        unfold row_in. apply andb_true_iff. split; [|apply mem_In; assumption].
        apply Z.ltb_lt. destruct Hwf as [_ Hp]. rewrite Forall_forall in Hp. apply Hp. assumption. }
      rewrite Hex. eexists; reflexivity. }
  split; [assumption|]. destruct E as [e ->]. reflexivity.
Qed.

(* ... and it does not over-reject: every request whose explicit ids are usable is accepted *)
Lemma accepts_fixed : forall replace rs req, wf_rows rs ->
  (forall z, In z (explicit_ids req) -> 0 < z <= MAX_ROW_ID /\ (replace = false -> ~ In z rs)) ->
  NoDup (explicit_ids req) ->
  exists out rs', do_bulk_add_or_replace replace rs req = Accepted out rs'.
Proof.
  intros replace rs req Hwf Hg Hnd. unfold do_bulk_add_or_replace, alloc.
  destruct (validate_accepts req [] (if replace then 1 else next_row_id rs)) as [n' Hv].
  { intros z Hz. destruct (Hg z Hz) as [G1 G2]. split; [assumption|intros []]. }
  { assumption. }
  rewrite Hv. destruct replace; cbn [finish]; [eexists; eexists; reflexivity|].
  unfold doc_bulk_add.
  destruct (existsb (fun r => row_in r rs) (fill_autos n' req)) eqn:Hex; [|eexists; eexists; reflexivity].
  exfalso. apply existsb_exists in Hex. destruct Hex as [o [Ho1 Ho2]].
  unfold row_in in Ho2. apply andb_true_iff in Ho2. destruct Ho2 as [_ Ho2]. apply mem_In in Ho2.
  destruct (validate_ok _ _ _ _ Hv) as [Hn _].
  destruct (fill_autos_elems _ _ _ Ho1) as [H|H].
  - destruct (Hg o H) as [_ G]. apply (G eq_refl). assumption.
  - apply next_row_id_gt in Ho2. lia.
Qed.

(* The repair changes nothing for requests that are purely automatic: same ids, same rows. *)
(* ================================================================================================ *)
(* Part 4: regression witnesses                                                                     *)

Lemma wf_12 : wf_rows [1; 2].
Proof. split; repeat constructor; cbn; intuition lia. Qed.


Lemma alloc_full_fixed : alloc_full do_bulk_add_or_replace.
Proof. split; [exact alloc_fixed|exact alloc_fixed_replace]. Qed.

Lemma rejects_full_fixed : rejects_full do_bulk_add_or_replace.
Proof. exact rejects_fixed. Qed.

(* the inputs on which the code failed before fix e346da4: now rejected, rejected, and given distinct ids *)
Lemma regression_witnesses :
  do_bulk_add_or_replace false [] [Some 5; Some 5] = Rejected PyValueError /\
  do_bulk_add_or_replace false [] [Some 0] = Rejected PyValueError /\
  do_bulk_add_or_replace false [1; 2] [None; Some 3; None] = Accepted [4; 3; 5] [1; 2; 4; 3; 5] /\
  do_bulk_add_or_replace true [1; 2] [Some 5; Some 5] = Rejected PyValueError /\
  do_bulk_add_or_replace true [1; 2] [Some 0] = Rejected PyValueError /\
  do_bulk_add_or_replace true [1; 2] [None; Some 1; None] = Accepted [2; 1; 3] [2; 1; 3].
Proof. repeat split; vm_compute; reflexivity. Qed.

(* the statements themselves on those inputs (instances of the general theorems, kept as named regressions) *)
Lemma regression_statements :
  alloc_statement (do_bulk_add_or_replace false) [1; 2] [None; Some 3; None] /\
  rejects_statement (do_bulk_add_or_replace false) true [] [Some 5; Some 5] /\
  rejects_statement (do_bulk_add_or_replace false) true [] [Some 0].
Proof.
  split; [apply alloc_fixed; exact wf_12|].
  split; apply (rejects_fixed false); apply wf_nil.
Qed.

(* shape of an accepted allocation (used by C26): explicit ids honoured, automatic ids >= next *)
Lemma alloc_shape : forall req n out, 1 <= n -> alloc n req = PyOk out ->
  Forall2 (fun r o => match explicit r with Some z => o = z | None => n <= o end) req out.
Proof.
  intros req n out Hn H. unfold alloc in H.
  destruct (validate_ids [] n req) as [n'|] eqn:Hv; [|discriminate]. inversion H; subst.
  apply (fixed_out_facts req n n' Hn Hv).
Qed.
