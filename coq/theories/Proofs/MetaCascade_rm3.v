(* K6 proofs, part 5: the view cascade (_removeViewRecords) and removal of column records. *)
From Coq Require Import ZArith List Bool Lia.
Import ListNotations.
Require Import Grist.Model.MetaCascade Grist.Proofs.MetaCascade_base Grist.Proofs.MetaCascade_inv
  Grist.Proofs.MetaCascade_rm Grist.Proofs.MetaCascade_rm2.
Open Scope Z_scope.

(* sections of m' are sections of m, possibly with other optional cells *)
Definition SecSub (m m' : meta) : Prop :=
  forall s', In s' (m_sections m') -> exists s, In s (m_sections m) /\ s_id s' = s_id s /\ s_table s' = s_table s.

Lemma SecSub_refl : forall m, SecSub m m.
Proof. intros m s Hs. exists s. tauto. Qed.

Lemma SecSub_trans : forall a b c, SecSub a b -> SecSub b c -> SecSub a c.
Proof.
  intros a b c H1 H2 s Hs. destruct (H2 s Hs) as [s1 [Hs1 [E1 E2]]]. destruct (H1 s1 Hs1) as [s0 [Hs0 [E3 E4]]].
  exists s0. split; [exact Hs0|]. split; congruence.
Qed.

Lemma remove_sections_frame : forall secs m m', remove_sections secs m = Ok m' ->
  m_tabbar m' = m_tabbar m /\ m_pages m' = m_pages m /\ m_views m' = m_views m /\ m_columns m' = m_columns m /\
  SecSub m m'.
Proof.
  intros secs m m' H. unfold remove_sections in H.
  destruct (negb (all_in secs (sids m))); [discriminate|].
  destruct (existsb _ (m_sections m)); [discriminate|]. inversion H; subst m'. simpl.
  repeat split; try reflexivity.
  intros s Hs. simpl in Hs. apply filter_In in Hs. exists s. tauto.
Qed.

Lemma key_filter_excl : forall (vs : list Z) (l : list (Z * Z)) (b : Z * Z),
  In b (filter (fun b0 => negb (mem (fst b0) (map fst (filter (fun b1 => mem (snd b1) vs) l)))) l) ->
  ~ In (snd b) vs.
Proof.
  intros vs l b Hb Hin. apply filter_In in Hb. destruct Hb as [Hb Hn]. apply negb_mem_true in Hn. apply Hn.
  apply in_map. apply filter_In. split; [exact Hb | apply mem_In; exact Hin].
Qed.

Lemma remove_views_inv : forall X vs m m', InvX X m -> remove_views vs m = Ok m' ->
  InvX X m' /\ m_columns m' = m_columns m /\ SecSub m m'.
Proof.
  intros X vs m m' HI H. unfold remove_views in H.
  destruct (negb (all_in vs (m_views m))); [discriminate|].
  set (m1 := rm_tabbar (map fst (filter (fun b => mem (snd b) vs) (m_tabbar m))) m) in *.
  assert (HI1 : InvX X m1) by (apply rm_tabbar_inv; exact HI).
  set (secs := map s_id (filter (fun s => mem (s_view s) vs) (m_sections m1))) in *.
  assert (Hm2 : exists m2, (if isnil secs then Ok m1 else remove_sections secs m1) = Ok m2 /\
                           m' = rm_views vs (rm_pages (map fst (filter (fun b => mem (snd b) vs) (m_pages m2))) m2)).
  { destruct (if isnil secs then Ok m1 else remove_sections secs m1) as [m2| |]; simpl in H; try discriminate.
    exists m2. split; [reflexivity | inversion H; reflexivity]. }
  destruct Hm2 as [m2 [Hm2 Em']]. clear H.
  assert (HI2 : InvX X m2 /\ m_tabbar m2 = m_tabbar m1 /\ m_columns m2 = m_columns m1 /\ SecSub m1 m2).
  { destruct (isnil secs).
    - inversion Hm2; subst m2. split; [exact HI1|]. split; [reflexivity|]. split; [reflexivity | apply SecSub_refl].
    - pose proof (remove_sections_inv X secs m1 m2 HI1 Hm2) as J.
      destruct (remove_sections_frame secs m1 m2 Hm2) as [F1 [F2 [F3 [F4 F5]]]]. tauto. }
  destruct HI2 as [HI2 [T2 [C2 S2]]].
  set (m3 := rm_pages (map fst (filter (fun b => mem (snd b) vs) (m_pages m2))) m2) in *.
  assert (HI3 : InvX X m3) by (apply rm_pages_inv; exact HI2).
  subst m'. split; [|split].
  - apply rm_views_inv; [exact HI3 | |].
    + intros b Hb. simpl in Hb. rewrite T2 in Hb. simpl in Hb. apply (key_filter_excl vs (m_tabbar m) b Hb).
    + intros b Hb. simpl in Hb. apply (key_filter_excl vs (m_pages m2) b Hb).
  - simpl. rewrite C2. reflexivity.
  - intros s' Hs'. simpl in Hs'. apply in_map_iff in Hs'. destruct Hs' as [s2 [E Hs2]]. subst s'. simpl.
    destruct (S2 s2 Hs2) as [s1 [Hs1 E1]]. exists s1. split; [exact Hs1 | exact E1].
Qed.

(* ---------------------------------------------------------------------------------------------- *)
(* column records *)

Lemma cids_rm_columns_In : forall ids m x, In x (cids m) -> ~ In x ids -> In x (cids (rm_columns ids m)).
Proof.
  intros ids m x Hx Hn. unfold cids in *. simpl. rewrite map_map. simpl.
  apply in_map_iff in Hx. destruct Hx as [c [E Hc]]. subst x.
  apply in_map_iff. exists c. split; [reflexivity|]. apply filter_In. split; [exact Hc | apply negb_mem_true; exact Hn].
Qed.

Lemma Optref_clr_cols : forall ids m x, Optref (cids m) x -> Optref (cids (rm_columns ids m)) (clr ids x).
Proof.
  intros ids m x H. destruct (clr_cases ids x) as [[_ Hz]|[Hn Hz]]; rewrite Hz; [left; reflexivity|].
  destruct H as [H|H]; [left; exact H | right; apply cids_rm_columns_In; assumption].
Qed.

Lemma incl_clrl_cols : forall ids m l, incl l (cids m) -> incl (clrl ids l) (cids (rm_columns ids m)).
Proof.
  intros ids m l H x Hx. apply clrl_In in Hx. destruct Hx as [Hx Hn]. apply cids_rm_columns_In; [apply H; exact Hx | exact Hn].
Qed.

Lemma SecOfTable_rm_columns : forall ids m sid t, SecOfTable m sid t -> SecOfTable (rm_columns ids m) sid t.
Proof.
  intros ids m sid t [s [Hs [H1 H2]]].
  exists (mkS (s_id s) (s_table s) (s_view s) (clrl ids (s_rules s)) (s_custom s)). split; [|simpl; tauto].
  simpl. apply in_map_iff. exists s. split; [reflexivity | exact Hs].
Qed.

Lemma rm_columns_inv : forall X ids m,
  InvX X m -> (forall f, In f (m_fields m) -> ~ In (f_col f) ids) -> InvX X (rm_columns ids m).
Proof.
  intros X ids m [I1 I2 I3 I4 I5 I6 I7 I8] HF. constructor.
  - destruct I1 as [A [B [C [D [E [F G]]]]]]. unfold IdsOk.
    assert (Ec : cids (rm_columns ids m) = map c_id (filter (fun c => negb (mem (c_id c) ids)) (m_columns m))).
    { unfold cids. simpl. rewrite map_map. reflexivity. }
    assert (Es : sids (rm_columns ids m) = sids m) by (unfold sids; simpl; apply map_map_id; reflexivity).
    assert (Ef : fids (rm_columns ids m) = fids m) by (unfold fids; simpl; apply map_map_id; reflexivity).
    rewrite Ec, Es, Ef. repeat split; try (apply A || apply C || apply D || apply E || apply F || apply G).
    + apply (IdList_filter_map c_id). exact B.
    + apply (IdList_filter_map c_id). exact B.
  - intros c' Hc'. simpl in Hc'. apply in_map_iff in Hc'. destruct Hc' as [c [Ec Hc]]. subst c'.
    apply filter_In in Hc. destruct Hc as [Hc Hn]. specialize (I2 c Hc). destruct I2 as [J1 [J2 [J3 [J4 J5]]]].
    unfold ColOk. simpl c_parent. simpl c_display. simpl c_visible. simpl c_src. simpl c_rules.
    split; [exact J1|].
    split; [destruct (mem (c_src c) (display_cleared ids m)); [left; reflexivity | apply Optref_clr_cols; exact J2]|].
    split; [destruct (mem (c_src c) (visible_cleared ids m)); [left; reflexivity | apply Optref_clr_cols; exact J3]|].
    split; [apply Optref_clr_cols; exact J4 | apply incl_clrl_cols; exact J5].
  - intros f' Hf'. simpl in Hf'. apply in_map_iff in Hf'. destruct Hf' as [f [Ef Hf]]. subst f'.
    specialize (HF f Hf). specialize (I3 f Hf). destruct I3 as [[sr [cr [Hs [H1 [Hc [H2 H3]]]]]] [J2 [J3 J4]]].
    destruct (clr_cases ids (f_col f)) as [[Hin _]|[_ Hz]]; [contradiction|].
    unfold FieldOk. simpl f_section. simpl f_col. simpl f_display. simpl f_visible. simpl f_rules. rewrite Hz.
    split; [|split; [apply Optref_clr_cols; exact J2 | split; [apply Optref_clr_cols; exact J3 | apply incl_clrl_cols; exact J4]]].
    exists (mkS (s_id sr) (s_table sr) (s_view sr) (clrl ids (s_rules sr)) (s_custom sr)).
    eexists. split; [simpl; apply in_map_iff; exists sr; split; [reflexivity | exact Hs]|].
    split; [exact H1|]. split.
    + simpl. apply in_map_iff. exists cr. split; [reflexivity|]. apply filter_In. split; [exact Hc|].
      apply negb_mem_true. rewrite H2. exact HF.
    + simpl. tauto.
  - intros s' Hs'. simpl in Hs'. apply in_map_iff in Hs'. destruct Hs' as [s [Es Hs]]. subst s'.
    specialize (I4 s Hs). destruct I4 as [J1 [J2 J3]]. unfold SecOk. simpl.
    split; [exact J1|]. split; [exact J2 | apply incl_clrl_cols; exact J3].
  - intros t Ht HX. simpl in Ht. specialize (I5 t Ht HX). destruct I5 as [J1 [J2 [J3 J4]]]. unfold TableOk.
    split; [apply SecOfTable_rm_columns; exact J1|].
    split; [destruct J2 as [J2|J2]; [left; exact J2 | right; apply SecOfTable_rm_columns; exact J2]|].
    split; [exact J3 | exact J4].
  - intros b Hb. simpl in *. apply I6. exact Hb.
  - intros b Hb. simpl in *. apply I7. exact Hb.
  - exact I8.
Qed.
