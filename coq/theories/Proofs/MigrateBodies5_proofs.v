(* C25 -- migration 31: the body returns (the application of its RenameTable actions is covered by the tie only). *)
From Coq Require Import ZArith Bool String List Lia.
Import ListNotations.
Require Import Grist.Model.Migrate Grist.Model.MigrateSites Grist.Model.MigrateBodies.
Require Import Grist.Proofs.Migrate_proofs Grist.Proofs.MigrateBodies_proofs.
Open Scope Z_scope.
Local Arguments zs : simpl never.

Lemma mapM_as_str : forall e l, Forall (fun v => is_text v = true) l -> exists r, mapM (as_str e) l = Ok r.
Proof.
  intros e l H. apply mapM_some. eapply Forall_impl; [|exact H]. cbn beta. intros v Hv. destruct v; try discriminate Hv. cbn. eauto.
Qed.

Section M31.
  Variable pick_table : str -> list str -> str.
  Variable re_sub : str -> str -> str -> str.
  Variable s : tds.
  Hypothesis Hcols : forall c, In c (recs T_COLUMNS s) ->
    fld_is hashable (zs "parentId") c = true /\ fld_is is_text (zs "colId") c = true /\
    fld_is is_text (zs "formula") c = true /\ has_fld (zs "summarySourceCol") c = true.
  Hypothesis Htabs : forall t, In t (recs T_TABLES s) ->
    fld_is is_text (zs "tableId") t = true /\
    fld_is (fun v => negb (val_truthy v) || (hashable v && match pd_get v (tables_by_id s) with Some _ => true | None => false end))
           (zs "summarySourceTable") t = true.

  Definition inv31 (st : list val * list (record * str)) : Prop :=
    Forall (fun v => is_text v = true) (fst st) /\ Forall (fun tr : record * str => fld_is is_text (zs "tableId") (fst tr) = true) (snd st).

  Lemma tables_by_id_vals : Forall (fun kv : val * record => In (snd kv) (recs T_TABLES s)) (tables_by_id s).
  Proof.
    unfold tables_by_id. apply (by_id_forall (fun t => In t (recs T_TABLES s))); [|constructor]. apply Forall_forall. auto.
  Qed.

  Lemma m31_table_ok : forall st t, In t (recs T_TABLES s) -> inv31 st ->
    exists st', m31_table pick_table (tables_by_id s) (recs T_COLUMNS s) st t = Ok st' /\ inv31 st'.
  Proof.
    intros [names renames] t Hin [Hn Hr]. unfold m31_table.
    destruct (Htabs t Hin) as [Htid Hsst]. unfold fld_is in Htid, Hsst.
    destruct (fld (zs "summarySourceTable") t) as [sst|]; [|discriminate Hsst]. cbn [bind].
    destruct (val_truthy sst) eqn:T; cbn [negb]; [|eexists; split; [reflexivity|split; assumption]].
    cbn [negb orb] in Hsst. apply andb_prop in Hsst. destruct Hsst as [Hh Hg]. unfold hash_key. rewrite Hh. cbn [bind].
    destruct (pd_get sst (tables_by_id s)) as [src|] eqn:G; [|discriminate Hg].
    pose proof (pd_get_forall (fun r => In r (recs T_TABLES s)) _ _ _ tables_by_id_vals G) as Hsrc.
    destruct (filterM_ok (fun c => bind (fld (zs "parentId") c) (fun p => Ok (py_eq p (rid_val (fst t))))) (recs T_COLUMNS s)) as [own [-> Io]].
    { apply Forall_forall. intros c Hc. destruct (Hcols c Hc) as [A _]. unfold fld_is in A. destruct (fld (zs "parentId") c); [|discriminate A]. cbn. eauto. }
    cbn [bind].
    destruct (filterM_ok (fun c => bind (fld (zs "summarySourceCol") c) (fun x => Ok (val_truthy x))) own) as [gb [-> Ig]].
    { apply Forall_forall. intros c Hc. destruct (Hcols c (Io c Hc)) as [_ [_ [_ A]]]. unfold has_fld in A. destruct (fld (zs "summarySourceCol") c); [|discriminate A]. cbn. eauto. }
    cbn [bind].
    destruct (mapM_ok_post (fun c => fld (zs "colId") c) (fun _ v => is_text v = true) gb) as [idvals [-> Q]].
    { apply Forall_forall. intros c Hc. destruct (Hcols c (Io c (Ig c Hc))) as [_ [A _]]. unfold fld_is in A. destruct (fld (zs "colId") c); [|discriminate A]. eauto. }
    cbn [bind].
    destruct (Htabs src Hsrc) as [Hstid _]. unfold fld_is in Hstid. destruct (fld (zs "tableId") src) as [stid|]; [|discriminate Hstid].
    destruct stid; try discriminate Hstid. cbn [bind as_str].
    destruct (mapM_as_str TypeErr idvals) as [ids ->]. { clear -Q. induction Q; constructor; auto. }
    cbn [bind]. destruct (fld (zs "tableId") t) as [tid|] eqn:Et; [|discriminate Htid]. cbn [bind].
    match goal with |- context [if ?b then Ok _ else _] => destruct b end; [eexists; split; [reflexivity|split; assumption]|].
    destruct (mapM_as_str AttrErr names Hn) as [avoid ->]. cbn [bind].
    eexists. split; [reflexivity|]. split; cbn [fst snd].
    - apply Forall_app. split; [exact Hn|repeat constructor].
    - apply Forall_app. split; [exact Hr|]. constructor; [|constructor]. cbn [fst]. unfold fld_is. rewrite Et. exact Htid.
  Qed.

  Lemma m31_loop_ok : forall ts st, (forall t, In t ts -> In t (recs T_TABLES s)) -> inv31 st ->
    exists st', m31_loop pick_table (tables_by_id s) (recs T_COLUMNS s) ts st = Ok st' /\ inv31 st'.
  Proof.
    induction ts as [|t ts IH]; intros st Hsub Hinv; cbn [m31_loop]; [eauto|].
    destruct (m31_table_ok st t (Hsub t (or_introl eq_refl)) Hinv) as [st1 [-> H1]]. cbn [bind].
    apply IH; [intros; apply Hsub; right; assumption|exact H1].
  Qed.
End M31.

Ltac step_body tac :=
  match goal with |- exists acts, bind ?A _ = _ =>
    let H := fresh "Hs" in assert (H : exists r, A = Ok r) by tac; destruct H as [? ->]; cbn [bind] end.

Lemma dedup_text : forall l acc, Forall (fun v => is_text v = true) l -> Forall (fun v => is_text v = true) acc ->
  Forall (fun v => is_text v = true) (dedup_vals l acc).
Proof.
  induction l as [|x l IH]; intros acc Hl Hacc; cbn [dedup_vals]; [exact Hacc|]. inversion Hl; subst.
  destruct (pset_mem x acc); apply IH; auto. apply Forall_app. split; [exact Hacc|constructor; [assumption|constructor]].
Qed.

Theorem m31_body_total : forall pick_table re_sub s, pre31 s = true -> exists acts, m31 pick_table re_sub s = Ok acts.
Proof.
  intros pick_table re_sub s H. unfold pre31 in H. split_pre H.
  pose proof (has_table_b_sound _ _ H) as Hc. pose proof (has_table_b_sound _ _ P3) as Ht. pose proof (has_table_b_sound _ _ P2) as Hr.
  assert (Hcols : forall c, In c (recs T_COLUMNS s) ->
    fld_is hashable (zs "parentId") c = true /\ fld_is is_text (zs "colId") c = true /\
    fld_is is_text (zs "formula") c = true /\ has_fld (zs "summarySourceCol") c = true).
  { intros c Hin. pose proof (proj1 (forallb_forall _ _) P0 c Hin) as Q. cbv beta in Q. split_pre Q. auto. }
  assert (Htabs : forall t, In t (recs T_TABLES s) ->
    fld_is is_text (zs "tableId") t = true /\
    fld_is (fun v => negb (val_truthy v) || (hashable v && match pd_get v (tables_by_id s) with Some _ => true | None => false end))
           (zs "summarySourceTable") t = true).
  { intros t Hin. pose proof (proj1 (forallb_forall _ _) P1 t Hin) as Q. cbv beta in Q. apply andb_prop in Q. exact Q. }
  unfold m31. rewrite (table_records_ok _ _ Hc), (table_records_ok _ _ Ht), (table_records_ok _ _ Hr). cbn [bind]. cbv zeta.
  fold (tables_by_id s).
  step_body ltac:(apply mapM_some; apply Forall_forall; intros c Hin; destruct (Hcols c Hin) as [A _]; unfold fld_is in A;
                  destruct (fld (zs "parentId") c); [|discriminate A]; cbn [bind]; unfold hash_key; rewrite A; eauto).
  match goal with |- exists acts, bind ?A _ = _ => assert (Hn0 : exists names0, A = Ok names0 /\ Forall (fun v => is_text v = true) names0) end.
  { match goal with |- exists names0, mapM ?f _ = _ /\ _ =>
      destruct (mapM_ok_post f (fun _ v => is_text v = true) (recs T_TABLES s)) as [n0 [E Q]] end.
    - apply Forall_forall. intros t Hin. destruct (Htabs t Hin) as [A _]. unfold fld_is in A.
      destruct (fld (zs "tableId") t) as [v|]; [|discriminate A]. destruct v; try discriminate A. cbn. eauto.
    - exists n0. split; [exact E|]. clear -Q. induction Q; constructor; auto. }
  destruct Hn0 as [names0 [-> Hnames0]]. cbn [bind].
  match goal with |- exists acts, bind ?A _ = _ => assert (Hl : exists st, A = Ok st /\ inv31 st) end.
  { apply m31_loop_ok; auto.
    - intros t Hin. apply in_map_iff in Hin. destruct Hin as [kv [<- Hkv]].
      pose proof (tables_by_id_vals s) as V. rewrite Forall_forall in V. exact (V kv Hkv).
    - split; [apply dedup_text; [exact Hnames0|constructor]|constructor]. }
  destruct Hl as [st [-> [_ Hren]]]. cbn [bind].
  step_body ltac:(apply mapM_some; eapply Forall_impl; [|exact Hren]; cbn beta; intros tr A; unfold fld_is in A;
                  destruct (fld (zs "tableId") (fst tr)) as [v|]; [|discriminate A]; destruct v; try discriminate A; cbn; eauto).
  step_body ltac:(apply mapM_some; apply Forall_forall; intros c Hin; destruct (Hcols c Hin) as [_ [_ [A _]]]; unfold fld_is in A;
                  destruct (fld (zs "formula") c) as [v|]; [|discriminate A]; destruct v; try discriminate A; cbn [bind];
                  match goal with |- context [if ?b then _ else _] => destruct b end; eauto).
  step_body ltac:(apply mapM_some; apply Forall_forall; intros r Hin;
                  pose proof (proj1 (forallb_forall _ _) P r Hin) as A; unfold fld_is in A;
                  destruct (fld (zs "tableId") r) as [v|]; [|discriminate A]; cbn [bind]; unfold hash_key; rewrite A; cbn [bind];
                  match goal with |- context [match ?X with Some _ => _ | None => _ end] => destruct X end; eauto).
  eauto.
Qed.
