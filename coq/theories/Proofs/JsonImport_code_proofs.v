(* C33 restated about the generated functions (GristGen.JsonImport_gen) through the bridge. *)
From Coq Require Import ZArith List Bool Arith Lia.
Import ListNotations.
Require Import Grist.Model.JsonImport Grist.Model.JsonImportSpec Grist.Model.JsonImportPy GristGen.JsonImport_gen.
Require Import Grist.Model.JsonImportCode.
Require Import Grist.Proofs.JsonImport_proofs Grist.Proofs.JsonImport_tables_proofs.
Require Import Grist.Proofs.JsonImport_final_proofs Grist.Proofs.JsonImport_named_proofs.
Require Import Grist.Proofs.JsonImport_bridge Grist.Proofs.JsonImport_bridge_walk.

(* every column that the generated _dump_table emits has one entry per row it was given *)
Lemma code_rectangular name (rows : list grow) :
  let '(meta, data, nm) := gen_dump_table name rows in
  nm = name /\ length meta = length data /\ forall col, In col data -> length col = length rows.
Proof.
  rewrite bridge_dump_table. unfold dumped_triple. cbn [dump_rtable t_name fst].
  split; [reflexivity|]. split; [rewrite !map_length; reflexivity|].
  intros col Hcol. apply in_map_iff in Hcol. destruct Hcol as [c [<- Hc]]. rewrite map_length.
  rewrite (dump_rtable_rectangular (name, rows) c Hc). reflexivity.
Qed.

Lemma code_table_map ts T : code_table (map dumped_triple ts) T = option_map dumped_triple (find_table T ts).
Proof.
  unfold code_table, find_table. induction ts as [|t ts IH]; cbn [map find]; [reflexivity|].
  change (snd (dumped_triple t)) with (t_name t). destruct (str_eqb (t_name t) T); [reflexivity|exact IH].
Qed.

Lemma code_parent_entry_model ts T r P q :
  tparent ts T r = Some (CR (P, q)) -> code_parent_entry (map dumped_triple ts) T r = Some (DInt (Z.of_nat q)).
Proof.
  unfold tparent, code_parent_entry. rewrite code_table_map.
  destruct (find_table T ts) as [t|]; [|discriminate]. cbn [option_map].
  destruct (t_parent t) as [c|] eqn:Ep; [|discriminate]. intros Hn.
  unfold dumped_triple, t_columns. rewrite Ep, map_app. cbn [map]. rewrite last_last, nth_error_map, Hn. reflexivity.
Qed.

Section Code.
Variables incs excs name : str.
Variable d : json.
Let inc := is_included (split_opt incs) (split_opt excs).
Let ts := import_ttables incs excs name d.

Lemma code_array_element v T k l e :
  wf_json d -> item_at d name v T -> In (k, JArr l) (fields v) -> In e l -> inc T = true -> inc (sub T k) = true ->
  exists r r', repr inc ts v T (Some r) /\ repr inc ts e (sub T k) (Some r') /\
               code_parent_entry (code_import incs excs name d) (sub T k) r' = Some (DInt (Z.of_nat r)).
Proof.
  intros Hwf Hit Hin He HiT HiK.
  destruct (import_array_element incs excs name d v T k l e Hwf Hit Hin He HiT HiK) as [r [r' [H1 [H2 H3]]]].
  exists r, r'. split; [exact H1|]. split; [exact H2|].
  rewrite code_import_model. eapply code_parent_entry_model. exact H3.
Qed.

End Code.
