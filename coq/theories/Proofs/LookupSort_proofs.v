(* Proofs about Model/Lookup.v (C13).  Part 4: SortKey is a strict total order on comparable values;
   sorted() yields the unique sorted permutation. *)
From Coq Require Import ZArith List Bool Lia QArith Permutation Sorted.
Import ListNotations.
Require Import Grist.Model.Lookup Grist.Proofs.Lookup_proofs Grist.Proofs.LookupVal_proofs.
Open Scope Z_scope.

(* comparators with the laws of a total preorder *)
Record good {A} (c : A -> A -> comparison) : Prop := {
  g_antisym : forall x y, c y x = CompOpp (c x y);
  g_eq : forall x y z, c x y = Eq -> c x z = c y z;
  g_trans : forall x y z, c x y = Lt -> c y z = Lt -> c x z = Lt }.

Lemma good_refl {A} (c : A -> A -> comparison) (G : good c) : forall x, c x x = Eq.
Proof. intros x. pose proof (g_antisym c G x x) as H. destruct (c x x); cbn in H; congruence. Qed.

Lemma good_eq_sym {A} (c : A -> A -> comparison) (G : good c) : forall x y, c x y = Eq -> c y x = Eq.
Proof. intros x y H. rewrite (g_antisym c G x y), H. reflexivity. Qed.

Lemma good_eq_r {A} (c : A -> A -> comparison) (G : good c) : forall x y z, c y z = Eq -> c x y = c x z.
Proof.
  intros x y z H. rewrite (g_antisym c G y x), (g_antisym c G z x). f_equal.
  apply (g_eq c G). exact H.
Qed.

Definition lexc {A B} (c1 : A -> A -> comparison) (c2 : B -> B -> comparison) (p q : A * B) : comparison :=
  match c1 (fst p) (fst q) with Eq => c2 (snd p) (snd q) | r => r end.

Lemma good_lex {A B} (c1 : A -> A -> comparison) (c2 : B -> B -> comparison) :
  good c1 -> good c2 -> good (lexc c1 c2).
Proof.
  intros G1 G2. split; unfold lexc.
  - intros [x1 x2] [y1 y2]. cbn. rewrite (g_antisym c1 G1 x1 y1).
    destruct (c1 x1 y1); cbn; auto. apply (g_antisym c2 G2).
  - intros [x1 x2] [y1 y2] [z1 z2]. cbn. destruct (c1 x1 y1) eqn:E1; try discriminate. intros E2.
    rewrite (g_eq c1 G1 x1 y1 z1 E1). destruct (c1 y1 z1); auto. apply (g_eq c2 G2). exact E2.
  - intros [x1 x2] [y1 y2] [z1 z2]. cbn.
    destruct (c1 x1 y1) eqn:E1; try discriminate; intros H1.
    + rewrite (g_eq c1 G1 x1 y1 z1 E1). destruct (c1 y1 z1); try discriminate; auto.
      intros H2. eapply (g_trans c2 G2); eauto.
    + destruct (c1 y1 z1) eqn:E2; try discriminate; intros H2.
      * rewrite <- (good_eq_r c1 G1 x1 y1 z1 E2), E1. reflexivity.
      * rewrite (g_trans c1 G1 x1 y1 z1 E1 E2). reflexivity.
Qed.

Lemma good_pull {A B} (f : A -> B) (c : B -> B -> comparison) : good c -> good (fun x y => c (f x) (f y)).
Proof. intros G. split; intros; [apply (g_antisym c G)|apply (g_eq c G); auto|eapply (g_trans c G); eauto]. Qed.

Lemma good_Z : good Z.compare.
Proof.
  split.
  - intros x y. apply Z.compare_antisym.
  - intros x y z H. apply Z.compare_eq in H. now subst.
  - intros x y z H1 H2. rewrite Z.compare_lt_iff in *. lia.
Qed.

Lemma good_Q : good Qcompare.
Proof.
  split.
  - intros x y. symmetry. apply Qcompare_antisym.
  - intros x y z H. apply Qeq_alt in H. now rewrite H.
  - intros x y z H1 H2. apply Qlt_alt in H1. apply Qlt_alt in H2. apply Qlt_alt. eapply Qlt_trans; eauto.
Qed.

Fixpoint str_cmp (s t : str) : comparison :=
  match s, t with
  | [], [] => Eq
  | [], _ :: _ => Lt
  | _ :: _, [] => Gt
  | a :: s', b :: t' => match Z.compare a b with Eq => str_cmp s' t' | r => r end
  end.

Lemma str_ltb_cmp : forall s t, str_ltb s t = match str_cmp s t with Lt => true | _ => false end.
Proof.
  induction s as [|a s IH]; destruct t as [|b t]; cbn; try reflexivity.
  destruct (Z.compare_spec a b) as [E|E|E].
  - subst. rewrite Z.ltb_irrefl. apply IH.
  - apply Z.ltb_lt in E. now rewrite E.
  - assert (E1 : Z.ltb a b = false) by (apply Z.ltb_ge; lia). apply Z.ltb_lt in E. now rewrite E1, E.
Qed.

Lemma str_cmp_eq : forall s t, str_cmp s t = Eq -> s = t.
Proof.
  induction s as [|a s IH]; destruct t as [|b t]; cbn; try discriminate; try reflexivity.
  destruct (Z.compare_spec a b) as [E|E|E]; try discriminate. intros H0. subst. f_equal. auto.
Qed.

Lemma good_str : good str_cmp.
Proof.
  split.
  - induction x as [|a s IH]; destruct y as [|b t]; cbn; try reflexivity.
    rewrite (Z.compare_antisym a b). destruct (Z.compare a b); cbn; auto.
  - intros x y z H. apply str_cmp_eq in H. now subst.
  - induction x as [|a s IH]; destruct y as [|b t]; destruct z as [|c u]; cbn; try discriminate; try reflexivity.
    destruct (Z.compare_spec a b) as [E1|E1|E1]; try discriminate; destruct (Z.compare_spec b c) as [E2|E2|E2];
      try discriminate; intros H1 H2.
    + subst. rewrite Z.compare_refl. eapply IH; eauto.
    + subst. apply Z.compare_lt_iff in E2. now rewrite E2.
    + subst. apply Z.compare_lt_iff in E1. now rewrite E1.
    + assert (E : a < c) by lia. apply Z.compare_lt_iff in E. now rewrite E.
Qed.

(* ------------------------------------------------------------------------------------------- *)
(* mutually comparable sort values                                                             *)

Definition sortable (v : val) : bool :=
  match v with
  | VObj c _ => negb (str_eqb c s_str) && negb (str_eqb c s_AltText)
  | VRef _ _ | VTuple _ | VList _ => false
  | _ => true
  end.

(* position of a value in the order: fallback position, then the value inside its class *)
Definition vkey (v : val) : Z * (Z * (Q * (str * (str * Z)))) :=
  match v with
  | VNone => (0, (1, (0%Q, (s_NoneType, ([], 0)))))
  | VStr s => (1, (1, (0%Q, (s_str, (s, 0)))))
  | VAlt _ => (1, (1, (0%Q, (s_AltText, ([], 0)))))
  | VObj c o => (1, (1, (0%Q, (c, ([], o)))))
  | _ => match numval v with
         | Some q => (1, (0, (q, ([], ([], 0)))))
         | None => (2, (0, (0%Q, ([], ([], 0)))))
         end
  end.

Definition kcmp := lexc Z.compare (lexc Z.compare (lexc Qcompare (lexc str_cmp (lexc str_cmp Z.compare)))).
Definition vcmp (a b : val) : comparison := kcmp (vkey a) (vkey b).

Lemma good_vcmp : good vcmp.
Proof.
  unfold vcmp. apply good_pull. unfold kcmp.
  repeat apply good_lex; try apply good_Z; try apply good_Q; apply good_str.
Qed.

Definition dec (c : comparison) (asc : bool) : colres :=
  match c with Lt => Decided asc | Gt => Decided (negb asc) | Eq => NextCol end.

Lemma Lstr : forall s t asc,
  (if str_ltb s t then Decided asc else if str_ltb t s then Decided (negb asc) else NextCol) = dec (str_cmp s t) asc.
Proof.
  intros s t asc. rewrite !str_ltb_cmp, (g_antisym str_cmp good_str s t). now destruct (str_cmp s t).
Qed.

Lemma LZ : forall x y asc,
  (if Z.ltb x y then Decided asc else if Z.ltb y x then Decided (negb asc) else NextCol) = dec (Z.compare x y) asc.
Proof.
  intros x y asc. destruct (Z.compare_spec x y) as [E|E|E]; cbn.
  - subst. now rewrite Z.ltb_irrefl.
  - apply Z.ltb_lt in E. now rewrite E.
  - assert (E1 : Z.ltb x y = false) by (apply Z.ltb_ge; lia). apply Z.ltb_lt in E. now rewrite E1, E.
Qed.

Lemma Qle_bool_cmp : forall x y, Qle_bool y x = match Qcompare x y with Lt => false | _ => true end.
Proof.
  intros x y. destruct (Qcompare_spec x y) as [E|E|E].
  - apply Qle_bool_iff. rewrite E. apply Qle_refl.
  - destruct (Qle_bool y x) eqn:H; [|reflexivity]. apply Qle_bool_iff in H. exfalso. eapply Qlt_not_le; eauto.
  - apply Qle_bool_iff. now apply Qlt_le_weak.
Qed.

Lemma sortkey_col_num : forall a b x y asc, numval a = Some x -> numval b = Some y ->
  sortkey_col a b asc = dec (Qcompare x y) asc.
Proof.
  intros a b x y asc Ha Hb.
  assert (P1 : py_lt a b = cmp_of_bool (negb (Qle_bool y x))).
  { destruct a; try discriminate; destruct b; try discriminate; cbn in *; inversion Ha; inversion Hb; reflexivity. }
  assert (P2 : py_lt b a = cmp_of_bool (negb (Qle_bool x y))).
  { destruct a; try discriminate; destruct b; try discriminate; cbn in *; inversion Ha; inversion Hb; reflexivity. }
  unfold sortkey_col. rewrite P1, P2, (Qle_bool_cmp x y), (Qle_bool_cmp y x), <- (Qcompare_antisym x y).
  now destruct (Qcompare x y).
Qed.

Lemma obj_class_ok : forall c o s, sortable (VObj c o) = true -> (s = s_str \/ s = s_AltText) -> str_cmp c s <> Eq.
Proof.
  intros c o s H Hs E. apply str_cmp_eq in E. subst c. cbn in H.
  destruct Hs as [-> | ->]; rewrite str_eqb_refl in H; cbn in H; discriminate.
Qed.

Lemma obj_class_ok2 : forall c o s, sortable (VObj c o) = true -> (s = s_str \/ s = s_AltText) -> str_cmp s c <> Eq.
Proof.
  intros c o s H Hs E. apply (good_eq_sym str_cmp good_str) in E. eapply obj_class_ok; eauto.
Qed.

Ltac obj_case H :=
  rewrite ?Lstr; unfold vcmp, kcmp, lexc; cbn [vkey fst snd numval]; cbn;
  match goal with |- context [str_cmp ?c ?s] =>
    let E := fresh "E" in destruct (str_cmp c s) eqn:E; try reflexivity;
    exfalso; first [ eapply (obj_class_ok _ _ _ H); [|exact E]; auto
                   | eapply (obj_class_ok2 _ _ _ H); [|exact E]; auto ]
  end.

Local Arguments str_ltb : simpl never.
Local Arguments str_cmp : simpl never.

Lemma sortkey_col_vcmp : forall a b asc, sortable a = true -> sortable b = true ->
  sortkey_col a b asc = dec (vcmp a b) asc.
Proof.
  intros a b asc Ha Hb.
  destruct (numval a) as [x|] eqn:Na; destruct (numval b) as [y|] eqn:Nb.
  - rewrite (sortkey_col_num a b x y asc Na Nb).
    unfold vcmp, kcmp, lexc. destruct a; try discriminate; destruct b; try discriminate; cbn in *;
      inversion Na; inversion Nb; subst; now destruct (Qcompare _ _).
  - destruct a; try discriminate; destruct b; try discriminate; reflexivity.
  - destruct a; try discriminate; destruct b; try discriminate; reflexivity.
  - destruct a; try discriminate; destruct b; try discriminate; clear Na Nb.
    all: try reflexivity.
    all: unfold sortkey_col; cbn [py_lt numval is_ref orb].
    + (* str, str *)
      unfold vcmp, kcmp, lexc; cbn [vkey fst snd]. cbn. rewrite !str_ltb_cmp, (g_antisym str_cmp good_str s s0).
      now destruct (str_cmp s s0).
    + (* str, obj *) unfold pos_ltb, fallback_pos; cbn. obj_case Hb.
    + (* alt, obj *) unfold pos_ltb, fallback_pos; cbn. obj_case Hb.
    + (* obj, str *) unfold pos_ltb, fallback_pos; cbn. obj_case Ha.
    + (* obj, alt *) unfold pos_ltb, fallback_pos; cbn. obj_case Ha.
    + (* obj, obj *)
      destruct (str_eqb cls cls0) eqn:Ec.
      * apply str_eqb_eq in Ec. subst cls0.
        unfold vcmp, kcmp, lexc; cbn [vkey fst snd]. cbn. rewrite (good_refl str_cmp good_str cls).
        rewrite ?str_eqb_refl.
        destruct (Z.compare_spec ord ord0) as [E|E|E]; cbn.
        -- subst. now rewrite Z.ltb_irrefl.
        -- apply Z.ltb_lt in E. now rewrite E.
        -- assert (E1 : Z.ltb ord ord0 = false) by (apply Z.ltb_ge; lia). apply Z.ltb_lt in E. now rewrite E1, E.
      * unfold pos_ltb, fallback_pos; cbn. rewrite Lstr.
        unfold vcmp, kcmp, lexc; cbn [vkey fst snd]. cbn.
        destruct (str_cmp cls cls0) eqn:E; try reflexivity.
        apply str_cmp_eq in E. subst. now rewrite str_eqb_refl in Ec.
Qed.

(* ------------------------------------------------------------------------------------------- *)
(* SortKey.__lt__                                                                              *)

Definition all_sortable (vs : list val) : Prop := Forall (fun v => sortable v = true) vs.

Definition colcmp (asc : bool) (a b : val) : comparison := if asc then vcmp a b else vcmp b a.

Fixpoint rowcmp (va vb : list val) (asc : list bool) (ra rb : Z) : comparison :=
  match va, vb, asc with
  | a :: va', b :: vb', s :: asc' =>
      match colcmp s a b with Eq => rowcmp va' vb' asc' ra rb | r => r end
  | _, _, _ => Z.compare ra rb
  end.

Definition is_lt (c : comparison) : bool := match c with Lt => true | _ => false end.

Lemma sortkey_lt_rowcmp : forall asc va vb ra rb, all_sortable va -> all_sortable vb ->
  sortkey_lt va vb asc ra rb = Some (is_lt (rowcmp va vb asc ra rb)).
Proof.
  induction asc as [|s asc IH]; intros va vb ra rb Ha Hb.
  - destruct va, vb; cbn; f_equal; destruct (Z.compare_spec ra rb) as [E|E|E]; cbn;
      try (subst; apply Z.ltb_irrefl); try (apply Z.ltb_lt; lia); apply Z.ltb_ge; lia.
  - destruct va as [|a va]; [|destruct vb as [|b vb]].
    1,2: cbn; f_equal; destruct (Z.compare_spec ra rb) as [E|E|E]; cbn;
      try (subst; apply Z.ltb_irrefl); try (apply Z.ltb_lt; lia); apply Z.ltb_ge; lia.
    inversion Ha; inversion Hb; subst. cbn [sortkey_lt rowcmp].
    rewrite (sortkey_col_vcmp a b s) by assumption. unfold colcmp.
    destruct s.
    + destruct (vcmp a b); cbn; auto.
    + rewrite (g_antisym vcmp good_vcmp a b). destruct (vcmp a b); cbn; auto.
Qed.

Lemma colcmp_antisym : forall s a b, colcmp s b a = CompOpp (colcmp s a b).
Proof. intros [] a b; unfold colcmp; apply (g_antisym vcmp good_vcmp). Qed.

Lemma rowcmp_antisym : forall asc va vb ra rb, rowcmp vb va asc rb ra = CompOpp (rowcmp va vb asc ra rb).
Proof.
  induction asc as [|s asc IH]; intros va vb ra rb.
  - destruct va, vb; cbn; apply Z.compare_antisym.
  - destruct va as [|a va]; destruct vb as [|b vb]; cbn; try apply Z.compare_antisym.
    rewrite (colcmp_antisym s a b). destruct (colcmp s a b); cbn; auto.
Qed.

Lemma rowcmp_eq : forall asc va vb ra rb, rowcmp va vb asc ra rb = Eq -> ra = rb.
Proof.
  induction asc as [|s asc IH]; intros va vb ra rb.
  - destruct va, vb; cbn; apply Z.compare_eq.
  - destruct va as [|a va]; destruct vb as [|b vb]; cbn; try apply Z.compare_eq.
    destruct (colcmp s a b); try discriminate. apply IH.
Qed.

Lemma colcmp_trans : forall s a b c, colcmp s a b = Lt -> colcmp s b c = Lt -> colcmp s a c = Lt.
Proof.
  intros [] a b c; unfold colcmp; intros H1 H2.
  - eapply (g_trans vcmp good_vcmp); eauto.
  - eapply (g_trans vcmp good_vcmp); eauto.
Qed.

Lemma colcmp_eq_l : forall s a b c, colcmp s a b = Eq -> colcmp s a c = colcmp s b c.
Proof.
  intros [] a b c; unfold colcmp; intros H.
  - apply (g_eq vcmp good_vcmp); auto.
  - apply (good_eq_r vcmp good_vcmp). apply (good_eq_sym vcmp good_vcmp). exact H.
Qed.

Lemma colcmp_eq_r : forall s a b c, colcmp s b c = Eq -> colcmp s a b = colcmp s a c.
Proof.
  intros s a b c H. rewrite (colcmp_antisym s b a), (colcmp_antisym s c a). f_equal.
  apply colcmp_eq_l. exact H.
Qed.

Lemma rowcmp_trans : forall asc va vb vc ra rb rc,
  length va = length asc -> length vb = length asc -> length vc = length asc ->
  rowcmp va vb asc ra rb = Lt -> rowcmp vb vc asc rb rc = Lt -> rowcmp va vc asc ra rc = Lt.
Proof.
  induction asc as [|s asc IH]; intros va vb vc ra rb rc La Lb Lc.
  - destruct va, vb, vc; try discriminate. cbn. rewrite !Z.compare_lt_iff. lia.
  - destruct va as [|a va]; destruct vb as [|b vb]; destruct vc as [|c vc]; try discriminate.
    cbn [rowcmp]. cbn in La, Lb, Lc.
    destruct (colcmp s a b) eqn:E1; try discriminate; intros H1.
    + rewrite (colcmp_eq_l s a b c E1). destruct (colcmp s b c); try discriminate; auto.
      intros H2. apply (IH va vb vc ra rb rc); try lia; assumption.
    + destruct (colcmp s b c) eqn:E2; try discriminate; intros H2.
      * now rewrite <- (colcmp_eq_r s a b c E2), E1.
      * now rewrite (colcmp_trans s a b c E1 E2).
Qed.

Theorem sortkey_lt_defined : forall va vb asc ra rb, all_sortable va -> all_sortable vb ->
  exists x, sortkey_lt va vb asc ra rb = Some x.
Proof. intros. rewrite sortkey_lt_rowcmp by assumption. eauto. Qed.

Theorem sortkey_lt_irrefl : forall va asc r, all_sortable va -> sortkey_lt va va asc r r = Some false.
Proof.
  intros va asc r H. rewrite sortkey_lt_rowcmp by assumption. f_equal.
  pose proof (rowcmp_antisym asc va va r r) as E. destruct (rowcmp va va asc r r); cbn in *; congruence.
Qed.

Theorem sortkey_lt_trichotomy : forall va vb asc ra rb, all_sortable va -> all_sortable vb -> ra <> rb ->
  (sortkey_lt va vb asc ra rb = Some true /\ sortkey_lt vb va asc rb ra = Some false) \/
  (sortkey_lt va vb asc ra rb = Some false /\ sortkey_lt vb va asc rb ra = Some true).
Proof.
  intros va vb asc ra rb Ha Hb Hne. rewrite !sortkey_lt_rowcmp by assumption.
  rewrite (rowcmp_antisym asc va vb ra rb).
  destruct (rowcmp va vb asc ra rb) eqn:E; cbn; auto.
  apply rowcmp_eq in E. contradiction.
Qed.

Theorem sortkey_lt_trans : forall va vb vc asc ra rb rc, all_sortable va -> all_sortable vb -> all_sortable vc ->
  length va = length asc -> length vb = length asc -> length vc = length asc ->
  sortkey_lt va vb asc ra rb = Some true -> sortkey_lt vb vc asc rb rc = Some true ->
  sortkey_lt va vc asc ra rc = Some true.
Proof.
  intros va vb vc asc ra rb rc Ha Hb Hc La Lb Lc. rewrite !sortkey_lt_rowcmp by assumption.
  intros H1 H2. f_equal.
  assert (E1 : rowcmp va vb asc ra rb = Lt) by (destruct (rowcmp va vb asc ra rb); cbn in H1; congruence).
  assert (E2 : rowcmp vb vc asc rb rc = Lt) by (destruct (rowcmp vb vc asc rb rc); cbn in H2; congruence).
  now rewrite (rowcmp_trans asc va vb vc ra rb rc La Lb Lc E1 E2).
Qed.

(* ------------------------------------------------------------------------------------------- *)
(* sorted() with a comparison that is a strict total order on the elements                     *)

Section SortFacts.
  Variable lt : Z -> Z -> option bool.
  Variable D : Z -> Prop.
  Hypothesis Hdef : forall a b, D a -> D b -> exists x, lt a b = Some x.
  Hypothesis Htri : forall a b, D a -> D b -> a <> b ->
    (lt a b = Some true /\ lt b a = Some false) \/ (lt a b = Some false /\ lt b a = Some true).
  Hypothesis Htrans : forall a b c, D a -> D b -> D c -> lt a b = Some true -> lt b c = Some true -> lt a c = Some true.

  Definition le (a b : Z) : Prop := a = b \/ lt a b = Some true.

  Lemma le_trans : forall a b c, D a -> D b -> D c -> le a b -> le b c -> le a c.
  Proof.
    intros a b c Da Db Dc [E1|H1] [E2|H2]; subst; unfold le; auto. right. exact (Htrans a b c Da Db Dc H1 H2).
  Qed.

  Lemma le_antisym : forall a b, D a -> D b -> le a b -> le b a -> a = b.
  Proof.
    intros a b Da Db [E1|H1] [E2|H2]; auto.
    destruct (Z.eq_dec a b) as [E|N]; [exact E|].
    destruct (Htri a b Da Db N) as [[_ X]|[X _]]; congruence.
  Qed.

  Lemma insert_sorted_spec : forall l x, D x -> Forall D l ->
    exists l', insert_sorted lt x l = Some l' /\ Permutation (x :: l) l' /\
               (StronglySorted le l -> StronglySorted le l').
  Proof.
    induction l as [|y l IH]; intros x Dx Dl; cbn [insert_sorted].
    - exists [x]. split; [reflexivity|split; [apply Permutation_refl|]]. intros _. repeat constructor.
    - inversion Dl as [|? ? Dy Dl']; subst.
      destruct (Hdef y x Dy Dx) as [[|] E]; rewrite E.
      + destruct (IH x Dx Dl') as [l' [E' [P' S']]]. rewrite E'.
        exists (y :: l'). split; [reflexivity|split].
        * eapply Permutation_trans; [apply perm_swap|]. now apply perm_skip.
        * intros Hs. inversion Hs as [|? ? Hs' Hall]; subst. constructor; [auto|].
          apply Forall_forall. intros z Hz.
          apply (Permutation_in z (Permutation_sym P')) in Hz. destruct Hz as [<-|Hz].
          -- right. exact E.
          -- rewrite Forall_forall in Hall. auto.
      + exists (x :: y :: l). split; [reflexivity|split; [apply Permutation_refl|]].
        intros Hs. constructor; [exact Hs|].
        assert (Hxy : le x y).
        { destruct (Z.eq_dec x y) as [->|N]; [left; reflexivity|]. right.
          destruct (Htri x y Dx Dy N) as [[X _]|[_ X]]; congruence. }
        constructor; [exact Hxy|].
        inversion Hs as [|? ? Hs' Hall]; subst. apply Forall_forall. intros z Hz.
        rewrite Forall_forall in Hall, Dl'. eapply (le_trans x y z); auto.
  Qed.

  Lemma sort_with_spec : forall l, Forall D l ->
    exists l', sort_with lt l = Some l' /\ Permutation l l' /\ StronglySorted le l'.
  Proof.
    induction l as [|x l IH]; intros Dl; cbn [sort_with].
    - exists []. split; [reflexivity|split; [apply Permutation_refl|constructor]].
    - inversion Dl as [|? ? Dx Dl']; subst. destruct (IH Dl') as [l1 [E1 [P1 S1]]]. rewrite E1.
      assert (Dl1 : Forall D l1).
      { apply Forall_forall. intros z Hz. rewrite Forall_forall in Dl'. apply Dl'.
        apply (Permutation_in z (Permutation_sym P1)). exact Hz. }
      destruct (insert_sorted_spec l1 x Dx Dl1) as [l2 [E2 [P2 S2]]]. exists l2.
      split; [exact E2|split; [|auto]]. eapply Permutation_trans; [apply perm_skip; exact P1|exact P2].
  Qed.

  Lemma sorted_perm_unique : forall l1 l2, Forall D l1 -> NoDup l1 -> Permutation l1 l2 ->
    StronglySorted le l1 -> StronglySorted le l2 -> l1 = l2.
  Proof.
    induction l1 as [|x l1 IH]; intros l2 Dl Nd P S1 S2.
    - apply Permutation_nil in P. now subst.
    - destruct l2 as [|y l2]; [apply Permutation_sym, Permutation_nil in P; discriminate|].
      inversion Dl as [|? ? Dx Dl1]; subst. inversion Nd as [|? ? Nx Nd1]; subst.
      inversion S1 as [|? ? S1' A1]; subst. inversion S2 as [|? ? S2' A2]; subst.
      assert (Dy : D y).
      { rewrite Forall_forall in Dl. apply Dl. apply (Permutation_in y (Permutation_sym P)). left; reflexivity. }
      assert (Exy : x = y).
      { apply le_antisym; auto.
        - assert (Hy : In y (x :: l1)) by (apply (Permutation_in y (Permutation_sym P)); left; reflexivity).
          destruct Hy as [->|Hy]; [left; reflexivity|]. rewrite Forall_forall in A1. auto.
        - assert (Hx : In x (y :: l2)) by (apply (Permutation_in x P); left; reflexivity).
          destruct Hx as [->|Hx]; [left; reflexivity|]. rewrite Forall_forall in A2. auto. }
      subst y. f_equal. apply IH; auto. eapply Permutation_cons_inv; eauto.
  Qed.

  Theorem sort_with_perm_invariant : forall l1 l2, Forall D l1 -> NoDup l1 -> Permutation l1 l2 ->
    sort_with lt l1 = sort_with lt l2.
  Proof.
    intros l1 l2 Dl Nd P.
    assert (Dl2 : Forall D l2).
    { apply Forall_forall. intros z Hz. rewrite Forall_forall in Dl. apply Dl.
      apply (Permutation_in z (Permutation_sym P)). exact Hz. }
    destruct (sort_with_spec l1 Dl) as [s1 [E1 [P1 S1]]].
    destruct (sort_with_spec l2 Dl2) as [s2 [E2 [P2 S2]]].
    rewrite E1, E2. f_equal. apply sorted_perm_unique; auto.
    - apply Forall_forall. intros z Hz. rewrite Forall_forall in Dl. apply Dl.
      apply (Permutation_in z (Permutation_sym P1)). exact Hz.
    - eapply Permutation_NoDup; eauto.
    - eapply Permutation_trans; [apply Permutation_sym; exact P1|]. eapply Permutation_trans; [exact P|exact P2].
  Qed.
End SortFacts.

(* ------------------------------------------------------------------------------------------- *)
(* rows of a table                                                                             *)

Definition rows_sortable (t : table) (spec : sortspec) (rows : list Z) : Prop :=
  forall r, In r rows -> exists vs, sort_values t spec r = Some vs /\ all_sortable vs.

Definition ascs (spec : sortspec) : list bool := map (fun c => snd (spec_col c)) spec.

Lemma sort_values_length : forall t spec r vs, sort_values t spec r = Some vs -> length vs = length spec.
Proof.
  induction spec as [|c spec IH]; cbn; intros r vs H.
  - inversion H. reflexivity.
  - destruct (tbl_get t r); [|discriminate]. destruct (row_get r0 (fst (spec_col c))); [|discriminate].
    destruct (sort_values t spec r) eqn:E; [|discriminate]. inversion H. cbn. f_equal. eapply IH; eauto.
Qed.

Theorem row_lt_strict_total : forall t spec rows, rows_sortable t spec rows ->
  (forall a b, In a rows -> In b rows -> exists x, row_lt t spec a b = Some x) /\
  (forall a, In a rows -> row_lt t spec a a = Some false) /\
  (forall a b, In a rows -> In b rows -> a <> b ->
     (row_lt t spec a b = Some true /\ row_lt t spec b a = Some false) \/
     (row_lt t spec a b = Some false /\ row_lt t spec b a = Some true)) /\
  (forall a b c, In a rows -> In b rows -> In c rows ->
     row_lt t spec a b = Some true -> row_lt t spec b c = Some true -> row_lt t spec a c = Some true).
Proof.
  intros t spec rows HS. unfold row_lt. repeat split.
  - intros a b Ha Hb. destruct (HS a Ha) as [va [-> Sa]]. destruct (HS b Hb) as [vb [-> Sb]].
    apply sortkey_lt_defined; auto.
  - intros a Ha. destruct (HS a Ha) as [va [-> Sa]]. apply sortkey_lt_irrefl; auto.
  - intros a b Ha Hb N. destruct (HS a Ha) as [va [-> Sa]]. destruct (HS b Hb) as [vb [-> Sb]].
    apply sortkey_lt_trichotomy; auto.
  - intros a b c Ha Hb Hc. destruct (HS a Ha) as [va [Ea Sa]]. destruct (HS b Hb) as [vb [Eb Sb]].
    destruct (HS c Hc) as [vc [Ec Sc]]. rewrite Ea, Eb, Ec.
    apply sortkey_lt_trans; auto; unfold ascs; rewrite map_length; eapply sort_values_length; eauto.
Qed.

Definition row_le (t : table) (spec : sortspec) (a b : Z) : Prop := a = b \/ row_lt t spec a b = Some true.

Lemma rows_sortable_forallb : forall t spec l, rows_sortable t spec l ->
  forallb (fun r => match sort_values t spec r with Some _ => true | None => false end) l = true.
Proof.
  intros t spec l H. apply forallb_forall. intros r Hr. destruct (H r Hr) as [vs [-> _]]. reflexivity.
Qed.

Theorem sort_rows_sorted_perm : forall t spec l, rows_sortable t spec l ->
  exists l', sort_rows t spec l = Some l' /\ Permutation l l' /\ StronglySorted (row_le t spec) l'.
Proof.
  intros t spec l H. unfold sort_rows. rewrite (rows_sortable_forallb t spec l H).
  destruct (row_lt_strict_total t spec l H) as [Hd [_ [Ht Htr]]].
  apply (sort_with_spec (row_lt t spec) (fun r => In r l)); auto.
  apply Forall_forall. auto.
Qed.

Theorem sort_rows_perm_invariant : forall t spec l1 l2, rows_sortable t spec l1 -> NoDup l1 -> Permutation l1 l2 ->
  sort_rows t spec l1 = sort_rows t spec l2.
Proof.
  intros t spec l1 l2 H Nd P. unfold sort_rows.
  assert (H2 : rows_sortable t spec l2).
  { intros r Hr. apply H. apply (Permutation_in r (Permutation_sym P)). exact Hr. }
  rewrite (rows_sortable_forallb t spec l1 H), (rows_sortable_forallb t spec l2 H2).
  destruct (row_lt_strict_total t spec l1 H) as [Hd [_ [Ht Htr]]].
  apply (sort_with_perm_invariant (row_lt t spec) (fun r => In r l1)); auto.
  apply Forall_forall. auto.
Qed.

(* the result depends only on the cells of the rows that are sorted *)
Lemma insert_sorted_ext : forall (lt lt' : Z -> Z -> option bool) l x,
  (forall a b, In a (x :: l) -> In b (x :: l) -> lt a b = lt' a b) ->
  insert_sorted lt x l = insert_sorted lt' x l.
Proof.
  induction l as [|y l IH]; intros x H; cbn [insert_sorted]; [reflexivity|].
  rewrite (H y x) by (cbn; auto). destruct (lt' y x) as [[|]|]; auto.
  rewrite (IH x); [reflexivity|]. intros a b Ha Hb. apply H; cbn in *; tauto.
Qed.

Lemma insert_sorted_in : forall (lt : Z -> Z -> option bool) l0 l2 w,
  insert_sorted lt w l0 = Some l2 -> forall u, In u l2 -> u = w \/ In u l0.
Proof.
  induction l0 as [|v l0 IH0]; cbn; intros l2 w Ei u Hu.
  - inversion Ei; subst. destruct Hu as [->|[]]; auto.
  - destruct (lt v w) as [[|]|]; try discriminate.
    + destruct (insert_sorted lt w l0) as [l3|] eqn:E3; [|discriminate]. inversion Ei; subst.
      destruct Hu as [->|Hu]; [right; left; reflexivity|].
      destruct (IH0 l3 w E3 u Hu); auto.
    + inversion Ei; subst. destruct Hu as [->|Hu]; auto.
Qed.

Lemma sort_with_in : forall (lt : Z -> Z -> option bool) l l', sort_with lt l = Some l' ->
  forall z, In z l' -> In z l.
Proof.
  induction l as [|y l IHl]; cbn; intros l' E z Hz.
  - inversion E; subst. exact Hz.
  - destruct (sort_with lt l) as [l1|] eqn:E1; [|discriminate].
    destruct (insert_sorted_in lt l1 l' y E z Hz) as [->|Hz1]; [left; reflexivity|right]. eapply IHl; eauto.
Qed.

Lemma sort_with_ext : forall (lt lt' : Z -> Z -> option bool) l,
  (forall a b, In a l -> In b l -> lt a b = lt' a b) -> sort_with lt l = sort_with lt' l.
Proof.
  induction l as [|x l IH]; intros H; cbn [sort_with]; [reflexivity|].
  rewrite IH by (intros; apply H; cbn; auto).
  destruct (sort_with lt' l) as [l'|] eqn:E; [|reflexivity].
  apply insert_sorted_ext. intros a b Ha Hb.
  assert (Hsub : forall z, In z (x :: l') -> In z (x :: l)).
  { intros z [->|Hz]; [left; reflexivity|right]. eapply sort_with_in; eauto. }
  apply H; apply Hsub; assumption.
Qed.

Theorem sort_rows_ext : forall t t' spec l, (forall r, In r l -> sort_values t spec r = sort_values t' spec r) ->
  sort_rows t spec l = sort_rows t' spec l.
Proof.
  intros t t' spec l H. unfold sort_rows.
  assert (E : forallb (fun r => match sort_values t spec r with Some _ => true | None => false end) l =
              forallb (fun r => match sort_values t' spec r with Some _ => true | None => false end) l).
  { induction l as [|x l IH]; cbn; [reflexivity|]. rewrite (H x) by (left; reflexivity).
    f_equal. apply IH. intros r Hr. apply H. right. exact Hr. }
  rewrite E. match goal with |- (if ?c then _ else _) = _ => destruct c end; [|reflexivity].
  apply sort_with_ext. intros a b Ha Hb. unfold row_lt. now rewrite (H a Ha), (H b Hb).
Qed.
