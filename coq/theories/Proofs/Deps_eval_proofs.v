(* One evaluation step of the executable model (DepsEval.eval_exec) is a step the C05 kernel accepts. *)
From Coq Require Import ZArith List Bool Lia.
Import ListNotations.
Require Import Grist.Model.Deps Grist.Model.DepsSpec Grist.Model.DepsExec Grist.Model.DepsEval.
Require Import Grist.Proofs.DepsSpec_proofs.
Require Import Grist.Proofs.Deps_closure_proofs Grist.Proofs.Deps_inval_proofs Grist.Proofs.Deps_order_proofs.
Require Import Grist.Proofs.Deps_rel_proofs Grist.Proofs.Deps_refine_proofs.
Open Scope Z_scope.

Lemma rel_eqb_eq a : forall b, rel_eqb a b = true -> a = b.
Proof.
  induction a as [| | c | a1 IH1 a2 IH2 | m n]; intros [| | c' | b1 b2 | m' n'] H; cbn in H; try discriminate; auto.
  - apply Z.eqb_eq in H. congruence.
  - apply andb_true_iff in H. destruct H as [H1 H2]. rewrite (IH1 _ H1), (IH2 _ H2). reflexivity.
  - apply andb_true_iff in H. destruct H as [H1 H2]. apply Z.eqb_eq in H1, H2. congruence.
Qed.

Lemma edge_eqb_eq (a b : edge) : edge_eqb a b = true -> a = b.
Proof.
  destruct a as [[o i] r], b as [[o' i'] r']. unfold edge_eqb, e_out, e_in, e_rel. cbn [fst snd].
  intros H. apply andb_true_iff in H. destruct H as [H Hr]. apply andb_true_iff in H. destruct H as [Ho Hi].
  apply Z.eqb_eq in Ho, Hi. apply rel_eqb_eq in Hr. congruence.
Qed.

Lemma add_edge_incl E e e' : In e E -> In e (add_edge E e').
Proof. unfold add_edge. destruct (existsb _ E); auto. intros H. apply in_or_app. auto. Qed.

Lemma add_edge_has E e : In e (add_edge E e).
Proof.
  unfold add_edge. destruct (existsb (edge_eqb e) E) eqn:X.
  - apply existsb_exists in X. destruct X as (e' & H1 & H2). apply edge_eqb_eq in H2. subst. exact H1.
  - apply in_or_app. right. left. reflexivity.
Qed.

Lemma record_reads_incl n tr : forall E e, In e E -> In e (record_reads E n tr).
Proof.
  unfold record_reads. induction tr as [| a tr IH]; intros E e H; cbn [fold_left]; auto.
  apply IH. apply add_edge_incl. exact H.
Qed.

Lemma record_reads_has n tr : forall E a, In a tr -> In (n, fst (acell a), snd (fst a)) (record_reads E n tr).
Proof.
  unfold record_reads. induction tr as [| b tr IH]; intros E a Ha; [destruct Ha |].
  destruct Ha as [-> | H]; cbn [fold_left].
  - apply (record_reads_incl n tr). apply add_edge_has.
  - apply IH. exact H.
Qed.

(* R' keeps, for every lookup relation, the registrations of all rows other than r0 *)
Definition lk_sim (r0 : row) (R R' : relst) : Prop :=
  (forall c t, inv R c t = inv R' c t) /\ (forall m t, lkkeys R m t = lkkeys R' m t) /\
  (forall m n p, fst p <> r0 -> (In p (lkrows R m n) <-> In p (lkrows R' m n))).

Lemma lk_sim_refl r0 R : lk_sim r0 R R.
Proof. repeat split; auto. Qed.

Lemma lk_sim_trans r0 R1 R2 R3 : lk_sim r0 R1 R2 -> lk_sim r0 R2 R3 -> lk_sim r0 R1 R3.
Proof.
  intros (a1 & a2 & a3) (b1 & b2 & b3). split; [| split]; intros.
  - rewrite a1. apply b1.
  - rewrite a2. apply b2.
  - rewrite (a3 m n p H). apply b3. exact H.
Qed.

Lemma set_lkrows_sim r0 R m n l :
  (forall p, fst p <> r0 -> (In p (lkrows R m n) <-> In p l)) -> lk_sim r0 R (set_lkrows R m n l).
Proof.
  intros H. split; [| split]; auto. intros m' n' p Hp. cbn [set_lkrows lkrows].
  destruct (Z.eqb m' m && Z.eqb n' n) eqn:E; [| tauto].
  apply andb_true_iff in E. destruct E as [E1 E2]. apply Z.eqb_eq in E1, E2. subst. apply H. exact Hp.
Qed.

Lemma reset_rows_sim r0 via : forall R, lk_sim r0 R (reset_rows R via (Rows [r0])).
Proof.
  induction via as [| | c | a IHa b IHb | m n]; intros R; cbn [reset_rows]; try apply lk_sim_refl.
  - apply IHa.
  - apply set_lkrows_sim. intros p Hp. rewrite filter_In. split; [| tauto].
    intros H. split; auto. cbn [zmem existsb]. rewrite orb_false_r.
    apply negb_true_iff. apply Z.eqb_neq. exact Hp.
Qed.

Lemma reset_dependencies_sim r0 E n : forall R, lk_sim r0 R (reset_dependencies E R n (Rows [r0])).
Proof.
  unfold reset_dependencies. induction E as [| e E IH]; intros R; cbn [fold_left]; [apply lk_sim_refl |].
  eapply lk_sim_trans; [| apply IH]. destruct (Z.eqb (e_out e) n); [apply reset_rows_sim | apply lk_sim_refl].
Qed.

Lemma add_lookups_sim r0 n lks : forall R, lk_sim r0 R (add_lookups R n r0 lks).
Proof.
  unfold add_lookups. induction lks as [| [m k] lks IH]; intros R; cbn [fold_left]; [apply lk_sim_refl |].
  eapply lk_sim_trans; [| apply IH]. unfold add_lookup. cbn [fst snd]. apply set_lkrows_sim.
  intros p Hp. cbn [In]. split; auto. intros [<- | H]; auto. cbn [fst] in Hp. contradiction.
Qed.

Lemma aff_l_no_look R R' via :
  (forall c t, inv R c t = inv R' c t) -> (forall m t, lkkeys R m t = lkkeys R' m t) ->
  no_look via = true -> forall l, aff_l R via l = aff_l R' via l.
Proof.
  intros Hi Hk. induction via as [| | c | a IHa b IHb | m n]; intros H l; cbn [aff_l no_look] in *; auto;
    try discriminate.
  - apply flat_map_ext'. intros t. apply Hi.
  - apply andb_true_iff in H. destruct H as [Ha Hb]. rewrite (IHb Hb). apply IHa. exact Ha.
Qed.

Lemma aff_l_sim r0 R R' via :
  lk_sim r0 R R' -> head_look via = true ->
  forall l rr, rr <> r0 -> In rr (aff_l R via l) -> In rr (aff_l R' via l).
Proof.
  intros (Hi & Hk & Hl). induction via as [| | c | a IHa b IHb | m n]; intros H l rr Hr Hin;
    cbn [aff_l head_look] in *; auto.
  - rewrite <- (flat_map_ext' (inv R c) (inv R' c) l (Hi c)). exact Hin.
  - apply andb_true_iff in H. destruct H as [Ha Hb].
    rewrite <- (aff_l_no_look R R' b Hi Hk Hb). apply IHa; auto.
  - apply rows_by_keys_In in Hin. destruct Hin as (k & H1 & H2). apply rows_by_keys_In. exists k. split.
    + apply (Hl m n (rr, k)); auto.
    + rewrite <- (flat_map_ext' (lkkeys R m) (lkkeys R' m) l (Hk m)). exact H2.
Qed.

Lemma lk_sim_agree r0 n R R' :
  lk_sim r0 R R' -> (forall m k, k <> n -> lkrows R m k = lkrows R' m k) ->
  agree_except (fun k => Z.eqb k n) R R'.
Proof.
  intros (a & b & _) H. repeat split; auto. intros m k Hk. apply H. apply Z.eqb_neq. exact Hk.
Qed.

Lemma reset_rows_other via n : forall R x m k, rel_owner via n = true -> k <> n ->
  lkrows (reset_rows R via x) m k = lkrows R m k.
Proof.
  induction via as [| | c | a IHa b IHb | m' n']; intros R x m k Ho Hk; cbn [reset_rows]; auto.
  - cbn [rel_owner] in Ho. apply andb_true_iff in Ho. apply IHa; tauto.
  - cbn [rel_owner] in Ho. apply Z.eqb_eq in Ho. subst n'.
    destruct x; cbn [set_lkrows lkrows]; destruct (Z.eqb k n) eqn:E;
      try (apply Z.eqb_eq in E; contradiction); rewrite andb_false_r; reflexivity.
Qed.

Lemma reset_dependencies_other E n x : owner_ok E -> forall R m k, k <> n ->
  lkrows (reset_dependencies E R n x) m k = lkrows R m k.
Proof.
  unfold reset_dependencies. induction E as [| e E IH]; intros Ho R m k Hk; cbn [fold_left]; auto.
  rewrite IH; auto.
  - destruct (Z.eqb (e_out e) n) eqn:X; auto. apply Z.eqb_eq in X.
    apply (reset_rows_other (e_rel e) n); auto. rewrite <- X. apply Ho. left. reflexivity.
  - intros e' He'. apply Ho. right. exact He'.
Qed.

Lemma add_lookups_other n r lks : forall R m k, k <> n -> lkrows (add_lookups R n r lks) m k = lkrows R m k.
Proof.
  unfold add_lookups. induction lks as [| [m' key] lks IH]; intros R m k Hk; cbn [fold_left]; auto.
  rewrite IH; auto. unfold add_lookup. cbn [set_lkrows lkrows fst snd].
  destruct (Z.eqb k n) eqn:E; [apply Z.eqb_eq in E; contradiction |]. rewrite andb_false_r. reflexivity.
Qed.

Lemma in_map_remove M c x : in_map (map_remove M c) x = true -> in_map M x = true.
Proof.
  destruct x as [xn xr]. unfold in_map, map_remove. cbn [fst snd].
  destruct (Z.eqb xn (fst c)) eqn:E; auto. destruct (M xn) as [[| l] |]; auto.
  cbn [in_rowset]. intros H. apply zmem_In in H. apply filter_In in H. apply zmem_In. tauto.
Qed.

Lemma in_map_remove_other l M c x :
  M (fst c) = Some (Rows l) -> x <> c -> in_map M x = true -> in_map (map_remove M c) x = true.
Proof.
  intros HM Hx. destruct x as [xn xr]. destruct c as [cn cr]. unfold in_map, map_remove. cbn [fst snd] in *.
  destruct (Z.eqb xn cn) eqn:E; auto. apply Z.eqb_eq in E. subst xn. rewrite HM. cbn [in_rowset].
  intros H. apply zmem_In. apply filter_In. split; [apply zmem_In; exact H |].
  apply negb_true_iff. apply Z.eqb_neq. intros ->. apply Hx. reflexivity.
Qed.

Lemma in_map_remove_self l M c : M (fst c) = Some (Rows l) -> in_map (map_remove M c) c = false.
Proof.
  intros HM. destruct c as [cn cr]. unfold in_map, map_remove. cbn [fst snd] in *. rewrite Z.eqb_refl, HM.
  cbn [in_rowset]. destruct (zmem cr (rows_remove cr l)) eqn:X; auto.
  apply zmem_In in X. apply filter_In in X. destruct X as [_ X]. rewrite Z.eqb_refl in X. discriminate.
Qed.

Definition noguard : state -> cell -> cell -> (Z -> Z) -> Prop := fun _ _ _ _ => False.

(* evaluation of the dirty cell c of a formula whose reads are all covered eagerly (field access through
   identity / reference / lookup-result relations; lks = the lookup registrations it makes) *)
Theorem eval_exec_ok v f g c t lks l :
  f c = Some t -> g_map g (fst c) = Some (Rows l) -> in_map (g_map g) c = true ->
  Forall (fun a => f (acell a) <> None -> in_map (g_map g) (acell a) = false) (trace v t) ->
  owner_ok (g_edges g) -> (forall e, In e (g_edges g) -> head_look (e_rel e) = true) ->
  (* what the monitor checks on the implementation: after the evaluation every read is covered *)
  Forall (fun a => covers (g_rel (snd (eval_exec v g c t lks))) (snd (fst a)) (snd (acell a)) (snd c) = true)
         (trace v t) ->
  eval_ok noguard (to_state v f g) c t
          (to_state (fst (eval_exec v g c t lks)) f (snd (eval_exec v g c t lks))).
Proof.
  intros Hf HM Hd Hclean Ho Hh Hcov.
  set (R1 := reset_dependencies (g_edges g) (g_rel g) (fst c) (Rows [snd c])).
  set (R2 := add_lookups R1 (fst c) (snd c) lks).
  assert (Hsim : lk_sim (snd c) (g_rel g) R2).
  { eapply lk_sim_trans; [apply reset_dependencies_sim | apply add_lookups_sim]. }
  assert (Hother : forall m k, k <> fst c -> lkrows (g_rel g) m k = lkrows R2 m k).
  { intros m k Hk. unfold R2. rewrite add_lookups_other; auto. unfold R1.
    rewrite reset_dependencies_other; auto. }
  constructor; cbn [to_state val fml dirty edges rst eval_exec fst snd g_edges g_rel g_map].
  - exact Hf.
  - exact Hd.
  - exact Hclean.
  - reflexivity.
  - reflexivity.
  - intros x Hx Hdx. eapply in_map_remove_other; eauto.
  - intros _. rewrite Forall_forall in *. intros a Ha. left. split.
    + exists (snd (fst a)). cbn [to_state edges rst]. split.
      * apply record_reads_has. exact Ha.
      * apply (Hcov a Ha).
    + intros Hfa. cbn [to_state fml dirty] in *.
      destruct (in_map (map_remove (g_map g) c) (acell a)) eqn:X; auto.
      apply in_map_remove in X. rewrite (Hclean a Ha Hfa) in X. discriminate.
  - intros d x Hd1 Hd0. apply in_map_remove in Hd1. rewrite Hd1 in Hd0. discriminate.
  - intros d x Hx _ _ (via & Hin & Hc). cbn [to_state edges rst] in *. exists via. split.
    + apply record_reads_incl. exact Hin.
    + pose proof (Ho _ Hin) as Hown. cbn [e_rel e_out fst snd] in Hown.
      destruct (Z.eq_dec (fst x) (fst c)) as [E | E].
      * apply covers_In. apply covers_In in Hc.
        apply (aff_l_sim (snd c) (g_rel g) R2 via Hsim (Hh _ Hin)); auto.
        intros X. apply Hx. destruct x, c. cbn [fst snd] in *. congruence.
      * unfold covers in *.
        rewrite <- (affected_agree (fun k => Z.eqb k (fst c)) (g_rel g) R2 via (fst x)
                      (lk_sim_agree _ _ _ _ Hsim Hother) Hown); auto.
        apply Z.eqb_neq. exact E.
  - intros x d p _ _ _ [].
Qed.
