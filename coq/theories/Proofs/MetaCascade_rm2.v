(* K6 proofs, part 4: removal of section records and of view records. *)
From Coq Require Import ZArith List Bool Lia.
Import ListNotations.
Require Import Grist.Model.MetaCascade Grist.Proofs.MetaCascade_base Grist.Proofs.MetaCascade_inv
  Grist.Proofs.MetaCascade_rm.
Open Scope Z_scope.

Lemma tids_rm_sections : forall ids m, tids (rm_sections ids m) = tids m.
Proof. intros. unfold tids. simpl. apply map_map_id. reflexivity. Qed.

Lemma fids_rm_sections : forall ids m, fids (rm_sections ids m) = fids m.
Proof. intros. unfold fids. simpl. apply map_map_id. reflexivity. Qed.

Lemma names_rm_sections : forall ids m, map t_name (m_tables (rm_sections ids m)) = map t_name (m_tables m).
Proof. intros. simpl. apply map_map_id. reflexivity. Qed.

Lemma SecOfTable_rm_sections : forall ids m sid t,
  SecOfTable m sid t -> ~ In sid ids -> SecOfTable (rm_sections ids m) sid t.
Proof.
  intros ids m sid t [s [Hs [H1 H2]]] Hn. exists s. split; [|tauto].
  simpl. apply filter_In. split; [exact Hs|]. apply negb_mem_true. rewrite H1. exact Hn.
Qed.

Lemma rm_sections_inv : forall X ids m,
  InvX X m ->
  (forall f, In f (m_fields m) -> ~ In (f_section f) ids) ->
  (forall t, In t (m_tables m) -> ~ In (t_id t) X -> ~ In (t_raw t) ids) ->
  InvX X (rm_sections ids m).
Proof.
  intros X ids m [I1 I2 I3 I4 I5 I6 I7 I8] HF HT. constructor.
  - destruct I1 as [A [B [C [D [E [F G]]]]]]. unfold IdsOk.
    rewrite tids_rm_sections, fids_rm_sections. repeat split; try (apply A || apply B || apply C || apply E || apply F || apply G).
    + apply (IdList_filter_map s_id). exact D.
    + apply (IdList_filter_map s_id). exact D.
  - intros c Hc. simpl in Hc. specialize (I2 c Hc). unfold ColOk in *. rewrite tids_rm_sections. exact I2.
  - intros f' Hf'. simpl in Hf'. apply in_map_iff in Hf'. destruct Hf' as [f [Ef Hf]]. subst f'.
    specialize (I3 f Hf). specialize (HF f Hf). destruct I3 as [[sr [cr [Hs [H1 [Hc [H2 H3]]]]]] [J2 [J3 J4]]].
    destruct (clr_cases ids (f_section f)) as [[Hin _]|[_ Hc0]]; [contradiction|].
    unfold FieldOk. simpl. rewrite Hc0. split; [|auto].
    exists sr, cr. split; [|tauto].
    apply filter_In. split; [exact Hs|]. apply negb_mem_true. rewrite H1. exact HF.
  - intros s Hs. simpl in Hs. apply filter_In in Hs. destruct Hs as [Hs _]. specialize (I4 s Hs).
    unfold SecOk in *. rewrite tids_rm_sections. exact I4.
  - intros t' Ht' HX. simpl in Ht'. apply in_map_iff in Ht'. destruct Ht' as [t [Et Ht]]. subst t'. simpl in HX.
    specialize (I5 t Ht HX). specialize (HT t Ht HX). destruct I5 as [J1 [J2 [J3 J4]]].
    unfold TableOk. simpl t_raw. simpl t_card. simpl t_id. simpl t_pview. simpl t_src.
    destruct (clr_cases ids (t_raw t)) as [[Hin _]|[_ Hr]]; [contradiction|]. rewrite Hr.
    split; [apply SecOfTable_rm_sections; assumption|].
    split.
    + destruct (clr_cases ids (t_card t)) as [[_ Hz]|[Hn Hz]]; rewrite Hz; [left; reflexivity|].
      destruct J2 as [J2|J2]; [left; exact J2 | right; apply SecOfTable_rm_sections; assumption].
    + rewrite tids_rm_sections. split; assumption.
  - intros b Hb. simpl in *. apply I6. exact Hb.
  - intros b Hb. simpl in *. apply I7. exact Hb.
  - unfold NamesOk. rewrite names_rm_sections. exact I8.
Qed.

(* _doRemoveViewSectionRecords *)
Lemma remove_sections_raw_inv : forall X secs m,
  InvX X m ->
  (forall t, In t (m_tables m) -> ~ In (t_id t) X -> ~ In (t_raw t) secs) ->
  InvX X (remove_sections_raw secs m).
Proof.
  intros X secs m HI HT. unfold remove_sections_raw. apply rm_sections_inv.
  - apply rm_fields_inv. exact HI.
  - intros f Hf Hin. simpl in Hf. apply filter_In in Hf. destruct Hf as [Hf Hn].
    apply negb_mem_true in Hn. apply Hn. apply (in_map_filter f_id); [exact Hf | apply mem_In; exact Hin].
  - simpl. exact HT.
Qed.

(* the user-level removal refuses raw sections, which is what the invariant needs *)
Lemma remove_sections_inv : forall X secs m m',
  InvX X m -> remove_sections secs m = Ok m' -> InvX X m'.
Proof.
  intros X secs m m' HI H. unfold remove_sections in H.
  destruct (negb (all_in secs (sids m))); [discriminate|].
  destruct (existsb _ (m_sections m)) eqn:E; [discriminate|]. inversion H; subst m'. clear H.
  apply remove_sections_raw_inv; [exact HI|].
  intros t Ht HX Hin. destruct (inv_tab X m HI t Ht HX) as [[s [Hs [H1 H2]]] _].
  assert (Ht' : existsb (fun s0 => mem (s_id s0) secs && (is_raw m s0 || is_card m s0)) (m_sections m) = true).
  { apply existsb_exists. exists s. split; [exact Hs|]. apply andb_true_iff. split.
    - apply mem_In. rewrite H1. exact Hin.
    - apply orb_true_iff. left. unfold is_raw. apply existsb_exists. exists t. split; [exact Ht|].
      apply andb_true_iff. split; apply Z.eqb_eq; congruence. }
  congruence.
Qed.

(* ---------------------------------------------------------------------------------------------- *)
(* views *)

Lemma tids_rm_views : forall ids m, tids (rm_views ids m) = tids m.
Proof. intros. unfold tids. simpl. apply map_map_id. reflexivity. Qed.

Lemma sids_rm_views : forall ids m, sids (rm_views ids m) = sids m.
Proof. intros. unfold sids. simpl. apply map_map_id. reflexivity. Qed.

Lemma Optref_rm_views : forall ids (vs : list Z) x,
  Optref vs x -> Optref (filter (fun v => negb (mem v ids)) vs) (clr ids x).
Proof.
  intros ids vs x H. destruct (clr_cases ids x) as [[_ Hz]|[Hn Hz]]; rewrite Hz; [left; reflexivity|].
  destruct H as [H|H]; [left; exact H | right]. apply filter_In. split; [exact H | apply negb_mem_true; exact Hn].
Qed.

Lemma SecOfTable_rm_views : forall ids m sid t, SecOfTable m sid t -> SecOfTable (rm_views ids m) sid t.
Proof.
  intros ids m sid t [s [Hs [H1 H2]]].
  exists (mkS (s_id s) (s_table s) (clr ids (s_view s)) (s_rules s) (s_custom s)). split; [|simpl; tauto].
  simpl. apply in_map_iff. exists s. split; [reflexivity | exact Hs].
Qed.

Lemma rm_views_inv : forall X ids m,
  InvX X m ->
  (forall b, In b (m_tabbar m) -> ~ In (snd b) ids) ->
  (forall b, In b (m_pages m) -> ~ In (snd b) ids) ->
  InvX X (rm_views ids m).
Proof.
  intros X ids m [I1 I2 I3 I4 I5 I6 I7 I8] HB HP. constructor.
  - destruct I1 as [A [B [C [D [E [F G]]]]]]. unfold IdsOk.
    rewrite tids_rm_views, sids_rm_views. simpl m_tabbar. simpl m_pages. rewrite !map_map. simpl.
    repeat split; try (apply A || apply B || apply D || apply E || apply F || apply G).
    + apply (IdList_filter _ _ C).
    + apply (IdList_filter _ _ C).
  - intros c Hc. simpl in Hc. specialize (I2 c Hc). unfold ColOk in *. rewrite tids_rm_views. exact I2.
  - intros f Hf. simpl in Hf. specialize (I3 f Hf). destruct I3 as [[sr [cr [Hs [H1 [Hc [H2 H3]]]]]] J].
    split; [|exact J].
    exists (mkS (s_id sr) (s_table sr) (clr ids (s_view sr)) (s_rules sr) (s_custom sr)), cr. simpl.
    split; [apply in_map_iff; exists sr; split; [reflexivity | exact Hs] | tauto].
  - intros s' Hs'. simpl in Hs'. apply in_map_iff in Hs'. destruct Hs' as [s [Es Hs]]. subst s'.
    specialize (I4 s Hs). destruct I4 as [J1 [J2 J3]]. unfold SecOk. simpl. rewrite tids_rm_views.
    split; [exact J1|]. split; [apply Optref_rm_views; exact J2 | exact J3].
  - intros t' Ht' HX. simpl in Ht'. apply in_map_iff in Ht'. destruct Ht' as [t [Et Ht]]. subst t'. simpl in HX.
    specialize (I5 t Ht HX). destruct I5 as [J1 [J2 [J3 J4]]]. unfold TableOk. simpl.
    split; [apply SecOfTable_rm_views; exact J1|].
    split; [destruct J2 as [J2|J2]; [left; exact J2 | right; apply SecOfTable_rm_views; exact J2]|].
    split; [apply Optref_rm_views; exact J3 | rewrite tids_rm_views; exact J4].
  - intros b' Hb'. simpl in Hb'. apply in_map_iff in Hb'. destruct Hb' as [b [Eb Hb]]. subst b'. simpl.
    specialize (HB b Hb). destruct (clr_cases ids (snd b)) as [[Hin _]|[_ Hz]]; [contradiction|]. rewrite Hz.
    apply filter_In. split; [apply I6; exact Hb | apply negb_mem_true; exact HB].
  - intros b' Hb'. simpl in Hb'. apply in_map_iff in Hb'. destruct Hb' as [b [Eb Hb]]. subst b'. simpl.
    specialize (HP b Hb). destruct (clr_cases ids (snd b)) as [[Hin _]|[_ Hz]]; [contradiction|]. rewrite Hz.
    apply filter_In. split; [apply I7; exact Hb | apply negb_mem_true; exact HP].
  - unfold NamesOk. simpl. rewrite map_map. simpl. exact I8.
Qed.
