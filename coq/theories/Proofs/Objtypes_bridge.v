(* Bridging lemmas (C24): gen_encode_object / gen_decode_object, GENERATED from objtypes.py on every run
   (gen/Objtypes_gen.v), equal encode_f / decode_f of Model/Values.v for every fuel, value and oracle. *)
From Coq Require Import ZArith List Bool Lia String.
Import ListNotations.
Require Import Grist.Lib.PyFloat Grist.Model.Values Grist.Model.ValuesPy Grist.Model.ValuesPyEnc.
Require Import GristGen.Objtypes_gen Grist.Proofs.Usertypes_bridge.
Open Scope Z_scope.

Ltac unf_enc :=
  unfold fl_try_e, p_list, p_list_add, p_index, p_slice_from, p_bool, p_is_pending, p_is_censored, p_table_id, p_row_id,
    p_stub_row_ids, p_value_repr, p_zone_name, p_encodable_row_ids, p_items, p_encode_args, p_decode_args, p_reflookup,
    p_ts_to_dt, p_ts_to_date, tag in *.
Ltac crush_enc :=
  unf_enc; unf; unfold run_flow in *; cbn -[str_eqb Z.pow str_of_Z]; rewrite ?str_eqb_nil_r;
  repeat (first [split_match_eq | progress (unf_enc; unf; unfold run_flow in * )]; cbn -[str_eqb Z.pow str_of_Z]); auto; try congruence.

Ltac short_enc :=
  unfold is_int_short, Objtypes_gen.gen_is_int_short in *;
  change (- 2 ^ 31) with (-2147483648) in *; change (2 ^ 31) with 2147483648 in *.

Lemma map_result_ok_map : forall {A B} (f : A -> B) l, map_result (fun x => Ok (f x)) l = Ok (map f l).
Proof. intros A B f l. induction l as [|x t IH]; [reflexivity|]. cbn [map_result bind map]. rewrite IH. reflexivity. Qed.

Section Bridge.
Variable orc : oracles.

Lemma gen_short : forall b z, Objtypes_gen.gen_is_int_short (PInt b z) = Ok (is_int_short z).
Proof. intros b z. unfold Objtypes_gen.gen_is_int_short, is_int_short, r_and, p_le, p_lt. cbn. destruct (_ <=? z); reflexivity. Qed.

Lemma all_str_keys : forall l : list (value * value),
  all_m (fun v_key => Ok (p_isinstance [C_str] v_key)) (map fst l) = Ok (forallb (fun kv => is_str (fst kv)) l).
Proof.
  induction l as [|[k x] t IH]; [reflexivity|]. cbn [map fst all_m forallb bind]. rewrite IH. destruct k; reflexivity.
Qed.

(* {str(key): rec(val) for key, val in d.items()} when every key is a str *)
Lemma dict_items_enc : forall (rec_ : value -> result value) (f : value -> value) (l : list (value * value)),
  (forall x, rec_ x = Ok (f x)) -> forallb (fun kv => is_str (fst kv)) l = true ->
  map_result (fun kv_ : value * value => let '(v_key, v_val) := kv_ in
              bind (p_str orc v_key) (fun a => bind (rec_ v_val) (fun b => Ok (a, b)))) l =
  Ok (map (fun kv => (str_key (fst kv), f (snd kv))) l).
Proof.
  intros rec_ f l Hrec H. induction l as [|[k x] t IH]; [reflexivity|]. cbn [forallb fst] in H.
  apply andb_true_iff in H as [Hk Ht]. cbn [map_result map fst snd]. rewrite (IH Ht), Hrec.
  destruct k; try discriminate. reflexivity.
Qed.

Lemma dict_items_fail : forall e kv (l : list (value * value)), is_str (fst kv) = true ->
  map_result (fun kv_ : value * value => let '(v_key, _) := kv_ in
              bind (p_str orc v_key) (fun _ => (Raise e : result (value * value)))) (kv :: l) = Raise e.
Proof. intros e [k x] l H. destruct k; try discriminate. reflexivity. Qed.

Theorem bridge_encode : forall n v, gen_encode_object orc n v = Ok (encode_f orc n v).
Proof.
  induction n as [|n IH]; intros v.
  - destruct v; try (cbn [gen_encode_object encode_f]; crush_enc; fail).
    + destruct sub; cbn [gen_encode_object encode_f safe_repr py_repr py_str]; short_enc; unfold p_str, py_str; crush_enc.
    + destruct l; cbn [gen_encode_object encode_f]; crush_enc.
    + destruct l; cbn [gen_encode_object encode_f]; crush_enc.
    + (* dict, no stack left *)
      cbn [gen_encode_object encode_f]. unfold fl_try_e, fl_seq, fl_bind, r_not, r_and, p_iter, p_items.
      cbn [p_type_in p_is_none p_isinstance existsb type_is1 isinstance1 orb py_iter bind]. rewrite all_str_keys. cbn [bind].
      destruct (forallb (fun kv => is_str (fst kv)) l) eqn:E; cbn [negb]; [|reflexivity].
      destruct l as [|kv l]; [reflexivity|].
      cbn [forallb] in E. apply andb_true_iff in E as [Ek _]. cbn [bind]. rewrite (dict_items_fail _ kv l Ek). reflexivity.
  - destruct v; try (cbn [gen_encode_object encode_f]; crush_enc; fail).
    + destruct sub; cbn [gen_encode_object encode_f safe_repr py_repr py_str]; short_enc; unfold p_str, py_str; crush_enc.
    + (* list *)
      cbn [gen_encode_object encode_f]. unfold fl_try_e, fl_seq, fl_bind, p_iter.
      cbn [p_type_in p_is_none p_isinstance existsb type_is1 isinstance1 orb py_iter bind].
      rewrite (map_result_ext (fun v_item => gen_encode_object orc n v_item) (fun x => Ok (encode_f orc n x)) l IH), map_result_ok_map.
      destruct l; reflexivity.
    + cbn [gen_encode_object encode_f]. unfold fl_try_e, fl_seq, fl_bind, p_iter.
      cbn [p_type_in p_is_none p_isinstance existsb type_is1 isinstance1 orb py_iter bind].
      rewrite (map_result_ext (fun v_item => gen_encode_object orc n v_item) (fun x => Ok (encode_f orc n x)) l IH), map_result_ok_map.
      destruct l; reflexivity.
    + (* dict *)
      cbn [gen_encode_object encode_f]. unfold fl_try_e, fl_seq, fl_bind, r_not, r_and, p_iter, p_items.
      cbn [p_type_in p_is_none p_isinstance existsb type_is1 isinstance1 orb py_iter bind]. rewrite all_str_keys. cbn [bind].
      destruct (forallb (fun kv => is_str (fst kv)) l) eqn:E; cbn [negb]; [|reflexivity].
      cbn [bind]. rewrite (dict_items_enc (fun x => gen_encode_object orc n x) (encode_f orc n) l IH E). destruct l; reflexivity.
Qed.
(* walking through decode_object without unfolding the flow combinators: cbn reduces them as their heads reduce *)
Ltac walk :=
  repeat (cbn -[str_eqb Str str_of_Z Z.pow shift_or dict_get ts_to_dt ts_to_date];
          first [ match goal with H : forall v : value, gen_decode_object _ _ v = _ |- _ => rewrite H end
                | match goal with
                  | |- context [match ?x with _ => _ end] =>
                      lazymatch x with
                      | context [match _ with _ => _ end] => fail
                      | _ => destruct x eqn:?
                      end
                  end
                | progress unfold bind, fl_bind ]);
  cbn -[str_eqb Str str_of_Z Z.pow shift_or dict_get ts_to_dt ts_to_date]; auto; try congruence.

Local Open Scope string_scope.
Ltac code c := match goal with |- context [str_eqb ?s (Str c)] => destruct (str_eqb s (Str c)) eqn:? end.

Lemma dict_items_dec_fail : forall e (kv : value * value) l,
  map_result (fun kv_ : value * value => let '(_, _) := kv_ in (Raise e : result (value * value))) (kv :: l) = Raise e.
Proof. intros e [k x] l. reflexivity. Qed.

Lemma dict_items_dec : forall (rec_ : value -> result value) (f : value -> value) (l : list (value * value)),
  (forall x, rec_ x = Ok (f x)) ->
  map_result (fun kv_ : value * value => let '(v_key, v_val) := kv_ in
              bind (rec_ v_key) (fun a => bind (rec_ v_val) (fun b => Ok (a, b)))) l =
  Ok (map (fun kv => (f (fst kv), f (snd kv))) l).
Proof.
  intros rec_ f l H. induction l as [|[k x] t IH]; [reflexivity|]. cbn [map_result map fst snd]. rewrite IH, !H. reflexivity.
Qed.

Ltac dec_common args :=
  code "R"; [destruct args as [|a0 [|a1 rest]]; walk|]; code "r"; [destruct args as [|a0 [|a1 rest]]; walk|];
  code "D"; [destruct args as [|a0 [|a1 rest]]; unfold p_ts_to_dt; walk|];
  code "d"; [destruct args as [|a0 rest]; unfold p_ts_to_date; walk|];
  code "E"; [destruct args as [|a0 rest]; unfold p_decode_args; walk|].
Ltac dec_tail args :=
  code "l"; [unfold p_reflookup; walk|].
Ltac dec_end args := code "P"; [walk|]; code "C"; [walk|]; code "U"; destruct args; walk.

Theorem bridge_decode : forall n v, gen_decode_object orc n v = Ok (decode_f orc n v).
Proof.
  induction n as [|n IH]; intros v.
  - destruct v; try (cbn; reflexivity);
      (destruct l as [|c args]; [cbn; reflexivity|]; destruct c; try (cbn; reflexivity);
       cbn -[str_eqb Str str_of_Z Z.pow shift_or dict_get ts_to_dt ts_to_date];
       dec_common args; (code "L"; [destruct args; walk|]); dec_tail args;
       (code "O"; [destruct args as [|d rest]; [walk|]; destruct d; try (walk; fail); destruct l; walk|]);
       dec_end args).
  - destruct v; try (cbn; reflexivity);
      (destruct l as [|c args]; [cbn; reflexivity|]; destruct c; try (cbn; reflexivity);
       cbn -[str_eqb Str str_of_Z Z.pow shift_or dict_get ts_to_dt ts_to_date];
       dec_common args;
       (code "L"; [rewrite (map_result_ext (fun v_item => gen_decode_object orc n v_item) (fun x => Ok (decode_f orc n x)) args IH),
                           map_result_ok_map; destruct args; walk|]);
       dec_tail args;
       (code "O"; [destruct args as [|d rest]; [walk|]; destruct d; try (walk; fail);
                   cbn -[str_eqb Str str_of_Z Z.pow shift_or dict_get ts_to_dt ts_to_date];
                   rewrite (dict_items_dec (gen_decode_object orc n) (decode_f orc n) l IH); destruct l; walk|]);
       dec_end args).
Qed.

End Bridge.
