(* invalidate_deps from an ALL_ROWS start (schema edits): independence of the order of the edge set. *)
From Coq Require Import ZArith List Bool Lia.
Import ListNotations.
Require Import Grist.Model.Deps Grist.Model.DepsSpec Grist.Model.DepsExec.
Require Import Grist.Proofs.Deps_closure_proofs Grist.Proofs.Deps_inval_proofs Grist.Proofs.Deps_order_proofs.
Require Import Grist.Proofs.Deps_rel_proofs Grist.Proofs.Deps_refine_proofs Grist.Proofs.Deps_schema_proofs.
Open Scope Z_scope.

Lemma aff_l_nil R via : aff_l R via [] = [].
Proof.
  induction via as [| | c | a IHa b IHb | m n]; cbn [aff_l flat_map]; auto.
  - rewrite IHb. exact IHa.
  - apply rows_by_keys_nil.
Qed.

(* fully dirty columns of the map have their dependents (through ALL_ROWS-passing edges) fully dirty too;
   true of the empty map *)
Definition closed_all (E : list edge) (R : relst) (M : mapT) : Prop :=
  forall e, In e E -> is_all (M (e_in e)) = true -> batch_in M (e_out e, affected R (e_rel e) AllRows).

Section OrderAll.
Variables (E1 E2 : list edge) (R : relst) (M : mapT) (N1 N2 : list node).
Hypothesis Hsame : forall e, In e E1 <-> In e E2.
Hypothesis Ho1 : owner_ok E1.
Hypothesis Hclosed : closed_all E1 R M.
Variables (n0 : node) (inc : bool) (f1 f2 : nat) (g1 g2 : gst).
Hypothesis H1 : invalidate_deps f1 (mkG E1 R M N1) n0 AllRows inc = Some g1.
Hypothesis H2 : invalidate_deps f2 (mkG E2 R M N2) n0 AllRows inc = Some g2.

Lemma Ho2' : owner_ok E2.
Proof. intros e He. apply Ho1. apply Hsame. exact He. Qed.

Lemma reach_all_in_g2 n x : RBi E1 R n0 AllRows inc n x -> batch_in (g_map g2) (n, x).
Proof.
  destruct (invalidate_deps_spec f2 (mkG E2 R M N2) n0 AllRows inc g2 Ho2' H2) as (Hm & Hs & Hc).
  cbn [g_edges g_rel g_map] in *.
  assert (Step : forall n x e, RBi E1 R n0 AllRows inc n x -> batch_in (g_map g2) (n, x) -> In e E1 -> e_in e = n ->
                 batch_in (g_map g2) (e_out e, affected R (e_rel e) x)).
  { intros n1 x1 e Hr Hb He Hn. destruct (RBi_all _ _ _ _ _ _ Hr) as [-> | ->].
    - destruct (is_all (M n1)) eqn:A.
      + apply (batch_in_mono M); auto. apply Hclosed; auto. rewrite Hn. exact A.
      + destruct (fresh_row (old_rows M n1)) as [r Hr0].
        assert (N0 : in_map M (n1, r) = false).
        { unfold in_map, old_rows in *. cbn [fst snd]. destruct (M n1) as [[| o] |]; auto; discriminate. }
        destruct (Hc (n1, r) (Hb r eq_refl) N0) as (y & Hy & Hp & Hcb). cbn [fst snd] in *.
        destruct (RBi_all _ _ _ _ _ _ Hp) as [-> | ->]; [| discriminate].
        apply (Hcb e (proj1 (Hsame e) He) Hn).
    - rewrite affected_rows, aff_l_nil. intros r Hr0. discriminate Hr0. }
  induction 1 as [Hi | e Hi He Hn | n x e Hr IH He Hn].
  - rewrite Hi in Hs. exact Hs.
  - rewrite Hi in Hs. apply (Hs e (proj1 (Hsame e) He) Hn).
  - apply (Step n x e Hr IH He Hn).
Qed.

Lemma order_all_le c : in_map (g_map g1) c = true -> in_map (g_map g2) c = true.
Proof.
  intros Hc1.
  destruct (invalidate_deps_spec f1 (mkG E1 R M N1) n0 AllRows inc g1 Ho1 H1) as (_ & _ & Hc).
  destruct (invalidate_deps_spec f2 (mkG E2 R M N2) n0 AllRows inc g2 Ho2' H2) as (Hm2 & _ & _).
  cbn [g_edges g_rel g_map] in *.
  destruct (in_map M c) eqn:X; [apply Hm2; exact X |].
  destruct (Hc c Hc1 X) as (x & Hx & Hp & _).
  pose proof (reach_all_in_g2 _ _ Hp (snd c) Hx) as Hb. cbn [fst] in Hb. destruct c. exact Hb.
Qed.

End OrderAll.

Theorem invalidate_all_order_irrelevant E1 E2 R M N1 N2 n0 inc f1 f2 g1 g2 :
  (forall e, In e E1 <-> In e E2) -> owner_ok E1 -> closed_all E1 R M ->
  invalidate_deps f1 (mkG E1 R M N1) n0 AllRows inc = Some g1 ->
  invalidate_deps f2 (mkG E2 R M N2) n0 AllRows inc = Some g2 ->
  forall c, in_map (g_map g1) c = in_map (g_map g2) c.
Proof.
  intros Hs Ho Hc H1 H2 c.
  assert (Hs' : forall e, In e E2 <-> In e E1) by (intros e; symmetry; apply Hs).
  assert (Ho' : owner_ok E2) by (intros e He; apply Ho; apply Hs; exact He).
  assert (Hc' : closed_all E2 R M) by (intros e He; apply Hc; apply Hs; exact He).
  destruct (in_map (g_map g1) c) eqn:A.
  - symmetry. eapply (order_all_le E1 E2); eauto.
  - destruct (in_map (g_map g2) c) eqn:B; auto.
    rewrite (order_all_le E2 E1 R M N2 N1 Hs' Ho' Hc' n0 inc f2 f1 g2 g1 H2 H1 c B) in A. discriminate.
Qed.

Lemma closed_all_empty E R : closed_all E R (fun _ => None).
Proof. intros e _ H. discriminate H. Qed.
