(* K6 proofs, part 13: updates of optional references in existing records (display columns, rules, options). *)
From Coq Require Import ZArith List Bool Lia.
Import ListNotations.
Require Import Grist.Model.MetaCascade Grist.Proofs.MetaCascade_base Grist.Proofs.MetaCascade_inv
  Grist.Proofs.MetaCascade_rm Grist.Proofs.MetaCascade_add Grist.Proofs.MetaCascade_add2
  Grist.Proofs.MetaCascade_add3.
Open Scope Z_scope.

Lemma map_columns_inv : forall X m (h : crec -> crec),
  InvX X m -> (forall c, c_id (h c) = c_id c /\ c_parent (h c) = c_parent c) ->
  (forall c, In c (m_columns m) -> ColOk m (h c)) ->
  InvX X (set_columns m (map h (m_columns m))).
Proof.
  intros X m h [I1 I2 I3 I4 I5 I6 I7 I8] Hh HC.
  assert (Ec : cids (set_columns m (map h (m_columns m))) = cids m).
  { unfold cids, set_columns. simpl. apply map_map_id. intros c. apply Hh. }
  constructor; try assumption.
  - unfold IdsOk in *. rewrite Ec. exact I1.
  - intros c' Hc'. simpl in Hc'. apply in_map_iff in Hc'. destruct Hc' as [c [E Hc]]. subst c'.
    specialize (HC c Hc). unfold ColOk in *. rewrite Ec. exact HC.
  - intros f Hf. specialize (I3 f Hf). destruct I3 as [[sr [cr [Hs [H1 [Hc [H2 H3]]]]]] J].
    unfold FieldOk. rewrite Ec. split; [|exact J].
    exists sr, (h cr). destruct (Hh cr) as [E1 E2]. split; [exact Hs|]. split; [exact H1|].
    split; [simpl; apply in_map; exact Hc|]. split; congruence.
  - intros s Hs. specialize (I4 s Hs). unfold SecOk in *. rewrite Ec. exact I4.
Qed.

Lemma map_fields_inv : forall X m (h : frec -> frec),
  InvX X m -> (forall f, f_id (h f) = f_id f) -> (forall f, In f (m_fields m) -> FieldOk m (h f)) ->
  InvX X (set_fields m (map h (m_fields m))).
Proof.
  intros X m h [I1 I2 I3 I4 I5 I6 I7 I8] Hh HF.
  assert (Ef : fids (set_fields m (map h (m_fields m))) = fids m).
  { unfold fids, set_fields. simpl. apply map_map_id. exact Hh. }
  constructor; try assumption.
  - unfold IdsOk in *. rewrite Ef. exact I1.
  - intros f' Hf'. simpl in Hf'. apply in_map_iff in Hf'. destruct Hf' as [f [E Hf]]. subst f'. apply (HF f Hf).
Qed.

Lemma map_sections_inv : forall X m (h : srec -> srec),
  InvX X m -> (forall s, s_id (h s) = s_id s /\ s_table (h s) = s_table s) ->
  (forall s, In s (m_sections m) -> SecOk m (h s)) ->
  InvX X (set_sections m (map h (m_sections m))).
Proof.
  intros X m h [I1 I2 I3 I4 I5 I6 I7 I8] Hh HS.
  assert (Es : sids (set_sections m (map h (m_sections m))) = sids m).
  { unfold sids, set_sections. simpl. apply map_map_id. intros s. apply Hh. }
  assert (Hsec : forall sid t, SecOfTable m sid t -> SecOfTable (set_sections m (map h (m_sections m))) sid t).
  { intros sid t [s [Hs [H1 H2]]]. exists (h s). destruct (Hh s) as [E1 E2].
    split; [simpl; apply in_map; exact Hs | split; congruence]. }
  constructor; try assumption.
  - unfold IdsOk in *. rewrite Es. exact I1.
  - intros f Hf. specialize (I3 f Hf). destruct I3 as [[sr [cr [Hs [H1 [Hc [H2 H3]]]]]] J].
    split; [|exact J]. exists (h sr), cr. destruct (Hh sr) as [E1 E2].
    split; [simpl; apply in_map; exact Hs|]. split; [congruence|]. split; [exact Hc|]. split; congruence.
  - intros s' Hs'. simpl in Hs'. apply in_map_iff in Hs'. destruct Hs' as [s [E Hs]]. subst s'. apply (HS s Hs).
  - intros t Ht Hx. specialize (I5 t Ht Hx). destruct I5 as [J1 [J2 [J3 J4]]]. unfold TableOk.
    split; [apply Hsec; exact J1|].
    split; [destruct J2 as [J2|J2]; [left; exact J2 | right; apply Hsec; exact J2] | split; assumption].
Qed.

Lemma ColOk_with_display : forall m c d, ColOk m c -> Optref (cids m) d -> ColOk m (with_display d c).
Proof. intros m c d [J1 [J2 [J3 [J4 J5]]]] Hd. unfold ColOk, with_display. simpl. tauto. Qed.

Lemma ColOk_with_crules : forall m c r, ColOk m c -> incl r (cids m) -> ColOk m (with_crules r c).
Proof. intros m c r [J1 [J2 [J3 [J4 J5]]]] Hr. unfold ColOk, with_crules. simpl. tauto. Qed.

Lemma upd_column_inv : forall X i g m,
  InvX X m -> (forall c, c_id (g c) = c_id c /\ c_parent (g c) = c_parent c) ->
  (forall c, In c (m_columns m) -> ColOk m (g c)) -> InvX X (upd_column i g m).
Proof.
  intros X i g m HI Hg HC. unfold upd_column. apply map_columns_inv; [exact HI | |].
  - intros c. destruct (c_id c =? i); [apply Hg | split; reflexivity].
  - intros c Hc. destruct (c_id c =? i); [apply HC; exact Hc | apply (inv_col X m HI c Hc)].
Qed.

Lemma upd_field_inv : forall X i g m,
  InvX X m -> (forall f, f_id (g f) = f_id f) -> (forall f, In f (m_fields m) -> FieldOk m (g f)) ->
  InvX X (upd_field i g m).
Proof.
  intros X i g m HI Hg HF. unfold upd_field. apply map_fields_inv; [exact HI | |].
  - intros f. destruct (f_id f =? i); [apply Hg | reflexivity].
  - intros f Hf. destruct (f_id f =? i); [apply HF; exact Hf | apply (inv_fld X m HI f Hf)].
Qed.

Lemma upd_section_inv : forall X i g m,
  InvX X m -> (forall s, s_id (g s) = s_id s /\ s_table (g s) = s_table s) ->
  (forall s, In s (m_sections m) -> SecOk m (g s)) -> InvX X (upd_section i g m).
Proof.
  intros X i g m HI Hg HS. unfold upd_section. apply map_sections_inv; [exact HI | |].
  - intros s. destruct (s_id s =? i); [apply Hg | split; reflexivity].
  - intros s Hs. destruct (s_id s =? i); [apply HS; exact Hs | apply (inv_sec X m HI s Hs)].
Qed.

Lemma set_col_display_inv : forall X c d m, InvX X m -> Optref (cids m) d -> InvX X (set_col_display c d m).
Proof.
  intros X c d m HI Hd. unfold set_col_display. apply map_columns_inv; [exact HI | |].
  - intros cr. destruct ((c_id cr =? c) || _); split; reflexivity.
  - intros cr Hcr. pose proof (inv_col X m HI cr Hcr) as J.
    destruct ((c_id cr =? c) || _); [apply ColOk_with_display; assumption | exact J].
Qed.

(* _add_or_update_helper_col *)
Lemma helper_col_inv : forall X t old set reuse m m1 r,
  InvX X m -> In t (tids m) -> helper_col t old set reuse m = Ok (m1, r) ->
  InvX X m1 /\ m_fields m1 = m_fields m /\ incl (cids m) (cids m1) /\
  (forall d, r = Some d -> Optref (cids m1) d).
Proof.
  intros X t old set reuse m m1 r HI Ht H. unfold helper_col in H.
  destruct (negb set).
  { inversion H; subst. split; [exact HI|]. split; [reflexivity|]. split; [apply incl_refl|].
    intros d Hd. inversion Hd. left. reflexivity. }
  destruct (display_users m old =? 1)%nat.
  { inversion H; subst. split; [exact HI|]. split; [reflexivity|]. split; [apply incl_refl|]. intros d Hd. discriminate. }
  destruct (reuse =? 0).
  { pose proof (do_add_column_inv X t K_DISPLAY 0 m HI Ht) as J.
    destruct (do_add_column_extend t K_DISPLAY 0 m) as [E1 E2].
    destruct (do_add_column t K_DISPLAY 0 m) as [m2 h]. simpl in *. inversion H; subst m1 r. clear H.
    split; [exact J|]. rewrite E1. unfold extend, cids. simpl. rewrite app_nil_r, map_app.
    split; [reflexivity|]. split; [apply incl_appl, incl_refl|].
    intros d Hd. inversion Hd; subst d. right. apply in_app_iff. right. left. rewrite E2. reflexivity. }
  destruct (existsb _ (m_columns m)) eqn:Ex; [|discriminate].
  inversion H; subst m1 r. split; [exact HI|]. split; [reflexivity|]. split; [apply incl_refl|].
  intros d Hd. inversion Hd; subst d. right. apply existsb_exists in Ex. destruct Ex as [c [Hc Hp]].
  apply andb_true_iff in Hp. destruct Hp as [Hp _]. apply andb_true_iff in Hp. destruct Hp as [Hp _].
  apply Z.eqb_eq in Hp. rewrite <- Hp. unfold cids. apply in_map. exact Hc.
Qed.
