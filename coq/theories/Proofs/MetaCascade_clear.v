(* K6 proofs: a pointwise rewrite of column and field records that keeps ids, parents and mandatory references
   and only clears optional ones (or shrinks rule lists) keeps the invariant.  Used for type changes. *)
From Coq Require Import ZArith List Bool Lia.
Import ListNotations.
Require Import Grist.Model.MetaCascade Grist.Proofs.MetaCascade_base Grist.Proofs.MetaCascade_inv
  Grist.Proofs.MetaCascade_rm Grist.Proofs.MetaCascade_add3.
Open Scope Z_scope.

Definition col_weaker (c' c : crec) : Prop :=
  c_id c' = c_id c /\ c_parent c' = c_parent c /\ c_src c' = c_src c /\
  (c_display c' = 0 \/ c_display c' = c_display c) /\ (c_visible c' = 0 \/ c_visible c' = c_visible c) /\
  incl (c_rules c') (c_rules c).

Definition field_weaker (f' f : frec) : Prop :=
  f_id f' = f_id f /\ f_section f' = f_section f /\ f_col f' = f_col f /\
  (f_display f' = 0 \/ f_display f' = f_display f) /\ (f_visible f' = 0 \/ f_visible f' = f_visible f) /\
  f_rules f' = f_rules f.

Lemma col_weaker_refl : forall c, col_weaker c c.
Proof. intros c. unfold col_weaker. repeat split; try (right; reflexivity). apply incl_refl. Qed.
Lemma field_weaker_refl : forall f, field_weaker f f.
Proof. intros f. unfold field_weaker. repeat split; right; reflexivity. Qed.

Lemma weaken_records_inv : forall X m (gc : crec -> crec) (gf : frec -> frec),
  InvX X m -> (forall c, col_weaker (gc c) c) -> (forall f, field_weaker (gf f) f) ->
  InvX X (mkM (m_tables m) (map gc (m_columns m)) (m_views m) (m_sections m) (map gf (m_fields m))
              (m_tabbar m) (m_pages m) (m_schema m)).
Proof.
  intros X m gc gf [I1 I2 I3 I4 I5 I6 I7 I8] Hc Hf.
  set (m' := mkM (m_tables m) (map gc (m_columns m)) (m_views m) (m_sections m) (map gf (m_fields m))
                 (m_tabbar m) (m_pages m) (m_schema m)).
  assert (Ecid : cids m' = cids m).
  { unfold cids, m'. cbn [m_columns]. apply map_map_id. intros c. apply (Hc c). }
  assert (Efid : fids m' = fids m).
  { unfold fids, m'. cbn [m_fields]. apply map_map_id. intros f. apply (Hf f). }
  assert (Etid : tids m' = tids m) by reflexivity.
  constructor.
  - unfold IdsOk in *. rewrite Ecid, Efid, Etid. exact I1.
  - intros c' Hc'. cbn [m_columns m'] in Hc'. apply in_map_iff in Hc'. destruct Hc' as [c [E Hin]]. subst c'.
    destruct (I2 c Hin) as [J1 [J2 [J3 [J4 J5]]]]. destruct (Hc c) as [_ [H2 [H3 [H4 [H5 H6]]]]].
    unfold ColOk. rewrite Ecid, Etid, H2, H3.
    split; [exact J1|].
    split; [destruct H4 as [H4|H4]; rewrite H4; [left; reflexivity | exact J2]|].
    split; [destruct H5 as [H5|H5]; rewrite H5; [left; reflexivity | exact J3]|].
    split; [exact J4 | intros x Hx; apply J5; apply H6; exact Hx].
  - intros f' Hf'. cbn [m_fields m'] in Hf'. apply in_map_iff in Hf'. destruct Hf' as [f [E Hin]]. subst f'.
    destruct (I3 f Hin) as [[sr [cr [Hs [H1 [Hcr [H2 H3]]]]]] [J2 [J3 J4]]].
    destruct (Hf f) as [_ [G2 [G3 [G4 [G5 G6]]]]].
    unfold FieldOk. rewrite Ecid, G2, G3, G6. split.
    + exists sr, (gc cr). destruct (Hc cr) as [E1 [E2 _]]. cbn [m_sections m_columns m'].
      split; [exact Hs|]. split; [exact H1|]. split; [apply in_map; exact Hcr|]. split; congruence.
    + split; [destruct G4 as [G4|G4]; rewrite G4; [left; reflexivity | exact J2]|].
      split; [destruct G5 as [G5|G5]; rewrite G5; [left; reflexivity | exact J3] | exact J4].
  - intros s Hs. specialize (I4 s Hs). unfold SecOk in *. rewrite Ecid, Etid. exact I4.
  - intros t Ht Hx. specialize (I5 t Ht Hx). unfold TableOk, SecOfTable in *. rewrite Etid. exact I5.
  - exact I6.
  - exact I7.
  - exact I8.
Qed.

Lemma modify_type_inv : forall X col newreft compatible changed gchanged m m',
  InvX X m -> modify_type col newreft compatible changed gchanged m = Ok m' -> InvX X m'.
Proof.
  intros X col newreft compatible changed gchanged m m' HI H. unfold modify_type in H.
  destruct (find_column m col); [|discriminate].
  destruct (is_summary_table m (c_parent c)); [discriminate|].
  destruct compatible; [inversion H; subst; exact HI|].
  inversion H; subst m'. clear H. apply weaken_records_inv; [exact HI | |].
  - intros x. destruct ((c_id x =? col) || (c_src x =? col)); [|apply col_weaker_refl].
    unfold col_weaker. simpl. repeat split; try (left; reflexivity). apply incl_refl.
  - intros f. destruct (mem (f_col f) _); [|apply field_weaker_refl].
    unfold field_weaker. simpl. repeat split; left; reflexivity.
Qed.
