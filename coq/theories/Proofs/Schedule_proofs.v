(* Lemmas about the model of Schedule.series (C35). *)
From Coq Require Import ZArith List Bool Lia Arith.
Import ListNotations.
Require Import Grist.Model.Schedule.
Open Scope Z_scope.

Section Proofs.
  Variable T : Type.
  Variable lt : T -> T -> Prop.
  Variable ltb : T -> T -> bool.
  (* time is a strict total order and ltb decides it *)
  Hypothesis ltb_lt : forall a b, ltb a b = true <-> lt a b.
  Hypothesis lt_irrefl : forall a, ~ lt a a.
  Hypothesis lt_trans : forall a b c, lt a b -> lt b c -> lt a c.
  Hypothesis lt_total : forall a b, lt a b \/ a = b \/ lt b a.
  Variable next : T -> T.
  Variable slots : list (T -> T).
  Variable round_down : T -> T.

  Definition le (a b : T) : Prop := ~ lt b a.

  Local Notation run_slots := (run_slots T ltb).
  Local Notation series_from := (series_from T ltb next slots).
  Local Notation series := (series T ltb next slots round_down).
  Local Notation instants := (instants T slots).
  Local Notation period := (period T next).
  Local Notation enum := (enum T next slots).
  Local Notation in_range := (in_range T ltb).
  Local Notation after_end := (after_end T ltb).
  Local Notation spec := (spec T ltb next slots round_down).
  Local Notation yield := (yield T).
  Local Notation emit := (emit T).

  (* ---------------- order facts ---------------- *)
  Lemma ltb_false : forall a b, ltb a b = false <-> ~ lt a b.
  Proof.
    intros a b. rewrite <- ltb_lt. destruct (ltb a b); split; intro H.
    - discriminate.
    - exfalso; apply H; reflexivity.
    - intro; discriminate.
    - reflexivity.
  Qed.

  Lemma le_lt_trans : forall a b c, le a b -> lt b c -> lt a c.
  Proof.
    intros a b c Hab Hbc. unfold le in Hab.
    destruct (lt_total a b) as [H|[H|H]].
    - eapply lt_trans; eassumption.
    - subst; assumption.
    - contradiction.
  Qed.

  Lemma lt_le_trans : forall a b c, lt a b -> le b c -> lt a c.
  Proof.
    intros a b c Hab Hbc. unfold le in Hbc.
    destruct (lt_total b c) as [H|[H|H]].
    - eapply lt_trans; eassumption.
    - subst; assumption.
    - contradiction.
  Qed.

  Lemma lt_asym : forall a b, lt a b -> ~ lt b a.
  Proof. intros a b H1 H2. apply (lt_irrefl a). eapply lt_trans; eassumption. Qed.

  (* ---------------- strictly sorted lists ---------------- *)
  Fixpoint ssorted (l : list T) : Prop :=
    match l with
    | [] => True
    | a :: r => (forall y, In y r -> lt a y) /\ ssorted r
    end.

  Lemma ssorted_app : forall l1 l2,
    ssorted (l1 ++ l2) <-> ssorted l1 /\ ssorted l2 /\ (forall x y, In x l1 -> In y l2 -> lt x y).
  Proof.
    induction l1 as [|a r IH]; intros l2; cbn [app ssorted].
    - split; [intros H; repeat split; [assumption | intros x y []] | intros (_ & H & _); assumption].
    - rewrite IH. split.
      + intros (Ha & Hr & H2 & Hx). repeat split; try assumption.
        * intros y Hy. apply Ha. apply in_or_app; left; assumption.
        * intros x y [<-|Hin] Hy; [apply Ha; apply in_or_app; right; assumption | apply Hx; assumption].
      + intros ((Ha & Hr) & H2 & Hx). repeat split; try assumption.
        * intros y Hy. apply in_app_or in Hy. destruct Hy as [Hy|Hy]; [apply Ha; assumption|].
          apply Hx; [left; reflexivity | assumption].
        * intros x y Hin Hy. apply Hx; [right; assumption | assumption].
  Qed.

  Lemma ssorted_filter : forall f l, ssorted l -> ssorted (filter f l).
  Proof.
    induction l as [|a r IH]; cbn [filter ssorted]; [trivial|]. intros [Ha Hr].
    destruct (f a); cbn [ssorted]; [split|]; try (apply IH; assumption).
    intros y Hy. apply filter_In in Hy. apply Ha. tauto.
  Qed.

  Lemma ssorted_firstn : forall n l, ssorted l -> ssorted (firstn n l).
  Proof.
    intros n l H. rewrite <- (firstn_skipn n l) in H. apply ssorted_app in H. tauto.
  Qed.

  Lemma in_firstn : forall n (l : list T) x, In x (firstn n l) -> In x l.
  Proof. intros n l x H. rewrite <- (firstn_skipn n l). apply in_or_app; left; assumption. Qed.

  Lemma filter_none : forall (f : T -> bool) l, (forall y, In y l -> f y = false) -> filter f l = [].
  Proof.
    induction l as [|a r IH]; cbn [filter]; [reflexivity|]. intros H.
    rewrite (H a (or_introl eq_refl)). apply IH. intros y Hy. apply H. right; assumption.
  Qed.

  Lemma filter_all : forall (f : T -> bool) l, (forall y, In y l -> f y = true) -> filter f l = l.
  Proof.
    induction l as [|a r IH]; cbn [filter]; [reflexivity|]. intros H.
    rewrite (H a (or_introl eq_refl)). f_equal. apply IH. intros y Hy. apply H. right; assumption.
  Qed.

  (* the first c elements of the filtered sorted list are the c smallest that pass the filter *)
  Lemma firstn_filter_smallest : forall (f : T -> bool) l c x,
    ssorted l -> In x l -> f x = true ->
    In x (firstn c (filter f l)) \/
    (length (firstn c (filter f l)) = c /\ forall y, In y (firstn c (filter f l)) -> lt y x).
  Proof.
    intros f l c x Hs Hin Hf.
    assert (Hm : In x (filter f l)) by (apply filter_In; split; assumption).
    pose proof (ssorted_filter f l Hs) as Hsm.
    set (m := filter f l) in *. clearbody m.
    rewrite <- (firstn_skipn c m) in Hm, Hsm.
    apply in_app_or in Hm. destruct Hm as [Hm|Hm]; [left; assumption|right].
    apply ssorted_app in Hsm. destruct Hsm as (_ & _ & Hx). split.
    - apply firstn_length_le. destruct (le_lt_dec c (length m)) as [Hle|Hgt]; [assumption|].
      rewrite skipn_all2 in Hm by lia. destruct Hm.
    - intros y Hy. apply Hx; assumption.
  Qed.

  (* ---------------- the generator over a flat list of instants ---------------- *)
  Fixpoint flat (l : list T) (start : T) (end_ : option T) (count : Z) : step T :=
    match l with
    | [] => Go [] count
    | out :: rest =>
        if count <=? 0 then Stop []
        else if ltb out start then flat rest start end_ count
        else if after_end end_ out then Stop []
        else yield out (flat rest start end_ (count - 1))
    end.

  Lemma run_slots_flat : forall sl t start end_ count,
    run_slots sl t start end_ count = flat (map (fun s => s t) sl) start end_ count.
  Proof.
    induction sl as [|s r IH]; intros t start end_ count; cbn [Schedule.run_slots map flat]; [reflexivity|].
    destruct (count <=? 0); [reflexivity|].
    destruct (ltb (s t) start); [apply IH|].
    destruct (after_end end_ (s t)); [reflexivity|]. rewrite IH. reflexivity.
  Qed.

  Definition seq_step (a : step T) (k : Z -> step T) : step T :=
    match a with
    | Stop o => Stop o
    | Go o c => match k c with Stop o' => Stop (o ++ o') | Go o' c' => Go (o ++ o') c' end
    end.

  Lemma flat_app : forall l1 l2 start end_ count,
    flat (l1 ++ l2) start end_ count = seq_step (flat l1 start end_ count) (flat l2 start end_).
  Proof.
    induction l1 as [|a r IH]; intros l2 start end_ count; cbn [app flat seq_step].
    - destruct (flat l2 start end_ count); reflexivity.
    - destruct (count <=? 0); [reflexivity|].
      destruct (ltb a start); [apply IH|].
      destruct (after_end end_ a); [reflexivity|].
      rewrite IH. destruct (flat r start end_ (count - 1)) as [o|o c]; cbn [yield seq_step]; [reflexivity|].
      destruct (flat l2 start end_ c); reflexivity.
  Qed.

  Lemma series_from_flat : forall fuel t start end_ count,
    series_from fuel t start end_ count =
    match flat (enum t fuel) start end_ count with Stop o => Done o | Go o _ => OutOfFuel o end.
  Proof.
    induction fuel as [|f IH]; intros t start end_ count; cbn [Schedule.series_from Schedule.enum].
    - reflexivity.
    - rewrite flat_app. unfold Schedule.instants. rewrite <- run_slots_flat.
      destruct (run_slots slots t start end_ count) as [o|o c]; cbn [seq_step]; [reflexivity|].
      rewrite IH. destruct (flat (enum (next t) f) start end_ c); reflexivity.
  Qed.

  Lemma in_range_true : forall start end_ x,
    in_range start end_ x = true <-> ltb x start = false /\ after_end end_ x = false.
  Proof.
    intros. unfold Schedule.in_range. rewrite andb_true_iff, !negb_true_iff. tauto.
  Qed.

  (* the generator returned: what it yielded is the spec over any sorted extension of the list *)
  Lemma flat_stop : forall l l' start end_ count o,
    ssorted (l ++ l') -> flat l start end_ count = Stop o ->
    o = firstn (Z.to_nat count) (filter (in_range start end_) (l ++ l')).
  Proof.
    induction l as [|a r IH]; intros l' start end_ count o Hs H; cbn [flat] in H; [discriminate|].
    destruct (Z.leb_spec count 0) as [Hc|Hc].
    - injection H as <-. replace (Z.to_nat count) with O by lia. reflexivity.
    - cbn [app filter]. cbn [app ssorted] in Hs. destruct Hs as [Ha Hs].
      destruct (ltb a start) eqn:Hlt.
      + unfold Schedule.in_range at 1. rewrite Hlt. cbn [negb andb]. eapply IH; eassumption.
      + destruct (after_end end_ a) eqn:Hae.
        * injection H as <-. unfold Schedule.in_range at 1. rewrite Hlt, Hae. cbn [negb andb].
          rewrite filter_none; [destruct (Z.to_nat count); reflexivity|].
          intros y Hy. unfold Schedule.in_range.
          destruct end_ as [e|]; cbn [Schedule.after_end] in Hae |- *; [|discriminate].
          apply ltb_lt in Hae. assert (Hey : ltb e y = true).
          { apply ltb_lt. eapply lt_trans; [exact Hae | apply Ha; exact Hy]. }
          rewrite Hey. apply andb_false_r.
        * unfold Schedule.in_range at 1. rewrite Hlt, Hae. cbn [negb andb].
          replace (Z.to_nat count) with (S (Z.to_nat (count - 1))) by lia. cbn [firstn].
          destruct (flat r start end_ (count - 1)) as [o'|o' c'] eqn:Hf; cbn [yield] in H; [|discriminate].
          injection H as <-. f_equal. eapply IH; eassumption.
  Qed.

  (* the pass reached the end of the list: nothing was cut off *)
  Lemma flat_go : forall l start end_ count o c',
    flat l start end_ count = Go o c' ->
    o = filter (in_range start end_) l /\
    c' = count - Z.of_nat (length o) /\
    (l <> [] -> 0 <= c') /\
    (forall x, In x l -> ltb x start = false -> In x o).
  Proof.
    induction l as [|a r IH]; intros start end_ count o c' H; cbn [flat] in H.
    - injection H as <- <-. cbn. repeat split; try lia; try tauto.
    - destruct (Z.leb_spec count 0) as [Hc|Hc]; [discriminate|]. cbn [filter].
      destruct (ltb a start) eqn:Hlt.
      + unfold Schedule.in_range at 1. rewrite Hlt. cbn [negb andb].
        destruct (IH _ _ _ _ _ H) as (Ho & Hc' & Hnn & Hall). repeat split; try assumption.
        * intros _. destruct r as [|b r']; [|apply Hnn; discriminate].
          cbn [flat] in H. injection H as <- <-. lia.
        * intros x [<-|Hx] Hxs; [congruence | apply Hall; assumption].
      + destruct (after_end end_ a) eqn:Hae; [discriminate|].
        unfold Schedule.in_range at 1. rewrite Hlt, Hae. cbn [negb andb].
        destruct (flat r start end_ (count - 1)) as [o'|o' c''] eqn:Hf; cbn [yield] in H; [discriminate|].
        injection H as <- <-.
        destruct (IH _ _ _ _ _ Hf) as (Ho & Hc' & Hnn & Hall). repeat split.
        * f_equal; assumption.
        * cbn [length]. lia.
        * intros _. destruct r as [|b r']; [|apply Hnn; discriminate].
          cbn [flat] in Hf. injection Hf as <- <-. lia.
        * intros x [<-|Hx] Hxs; [left; reflexivity | right; apply Hall; assumption].
  Qed.

  (* ---------------- periods and their enumeration ---------------- *)
  Lemma period_S : forall k t, period t (S k) = next (period t k).
  Proof. induction k as [|k IH]; intros t; [reflexivity|]. cbn [Schedule.period] in *. rewrite IH. reflexivity. Qed.

  Lemma period_add : forall a t k, period (period t a) k = period t (a + k).
  Proof. induction a as [|a IH]; intros t k; [reflexivity|]. cbn [Schedule.period plus]. apply IH. Qed.

  Lemma enum_app : forall a t b, enum t (a + b) = enum t a ++ enum (period t a) b.
  Proof.
    induction a as [|a IH]; intros t b; [reflexivity|].
    cbn [plus Schedule.enum Schedule.period]. rewrite IH, app_assoc. reflexivity.
  Qed.

  Lemma enum_length : forall n t, length (enum t n) = (n * length slots)%nat.
  Proof.
    induction n as [|n IH]; intros t; [reflexivity|]. cbn [Schedule.enum].
    rewrite app_length, IH. unfold Schedule.instants. rewrite map_length. reflexivity.
  Qed.

  (* The premise of the property, on the periods the generator visits from b on:
     slot_1 t < ... < slot_n t < slot_1 (next t) < ... < slot_n (next t), with at least one slot. *)
  Definition chain_from (b : T) : Prop :=
    slots <> [] /\ forall k, ssorted (instants (period b k) ++ instants (period b (S k))).

  Lemma chain_next : forall b, chain_from b -> chain_from (next b).
  Proof. intros b [Hne H]. split; [assumption|]. intros k. exact (H (S k)). Qed.

  Lemma chain_period : forall k b, chain_from b -> chain_from (period b k).
  Proof. induction k as [|k IH]; intros b H; [assumption|]. cbn [Schedule.period]. apply IH, chain_next, H. Qed.

  Lemma instants_nonempty : forall t, slots <> [] -> exists x, In x (instants t).
  Proof.
    intros t H. unfold Schedule.instants. destruct slots as [|s r]; [congruence|].
    exists (s t). left; reflexivity.
  Qed.

  Lemma chain_before_enum : forall n b, chain_from b ->
    forall x y, In x (instants b) -> In y (enum (next b) n) -> lt x y.
  Proof.
    induction n as [|n IH]; intros b Hc x y Hx Hy; cbn [Schedule.enum] in Hy; [destruct Hy|].
    pose proof Hc as [Hne H]. pose proof (H O) as H0. cbn [Schedule.period] in H0.
    apply ssorted_app in H0. destruct H0 as (_ & _ & Hcross).
    apply in_app_or in Hy. destruct Hy as [Hy|Hy]; [apply Hcross; assumption|].
    destruct (instants_nonempty (next b) Hne) as [z Hz].
    apply lt_trans with z; [apply Hcross; assumption|].
    apply (IH (next b) (chain_next b Hc) z y Hz Hy).
  Qed.

  Lemma enum_sorted : forall n b, chain_from b -> ssorted (enum b n).
  Proof.
    induction n as [|n IH]; intros b Hc; cbn [Schedule.enum]; [exact I|].
    apply ssorted_app. repeat split.
    - destruct Hc as [_ H]. specialize (H O). apply ssorted_app in H. tauto.
    - apply IH, chain_next, Hc.
    - intros x y. apply chain_before_enum; assumption.
  Qed.

  (* the form the premise has when stated for every t instead of the visited periods *)
  Lemma chain_of_global : forall b,
    slots <> [] ->
    (forall t, ssorted (instants t ++ firstn 1 (instants (next t)))) ->
    chain_from b.
  Proof.
    intros b Hne H. split; [assumption|]. intros k. rewrite period_S.
    set (t := period b k). clearbody t.
    pose proof (H t) as Ht. pose proof (H (next t)) as Hn.
    apply ssorted_app in Ht. destruct Ht as (Hst & _ & Hcross).
    apply ssorted_app in Hn. destruct Hn as (Hsn & _ & _).
    apply ssorted_app. repeat split; try assumption.
    intros x y Hx Hy. destruct (instants (next t)) as [|z r]; [destruct Hy|].
    cbn [firstn] in Hcross. specialize (Hcross x z Hx (or_introl eq_refl)).
    destruct Hy as [<-|Hy]; [assumption|]. cbn [ssorted] in Hsn. destruct Hsn as [Hz _].
    eapply lt_trans; [exact Hcross | apply Hz; exact Hy].
  Qed.

  (* a zero interval (next t = t) contradicts the premise *)
  Lemma chain_excludes_zero_interval : forall b, chain_from b -> next b <> b.
  Proof.
    intros b [Hne H] Heq. specialize (H O). cbn [Schedule.period] in H. rewrite Heq in H.
    apply ssorted_app in H. destruct H as (_ & _ & Hcross).
    destruct (instants_nonempty b Hne) as [x Hx]. exact (lt_irrefl x (Hcross x x Hx Hx)).
  Qed.

  (* ---------------- main results ---------------- *)
  Theorem series_eq_spec : forall fuel start end_ count o,
    chain_from (round_down start) ->
    series fuel start end_ count = Done o ->
    forall n, (fuel <= n)%nat -> o = spec n start end_ count.
  Proof.
    intros fuel start end_ count o Hc H n Hn. unfold Schedule.series in H. rewrite series_from_flat in H.
    destruct (flat (enum (round_down start) fuel) start end_ count) as [o'|o' c'] eqn:Hf; [|discriminate].
    injection H as <-. unfold Schedule.spec.
    replace n with (fuel + (n - fuel))%nat by lia. rewrite enum_app.
    eapply flat_stop; [|exact Hf]. rewrite <- enum_app. apply enum_sorted, Hc.
  Qed.

  (* when the fuel runs out, what was yielded so far is everything in range in the periods visited,
     and it is less than count (or exactly count, discovered one pass later) *)
  Theorem series_out_of_fuel : forall fuel start end_ count o,
    series fuel start end_ count = OutOfFuel o ->
    o = filter (in_range start end_) (enum (round_down start) fuel) /\
    (fuel <> O -> slots <> [] -> Z.of_nat (length o) <= count).
  Proof.
    intros fuel start end_ count o H. unfold Schedule.series in H. rewrite series_from_flat in H.
    destruct (flat (enum (round_down start) fuel) start end_ count) as [o'|o' c'] eqn:Hf; [discriminate|].
    injection H as <-. destruct (flat_go _ _ _ _ _ _ Hf) as (Ho & Hc' & Hnn & _). split; [assumption|].
    intros Hfuel Hne. assert (Hl : enum (round_down start) fuel <> []).
    { intro Hnil. apply (f_equal (@length T)) in Hnil. rewrite enum_length in Hnil. cbn [length] in Hnil.
      destruct slots; [congruence|]. cbn [length] in Hnil. destruct fuel; [congruence|]. cbn in Hnil. lia. }
    specialize (Hnn Hl). lia.
  Qed.

  Theorem series_sorted : forall fuel start end_ count o,
    chain_from (round_down start) ->
    series fuel start end_ count = Done o -> ssorted o.
  Proof.
    intros fuel start end_ count o Hc H.
    rewrite (series_eq_spec fuel start end_ count o Hc H fuel (Nat.le_refl _)).
    unfold Schedule.spec. apply ssorted_firstn, ssorted_filter, enum_sorted, Hc.
  Qed.

  (* every output is a scheduled instant in range; every scheduled instant in range is output unless
     count was reached with smaller ones *)
  Theorem series_exact : forall fuel start end_ count o,
    chain_from (round_down start) ->
    series fuel start end_ count = Done o ->
    (forall x, In x o -> In x (enum (round_down start) fuel) /\ in_range start end_ x = true) /\
    (forall n x, In x (enum (round_down start) n) -> in_range start end_ x = true ->
       In x o \/ (length o = Z.to_nat count /\ forall y, In y o -> lt y x)).
  Proof.
    intros fuel start end_ count o Hc H. split.
    - intros x Hx. rewrite (series_eq_spec fuel start end_ count o Hc H fuel (Nat.le_refl _)) in Hx.
      unfold Schedule.spec in Hx. apply in_firstn in Hx. apply filter_In in Hx. exact Hx.
    - intros n x Hx Hr.
      assert (Hx' : In x (enum (round_down start) (fuel + n))).
      { destruct (le_lt_dec n fuel) as [Hle|Hgt].
        - replace (fuel + n)%nat with (n + (fuel + n - n))%nat by lia. rewrite enum_app.
          apply in_or_app; left; assumption.
        - replace (fuel + n)%nat with (n + fuel)%nat by lia. rewrite enum_app.
          apply in_or_app; left; assumption. }
      rewrite (series_eq_spec fuel start end_ count o Hc H (fuel + n)%nat) by lia.
      unfold Schedule.spec. apply firstn_filter_smallest; try assumption.
      apply enum_sorted, Hc.
  Qed.

  Theorem series_nonpositive_count : forall fuel start end_ count,
    slots <> [] -> count <= 0 -> series (S fuel) start end_ count = Done [].
  Proof.
    intros fuel start end_ count Hne Hc. unfold Schedule.series. cbn [Schedule.series_from].
    destruct slots as [|s r]; [congruence|]. cbn [Schedule.run_slots].
    destruct (Z.leb_spec count 0); [reflexivity|lia].
  Qed.

  (* the `out > end => return` shortcut loses nothing: everything scheduled after such an out is
     after end as well *)
  Theorem stop_after_end_sound : forall start end_ n l1 out l2,
    chain_from (round_down start) ->
    enum (round_down start) n = l1 ++ out :: l2 ->
    after_end end_ out = true ->
    forall y, In y l2 -> in_range start end_ y = false.
  Proof.
    intros start end_ n l1 out l2 Hc He Hae y Hy.
    pose proof (enum_sorted n _ Hc) as Hs. rewrite He in Hs.
    apply ssorted_app in Hs. destruct Hs as (_ & Hs & _). cbn [ssorted] in Hs. destruct Hs as [Ho _].
    unfold Schedule.in_range. destruct end_ as [e|]; cbn [Schedule.after_end] in Hae |- *; [|discriminate].
    apply ltb_lt in Hae. assert (Hey : ltb e y = true).
    { apply ltb_lt. eapply lt_trans; [exact Hae | apply Ho; exact Hy]. }
    rewrite Hey. apply andb_false_r.
  Qed.

  (* fuel bound: if from period k0 on nothing is before start (k0 * #slots bounds the number of skipped
     slots), then (fuel - k0) * #slots > max count 0 passes are enough *)
  Theorem series_terminates : forall fuel start end_ count k0,
    chain_from (round_down start) ->
    (forall x, In x (instants (period (round_down start) k0)) -> le start x) ->
    Z.of_nat (fuel - k0) * Z.of_nat (length slots) > Z.max count 0 ->
    exists o, series fuel start end_ count = Done o.
  Proof.
    intros fuel start end_ count k0 Hc Hk0 Hfuel. unfold Schedule.series. rewrite series_from_flat.
    set (b := round_down start) in *.
    destruct (flat (enum b fuel) start end_ count) as [o|o c'] eqn:Hf; [exists o; reflexivity|exfalso].
    destruct (flat_go _ _ _ _ _ _ Hf) as (Ho & Hc' & Hnn & Hall).
    assert (Hk : (k0 < fuel)%nat) by lia.
    assert (Hsplit : enum b fuel = enum b k0 ++ enum (period b k0) (fuel - k0)).
    { rewrite <- enum_app. f_equal. lia. }
    set (B := enum (period b k0) (fuel - k0)) in *.
    assert (HB : forall y, In y B -> ltb y start = false).
    { intros y Hy. apply ltb_false. unfold B in Hy.
      destruct (fuel - k0)%nat as [|m] eqn:Hm; [lia|]. cbn [Schedule.enum] in Hy.
      apply in_app_or in Hy. destruct Hy as [Hy|Hy]; [apply Hk0; assumption|].
      destruct (instants_nonempty (period b k0) (proj1 Hc)) as [z Hz].
      pose proof (chain_before_enum m _ (chain_period k0 b Hc) z y Hz Hy) as Hzy.
      apply lt_asym. eapply le_lt_trans; [apply Hk0; exact Hz | exact Hzy]. }
    assert (HlenB : (length B <= length o)%nat).
    { apply NoDup_incl_length.
      - assert (Hs : ssorted B) by (apply enum_sorted, chain_period, Hc). clear -Hs lt_irrefl.
        induction B as [|a r IH]; [constructor|]. cbn [ssorted] in Hs. destruct Hs as [Ha Hr].
        constructor; [|apply IH; assumption]. intro Hin. exact (lt_irrefl a (Ha a Hin)).
      - intros y Hy. apply Hall; [rewrite Hsplit; apply in_or_app; right; assumption | apply HB; assumption]. }
    assert (HBl : length B = ((fuel - k0) * length slots)%nat) by apply enum_length.
    assert (Hne : enum b fuel <> []).
    { intro Hnil. rewrite Hsplit in Hnil. apply app_eq_nil in Hnil. destruct Hnil as [_ Hnil].
      fold B in Hnil. rewrite Hnil in HBl. cbn [length] in HBl. nia. }
    specialize (Hnn Hne). nia.
  Qed.

  (* what the base being at or before start is for: with slots inside their interval, no instant of a
     period that ends at or before the base can be at or after start *)
  Theorem before_base_excluded : forall start t x,
    le (round_down start) start ->
    (forall u y, In y (instants u) -> lt y (next u)) ->
    le (next t) (round_down start) -> In x (instants t) -> lt x start.
  Proof.
    intros start t x Hb Hin Ht Hx.
    eapply lt_le_trans; [|exact Hb]. eapply lt_le_trans; [|exact Ht]. apply Hin; assumption.
  Qed.

  (* ---------------- the zero interval ---------------- *)
  Lemma run_slots_all_skipped : forall sl t start end_ count,
    0 < count -> (forall s, In s sl -> lt (s t) start) ->
    run_slots sl t start end_ count = Go [] count.
  Proof.
    induction sl as [|s r IH]; intros t start end_ count Hc H; cbn [Schedule.run_slots]; [reflexivity|].
    destruct (Z.leb_spec count 0); [lia|].
    assert (Hlt : ltb (s t) start = true) by (apply ltb_lt, H; left; reflexivity).
    rewrite Hlt. apply IH; [assumption|]. intros s' Hs'. apply H. right; assumption.
  Qed.

  Theorem zero_interval_no_progress : forall fuel b start end_ count,
    next b = b -> 0 < count -> (forall s, In s slots -> lt (s b) start) ->
    series_from fuel b start end_ count = OutOfFuel [].
  Proof.
    induction fuel as [|f IH]; intros b start end_ count Hz Hc Hs; cbn [Schedule.series_from]; [reflexivity|].
    rewrite run_slots_all_skipped by assumption. rewrite Hz, IH by assumption. reflexivity.
  Qed.
End Proofs.

(* ---------------- time = Z, fixed-length interval ---------------- *)
Lemma Z_ltb_lt : forall a b, Z.ltb a b = true <-> a < b.
Proof. intros; apply Z.ltb_lt. Qed.
Lemma Z_lt_total : forall a b : Z, a < b \/ a = b \/ b < a.
Proof. intros; lia. Qed.

Lemma zinstants : forall offs t, instants Z (zslots offs) t = map (fun o => t + o) offs.
Proof. intros. unfold instants, zslots. rewrite map_map. reflexivity. Qed.

Lemma zperiod : forall k j t, period Z (fun t => t + k) t j = t + Z.of_nat j * k.
Proof.
  intros k j. induction j as [|j IH]; intros t; cbn [period]; [lia|]. rewrite IH. lia.
Qed.

(* offsets listed in increasing order and spanning less than one interval satisfy the premise *)
Lemma z_chain : forall k offs b,
  offs <> [] -> ssorted Z Z.lt offs -> (forall x y, In x offs -> In y offs -> x < y + k) ->
  chain_from Z Z.lt (fun t => t + k) (zslots offs) b.
Proof.
  intros k offs b Hne Hs Hspan. split.
  - unfold zslots. destruct offs; [congruence|discriminate].
  - intros j. cbn [period]. rewrite !zinstants, !zperiod.
    set (t := b + Z.of_nat j * k). replace (b + k + Z.of_nat j * k) with (t + k) by (unfold t; lia).
    clearbody t. apply (ssorted_app Z Z.lt).
    assert (Hmap : forall u l, ssorted Z Z.lt l -> ssorted Z Z.lt (map (fun o => u + o) l)).
    { intros u l. induction l as [|a r IH]; cbn [map ssorted]; [trivial|]. intros [Ha Hr]. split; [|auto].
      intros y Hy. apply in_map_iff in Hy. destruct Hy as (o & <- & Ho). specialize (Ha o Ho). lia. }
    repeat split; try (apply Hmap; assumption).
    intros x y Hx Hy. apply in_map_iff in Hx, Hy. destruct Hx as (ox & <- & Hox). destruct Hy as (oy & <- & Hoy).
    specialize (Hspan ox oy Hox Hoy). lia.
Qed.

Lemma zero_interval_stuck : forall fuel off b start end_ count,
  0 < count -> b + off < start ->
  series_from Z Z.ltb (fun t => t + 0) (zslots [off]) fuel b start end_ count = OutOfFuel [].
Proof.
  intros fuel off b start end_ count Hc Hlt.
  apply (zero_interval_no_progress Z Z.lt Z.ltb Z_ltb_lt); [lia | assumption |].
  intros s [<-|[]]. exact Hlt.
Qed.

Lemma z_instance_spec : forall unit k offs fuel start end_ count o,
  offs <> [] -> ssorted Z Z.lt offs -> (forall x y, In x offs -> In y offs -> x < y + k) ->
  zseries unit k offs fuel start end_ count = Done o ->
  (forall n, (fuel <= n)%nat -> o = zspec unit k offs n start end_ count) /\ ssorted Z Z.lt o.
Proof.
  intros unit k offs fuel start end_ count o Hne Hs Hspan H.
  pose proof (z_chain k offs (zround unit start) Hne Hs Hspan) as Hc. split.
  - exact (series_eq_spec Z Z.lt Z.ltb Z_ltb_lt Z.lt_trans _ _ _ fuel start end_ count o Hc H).
  - exact (series_sorted Z Z.lt Z.ltb Z_ltb_lt Z.lt_trans _ _ _ fuel start end_ count o Hc H).
Qed.

Lemma z_instance_terminates : forall unit k offs fuel start end_ count,
  0 < unit <= k -> offs <> [] -> ssorted Z Z.lt offs -> (forall x y, In x offs -> In y offs -> x < y + k) ->
  (forall x, In x offs -> 0 <= x) ->
  Z.of_nat (fuel - 1) * Z.of_nat (length offs) > Z.max count 0 ->
  exists o, zseries unit k offs fuel start end_ count = Done o.
Proof.
  intros unit k offs fuel start end_ count Hk Hne Hs Hspan Hpos Hfuel.
  pose proof (z_chain k offs (zround unit start) Hne Hs Hspan) as Hc.
  apply (series_terminates Z Z.lt Z.ltb Z_ltb_lt Z.lt_irrefl Z.lt_trans Z_lt_total _ _ _ fuel start end_ count 1%nat Hc).
  - intros x Hx. rewrite zinstants, zperiod in Hx. apply in_map_iff in Hx. destruct Hx as (o & <- & Ho).
    specialize (Hpos o Ho). unfold le, zround. pose proof (Z.mod_pos_bound start unit). lia.
  - unfold zslots. rewrite map_length. exact Hfuel.
Qed.
