(* The flush that apply_user_actions performs before reverting (f80d48c): with no pending calc delta it adds nothing,
   so the theorems about the bare rollback carry over. *)
From stdpp Require Import gmap sorting.
Require Import Grist.Model.Rollback Grist.Proofs.Rollback_proofs Grist.Proofs.Rollback_actions Grist.Proofs.Rollback_undo
  Grist.Proofs.Rollback_run Grist.Proofs.Rollback_inside.
Open Scope Z_scope.

(* the deltas a list of summary calls records *)
Definition log_deltas (log : list sumcall) : list delta :=
  flat_map (fun s => match s with SAddChanges t c ch => deltas_of t c ch | _ => [] end) log.

Lemma sum_log_app l1 l2 : sum_log (l1 ++ l2) = sum_log l1 ++ sum_log l2.
Proof. unfold sum_log. apply omap_app. Qed.

Lemma log_deltas_app l1 l2 : log_deltas (l1 ++ l2) = log_deltas l1 ++ log_deltas l2.
Proof. unfold log_deltas. apply flat_map_app. Qed.

Lemma exec_step_log st m st' :
  exec_step st m = Some st' -> ms_pending st' = ms_pending st ++ log_deltas (sum_log [m]).
Proof.
  destruct m as [| | | | | | | | | | | | |s]; simpl; intros H; try discriminate; try (injection H as <-; simpl; rewrite app_nil_r; reflexivity).
  destruct s; injection H as <-; simpl; rewrite ?app_nil_r; reflexivity.
Qed.

Lemma exec_all_log l : forall st st',
  exec_all st l = Some st' -> ms_pending st' = ms_pending st ++ log_deltas (sum_log l).
Proof.
  induction l as [|m l IH]; intros st st' H; simpl in H.
  - injection H as <-. simpl. rewrite app_nil_r. reflexivity.
  - destruct (exec_step st m) as [st1|] eqn:E; [|discriminate].
    rewrite (IH _ _ H), (exec_step_log _ _ _ E). change (m :: l) with ([m] ++ l).
    rewrite sum_log_app, log_deltas_app, app_assoc. reflexivity.
Qed.

Lemma run_log_pending ord es : forall st k st_k cur done,
  run_until_crash ord st es k = Crashed st_k cur done ->
  ms_pending st_k = ms_pending st ++ log_deltas (sum_log (run_log ord st es k)).
Proof.
  induction es as [|e es IH]; intros st k st_k cur done H; simpl in *.
  - destruct k; [|discriminate]. injection H as <- <- <-. simpl. rewrite app_nil_r. reflexivity.
  - destruct (exec_upto st (event_steps ord (ms_doc st) e) k []) as [[st' dn] r] eqn:E.
    destruct (exec_upto_spec _ _ _ _ _ _ _ E) as (l & rest & Hdn & _ & Hex & _). simpl in Hdn. subst dn.
    destruct r as [k'|].
    + rewrite (IH _ _ _ _ _ H), (exec_all_log _ _ _ Hex), sum_log_app, log_deltas_app, app_assoc. reflexivity.
    + injection H as <- <- <-. apply exec_all_log. exact Hex.
Qed.

(* a summary in which every delta map is empty produces no undo action *)
Definition td_blank (td : table_delta) : Prop := Forall (fun cm => cm.2 = ∅) (td_deltas td).
Definition sm_blank (sm : summary) : Prop := Forall (fun ttd => td_blank ttd.2) (sm_tables sm).

Lemma assoc_get_Forall {K V} `{EqDecision K} (P : K * V -> Prop) (l : list (K * V)) k v :
  Forall P l -> assoc_get k l = Some v -> P (k, v).
Proof.
  induction 1 as [|[k' v'] l Hx _ IH]; simpl; [discriminate|]. destruct (decide (k' = k)) as [->|]; [intros [= <-]; exact Hx|exact IH].
Qed.

Lemma assoc_del_Forall {K V} `{EqDecision K} (P : K * V -> Prop) (l : list (K * V)) k :
  Forall P l -> Forall P (assoc_del k l).
Proof.
  induction 1 as [|[k' v'] l Hx _ IH]; simpl; [constructor|]. destruct (decide (k' = k)); [exact IH|constructor; assumption].
Qed.

Lemma assoc_set_Forall {K V} `{EqDecision K} (P : K * V -> Prop) (l : list (K * V)) k v :
  Forall P l -> P (k, v) -> Forall P (assoc_set k v l).
Proof. intros H Hp. unfold assoc_set. apply Forall_app. split; [apply assoc_del_Forall; exact H|repeat constructor; exact Hp]. Qed.

Lemma for_table_blank t sm : sm_blank sm -> td_blank (for_table t sm).
Proof.
  intros H. unfold for_table. destruct (assoc_get t (sm_tables sm)) as [td|] eqn:E; simpl; [|constructor].
  exact (assoc_get_Forall (fun ttd => td_blank ttd.2) _ _ _ H E).
Qed.

Lemma put_table_blank t td sm : sm_blank sm -> td_blank td -> sm_blank (put_table t td sm).
Proof.
  intros H Htd. unfold sm_blank, put_table. simpl. destruct (assoc_get t (sm_tables sm)).
  - apply Forall_fmap. eapply Forall_impl; [exact H|]. intros [k v] Hkv. simpl. destruct (decide (k = t)); [exact Htd|exact Hkv].
  - apply Forall_app. split; [exact H|repeat constructor; exact Htd].
Qed.

Lemma td_rename_blank old new td : td_blank td -> td_blank (td_rename_column old new td).
Proof.
  intros H. unfold td_blank, td_rename_column. simpl.
  destruct (old ≫= fun o => assoc_get o (td_deltas td)) as [m|] eqn:E; [|exact H].
  destruct old as [o|]; [|discriminate]. simpl in E.
  apply assoc_set_Forall; [apply assoc_del_Forall; exact H|].
  exact (assoc_get_Forall (fun cm => cm.2 = ∅) _ _ _ H E).
Qed.

Lemma sm_step_blank sm s :
  sm_blank sm -> (match s with SAddChanges _ _ ch => ch = [] | _ => True end) -> sm_blank (sm_step sm s).
Proof.
  intros H Hs. destruct s as [t c ch|t rows|t rows|t c|t c|t c c'|t|t|t t']; simpl.
  - subst ch. apply put_table_blank; [exact H|]. pose proof (for_table_blank (false, t) sm H) as Hb.
    unfold td_blank, td_add_changes in *. simpl.
    match goal with |- context [match ?x with Some _ => _ | None => _ end] => destruct x as [m|] eqn:E end.
    + apply Forall_fmap. eapply Forall_impl; [exact Hb|]. intros [k v] Hkv. simpl. destruct (decide (k = (false, c))); [|exact Hkv].
      simpl. exact (assoc_get_Forall (fun cm => cm.2 = ∅) _ _ _ Hb E).
    + apply Forall_app. split; [exact Hb|repeat constructor].
  - apply put_table_blank; [exact H|]. exact (for_table_blank _ _ H).
  - apply put_table_blank; [exact H|]. exact (for_table_blank _ _ H).
  - apply put_table_blank; [exact H|]. apply td_rename_blank. exact (for_table_blank _ _ H).
  - apply put_table_blank; [exact H|]. apply td_rename_blank. exact (for_table_blank _ _ H).
  - apply put_table_blank; [exact H|]. apply td_rename_blank. exact (for_table_blank _ _ H).
  - exact H.
  - unfold sm_blank. simpl.
    match goal with |- context [match ?x with Some _ => _ | None => _ end] => destruct x as [td|] eqn:E end; [|exact H].
    apply assoc_set_Forall; [apply assoc_del_Forall; exact H|]. exact (assoc_get_Forall (fun ttd => td_blank ttd.2) _ _ _ H E).
  - unfold sm_blank. simpl.
    match goal with |- context [match ?x with Some _ => _ | None => _ end] => destruct x as [td|] eqn:E end; [|exact H].
    apply assoc_set_Forall; [apply assoc_del_Forall; exact H|]. exact (assoc_get_Forall (fun ttd => td_blank ttd.2) _ _ _ H E).
Qed.

Lemma summary_of_blank log :
  Forall (fun s => match s with SAddChanges _ _ ch => ch = [] | _ => True end) log -> sm_blank (summary_of log).
Proof.
  unfold summary_of. assert (Hgen : forall sm, sm_blank sm ->
    Forall (fun s => match s with SAddChanges _ _ ch => ch = [] | _ => True end) log -> sm_blank (foldl sm_step sm log)).
  { induction log as [|s log IH]; intros sm Hsm Hl; [exact Hsm|]. inversion Hl; subst. simpl. apply IH; [apply sm_step_blank; assumption|assumption]. }
  apply Hgen. constructor.
Qed.

Lemma changes_to_undo_empty sm t td c : changes_to_undo sm t td c ∅ = ([], []).
Proof.
  unfold changes_to_undo. rewrite map_to_list_empty. simpl.
  destruct (_ && _); [reflexivity|]. destruct (is_defunct t || is_defunct c); reflexivity.
Qed.

Lemma flush_fold_blank sm0 (l : list (lname * table_delta)) :
  Forall (fun ttd => td_blank ttd.2) l -> forall acc,
  foldl (fun acc ttd =>
           foldl (fun acc cm => let fb := changes_to_undo sm0 ttd.1 ttd.2 cm.1 cm.2 in (fb.1 ++ acc.1, acc.2 ++ fb.2))
                 acc (td_deltas ttd.2)) acc l = acc.
Proof.
  induction 1 as [|[t td] l0 Htd _ IH]; intros acc; [reflexivity|]. simpl. rewrite IH.
  unfold td_blank in Htd. simpl in Htd. revert acc. induction Htd as [|[c m] dl Hm _ IHd]; intros acc; [reflexivity|].
  simpl in *. subst m. rewrite changes_to_undo_empty. simpl. rewrite app_nil_r. destruct acc. apply IHd.
Qed.

Lemma flush_undo_blank log : sm_blank (summary_of log) -> flush_undo log = ([], []).
Proof. intros H. unfold flush_undo, flush_undo_of. apply flush_fold_blank. exact H. Qed.

Lemma log_deltas_nil log :
  log_deltas log = [] -> Forall (fun s => match s with SAddChanges _ _ ch => ch = [] | _ => True end) log.
Proof.
  induction log as [|s log IH]; intros H; [constructor|]. simpl in H. apply app_eq_nil in H as [H1 H2].
  constructor; [|apply IH; exact H2]. destruct s; auto. unfold deltas_of in H1. destruct changes; [reflexivity|discriminate].
Qed.

(* no pending delta at the crash => the flush adds nothing => rollback_flush is the bare rollback *)
Lemma rollback_flush_no_pending ord s es k st cur done :
  run_until_crash ord (init_state s []) es k = Crashed st cur done -> ms_pending st = [] ->
  rollback_flush ord st (sum_log (run_log ord (init_state s []) es k)) = rollback ord 0 st.
Proof.
  intros Hrun Hp. pose proof (run_log_pending _ _ _ _ _ _ _ Hrun) as Hl. simpl in Hl. rewrite Hp in Hl. symmetry in Hl.
  unfold rollback_flush. rewrite (flush_undo_blank _ (summary_of_blank _ (log_deltas_nil _ Hl))). simpl.
  rewrite app_nil_r. reflexivity.
Qed.

Theorem rollback_flush_partial ord s es k st cur done :
  wf s -> Forall no_replace_ev es ->
  run_until_crash ord (init_state s []) es k = Crashed st cur done ->
  ms_pending st = [] -> covered_point cur done ->
  rollback_flush ord st (sum_log (run_log ord (init_state s []) es k)) = Some s.
Proof.
  intros Hw Hnr Hrun Hp Hcov. rewrite (rollback_flush_no_pending _ _ _ _ _ _ _ Hrun Hp).
  exact (rollback_partial_covered ord s [] es k st cur done Hw Hnr Hrun Hp Hcov).
Qed.
