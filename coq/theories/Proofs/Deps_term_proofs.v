(* Termination of the invalidate_deps worklist: a fuel bound in terms of nodes x rows x edges. *)
From Coq Require Import ZArith List Bool Lia.
Import ListNotations.
Require Import Grist.Model.Deps Grist.Model.DepsSpec Grist.Model.DepsExec.
Require Import Grist.Proofs.Deps_closure_proofs Grist.Proofs.Deps_inval_proofs Grist.Proofs.Deps_order_proofs.
Open Scope Z_scope.

(* R holds at most the lookup registrations of R0 (clear_dependencies only forgets registrations) *)
Definition lk_sub (R R0 : relst) : Prop :=
  (forall c t, inv R c t = inv R0 c t) /\ (forall m t, lkkeys R m t = lkkeys R0 m t) /\
  (forall m n p, In p (lkrows R m n) -> In p (lkrows R0 m n)).

Lemma lk_sub_refl R : lk_sub R R.
Proof. repeat split; auto. Qed.

Lemma lk_sub_trans R1 R2 R3 : lk_sub R1 R2 -> lk_sub R2 R3 -> lk_sub R1 R3.
Proof.
  intros (a1 & a2 & a3) (b1 & b2 & b3). split; [| split]; intros.
  - rewrite a1. apply b1.
  - rewrite a2. apply b2.
  - apply b3. apply a3. exact H.
Qed.

Lemma reset_rows_sub via : forall R x, lk_sub (reset_rows R via x) R.
Proof.
  induction via as [| | c | a IHa b IHb | m n]; intros R x; cbn [reset_rows]; try apply lk_sub_refl.
  - apply IHa.
  - assert (G : forall l, (forall p, In p l -> In p (lkrows R m n)) -> lk_sub (set_lkrows R m n l) R).
    { intros l Hl. split; [| split]; auto. intros m' n' p. cbn [set_lkrows lkrows].
      destruct (Z.eqb m' m && Z.eqb n' n) eqn:E; auto.
      apply andb_true_iff in E. destruct E as [E1 E2]. apply Z.eqb_eq in E1, E2. subst. apply Hl. }
    destruct x; apply G.
    + intros p [].
    + intros p Hp. apply filter_In in Hp. tauto.
Qed.

Lemma clear_dependencies_sub E R n : lk_sub (snd (clear_dependencies E R n)) R.
Proof.
  unfold clear_dependencies. cbn [snd]. revert R.
  induction E as [| e E IH]; intros R; cbn [fold_left]; [apply lk_sub_refl |].
  eapply lk_sub_trans; [apply IH |]. destruct (Z.eqb (e_out e) n); [apply reset_rows_sub | apply lk_sub_refl].
Qed.

(* fewer registrations affect fewer rows *)
Lemma aff_l_sub R R0 via : lk_sub R R0 -> forall l r, In r (aff_l R via l) -> In r (aff_l R0 via l).
Proof.
  intros (Hi & Hk & Hl). induction via as [| | c | a IHa b IHb | m n]; intros l r H; cbn [aff_l] in *; auto.
  - rewrite <- (flat_map_ext' (inv R c) (inv R0 c) l (Hi c)). exact H.
  - apply IHa in H. apply aff_l_In in H. destruct H as (q & Hq & Hr). apply aff_l_In. exists q. split; auto.
  - apply rows_by_keys_In in H. destruct H as (k & H1 & H2). apply rows_by_keys_In. exists k. split; auto.
    rewrite <- (flat_map_ext' (lkkeys R m) (lkkeys R0 m) l (Hk m)). exact H2.
Qed.

Lemma affected_all_cases R via : affected R via AllRows = AllRows \/ affected R via AllRows = Rows [].
Proof.
  assert (Step : forall via y, (y = AllRows \/ y = Rows []) ->
                 affected R via y = AllRows \/ affected R via y = Rows []).
  { induction via0 as [| | c | a IHa b IHb | m k]; intros y Hy; cbn [affected].
    - exact Hy.
    - destruct Hy as [-> | ->]; auto.
    - destruct Hy as [-> | ->]; auto.
    - apply IHa. apply IHb. exact Hy.
    - destruct Hy as [-> | ->]; auto. cbn [flat_map]. right. f_equal. unfold rows_by_keys.
      induction (lkrows R m k) as [| p rk IH]; cbn; auto. }
  apply Step. auto.
Qed.

Section Termination.
Variable E0 : list edge.
Variable R0 : relst.
Variable NS : list node.      (* the nodes that can enter recompute_map: start node and out_nodes of the edges *)
Variable RS : list row.       (* the rows that can enter it *)
Hypothesis HNS : forall e, In e E0 -> In (e_out e) NS.
(* RS is closed under every recorded relation *)
Hypothesis HRS : forall e q r, In e E0 -> In q RS -> In r (aff_l R0 (e_rel e) [q]) -> In r RS.

Definition batch_within (b : node * rowset) : Prop :=
  In (fst b) NS /\ (snd b = AllRows \/ exists l, snd b = Rows l /\ incl l RS).

Definition slot (M : mapT) (n : node) : nat :=
  if is_all (M n) then 0%nat else S (length (filter (fun r => negb (in_map M (n, r))) RS)).
Definition slots_of (l : list node) (M : mapT) : nat := fold_right (fun n acc => (slot M n + acc)%nat) 0%nat l.
Definition slots (M : mapT) : nat := slots_of NS M.

Lemma filter_le_length {A} (p : A -> bool) l : (length (filter p l) <= length l)%nat.
Proof. induction l as [| a l IH]; cbn; auto. destruct (p a); cbn; lia. Qed.

Lemma filter_len_le {A} (p p' : A -> bool) l :
  (forall x, p' x = true -> p x = true) -> (length (filter p' l) <= length (filter p l))%nat.
Proof.
  intros H. induction l as [| a l IH]; cbn; auto.
  destruct (p' a) eqn:E1; destruct (p a) eqn:E2; cbn; try lia. apply H in E1. congruence.
Qed.

Lemma filter_len_lt {A} (p p' : A -> bool) l a :
  (forall x, p' x = true -> p x = true) -> In a l -> p a = true -> p' a = false ->
  (length (filter p' l) < length (filter p l))%nat.
Proof.
  intros H Ha Hp Hp'. induction l as [| b l IH]; [destruct Ha |].
  destruct Ha as [-> | Ha]; cbn.
  - rewrite Hp, Hp'. cbn. pose proof (filter_len_le p p' l H). lia.
  - specialize (IH Ha). destruct (p' b) eqn:E1; destruct (p b) eqn:E2; cbn; try lia.
    apply H in E1. congruence.
Qed.

Lemma slot_mono M M' n : mono M M' -> (slot M' n <= slot M n)%nat.
Proof.
  intros [Hm Ha]. unfold slot. destruct (is_all (M n)) eqn:A.
  - rewrite (Ha n A). lia.
  - destruct (is_all (M' n)); [lia |]. apply le_n_S. apply filter_len_le.
    intros r Hr. apply negb_true_iff in Hr. apply negb_true_iff.
    destruct (in_map M (n, r)) eqn:X; auto. rewrite (Hm _ X) in Hr. discriminate.
Qed.

Lemma slots_of_mono l M M' : mono M M' -> (slots_of l M' <= slots_of l M)%nat.
Proof.
  intros H. induction l as [| n l IH]; cbn [slots_of fold_right]; auto.
  pose proof (slot_mono M M' n H). fold (slots_of l M') (slots_of l M). lia.
Qed.

Lemma slots_mono M M' : mono M M' -> (slots M' <= slots M)%nat.
Proof. apply slots_of_mono. Qed.

Lemma slots_of_lt l M M' n : mono M M' -> In n l -> (slot M' n < slot M n)%nat -> (slots_of l M' < slots_of l M)%nat.
Proof.
  intros H Hn Hlt. induction l as [| k l IH]; [destruct Hn |].
  cbn [slots_of fold_right]. fold (slots_of l M') (slots_of l M). destruct Hn as [-> | Hn].
  - pose proof (slots_of_mono l M M' H). lia.
  - specialize (IH Hn). pose proof (slot_mono M M' k H). lia.
Qed.

Lemma slots_lt M M' n : mono M M' -> In n NS -> (slot M' n < slot M n)%nat -> (slots M' < slots M)%nat.
Proof. apply slots_of_lt. Qed.

Lemma pushes_within E R n x :
  incl E E0 -> lk_sub R R0 -> batch_within (n, x) -> Forall batch_within (pushes E R n x).
Proof.
  intros HE HR [_ Hx]. cbn [snd] in Hx. apply Forall_forall. intros b Hb. unfold pushes in Hb. apply in_map_iff in Hb.
  destruct Hb as (e & <- & He). apply filter_In in He. destruct He as [He _]. apply HE in He.
  split; cbn [fst snd]; [apply HNS; exact He |].
  destruct Hx as [-> | (l & -> & Hl)].
  - destruct (affected_all_cases R (e_rel e)) as [-> | ->]; auto. right. exists []. split; auto. intros r [].
  - right. rewrite affected_rows. eexists. split; [reflexivity |].
    intros r Hr. apply (aff_l_sub R R0 _ HR) in Hr. apply aff_l_In in Hr. destruct Hr as (q & Hq & Hr).
    apply (HRS e q r He); auto.
Qed.

Lemma inval_terminates fuel : forall g stack,
  incl (g_edges g) E0 -> (length (g_edges g) <= length E0)%nat -> lk_sub (g_rel g) R0 ->
  Forall batch_within stack ->
  (1 + length stack + slots (g_map g) * (1 + length E0) <= fuel)%nat ->
  inval fuel g stack true <> None.
Proof.
  induction fuel as [| f IH]; intros g stack HE HL HR Hs Hf; [lia |].
  cbn [inval]. destruct stack as [| [n x] rest]; [discriminate |].
  cbn [negb]. inversion Hs as [| b st Hb Hrest]; subst. cbn [length] in Hf.
  assert (Hpl : forall E R, (length E <= length E0)%nat ->
                (length (rev (pushes E R n x) ++ rest) <= length E0 + length rest)%nat).
  { intros E R HE'. rewrite app_length, rev_length. unfold pushes. rewrite map_length.
    pose proof (filter_le_length (fun e => Z.eqb (e_in e) n) E). lia. }
  destruct (is_all (g_map g n)) eqn:A; [apply IH; auto; lia |].
  destruct x as [| l].
  - destruct (clear_dependencies (g_edges g) (g_rel g) n) as [E' R'] eqn:HC.
    assert (HE' : incl E' E0).
    { unfold clear_dependencies in HC. inversion HC. intros e He. apply filter_In in He. apply HE. tauto. }
    assert (HL' : (length E' <= length E0)%nat).
    { unfold clear_dependencies in HC. inversion HC.
      pose proof (filter_le_length (fun e => negb (Z.eqb (e_out e) n)) (g_edges g)). lia. }
    assert (HR' : lk_sub R' R0).
    { eapply lk_sub_trans; [| exact HR].
      replace R' with (snd (clear_dependencies (g_edges g) (g_rel g) n)) by (rewrite HC; reflexivity).
      apply clear_dependencies_sub. }
    apply IH; cbn [g_edges g_rel g_map]; auto.
    + apply Forall_app. split; auto. apply Forall_rev. apply pushes_within; auto.
    + assert (slots (map_set (g_map g) n AllRows) < slots (g_map g))%nat.
      { apply (slots_lt _ _ n (mono_set_all _ _)); [apply Hb |].
        unfold slot. rewrite A, map_set_same. cbn. lia. }
      pose proof (Hpl E' R' HL'). nia.
  - set (M1 := map_set (g_map g) n (Rows (old_rows (g_map g) n ++ l))).
    fold (old_rows (g_map g) n). fold M1.
    pose proof (mono_set_rows (g_map g) n l A) as Hm1. fold M1 in Hm1.
    destruct (existsb (fun r => negb (zmem r (old_rows (g_map g) n))) l) eqn:X.
    + apply IH; cbn [g_edges g_rel g_map]; auto.
      * apply Forall_app. split; auto. apply Forall_rev. apply pushes_within; auto.
      * apply existsb_exists in X. destruct X as (r & Hr & Hnew). apply negb_true_iff in Hnew.
        destruct Hb as [Hn0 [Hx | (l' & Hl' & Hin)]]; [discriminate |]. cbn [snd] in Hl'. inversion Hl'; subst l'.
        assert (slots M1 < slots (g_map g))%nat.
        { apply (slots_lt _ _ n Hm1); [exact Hn0 |].
          unfold slot. rewrite A. unfold M1 at 1. rewrite map_set_same. cbn [is_all].
          apply lt_n_S. apply (filter_len_lt _ _ RS r).
          - intros q Hq. apply negb_true_iff in Hq. apply negb_true_iff.
            destruct (in_map (g_map g) (n, q)) eqn:Y; auto. rewrite (proj1 Hm1 _ Y) in Hq. discriminate.
          - apply Hin. exact Hr.
          - apply negb_true_iff. unfold in_map, old_rows in *. cbn [fst snd].
            destruct (g_map g n) as [[| o] |]; auto; cbn in A; discriminate.
          - apply negb_false_iff. unfold in_map, M1. cbn [fst snd]. rewrite map_set_same. cbn [in_rowset].
            rewrite zmem_app. apply orb_true_iff. right. apply zmem_In. exact Hr. }
        pose proof (Hpl (g_edges g) (g_rel g) HL). nia.
    + apply IH; cbn [g_edges g_rel g_map]; auto.
      pose proof (slots_mono _ _ Hm1). nia.
Qed.

Lemma slot_bound M n : (slot M n <= S (length RS))%nat.
Proof.
  unfold slot. destruct (is_all (M n)); [lia |]. apply le_n_S. apply filter_le_length.
Qed.

Lemma slots_of_bound l M : (slots_of l M <= length l * S (length RS))%nat.
Proof.
  induction l as [| n l IH]; cbn [slots_of fold_right length]; [lia |].
  fold (slots_of l M). pose proof (slot_bound M n). lia.
Qed.

End Termination.

(* enough fuel: (nodes x (rows + 1)) growth steps, each pushing at most |edges| batches *)
Definition fuel_bound (E : list edge) (NS : list node) (RS : list row) : nat :=
  (3 + length E + (length NS * S (length RS)) * (1 + length E))%nat.

Theorem invalidate_deps_terminates g n x inc NS RS :
  (forall e, In e (g_edges g) -> In (e_out e) NS) -> In n NS ->
  (forall e q r, In e (g_edges g) -> In q RS -> In r (aff_l (g_rel g) (e_rel e) [q]) -> In r RS) ->
  (x = AllRows \/ exists l, x = Rows l /\ incl l RS) ->
  exists g', invalidate_deps (fuel_bound (g_edges g) NS RS) g n x inc = Some g'.
Proof.
  intros HNS Hn HRS Hx.
  assert (Hb : batch_within NS RS (n, x)) by (split; auto).
  assert (G : invalidate_deps (fuel_bound (g_edges g) NS RS) g n x inc <> None).
  { unfold invalidate_deps, fuel_bound. pose proof (slots_of_bound RS NS (g_map g)) as Hs.
    destruct inc.
    - apply (inval_terminates (g_edges g) (g_rel g) NS RS HNS HRS); auto.
      + intros e He. exact He.
      + apply lk_sub_refl.
      + cbn [length]. unfold slots. nia.
    - remember (2 + length (g_edges g) + length NS * S (length RS) * (1 + length (g_edges g)))%nat as f eqn:Hf.
      replace (3 + length (g_edges g) + length NS * S (length RS) * (1 + length (g_edges g)))%nat with (S f) by lia.
      cbn [inval negb]. apply (inval_terminates (g_edges g) (g_rel g) NS RS HNS HRS); auto.
      + intros e He. exact He.
      + apply lk_sub_refl.
      + apply Forall_app. split; [| constructor]. apply Forall_rev.
        apply (pushes_within (g_edges g) (g_rel g) NS RS HNS HRS); auto.
        * intros e He. exact He.
        * apply lk_sub_refl.
      + rewrite app_length, rev_length. unfold pushes. rewrite map_length. cbn [length].
        pose proof (filter_le_length (fun e => Z.eqb (e_in e) n) (g_edges g)). unfold slots. nia. }
  destruct (invalidate_deps _ g n x inc) as [g' |]; [eauto | contradiction].
Qed.
