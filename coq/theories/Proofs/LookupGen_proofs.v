(* Bridging: the functions translated from the Python source on every run (GristGen.Lookup_gen, by
   harness/lk2v.py) equal the hand-written model Model/Lookup.v, pointwise.  A semantic edit of the source
   changes the translated text and breaks one of these proofs. *)
From Coq Require Import ZArith List Bool Lia.
Import ListNotations.
Require Import Grist.Lib.LkMonad Grist.Model.Lookup Grist.Model.LookupRt GristGen.Lookup_gen.
Require Import Grist.Proofs.Lookup_proofs Grist.Proofs.LookupVal_proofs Grist.Proofs.LookupIndex_proofs
  Grist.Proofs.LookupWorld_proofs.
Open Scope Z_scope.

(* ---- table.make_sort_spec ----------------------------------------------------------------------- *)

Lemma slice_take : forall x l, memb str_eqb x l = true -> slice_to_index x l = Some (take_until x l).
Proof.
  induction l as [|y l IH]; cbn; intros H; [discriminate|].
  destruct (str_eqb y x); [reflexivity|]. now rewrite (IH H).
Qed.

Lemma sort_spec_tail : forall (l : list str) ms,
  (if memb str_eqb s_id l
   then bind (py_slice_to_index s_id l) (fun v => ret v)
   else if ms && negb (memb str_eqb s_manualSort l) then ret (l ++ [s_manualSort]) else ret l) tt =
  match (if memb str_eqb s_id l then Some (take_until s_id l)
         else if ms && negb (memb str_eqb s_manualSort l) then Some (l ++ [s_manualSort]) else Some l)
  with Some s => @Ok exn unit sortspec s tt | None => Exc TypeErr tt end.
Proof.
  intros l ms. destruct (memb str_eqb s_id l) eqn:Hm.
  - unfold bind, py_slice_to_index. now rewrite (slice_take s_id l Hm).
  - now destruct (ms && negb (memb str_eqb s_manualSort l)).
Qed.

Theorem gen_make_sort_spec_ok : forall ob sb ms,
  gen_make_sort_spec ob sb ms tt =
  match make_sort_spec ob sb ms with Some s => Ok s tt | None => Exc TypeErr tt end.
Proof.
  intros ob sb ms. unfold gen_make_sort_spec, make_sort_spec.
  destruct (sarg_truthy sb) eqn:Hs.
  - destruct sb; reflexivity.
  - destruct ob as [|s|l|b].
    + exact (sort_spec_tail [] ms).
    + exact (sort_spec_tail [s] ms).
    + exact (sort_spec_tail l ms).
    + reflexivity.
Qed.

(* ---- twowaymap.py: container functions and the three bin classes ------------------------------------ *)

Section GenBins.
  Context {K A : Type}.
  Variables (keq : K -> K -> bool) (aeq : A -> A -> bool) (khash : K -> bool) (ahash : A -> bool).
  Variable kfmt : K -> bool.
  Hypothesis EK : equiv keq.
  Notation D := (dict K (bin A)).

  (* _set_add / _list_add / _LookupSet_add, _..._remove, _..._make *)
  Lemma gen_cont_add_ok : forall kd v (b : bin A), is_single kd = false ->
    gen_cont_add aeq ahash kd v b =
    if hashes_values kd && negb (ahash v) then Exc TypeErr b
    else if memb aeq v (items b) then Ok false b else Ok true (mkBin (items b ++ [v]) []).
  Proof.
    intros kd v b Hs. destruct kd; try discriminate; cbn [gen_cont_add];
      unfold gen_set_add, gen_list_add, gen_lookupset_add, bind, ret, c_mem, c_add, c_clear_cache, keep_cache;
      cbn [hashes_values andb];
      destruct (ahash v); cbn [negb andb]; try reflexivity; destruct (memb aeq v (items b)); reflexivity.
  Qed.

  Lemma gen_cont_remove_ok : forall kd v (b : bin A), is_single kd = false ->
    gen_cont_remove aeq ahash kd v b =
    if hashes_values kd && negb (ahash v) then Exc TypeErr b
    else if memb aeq v (items b) then Ok tt (mkBin (remove_first aeq v (items b)) []) else Ok tt b.
  Proof.
    intros kd v b Hs. destruct kd; try discriminate; cbn [gen_cont_remove];
      unfold gen_set_remove, gen_list_remove, gen_lookupset_remove, bind, ret, try_with, c_mem, c_discard, c_list_remove,
        c_clear_cache, keep_cache; cbn [hashes_values andb];
      destruct (ahash v); cbn [negb andb]; try reflexivity; cbn beta iota;
      destruct (memb aeq v (items b)) eqn:Hm; cbn beta iota; rewrite ?Hm; reflexivity.
  Qed.

  Lemma gen_cont_make_ok : forall kd v, is_single kd = false ->
    gen_cont_make aeq ahash kd v tt =
    if hashes_values kd && negb (ahash v) then Exc TypeErr tt else Ok (one v) tt.
  Proof.
    intros kd v Hs. destruct kd; try discriminate; cbn [gen_cont_make];
      unfold gen_set_make, gen_list_make, gen_lookupset_make, bind, ret, no_state, c_make; cbn [hashes_values andb];
      destruct (ahash v); reflexivity.
  Qed.

  Definition embed_add (m : D) (r : ares (K:=K) (A:=A)) : res exn D (option A * option A) :=
    match r with AOk m' rem add => Ok (rem, add) m' | ARaise e => Exc e m end.

  Theorem gen_bin_add_item_ok : forall kd (m : D) key value,
    gen_bin_add_item keq aeq khash ahash kfmt kd key value m = embed_add m (add_item keq aeq khash ahash kfmt kd m key value).
  Proof.
    intros kd m key value. unfold add_item.
    destruct kd; cbn [gen_bin_add_item].
    - unfold gen_single_add_item, bind, ret, d_get_single, d_set_single.
      destruct (khash key); cbn [negb]; [|reflexivity].
      destruct (dget keq m key) as [[[|s it] ca]|]; try reflexivity.
      cbn beta iota. destruct (aeq s value); reflexivity.
    - unfold gen_strict_add_item, bind, ret, raise, d_get_single, d_set_single, fmt_exn.
      destruct (khash key); cbn [negb]; [|reflexivity].
      destruct (dget keq m key) as [[[|s it] ca]|]; try reflexivity.
      cbn beta iota. destruct (aeq s value); reflexivity.
    - unfold gen_container_add_item, bind, ret, d_get_cont, d_set_bin, with_container, no_state.
      destruct (khash key); cbn [negb]; [|reflexivity].
      destruct (dget keq m key) as [b|] eqn:G; cbn beta iota.
      + rewrite G, (gen_cont_add_ok KSet value b eq_refl).
        destruct (hashes_values KSet && negb (ahash value)); [now rewrite (dupd_same keq m key b G)|].
        destruct (memb aeq value (items b)); [now rewrite (dupd_same keq m key b G)|reflexivity].
      + rewrite (gen_cont_make_ok KSet value eq_refl).
        destruct (hashes_values KSet && negb (ahash value)); reflexivity.
    - unfold gen_container_add_item, bind, ret, d_get_cont, d_set_bin, with_container, no_state.
      destruct (khash key); cbn [negb]; [|reflexivity].
      destruct (dget keq m key) as [b|] eqn:G; cbn beta iota.
      + rewrite G, (gen_cont_add_ok KList value b eq_refl).
        destruct (hashes_values KList && negb (ahash value)); [now rewrite (dupd_same keq m key b G)|].
        destruct (memb aeq value (items b)); [now rewrite (dupd_same keq m key b G)|reflexivity].
      + rewrite (gen_cont_make_ok KList value eq_refl).
        destruct (hashes_values KList && negb (ahash value)); reflexivity.
    - unfold gen_container_add_item, bind, ret, d_get_cont, d_set_bin, with_container, no_state.
      destruct (khash key); cbn [negb]; [|reflexivity].
      destruct (dget keq m key) as [b|] eqn:G; cbn beta iota.
      + rewrite G, (gen_cont_add_ok KLookupSet value b eq_refl).
        destruct (hashes_values KLookupSet && negb (ahash value)); [now rewrite (dupd_same keq m key b G)|].
        destruct (memb aeq value (items b)); [now rewrite (dupd_same keq m key b G)|reflexivity].
      + rewrite (gen_cont_make_ok KLookupSet value eq_refl).
        destruct (hashes_values KLookupSet && negb (ahash value)); reflexivity.
  Qed.
  Lemma ddel_dupd : forall (m : D) k v, ddel keq (dupd keq m k v) k = ddel keq m k.
  Proof.
    induction m as [|[k0 v0] t IH]; intros k v; cbn; [reflexivity|].
    destruct (keq k0 k) eqn:E; cbn; rewrite E; [reflexivity|]. now rewrite IH.
  Qed.

  Theorem gen_bin_remove_item_ok : forall kd (m : D) key value,
    gen_bin_remove_item keq aeq khash ahash kfmt kd key value m =
    match remove_item keq aeq khash ahash kd m key value with Some m' => Ok tt m' | None => Exc TypeErr m end.
  Proof.
    intros kd m key value. unfold remove_item.
    assert (Hsingle : forall kd', is_single kd' = true ->
      gen_single_remove_item keq aeq khash ahash kfmt kd' key value m =
      match (if negb (khash key) then None else
             match dget keq m key with
             | None => Some m
             | Some b => match items b with s :: _ => if aeq s value then Some (ddel keq m key) else Some m | [] => Some m end
             end) with Some m' => Ok tt m' | None => Exc TypeErr m end).
    { intros kd' _. unfold gen_single_remove_item, bind, ret, d_get_single, d_del.
      destruct (khash key); cbn [negb]; [|reflexivity].
      destruct (dget keq m key) as [[[|s it] ca]|]; try reflexivity.
      cbn [items]. destruct (aeq s value); reflexivity. }
    assert (Hcont : forall kd', is_single kd' = false ->
      gen_container_remove_item keq aeq khash ahash kfmt kd' key value m =
      match (if negb (khash key) then None else
             match dget keq m key with
             | None => Some m
             | Some b =>
                 if hashes_values kd' && negb (ahash value) then None
                 else match (if memb aeq value (items b) then remove_first aeq value (items b) else items b) with
                      | [] => Some (ddel keq m key)
                      | it => Some (if memb aeq value (items b) then dupd keq m key (mkBin it []) else m)
                      end
             end) with Some m' => Ok tt m' | None => Exc TypeErr m end).
    { intros kd' Hs. unfold gen_container_remove_item, bind, ret, d_get_cont, d_del, with_container, cont_nonempty.
      destruct (khash key); cbn [negb]; [|reflexivity].
      destruct (dget keq m key) as [b|] eqn:G; cbn beta iota; [|reflexivity].
      rewrite G, (gen_cont_remove_ok kd' value b Hs).
      destruct (hashes_values kd' && negb (ahash value)); [now rewrite (dupd_same keq m key b G)|].
      destruct (memb aeq value (items b)) eqn:Hm.
      - rewrite (dget_dupd keq EK), G, (eq_refl_b _ EK). cbn [items].
        destruct (remove_first aeq value (items b)) as [|x it]; cbn [negb]; [now rewrite ddel_dupd|reflexivity].
      - rewrite (dupd_same keq m key b G), G. destruct b as [[|x it] ca]; reflexivity. }
    destruct kd; cbn [gen_bin_remove_item is_single].
    - apply (Hsingle KSingle eq_refl).
    - unfold gen_strict_remove_item. apply (Hsingle KStrict eq_refl).
    - apply (Hcont KSet eq_refl).
    - apply (Hcont KList eq_refl).
    - apply (Hcont KLookupSet eq_refl).
  Qed.

  Theorem gen_bin_remove_key_ok : forall kd (m : D) key,
    gen_bin_remove_key keq aeq khash ahash kfmt kd key m =
    match remove_key keq khash kd m key with Some (m', l) => Ok l m' | None => Exc TypeErr m end.
  Proof.
    intros kd m key. unfold remove_key.
    destruct kd; cbn [gen_bin_remove_key is_single];
      unfold gen_single_remove_key, gen_strict_remove_key, gen_container_remove_key, bind, ret, d_pop_single, d_pop_cont;
      (destruct m as [|p m0]; [reflexivity|]); destruct (khash key); cbn [negb]; try reflexivity;
      destruct (dget keq (p :: m0) key) as [[[|s it] ca]|]; reflexivity.
  Qed.
End GenBins.

(* ---- twowaymap.TwoWayMap --------------------------------------------------------------------------- *)

Definition run_out {S} (r : res exn S unit) : S * outcome :=
  match r with Ok _ s => (s, Done) | Exc e s => (s, Raise e) end.
Definition res_state {S A} (r : res exn S A) : S := match r with Ok _ s => s | Exc _ s => s end.

Section GenTwoWay.
  Context {L R : Type}.
  Variables (leq : L -> L -> bool) (req : R -> R -> bool) (lhash : L -> bool) (rhash : R -> bool).
  Variables (lfmt : L -> bool) (rfmt : R -> bool) (lk rk : kind).

  Theorem gen_tw_insert_ok : forall t left right,
    run_out (gen_tw_insert leq req lhash rhash lfmt rfmt lk rk left right t) =
    tw_insert leq req lhash rhash lfmt rfmt lk rk t left right.
  Proof.
    intros t left right.
    unfold gen_tw_insert, tw_insert, tw_rollback, bind, try_with, ret, raise, rm_fwd, rm_bwd,
      right_bin_add_item_fwd, left_bin_add_item_bwd, right_bin_remove_item_fwd, left_bin_remove_item_bwd.
    destruct (add_item leq req lhash rhash lfmt rk (fwd t) left right) as [fwd1 rrem radd|e1]; [|reflexivity].
    cbn [fwd bwd].
    destruct (add_item req leq rhash lhash rfmt lk (bwd t) right left) as [bwd1 lrem ladd|e2]; cbn [fwd bwd].
    - destruct rrem as [s|]; cbn [fwd bwd].
      + destruct (remove_item req leq rhash lhash lk bwd1 s left) as [bwd2|]; cbn [fwd bwd negb]; [|reflexivity].
        destruct lrem as [s'|]; cbn [fwd bwd]; [|reflexivity].
        destruct (remove_item leq req lhash rhash rk fwd1 s' right); reflexivity.
      + destruct lrem as [s'|]; cbn [fwd bwd negb]; [|reflexivity].
        destruct (remove_item leq req lhash rhash rk fwd1 s' right); reflexivity.
    - destruct radd as [a|]; cbn [fwd bwd].
      + destruct (remove_item leq req lhash rhash rk fwd1 left a) as [fwd2|]; cbn [fwd bwd]; [|reflexivity].
        destruct rrem as [s|]; cbn [fwd bwd]; [|reflexivity].
        destruct (add_item leq req lhash rhash lfmt rk fwd2 left s); reflexivity.
      + destruct rrem as [s|]; cbn [fwd bwd]; [|reflexivity].
        destruct (add_item leq req lhash rhash lfmt rk fwd1 left s); reflexivity.
  Qed.

  Theorem gen_tw_remove_ok : forall t left right,
    run_out (gen_tw_remove leq req lhash rhash lfmt rfmt lk rk left right t) =
    tw_remove leq req lhash rhash lk rk t left right.
  Proof.
    intros t left right.
    unfold gen_tw_remove, tw_remove, bind, ret, rm_fwd, rm_bwd, right_bin_remove_item_fwd, left_bin_remove_item_bwd.
    destruct (remove_item leq req lhash rhash rk (fwd t) left right) as [fwd1|]; cbn [fwd bwd negb]; [|reflexivity].
    destruct (remove_item req leq rhash lhash lk (bwd t) right left); reflexivity.
  Qed.

  Lemma for_each_rm_bwd : forall xs f b left,
    run_out (for_each xs (fun x => bind (left_bin_remove_item_bwd leq req lhash rhash lk x left) (fun _ => ret tt)) (mkTwm f b)) =
    (let '(b', ok) := rm_each_bwd leq req lhash rhash lk b xs left in
     (mkTwm f b', if ok then Done else Raise TypeErr)).
  Proof.
    induction xs as [|x xs IH]; intros f b left; cbn [for_each rm_each_bwd]; [reflexivity|].
    unfold bind at 1. unfold bind at 1. unfold left_bin_remove_item_bwd at 1, rm_bwd. cbn [fwd bwd].
    destruct (remove_item req leq rhash lhash lk b x left) as [b1|]; [|reflexivity].
    unfold ret at 1. apply IH.
  Qed.

  Lemma for_each_rm_fwd : forall xs f b right,
    run_out (for_each xs (fun x => bind (right_bin_remove_item_fwd leq req lhash rhash rk x right) (fun _ => ret tt)) (mkTwm f b)) =
    (let '(f', ok) := rm_each_fwd leq req lhash rhash rk f xs right in
     (mkTwm f' b, if ok then Done else Raise TypeErr)).
  Proof.
    induction xs as [|x xs IH]; intros f b right; cbn [for_each rm_each_fwd]; [reflexivity|].
    unfold bind at 1. unfold bind at 1. unfold right_bin_remove_item_fwd at 1, rm_fwd. cbn [fwd bwd].
    destruct (remove_item leq req lhash rhash rk f x right) as [f1|]; [|reflexivity].
    unfold ret at 1. apply IH.
  Qed.

  Lemma run_out_bind_tt : forall {S} (m : M exn S unit) s, run_out (bind m (fun _ => ret tt) s) = run_out (m s).
  Proof. intros S m s. unfold bind, ret. destruct (m s) as [[] s'|e s']; reflexivity. Qed.

  Theorem gen_tw_remove_left_ok : forall t left,
    run_out (gen_tw_remove_left leq req lhash rhash lfmt rfmt lk rk left t) =
    tw_remove_left leq req lhash rhash lk rk t left.
  Proof.
    intros t left. unfold gen_tw_remove_left, tw_remove_left. unfold bind at 1. unfold right_bin_remove_key_fwd.
    destruct (remove_key leq lhash rk (fwd t) left) as [[fwd1 removed]|]; [|reflexivity].
    rewrite run_out_bind_tt. rewrite for_each_rm_bwd.
    destruct (rm_each_bwd leq req lhash rhash lk (bwd t) removed left); reflexivity.
  Qed.

  Theorem gen_tw_remove_right_ok : forall t right,
    run_out (gen_tw_remove_right leq req lhash rhash lfmt rfmt lk rk right t) =
    tw_remove_right leq req lhash rhash lk rk t right.
  Proof.
    intros t right. unfold gen_tw_remove_right, tw_remove_right. unfold bind at 1. unfold left_bin_remove_key_bwd.
    destruct (remove_key req rhash lk (bwd t) right) as [[bwd1 removed]|]; [|reflexivity].
    rewrite run_out_bind_tt. rewrite for_each_rm_fwd.
    destruct (rm_each_fwd leq req lhash rhash rk (fwd t) removed right); reflexivity.
  Qed.

  Theorem gen_tw_clear_ok : forall t,
    run_out (gen_tw_clear (L:=L) (R:=R) leq req lhash rhash lfmt rfmt lk rk t) = (mkTwm [] [], Done).
  Proof. intros t. reflexivity. Qed.

  (* the method calls on the bin objects, as TwoWayMap makes them, are what the translated bin classes do *)
  Hypothesis EL : equiv leq.
  Hypothesis ER : equiv req.

  Theorem gen_bin_calls_ok : forall (t : twm L R) (left : L) (right : R),
    gen_right_bin_add_item_fwd leq req lhash rhash lfmt rk left right t = right_bin_add_item_fwd leq req lhash rhash lfmt rk left right t /\
    gen_left_bin_add_item_bwd leq req lhash rhash rfmt lk right left t = left_bin_add_item_bwd leq req lhash rhash rfmt lk right left t /\
    gen_right_bin_remove_item_fwd leq req lhash rhash lfmt rk left right t = right_bin_remove_item_fwd leq req lhash rhash rk left right t /\
    gen_left_bin_remove_item_bwd leq req lhash rhash rfmt lk right left t = left_bin_remove_item_bwd leq req lhash rhash lk right left t /\
    gen_right_bin_remove_key_fwd leq req lhash rhash lfmt rk left t = right_bin_remove_key_fwd leq lhash rk left t /\
    gen_left_bin_remove_key_bwd leq req lhash rhash rfmt lk right t = left_bin_remove_key_bwd req rhash lk right t.
  Proof.
    intros [f b] left right.
    unfold gen_right_bin_add_item_fwd, gen_left_bin_add_item_bwd, gen_right_bin_remove_item_fwd, gen_left_bin_remove_item_bwd,
      gen_right_bin_remove_key_fwd, gen_left_bin_remove_key_bwd, on_fwd, on_bwd,
      right_bin_add_item_fwd, left_bin_add_item_bwd, right_bin_remove_item_fwd, left_bin_remove_item_bwd,
      right_bin_remove_key_fwd, left_bin_remove_key_bwd. cbn [fwd bwd].
    rewrite !gen_bin_add_item_ok, !(gen_bin_remove_item_ok leq req lhash rhash lfmt EL),
      !(gen_bin_remove_item_ok req leq rhash lhash rfmt ER), !gen_bin_remove_key_ok.
    repeat split.
    - destruct (add_item leq req lhash rhash lfmt rk f left right); reflexivity.
    - destruct (add_item req leq rhash lhash rfmt lk b right left); reflexivity.
    - destruct (remove_item leq req lhash rhash rk f left right); reflexivity.
    - destruct (remove_item req leq rhash lhash lk b right left); reflexivity.
    - destruct (remove_key leq lhash rk f left) as [[m l]|]; reflexivity.
    - destruct (remove_key req rhash lk b right) as [[m l]|]; reflexivity.
  Qed.
End GenTwoWay.

(* ---- lookup.SimpleLookupMapping / ContainsLookupMapping ---------------------------------------------- *)

(* _make_row_key_map of the two classes: the bin kinds the model assumes *)
Theorem gen_kinds_ok : forall cols,
  (uses_contains cols = false -> (simple_left_kind, simple_right_kind) = (KLookupSet, right_kind cols)) /\
  (uses_contains cols = true -> (contains_left_kind, contains_right_kind) = (KLookupSet, right_kind cols)).
Proof. intros cols. unfold right_kind. split; intros ->; reflexivity. Qed.

Lemma fst_run_out : forall {S} (r : res exn S unit), fst (run_out r) = res_state r.
Proof. intros S [a s|e s]; reflexivity. Qed.

Lemma add_item_exn : forall {K A} (keq : K -> K -> bool) (aeq : A -> A -> bool) kh ah kf kd m k v e,
  add_item keq aeq kh ah kf kd m k v = ARaise e -> kd <> KStrict -> e = TypeErr.
Proof.
  intros K A keq aeq kh ah kf kd m k v e H N. unfold add_item in H.
  destruct (negb (kh k)); [inversion H; reflexivity|].
  destruct kd; try contradiction.
  - destruct (dget keq m k) as [[[|s it] ca]|]; try discriminate. destruct (aeq s v); discriminate.
  - destruct (hashes_values KSet && negb (ah v)); [inversion H; reflexivity|].
    destruct (dget keq m k) as [b|]; [destruct (memb aeq v (items b))|]; discriminate.
  - destruct (hashes_values KList && negb (ah v)); [inversion H; reflexivity|].
    destruct (dget keq m k) as [b|]; [destruct (memb aeq v (items b))|]; discriminate.
  - destruct (hashes_values KLookupSet && negb (ah v)); [inversion H; reflexivity|].
    destruct (dget keq m k) as [b|]; [destruct (memb aeq v (items b))|]; discriminate.
Qed.

(* an insert into the index of a lookup map can only fail with TypeError *)
Lemma lm_insert_exn : forall cols m r k m' e, lm_insert cols m r k = (m', Raise e) -> e = TypeErr.
Proof.
  intros cols m r k m' e H. unfold lm_insert, tw_insert, tw_rollback in H.
  assert (Nk : right_kind cols <> KStrict) by (unfold right_kind; destruct (uses_contains cols); discriminate).
  destruct (add_item Z.eqb vals_eqb always key_hashable never (right_kind cols) (fwd m) r k) as [f1 rrem radd|e1] eqn:E1.
  2:{ inversion H; subst. eapply add_item_exn; eauto. }
  destruct (add_item vals_eqb Z.eqb key_hashable always key_fmt_fails KLookupSet (bwd m) k r) as [b1 lrem ladd|e2] eqn:E2.
  - destruct (match rrem with Some a => rm_bwd Z.eqb vals_eqb always key_hashable KLookupSet b1 a r | None => (b1, true) end) as [b2 ok1].
    destruct ok1; cbn [negb] in H; [|inversion H; reflexivity].
    destruct (match lrem with Some a => rm_fwd Z.eqb vals_eqb always key_hashable (right_kind cols) f1 a k | None => (f1, true) end) as [f2 ok2].
    destruct ok2; inversion H; reflexivity.
  - assert (He2 : e2 = TypeErr) by (eapply add_item_exn; eauto; discriminate).
    destruct (match radd with Some a => remove_item Z.eqb vals_eqb always key_hashable (right_kind cols) f1 r a | None => Some f1 end) as [f2|];
      [|inversion H; reflexivity].
    destruct rrem as [a|]; [|inversion H; congruence].
    destruct (add_item Z.eqb vals_eqb always key_hashable never (right_kind cols) f2 r a) as [f3 x y|e3] eqn:E3; inversion H; subst; auto.
    eapply add_item_exn; eauto.
Qed.

Theorem gen_simple_update_record_ok : forall cols m r cells, uses_contains cols = false ->
  res_state (gen_simple_update_record cols r cells m) = fst (update_record cols m r cells).
Proof.
  intros cols m r cells Hu.
  assert (Hk : right_kind cols = KSingle) by (unfold right_kind; now rewrite Hu).
  assert (Hins : forall k s, run_out (gen_tw_insert Z.eqb vals_eqb always key_hashable never key_fmt_fails
                                        simple_left_kind simple_right_kind r k s) = lm_insert cols s r k).
  { intros k s. rewrite gen_tw_insert_ok. unfold lm_insert, simple_left_kind, simple_right_kind. now rewrite Hk. }
  assert (Hrm : forall k s, run_out (gen_tw_remove Z.eqb vals_eqb always key_hashable never key_fmt_fails
                                       simple_left_kind simple_right_kind r k s) = lm_remove cols s r k).
  { intros k s. rewrite gen_tw_remove_ok. unfold lm_remove, simple_left_kind, simple_right_kind. now rewrite Hk. }
  unfold gen_simple_update_record, update_record, gen_simple_get_mapped_key, lookup_left_single. rewrite Hu.
  unfold new_keys_iter. rewrite Hu. cbn [hd]. set (nk := map extract cells).
  unfold bind at 1. unfold bind at 1. unfold ret at 1.
  destruct (mapped_keys m r) as [|old rest]; cbn [okey_eqb].
  - unfold try_with. unfold bind at 1. specialize (Hins nk m).
    destruct (gen_tw_insert Z.eqb vals_eqb always key_hashable never key_fmt_fails simple_left_kind simple_right_kind r nk m)
      as [[] m1|e m1]; cbn [run_out] in Hins; rewrite <- Hins; [reflexivity|].
    destruct e; reflexivity.
  - destruct (vals_eqb nk old); [reflexivity|].
    unfold try_with. unfold bind at 1. specialize (Hins nk m).
    destruct (gen_tw_insert Z.eqb vals_eqb always key_hashable never key_fmt_fails simple_left_kind simple_right_kind r nk m)
      as [[] m1|e m1]; cbn [run_out] in Hins; rewrite <- Hins; [reflexivity|].
    symmetry in Hins. pose proof (lm_insert_exn cols m r nk m1 e Hins) as He. subst e.
    unfold bind at 1. unfold remove_opt. specialize (Hrm old m1). rewrite <- Hrm.
    destruct (gen_tw_remove Z.eqb vals_eqb always key_hashable never key_fmt_fails simple_left_kind simple_right_kind r old m1)
      as [[] m2|e m2]; reflexivity.
Qed.

Lemma lm_remove_done : forall cols m r k, key_hashable k = true -> snd (lm_remove cols m r k) = Done.
Proof.
  intros cols m r k Hh. unfold lm_remove, tw_remove, rm_fwd, rm_bwd.
  destruct (remove_item Z.eqb vals_eqb always key_hashable (right_kind cols) (fwd m) r k) as [f1|] eqn:E1.
  - cbn [negb]. destruct (remove_item vals_eqb Z.eqb key_hashable always KLookupSet (bwd m) k r) as [b1|] eqn:E2; [reflexivity|].
    apply remove_item_raise in E2. destruct E2 as [E2|[_ E2]]; [congruence|discriminate].
  - apply remove_item_raise in E1. destruct E1 as [E1|[_ E1]]; [discriminate|congruence].
Qed.

Lemma add_item_container_rem : forall {K A} (keq : K -> K -> bool) (aeq : A -> A -> bool) kh ah kf kd m k v m' rem add,
  add_item keq aeq kh ah kf kd m k v = AOk m' rem add -> is_single kd = false -> rem = None.
Proof.
  intros K A keq aeq kh ah kf kd m k v m' rem add H N. unfold add_item in H.
  destruct (negb (kh k)); [discriminate|].
  destruct kd; try discriminate;
    (destruct (_ && negb (ah v)); [discriminate|];
     destruct (dget keq m k) as [b|]; [destruct (memb aeq v (items b))|]; inversion H; reflexivity).
Qed.

Lemma lm_insert_done : forall cols m r k, uses_contains cols = true -> key_hashable k = true ->
  snd (lm_insert cols m r k) = Done.
Proof.
  intros cols m r k Hu Hh. unfold lm_insert, tw_insert.
  assert (Hk : right_kind cols = KSet) by (unfold right_kind; now rewrite Hu). rewrite Hk.
  destruct (add_item Z.eqb vals_eqb always key_hashable never KSet (fwd m) r k) as [f1 rrem radd|e1] eqn:E1.
  2:{ apply (add_item_raise Z.eqb vals_eqb always key_hashable never key_equiv) in E1.
      destruct E1 as [E1|[[_ E1]|[E1 _]]]; [discriminate|congruence|discriminate]. }
  rewrite (add_item_container_rem _ _ _ _ _ _ _ _ _ _ _ _ E1 eq_refl).
  destruct (add_item vals_eqb Z.eqb key_hashable always key_fmt_fails KLookupSet (bwd m) k r) as [b1 lrem ladd|e2] eqn:E2.
  2:{ apply (add_item_raise vals_eqb Z.eqb key_hashable always key_fmt_fails Z_equiv) in E2.
      destruct E2 as [E2|[[_ E2]|[E2 _]]]; [congruence|discriminate|discriminate]. }
  rewrite (add_item_container_rem _ _ _ _ _ _ _ _ _ _ _ _ E2 eq_refl). reflexivity.
Qed.

Section GenContains.
  Variable cols : list colspec.
  Hypothesis Hu : uses_contains cols = true.

  Let inst_remove r k (s : lmap) := gen_tw_remove Z.eqb vals_eqb always key_hashable never key_fmt_fails
                                       contains_left_kind contains_right_kind r k s.
  Let inst_insert r k (s : lmap) := gen_tw_insert Z.eqb vals_eqb always key_hashable never key_fmt_fails
                                       contains_left_kind contains_right_kind r k s.

  Lemma contains_remove_is : forall r k s, run_out (inst_remove r k s) = lm_remove cols s r k.
  Proof.
    intros. unfold inst_remove. rewrite gen_tw_remove_ok. unfold lm_remove, contains_left_kind, contains_right_kind, right_kind.
    now rewrite Hu.
  Qed.
  Lemma contains_insert_is : forall r k s, run_out (inst_insert r k s) = lm_insert cols s r k.
  Proof.
    intros. unfold inst_insert. rewrite gen_tw_insert_ok. unfold lm_insert, contains_left_kind, contains_right_kind, right_kind.
    now rewrite Hu.
  Qed.

  Lemma for_each_remove : forall ks r s, forallb key_hashable ks = true ->
    for_each ks (fun k => bind (gen_tw_remove Z.eqb vals_eqb always key_hashable never key_fmt_fails
                                  contains_left_kind contains_right_kind r k) (fun _ => ret tt)) s
    = Ok tt (remove_each cols s r ks).
  Proof.
    induction ks as [|k ks IH]; intros r s Hh; cbn [for_each remove_each]; [reflexivity|].
    cbn in Hh. apply andb_true_iff in Hh. destruct Hh as [H1 H2].
    unfold bind at 1. unfold bind at 1.
    pose proof (contains_remove_is r k s) as E. unfold inst_remove in E.
    pose proof (lm_remove_done cols s r k H1) as D.
    destruct (gen_tw_remove Z.eqb vals_eqb always key_hashable never key_fmt_fails contains_left_kind contains_right_kind r k s)
      as [[] s1|e s1]; cbn [run_out] in E; rewrite <- E in *; cbn [snd fst] in *; [|discriminate].
    unfold ret at 1. apply IH. exact H2.
  Qed.

  Lemma for_each_insert : forall ks r s, forallb key_hashable ks = true ->
    for_each ks (fun k => bind (gen_tw_insert Z.eqb vals_eqb always key_hashable never key_fmt_fails
                                  contains_left_kind contains_right_kind r k) (fun _ => ret tt)) s
    = Ok tt (insert_each cols s r ks).
  Proof.
    induction ks as [|k ks IH]; intros r s Hh; cbn [for_each insert_each]; [reflexivity|].
    cbn in Hh. apply andb_true_iff in Hh. destruct Hh as [H1 H2].
    unfold bind at 1. unfold bind at 1.
    pose proof (contains_insert_is r k s) as E. unfold inst_insert in E.
    pose proof (lm_insert_done cols s r k Hu H1) as D.
    destruct (gen_tw_insert Z.eqb vals_eqb always key_hashable never key_fmt_fails contains_left_kind contains_right_kind r k s)
      as [[] s1|e s1]; cbn [run_out] in E; rewrite <- E in *; cbn [snd fst] in *; [|discriminate].
    unfold ret at 1. apply IH. exact H2.
  Qed.

  Theorem gen_contains_update_record_ok : forall m r cells,
    forallb key_hashable (mapped_keys m r) = true ->
    gen_contains_update_record cols r cells m =
    Ok (keyset_symdiff (new_keys cols cells) (mapped_keys m r)) (fst (update_record cols m r cells)).
  Proof.
    intros m r cells Hm. unfold gen_contains_update_record, update_record. rewrite Hu. cbn [fst].
    unfold bind at 1. unfold py_set_keys.
    pose proof (contains_keys_hashable cols cells Hu) as Hnk.
    assert (Hit : forallb key_hashable (new_keys_iter cols cells) = true).
    { apply forallb_forall. intros k Hk. unfold new_keys_iter in Hk. rewrite Hu in Hk.
      eapply product_hashable; [|exact Hk]. apply zip_groups_hashable. }
    rewrite Hit. unfold new_keys. rewrite Hu. set (nk := dedup vals_eqb (new_keys_iter cols cells)).
    assert (Hnk' : forallb key_hashable nk = true) by (unfold new_keys in Hnk; rewrite Hu in Hnk; exact Hnk).
    unfold bind at 1. unfold gen_contains_get_mapped_keys, lookup_left_set. unfold bind at 1. unfold ret at 1.
    unfold bind at 1. unfold keyset_diff.
    rewrite for_each_remove by (apply forallb_filter; exact Hm).
    unfold bind at 1. rewrite for_each_insert by (apply forallb_filter; exact Hnk').
    reflexivity.
  Qed.

  Theorem gen_contains_remove_row_id_ok : forall m r,
    forallb key_hashable (mapped_keys m r) = true ->
    gen_contains_remove_row_id r m = Ok (mapped_keys m r) (fst (remove_row_id cols m r)).
  Proof.
    intros m r Hm. unfold gen_contains_remove_row_id, remove_row_id, gen_contains_get_mapped_keys, lookup_left_set.
    unfold bind at 1. unfold bind at 1. unfold ret at 1. unfold bind at 1.
    rewrite for_each_remove by exact Hm. reflexivity.
  Qed.
End GenContains.

Theorem gen_simple_remove_row_id_ok : forall cols m r, uses_contains cols = false ->
  (mapped_keys m r = [] \/ exists k, mapped_keys m r = [k]) ->
  res_state (gen_simple_remove_row_id r m) = fst (remove_row_id cols m r).
Proof.
  intros cols m r Hu Hs.
  assert (Hk : right_kind cols = KSingle) by (unfold right_kind; now rewrite Hu).
  unfold gen_simple_remove_row_id, remove_row_id, gen_simple_get_mapped_keys, gen_simple_get_mapped_key, lookup_left_single.
  unfold bind at 1. unfold bind at 1. unfold bind at 1. unfold ret at 1. unfold ret at 1. cbn [fst].
  destruct Hs as [E|[k E]]; rewrite E; cbn [for_each remove_each remove_opt].
  - reflexivity.
  - unfold bind at 1. unfold bind at 1. unfold bind at 1.
    assert (G : run_out (gen_tw_remove Z.eqb vals_eqb always key_hashable never key_fmt_fails
                           simple_left_kind simple_right_kind r k m) = lm_remove cols m r k).
    { rewrite gen_tw_remove_ok. unfold lm_remove, simple_left_kind, simple_right_kind. now rewrite Hk. }
    rewrite <- G.
    destruct (gen_tw_remove Z.eqb vals_eqb always key_hashable never key_fmt_fails simple_left_kind simple_right_kind r k m)
      as [[] m1|e m1]; reflexivity.
Qed.

(* ---- lookup.LookupMapColumn: _do_lookup_with_sort, _reset_sorted_versions ------------------------------ *)

Definition res_lres {S} (r : res exn S (list Z * unit)) : lres :=
  match r with Ok (l, _) _ => LRows l | Exc _ _ => LError end.

Theorem gen_do_lookup_with_sort_ok : forall t key s m,
  gen_do_lookup_with_sort t key s m =
  match do_lookup m t (map extract key) s with
  | (m', LRows l) => Ok (l, tt) m'
  | (m', LError) => Exc (if key_hashable (map extract key) then OtherErr else TypeErr) m'
  end.
Proof.
  intros t key s m.
  unfold gen_do_lookup_with_sort, gen_do_fast_lookup, gen_lookup_by_key, bwd_get_ref, do_lookup,
    bind, ret, ref_cache_get, sorted_ref, ref_cache_set, ref_bin.
  set (k := map extract key). unfold lmap, Lookup.key in *.
  destruct (key_hashable k); cbn [negb]; [|reflexivity].
  destruct (dget vals_eqb (bwd m) k) as [b|] eqn:G; cbn beta iota.
  - repeat (cbn beta iota; rewrite ?G). destruct (cache_get (cache b) s) as [l|]; [reflexivity|].
    repeat (cbn beta iota; rewrite ?G).
    destruct (sort_rows t s (items b)) as [l|]; repeat (cbn beta iota; rewrite ?G); reflexivity.
  - cbn. reflexivity.
Qed.

Corollary gen_do_lookup_with_sort_pair : forall t key s m,
  let r := gen_do_lookup_with_sort t key s m in
  (res_state r, res_lres r) = do_lookup m t (map extract key) s.
Proof.
  intros t key s m. cbv zeta. rewrite gen_do_lookup_with_sort_ok.
  destruct (do_lookup m t (map extract key) s) as [m' [l|]]; reflexivity.
Qed.

Definition pop_body (s : sortspec) (key_ : key) : LM lmap unit :=
  bind (gen_lookup_by_key key_ RefFresh)
       (fun v_2 => let row_ids_ : binref := v_2 in bind (ref_cache_pop row_ids_ s) (fun _ => ret tt)).

Lemma pop_body_step : forall s k m, key_hashable k = true ->
  pop_body s k m = Ok tt (mkTwm (fwd m) (pop_each (bwd m) [k] s)).
Proof.
  intros s k m H. unfold pop_body, gen_lookup_by_key, bwd_get_ref, bind, ret, ref_cache_pop, ref_bin. rewrite H. cbn [negb pop_each].
  destruct (dget vals_eqb (bwd m) k) as [b|] eqn:G; repeat (cbn beta iota; rewrite ?G); [reflexivity|].
  destruct m; reflexivity.
Qed.

Lemma for_each_pop : forall ks s m, forallb key_hashable ks = true ->
  for_each ks (pop_body s) m = Ok tt (mkTwm (fwd m) (pop_each (bwd m) ks s)).
Proof.
  induction ks as [|k ks IH]; intros s m Hh; [destruct m; reflexivity|].
  cbn in Hh. apply andb_true_iff in Hh. destruct Hh as [H1 H2].
  cbn [for_each]. unfold bind at 1. rewrite (pop_body_step s k m H1). rewrite (IH s _ H2). reflexivity.
Qed.

Lemma forallb_dedup : forall l, forallb key_hashable (dedup vals_eqb l) = forallb key_hashable l.
Proof.
  intros l. destruct (forallb key_hashable l) eqn:E.
  - apply forallb_forall. intros k Hk. apply (dedup_subset vals_eqb) in Hk. rewrite forallb_forall in E. auto.
  - induction l as [|x l IH]; [discriminate|]. cbn in *. destruct (key_hashable x) eqn:Hx; cbn in *; [|reflexivity].
    specialize (IH E). clear E.
    (* an unhashable element of dedup l survives the filter: it is not == to the hashable x *)
    apply not_true_is_false. intros C. rewrite forallb_forall in C.
    assert (Hex : exists y, In y (dedup vals_eqb l) /\ key_hashable y = false).
    { clear -IH. induction (dedup vals_eqb l) as [|y d IHd]; [discriminate|]. cbn in IH.
      destruct (key_hashable y) eqn:Hy; [destruct (IHd IH) as [z [Hz1 Hz2]]; exists z; split; [right|]; auto|].
      exists y. split; [left; reflexivity|exact Hy]. }
    destruct Hex as [y [Hy1 Hy2]].
    assert (Hin : In y (filter (fun y0 => negb (vals_eqb x y0)) (dedup vals_eqb l))).
    { apply filter_In. split; [exact Hy1|]. destruct (vals_eqb x y) eqn:Exy; [|reflexivity].
      rewrite (key_hashable_congr x y Exy) in Hx. congruence. }
    rewrite (C y Hin) in Hy2. discriminate.
Qed.

Theorem gen_reset_sorted_versions_ok : forall cols r cells s m,
  gen_reset_sorted_versions cols r cells s m =
  match reset_sorted cols m cells s with
  | Some m' => Ok (dedup vals_eqb (new_keys_iter cols cells)) m'
  | None => Exc TypeErr m
  end.
Proof.
  intros cols r cells s m. unfold gen_reset_sorted_versions, reset_sorted, py_set_keys.
  unfold bind at 1.
  assert (Hnk : new_keys cols cells = dedup vals_eqb (new_keys_iter cols cells)).
  { unfold new_keys. destruct (uses_contains cols) eqn:Hu; [reflexivity|].
    unfold new_keys_iter. rewrite Hu. reflexivity. }
  rewrite Hnk, forallb_dedup.
  destruct (forallb key_hashable (new_keys_iter cols cells)) eqn:Hh; [|reflexivity].
  unfold bind at 1. fold (pop_body s). rewrite for_each_pop by (rewrite forallb_dedup; exact Hh). reflexivity.
Qed.

Lemma inv_mapped_hashable : forall cols m r, lm_inv cols m -> forallb key_hashable (mapped_keys m r) = true.
Proof.
  intros cols m r I. apply forallb_forall. intros k Hk. apply (mrel_hashable cols m r k I).
  unfold mrel. apply memb_In; [apply key_equiv|exact Hk].
Qed.

(* ---- get_new_keys_iter of both mapping classes ----------------------------------------------------------- *)

Theorem gen_simple_get_new_keys_iter_ok : forall cols r cells, uses_contains cols = false ->
  gen_simple_get_new_keys_iter cols r cells tt = Ok (new_keys_iter cols cells) tt.
Proof. intros cols r cells Hu. unfold gen_simple_get_new_keys_iter, new_keys_iter. now rewrite Hu. Qed.

Lemma for_each_groups : forall (F : colspec * val -> LM (list (list val)) unit),
  (forall c v acc, F (c, v) acc = Ok tt (acc ++ [contains_group c v])) ->
  forall cols cells acc, for_each (combine cols cells) F acc = Ok tt (acc ++ zip_groups cols cells).
Proof.
  intros F HF. induction cols as [|c cols IH]; intros cells acc; cbn [combine for_each zip_groups].
  - now rewrite app_nil_r.
  - destruct cells as [|v cells]; cbn [combine for_each zip_groups]; [now rewrite app_nil_r|].
    unfold bind at 1. rewrite HF, IH, <- app_assoc. reflexivity.
Qed.

Theorem gen_contains_get_new_keys_iter_ok : forall cols r cells s0, uses_contains cols = true ->
  gen_contains_get_new_keys_iter cols r cells s0 = Ok (new_keys_iter cols cells) (zip_groups cols cells).
Proof.
  intros cols r cells s0 Hu. unfold gen_contains_get_new_keys_iter, new_keys_iter. rewrite Hu.
  unfold bind at 1. unfold acc_reset. unfold bind at 1.
  rewrite for_each_groups.
  - reflexivity.
  - intros c v acc. unfold contains_group, try_with, bind, ret, raise, py_set_val, acc_append.
    destruct c as [|[e|]].
    + cbn [forallb dedup filter]. destruct (hashable v); reflexivity.
    + destruct v; cbn [is_str truthy iter_val val_iter]; try reflexivity;
        try (cbn [forallb dedup filter]; destruct (hashable e); reflexivity);
        try (match goal with |- context [negb ?c] => destruct c end; cbn [negb]; try reflexivity;
             try (cbn [forallb dedup filter]; destruct (hashable e); reflexivity));
        try (destruct l; cbn [negb]; try (cbn [forallb dedup filter]; destruct (hashable e); reflexivity);
             match goal with |- context [forallb hashable ?x] => destruct (forallb hashable x) end; reflexivity).
    + destruct v; cbn [is_str truthy iter_val val_iter]; try reflexivity;
        try (match goal with |- context [negb ?c] => destruct c end; cbn [negb]; reflexivity);
        try (destruct l; cbn [negb]; try reflexivity;
             match goal with |- context [forallb hashable ?x] => destruct (forallb hashable x) end; reflexivity).
Qed.

(* ---- sort_key.SortKey.__lt__ ------------------------------------------------------------------------------ *)

Lemma fallback_pos_gen : forall a : val,
  ((if match a with VNone => true | _ => false end then 0 else 1), (if is_number a then 0 else 1), type_name a) = fallback_pos a.
Proof. destruct a; reflexivity. Qed.

Theorem gen_sortkey_lt_ok : forall va vb ascs ra rb,
  gen_sortkey_lt va vb ascs ra rb tt =
  match sortkey_lt va vb ascs ra rb with Some b => Ok b tt | None => Exc OtherErr tt end.
Proof.
  intros va vb ascs ra rb. unfold gen_sortkey_lt.
  revert vb ascs. induction va as [|a va IH]; intros vb ascs.
  - reflexivity.
  - destruct vb as [|b vb]; [reflexivity|]. destruct ascs as [|s ascs]; [reflexivity|].
    cbn [zip3 for_first sortkey_lt]. unfold bind at 1. unfold bind at 1.
    unfold sortkey_col, try_with, bind at 1 2, py_lt_m, ret, raise.
    rewrite !fallback_pos_gen.
    destruct (py_lt a b); cbn beta iota.
    + reflexivity.
    + destruct (py_lt b a); cbn beta iota.
      * reflexivity.
      * specialize (IH vb ascs). unfold bind in IH. exact IH.
      * destruct (pos_ltb (fallback_pos a) (fallback_pos b)); [reflexivity|].
        destruct (pos_ltb (fallback_pos b) (fallback_pos a)); [reflexivity|].
        specialize (IH vb ascs). unfold bind in IH. exact IH.
      * reflexivity.
    + destruct (pos_ltb (fallback_pos a) (fallback_pos b)); [reflexivity|].
      destruct (pos_ltb (fallback_pos b) (fallback_pos a)); [reflexivity|].
      specialize (IH vb ascs). unfold bind in IH. exact IH.
    + reflexivity.
Qed.
