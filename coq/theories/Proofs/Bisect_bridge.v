(* C14 -- bridging lemmas: the code translated from records.py / sort_key.py / functions/prevnext.py on every run
   (GristGen.Bisect_gen) coincides pointwise with the hand-written model Model/Bisect.v.  Re-checked against the
   regenerated translation on every run: a semantic edit of the translated methods breaks one of these proofs. *)
From Coq Require Import ZArith QArith List Bool Lia.
Import ListNotations.
Require Import Grist.Model.Bisect Grist.Model.BisectPy GristGen.Bisect_gen Grist.Proofs.Bisect_proofs.
Open Scope Z_scope.

(* ---- sort_key.py: SortKey.__lt__ ------------------------------------------------------------- *)
Lemma fb_key_eq : forall a,
  ((if is_none a then 0 else 1), (if is_number a then 0 else 1), type_name a) = fb_key a.
Proof. destruct a; reflexivity. Qed.

Lemma for_zip3_vals_lt : forall (body : val -> val -> colid * Z -> flow bool) cspec va vb tie,
  (forall a b c, In c cspec ->
     body a b c = match col_step a b (snd c =? 1) with Some r => OK (Some r) | None => OK None end) ->
  fl_finish (fl_seq (for_zip3 body va vb cspec) (OK (Some tie))) = OK (vals_lt (spec_of cspec) va vb tie).
Proof.
  intros body cspec. induction cspec as [|c cspec IH]; intros va vb tie Hb.
  - destruct va, vb; reflexivity.
  - destruct va as [|a va], vb as [|b vb]; try reflexivity.
    cbn [for_zip3 spec_of map vals_lt]. rewrite (Hb a b c) by (left; reflexivity).
    destruct (col_step a b (snd c =? 1)) as [r|]; [reflexivity|].
    apply IH. intros. apply Hb. right. assumption.
Qed.

Theorem SortKey_lt_bridge : forall cls x y, signs_ok (cls_spec cls) ->
  SortKey___lt__ cls x y = OK (key_lt (spec_of (cls_spec cls)) x y).
Proof.
  intros cls x y Hs. unfold SortKey___lt__, key_lt. apply for_zip3_vals_lt.
  intros a b [c sign] Hin. unfold signs_ok in Hs. rewrite Forall_forall in Hs. specialize (Hs _ Hin).
  cbn [snd] in *. rewrite !fb_key_eq.
  unfold col_step, fb_step, py_lt_e.
  generalize (py_lt a b) (py_lt b a) (fb_lt (fb_key a) (fb_key b)) (fb_lt (fb_key b) (fb_key a)).
  destruct Hs as [-> | ->]; intros [[|]|] [[|]|] [|] [|]; reflexivity.
Qed.

(* ---- sort_key.py: make_sort_key's col_sort_spec ------------------------------------------------ *)

Lemma gen_split_col_spec : forall cs,
  (if str_startswith cs [45] then (str_from cs 1%nat, -1) else (cs, 1)) =
  (fst (split_col_spec cs), if snd (split_col_spec cs) then 1 else -1).
Proof.
  intros [|c rest]; [reflexivity|]. unfold split_col_spec, c_minus, str_startswith, str_from.
  rewrite (Z.eqb_sym 45 c). destruct (c =? 45); reflexivity.
Qed.

Theorem make_sort_key_spec_bridge : forall table sort_spec,
  (forall cs, In cs sort_spec -> tb_has_column table (fst (split_col_spec cs)) = true) ->
  make_sort_key_spec table sort_spec = OK (model_cspec sort_spec).
Proof.
  intros table sort_spec. unfold make_sort_key_spec, model_cspec.
  induction sort_spec as [|cs t IH]; intros H; [reflexivity|].
  cbn [map_m map]. rewrite gen_split_col_spec. unfold get_column at 1.
  rewrite (H cs) by (left; reflexivity). cbn [bind]. rewrite IH by (intros; apply H; right; assumption).
  reflexivity.
Qed.

Lemma model_cspec_ok : forall sort_spec,
  signs_ok (model_cspec sort_spec) /\ spec_of (model_cspec sort_spec) = map snd (map split_col_spec sort_spec) /\
  map fst (model_cspec sort_spec) = map fst (map split_col_spec sort_spec).
Proof.
  intros. unfold signs_ok, spec_of, model_cspec. repeat split.
  - apply Forall_forall. intros p Hp. apply in_map_iff in Hp. destruct Hp as (cs & <- & _). cbn.
    destruct (snd (split_col_spec cs)); auto.
  - rewrite !map_map. apply map_ext. intros cs. cbn. destruct (snd (split_col_spec cs)); reflexivity.
  - rewrite !map_map. reflexivity.
Qed.

(* ---- sort_key.py: SortKey.__init__ ------------------------------------------------------------- *)
Theorem SortKey_init_values : forall cls r v vs, SortKey___init__ cls r (Some (v :: vs)) = OK (v :: vs, r).
Proof. reflexivity. Qed.

Lemma map_m_ext : forall {A B} (f g : A -> exc B) l, (forall x, In x l -> f x = g x) -> map_m f l = map_m g l.
Proof.
  induction l as [|x t IH]; intros H; [reflexivity|]. cbn. rewrite (H x) by (left; reflexivity).
  rewrite IH by (intros; apply H; right; assumption). reflexivity.
Qed.

Lemma init_cells : forall cls r values, vals_truthy values = false ->
  SortKey___init__ cls r values =
  bind (map_m (fun p => cell_value (cls_table cls) (fst p) r) (cls_spec cls)) (fun vs => OK (vs, r)).
Proof.
  intros cls r values Hv. unfold SortKey___init__.
  assert (forall other, vals_or values other = other) as E.
  { intros. destruct values as [[|]|]; try reflexivity. discriminate. }
  rewrite E.
  match goal with |- context [map_m ?f (cls_spec cls)] =>
    rewrite (map_m_ext f (fun p => cell_value (cls_table cls) (fst p) r) (cls_spec cls)) end.
  2: { intros [c s] _. cbn. destruct (cell_value (cls_table cls) c r); reflexivity. }
  destruct (map_m _ (cls_spec cls)); reflexivity.
Qed.

Theorem SortKey_init_row : forall cls rows r values, table_ok cls rows -> row_in_table cls r ->
  vals_truthy values = false -> SortKey___init__ cls (RId (rid r)) values = OK (row_key r).
Proof.
  intros cls rows r values HT Hr Hv. rewrite init_cells by assumption.
  assert (map_m (fun p => cell_value (cls_table cls) (fst p) (RId (rid r))) (cls_spec cls)
          = map_m (fun p => tb_cell (cls_table cls) (fst p) (RId (rid r))) (cls_spec cls)) as ->.
  { apply map_m_ext. intros p Hp. unfold cell_value, get_column. rewrite (tk_cols _ _ HT p Hp). reflexivity. }
  rewrite Hr. reflexivity.
Qed.

Theorem SortKey_init_sentinel : forall cls rows s values, table_ok cls rows -> cls_spec cls <> [] ->
  s = RNegInf \/ s = RPosInf -> vals_truthy values = false ->
  SortKey___init__ cls s values = Raise ExOther.
Proof.
  intros cls rows s values HT Hne Hs Hv. rewrite init_cells by assumption.
  destruct (cls_spec cls) as [|p t] eqn:E; [congruence|]. cbn [map_m].
  unfold cell_value at 1, get_column. rewrite (tk_cols _ _ HT p) by (rewrite E; left; reflexivity). cbn [bind].
  destruct Hs as [-> | ->]; [rewrite (tk_min _ _ HT)|rewrite (tk_max _ _ HT)]; reflexivity.
Qed.

(* ---- bisect with key ---------------------------------------------------------------------------- *)
Lemma bisect_loop_m_pure : forall {A B K} (g : A -> B) (ltb : K -> K -> exc bool) (lt : K -> K -> bool)
    (keyf : B -> exc K) (kf : A -> K) (l : list A) (x : K) s,
  (forall a b, ltb a b = OK (lt a b)) -> (forall e, In e l -> keyf (g e) = OK (kf e)) ->
  forall fuel lo hi,
  bisect_loop_m ltb keyf (map g l) x s fuel lo hi =
  OK (bisect_loop (match s with BLeft => fun e => lt (kf e) x | BRight => fun e => negb (lt x (kf e)) end) l fuel lo hi).
Proof.
  intros A B K g ltb lt keyf kf l x s Hl Hk. induction fuel as [|f IH]; intros lo hi; [reflexivity|].
  cbn [bisect_loop_m bisect_loop]. destruct (lo <? hi); [|reflexivity].
  rewrite nth_error_map. destruct (nth_error l (Z.to_nat ((lo + hi) / 2))) as [e|] eqn:En; [|reflexivity].
  cbn [option_map]. rewrite (Hk e) by (eapply nth_error_In; eassumption). cbn [bind].
  destruct s; rewrite Hl; cbn [bind].
  - destruct (lt (kf e) x); apply IH.
  - destruct (lt x (kf e)); cbn [negb]; apply IH.
Qed.

Lemma bisect_call_pure : forall {A B K} (g : A -> B) (ltb : K -> K -> exc bool) (lt : K -> K -> bool)
    (keyf : B -> exc K) (kf : A -> K) (l : list A) (x : K) s,
  (forall a b, ltb a b = OK (lt a b)) -> (forall e, In e l -> keyf (g e) = OK (kf e)) ->
  bisect_call s ltb keyf (map g l) x =
  OK (match s with BLeft => bisect_left lt kf l x | BRight => bisect_right lt kf l x end).
Proof.
  intros. unfold bisect_call. rewrite map_length.
  rewrite (bisect_loop_m_pure g ltb lt keyf kf l x s) by assumption.
  destruct s; reflexivity.
Qed.

(* ---- records.py: RecordSet._at -------------------------------------------------------------------- *)
Theorem RecordSet_at_bridge : forall self rows i, p_row_ids self = map rid rows ->
  RecordSet__at self i = OK (rid_of (at_row rows i)).
Proof.
  intros self rows i E. unfold RecordSet__at, at_row, len_z, mk_record. rewrite E, map_length.
  destruct ((0 <=? i) && (i <? Z.of_nat (length rows))) eqn:Hc; [|reflexivity].
  apply andb_prop in Hc. destruct Hc as [H0 H1]. apply Z.leb_le in H0. apply Z.ltb_lt in H1.
  unfold list_get. destruct (Z.ltb_spec i 0); [lia|]. destruct (Z.ltb_spec i 0); [lia|].
  rewrite nth_error_map. destruct (nth_error rows (Z.to_nat i)) eqn:En; [reflexivity|].
  apply nth_error_None in En. lia.
Qed.

(* ---- records.py: _get_sort_key, _bisect_index, _bisect_find --------------------------------------- *)
Lemma get_sort_key_none : forall self, p_sort_key self = None -> RecordSet__get_sort_key self = Raise ExValueError.
Proof. intros self E. unfold RecordSet__get_sort_key. rewrite E. cbn. destruct (p_sort_by self); reflexivity. Qed.

Lemma get_sort_key_some : forall self cls, p_sort_key self = Some cls -> RecordSet__get_sort_key self = OK cls.
Proof. intros self cls E. unfold RecordSet__get_sort_key. rewrite E. reflexivity. Qed.


Lemma bisect_index_ok : forall self cls rows s r values x,
  p_row_ids self = map rid rows -> p_sort_key self = Some cls -> signs_ok (cls_spec cls) -> table_ok cls rows ->
  SortKey___init__ cls r values = OK x ->
  RecordSet__bisect_index self s r values = OK (model_bisect s (spec_of (cls_spec cls)) rows x).
Proof.
  intros self cls rows s r values x Hids Hk Hs HT Hx. unfold RecordSet__bisect_index.
  rewrite (get_sort_key_some _ _ Hk). cbn [bind]. rewrite Hx. cbn [bind]. rewrite Hids.
  rewrite (bisect_call_pure rid (SortKey___lt__ cls) (key_lt (spec_of (cls_spec cls)))
             (fun t => SortKey___init__ cls (RId t) None) row_key rows x s).
  - destruct s; reflexivity.
  - intros. apply SortKey_lt_bridge. assumption.
  - intros e He. apply (SortKey_init_row cls rows); auto. apply (tk_rows _ _ HT). assumption.
Qed.

Lemma bisect_index_err : forall self cls s r values e,
  p_sort_key self = Some cls -> SortKey___init__ cls r values = Raise e ->
  RecordSet__bisect_index self s r values = Raise e.
Proof.
  intros self cls s r values e Hk Hx. unfold RecordSet__bisect_index.
  rewrite (get_sort_key_some _ _ Hk). cbn [bind]. rewrite Hx. reflexivity.
Qed.

Lemma bisect_find_ok : forall self cls rows s shift r values x,
  p_row_ids self = map rid rows -> p_sort_key self = Some cls -> signs_ok (cls_spec cls) -> table_ok cls rows ->
  SortKey___init__ cls r values = OK x ->
  RecordSet__bisect_find self s shift r values =
  OK (rid_of (at_row rows (model_bisect s (spec_of (cls_spec cls)) rows x + shift))).
Proof.
  intros. unfold RecordSet__bisect_find. rewrite (bisect_index_ok self cls rows s r values x) by assumption.
  cbn [bind]. rewrite (RecordSet_at_bridge self rows) by assumption. reflexivity.
Qed.

Lemma bisect_find_err : forall self cls s shift r values e,
  p_sort_key self = Some cls -> SortKey___init__ cls r values = Raise e ->
  RecordSet__bisect_find self s shift r values = Raise e.
Proof.
  intros. unfold RecordSet__bisect_find. rewrite (bisect_index_err self cls s r values e) by assumption. reflexivity.
Qed.

Lemma bisect_find_nokey : forall self s shift r values,
  p_sort_key self = None -> RecordSet__bisect_find self s shift r values = Raise ExValueError.
Proof.
  intros. unfold RecordSet__bisect_find, RecordSet__bisect_index. rewrite get_sort_key_none by assumption. reflexivity.
Qed.

(* ---- FindOps.lt / le / gt / ge ------------------------------------------------------------------- *)
Lemma spec_of_nil : forall cspec, spec_of cspec <> [] -> cspec <> [].
Proof. intros [|] H; [exfalso; apply H; reflexivity|discriminate]. Qed.

Lemma find_row_bridge : forall self spec rows (left : bool) shift sent values,
  rs_rel self spec rows -> sent = RNegInf \/ sent = RPosInf ->
  res_of (RecordSet__bisect_find self (if left then BLeft else BRight) shift sent (Some values)) =
  to_res (find_row left shift sent (mkRset spec rows) values).
Proof.
  intros self spec rows left shift sent values HR Hsent. unfold find_row. cbn [rs_spec rs_rows].
  destruct spec as [|s0 sp] eqn:Esp.
  - rewrite bisect_find_nokey; [reflexivity|]. apply (rr_none _ _ _ HR). reflexivity.
  - rewrite <- Esp in *. destruct (rr_some _ _ _ HR) as (cls & Hk & Hs & Hsp & HT); [congruence|].
    destruct values as [|v vs].
    + rewrite (bisect_find_err self cls _ shift sent (Some []) ExOther); [reflexivity|assumption|].
      apply (SortKey_init_sentinel cls rows); auto. apply spec_of_nil. congruence.
    + rewrite (bisect_find_ok self cls rows _ shift sent (Some (v :: vs)) (v :: vs, sent));
        auto using (rr_ids _ _ _ HR), SortKey_init_values.
      rewrite Hsp. destruct left; reflexivity.
Qed.

Theorem FindOps_lt_bridge : forall self spec rows values, rs_rel self spec rows ->
  res_of (FindOps_lt self values) = find_lt (mkRset spec rows) values.
Proof.
  intros. unfold FindOps_lt, find_lt. rewrite <- (find_row_bridge self spec rows true) by auto.
  destruct (RecordSet__bisect_find _ _ _ _ _); reflexivity.
Qed.
Theorem FindOps_le_bridge : forall self spec rows values, rs_rel self spec rows ->
  res_of (FindOps_le self values) = find_le (mkRset spec rows) values.
Proof.
  intros. unfold FindOps_le, find_le. rewrite <- (find_row_bridge self spec rows false) by auto.
  destruct (RecordSet__bisect_find _ _ _ _ _); reflexivity.
Qed.
Theorem FindOps_gt_bridge : forall self spec rows values, rs_rel self spec rows ->
  res_of (FindOps_gt self values) = find_gt (mkRset spec rows) values.
Proof.
  intros. unfold FindOps_gt, find_gt. rewrite <- (find_row_bridge self spec rows false) by auto.
  destruct (RecordSet__bisect_find _ _ _ _ _); reflexivity.
Qed.
Theorem FindOps_ge_bridge : forall self spec rows values, rs_rel self spec rows ->
  res_of (FindOps_ge self values) = find_ge (mkRset spec rows) values.
Proof.
  intros. unfold FindOps_ge, find_ge. rewrite <- (find_row_bridge self spec rows true) by auto.
  destruct (RecordSet__bisect_find _ _ _ _ _); reflexivity.
Qed.

(* ---- records.py: _find_eq, FindOps.eq ------------------------------------------------------------- *)
Lemma at_row_in : forall rows i r, at_row rows i = Some r -> In r rows.
Proof.
  intros rows i r. unfold at_row. destruct ((0 <=? i) && (i <? Z.of_nat (length rows))); [|discriminate].
  apply nth_error_In.
Qed.

Theorem FindOps_eq_bridge : forall self spec rows values, rs_rel self spec rows ->
  res_of (FindOps_eq self values) = find_eq (mkRset spec rows) values.
Proof.
  intros self spec rows values HR. unfold FindOps_eq, RecordSet__find_eq, find_eq, find_row. cbn [rs_spec rs_rows].
  destruct spec as [|s0 sp] eqn:Esp.
  - rewrite bisect_find_nokey; [reflexivity|]. apply (rr_none _ _ _ HR). reflexivity.
  - rewrite <- Esp in *. destruct (rr_some _ _ _ HR) as (cls & Hk & Hs & Hsp & HT); [congruence|].
    destruct values as [|v vs].
    + rewrite (bisect_find_err self cls BLeft 0 RNegInf (Some []) ExOther); [reflexivity|assumption|].
      apply (SortKey_init_sentinel cls rows); auto. apply spec_of_nil. congruence.
    + rewrite (bisect_find_ok self cls rows BLeft 0 RNegInf (Some (v :: vs)) (v :: vs, RNegInf));
        auto using (rr_ids _ _ _ HR), SortKey_init_values.
      cbn [bind model_bisect]. rewrite Hsp.
      destruct (at_row rows (bisect_left (key_lt spec) row_key rows (v :: vs, RNegInf) + 0)) as [r|] eqn:Ea;
        cbn [rid_of]; [|reflexivity].
      unfold record_truthy. destruct (rid r =? 0) eqn:E0; [apply Z.eqb_eq in E0; rewrite E0; reflexivity|]. cbn [negb].
      rewrite (get_sort_key_some _ _ Hk). cbn [bind]. rewrite SortKey_init_values. cbn [bind].
      rewrite (SortKey_init_row cls rows r None HT) by (try apply (tk_rows _ _ HT); eauto using at_row_in).
      cbn [bind]. rewrite SortKey_lt_bridge by assumption. cbn [bind]. rewrite Hsp.
      destruct (key_lt spec (v :: vs, RId (rid r)) (row_key r)); reflexivity.
Qed.

(* ---- FindOps.previous / next / rank --------------------------------------------------------------- *)

Section PrevNextBridge.
  Variables (self : pyrset) (spec : list bool) (rows : list row) (r : row).
  Hypothesis HR : rs_rel self spec rows.
  (* the record whose neighbours are asked for is a record of the same table *)
  Hypothesis Hr : forall cls, p_sort_key self = Some cls -> row_in_table cls r.

  Lemma probe_row_find : forall s shift,
    res_of (RecordSet__bisect_find self s shift (RId (rid r)) None) =
    match spec with
    | [] => ErrValue
    | _ :: _ => Ok (rid_of (at_row rows (model_bisect s spec rows (row_key r) + shift)))
    end.
  Proof.
    intros s shift. destruct spec as [|s0 sp] eqn:Esp.
    - rewrite bisect_find_nokey; [reflexivity|]. apply (rr_none _ _ _ HR). reflexivity.
    - rewrite <- Esp in *. destruct (rr_some _ _ _ HR) as (cls & Hk & Hs & Hsp & HT); [congruence|].
      rewrite (bisect_find_ok self cls rows s shift (RId (rid r)) None (row_key r));
        auto using (rr_ids _ _ _ HR). 2: { apply (SortKey_init_row cls rows); auto. }
      rewrite Hsp, Esp. reflexivity.
  Qed.

  Theorem FindOps_previous_bridge : res_of (FindOps_previous self (rid r)) = find_previous (mkRset spec rows) r.
  Proof.
    unfold FindOps_previous, find_previous, to_local_row_id. cbn [bind rs_spec rs_rows].
    pose proof (probe_row_find BLeft (-1)) as H.
    destruct (RecordSet__bisect_find self BLeft (-1) (RId (rid r)) None); exact H.
  Qed.

  Theorem FindOps_next_bridge : res_of (FindOps_next self (rid r)) = find_next (mkRset spec rows) r.
  Proof.
    unfold FindOps_next, find_next, to_local_row_id. cbn [bind rs_spec rs_rows].
    pose proof (probe_row_find BRight 0) as H.
    destruct (RecordSet__bisect_find self BRight 0 (RId (rid r)) None); exact H.
  Qed.

  Lemma probe_row_index :
    res_of (RecordSet__bisect_index self BLeft (RId (rid r)) None) =
    match spec with [] => ErrValue | _ :: _ => Ok (bisect_left (key_lt spec) row_key rows (row_key r)) end.
  Proof.
    destruct spec as [|s0 sp] eqn:Esp.
    - unfold RecordSet__bisect_index. rewrite get_sort_key_none; [reflexivity|]. apply (rr_none _ _ _ HR). reflexivity.
    - rewrite <- Esp in *. destruct (rr_some _ _ _ HR) as (cls & Hk & Hs & Hsp & HT); [congruence|].
      rewrite (bisect_index_ok self cls rows BLeft (RId (rid r)) None (row_key r));
        auto using (rr_ids _ _ _ HR). 2: { apply (SortKey_init_row cls rows); auto. }
      rewrite Hsp, Esp. reflexivity.
  Qed.

  Theorem FindOps_rank_bridge : forall order,
    res_of (FindOps_rank self (rid r) order) =
    if str_eqb order s_asc then find_rank (mkRset spec rows) r true
    else if str_eqb order s_desc then find_rank (mkRset spec rows) r false
    else match spec with [] => ErrValue | _ :: _ => ErrValue end.
  Proof.
    intros order. unfold FindOps_rank, find_rank, to_local_row_id, s_asc, s_desc. cbn [bind rs_spec rs_rows].
    pose proof probe_row_index as H.
    destruct (RecordSet__bisect_index self BLeft (RId (rid r)) None) as [index|e]; cbn [bind].
    - unfold res_of in H. destruct spec as [|s0 sp]; [discriminate H|]. injection H as H. subst index.
      destruct (str_eqb order [97; 115; 99]); [reflexivity|].
      destruct (str_eqb order [100; 101; 115; 99]); [|reflexivity].
      unfold RecordSet___len__, len_z, fl_finish, bind. rewrite (rr_ids _ _ _ HR), map_length. reflexivity.
    - destruct spec as [|s0 sp]; [|destruct e; discriminate H].
      destruct e; try discriminate H. unfold fl_finish, res_of.
      destruct (str_eqb order [97; 115; 99]); [reflexivity|]. destruct (str_eqb order [100; 101; 115; 99]); reflexivity.
  Qed.
End PrevNextBridge.

(* ---- functions/prevnext.py ------------------------------------------------------------------------ *)
Lemma fl_finish_ret : forall {T} (m : exc T), fl_finish (bind m (fun t => OK (Some t))) = m.
Proof. intros T [t|e]; reflexivity. Qed.

Theorem PN_PREVIOUS_bridge : forall (GB OB : Type) (sl : Z -> GB -> OB -> exc pyrset) rec gb ob,
  PN_PREVIOUS sl rec gb ob = bind (sl rec gb ob) (fun rs => FindOps_previous rs rec).
Proof. intros. unfold PN_PREVIOUS. destruct (sl rec gb ob); [apply fl_finish_ret|reflexivity]. Qed.

Theorem PN_NEXT_bridge : forall (GB OB : Type) (sl : Z -> GB -> OB -> exc pyrset) rec gb ob,
  PN_NEXT sl rec gb ob = bind (sl rec gb ob) (fun rs => FindOps_next rs rec).
Proof. intros. unfold PN_NEXT. destruct (sl rec gb ob); [apply fl_finish_ret|reflexivity]. Qed.

Theorem PN_RANK_bridge : forall (GB OB : Type) (sl : Z -> GB -> OB -> exc pyrset) rec gb ob order,
  PN_RANK sl rec gb ob order = bind (sl rec gb ob) (fun rs => FindOps_rank rs rec order).
Proof. intros. unfold PN_RANK. destruct (sl rec gb ob); [apply fl_finish_ret|reflexivity]. Qed.
