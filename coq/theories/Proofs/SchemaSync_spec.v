(* C08, part 2: the declarative reading of "Engine.schema is build_schema(metadata)" and its equivalence with
   the executable build_schema on well-formed metadata. *)
From Coq Require Import ZArith List Bool Lia Permutation.
Import ListNotations.
Require Import Grist.Model.SchemaSync Grist.Proofs.SchemaSync_build.
Open Scope Z_scope.

Definition mtable (ts : list trec) (tid : str) : option trec := find (fun t => str_eqb (t_tableId t) tid) ts.
Definition mcol (cs : list crec) (tref : Z) (c : str) : option crec :=
  find (fun r => (c_parent r =? tref) && str_eqb (c_colId r) c) cs.

Definition info_rho (rho : Z -> option str) (r : crec) : colinfo :=
  {| ci_type := c_type r; ci_isf := c_isf r; ci_formula := c_formula r; ci_rev := rho (c_id r) |}.
Definition spec_col (cs : list crec) (rho : Z -> option str) (tref : Z) (c : str) : option colinfo :=
  option_map (info_rho rho) (mcol cs tref c).

(* reverseColId of column k as build_schema computes it *)
Definition rho_of (cs : list crec) (k : Z) : option str :=
  match find_col k cs with
  | Some r => option_map c_colId (find_col (c_rev r) cs)
  | None => None
  end.

Definition target (base : schema) (ts : list trec) (cs : list crec) (rho : Z -> option str) (tid : str)
  : option (str -> option colinfo) :=
  match mtable ts tid with
  | Some t => Some (spec_col cs rho (t_id t))
  | None => option_map (fun bc c => od_get c bc) (od_get tid base)
  end.

Definition Sync (base sch : schema) (ts : list trec) (cs : list crec) (rho : Z -> option str) : Prop :=
  forall tid, match od_get tid sch, target base ts cs rho tid with
              | Some cols, Some f => forall c, od_get c cols = f c
              | None, None => True
              | _, _ => False
              end.

Record wf_t (ts : list trec) : Prop :=
  { wt_ids : NoDup (map t_id ts); wt_names : NoDup (map t_tableId ts) }.
Record wf_c (cs : list crec) : Prop :=
  { wc_ids : NoDup (map c_id cs);
    wc_pos : forall r, In r cs -> 0 < c_id r;
    wc_keys : forall r1 r2, In r1 cs -> In r2 cs -> c_parent r1 = c_parent r2 -> c_colId r1 = c_colId r2 -> r1 = r2 }.
Definition no_dangling (cs : list crec) : Prop :=
  forall r, In r cs -> c_rev r = 0 \/ exists x, In x cs /\ c_id x = c_rev r.
Definition no_stray (ts : list trec) (cs : list crec) : Prop :=
  forall c, In c cs -> exists t, In t ts /\ t_id t = c_parent c.
Definition all_have_cols (ts : list trec) (cs : list crec) : Prop :=
  forall t, In t ts -> exists c, In c cs /\ c_parent c = t_id t.

(* ---------------------------------------------------------------- lookups in well-formed metadata *)
Lemma mcol_some : forall cs tref c r, mcol cs tref c = Some r -> In r cs /\ c_parent r = tref /\ c_colId r = c.
Proof.
  intros cs tref c r H. unfold mcol in H. apply find_some in H. destruct H as [Hin Hp].
  apply andb_true_iff in Hp. destruct Hp as [H1 H2]. apply Z.eqb_eq in H1. apply str_eqb_eq in H2. tauto.
Qed.

Lemma mcol_intro : forall cs tref c r, wf_c cs -> In r cs -> c_parent r = tref -> c_colId r = c ->
  mcol cs tref c = Some r.
Proof.
  intros cs tref c r Hwf Hin Hp Hc. unfold mcol. apply find_unique; [exact Hin| |].
  - rewrite Hp, Hc, Z.eqb_refl, str_eqb_refl. reflexivity.
  - intros y Hy Hpy. apply andb_true_iff in Hpy. destruct Hpy as [H1 H2]. apply Z.eqb_eq in H1. apply str_eqb_eq in H2.
    apply (wc_keys cs Hwf); try assumption; congruence.
Qed.

Lemma mcol_none : forall cs tref c, mcol cs tref c = None ->
  forall r, In r cs -> c_parent r = tref -> c_colId r <> c.
Proof.
  intros cs tref c H r Hin Hp Hc. unfold mcol in H. eapply find_none in H; [|exact Hin]. cbn in H.
  rewrite Hp, Hc, Z.eqb_refl, str_eqb_refl in H. discriminate.
Qed.

Lemma mcol_none_intro : forall cs tref c, (forall r, In r cs -> c_parent r = tref -> c_colId r <> c) ->
  mcol cs tref c = None.
Proof.
  intros cs tref c H. unfold mcol. apply find_none_all. intros r Hin.
  destruct (Z.eqb_spec (c_parent r) tref) as [Hp|Hp]; [|reflexivity]. cbn.
  apply str_eqb_neq. apply H; assumption.
Qed.

Lemma mtable_some : forall ts tid t, mtable ts tid = Some t -> In t ts /\ t_tableId t = tid.
Proof.
  intros ts tid t H. unfold mtable in H. apply find_some in H. destruct H as [Hin Hp]. apply str_eqb_eq in Hp. tauto.
Qed.

Lemma nodup_map_unique : forall {A B} (f : A -> B) l x y, NoDup (map f l) -> In x l -> In y l -> f x = f y -> x = y.
Proof.
  intros A B f l. induction l as [|z t IH]; intros x y Hnd Hx Hy Heq; [contradiction|].
  cbn in Hnd. inversion Hnd as [|z0 t0 Hnin Hnd']; subst.
  destruct Hx as [->|Hx], Hy as [->|Hy]; try reflexivity.
  - exfalso. apply Hnin. rewrite Heq. apply in_map. exact Hy.
  - exfalso. apply Hnin. rewrite <- Heq. apply in_map. exact Hx.
  - apply IH; assumption.
Qed.

Lemma mtable_intro : forall ts tid t, wf_t ts -> In t ts -> t_tableId t = tid -> mtable ts tid = Some t.
Proof.
  intros ts tid t Hwf Hin Hn. unfold mtable. apply find_unique; [exact Hin | rewrite Hn; apply str_eqb_refl|].
  intros y Hy Hp. apply str_eqb_eq in Hp. apply (nodup_map_unique t_tableId ts); try assumption; [apply Hwf | congruence].
Qed.

Lemma mtable_none : forall ts tid, mtable ts tid = None -> forall t, In t ts -> t_tableId t <> tid.
Proof.
  intros ts tid H t Hin Hn. unfold mtable in H. eapply find_none in H; [|exact Hin]. cbn in H.
  rewrite Hn, str_eqb_refl in H. discriminate.
Qed.

Lemma mtable_none_intro : forall ts tid, (forall t, In t ts -> t_tableId t <> tid) -> mtable ts tid = None.
Proof.
  intros ts tid H. unfold mtable. apply find_none_all. intros t Hin. apply str_eqb_neq. apply H. exact Hin.
Qed.

Lemma find_table_some : forall k ts t, find_table k ts = Some t -> In t ts /\ t_id t = k.
Proof. intros k ts t H. unfold find_table in H. apply find_some in H. destruct H as [H1 H2]. apply Z.eqb_eq in H2. tauto. Qed.

Lemma find_table_intro : forall k ts t, NoDup (map t_id ts) -> In t ts -> t_id t = k -> find_table k ts = Some t.
Proof.
  intros k ts t Hnd Hin Hk. unfold find_table. apply find_unique; [exact Hin | apply Z.eqb_eq; exact Hk|].
  intros y Hy Hp. apply Z.eqb_eq in Hp. apply (nodup_map_unique t_id ts); try assumption. congruence.
Qed.

Lemma find_table_none : forall k ts, find_table k ts = None -> forall t, In t ts -> t_id t <> k.
Proof.
  intros k ts H t Hin Heq. unfold find_table in H. eapply find_none in H; [|exact Hin]. cbn in H.
  apply Z.eqb_neq in H. contradiction.
Qed.

Lemma find_last_eq_find : forall {A} (p : A -> bool) l,
  (forall x y, In x l -> In y l -> p x = true -> p y = true -> x = y) -> find_last p l = find p l.
Proof.
  intros A p l Hu. destruct (find p l) as [x|] eqn:E.
  - apply find_some in E. destruct E as [Hin Hp]. apply find_last_unique; [exact Hin | exact Hp|].
    intros y Hy Hpy. apply Hu; assumption.
  - apply find_last_none. intros x Hx. eapply find_none in E; [exact E | exact Hx].
Qed.

(* ---------------------------------------------------------------- build_schema as lookups *)
Lemma rho_of_self : forall cs r, NoDup (map c_id cs) -> In r cs ->
  rho_of cs (c_id r) = option_map c_colId (find_col (c_rev r) cs).
Proof. intros cs r Hnd Hin. unfold rho_of. rewrite (find_col_some (c_id r) cs r Hnd Hin eq_refl). reflexivity. Qed.

Lemma byparent_in : forall k l r, In r (byparent k l) <-> In r l /\ c_parent r = k.
Proof. intros k l r. unfold byparent. rewrite filter_In. rewrite Z.eqb_eq. tauto. Qed.

Lemma build_cols_get : forall cs tref c, wf_c cs ->
  od_get c (build_cols (sort_cols cs) (byparent tref (sort_cols cs))) = spec_col cs (rho_of cs) tref c.
Proof.
  intros cs tref c Hwf. unfold build_cols.
  rewrite (od_get_fold_set c_colId (mkinfo (sort_cols cs))). cbn [od_get]. unfold spec_col.
  destruct (mcol cs tref c) as [r|] eqn:E.
  - apply mcol_some in E. destruct E as [Hin [Hp Hc]].
    rewrite (find_last_unique _ _ r).
    + cbn. f_equal. unfold mkinfo, info_rho. f_equal.
      rewrite (refmap_sorted cs (c_rev r) (wc_ids cs Hwf)). symmetry. apply rho_of_self; [apply Hwf | exact Hin].
    + apply byparent_in. split; [apply sort_cols_in; exact Hin | exact Hp].
    + apply str_eqb_eq. exact Hc.
    + intros y Hy Hpy. apply byparent_in in Hy. destruct Hy as [Hy1 Hy2]. apply (proj1 (sort_cols_in _ _)) in Hy1.
      apply str_eqb_eq in Hpy. apply (wc_keys cs Hwf); try assumption; congruence.
  - rewrite find_last_none; [reflexivity|]. intros x Hx. apply byparent_in in Hx. destruct Hx as [Hx1 Hx2].
    apply (proj1 (sort_cols_in _ _)) in Hx1. apply str_eqb_neq. apply (mcol_none cs tref c E x Hx1 Hx2).
Qed.

Definition cols_of (cs : list crec) (t : trec) : scols :=
  build_cols (sort_cols cs) (byparent (t_id t) (sort_cols cs)).

Definition build_step (cs : list crec) (acc : res schema) (t : trec) : res schema :=
  match acc with
  | Err e => Err e
  | Ok sch => match dict_last (t_id t) (groupby (sort_cols cs)) with
              | None => Err E_key_error
              | Some cols => Ok (od_set (t_tableId t) (build_cols (sort_cols cs) cols) sch)
              end
  end.

Lemma build_schema_unfold : forall base m,
  build_schema base m = fold_left (build_step (m_cols m)) (m_tables m) (Ok base).
Proof. reflexivity. Qed.

Lemma fold_build_err : forall cs ts e, fold_left (build_step cs) ts (Err e) = Err e.
Proof. intros cs ts e. induction ts as [|t ts IH]; cbn; [reflexivity | exact IH]. Qed.

Lemma byparent_nonempty : forall cs t, (exists c, In c cs /\ c_parent c = t_id t) ->
  nonempty_opt (byparent (t_id t) (sort_cols cs)) = Some (byparent (t_id t) (sort_cols cs)).
Proof.
  intros cs t [c [Hin Hp]].
  assert (H : In c (byparent (t_id t) (sort_cols cs))) by (apply byparent_in; split; [apply sort_cols_in; exact Hin | exact Hp]).
  destruct (byparent (t_id t) (sort_cols cs)); [contradiction | reflexivity].
Qed.

Lemma fold_build_ok : forall cs ts sch0, all_have_cols ts cs ->
  fold_left (build_step cs) ts (Ok sch0) =
  Ok (fold_left (fun d t => od_set (t_tableId t) (cols_of cs t) d) ts sch0).
Proof.
  intros cs ts. induction ts as [|t ts IH]; intros sch0 Hall; cbn [fold_left]; [reflexivity|].
  unfold build_step at 2. rewrite dict_last_sorted.
  rewrite byparent_nonempty by (apply Hall; left; reflexivity).
  apply IH. intros t' Ht'. apply Hall. right. exact Ht'.
Qed.

Lemma fold_build_ok_inv : forall cs ts sch0 sch,
  fold_left (build_step cs) ts (Ok sch0) = Ok sch -> all_have_cols ts cs.
Proof.
  intros cs ts. induction ts as [|t ts IH]; intros sch0 sch H t' Ht'; [contradiction|].
  cbn [fold_left] in H. unfold build_step at 2 in H. rewrite dict_last_sorted in H.
  destruct (byparent (t_id t) (sort_cols cs)) as [|c0 rest] eqn:E.
  - cbn in H. rewrite fold_build_err in H. discriminate.
  - destruct Ht' as [<-|Ht'].
    + exists c0. assert (Hin : In c0 (byparent (t_id t) (sort_cols cs))) by (rewrite E; left; reflexivity).
      apply byparent_in in Hin. destruct Hin as [H1 H2]. split; [apply (proj1 (sort_cols_in _ _)); exact H1 | exact H2].
    + cbn in H. exact (IH _ _ H t' Ht').
Qed.

Theorem build_char : forall base ts cs, wf_t ts -> wf_c cs -> all_have_cols ts cs ->
  exists sch, build_schema base {| m_tables := ts; m_cols := cs |} = Ok sch /\ Sync base sch ts cs (rho_of cs).
Proof.
  intros base ts cs Hwt Hwc Hall. eexists. split.
  - rewrite build_schema_unfold. cbn [m_tables m_cols]. apply fold_build_ok. exact Hall.
  - intro tid. rewrite (od_get_fold_set t_tableId (cols_of cs)). unfold target.
    rewrite find_last_eq_find.
    + fold (mtable ts tid). destruct (mtable ts tid) as [t|]; [|destruct (od_get tid base); cbn; [intro c; reflexivity | exact I]].
      intro c. unfold cols_of. apply build_cols_get. exact Hwc.
    + intros x y Hx Hy Hpx Hpy. apply str_eqb_eq in Hpx. apply str_eqb_eq in Hpy.
      apply (nodup_map_unique t_tableId ts); try assumption; [apply Hwt | congruence].
Qed.

Lemma build_ok_all_have_cols : forall base m sch, build_schema base m = Ok sch -> all_have_cols (m_tables m) (m_cols m).
Proof. intros base m sch H. rewrite build_schema_unfold in H. exact (fold_build_ok_inv _ _ _ _ H). Qed.

(* ---------------------------------------------------------------- Sync and dict equivalence *)
Lemma sync_equiv : forall base s1 s2 ts cs rho, Sync base s1 ts cs rho -> Sync base s2 ts cs rho -> schema_equiv s1 s2.
Proof.
  intros base s1 s2 ts cs rho H1 H2 tid. specialize (H1 tid). specialize (H2 tid).
  destruct (od_get tid s1), (od_get tid s2), (target base ts cs rho tid); try contradiction; try exact I.
  intro c. rewrite H1, H2. reflexivity.
Qed.

Lemma sync_transfer : forall base s1 s2 ts cs rho, schema_equiv s1 s2 -> Sync base s2 ts cs rho -> Sync base s1 ts cs rho.
Proof.
  intros base s1 s2 ts cs rho He H2 tid. specialize (He tid). specialize (H2 tid).
  destruct (od_get tid s1), (od_get tid s2), (target base ts cs rho tid); try contradiction; try exact I.
  intro c. rewrite (He c). apply H2.
Qed.
