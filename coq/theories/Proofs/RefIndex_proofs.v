(* Lemmas about Model/RefIndex.v: row-id sets, the inverse map, and the invariant "the inverse map is exactly
   the reverse of the cells" through set / unset / copy_from_column / growto (and the repaired clear). *)
From Coq Require Import ZArith List Bool Arith Lia Sorted.
Import ListNotations.
Require Import Grist.Model.RefIndex.

(* ---- strictly increasing lists ------------------------------------------------------------------- *)
Definition sorted (s : list nat) : Prop := StronglySorted lt s.

Lemma sorted_nil : sorted []. Proof. constructor. Qed.

Lemma sorted_inv : forall x t, sorted (x :: t) -> sorted t /\ Forall (lt x) t.
Proof. intros x t H. inversion H; subst. split; assumption. Qed.

Lemma set_add_In : forall r s x, In x (set_add r s) <-> x = r \/ In x s.
Proof.
  intros r s x. induction s as [|y t IH]; cbn [set_add In].
  - split; intros H; repeat (destruct H as [H|H]); subst; auto; contradiction.
  - destruct (r <? y) eqn:E1; cbn [In].
    + split; intros H; repeat (destruct H as [H|H]); subst; auto.
    + destruct (r =? y) eqn:E2; cbn [In].
      * apply Nat.eqb_eq in E2. subst. split; intros H; repeat (destruct H as [H|H]); subst; auto.
      * rewrite IH. split; intros H; repeat (destruct H as [H|H]); subst; auto.
Qed.

Lemma set_add_sorted : forall r s, sorted s -> sorted (set_add r s).
Proof.
  intros r s. induction s as [|y t IH]; intros Hs; cbn [set_add].
  - repeat constructor.
  - destruct (sorted_inv _ _ Hs) as [Ht Hy].
    destruct (r <? y) eqn:E1.
    + apply Nat.ltb_lt in E1. constructor; [assumption|].
      constructor; [assumption|]. eapply Forall_impl; [|exact Hy]. cbn. lia.
    + destruct (r =? y) eqn:E2; [assumption|].
      apply Nat.ltb_ge in E1. apply Nat.eqb_neq in E2.
      constructor; [apply IH; assumption|].
      apply Forall_forall. intros z Hz. apply set_add_In in Hz. destruct Hz as [->|Hz]; [lia|].
      rewrite Forall_forall in Hy. apply Hy. assumption.
Qed.

Lemma set_discard_In : forall r s x, sorted s -> (In x (set_discard r s) <-> x <> r /\ In x s).
Proof.
  intros r s x. induction s as [|y t IH]; intros Hs; cbn.
  - intuition.
  - destruct (sorted_inv _ _ Hs) as [Ht Hy]. rewrite Forall_forall in Hy.
    destruct (r =? y) eqn:E.
    + apply Nat.eqb_eq in E. subst y. split.
      * intros Hx. split; [|right; assumption]. apply Hy in Hx. lia.
      * intros [Hn [Hx|Hx]]; [congruence|assumption].
    + apply Nat.eqb_neq in E. cbn. rewrite IH by assumption. split.
      * intros [->|[Hn Hx]]; [split; [congruence|left; reflexivity]|split; [assumption|right; assumption]].
      * intros [Hn [->|Hx]]; [left; reflexivity|right; split; assumption].
Qed.

Lemma set_discard_sorted : forall r s, sorted s -> sorted (set_discard r s).
Proof.
  intros r s. induction s as [|y t IH]; intros Hs; cbn; [constructor|].
  destruct (sorted_inv _ _ Hs) as [Ht Hy].
  destruct (r =? y); [assumption|].
  constructor; [apply IH; assumption|].
  apply Forall_forall. intros z Hz. apply set_discard_In in Hz; [|assumption].
  rewrite Forall_forall in Hy. apply Hy. tauto.
Qed.

Lemma sorted_ext : forall a b, sorted a -> sorted b -> (forall x, In x a <-> In x b) -> a = b.
Proof.
  induction a as [|x a IH]; intros b Ha Hb H.
  - destruct b as [|y b]; [reflexivity|]. exfalso. apply (proj2 (H y)). left. reflexivity.
  - destruct b as [|y b]; [exfalso; apply (proj1 (H x)); left; reflexivity|].
    destruct (sorted_inv _ _ Ha) as [Ha' Hxa]. destruct (sorted_inv _ _ Hb) as [Hb' Hyb].
    rewrite Forall_forall in Hxa, Hyb.
    assert (x = y).
    { destruct (proj1 (H x) (or_introl eq_refl)) as [E|E]; [congruence|].
      destruct (proj2 (H y) (or_introl eq_refl)) as [E2|E2]; [congruence|].
      apply Hyb in E. apply Hxa in E2. lia. }
    subst y. f_equal. apply IH; try assumption.
    intros z. split; intros Hz.
    + destruct (proj1 (H z) (or_intror Hz)) as [E|E]; [|assumption]. subst z. apply Hxa in Hz. lia.
    + destruct (proj2 (H z) (or_intror Hz)) as [E|E]; [|assumption]. subst z. apply Hyb in Hz. lia.
Qed.

Lemma sorted_NoDup : forall s, sorted s -> NoDup s.
Proof.
  induction s as [|x t IH]; intros H; constructor.
  - destruct (sorted_inv _ _ H) as [_ Hx]. rewrite Forall_forall in Hx. intros Hin. apply Hx in Hin. lia.
  - apply IH. apply (sorted_inv _ _ H).
Qed.

Lemma filter_seq_sorted : forall P n a, sorted (filter P (seq a n)).
Proof.
  intros P n. induction n as [|n IH]; intros a; cbn; [constructor|].
  destruct (P a).
  - constructor; [apply IH|]. apply Forall_forall. intros z Hz. apply filter_In in Hz. destruct Hz as [Hz _].
    apply in_seq in Hz. lia.
  - apply IH.
Qed.

Lemma set_union_In : forall b a x, In x (set_union a b) <-> In x a \/ In x b.
Proof.
  unfold set_union. induction b as [|y b IH]; intros a x; cbn; [tauto|].
  rewrite IH, set_add_In. intuition (subst; auto).
Qed.

Lemma set_union_sorted : forall b a, sorted a -> sorted (set_union a b).
Proof.
  unfold set_union. induction b as [|y b IH]; intros a Ha; cbn; [assumption|].
  apply IH. apply set_add_sorted. assumption.
Qed.

Lemma memZ_In : forall t l, memZ t l = true <-> In t l.
Proof.
  intros t l. unfold memZ. rewrite existsb_exists. split.
  - intros [x [Hx E]]. apply Z.eqb_eq in E. subst. assumption.
  - intros H. exists t. split; [assumption|apply Z.eqb_refl].
Qed.

Lemma memN_In : forall r l, memN r l = true <-> In r l.
Proof.
  intros r l. unfold memN. rewrite existsb_exists. split.
  - intros [x [Hx E]]. apply Nat.eqb_eq in E. subst. assumption.
  - intros H. exists r. split; [assumption|apply Nat.eqb_refl].
Qed.

(* ---- the association list ------------------------------------------------------------------------ *)
Lemma inv_find_put_same : forall t s m, inv_find t (inv_put t s m) = Some s.
Proof.
  intros t s m. induction m as [|[k s0] m IH]; cbn.
  - rewrite Z.eqb_refl. reflexivity.
  - destruct (Z.eqb t k) eqn:E; cbn; rewrite E; [reflexivity|exact IH].
Qed.

Lemma inv_find_put_other : forall t t' s m, t <> t' -> inv_find t' (inv_put t s m) = inv_find t' m.
Proof.
  intros t t' s m Hne. induction m as [|[k s0] m IH]; cbn.
  - destruct (Z.eqb t' t) eqn:E; [apply Z.eqb_eq in E; congruence|reflexivity].
  - destruct (Z.eqb t k) eqn:E; cbn.
    + apply Z.eqb_eq in E. subst k.
      destruct (Z.eqb t' t) eqn:E2; [apply Z.eqb_eq in E2; congruence|reflexivity].
    + destruct (Z.eqb t' k); [reflexivity|exact IH].
Qed.

Lemma inv_get_put_same : forall t s m, inv_get t (inv_put t s m) = s.
Proof. intros. unfold inv_get. rewrite inv_find_put_same. reflexivity. Qed.

Lemma inv_get_put_other : forall t t' s m, t <> t' -> inv_get t' (inv_put t s m) = inv_get t' m.
Proof. intros. unfold inv_get. rewrite inv_find_put_other by assumption. reflexivity. Qed.

Definition all_sorted (m : invmap) : Prop := forall t, sorted (inv_get t m).

Lemma all_sorted_nil : all_sorted [].
Proof. intros t. cbn. constructor. Qed.

Lemma add_reference_spec : forall r t m, all_sorted m ->
  all_sorted (add_reference r t m) /\
  (forall t' x, In x (inv_get t' (add_reference r t m)) <-> In x (inv_get t' m) \/ (x = r /\ t' = t)) /\
  (forall t', inv_find t' m <> None -> inv_find t' (add_reference r t m) <> None).
Proof.
  intros r t m Hs. unfold add_reference. repeat split.
  - intros t'. destruct (Z.eq_dec t t') as [->|Hne].
    + rewrite inv_get_put_same. apply set_add_sorted. apply Hs.
    + rewrite inv_get_put_other by assumption. apply Hs.
  - destruct (Z.eq_dec t t') as [->|Hne].
    + rewrite inv_get_put_same, set_add_In. tauto.
    + rewrite inv_get_put_other by assumption. tauto.
  - destruct (Z.eq_dec t t') as [->|Hne].
    + rewrite inv_get_put_same, set_add_In. intros [H|[-> _]]; [right; assumption|left; reflexivity].
    + rewrite inv_get_put_other by assumption. intros [H|[_ E]]; [assumption|congruence].
  - intros t' H. destruct (Z.eq_dec t t') as [->|Hne].
    + rewrite inv_find_put_same. discriminate.
    + rewrite inv_find_put_other by assumption. assumption.
Qed.

Lemma remove_reference_spec : forall r t m, all_sorted m -> inv_find t m <> None ->
  exists m', remove_reference r t m = Ok m' /\ all_sorted m' /\
  (forall t' x, In x (inv_get t' m') <-> In x (inv_get t' m) /\ ~ (x = r /\ t' = t)) /\
  (forall t', inv_find t' m <> None -> inv_find t' m' <> None).
Proof.
  intros r t m Hs Hk. unfold remove_reference. destruct (inv_find t m) as [s|] eqn:E; [|congruence].
  assert (Hs_t : s = inv_get t m) by (unfold inv_get; rewrite E; reflexivity).
  assert (Hss : sorted s) by (subst s; apply Hs).
  eexists. split; [reflexivity|]. split; [|split].
  - intros t'. destruct (Z.eq_dec t t') as [->|Hne].
    + rewrite inv_get_put_same. apply set_discard_sorted. assumption.
    + rewrite inv_get_put_other by assumption. apply Hs.
  - intros t' x. destruct (Z.eq_dec t t') as [->|Hne].
    + rewrite inv_get_put_same, set_discard_In by assumption. rewrite <- Hs_t. tauto.
    + rewrite inv_get_put_other by assumption.
      split; [intros H; split; [assumption|intros [_ E']; congruence]|tauto].
  - intros t' H. destruct (Z.eq_dec t t') as [->|Hne].
    + rewrite inv_find_put_same. discriminate.
    + rewrite inv_find_put_other by assumption. assumption.
Qed.

Lemma remove_fold_spec : forall r l m, all_sorted m -> (forall t, In t l -> inv_find t m <> None) ->
  exists m', fold_left (fun acc t => bind acc (remove_reference r t)) l (Ok m) = Ok m' /\ all_sorted m' /\
    (forall t x, In x (inv_get t m') <-> In x (inv_get t m) /\ ~ (x = r /\ In t l)) /\
    (forall t, inv_find t m <> None -> inv_find t m' <> None).
Proof.
  intros r l. induction l as [|a l IH]; intros m Hs Hk.
  - exists m. cbn. split; [reflexivity|]. split; [assumption|]. split; [|tauto]. intros t x. tauto.
  - destruct (remove_reference_spec r a m Hs (Hk a (or_introl eq_refl))) as [m1 [E1 [Hs1 [Hm1 Hk1]]]].
    destruct (IH m1 Hs1) as [m' [E' [Hs' [Hm' Hk']]]].
    { intros t Ht. apply Hk1. apply Hk. right. assumption. }
    exists m'. cbn [fold_left bind]. rewrite E1. split; [exact E'|]. split; [assumption|]. split.
    + intros t x. rewrite Hm', Hm1. cbn [In].
      assert (Hsym : a = t <-> t = a) by (split; congruence). tauto.
    + intros t Ht. apply Hk'. apply Hk1. assumption.
Qed.

Lemma add_fold_spec : forall r l m, all_sorted m ->
  let m' := fold_left (fun m2 t => add_reference r t m2) l m in
  all_sorted m' /\
  (forall t x, In x (inv_get t m') <-> In x (inv_get t m) \/ (x = r /\ In t l)) /\
  (forall t, inv_find t m <> None -> inv_find t m' <> None).
Proof.
  intros r l. induction l as [|a l IH]; intros m Hs; cbn [fold_left].
  - split; [assumption|]. split; [|tauto]. intros t x. cbn [In]. tauto.
  - destruct (add_reference_spec r a m Hs) as [Hs1 [Hm1 Hk1]].
    destruct (IH (add_reference r a m) Hs1) as [Hs' [Hm' Hk']].
    split; [assumption|]. split.
    + intros t x. rewrite Hm', Hm1. cbn [In].
      assert (Hsym : a = t <-> t = a) by (split; congruence). tauto.
    + intros t Ht. apply Hk'. apply Hk1. assumption.
Qed.

Lemma inv_get_key : forall t m x, In x (inv_get t m) -> inv_find t m <> None.
Proof. intros t m x. unfold inv_get. destruct (inv_find t m); [discriminate|intros []]. Qed.

(* ---- lists ----------------------------------------------------------------------------------------- *)
Lemma growto_length : forall n d l, length (growto n d l) = Nat.max n (length l).
Proof. intros. unfold growto. rewrite app_length, repeat_length. lia. Qed.

Lemma nth_growto : forall n d l j, nth j (growto n d l) d = nth j l d.
Proof.
  intros n d l j. unfold growto. destruct (Nat.lt_ge_cases j (length l)) as [H|H].
  - apply app_nth1. assumption.
  - rewrite app_nth2 by assumption. rewrite (nth_overflow l) by assumption.
    destruct (Nat.lt_ge_cases (j - length l) (n - length l)) as [H2|H2].
    + apply nth_repeat.
    + apply nth_overflow. rewrite repeat_length. assumption.
Qed.

Lemma list_set_length : forall A i (v : A) l, length (list_set i v l) = length l.
Proof.
  intros A i v l. revert i. induction l as [|x l IH]; intros i; [destruct i; reflexivity|].
  destruct i; cbn; [reflexivity|]. rewrite IH. reflexivity.
Qed.

Lemma nth_list_set : forall A (l : list A) i v j d, i < length l ->
  nth j (list_set i v l) d = if j =? i then v else nth j l d.
Proof.
  intros A l. induction l as [|x l IH]; intros i v j d Hi; [cbn in Hi; lia|].
  destruct i as [|i]; destruct j as [|j]; cbn; try reflexivity.
  apply IH. cbn in Hi. lia.
Qed.

(* ---- the column invariant ---------------------------------------------------------------------------- *)
(* every set is strictly increasing, and row r is in the set of target t exactly when cell r refers to t *)
Definition inv_ok (c : refcol) : Prop :=
  all_sorted (rc_inv c) /\ forall t r, In r (inv_get t (rc_inv c)) <-> In t (refs c r).

Lemma iter_default : forall k, value_iterable k (default k) = [].
Proof. intros []; reflexivity. Qed.

Lemma iter_safe : forall k v, value_iterable k (if right_type k v then v else default k) = value_iterable k v.
Proof.
  intros k v. destruct (right_type k v) eqn:E; [reflexivity|].
  rewrite iter_default. unfold value_iterable. rewrite E, andb_false_r. reflexivity.
Qed.

Lemma refs_overflow : forall c r, length (rc_data c) <= r -> refs c r = [].
Proof.
  intros c r H. unfold refs, raw_get. rewrite nth_overflow by assumption. apply iter_default.
Qed.

Lemma col_new_ok : forall k, inv_ok (col_new k).
Proof.
  intros k. split; [apply all_sorted_nil|]. intros t r. cbn [col_new rc_inv inv_get inv_find].
  split; [intros []|]. unfold refs, raw_get. cbn [col_new rc_data rc_kind].
  destruct r as [|[|r]]; cbn [nth]; rewrite iter_default; intros [].
Qed.

Section ColumnProofs.
  Variable hack : list Z -> option (list Z).

  Lemma col_set_spec : forall c r v, inv_ok c ->
    exists c', col_set hack c r v = Ok c' /\ rc_kind c' = rc_kind c /\
      (forall r', raw_get c' r' = if r' =? r then clean_up hack (rc_kind c) v else raw_get c r') /\
      length (rc_data c') = Nat.max (S r) (length (rc_data c)) /\ inv_ok c'.
  Proof.
    intros c r v [Hs Hm]. unfold col_set.
    set (k := rc_kind c). set (d := default k).
    set (data' := list_set r (clean_up hack k v) (growto (S r) d (rc_data c))).
    assert (Hget : forall r', nth r' data' d = if r' =? r then clean_up hack k v else raw_get c r').
    { intros r'. unfold data'. rewrite nth_list_set by (rewrite growto_length; lia).
      rewrite nth_growto. reflexivity. }
    assert (Hold : value_iterable k (safe_get c r) = refs c r).
    { unfold safe_get. cbv zeta. apply iter_safe. }
    set (c1 := {| rc_kind := k; rc_data := data'; rc_inv := rc_inv c |}).
    assert (Hnew : value_iterable k (safe_get c1 r) = value_iterable k (clean_up hack k v)).
    { unfold safe_get. cbv zeta. cbn [rc_kind c1]. rewrite iter_safe. unfold raw_get. cbn [rc_data rc_kind c1].
      fold d. rewrite Hget, Nat.eqb_refl. reflexivity. }
    unfold update_references. rewrite Hold, Hnew.
    destruct (remove_fold_spec r (refs c r) (rc_inv c) Hs) as [m1 [E1 [Hs1 [Hm1 Hk1]]]].
    { intros t Ht. apply (inv_get_key t _ r). apply Hm. assumption. }
    rewrite E1. cbn [bind].
    destruct (add_fold_spec r (value_iterable k (clean_up hack k v)) m1 Hs1) as [Hs2 [Hm2 _]].
    eexists. split; [reflexivity|]. cbn [rc_kind rc_data rc_inv]. split; [reflexivity|].
    split; [|split].
    - intros r'. unfold raw_get. cbn [rc_data rc_kind]. fold k d. apply Hget.
    - unfold data'. rewrite list_set_length, growto_length. reflexivity.
    - split; [exact Hs2|]. intros t x. cbn [rc_inv]. rewrite Hm2, Hm1.
      unfold refs at 2. unfold raw_get. cbn [rc_data rc_kind]. fold d. rewrite Hget.
      destruct (x =? r) eqn:Ex.
      + apply Nat.eqb_eq in Ex. subst x. specialize (Hm t r). tauto.
      + apply Nat.eqb_neq in Ex. specialize (Hm t x). fold (refs c x). tauto.
  Qed.
  Lemma col_unset_spec : forall c r, inv_ok c ->
    exists c', col_unset hack c r = Ok c' /\ rc_kind c' = rc_kind c /\
      (forall r', raw_get c' r' = if r' =? r then default (rc_kind c) else raw_get c r') /\
      length (rc_data c') = Nat.max (S r) (length (rc_data c)) /\ inv_ok c'.
  Proof.
    intros c r H. unfold col_unset. destruct (col_set_spec c r (default (rc_kind c)) H) as [c' [E [Hk [Hg [Hl Ho]]]]].
    exists c'. split; [assumption|]. split; [assumption|]. split; [|split; assumption].
    intros r'. rewrite Hg. destruct (rc_kind c); reflexivity.
  Qed.

  Lemma rebuild_fold_spec : forall k l a m, all_sorted m ->
    let m' := fold_left (fun m0 rv => if right_type k (snd rv)
                           then fold_left (fun m2 t => add_reference (fst rv) t m2) (value_iterable k (snd rv)) m0
                           else m0) (combine (seq a (length l)) l) m in
    all_sorted m' /\
    forall t x, In x (inv_get t m') <->
                In x (inv_get t m) \/ (a <= x < a + length l /\ In t (value_iterable k (nth (x - a) l (default k)))).
  Proof.
    intros k l. induction l as [|v l IH]; intros a m Hs; cbn [length seq combine fold_left].
    - split; [assumption|]. intros t x. split; [tauto|]. intros [H|[H _]]; [assumption|lia].
    - set (m1 := if right_type k (snd (a, v))
                 then fold_left (fun m2 t => add_reference (fst (a, v)) t m2) (value_iterable k (snd (a, v))) m
                 else m).
      assert (H1 : all_sorted m1 /\
                   forall t x, In x (inv_get t m1) <-> In x (inv_get t m) \/ (x = a /\ In t (value_iterable k v))).
      { unfold m1. cbn [fst snd]. destruct (right_type k v) eqn:E.
        - destruct (add_fold_spec a (value_iterable k v) m Hs) as [Ha [Hb _]]. split; assumption.
        - split; [assumption|]. intros t x. unfold value_iterable. rewrite E, andb_false_r. cbn [In]. tauto. }
      destruct H1 as [Hs1 Hm1]. destruct (IH (S a) m1 Hs1) as [Hs' Hm']. split; [exact Hs'|].
      intros t x. rewrite Hm', Hm1.
      destruct (Nat.eq_dec x a) as [->|Hne].
      + rewrite Nat.sub_diag. cbn [nth]. split.
        * intros [[H|[_ H]]|[H _]]; [left; assumption|right; split; [lia|assumption]|lia].
        * intros [H|[_ H]]; [left; left; assumption|left; right; split; [reflexivity|assumption]].
      + split.
        * intros [[H|[H _]]|[H H2]]; [left; assumption|congruence|].
          right. split; [lia|]. replace (x - a) with (S (x - S a)) by lia. exact H2.
        * intros [H|[H H2]]; [left; left; assumption|]. right. split; [lia|].
          replace (x - a) with (S (x - S a)) in H2 by lia. exact H2.
  Qed.

  Lemma col_copy_from_ok : forall c data, inv_ok (col_copy_from c data).
  Proof.
    intros c data. unfold col_copy_from, rebuild_inv.
    destruct (rebuild_fold_spec (rc_kind c) data 0 [] all_sorted_nil) as [Hs Hm].
    split; [exact Hs|]. intros t r. cbn [rc_inv]. rewrite Hm. cbn [inv_get inv_find].
    unfold refs, raw_get. cbn [rc_data rc_kind]. rewrite Nat.sub_0_r. split.
    - intros [[]|[_ H]]. exact H.
    - intros H. right. split; [|exact H]. split; [lia|].
      destruct (Nat.lt_ge_cases r (length data)) as [Hlt|Hge]; [lia|].
      rewrite nth_overflow in H by assumption. rewrite iter_default in H. destruct H.
  Qed.

  Lemma col_grow_ok : forall c n, inv_ok c -> inv_ok (col_grow c n).
  Proof.
    intros c n [Hs Hm]. split; [exact Hs|]. intros t r. cbn [col_grow rc_inv]. rewrite Hm.
    unfold refs, raw_get. cbn [col_grow rc_data rc_kind]. rewrite nth_growto. tauto.
  Qed.

  Lemma col_clear_fixed_ok : forall c, inv_ok (col_clear_fixed c).
  Proof.
    intros c. split; [apply all_sorted_nil|]. intros t r. cbn [col_clear_fixed rc_inv inv_get inv_find].
    split; [intros []|]. unfold refs, raw_get. cbn [col_clear_fixed rc_data rc_kind].
    destruct r as [|[|r]]; cbn [nth]; rewrite iter_default; intros [].
  Qed.

  Definition is_clear (o : op) : bool := match o with OClear => true | _ => false end.

  Lemma apply_op_ok : forall fixed c o, inv_ok c -> fixed = true \/ is_clear o = false ->
    exists c', apply_op hack fixed c o = Ok c' /\ inv_ok c' /\ rc_kind c' = rc_kind c.
  Proof.
    intros fixed c o H Hf. destruct o as [r v|r|d| |n]; cbn [apply_op].
    - destruct (col_set_spec c r v H) as [c' [E [Hk [_ [_ Ho]]]]]. exists c'. auto.
    - destruct (col_unset_spec c r H) as [c' [E [Hk [_ [_ Ho]]]]]. exists c'. auto.
    - eexists. split; [reflexivity|]. split; [apply col_copy_from_ok|reflexivity].
    - destruct Hf as [->|Hf]; [|discriminate]. eexists. split; [reflexivity|].
      split; [apply col_clear_fixed_ok|reflexivity].
    - eexists. split; [reflexivity|]. split; [apply col_grow_ok; assumption|reflexivity].
  Qed.

  Lemma run_from_ok : forall fixed ops c, inv_ok c -> fixed = true \/ forallb (fun o => negb (is_clear o)) ops = true ->
    exists c', run_from hack fixed c ops = Ok c' /\ inv_ok c' /\ rc_kind c' = rc_kind c.
  Proof.
    intros fixed ops. induction ops as [|o ops IH]; intros c H Hf.
    - exists c. split; [reflexivity|]. split; [assumption|reflexivity].
    - assert (Hf1 : fixed = true \/ is_clear o = false).
      { destruct Hf as [Hf|Hf]; [left; assumption|right]. cbn [forallb] in Hf.
        apply andb_true_iff in Hf. destruct Hf as [Hf _]. apply negb_true_iff in Hf. exact Hf. }
      assert (Hf2 : fixed = true \/ forallb (fun o => negb (is_clear o)) ops = true).
      { destruct Hf as [Hf|Hf]; [left; assumption|right]. cbn [forallb] in Hf.
        apply andb_true_iff in Hf. tauto. }
      destruct (apply_op_ok fixed c o H Hf1) as [c1 [E1 [H1 K1]]].
      destruct (IH c1 H1 Hf2) as [c' [E' [H' K']]].
      exists c'. unfold run_from in *. cbn [fold_left bind]. rewrite E1. split; [exact E'|].
      split; [assumption|congruence].
  Qed.
End ColumnProofs.

(* the statement in its literal form: the set kept for target t IS the list of rows whose cell refers to t *)
Lemma inv_ok_exact : forall c, inv_ok c ->
  forall t, inv_get t (rc_inv c) = filter (fun r => memZ t (refs c r)) (seq 0 (length (rc_data c))).
Proof.
  intros c [Hs Hm] t. apply sorted_ext; [apply Hs|apply filter_seq_sorted|].
  intros x. rewrite Hm, filter_In, in_seq, memZ_In. split; [|tauto].
  intros H. split; [|assumption]. split; [lia|].
  destruct (Nat.lt_ge_cases x (length (rc_data c))) as [Hlt|Hge]; [lia|].
  rewrite refs_overflow in H by assumption. destruct H.
Qed.

(* END-PART-3 *)
