(* C38 -- lemmas about Model/JsSchema.v: the text printed by the generator can be read back
   unambiguously (render_injective), depends only on schema_core, and two default tables that agree on
   every listed name and on the fallback agree on every name. *)
From Coq Require Import String Ascii ZArith List Bool Lia DecimalZ.
Import ListNotations.
Require Import Grist.Model.JsSchema.
Open Scope Z_scope.

(* ---------- strings ---------- *)

Lemma zs_eqb_eq : forall a b, zs_eqb a b = true <-> a = b.
Proof.
  induction a as [|x a IH]; intros [|y b]; simpl; split; intro H; try reflexivity; try discriminate.
  - apply andb_true_iff in H. destruct H as [H1 H2]. apply Z.eqb_eq in H1. apply IH in H2.
    subst. reflexivity.
  - injection H as Hx Ha. subst. rewrite Z.eqb_refl. simpl. apply IH. reflexivity.
Qed.

Lemma assoc_in : forall {A} k (l : list (list Z * A)) v, assoc k l = Some v -> In k (map fst l).
Proof.
  intros A k l v. induction l as [|[k' v'] t IH]; simpl; intro H.
  - discriminate.
  - destruct (zs_eqb k k') eqn:E.
    + left. apply zs_eqb_eq in E. symmetry. exact E.
    + right. apply IH. exact H.
Qed.

(* Reading up to the first stop character is deterministic. *)
Lemma span_inj (stop : Z -> bool) : forall a b x y r1 r2,
  forallb (fun c => negb (stop c)) a = true ->
  forallb (fun c => negb (stop c)) b = true ->
  stop x = true -> stop y = true ->
  a ++ x :: r1 = b ++ y :: r2 -> a = b /\ x :: r1 = y :: r2.
Proof.
  induction a as [|c a IH]; intros [|d b] x y r1 r2 Ha Hb Hx Hy E; simpl in *.
  - split; [reflexivity | exact E].
  - injection E as E1 E2. subst d. rewrite Hx in Hb. simpl in Hb. discriminate.
  - injection E as E1 E2. subst c. rewrite Hy in Ha. simpl in Ha. discriminate.
  - injection E as E1 E2. subst d.
    apply andb_true_iff in Ha. apply andb_true_iff in Hb.
    destruct Ha as [_ Ha]. destruct Hb as [_ Hb].
    destruct (IH b x y r1 r2 Ha Hb Hx Hy E2) as [E3 E4]. subst b. split; [reflexivity | exact E4].
Qed.

Lemma forallb_impl : forall (P Q : Z -> bool) l,
  (forall c, P c = true -> Q c = true) -> forallb P l = true -> forallb Q l = true.
Proof.
  intros P Q l HPQ. induction l as [|c l IH]; simpl; intro H; [reflexivity|].
  apply andb_true_iff in H. destruct H as [H1 H2]. rewrite (HPQ c H1). simpl. apply IH. exact H2.
Qed.

(* s ++ '"' ++ X with no '"' in s *)
Lemma quoted_inj : forall s1 s2 X1 X2,
  no_char 34 s1 = true -> no_char 34 s2 = true ->
  s1 ++ 34 :: X1 = s2 ++ 34 :: X2 -> s1 = s2 /\ X1 = X2.
Proof.
  intros s1 s2 X1 X2 H1 H2 E.
  destruct (span_inj (fun c => c =? 34) s1 s2 34 34 X1 X2 H1 H2 eq_refl eq_refl E) as [E1 E2].
  injection E2 as E2. split; assumption.
Qed.

Lemma repeat_all_spaces : forall n, forallb (fun c => negb (negb (c =? 32))) (repeat 32 n) = true.
Proof. induction n as [|n IH]; simpl; [reflexivity | exact IH]. Qed.

Lemma repeat_head : forall n X, exists x r,
  repeat 32 n ++ 58 :: X = x :: r /\ ((x =? 32) || (x =? 58)) = true.
Proof.
  intros [|n] X; simpl.
  - exists 58, X. split; reflexivity.
  - exists 32, (repeat 32 n ++ 58 :: X). split; reflexivity.
Qed.

Lemma no_two_chars : forall a b s, no_char a s = true -> no_char b s = true ->
  forallb (fun c => negb ((c =? a) || (c =? b))) s = true.
Proof.
  intros a b s. unfold no_char. induction s as [|c s IH]; simpl; intros Ha Hb; [reflexivity|].
  apply andb_true_iff in Ha. apply andb_true_iff in Hb.
  destruct Ha as [Ha1 Ha2]. destruct Hb as [Hb1 Hb2].
  rewrite (IH Ha2 Hb2). destruct (c =? a); destruct (c =? b); simpl in *; try discriminate; reflexivity.
Qed.

(* id ++ padding ++ ':' ++ X with neither ' ' nor ':' in id *)
Lemma id_pad_inj : forall id1 id2 n1 n2 X1 X2,
  no_char 32 id1 = true -> no_char 58 id1 = true ->
  no_char 32 id2 = true -> no_char 58 id2 = true ->
  id1 ++ repeat 32 n1 ++ 58 :: X1 = id2 ++ repeat 32 n2 ++ 58 :: X2 ->
  id1 = id2 /\ X1 = X2.
Proof.
  intros id1 id2 n1 n2 X1 X2 A1 B1 A2 B2 E.
  destruct (repeat_head n1 X1) as (x1 & q1 & Q1 & S1).
  destruct (repeat_head n2 X2) as (x2 & q2 & Q2 & S2).
  rewrite Q1, Q2 in E.
  destruct (span_inj (fun c => (c =? 32) || (c =? 58)) id1 id2 x1 x2 q1 q2
              (no_two_chars 32 58 id1 A1 B1) (no_two_chars 32 58 id2 A2 B2) S1 S2 E) as [E1 E2].
  rewrite <- Q1, <- Q2 in E2.
  destruct (span_inj (fun c => negb (c =? 32)) (repeat 32 n1) (repeat 32 n2) 58 58 X1 X2
              (repeat_all_spaces n1) (repeat_all_spaces n2) eq_refl eq_refl E2) as [_ E3].
  injection E3 as E3. split; assumption.
Qed.

(* ---------- "%d" ---------- *)

Definition is_digit (c : Z) : bool := (48 <=? c) && (c <=? 57).

Lemma uint_chars_digits : forall u, forallb is_digit (uint_chars u) = true.
Proof. induction u as [|u IH|u IH|u IH|u IH|u IH|u IH|u IH|u IH|u IH|u IH]; simpl; auto. Qed.

Lemma uint_chars_inj : forall u1 u2, uint_chars u1 = uint_chars u2 -> u1 = u2.
Proof.
  induction u1 as [|u1 IH|u1 IH|u1 IH|u1 IH|u1 IH|u1 IH|u1 IH|u1 IH|u1 IH|u1 IH];
    intros [|u2|u2|u2|u2|u2|u2|u2|u2|u2|u2] H; simpl in H;
    try reflexivity; try discriminate; injection H as H; f_equal; apply IH; exact H.
Qed.

Lemma dec_inj : forall z1 z2, dec z1 = dec z2 -> z1 = z2.
Proof.
  intros z1 z2 H. rewrite <- (DecimalZ.of_to z1), <- (DecimalZ.of_to z2). f_equal.
  unfold dec in H.
  destruct (Z.to_int z1) as [u1|u1]; destruct (Z.to_int z2) as [u2|u2].
  - f_equal. apply uint_chars_inj. exact H.
  - exfalso. pose proof (uint_chars_digits u1) as D. rewrite H in D. simpl in D. discriminate.
  - exfalso. pose proof (uint_chars_digits u2) as D. rewrite <- H in D. simpl in D. discriminate.
  - injection H as H. f_equal. apply uint_chars_inj. exact H.
Qed.

Lemma digit_not_semicolon : forall c, is_digit c = true -> negb (c =? 59) = true.
Proof.
  intros c H. unfold is_digit in H. apply andb_true_iff in H. destruct H as [H1 H2].
  apply Z.leb_le in H2. destruct (Z.eqb_spec c 59) as [->|_]; [lia | reflexivity].
Qed.

Lemma dec_no_semicolon : forall z, forallb (fun c => negb (c =? 59)) (dec z) = true.
Proof.
  intro z. unfold dec. destruct (Z.to_int z) as [u|u]; simpl;
    apply (forallb_impl is_digit _ _ digit_not_semicolon); apply uint_chars_digits.
Qed.

Lemma dec_span_inj : forall z1 z2 r1 r2,
  dec z1 ++ 59 :: r1 = dec z2 ++ 59 :: r2 -> z1 = z2 /\ r1 = r2.
Proof.
  intros z1 z2 r1 r2 E.
  destruct (span_inj (fun c => c =? 59) (dec z1) (dec z2) 59 59 r1 r2
              (dec_no_semicolon z1) (dec_no_semicolon z2) eq_refl eq_refl E) as [E1 E2].
  injection E2 as E2. split; [apply dec_inj; exact E1 | exact E2].
Qed.

(* ---------- the generated text, in cons form ---------- *)

Lemma render_col1_nf : forall c rest,
  render_col1 c ++ rest =
  32 :: 32 :: 32 :: 32 ::
    (col_id c ++ repeat 32 (20 - length (col_id c))%nat ++
       58 :: 32 :: 34 :: (col_type c ++ 34 :: 44 :: 10 :: rest)).
Proof. intros c rest. unfold render_col1, pad_to. rewrite <- !app_assoc. reflexivity. Qed.

Lemma render_table1_nf : forall t rest,
  render_table1 t ++ rest =
  32 :: 32 :: 34 ::
    (tbl_id t ++ 34 :: 58 :: 32 :: 123 :: 10 ::
       (flat_map render_col1 (tbl_columns t) ++ 32 :: 32 :: 125 :: 44 :: 10 :: 10 :: rest)).
Proof. intros t rest. unfold render_table1. rewrite <- !app_assoc. reflexivity. Qed.

Lemma header2_cons : header2 = 59 :: tl header2.
Proof. reflexivity. Qed.

Lemma middle_cons : middle = 125 :: tl middle.
Proof. reflexivity. Qed.

(* ---------- reading the first block back ---------- *)

Lemma cols_inj : forall cs1 cs2 r1 r2,
  forallb col_ok cs1 = true -> forallb col_ok cs2 = true ->
  flat_map render_col1 cs1 ++ 32 :: 32 :: 125 :: r1 = flat_map render_col1 cs2 ++ 32 :: 32 :: 125 :: r2 ->
  map col_core cs1 = map col_core cs2 /\ r1 = r2.
Proof.
  induction cs1 as [|c1 cs1 IH]; intros [|c2 cs2] r1 r2 H1 H2 E.
  - cbn [flat_map app] in E. injection E as E. split; [reflexivity | exact E].
  - exfalso. cbn [flat_map] in E. rewrite <- app_assoc in E. rewrite render_col1_nf in E.
    cbn [app] in E. discriminate.
  - exfalso. cbn [flat_map] in E. rewrite <- app_assoc in E. rewrite render_col1_nf in E.
    cbn [app] in E. discriminate.
  - cbn [flat_map] in E. rewrite <- !app_assoc in E. rewrite !render_col1_nf in E.
    injection E as E.
    cbn [forallb] in H1, H2. apply andb_true_iff in H1. apply andb_true_iff in H2.
    destruct H1 as [K1 H1]. destruct H2 as [K2 H2].
    unfold col_ok in K1, K2.
    apply andb_true_iff in K1. destruct K1 as [K1 T1]. apply andb_true_iff in K1. destruct K1 as [A1 B1].
    apply andb_true_iff in K2. destruct K2 as [K2 T2]. apply andb_true_iff in K2. destruct K2 as [A2 B2].
    apply id_pad_inj in E; try assumption. destruct E as [Eid E].
    injection E as E.
    apply quoted_inj in E; try assumption. destruct E as [Ety E].
    injection E as E.
    destruct (IH cs2 r1 r2 H1 H2 E) as [Em Er].
    split; [|exact Er]. cbn [map]. unfold col_core at 1 3. rewrite Eid, Ety, Em. reflexivity.
Qed.

Lemma tables_inj : forall ts1 ts2 r1 r2,
  forallb tbl_ok ts1 = true -> forallb tbl_ok ts2 = true ->
  flat_map render_table1 ts1 ++ 125 :: r1 = flat_map render_table1 ts2 ++ 125 :: r2 ->
  map tbl_core ts1 = map tbl_core ts2 /\ r1 = r2.
Proof.
  induction ts1 as [|t1 ts1 IH]; intros [|t2 ts2] r1 r2 H1 H2 E.
  - cbn [flat_map app] in E. injection E as E. split; [reflexivity | exact E].
  - exfalso. cbn [flat_map] in E. rewrite <- app_assoc in E. rewrite render_table1_nf in E.
    cbn [app] in E. discriminate.
  - exfalso. cbn [flat_map] in E. rewrite <- app_assoc in E. rewrite render_table1_nf in E.
    cbn [app] in E. discriminate.
  - cbn [flat_map] in E. rewrite <- !app_assoc in E. rewrite !render_table1_nf in E.
    injection E as E.
    cbn [forallb] in H1, H2. apply andb_true_iff in H1. apply andb_true_iff in H2.
    destruct H1 as [K1 H1]. destruct H2 as [K2 H2].
    unfold tbl_ok in K1, K2.
    apply andb_true_iff in K1. destruct K1 as [Q1 C1].
    apply andb_true_iff in K2. destruct K2 as [Q2 C2].
    apply quoted_inj in E; try assumption. destruct E as [Eid E].
    injection E as E.
    apply cols_inj in E; try assumption. destruct E as [Ecols E].
    injection E as E.
    destruct (IH ts2 r1 r2 H1 H2 E) as [Em Er].
    split; [|exact Er]. cbn [map]. unfold tbl_core at 1 3. rewrite Eid, Ecols, Em. reflexivity.
Qed.

(* Equal generated text => same version, same tables in the same order, same column ids and types in the
   same order -- whatever the two _ts_types tables are. *)
Theorem render_injective : forall tt1 tt2 s1 s2,
  schema_ok s1 = true -> schema_ok s2 = true ->
  render tt1 s1 = render tt2 s2 -> schema_core s1 = schema_core s2.
Proof.
  intros tt1 tt2 s1 s2 H1 H2 E. unfold render in E.
  apply app_inv_head in E.
  rewrite header2_cons in E. remember (tl header2) as h2 eqn:Hh2. cbn [app] in E.
  apply dec_span_inj in E. destruct E as [Ev E].
  apply app_inv_head in E.
  rewrite middle_cons in E. remember (tl middle) as md eqn:Hmd. cbn [app] in E.
  apply tables_inj in E; try assumption. destruct E as [Et _].
  unfold schema_core. rewrite Ev, Et. reflexivity.
Qed.

(* ---------- the text depends on nothing but schema_core ---------- *)

Lemma flat_map_core : forall {A B C} (g : A -> B) (f : A -> list C),
  (forall a1 a2, g a1 = g a2 -> f a1 = f a2) ->
  forall l1 l2, map g l1 = map g l2 -> flat_map f l1 = flat_map f l2.
Proof.
  intros A B C g f Hf. induction l1 as [|a1 l1 IH]; intros [|a2 l2] E; simpl in E; try discriminate.
  - reflexivity.
  - injection E as E1 E2. simpl. rewrite (Hf a1 a2 E1), (IH l2 E2). reflexivity.
Qed.

Lemma render_col1_core : forall c1 c2, col_core c1 = col_core c2 -> render_col1 c1 = render_col1 c2.
Proof. intros c1 c2 E. unfold col_core in E. injection E as E1 E2. unfold render_col1. rewrite E1, E2. reflexivity. Qed.

Lemma render_col2_core : forall tt c1 c2, col_core c1 = col_core c2 -> render_col2 tt c1 = render_col2 tt c2.
Proof. intros tt c1 c2 E. unfold col_core in E. injection E as E1 E2. unfold render_col2. rewrite E1, E2. reflexivity. Qed.

Lemma render_table1_core : forall t1 t2, tbl_core t1 = tbl_core t2 -> render_table1 t1 = render_table1 t2.
Proof.
  intros t1 t2 E. unfold tbl_core in E. injection E as E1 E2. unfold render_table1.
  rewrite E1, (flat_map_core col_core render_col1 render_col1_core _ _ E2). reflexivity.
Qed.

Lemma render_table2_core : forall tt t1 t2, tbl_core t1 = tbl_core t2 -> render_table2 tt t1 = render_table2 tt t2.
Proof.
  intros tt t1 t2 E. unfold tbl_core in E. injection E as E1 E2. unfold render_table2.
  rewrite E1, (flat_map_core col_core (render_col2 tt) (render_col2_core tt) _ _ E2). reflexivity.
Qed.

Theorem render_core_only : forall tt s1 s2, schema_core s1 = schema_core s2 -> render tt s1 = render tt s2.
Proof.
  intros tt s1 s2 E. unfold schema_core in E. injection E as E1 E2. unfold render.
  rewrite E1, (flat_map_core tbl_core render_table1 render_table1_core _ _ E2),
          (flat_map_core tbl_core (render_table2 tt) (render_table2_core tt) _ _ E2).
  reflexivity.
Qed.

(* ---------- defaults ---------- *)

Lemma wire_eqb_eq : forall a b, wire_eqb a b = true -> a = b /\ a <> WBad.
Proof.
  intros [|x|x|x|] [|y|y|y|] H; simpl in H; try discriminate; split; try discriminate; try reflexivity.
  - apply eqb_prop in H. subst. reflexivity.
  - apply Z.eqb_eq in H. subst. reflexivity.
  - apply zs_eqb_eq in H. subst. reflexivity.
Qed.

(* Agreement on every listed name and on the fallback is agreement on every name. *)
Theorem defaults_agree_all : forall pyd tsd,
  defaults_checked pyd tsd = true -> forall T, default_agree pyd tsd T = true.
Proof.
  intros pyd tsd H T. unfold defaults_checked in H. apply andb_true_iff in H. destruct H as [Hk Hf].
  rewrite forallb_forall in Hk. unfold all_default_keys in Hk.
  destruct (assoc T pyd) as [v|] eqn:Ep.
  - apply Hk. apply in_or_app. left. exact (assoc_in T pyd v Ep).
  - destruct (assoc T tsd) as [w|] eqn:Et.
    + apply Hk. apply in_or_app. right. exact (assoc_in T tsd w Et).
    + unfold default_agree, py_default, ts_default. rewrite Ep, Et. exact Hf.
Qed.

Theorem defaults_equal_all : forall pyd tsd,
  defaults_checked pyd tsd = true ->
  forall T, ts_wire (ts_default tsd T) = py_wire (py_default pyd T) /\ ts_wire (ts_default tsd T) <> WBad.
Proof. intros pyd tsd H T. apply wire_eqb_eq. exact (defaults_agree_all pyd tsd H T). Qed.
