(* K6 proofs, part 9: new fields, sections, views and columns. *)
From Coq Require Import ZArith List Bool Lia.
Import ListNotations.
Require Import Grist.Model.MetaCascade Grist.Proofs.MetaCascade_base Grist.Proofs.MetaCascade_inv
  Grist.Proofs.MetaCascade_add.
Open Scope Z_scope.

Lemma IdsOk_extend : forall m nt nc nv ns nf nb np nn,
  IdList (tids m ++ map t_id nt) -> IdList (cids m ++ map c_id nc) -> IdList (m_views m ++ nv) ->
  IdList (sids m ++ map s_id ns) -> IdList (fids m ++ map f_id nf) ->
  IdList (map fst (m_tabbar m) ++ map fst nb) -> IdList (map fst (m_pages m) ++ map fst np) ->
  IdsOk (extend m nt nc nv ns nf nb np nn).
Proof.
  intros. unfold IdsOk, tids, cids, sids, fids, extend in *. simpl. rewrite !map_app. tauto.
Qed.

Lemma IdList_nil : forall l, IdList l -> IdList (l ++ []).
Proof. intros. rewrite app_nil_r. assumption. Qed.

Lemma NamesOk_extend_same : forall m nc nv ns nf nb np,
  NamesOk m -> NamesOk (extend m [] nc nv ns nf nb np []).
Proof. intros. unfold NamesOk, extend in *. simpl. rewrite !app_nil_r. assumption. Qed.

(* ---------------------------------------------------------------------------------------------- *)
(* fields *)

Lemma new_fields_ids : forall start sec cols, map f_id (new_fields start sec cols) = zseq start (length cols).
Proof.
  intros. unfold new_fields. rewrite map_map. simpl.
  change (map (fun x : Z * Z => fst x) (combine (zseq start (length cols)) cols))
    with (map fst (combine (zseq start (length cols)) cols)).
  apply combine_fst. apply zseq_length.
Qed.

Lemma new_fields_In : forall start sec cols f, In f (new_fields start sec cols) ->
  f_section f = sec /\ In (f_col f) cols /\ f_display f = 0 /\ f_visible f = 0 /\ f_rules f = [].
Proof.
  intros start sec cols f Hf. unfold new_fields in Hf. apply in_map_iff in Hf. destruct Hf as [[i c] [E Hp]].
  subst f. simpl. apply in_combine_r in Hp. tauto.
Qed.

Lemma add_fields_extend : forall sec cols m,
  add_fields sec cols m = extend m [] [] [] [] (new_fields (next_id (fids m)) sec cols) [] [] [].
Proof. intros. destruct m. unfold add_fields, set_fields, extend. simpl. rewrite !app_nil_r. reflexivity. Qed.

Lemma add_fields_inv : forall X sec cols m,
  InvX X m -> (forall c, In c cols -> ColOfSection m sec c) -> InvX X (add_fields sec cols m).
Proof.
  intros X sec cols m HI HC. rewrite add_fields_extend.
  destruct (inv_ids X m HI) as [A [B [C [D [E [F G]]]]]].
  apply inv_extend; try (intros ? Hnil; exact (False_ind _ Hnil)); try exact HI.
  - apply IdsOk_extend; try (apply IdList_nil; assumption).
    rewrite new_fields_ids. apply IdList_zseq. exact E.
  - apply NamesOk_extend_same. apply (inv_names X m HI).
  - intros f Hf. apply new_fields_In in Hf. destruct Hf as [H1 [H2 [H3 [H4 H5]]]].
    unfold FieldOk. rewrite H1, H3, H4, H5.
    split; [|split; [left; reflexivity | split; [left; reflexivity | intros x []]]].
    apply (ColOfSection_mono m); [apply incl_appl, incl_refl | apply incl_appl, incl_refl | apply HC; exact H2].
Qed.

(* ---------------------------------------------------------------------------------------------- *)
(* sections *)

Lemma add_section_extend : forall t v b m,
  fst (add_section t v b m) = extend m [] [] [] [mkS (next_id (sids m)) t v [] b] [] [] [] [] /\
  snd (add_section t v b m) = next_id (sids m).
Proof. intros. destruct m. unfold add_section, set_sections, extend. simpl. rewrite !app_nil_r. split; reflexivity. Qed.

Lemma add_section_inv : forall X t v b m,
  InvX X m -> In t (tids m) -> Optref (m_views m) v -> InvX X (fst (add_section t v b m)).
Proof.
  intros X t v b m HI Ht Hv. destruct (add_section_extend t v b m) as [E _]. rewrite E.
  destruct (inv_ids X m HI) as [A [B [C [D [E' [F G]]]]]].
  apply inv_extend; try (intros ? Hnil; exact (False_ind _ Hnil)); try exact HI.
  - apply IdsOk_extend; try (apply IdList_nil; assumption). simpl. apply IdList_snoc. exact D.
  - apply NamesOk_extend_same. apply (inv_names X m HI).
  - intros s [Hs|[]]. subst s. unfold SecOk, tids, cids, extend. simpl. rewrite !app_nil_r.
    split; [exact Ht|]. split; [exact Hv | intros x []].
Qed.

Lemma add_section_sec : forall t v b m,
  In (mkS (snd (add_section t v b m)) t v [] b) (m_sections (fst (add_section t v b m))) /\
  m_columns (fst (add_section t v b m)) = m_columns m /\ m_tables (fst (add_section t v b m)) = m_tables m /\
  m_views (fst (add_section t v b m)) = m_views m.
Proof.
  intros. destruct m. unfold add_section, set_sections. simpl. split; [|tauto].
  apply in_app_iff. right. left. reflexivity.
Qed.

(* the columns _RebuildViewFields picks belong to the table of the new section *)
Lemma visible_cols_of_section : forall m s t c, In s (m_sections m) -> s_table s = t ->
  In c (visible_cols m t) -> ColOfSection m (s_id s) c.
Proof.
  intros m s t c Hs Ht Hc. unfold visible_cols in Hc. apply in_map_iff in Hc. destruct Hc as [cr [E Hcr]].
  apply filter_In in Hcr. destruct Hcr as [Hcr Hp]. apply andb_true_iff in Hp. destruct Hp as [Hp _].
  apply Z.eqb_eq in Hp. exists s, cr. split; [exact Hs|]. split; [reflexivity|]. split; [exact Hcr|].
  split; [exact E | congruence].
Qed.

(* a new section with a field per visible column of its table *)
Lemma section_with_fields_inv : forall X t v b m,
  InvX X m -> In t (tids m) -> Optref (m_views m) v ->
  InvX X (let '(m2, s) := add_section t v b m in add_fields s (visible_cols m2 t) m2).
Proof.
  intros X t v b m HI Ht Hv. pose proof (add_section_inv X t v b m HI Ht Hv) as H2.
  destruct (add_section_sec t v b m) as [Hs _]. destruct (add_section t v b m) as [m2 s]. simpl in *.
  apply add_fields_inv; [exact H2|]. intros c Hc.
  apply (visible_cols_of_section m2 (mkS s t v [] b) t c Hs eq_refl Hc).
Qed.

(* ---------------------------------------------------------------------------------------------- *)
(* views *)

Lemma add_view_inv : forall X t raw m m' v,
  InvX X m -> add_view t raw m = Ok (m', v) ->
  InvX X m' /\ In v (m_views m') /\ incl (m_tables m) (m_tables m') /\ incl (m_views m) (m_views m') /\
  tids m' = tids m.
Proof.
  intros X t raw m m' v HI H. unfold add_view in H.
  set (v0 := next_id (m_views m)) in *.
  set (m1 := mkM (m_tables m) (m_columns m) (m_views m ++ [v0]) (m_sections m) (m_fields m)
                 (m_tabbar m ++ [(next_id (map fst (m_tabbar m)), v0)])
                 (m_pages m ++ [(next_id (map fst (m_pages m)), v0)]) (m_schema m)) in *.
  assert (E1 : m1 = extend m [] [] [v0] [] [] [(next_id (map fst (m_tabbar m)), v0)]
                            [(next_id (map fst (m_pages m)), v0)] []).
  { unfold m1, extend. rewrite !app_nil_r. reflexivity. }
  assert (HI1 : InvX X m1).
  { rewrite E1. destruct (inv_ids X m HI) as [A [B [C [D [E [F G]]]]]].
    apply inv_extend; try (intros ? Hnil; exact (False_ind _ Hnil)); try exact HI.
    - apply IdsOk_extend; try (apply IdList_nil; assumption); simpl; apply IdList_snoc; assumption.
    - apply NamesOk_extend_same. apply (inv_names X m HI).
    - intros b [Hb|[]]. subst b. simpl. apply in_app_iff. right. left. reflexivity.
    - intros b [Hb|[]]. subst b. simpl. apply in_app_iff. right. left. reflexivity. }
  assert (Hv1 : In v0 (m_views m1)) by (simpl; apply in_app_iff; right; left; reflexivity).
  destruct raw.
  - destruct (negb (mem t (tids m))) eqn:Et; [discriminate|].
    apply negb_false_iff in Et. apply mem_In in Et.
    pose proof (section_with_fields_inv X t v0 false m1 HI1 Et (or_intror Hv1)) as H3.
    destruct (add_section_sec t v0 false m1) as [_ [_ [T3 V3]]].
    destruct (add_section t v0 false m1) as [m2 s]. simpl in *. inversion H; subst m' v. clear H.
    split; [exact H3|]. rewrite add_fields_extend. simpl. rewrite !app_nil_r. rewrite V3, T3. unfold tids. simpl.
    rewrite app_nil_r, T3.
    split; [exact Hv1|]. split; [apply incl_refl|]. split; [apply incl_appl, incl_refl | reflexivity].
  - inversion H; subst m' v. split; [exact HI1|]. split; [exact Hv1|]. simpl.
    split; [apply incl_refl|]. split; [apply incl_appl, incl_refl | reflexivity].
Qed.
