(* Proofs about Model/Lookup.v (C13).  Part 3: the row <-> key index of a lookup map column. *)
From Coq Require Import ZArith List Bool Lia QArith.
Import ListNotations.
Require Import Grist.Model.Lookup Grist.Proofs.Lookup_proofs Grist.Proofs.LookupVal_proofs.
Open Scope Z_scope.

Definition lm_inv (cols : list colspec) (m : lmap) : Prop :=
  tw_inv Z.eqb vals_eqb always key_hashable KLookupSet (right_kind cols) m.

(* row r is stored under key k *)
Definition mrel (m : lmap) (r : Z) (k : key) : bool := memb vals_eqb k (mapped_keys m r).

Lemma mrel_fr : forall m r k, mrel m r k = fr Z.eqb vals_eqb m r k.
Proof. reflexivity. Qed.

Lemma lm_inv_empty : forall cols, lm_inv cols lm_empty.
Proof. intros. apply tw_inv_empty. Qed.

(* the backward view: the rows found under a key are the rows stored under it *)
Lemma key_rows_mrel : forall cols m r k, lm_inv cols m -> memb Z.eqb r (key_rows m k) = mrel m r k.
Proof. intros cols m r k [_ [_ C]]. symmetry. apply C. Qed.

Lemma mrel_hashable : forall cols m r k, lm_inv cols m -> mrel m r k = true -> key_hashable k = true.
Proof.
  intros cols m r k I H.
  destruct (fr_hash Z.eqb vals_eqb always key_hashable KLookupSet (right_kind cols) m r k I H); auto.
Qed.

Lemma mrel_congr : forall m r k k', vals_eqb k k' = true -> mrel m r k = mrel m r k'.
Proof. intros. unfold mrel. apply memb_congr; auto. apply key_equiv. Qed.

Lemma right_kind_cases : forall cols, (right_kind cols = KSingle /\ uses_contains cols = false) \/
                                      (right_kind cols = KSet /\ uses_contains cols = true).
Proof. intros. unfold right_kind. destruct (uses_contains cols); auto. Qed.

Definition bsoc (m m' : lmap) : Prop := stable_or_cleared vals_eqb (bwd m) (bwd m').

Lemma lm_insert_spec : forall cols m r k m' o, lm_inv cols m ->
  lm_insert cols m r k = (m', o) ->
  lm_inv cols m' /\ bsoc m m' /\
  (o = Done -> key_hashable k = true /\ forall r' k', mrel m' r' k' =
     if Z.eqb r r' then (vals_eqb k k' || (negb (is_single (right_kind cols)) && mrel m r k')) else mrel m r' k') /\
  (o <> Done -> key_hashable k = false /\ forall r' k', mrel m' r' k' = mrel m r' k').
Proof.
  intros cols m r k m' o I H. unfold lm_insert in H.
  destruct (tw_insert_spec Z.eqb vals_eqb always key_hashable never key_fmt_fails KLookupSet (right_kind cols)
              Z_equiv key_equiv always_congr key_hashable_congr m r k m' o I H) as [I' [_ [S [HD [HR HE]]]]].
  split; [exact I'|split; [exact S|split]].
  - intros Ho. destruct (HD Ho) as [_ [Hk HF]]. split; [exact Hk|].
    intros r' k'. rewrite mrel_fr, HF. unfold ins_rel. cbn [is_single andb negb]. now rewrite andb_true_r.
  - intros Ho. split; [|intros r' k'; rewrite !mrel_fr; apply HR; exact Ho].
    destruct o as [|e]; [congruence|]. destruct (HE e eq_refl) as [X|[X|[X|X]]]; try discriminate; auto.
    destruct (right_kind_cases cols) as [[E _]|[E _]]; rewrite E in X; discriminate.
Qed.

Lemma lm_remove_spec : forall cols m r k m' o, lm_inv cols m ->
  lm_remove cols m r k = (m', o) ->
  lm_inv cols m' /\ bsoc m m' /\
  forall r' k', mrel m' r' k' = mrel m r' k' && negb (Z.eqb r r' && vals_eqb k k').
Proof.
  intros cols m r k m' o I H. unfold lm_remove in H.
  destruct (tw_remove_spec Z.eqb vals_eqb always key_hashable KLookupSet (right_kind cols)
              Z_equiv key_equiv m r k m' o I H) as [I' [_ [S [HD HR]]]].
  split; [exact I'|split; [exact S|]].
  intros r' k'. rewrite !mrel_fr. destruct o as [|e].
  - apply HD. reflexivity.
  - rewrite HR by discriminate. rewrite <- !mrel_fr.
    destruct (Z.eqb r r') eqn:Er; cbn; [|now rewrite andb_true_r].
    destruct (vals_eqb k k') eqn:Ek; cbn; [|now rewrite andb_true_r].
    rewrite andb_false_r. apply Z.eqb_eq in Er. subst r'.
    (* a failing remove can only concern a pair that is not stored *)
    destruct (mrel m r k') eqn:Hm; [|reflexivity]. exfalso.
    rewrite <- (mrel_congr m r k k' Ek) in Hm.
    unfold tw_remove, rm_fwd, rm_bwd in H.
    destruct (remove_item Z.eqb vals_eqb always key_hashable (right_kind cols) (@fwd Z (list val) m) r k) as [f1|] eqn:E1.
    + cbv beta iota zeta delta [negb] in H.
      destruct (remove_item vals_eqb Z.eqb key_hashable always KLookupSet (@bwd Z (list val) m) k r) as [b1|] eqn:E2;
        [cbv beta iota zeta in H; inversion H|].
      apply remove_item_raise in E2. pose proof (mrel_hashable cols m r k I Hm) as Hh.
      destruct E2 as [E2|[_ E2]]; [congruence|discriminate].
    + apply remove_item_raise in E1. pose proof (mrel_hashable cols m r k I Hm) as Hh.
      destruct E1 as [E1|[_ E1]]; [discriminate|congruence].
Qed.

Lemma bsoc_refl : forall m, bsoc m m.
Proof. intros. apply soc_refl. Qed.
Lemma bsoc_trans : forall a b c, bsoc a b -> bsoc b c -> bsoc a c.
Proof. intros a b c. apply soc_trans. Qed.

Lemma remove_each_spec : forall cols ks m r, lm_inv cols m ->
  let m' := remove_each cols m r ks in
  lm_inv cols m' /\ bsoc m m' /\
  forall r' k', mrel m' r' k' = mrel m r' k' && negb (Z.eqb r r' && memb vals_eqb k' ks).
Proof.
  induction ks as [|k ks IH]; intros m r I; cbn [remove_each].
  - split; [exact I|split; [apply bsoc_refl|]]. intros. cbn. now rewrite andb_false_r, andb_true_r.
  - destruct (lm_remove cols m r k) as [m1 o] eqn:E. cbn [fst].
    destruct (lm_remove_spec cols m r k m1 o I E) as [I1 [S1 R1]].
    destruct (IH m1 r I1) as [I2 [S2 R2]].
    split; [exact I2|split; [eapply bsoc_trans; eauto|]].
    intros r' k'. rewrite R2, R1. cbn [memb].
    destruct (Z.eqb r r'); cbn [andb negb]; [|now rewrite !andb_true_r].
    destruct (vals_eqb k k'); cbn [negb]; [now rewrite !andb_false_r|now rewrite andb_true_r].
Qed.

Lemma insert_each_spec : forall cols ks m r, lm_inv cols m -> right_kind cols = KSet ->
  forallb key_hashable ks = true ->
  let m' := insert_each cols m r ks in
  lm_inv cols m' /\ bsoc m m' /\
  forall r' k', mrel m' r' k' = mrel m r' k' || (Z.eqb r r' && memb vals_eqb k' ks).
Proof.
  induction ks as [|k ks IH]; intros m r I Hk Hh; cbn [insert_each].
  - split; [exact I|split; [apply bsoc_refl|]]. intros. cbn. now rewrite andb_false_r, orb_false_r.
  - cbn in Hh. apply andb_true_iff in Hh. destruct Hh as [Hh1 Hh2].
    destruct (lm_insert cols m r k) as [m1 o] eqn:E. cbn [fst].
    destruct (lm_insert_spec cols m r k m1 o I E) as [I1 [S1 [RD RR]]].
    assert (Ho : o = Done).
    { destruct o; [reflexivity|]. destruct RR as [X _]; [discriminate|congruence]. }
    destruct (RD Ho) as [_ R1].
    destruct (IH m1 r I1 Hk Hh2) as [I2 [S2 R2]].
    split; [exact I2|split; [eapply bsoc_trans; eauto|]].
    intros r' k'. rewrite R2, R1, Hk. cbn [memb is_single negb andb].
    destruct (Z.eqb r r') eqn:Er; cbn [andb]; [|now rewrite !orb_false_r].
    apply Z.eqb_eq in Er. subst r'.
    destruct (vals_eqb k k'); cbn; [now rewrite orb_true_r|reflexivity].
Qed.

Lemma memb_filter : forall {A} (eqb : A -> A -> bool) (f : A -> bool) l a, equiv eqb ->
  (forall x y, eqb x y = true -> f x = f y) ->
  memb eqb a (filter f l) = memb eqb a l && f a.
Proof.
  intros A eqb f l a E Hf. induction l as [|y l IH]; cbn; [reflexivity|].
  destruct (f y) eqn:Fy; cbn.
  - destruct (eqb y a) eqn:Eya; [|exact IH]. now rewrite <- (Hf y a Eya), Fy.
  - destruct (eqb y a) eqn:Eya; [|exact IH]. rewrite <- (Hf y a Eya), Fy, andb_false_r.
    rewrite IH, <- (Hf y a Eya), Fy. apply andb_false_r.
Qed.

Lemma memb_diff : forall a b k, memb vals_eqb k (diff_keys a b) = memb vals_eqb k a && negb (memb vals_eqb k b).
Proof.
  intros a b k. unfold diff_keys.
  apply (memb_filter vals_eqb (fun k0 => negb (memb vals_eqb k0 b))); [apply key_equiv|].
  intros x y E. f_equal. apply (memb_congr vals_eqb key_equiv). exact E.
Qed.

(* keys of a CONTAINS mapping are always hashable *)
Lemma extract_hashable : forall v, hashable v = true -> hashable (extract v) = true.
Proof. destruct v; cbn; auto. Qed.

Lemma dedup_subset : forall {A} (eqb : A -> A -> bool) l x, In x (dedup eqb l) -> In x l.
Proof.
  intros A eqb. induction l as [|y l IH]; cbn; intros x H; [exact H|].
  destruct H as [H|H]; [auto|]. apply filter_In in H. right. apply IH. tauto.
Qed.

Lemma contains_group_hashable : forall c v x, In x (contains_group c v) -> hashable x = true.
Proof.
  intros c v x H. unfold contains_group in H.
  match type of H with In x (match ?G with _ => _ end) => destruct G as [g|] end; [|contradiction].
  destruct (forallb hashable g) eqn:Hg; [|contradiction].
  apply in_map_iff in H. destruct H as [y [<- Hy]]. apply extract_hashable.
  apply dedup_subset in Hy. rewrite forallb_forall in Hg. auto.
Qed.

Lemma product_hashable : forall gs k, (forall g x, In g gs -> In x g -> hashable x = true) ->
  In k (product gs) -> key_hashable k = true.
Proof.
  induction gs as [|g gs IH]; cbn; intros k Hg H.
  - destruct H as [<-|[]]. reflexivity.
  - apply in_flat_map in H. destruct H as [v [Hv H]]. apply in_map_iff in H. destruct H as [k0 [<- Hk0]].
    cbn. rewrite (Hg g v); auto. cbn. apply IH; auto. intros g' x Hg' Hx. eapply Hg; eauto.
Qed.

Lemma zip_groups_hashable : forall cols cells g x, In g (zip_groups cols cells) -> In x g -> hashable x = true.
Proof.
  induction cols as [|c cols IH]; destruct cells as [|v cells]; cbn; intros g x Hg Hx; try contradiction.
  destruct Hg as [<-|Hg]; [eapply contains_group_hashable; eauto|eapply IH; eauto].
Qed.

Lemma contains_keys_hashable : forall cols cells, uses_contains cols = true ->
  forallb key_hashable (new_keys cols cells) = true.
Proof.
  intros cols cells H. unfold new_keys. rewrite H. apply forallb_forall. intros k Hk.
  apply dedup_subset in Hk. unfold new_keys_iter in Hk. rewrite H in Hk.
  eapply product_hashable; [|exact Hk]. apply zip_groups_hashable.
Qed.

Lemma keys_of_contains : forall cols cells, uses_contains cols = true -> keys_of cols cells = new_keys cols cells.
Proof.
  intros cols cells H. unfold keys_of. pose proof (contains_keys_hashable cols cells H) as Hh.
  induction (new_keys cols cells) as [|k l IH]; cbn in *; [reflexivity|].
  apply andb_true_iff in Hh. destruct Hh as [H1 H2]. rewrite H1. f_equal. auto.
Qed.

Lemma forallb_filter : forall {A} (f g : A -> bool) l, forallb f l = true -> forallb f (filter g l) = true.
Proof.
  intros A f g. induction l as [|x l IH]; cbn; intros H; [reflexivity|].
  apply andb_true_iff in H. destruct H as [H1 H2]. destruct (g x); cbn; [rewrite H1|]; auto.
Qed.

Lemma single_mapped : forall cols m r, lm_inv cols m -> right_kind cols = KSingle ->
  mapped_keys m r = [] \/ exists o, mapped_keys m r = [o].
Proof.
  intros cols m r [[_ [Ws _]] _] Hk. unfold mapped_keys, items_of. rewrite Hk in Ws.
  destruct (dget Z.eqb (fwd m) r) as [b|] eqn:E; [|left; reflexivity].
  right. exact (Ws eq_refl r b E).
Qed.

Lemma keys_of_simple : forall cols cells, uses_contains cols = false ->
  keys_of cols cells = if key_hashable (map extract cells) then [map extract cells] else [].
Proof. intros cols cells H. unfold keys_of, new_keys, new_keys_iter. rewrite H. cbn. reflexivity. Qed.

Lemma update_record_spec : forall cols m r cells, lm_inv cols m ->
  let m' := fst (update_record cols m r cells) in
  lm_inv cols m' /\ bsoc m m' /\
  forall r' k', mrel m' r' k' = if Z.eqb r r' then memb vals_eqb k' (keys_of cols cells) else mrel m r' k'.
Proof.
  intros cols m r cells I. unfold update_record.
  destruct (right_kind_cases cols) as [[Hk Hu]|[Hk Hu]]; rewrite Hu.
  - (* SimpleLookupMapping *)
    rewrite (keys_of_simple cols cells Hu). set (new_key := map extract cells).
    assert (Hins : forall m1 o, lm_insert cols m r new_key = (m1, o) ->
              lm_inv cols m1 /\ bsoc m m1 /\
              (o = Done -> key_hashable new_key = true /\ forall r' k', mrel m1 r' k' =
                 if Z.eqb r r' then vals_eqb new_key k' else mrel m r' k') /\
              (o <> Done -> key_hashable new_key = false /\ forall r' k', mrel m1 r' k' = mrel m r' k')).
    { intros m1 o E. destruct (lm_insert_spec cols m r new_key m1 o I E) as [I1 [S1 [RD RR]]].
      split; [exact I1|split; [exact S1|split; [|exact RR]]].
      intros Ho. destruct (RD Ho) as [Hh R1]. split; [exact Hh|]. intros r' k'. rewrite R1, Hk. cbn.
      now rewrite orb_false_r. }
    destruct (single_mapped cols m r I Hk) as [Hm|[old Hm]]; rewrite Hm.
    + assert (Hno : forall k', mrel m r k' = false) by (intros; unfold mrel; now rewrite Hm).
      destruct (lm_insert cols m r new_key) as [m1 o] eqn:E.
      destruct (Hins m1 o eq_refl) as [I1 [S1 [RD RR]]].
      destruct o as [|e]; cbn [fst].
      * destruct (RD eq_refl) as [Hh R1]. rewrite Hh. split; [exact I1|split; [exact S1|]].
        intros r' k'. rewrite R1. destruct (Z.eqb r r'); [|reflexivity]. cbn. now destruct (vals_eqb new_key k').
      * destruct RR as [Hh R1]; [discriminate|]. rewrite Hh. split; [exact I1|split; [exact S1|]].
        intros r' k'. rewrite R1. destruct (Z.eqb r r') eqn:Er; [|reflexivity].
        apply Z.eqb_eq in Er. subst. apply Hno.
    + assert (Hold : forall k', mrel m r k' = vals_eqb old k').
      { intros. unfold mrel. rewrite Hm. cbn. now destruct (vals_eqb old k'). }
      destruct (vals_eqb new_key old) eqn:Eno; cbn [fst].
      * assert (Hh : key_hashable new_key = true).
        { rewrite (key_hashable_congr new_key old Eno). apply (mrel_hashable cols m r old I).
          rewrite Hold. apply vals_eqb_refl. }
        rewrite Hh. split; [exact I|split; [apply bsoc_refl|]].
        intros r' k'. destruct (Z.eqb r r') eqn:Er; [|reflexivity]. apply Z.eqb_eq in Er. subst r'.
        rewrite Hold. cbn. rewrite <- (eq_trans_f vals_eqb key_equiv new_key old k' Eno).
        now destruct (vals_eqb new_key k').
      * destruct (lm_insert cols m r new_key) as [m1 o] eqn:E.
        destruct (Hins m1 o eq_refl) as [I1 [S1 [RD RR]]].
        destruct o as [|e]; cbn [fst].
        -- destruct (RD eq_refl) as [Hh R1]. rewrite Hh. split; [exact I1|split; [exact S1|]].
           intros r' k'. rewrite R1. destruct (Z.eqb r r'); [|reflexivity]. cbn. now destruct (vals_eqb new_key k').
        -- destruct RR as [Hh R1]; [discriminate|]. rewrite Hh.
           destruct (lm_remove cols m1 r old) as [m2 o2] eqn:E2. cbn [fst].
           destruct (lm_remove_spec cols m1 r old m2 o2 I1 E2) as [I2 [S2 R2]].
           split; [exact I2|split; [eapply bsoc_trans; eauto|]].
           intros r' k'. rewrite R2, R1. destruct (Z.eqb r r') eqn:Er; cbn; [|now rewrite andb_true_r].
           apply Z.eqb_eq in Er. subst r'. rewrite Hold. now destruct (vals_eqb old k').
  - (* ContainsLookupMapping *)
    rewrite (keys_of_contains cols cells Hu). cbn [fst].
    set (nk := new_keys cols cells). set (ok := mapped_keys m r).
    destruct (remove_each_spec cols (diff_keys ok nk) m r I) as [I1 [S1 R1]].
    destruct (insert_each_spec cols (diff_keys nk ok) (remove_each cols m r (diff_keys ok nk)) r I1 Hk)
      as [I2 [S2 R2]].
    { apply forallb_filter. apply contains_keys_hashable. exact Hu. }
    split; [exact I2|split; [eapply bsoc_trans; eauto|]].
    intros r' k'. rewrite R2, R1, !memb_diff.
    destruct (Z.eqb r r') eqn:Er; cbn [andb negb]; [|now rewrite andb_true_r, orb_false_r].
    apply Z.eqb_eq in Er. subst r'. change (mrel m r k') with (memb vals_eqb k' ok).
    now destruct (memb vals_eqb k' ok), (memb vals_eqb k' nk).
Qed.

Lemma remove_row_id_spec : forall cols m r, lm_inv cols m ->
  let m' := fst (remove_row_id cols m r) in
  lm_inv cols m' /\ bsoc m m' /\
  forall r' k', mrel m' r' k' = if Z.eqb r r' then false else mrel m r' k'.
Proof.
  intros cols m r I. unfold remove_row_id. cbn [fst].
  destruct (remove_each_spec cols (mapped_keys m r) m r I) as [I1 [S1 R1]].
  split; [exact I1|split; [exact S1|]].
  intros r' k'. rewrite R1. destruct (Z.eqb r r') eqn:Er; cbn; [|now rewrite andb_true_r].
  apply Z.eqb_eq in Er. subst r'. unfold mrel. now destruct (memb vals_eqb k' (mapped_keys m r)).
Qed.
