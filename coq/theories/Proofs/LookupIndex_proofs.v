(* Proofs about Model/Lookup.v (C13).  Part 3: the row <-> key index of a lookup map column. *)
From Coq Require Import ZArith List Bool Lia QArith.
Import ListNotations.
Require Import Grist.Model.Lookup Grist.Proofs.Lookup_proofs Grist.Proofs.LookupVal_proofs.
Open Scope Z_scope.

Definition lm_inv (cols : list colspec) (m : lmap) : Prop :=
  tw_inv Z.eqb vals_eqb always key_hashable KLookupSet (right_kind cols) m.

(* row r is stored under key k *)
Definition mrel (m : lmap) (r : Z) (k : key) : bool := memb vals_eqb k (mapped_keys m r).

Lemma mrel_fr : forall m r k, mrel m r k = fr Z.eqb vals_eqb m r k.
Proof. reflexivity. Qed.

Lemma lm_inv_empty : forall cols, lm_inv cols lm_empty.
Proof. intros. apply tw_inv_empty. Qed.

(* the backward view: the rows found under a key are the rows stored under it *)
Lemma key_rows_mrel : forall cols m r k, lm_inv cols m -> memb Z.eqb r (key_rows m k) = mrel m r k.
Proof. intros cols m r k [_ [_ C]]. symmetry. apply C. Qed.

Lemma mrel_hashable : forall cols m r k, lm_inv cols m -> mrel m r k = true -> key_hashable k = true.
Proof.
  intros cols m r k I H.
  destruct (fr_hash Z.eqb vals_eqb always key_hashable KLookupSet (right_kind cols) m r k I H); auto.
Qed.

Lemma mrel_congr : forall m r k k', vals_eqb k k' = true -> mrel m r k = mrel m r k'.
Proof. intros. unfold mrel. apply memb_congr; auto. apply key_equiv. Qed.

Lemma right_kind_cases : forall cols, (right_kind cols = KSingle /\ uses_contains cols = false) \/
                                      (right_kind cols = KSet /\ uses_contains cols = true).
Proof. intros. unfold right_kind. destruct (uses_contains cols); auto. Qed.

Definition bsoc (m m' : lmap) : Prop := stable_or_cleared vals_eqb (bwd m) (bwd m').

Lemma lm_insert_spec : forall cols m r k m' o, lm_inv cols m ->
  lm_insert cols m r k = (m', o) ->
  lm_inv cols m' /\ bsoc m m' /\
  (o = Done -> key_hashable k = true /\ forall r' k', mrel m' r' k' =
     if Z.eqb r r' then (vals_eqb k k' || (negb (is_single (right_kind cols)) && mrel m r k')) else mrel m r' k') /\
  (o <> Done -> key_hashable k = false /\ forall r' k', mrel m' r' k' = mrel m r' k').
Proof.
  intros cols m r k m' o I H. unfold lm_insert in H.
  destruct (tw_insert_spec Z.eqb vals_eqb always key_hashable never key_fmt_fails KLookupSet (right_kind cols)
              Z_equiv key_equiv always_congr key_hashable_congr m r k m' o I H) as [I' [_ [S [HD [HR HE]]]]].
  split; [exact I'|split; [exact S|split]].
  - intros Ho. destruct (HD Ho) as [_ [Hk HF]]. split; [exact Hk|].
    intros r' k'. rewrite mrel_fr, HF. unfold ins_rel. cbn [is_single andb negb]. now rewrite andb_true_r.
  - intros Ho. split; [|intros r' k'; rewrite !mrel_fr; apply HR; exact Ho].
    destruct o as [|e]; [congruence|]. destruct (HE e eq_refl) as [X|[X|[X|X]]]; try discriminate; auto.
    destruct (right_kind_cases cols) as [[E _]|[E _]]; rewrite E in X; discriminate.
Qed.

Lemma lm_remove_spec : forall cols m r k m' o, lm_inv cols m ->
  lm_remove cols m r k = (m', o) ->
  lm_inv cols m' /\ bsoc m m' /\
  forall r' k', mrel m' r' k' = mrel m r' k' && negb (Z.eqb r r' && vals_eqb k k').
Proof.
  intros cols m r k m' o I H. unfold lm_remove in H.
  destruct (tw_remove_spec Z.eqb vals_eqb always key_hashable KLookupSet (right_kind cols)
              Z_equiv key_equiv always_congr key_hashable_congr m r k m' o I H) as [I' [_ [S [HD HR]]]].
  split; [exact I'|split; [exact S|]].
  intros r' k'. rewrite !mrel_fr. destruct o as [|e].
  - apply HD. reflexivity.
  - rewrite HR by discriminate. rewrite <- !mrel_fr.
    destruct (Z.eqb r r') eqn:Er; cbn; [|now rewrite andb_true_r].
    destruct (vals_eqb k k') eqn:Ek; cbn; [|now rewrite andb_true_r].
    rewrite andb_false_r. apply Z.eqb_eq in Er. subst r'.
    (* a failing remove can only concern a pair that is not stored *)
    destruct (mrel m r k') eqn:Hm; [|reflexivity]. exfalso.
    rewrite <- (mrel_congr m r k k' Ek) in Hm.
    unfold tw_remove, rm_fwd, rm_bwd in H.
    destruct (remove_item Z.eqb vals_eqb always key_hashable (right_kind cols) (fwd m) r k) as [f1|] eqn:E1.
    + cbv beta iota zeta delta [negb] in H.
      destruct (remove_item vals_eqb Z.eqb key_hashable always KLookupSet (bwd m) k r) as [b1|] eqn:E2;
        [cbv beta iota zeta in H; inversion H|].
      apply remove_item_raise in E2. pose proof (mrel_hashable cols m r k I Hm) as Hh.
      destruct E2 as [E2|[_ E2]]; [congruence|discriminate].
    + apply remove_item_raise in E1. pose proof (mrel_hashable cols m r k I Hm) as Hh.
      destruct E1 as [E1|[_ E1]]; [discriminate|congruence].
Qed.
