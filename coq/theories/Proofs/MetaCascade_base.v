(* K6 proofs, part 1: list facts, the Prop form of the invariant and its equivalence with the boolean. *)
From Coq Require Import ZArith List Bool Lia.
Import ListNotations.
Require Import Grist.Model.MetaCascade.
Open Scope Z_scope.

(* ---------------------------------------------------------------------------------------------- *)
(* membership, lists *)

Lemma mem_In : forall x l, mem x l = true <-> In x l.
Proof.
  intros x l. unfold mem. rewrite existsb_exists. split.
  - intros [y [Hy He]]. apply Z.eqb_eq in He. subst. exact Hy.
  - intros H. exists x. split; [exact H | apply Z.eqb_refl].
Qed.

Lemma mem_false : forall x l, mem x l = false <-> ~ In x l.
Proof.
  intros x l. rewrite <- mem_In. destruct (mem x l); split; intro H; try congruence;
    try (exfalso; apply H; reflexivity).
Qed.

Lemma negb_mem_true : forall x l, negb (mem x l) = true <-> ~ In x l.
Proof. intros. rewrite negb_true_iff. apply mem_false. Qed.

Lemma nodupb_NoDup : forall l, nodupb l = true <-> NoDup l.
Proof.
  induction l as [|x t IH]; simpl.
  - split; intros; [constructor | reflexivity].
  - rewrite andb_true_iff, negb_mem_true, IH. split.
    + intros [H1 H2]. constructor; assumption.
    + intros H. inversion H; subst. split; assumption.
Qed.

Lemma posb_Forall : forall l, posb l = true <-> Forall (fun x => 0 < x) l.
Proof.
  intros l. unfold posb. rewrite forallb_forall, Forall_forall. split; intros H x Hx.
  - apply Z.ltb_lt. apply H. exact Hx.
  - apply Z.ltb_lt. apply H. exact Hx.
Qed.

Lemma all_in_incl : forall a b, all_in a b = true <-> incl a b.
Proof.
  intros a b. unfold all_in. rewrite forallb_forall. unfold incl. split; intros H x Hx.
  - apply mem_In. apply H. exact Hx.
  - apply mem_In. apply H. exact Hx.
Qed.

Definition Optref (ids : list Z) (x : Z) : Prop := x = 0 \/ In x ids.

Lemma optref_iff : forall ids x, optref ids x = true <-> Optref ids x.
Proof.
  intros. unfold optref, Optref. rewrite orb_true_iff, Z.eqb_eq, mem_In. tauto.
Qed.

Lemma Optref_mono : forall a b x, incl a b -> Optref a x -> Optref b x.
Proof. intros a b x Hi [H|H]; [left; exact H | right; apply Hi; exact H]. Qed.

Lemma fold_max_ge : forall l x, In x l -> x <= fold_right Z.max 0 l.
Proof.
  induction l as [|y t IH]; simpl; intros x Hx; [contradiction|].
  destruct Hx as [Hx|Hx]; [subst; lia | specialize (IH x Hx); lia].
Qed.

Lemma fold_max_nonneg : forall l, 0 <= fold_right Z.max 0 l.
Proof. induction l; simpl; lia. Qed.

Lemma next_id_gt : forall l x, In x l -> x < next_id l.
Proof. intros l x Hx. unfold next_id. pose proof (fold_max_ge l x Hx). lia. Qed.

Lemma next_id_fresh : forall l, ~ In (next_id l) l.
Proof. intros l H. apply next_id_gt in H. lia. Qed.

Lemma next_id_pos : forall l, 0 < next_id l.
Proof. intros l. unfold next_id. pose proof (fold_max_nonneg l). lia. Qed.

Lemma zseq_In : forall n a x, In x (zseq a n) <-> a <= x < a + Z.of_nat n.
Proof.
  induction n as [|n IH]; intros a x; simpl zseq.
  - simpl. lia.
  - simpl In. rewrite IH. lia.
Qed.

Lemma zseq_NoDup : forall n a, NoDup (zseq a n).
Proof.
  induction n as [|n IH]; intros a; simpl; constructor.
  - rewrite zseq_In. lia.
  - apply IH.
Qed.

Lemma zseq_length : forall n a, length (zseq a n) = n.
Proof. induction n; intros; simpl; [reflexivity | rewrite IHn; reflexivity]. Qed.

Lemma NoDup_app_intro : forall (a b : list Z), NoDup a -> NoDup b -> (forall x, In x a -> ~ In x b) -> NoDup (a ++ b).
Proof.
  induction a as [|x t IH]; intros b Ha Hb Hd; simpl; [exact Hb|].
  inversion Ha; subst. constructor.
  - rewrite in_app_iff. intros [H|H]; [contradiction | apply (Hd x); [left; reflexivity | exact H]].
  - apply IH; try assumption. intros y Hy. apply Hd. right. exact Hy.
Qed.

Lemma NoDup_filter_map : forall {A} (f : A -> Z) (p : A -> bool) (l : list A),
  NoDup (map f l) -> NoDup (map f (filter p l)).
Proof.
  intros A f p. induction l as [|x t IH]; simpl; intros H; [constructor|].
  inversion H; subst. destruct (p x); simpl.
  - constructor; [|apply IH; assumption].
    intros Hin. apply H2. rewrite in_map_iff in *. destruct Hin as [y [Hy1 Hy2]].
    exists y. split; [exact Hy1|]. apply filter_In in Hy2. tauto.
  - apply IH; assumption.
Qed.

Lemma Forall_filter_map : forall {A} (P : Z -> Prop) (f : A -> Z) (p : A -> bool) (l : list A),
  Forall P (map f l) -> Forall P (map f (filter p l)).
Proof.
  intros A P f p l. rewrite !Forall_forall. intros H x Hx. apply H.
  rewrite in_map_iff in *. destruct Hx as [y [Hy1 Hy2]]. exists y. split; [exact Hy1|].
  apply filter_In in Hy2. tauto.
Qed.

Lemma map_map_id : forall {A} (f : A -> Z) (g : A -> A) (l : list A),
  (forall x, f (g x) = f x) -> map f (map g l) = map f l.
Proof. intros. rewrite map_map. apply map_ext. assumption. Qed.

Lemma isnil_true : forall {A} (l : list A), isnil l = true -> l = [].
Proof. intros A [|x t]; simpl; [reflexivity | discriminate]. Qed.

Lemma clr_cases : forall ids x, (In x ids /\ clr ids x = 0) \/ (~ In x ids /\ clr ids x = x).
Proof.
  intros. unfold clr. destruct (mem x ids) eqn:E.
  - left. split; [apply mem_In; exact E | reflexivity].
  - right. split; [apply mem_false; exact E | reflexivity].
Qed.

Lemma clrl_In : forall ids l x, In x (clrl ids l) <-> In x l /\ ~ In x ids.
Proof. intros. unfold clrl. rewrite filter_In, negb_mem_true. tauto. Qed.
