(* Bridge between the code GENERATED from predicate_formula.py / acl.py / dropdown_condition.py /
   trigger_expression.py (GristGen.Predicate_gen, regenerated on every run by harness/pf2v.py) and the hand-written
   models Model/Predicate.v (convert) and Model/PredicateRename.v (visit).  A semantic edit of a translated method
   makes one of these lemmas fail. *)
From Coq Require Import ZArith List Bool Lia String.
Import ListNotations.
Require Import Grist.Model.Predicate Grist.Model.PredicateRename Grist.Model.PredVisit.
Require Import Grist.Proofs.Predicate_proofs Grist.Proofs.PredicateRename_proofs.
Require Import GristGen.Predicate_gen.
Open Scope Z_scope.
Open Scope list_scope.

(* NamedEntity as the code builds it, from the model's entity *)
Definition ent_type_name (t : ent_type) : str :=
  match t with
  | RecCol => lit "recCol" | UserAttr => lit "userAttr" | UserAttrCol => lit "userAttrCol" | ChoiceAttr => lit "choiceAttr"
  end.
Definition gent_of (e : entity) : gent :=
  (ent_type_name (e_type e), e_pos e, e_name e, option_map (fun a => PLeaf (CStr a)) (e_extra e)).

(* the model side, for the plain converter (k = None) and for a collector *)
Definition model_visit (k : option collector) (e : expr) : cres (tree * list entity) :=
  match k with
  | Some c => visit c e
  | None => map_cres (fun t => (t, [])) (convert e)
  end.

Definition lift_visit (st : list gent) (r : cres (tree * list entity)) : gres (pyval * list gent) :=
  match r with
  | Ok (t, ents) => GOk (to_py t, st ++ map gent_of ents)
  | Err x => GFail (GErr x)
  end.

Definition lift_list (st : list gent) (r : cres (list (tree * list entity))) : gres (list pyval * list gent) :=
  match r with
  | Ok rs => GOk (map (fun r => to_py (fst r)) rs, st ++ map gent_of (List.concat (map snd rs)))
  | Err x => GFail (GErr x)
  end.

Lemma mapMM_bridge (f : expr -> M pyval) (g : expr -> cres (tree * list entity)) l :
  Forall (fun x => forall st, f x st = lift_visit st (g x)) l ->
  forall st, mapMM f l st = lift_list st (mapMc g l).
Proof.
  induction 1 as [|x t Hx _ IH]; intros st.
  - cbn. rewrite app_nil_r. reflexivity.
  - cbn [mapMM]. unfold bindM at 1. rewrite Hx, mapMc_cons. destruct (g x) as [[tx ex]|err]; cbn [lift_visit bindc]; [|reflexivity].
    unfold bindM at 1. rewrite IH. destruct (mapMc g t) as [rs|err]; cbn; [|reflexivity].
    unfold retM. rewrite map_app, <- app_assoc. reflexivity.
Qed.

(* ------------------------------------------------------------------------------------------- *)
(* model_visit satisfies one set of recursive equations for the converter and the collectors *)
Definition classify_opt (k : option collector) (parent : tree) (attr : str) (apos : Z) : list entity :=
  match k with Some c => classify c parent attr apos | None => [] end.

Definition pair_nil (t : tree) : tree * list entity := (t, []).

Lemma mapMc_map_cres {A B C} (f : A -> cres B) (h : B -> C) l :
  mapMc (fun x => map_cres h (f x)) l = map_cres (map h) (mapMc f l).
Proof.
  induction l as [|x t IH]; [reflexivity|]. rewrite !mapMc_cons, IH.
  destruct (f x); cbn; [|reflexivity]. destruct (mapMc f t); reflexivity.
Qed.

Lemma concat_snd_pair_nil ts : List.concat (map snd (map pair_nil ts)) = [].
Proof. induction ts; cbn; auto. Qed.
Lemma map_fst_pair_nil ts : map fst (map pair_nil ts) = ts.
Proof. induction ts; cbn; congruence. Qed.

Lemma model_visit_None : model_visit None = fun e => map_cres pair_nil (convert e).
Proof. reflexivity. Qed.

Lemma mv_boolop k p op vs :
  model_visit k (EBoolOp p op vs) =
  bindc (mapMc (model_visit k) vs) (fun rs => Ok (TBoolOp op (map fst rs), List.concat (map snd rs))).
Proof.
  destruct k; [reflexivity|]. rewrite model_visit_None. cbn [convert].
  rewrite (mapMc_map_cres convert pair_nil vs). destruct (mapMc convert vs); cbn; [|reflexivity].
  rewrite map_fst_pair_nil, concat_snd_pair_nil. reflexivity.
Qed.

Lemma mv_list k p es :
  model_visit k (EList p es) =
  bindc (mapMc (model_visit k) es) (fun rs => Ok (TListN (map fst rs), List.concat (map snd rs))).
Proof.
  destruct k; [reflexivity|]. rewrite model_visit_None. cbn [convert].
  rewrite (mapMc_map_cres convert pair_nil es). destruct (mapMc convert es); cbn; [|reflexivity].
  rewrite map_fst_pair_nil, concat_snd_pair_nil. reflexivity.
Qed.

Lemma mv_tuple k p es : model_visit k (ETuple p es) = model_visit k (EList p es).
Proof. destruct k; reflexivity. Qed.

Lemma mv_binop k p op l r :
  model_visit k (EBinOp p op l r) =
  match op with
  | BOther _ => Err (ErrUnsupported p)
  | BArith a => bindc (model_visit k l) (fun rl => bindc (model_visit k r) (fun rr =>
                  Ok (TBin a (fst rl) (fst rr), snd rl ++ snd rr)))
  end.
Proof.
  destruct k; [reflexivity|]. destruct op; [|reflexivity]. cbn [model_visit convert].
  destruct (convert l); cbn; [|reflexivity]. destruct (convert r); reflexivity.
Qed.

Lemma mv_unop k p op x :
  model_visit k (EUnaryOp p op x) =
  match op with
  | UOther _ => Err (ErrUnsupported p)
  | UNot => bindc (model_visit k x) (fun r => Ok (TNot (fst r), snd r))
  end.
Proof.
  destruct k; [reflexivity|]. destruct op; [|reflexivity]. cbn [model_visit convert]. destruct (convert x); reflexivity.
Qed.

Lemma mv_compare k p l ops cs :
  model_visit k (ECompare p l ops cs) =
  match ops, cs with
  | [op], [c] => bindc (model_visit k l) (fun rl => bindc (model_visit k c) (fun rc =>
                   Ok (TCmp op (fst rl) (fst rc), snd rl ++ snd rc)))
  | _, _ => Err ErrChained
  end.
Proof.
  destruct k; [reflexivity|]. cbn [model_visit convert].
  destruct ops as [|op [|? ?]]; try reflexivity. destruct cs as [|c [|? ?]]; try reflexivity.
  destruct (convert l); cbn; [|reflexivity]. destruct (convert c); reflexivity.
Qed.

Lemma mv_name k p id :
  model_visit k (EName p id) = match named_constant id with Some c => Ok (TConst c, []) | None => Ok (TName id, []) end.
Proof. destruct k; cbn; destruct (named_constant id); reflexivity. Qed.

Lemma mv_const k p c :
  model_visit k (EConstant p c) = if negb (const_plain c) then Err (ErrUnsupported p) else Ok (TConst c, []).
Proof. destruct k; cbn; destruct (negb (const_plain c)); reflexivity. Qed.

Lemma mv_attr k p v a ap :
  model_visit k (EAttribute p v a ap) =
  bindc (model_visit k v) (fun rv => Ok (TAttr (fst rv) a, snd rv ++ classify_opt k (fst rv) a ap)).
Proof. destruct k; [reflexivity|]. cbn [model_visit convert]. destruct (convert v); reflexivity. Qed.

Definition mv_kw (k : option collector) (kw : option str * expr) : cres ((option str * tree) * list entity) :=
  match kw with (n, v) => bindc (model_visit k v) (fun rv => Ok ((n, fst rv), snd rv)) end.

Lemma mv_call k p f args kws :
  model_visit k (ECall p f args kws) =
  if negb (forallb kw_named kws) then Err (ErrUnsupported p) else
  bindc (mapMc (model_visit k) args) (fun ras =>
  bindc (mapMc (mv_kw k) kws) (fun rks =>
  bindc (model_visit k f) (fun rf =>
    Ok (TCall (fst rf) (map fst ras) (map fst rks),
        List.concat (map snd ras) ++ List.concat (map snd rks) ++ snd rf)))).
Proof.
  destruct k; [cbn [model_visit]; rewrite visit_call; reflexivity|].
  rewrite model_visit_None. rewrite convert_call. destruct (negb (forallb kw_named kws)); [reflexivity|].
  rewrite (mapMc_map_cres convert pair_nil args).
  destruct (mapMc convert args) as [targs|]; cbn [map_cres bindc]; [|reflexivity].
  assert (Hk : mapMc (mv_kw None) kws = map_cres (map (fun kt => (kt, @nil entity))) (mapMc conv_kw kws)).
  { induction kws as [|[n v] t IH]; [reflexivity|]. rewrite !mapMc_cons, IH. cbn [mv_kw conv_kw model_visit].
    destruct (convert v); cbn; [|reflexivity]. destruct (mapMc conv_kw t); reflexivity. }
  rewrite Hk. destruct (mapMc conv_kw kws) as [tk|]; cbn [map_cres bindc]; [|reflexivity].
  destruct (convert f); cbn; [|reflexivity].
  rewrite map_fst_pair_nil, concat_snd_pair_nil.
  assert (H1 : map fst (map (fun kt : option str * tree => (kt, @nil entity)) tk) = tk) by (rewrite map_map; cbn; apply map_id).
  assert (H2 : List.concat (map snd (map (fun kt : option str * tree => (kt, @nil entity)) tk)) = []) by (clear; induction tk as [|x t IH]; [reflexivity | cbn; exact IH]).
  rewrite H1, H2. reflexivity.
Qed.

Lemma mv_unsupported k p c : model_visit k (EUnsupported p c) = Err (ErrUnsupported p).
Proof. destruct k; reflexivity. Qed.

(* ------------------------------------------------------------------------------------------- *)
Ltac mon := unfold bindM, retM, failM, appendEntM.

Lemma lift_visit_ok st t ents : lift_visit st (Ok (t, ents)) = GOk (to_py t, st ++ map gent_of ents).
Proof. reflexivity. Qed.

Lemma Forall_and_forallb {A} (P : A -> Prop) (f : A -> bool) l :
  Forall (fun x => f x = true -> P x) l -> forallb f l = true -> Forall P l.
Proof.
  induction 1 as [|x t Hx _ IH]; intros Hf; [constructor|]. cbn in Hf. apply andb_true_iff in Hf.
  constructor; [apply Hx | apply IH]; tauto.
Qed.

Lemma to_py_is_name tv (n : string) :
  pyval_eqb (to_py tv) (PList [PLeaf (CStr (lit "Name")); PLeaf (CStr (lit n))]) = is_name tv n.
Proof.
  destruct tv; try reflexivity.
  - destruct op; reflexivity.
  - destruct op; reflexivity.
  - destruct op; reflexivity.
  - cbn. rewrite andb_true_r. reflexivity.
Qed.

Lemma mapMM_bridge_gen {A B C} (f : A -> M B) (g : A -> cres (C * list entity)) (h : C -> B) l :
  Forall (fun x => forall st, f x st = match g x with
                                       | Ok (c, ents) => GOk (h c, st ++ map gent_of ents)
                                       | Err e => GFail (GErr e)
                                       end) l ->
  forall st, mapMM f l st = match mapMc g l with
                            | Ok rs => GOk (map (fun r => h (fst r)) rs, st ++ map gent_of (List.concat (map snd rs)))
                            | Err e => GFail (GErr e)
                            end.
Proof.
  induction 1 as [|x t Hx _ IH]; intros st.
  - cbn. rewrite app_nil_r. reflexivity.
  - cbn [mapMM]. unfold bindM at 1. rewrite Hx, mapMc_cons. destruct (g x) as [[tx ex]|err]; cbn [bindc]; [|reflexivity].
    unfold bindM at 1. rewrite IH. destruct (mapMc g t) as [rs|err]; cbn; [|reflexivity].
    unfold retM. rewrite map_app, <- app_assoc. reflexivity.
Qed.

Lemma kw_splat_test (kws : list (option str * expr)) :
  existsb (fun v => ostr_is_none (fst v)) kws = negb (forallb kw_named kws).
Proof.
  induction kws as [|[n v] t IH]; [reflexivity|]. cbn [existsb forallb]. rewrite IH. unfold kw_named. cbn [fst].
  destruct n; cbn; [reflexivity|]. reflexivity.
Qed.

Lemma list_ih k (vs : list expr) :
  Forall (fun e => wf_expr e = true -> forall st, gen_visit k e st = lift_visit st (model_visit k e)) vs ->
  forallb wf_expr vs = true ->
  Forall (fun x => forall st, (fun v => gen_visit k v) x st = lift_visit st (model_visit k x)) vs.
Proof. intros H Hw. exact (Forall_and_forallb _ _ _ H Hw). Qed.

Lemma map_to_py_fst (rs : list (tree * list entity)) : map (fun r => to_py (fst r)) rs = map to_py (map fst rs).
Proof. rewrite map_map. reflexivity. Qed.

Theorem gen_visit_bridge k : forall e, wf_expr e = true -> forall st, gen_visit k e st = lift_visit st (model_visit k e).
Proof.
  induction e using expr_ind2; intros Hwf st.
  - (* BoolOp *)
    cbn [gen_visit]. unfold TC_visit_BoolOp. rewrite mv_boolop. cbn [wf_expr] in Hwf. mon.
    rewrite (mapMM_bridge _ _ vs (list_ih k vs H Hwf) st).
    destruct (mapMc (model_visit k) vs) as [rs|err]; cbn; [|reflexivity]. rewrite map_to_py_fst. reflexivity.
  - (* BinOp *)
    cbn [gen_visit]. unfold TC_visit_BinOp. rewrite mv_binop. cbn [wf_expr] in Hwf.
    apply andb_true_iff in Hwf. destruct Hwf as [Hwf H2]. apply andb_true_iff in Hwf. destruct Hwf as [H0 H1].
    destruct op as [a|c].
    + assert (Ha : existsb (str_eqb (binop_cls (BArith a))) [lit "Add"; lit "Sub"; lit "Mult"; lit "Div"; lit "Mod"] = true)
        by (destruct a; reflexivity).
      rewrite Ha. cbn [negb]. mon. rewrite (IHe1 H1 st).
      destruct (model_visit k e1) as [[t1 n1]|err]; cbn [lift_visit bindc]; [|reflexivity].
      rewrite (IHe2 H2). destruct (model_visit k e2) as [[t2 n2]|err]; cbn [lift_visit bindc]; [|reflexivity].
      cbn. rewrite map_app, app_assoc. destruct a; reflexivity.
    + unfold handled_arith in H0. cbn [binop_cls]. apply negb_true_iff in H0. rewrite H0. cbn [negb].
      unfold TC_generic_visit. cbn. rewrite Z.add_simpl_r. destruct p; reflexivity.
  - (* UnaryOp *)
    cbn [gen_visit]. unfold TC_visit_UnaryOp. rewrite mv_unop. cbn [wf_expr] in Hwf.
    apply andb_true_iff in Hwf. destruct Hwf as [H0 H1]. destruct op as [|c].
    + cbn [unop_cls existsb]. rewrite str_eqb_refl. cbn [orb negb]. mon. rewrite (IHe H1 st).
      destruct (model_visit k e) as [[t1 n1]|err]; cbn [lift_visit bindc]; reflexivity.
    + cbn [unop_cls existsb]. apply negb_true_iff in H0. rewrite H0. cbn [orb negb].
      unfold TC_generic_visit. cbn. rewrite Z.add_simpl_r. destruct p; reflexivity.
  - (* Compare *)
    cbn [gen_visit]. unfold TC_visit_Compare. rewrite mv_compare. cbn [wf_expr] in Hwf.
    apply andb_true_iff in Hwf. destruct Hwf as [H1 H2].
    destruct ops as [|op [|op2 ops]]; destruct cs as [|c0 [|c1 cs]];
      try (match goal with |- (if ?c then _ else _) _ = _ =>
             let Hc := fresh in
             assert (Hc : c = true)
               by (apply orb_true_iff; cbn [List.length]; rewrite !negb_true_iff, !Z.eqb_neq; lia);
             rewrite Hc; reflexivity end).
    cbn [List.length Z.of_nat Pos.of_succ_nat Z.eqb Pos.eqb negb orb]. inversion H as [|? ? Hc _]; subst.
    cbn in H2. rewrite andb_true_r in H2. change (idxM [op] 0%nat) with (@retM cmpop op). mon. cbv beta.
      rewrite (IHe H1 st). destruct (model_visit k e) as [[t1 n1]|err]; cbn [lift_visit bindc]; [|reflexivity].
      rewrite (Hc H2). destruct (model_visit k c0) as [[t2 n2]|err]; cbn [lift_visit bindc]; [|reflexivity].
      cbn. rewrite map_app, app_assoc. destruct op; reflexivity.
  - (* Name *)
    cbn [gen_visit]. unfold TC_visit_Name. rewrite mv_name.
    unfold dict_mem, dict_getM, named_constants, named_constant. cbn [assoc_str].
    destruct (str_eqb id (lit "True")); [mon; cbn; rewrite app_nil_r; reflexivity|].
    destruct (str_eqb id (lit "False")); [mon; cbn; rewrite app_nil_r; reflexivity|].
    destruct (str_eqb id (lit "None")); mon; cbn; rewrite app_nil_r; reflexivity.
  - (* Constant *)
    cbn [gen_visit]. unfold TC_visit_Constant. rewrite mv_const.
    unfold TC_generic_visit.
    destruct c; mon; cbn; rewrite ?Z.add_simpl_r, ?app_nil_r; try (destruct p; reflexivity).
    destruct (float_finite bits); cbn; rewrite ?Z.add_simpl_r, ?app_nil_r; destruct p; reflexivity.
  - (* Attribute *)
    cbn [gen_visit]. rewrite mv_attr.
    destruct k as [[| |]|]; cbn [classify_opt].
    + (* ACL *) unfold ACL_visit_Attribute. mon. rewrite (IHe Hwf st).
      destruct (model_visit (Some ACL) e) as [[tv ev]|err]; cbn [lift_visit bindc fst snd]; [|reflexivity].
      rewrite !to_py_is_name. unfold classify.
      destruct (is_name tv "rec" || is_name tv "newRec"); [cbn; rewrite map_app, <- app_assoc; reflexivity|].
      destruct (is_name tv "user"); [cbn; rewrite map_app, <- app_assoc; reflexivity|].
      destruct tv as [op vs|op t1 t2|x|op t1 t2|es|c|id|u a'|f args kws|x c];
        try (cbn; rewrite ?app_nil_r; reflexivity); try (destruct op; cbn; rewrite ?app_nil_r; reflexivity).
      pose proof (to_py_is_name u "user") as Hu. cbn [to_py]. remember (to_py u) as ptv eqn:Ep. destruct (is_name u "user"); cbn in Hu; cbn; rewrite Hu;
        cbn; rewrite ?app_nil_r, ?map_app, <- ?app_assoc; reflexivity.
    + (* DC *) unfold DC_visit_Attribute. mon. rewrite (IHe Hwf st).
      destruct (model_visit (Some DC) e) as [[tv ev]|err]; cbn [lift_visit bindc fst snd]; [|reflexivity].
      rewrite !to_py_is_name. unfold classify.
      destruct (is_name tv "choice"); [cbn; rewrite map_app, <- app_assoc; reflexivity|].
      destruct (is_name tv "rec"); cbn; rewrite ?app_nil_r, ?map_app, <- ?app_assoc; reflexivity.
    + (* Trigger *) unfold Trigger_visit_Attribute. mon. rewrite (IHe Hwf st).
      destruct (model_visit (Some Trigger) e) as [[tv ev]|err]; cbn [lift_visit bindc fst snd]; [|reflexivity].
      rewrite !to_py_is_name. unfold classify.
      destruct (is_name tv "rec" || is_name tv "oldRec"); cbn; rewrite ?app_nil_r, ?map_app, <- ?app_assoc; reflexivity.
    + (* TreeConverter *) unfold TC_visit_Attribute. mon. rewrite (IHe Hwf st).
      destruct (model_visit None e) as [[tv ev]|err]; cbn [lift_visit bindc fst snd]; [|reflexivity].
      cbn. rewrite app_nil_r. reflexivity.
  - (* List *)
    cbn [gen_visit]. unfold TC_visit_List. rewrite mv_list. cbn [wf_expr] in Hwf. mon.
    rewrite (mapMM_bridge _ _ es (list_ih k es H Hwf) st).
    destruct (mapMc (model_visit k) es) as [rs|err]; cbn; [|reflexivity]. rewrite map_to_py_fst. reflexivity.
  - (* Tuple *)
    cbn [gen_visit]. unfold TC_visit_Tuple, TC_visit_List. rewrite mv_tuple, mv_list. cbn [wf_expr] in Hwf. mon.
    rewrite (mapMM_bridge _ _ es (list_ih k es H Hwf) st).
    destruct (mapMc (model_visit k) es) as [rs|err]; cbn; [|reflexivity]. rewrite map_to_py_fst. reflexivity.
  - (* Call *)
    cbn [gen_visit]. unfold TC_visit_Call. rewrite mv_call, kw_splat_test. cbn [wf_expr] in Hwf.
    apply andb_true_iff in Hwf. destruct Hwf as [Hwf Hwk]. apply andb_true_iff in Hwf. destruct Hwf as [Hwf Hwa].
    destruct (negb (forallb kw_named kws)).
    + unfold TC_generic_visit. cbn. rewrite Z.add_simpl_r. destruct p; reflexivity.
    + unfold bindM at 1. rewrite (mapMM_bridge _ _ args (list_ih k args H Hwa) st).
      destruct (mapMc (model_visit k) args) as [ras|err]; cbn [lift_list bindc]; [|reflexivity].
      set (kwpy := fun nt : option str * tree => PList [inj_ostr (fst nt); to_py (snd nt)]).
      assert (HK : forall st',
        mapMM (fun v_v : option str * expr =>
                 bindM (bindM (gen_visit k (snd v_v)) (fun x_1 => retM [inj_ostr (fst v_v); x_1]))
                       (fun x_2 => retM (PList x_2))) kws st' =
        match mapMc (mv_kw k) kws with
        | Ok rs => GOk (map (fun r => kwpy (fst r)) rs, st' ++ map gent_of (List.concat (map snd rs)))
        | Err e => GFail (GErr e)
        end).
      { apply (mapMM_bridge_gen _ (mv_kw k) kwpy). clear - H0 Hwk.
        induction H0 as [|[n v] t Hv _ IH]; constructor.
        - intros st'. cbn [forallb snd] in Hwk. apply andb_true_iff in Hwk. destruct Hwk as [Hw1 _].
          cbn [snd fst mv_kw] in *. mon. rewrite (Hv Hw1 st').
          destruct (model_visit k v) as [[tv ev]|err]; reflexivity.
        - apply IH. cbn [forallb] in Hwk. apply andb_true_iff in Hwk. tauto. }
      destruct kws as [|kw0 kws'].
      * cbn [nonempty mapMc bindc]. mon. rewrite (IHe Hwf).
        destruct (model_visit k e) as [[tf ef]|err]; cbn [lift_visit]; [|reflexivity].
        cbn. rewrite map_to_py_fst, !map_app, <- !app_assoc, !app_nil_r. reflexivity.
      * cbn [nonempty]. mon. rewrite HK.
        destruct (mapMc (mv_kw k) (kw0 :: kws')) as [rks|err] eqn:Ek; cbn [bindc lift_visit]; [|reflexivity].
        destruct rks as [|rk rks']; [apply mapMc_length in Ek; discriminate|].
        rewrite (IHe Hwf). destruct (model_visit k e) as [[tf ef]|err]; cbn [lift_visit]; [|reflexivity].
        cbn. rewrite map_to_py_fst, !map_app, <- !app_assoc.
        destruct rk as [[n0 t0] e0]. cbn. repeat f_equal.
        -- rewrite !map_map. apply map_ext. intros [[n1 t1] e1]. reflexivity.
  - (* a class without a visit method *)
    cbn [gen_visit]. rewrite mv_unsupported. unfold TC_generic_visit. cbn. rewrite Z.add_simpl_r. destruct p; reflexivity.
Qed.

(* the generated converter / collectors started on an empty entity list *)
Corollary gen_convert_bridge e : wf_expr e = true -> gen_visit None e [] = lift_tree [] (convert e).
Proof.
  intros Hwf. rewrite (gen_visit_bridge None e Hwf []). cbn [model_visit]. destruct (convert e); reflexivity.
Qed.

Corollary gen_collect_bridge c e : wf_expr e = true -> gen_visit (Some c) e [] = lift_visit [] (visit c e).
Proof. intros Hwf. exact (gen_visit_bridge (Some c) e Hwf []). Qed.
