(* C20: the no-renumbering path, continued: the groups form a chain, the model returns the concatenated ranges,
   and the result satisfies Spec. *)
From Coq Require Import ZArith List Bool Lia Sorted Permutation.
Import ListNotations.
Require Import Grist.Lib.Fl64 Grist.Proofs.Fl64_proofs Grist.Proofs.Fl64_mono_proofs Grist.Model.Relabel
               Grist.Proofs.Sort_by_proofs Grist.Proofs.Relabel_ungroup_proofs Grist.Proofs.Relabel_check_proofs
               Grist.Proofs.Relabel_total_proofs Grist.Proofs.Relabel_plain_proofs.
Open Scope Z_scope.

(* ---- bisect_key_left *)
Lemma bkl_range l key : 0 <= bkl l key <= lenZ l.
Proof.
  unfold lenZ. induction l as [|x t IH]; cbn [bkl length]; [lia|]. destruct (flt x key); lia.
Qed.

Lemma bkl_mono l k1 k2 : (forall x, In x l -> flt x k1 = true -> flt x k2 = true) -> bkl l k1 <= bkl l k2.
Proof.
  induction l as [|x t IH]; intros H; cbn [bkl]; [lia|].
  destruct (flt x k1) eqn:E1.
  - rewrite (H x (or_introl eq_refl) E1). specialize (IH (fun y Hy => H y (or_intror Hy))). lia.
  - pose proof (bkl_range t k2). destruct (flt x k2); lia.
Qed.

Lemma bkl_prefix l key i : 0 <= i < bkl l key -> flt (nthZ l i FNaN) key = true.
Proof.
  unfold nthZ. revert i. induction l as [|x t IH]; intros i Hi; cbn [bkl] in Hi; [lia|].
  destruct (flt x key) eqn:E; [|lia]. destruct (Z.eq_dec i 0) as [->|Hne]; [exact E|].
  replace (Z.to_nat i) with (S (Z.to_nat (i - 1))) by lia. cbn [nth]. apply IH. lia.
Qed.

Lemma bkl_stop l key : bkl l key < lenZ l -> flt (nthZ l (bkl l key) FNaN) key = false.
Proof.
  unfold nthZ, lenZ. induction l as [|x t IH]; cbn [bkl length]; intros H; [lia|].
  destruct (flt x key) eqn:E; [|exact E]. pose proof (bkl_range t key).
  replace (Z.to_nat (1 + bkl t key)) with (S (Z.to_nat (bkl t key))) by lia. cbn [nth]. apply IH. lia.
Qed.

Lemma nth_repeat_d {A} (x d : A) n : forall j, (j < n)%nat -> nth j (repeat x n) d = x.
Proof. induction n as [|n IH]; intros [|j] H; cbn; try lia; auto. apply IH. lia. Qed.

Lemma sorted_app_last R : forall e v, StronglySorted Flt (R ++ [e]) -> In v R -> Flt v e.
Proof.
  induction R as [|x R IHR]; intros e v H Hin; [destruct Hin|].
  cbn [app] in H. inversion H as [|? ? H1 H2]; subst. destruct Hin as [<-|Hin]; [|apply IHR; assumption].
  rewrite Forall_forall in H2. apply H2. apply in_or_app. right. left. reflexivity.
Qed.

(* ---- group_counts on a weakly increasing list *)
Definition fst_lt (g g' : Z * Z) : Prop := fst g < fst g'.

Lemma group_counts_props l : StronglySorted Z.le l ->
  StronglySorted fst_lt (group_counts l) /\
  (forall g, In g (group_counts l) -> In (fst g) l /\ 1 <= snd g <= lenZ l) /\
  (forall x t, l = x :: t -> exists c r, group_counts l = (x, c) :: r).
Proof.
  unfold lenZ. induction 1 as [|x t Hs IH Hx].
  { cbn. split; [constructor|]. split; [intros g []|]. intros; discriminate. }
  destruct IH as (IH1 & IH2 & IH3). cbn [group_counts length].
  destruct (group_counts t) as [|[y c] r] eqn:E.
  - repeat split.
    + repeat constructor.
    + destruct H as [<-|[]]. left. reflexivity.
    + destruct H as [<-|[]]. cbn. lia.
    + destruct H as [<-|[]]. cbn. lia.
    + intros x0 t0 Heq. inversion Heq; subst. eauto.
  - assert (Hy : In y t /\ 1 <= c <= Z.of_nat (length t)) by (apply (IH2 (y, c)); left; reflexivity).
    destruct Hy as [Hyin Hc]. rewrite Forall_forall in Hx. pose proof (Hx y Hyin) as Hxy.
    inversion IH1 as [|? ? IHr IHy]; subst.
    destruct (Z.eqb_spec x y) as [->|Hne].
    + repeat split.
      * constructor; [exact IHr|]. exact IHy.
      * destruct H as [<-|H]; [left; reflexivity | right; apply (IH2 g); right; exact H].
      * destruct H as [<-|H]; [cbn; lia | apply (IH2 g); right; exact H].
      * destruct H as [<-|H]; [cbn; lia | destruct (IH2 g (or_intror H)) as [_ Hb]; lia].
      * intros x0 t0 Heq. inversion Heq; subst. eauto.
    + repeat split.
      * constructor; [exact IH1|]. constructor; [unfold fst_lt; cbn; lia|].
        rewrite Forall_forall in *. intros g Hg. specialize (IHy g Hg). unfold fst_lt in *. cbn in *. lia.
      * destruct H as [<-|H]; [left; reflexivity | right; apply (IH2 g); exact H].
      * destruct H as [<-|H]; [cbn; lia | apply (IH2 g); exact H].
      * destruct H as [<-|H]; [cbn; lia | destruct (IH2 g H) as [_ Hb]; lia].
      * intros x0 t0 Heq. inversion Heq; subst. eauto.
Qed.

Section Plain2.
Variables (orig keys : list fl).
Hypothesis HPre : Pre orig keys.
Hypothesis Hwf : Forall wf_fl orig.
Hypothesis Hsmall : lenZ keys + 1 < 2 ^ 53.
Hypothesis Hplain : plain_path orig keys = true.

Let n := lenZ orig.
Let SR := sorted_requests keys.
Let idxl := map (fun p => bkl orig (fst p)) SR.
Let G := ins_groups orig keys.

Lemma keys_nn : Forall (fun x => is_nan x = false) keys.
Proof. destruct HPre as (_ & _ & H). exact H. Qed.

Lemma idxl_sorted : StronglySorted Z.le idxl.
Proof.
  unfold idxl. pose proof (SR_sorted keys keys_nn) as H. fold SR in H.
  induction H as [|p t Hs IH Hp]; cbn [map]; constructor; [exact IH|].
  rewrite Forall_forall in *. intros z Hz. apply in_map_iff in Hz. destruct Hz as (q & <- & Hq).
  specialize (Hp q Hq). unfold LT in Hp. apply pair_lt_iff in Hp. destruct Hp as (N1 & N2 & Hp).
  apply bkl_mono. intros x _ Hx. apply flt_iff in Hx. apply flt_iff. intuition lia.
Qed.

Lemma idxl_len : length idxl = length keys.
Proof. unfold idxl. rewrite map_length. apply SR_len. Qed.

Lemma G_props :
  StronglySorted fst_lt G /\ forall g, In g G -> 0 <= fst g <= n /\ 1 <= snd g <= lenZ keys.
Proof.
  destruct (group_counts_props idxl idxl_sorted) as (H1 & H2 & _). fold G in H1, H2. split; [exact H1|].
  intros g Hg. destruct (H2 g Hg) as [Hin Hc]. split.
  - unfold idxl in Hin. apply in_map_iff in Hin. destruct Hin as (p & <- & _). apply bkl_range.
  - unfold lenZ in *. rewrite idxl_len in Hc. exact Hc.
Qed.

Lemma G_good g : In g G -> good_group orig g.
Proof.
  intros Hg. destruct G_props as [_ H]. destruct (H g Hg) as [Hi Hc].
  apply (plain_group_good orig keys HPre Hwf Hsmall g Hi Hc).
  unfold plain_path in Hplain. rewrite forallb_forall in Hplain. apply Hplain. exact Hg.
Qed.

Lemma G_chain : chain orig (FInf true) G.
Proof.
  destruct G_props as [Hs Hr]. pose proof G_good as Hgood.
  assert (Hgen : forall gs lo, StronglySorted fst_lt gs -> (forall g, In g gs -> In g G) ->
            (forall g, In g gs -> Fle lo (group_begin orig (fst g))) -> chain orig lo gs).
  { induction gs as [|g rest IH]; intros lo Hss Hsub Hlo; cbn [chain]; [exact I|].
    inversion Hss as [|? ? Hrest Hg]; subst.
    assert (HgG : In g G) by (apply Hsub; left; reflexivity).
    destruct (Hr g HgG) as [Hi Hc].
    split; [apply Hgood; exact HgG|]. split; [lia|]. split; [apply Hlo; left; reflexivity|].
    apply IH; [exact Hrest | intros; apply Hsub; right; assumption|].
    intros g' Hg'. rewrite Forall_forall in Hg. specialize (Hg g' Hg'). unfold fst_lt in Hg.
    destruct (Hr g' (Hsub g' (or_intror Hg'))) as [Hi' _].
    destruct (group_end_cases orig (fst g) (snd g)) as [[_ ->]|[Hge _]]; [|fold n in Hge; lia].
    unfold group_begin. replace (0 <? fst g') with true by (symmetry; apply Z.ltb_lt; lia).
    apply (orig_sorted_Z orig keys HPre Hwf); fold n; lia. }
  apply Hgen; [exact Hs | auto|].
  intros g Hg. pose proof (Hgood g Hg) as GG. pose proof (gg_begin_nonnan orig g GG) as Hnn.
  pose proof (gg_cond orig g GG) as Hcond.
  apply orb_false_iff in Hcond. destruct Hcond as [Hcond _]. apply orb_false_iff in Hcond. destruct Hcond as [Hb0 _].
  apply flt_false in Hb0; auto. cbn [ford fzero] in Hb0.
  unfold Fle. apply fle_iff. split; [reflexivity|]. split; [exact Hnn|].
  change (ford (FInf true)) with (- UINF). pose proof (UINF_pos orig) as HU. lia.
Qed.

Let L := plain_result orig keys.
Let rep (g : Z * Z) := repeat (fst g) (Z.to_nat (snd g)).

Lemma model_plain : prepare_inserts_model orig keys = Ok ([], ungroup keys L) /\ StronglySorted Flt L.
Proof.
  destruct (plain_fold orig G [] (FInf true)) as [H1 H2]; [intros x [] | constructor | exact G_chain |].
  cbn [app] in H1, H2. split; [|exact H2].
  unfold prepare_inserts_model. fold G. rewrite H1. reflexivity.
Qed.

Lemma parallel_blocks (R : Z * Z -> list fl) : forall gs j,
  (forall g, In g gs -> length (R g) = Z.to_nat (snd g)) ->
  (j < length (concat (map rep gs)))%nat ->
  exists g, In g gs /\ nth j (concat (map rep gs)) 0 = fst g /\ In (nth j (concat (map R gs)) FNaN) (R g).
Proof.
  induction gs as [|g rest IH]; intros j Hlen Hj; cbn [map concat] in *; [cbn in Hj; lia|].
  assert (Hl : length (rep g) = length (R g)) by (unfold rep; rewrite repeat_length, Hlen; [reflexivity | left; reflexivity]).
  destruct (Nat.lt_ge_cases j (length (rep g))) as [Hlt|Hge].
  - exists g. split; [left; reflexivity|]. rewrite !app_nth1 by lia. split.
    + unfold rep in *. apply nth_repeat_d. rewrite repeat_length in Hlt. exact Hlt.
    + apply nth_In. lia.
  - rewrite app_length in Hj. destruct (IH (j - length (rep g))%nat) as (g' & Hin & H1 & H2);
      [intros; apply Hlen; right; assumption | lia |].
    exists g'. split; [right; exact Hin|]. rewrite !app_nth2 by lia. rewrite <- Hl. split; assumption.
Qed.

Lemma blocks_length (R : Z * Z -> list fl) : forall gs,
  (forall g, In g gs -> length (R g) = Z.to_nat (snd g)) ->
  length (concat (map R gs)) = length (concat (map rep gs)).
Proof.
  induction gs as [|g rest IH]; intros Hlen; cbn [map concat]; [reflexivity|].
  rewrite !app_length, IH by (intros; apply Hlen; right; assumption).
  unfold rep. rewrite repeat_length, Hlen by (left; reflexivity). reflexivity.
Qed.

Lemma rep_flat : concat (map rep G) = idxl.
Proof. destruct (group_counts_flatten idxl) as [H _]. exact H. Qed.

Lemma G_len g : In g G -> length (group_range orig g) = Z.to_nat (snd g).
Proof. intros Hg. apply (gg_len orig g (G_good g Hg)). Qed.

Lemma L_length : length L = length keys.
Proof.
  unfold L, plain_result. fold G. rewrite (blocks_length (group_range orig) G G_len).
  rewrite rep_flat. apply idxl_len.
Qed.

Lemma SR_position k : (k < length keys)%nat ->
  exists j, (j < length keys)%nat /\ nth j SR (FNaN, 0) = (nth k keys FNaN, Z.of_nat k).
Proof.
  intros Hk. assert (Hin : In (nth k keys FNaN, Z.of_nat k) SR).
  { eapply Permutation_in; [apply SR_perm|]. rewrite <- (reqs_nth keys k Hk). apply nth_In.
    rewrite reqs_len. exact Hk. }
  destruct (In_nth _ _ (FNaN, 0) Hin) as (j & Hj & Heq). unfold SR in Hj. rewrite SR_len in Hj. eauto.
Qed.

Theorem total_plain :
  prepare_inserts_model orig keys = Ok ([], ungroup keys L) /\ Spec orig keys [] (ungroup keys L).
Proof.
  destruct model_plain as [Hm HLs]. split; [exact Hm|].
  destruct HPre as (Hsorted & Hnn_o & Hnn_k). pose proof L_length as HLl.
  constructor.
  - intros a Ha. cbn in Ha. lia.
  - intros i j Hij. cbn [apply_adj fold_left]. split; [apply Hsorted; exact Hij | auto].
  - apply ungroup_len. exact HLl.
  - rewrite Forall_forall. intros x Hx. apply ungroup_In in Hx.
    unfold L, plain_result in Hx. fold G in Hx. apply in_concat in Hx. destruct Hx as (R & HR & Hx).
    apply in_map_iff in HR. destruct HR as (g & <- & Hg).
    pose proof (gg_finite orig g (G_good g Hg)) as Hf. rewrite Forall_forall in Hf. apply Hf. exact Hx.
  - intros k i Hk Hi. cbn [apply_adj fold_left].
    destruct (SR_position k Hk) as (j & Hj & Hnth).
    pose proof (ungroup_nth keys L HLl j Hj) as Hu. fold SR in Hu. rewrite Hnth in Hu. cbn [snd] in Hu.
    rewrite Nat2Z.id in Hu. rewrite Hu.
    set (key := nth k keys FNaN) in *. set (p := bkl orig key).
    (* the group of request k *)
    assert (Hjl : (j < length (concat (map rep G)))%nat) by (rewrite rep_flat, idxl_len; exact Hj).
    destruct (parallel_blocks (group_range orig) G j G_len Hjl) as (g & Hg & Hidx & Hv).
    rewrite rep_flat in Hidx. unfold idxl in Hidx.
    rewrite (nth_indep _ 0 ((fun q : fl * Z => bkl orig (fst q)) (FNaN, 0))) in Hidx
      by (rewrite map_length; unfold SR; rewrite SR_len; exact Hj).
    rewrite (map_nth (fun q : fl * Z => bkl orig (fst q))) in Hidx. fold SR in Hidx. rewrite Hnth in Hidx. cbn [fst] in Hidx. fold key in Hidx. fold p in Hidx.
    change (concat (map (group_range orig) G)) with L in Hv.
    pose proof (gg_strict orig g (G_good g Hg)) as Hstrict. rewrite <- Hidx in Hstrict.
    inversion Hstrict as [|? ? HRe HbR]; subst.
    assert (Hbv : Flt (group_begin orig p) (nth j L FNaN)).
    { rewrite Forall_forall in HbR. apply HbR. apply in_or_app. left. exact Hv. }
    assert (Hve : Flt (nth j L FNaN) (group_end orig p (snd g))).
    { apply (sorted_app_last (group_range orig g)); [exact HRe | exact Hv]. }
    pose proof (bkl_range orig key) as Hpr. fold p in Hpr.
    assert (Hiz : 0 <= Z.of_nat i < n) by (unfold n, lenZ; lia).
    assert (Hnth_i : nth i orig FNaN = nthZ orig (Z.of_nat i) FNaN) by (unfold nthZ; rewrite Nat2Z.id; reflexivity).
    rewrite Hnth_i.
    destruct (flt (nthZ orig (Z.of_nat i) FNaN) key) eqn:E.
    + (* row i was below the request: i < p *)
      assert (Hip : Z.of_nat i < p).
      { destruct (Z.lt_ge_cases (Z.of_nat i) p) as [H|H]; [exact H|]. exfalso.
        assert (Hpn : p < lenZ orig) by (fold n; lia).
        pose proof (bkl_stop orig key Hpn) as Hstop. fold p in Hstop.
        pose proof (orig_sorted_Z orig keys (conj Hsorted (conj Hnn_o Hnn_k)) Hwf p (Z.of_nat i) ltac:(lia) ltac:(fold n in Hiz; lia)) as Hle.
        unfold Fle in Hle. apply fle_iff in Hle. destruct Hle as (N1 & N2 & Hle).
        apply flt_iff in E. destruct E as (_ & N3 & E). apply flt_false in Hstop; auto. lia. }
      unfold group_begin in Hbv. replace (0 <? p) with true in Hbv by (symmetry; apply Z.ltb_lt; lia).
      eapply fle_flt_trans; [|exact Hbv].
      apply (orig_sorted_Z orig keys (conj Hsorted (conj Hnn_o Hnn_k)) Hwf); fold n; lia.
    + (* row i was not below the request: p <= i *)
      assert (Hip : p <= Z.of_nat i).
      { destruct (Z.lt_ge_cases (Z.of_nat i) p) as [H|H]; [|exact H]. exfalso.
        pose proof (bkl_prefix orig key (Z.of_nat i) ltac:(fold p; lia)) as Hpre. congruence. }
      destruct (group_end_cases orig p (snd g)) as [[_ Heq]|[Hge _]]; [|fold n in Hge; lia].
      rewrite Heq in Hve. eapply flt_fle_trans; [exact Hve|].
      apply (orig_sorted_Z orig keys (conj Hsorted (conj Hnn_o Hnn_k)) Hwf); fold n; lia.
  - intros k1 k2 Hk1 Hk2 Hreq. apply (ungroup_order keys Hnn_k L HLl HLs); assumption.
Qed.
End Plain2.
