(* C14 -- lemmas about Model/Bisect.v: the SortKey order, bisect, FindOps, sorted lookups, PREVIOUS/NEXT/RANK. *)
From Coq Require Import ZArith QArith List Bool Lia Sorted Permutation ZifyBool.
Import ListNotations.
Require Import Grist.Model.Bisect.
Open Scope Z_scope.

(* ---------- comparison helpers ---------- *)
Lemma CompOpp_inj : forall a b, CompOpp a = CompOpp b -> a = b.
Proof. destruct a, b; simpl; congruence. Qed.

(* ---------- strings ---------- *)
Lemma str_cmp_opp : forall s t, str_cmp t s = CompOpp (str_cmp s t).
Proof.
  induction s as [|a s IH]; destruct t as [|b t]; simpl; try reflexivity.
  rewrite (Z.compare_antisym a b). destruct (a ?= b); simpl; auto.
Qed.

Lemma str_cmp_eq : forall s t, str_cmp s t = Eq -> s = t.
Proof.
  induction s as [|a s IH]; destruct t as [|b t]; simpl; intros H; try discriminate; auto.
  destruct (a ?= b) eqn:E; try discriminate. apply Z.compare_eq in E. subst. f_equal. auto.
Qed.

Lemma str_cmp_refl : forall s, str_cmp s s = Eq.
Proof. induction s; simpl; auto. rewrite Z.compare_refl. auto. Qed.

Lemma str_cmp_trans : forall s t u, str_cmp s t = Lt -> str_cmp t u = Lt -> str_cmp s u = Lt.
Proof.
  induction s as [|a s IH]; destruct t as [|b t]; destruct u as [|c u]; simpl; intros H1 H2; try discriminate; auto.
  destruct (a ?= b) eqn:E1; try discriminate; destruct (b ?= c) eqn:E2; try discriminate.
  - apply Z.compare_eq in E1, E2. subst. rewrite Z.compare_refl. eauto.
  - apply Z.compare_eq in E1. subst. rewrite E2. auto.
  - apply Z.compare_eq in E2. subst. rewrite E1. auto.
  - assert (a ?= c = Lt) as ->; auto. rewrite Z.compare_lt_iff in *. lia.
Qed.

Lemma str_eqb_eq : forall s t, str_eqb s t = true <-> s = t.
Proof.
  unfold str_eqb. intros. split.
  - destruct (str_cmp s t) eqn:E; try discriminate. intros _. apply str_cmp_eq; auto.
  - intros ->. rewrite str_cmp_refl. auto.
Qed.

(* ---------- induction on values ---------- *)
Section val_ind2.
  Variable P : val -> Prop.
  Hypothesis HNone : P VNone.
  Hypothesis HNum : forall q, P (VNum q).
  Hypothesis HStr : forall s, P (VStr s).
  Hypothesis HObj : forall t o, P (VObj t o).
  Hypothesis HSeq : forall k l, Forall P l -> P (VSeq k l).
  Fixpoint val_ind2 (v : val) : P v :=
    match v with
    | VNone => HNone
    | VNum q => HNum q
    | VStr s => HStr s
    | VObj t o => HObj t o
    | VSeq k l => HSeq k l ((fix go (l : list val) : Forall P l :=
                               match l with [] => Forall_nil P | x :: t => Forall_cons x (val_ind2 x) (go t) end) l)
    end.
End val_ind2.

Definition omap_opp (o : option comparison) := match o with Some c => Some (CompOpp c) | None => None end.

(* A3 *)
Lemma lex_opt_opp : forall (c : val -> val -> option comparison) l,
  Forall (fun x => forall y, c y x = omap_opp (c x y)) l ->
  forall m, lex_opt c m l = omap_opp (lex_opt c l m).
Proof.
  intros c l H. induction H as [|x l Hx Hl IH]; intros [|y m]; simpl; auto.
  rewrite Hx. destruct (c x y) as [[]|]; simpl; auto.
Qed.

Lemma cmp3_opp : forall a b, cmp3 b a = omap_opp (cmp3 a b).
Proof.
  induction a as [| p | s | t o | k l IH] using val_ind2; intros [| q | s' | t' o' | k' l']; simpl; auto.
  - rewrite <- Qcompare_antisym. auto.
  - rewrite str_cmp_opp. auto.
  - unfold str_eqb. rewrite (str_cmp_opp t t'). destruct (str_cmp t t'); simpl; auto.
    rewrite (Z.compare_antisym o o'). auto.
  - destruct k, k'; simpl; auto; apply lex_opt_opp; auto.
Qed.

(* E3 *)
Lemma lex_opt_eq_l : forall (c : val -> val -> option comparison) l,
  Forall (fun a => forall b x, c a b = Some Eq -> c a x = c b x) l ->
  forall m n, lex_opt c l m = Some Eq -> lex_opt c l n = lex_opt c m n.
Proof.
  intros c l H. induction H as [|a l Ha Hl IH]; intros [|b m] n; simpl; intros E; try discriminate; auto.
  destruct (c a b) as [[]|] eqn:Eab; try discriminate.
  destruct n as [|x n]; auto.
  rewrite (Ha _ x Eab). destruct (c b x) as [[]|]; auto.
Qed.

Lemma cmp3_eq_l : forall a b x, cmp3 a b = Some Eq -> cmp3 a x = cmp3 b x.
Proof.
  induction a as [| p | s | t o | k l IH] using val_ind2; intros [| q | s' | t' o' | k' l'] x; simpl; intros E; try discriminate; auto.
  - destruct x; auto. injection E as E. apply Qeq_alt in E. simpl. f_equal. rewrite E. reflexivity.
  - injection E as E. apply str_cmp_eq in E. subst. auto.
  - destruct (str_eqb t t') eqn:Et; try discriminate. apply str_eqb_eq in Et. subst.
    injection E as E. apply Z.compare_eq in E. subst. auto.
  - destruct (Bool.eqb k k') eqn:Ek; try discriminate. apply eqb_prop in Ek. subst.
    destruct x; auto. simpl. destruct (Bool.eqb k' tup); auto. apply lex_opt_eq_l; auto.
Qed.

Lemma cmp3_eq_r : forall a b x, cmp3 a b = Some Eq -> cmp3 x a = cmp3 x b.
Proof.
  intros a b x E. pose proof (cmp3_eq_l a b x E) as H.
  rewrite (cmp3_opp x a), (cmp3_opp x b) in H.
  destruct (cmp3 x a) as [c1|], (cmp3 x b) as [c2|]; simpl in H; try discriminate; auto.
  injection H as H. apply CompOpp_inj in H. subst. auto.
Qed.

Lemma cmp3_refl : forall a, cmp3 a a = Some Eq.
Proof.
  induction a as [| p | s | t o | k l IH] using val_ind2; simpl; auto.
  - rewrite (proj1 (Qeq_alt p p)); auto. reflexivity.
  - rewrite str_cmp_refl. auto.
  - unfold str_eqb. rewrite str_cmp_refl, Z.compare_refl. auto.
  - rewrite eqb_reflx. induction IH as [|x l Hx Hl IHl]; simpl; auto. rewrite Hx. auto.
Qed.

(* T3 *)
Lemma lex_opt_trans : forall l,
  Forall (fun a => forall b c, cmp3 a b = Some Lt -> cmp3 b c = Some Lt -> cmp3 a c = Some Lt) l ->
  forall m n, lex_opt cmp3 l m = Some Lt -> lex_opt cmp3 m n = Some Lt -> lex_opt cmp3 l n = Some Lt.
Proof.
  intros l H. induction H as [|a l Ha Hl IH]; intros [|b m] [|c n]; simpl; intros H1 H2; try discriminate; auto.
  destruct (cmp3 a b) as [[]|] eqn:Eab; try discriminate;
  destruct (cmp3 b c) as [[]|] eqn:Ebc; try discriminate.
  - rewrite (cmp3_eq_l _ _ c Eab), Ebc. eauto.
  - rewrite (cmp3_eq_l _ _ c Eab), Ebc. auto.
  - rewrite <- (cmp3_eq_r _ _ a Ebc), Eab. auto.
  - rewrite (Ha _ _ Eab Ebc). auto.
Qed.

Lemma cmp3_trans : forall a b c, cmp3 a b = Some Lt -> cmp3 b c = Some Lt -> cmp3 a c = Some Lt.
Proof.
  induction a as [| p | s | t o | k l IH] using val_ind2; intros [| q | s' | t' o' | k' l'] [| r | s'' | t'' o'' | k'' l''];
    simpl; intros H1 H2; try discriminate; auto.
  - injection H1 as H1. injection H2 as H2. f_equal. apply Qlt_alt. apply Qlt_alt in H1, H2. eapply Qlt_trans; eauto.
  - injection H1 as H1. injection H2 as H2. f_equal. eapply str_cmp_trans; eauto.
  - destruct (str_eqb t t') eqn:E1; try discriminate. destruct (str_eqb t' t'') eqn:E2; try discriminate.
    apply str_eqb_eq in E1, E2. subst. rewrite (proj2 (str_eqb_eq t'' t'')); auto.
    injection H1 as H1. injection H2 as H2. f_equal. rewrite Z.compare_lt_iff in *. lia.
  - destruct (Bool.eqb k k') eqn:E1; try discriminate. destruct (Bool.eqb k' k'') eqn:E2; try discriminate.
    apply eqb_prop in E1, E2. subst. rewrite eqb_reflx. eapply lex_opt_trans; eauto.
Qed.
(* ---------- the fallback order ---------- *)
Definition fb_cmp (x y : Z * Z * list Z) : comparison :=
  let '(x1, x2, x3) := x in
  let '(y1, y2, y3) := y in
  match x1 ?= y1 with
  | Eq => match x2 ?= y2 with Eq => str_cmp x3 y3 | c => c end
  | c => c
  end.

Lemma fb_lt_cmp : forall x y, fb_lt x y = match fb_cmp x y with Lt => true | _ => false end.
Proof.
  intros [[x1 x2] x3] [[y1 y2] y3]. unfold fb_lt, fb_cmp, str_ltb.
  destruct (Z.compare_spec x1 y1); destruct (Z.compare_spec x2 y2);
    repeat match goal with |- context [?a <? ?b] => destruct (Z.ltb_spec a b); try lia end; auto.
Qed.

Lemma fb_cmp_opp : forall x y, fb_cmp y x = CompOpp (fb_cmp x y).
Proof.
  intros [[x1 x2] x3] [[y1 y2] y3]. unfold fb_cmp.
  rewrite (Z.compare_antisym x1 y1), (Z.compare_antisym x2 y2), (str_cmp_opp x3 y3).
  destruct (x1 ?= y1); simpl; auto. destruct (x2 ?= y2); simpl; auto.
Qed.

Lemma fb_cmp_eq : forall x y, fb_cmp x y = Eq -> x = y.
Proof.
  intros [[x1 x2] x3] [[y1 y2] y3]. unfold fb_cmp. intros H.
  destruct (x1 ?= y1) eqn:E1; try discriminate. destruct (x2 ?= y2) eqn:E2; try discriminate.
  apply Z.compare_eq in E1, E2. apply str_cmp_eq in H. subst. auto.
Qed.

Lemma fb_cmp_refl : forall x, fb_cmp x x = Eq.
Proof. intros [[x1 x2] x3]. unfold fb_cmp. rewrite !Z.compare_refl, str_cmp_refl. auto. Qed.

Ltac zc := repeat match goal with
  | H : (?a ?= ?b) = Eq |- _ => apply Z.compare_eq in H
  | H : (?a ?= ?b) = Lt |- _ => rewrite Z.compare_lt_iff in H
  | H : (?a ?= ?b) = Gt |- _ => rewrite Z.compare_gt_iff in H end.

Lemma fb_cmp_trans : forall x y z, fb_cmp x y = Lt -> fb_cmp y z = Lt -> fb_cmp x z = Lt.
Proof.
  intros [[x1 x2] x3] [[y1 y2] y3] [[z1 z2] z3]. unfold fb_cmp. intros H1 H2.
  destruct (x1 ?= y1) eqn:A1; try discriminate; destruct (y1 ?= z1) eqn:B1; try discriminate;
    destruct (x1 ?= z1) eqn:C1; zc; try lia; auto.
  destruct (x2 ?= y2) eqn:A2; try discriminate; destruct (y2 ?= z2) eqn:B2; try discriminate;
    destruct (x2 ?= z2) eqn:C2; zc; try lia; auto.
  eapply str_cmp_trans; eauto.
Qed.

(* ---------- one column: three-way form of col_step ---------- *)
Definition col_cmp (a b : val) : comparison :=
  match cmp3 a b with Some c => c | None => fb_cmp (fb_key a) (fb_key b) end.

Lemma cmp3_some_fb : forall a b c, cmp3 a b = Some c -> fb_key a = fb_key b.
Proof.
  intros [| p | s | t o | k l] [| q | s' | t' o' | k' l'] c; simpl; intros H; try discriminate; auto.
  - destruct (str_eqb t t') eqn:E; try discriminate. apply str_eqb_eq in E. subst. auto.
  - destruct (Bool.eqb k k') eqn:E; try discriminate. apply eqb_prop in E. subst. auto.
Qed.

Lemma py_lt_cmp3 : forall a b, (a = VNone /\ b = VNone) \/
  py_lt a b = match cmp3 a b with Some Lt => Some true | Some _ => Some false | None => None end.
Proof. intros [| | | |] [| | | |]; auto. Qed.

Lemma fb_step_cmp : forall a b s,
  fb_step a b s = match fb_cmp (fb_key a) (fb_key b) with Lt => Some s | Gt => Some (negb s) | Eq => None end.
Proof.
  intros. unfold fb_step. rewrite !fb_lt_cmp. rewrite (fb_cmp_opp (fb_key a) (fb_key b)).
  destruct (fb_cmp (fb_key a) (fb_key b)); auto.
Qed.

Lemma col_step_cmp : forall a b s,
  col_step a b s = match col_cmp a b with Lt => Some s | Gt => Some (negb s) | Eq => None end.
Proof.
  intros a b s. unfold col_step, col_cmp.
  destruct (py_lt_cmp3 a b) as [[-> ->]|Hab].
  - simpl. rewrite fb_step_cmp. simpl. auto.
  - destruct (py_lt_cmp3 b a) as [[-> ->]|Hba].
    + simpl. rewrite fb_step_cmp. simpl. auto.
    + rewrite Hab, Hba, (cmp3_opp a b). rewrite fb_step_cmp.
      destruct (cmp3 a b) as [[]|]; simpl; auto.
Qed.

Definition scmp (s : bool) (a b : val) : comparison := if s then col_cmp a b else CompOpp (col_cmp a b).

Lemma col_step_scmp : forall a b s,
  col_step a b s = match scmp s a b with Lt => Some true | Gt => Some false | Eq => None end.
Proof. intros. rewrite col_step_cmp. unfold scmp. destruct s, (col_cmp a b); auto. Qed.

Lemma col_cmp_opp : forall a b, col_cmp b a = CompOpp (col_cmp a b).
Proof.
  intros. unfold col_cmp. rewrite (cmp3_opp a b), (fb_cmp_opp (fb_key a) (fb_key b)).
  destruct (cmp3 a b); auto.
Qed.

Lemma col_cmp_trans : forall a b c, col_cmp a b = Lt -> col_cmp b c = Lt -> col_cmp a c = Lt.
Proof.
  intros a b c. unfold col_cmp.
  destruct (cmp3 a b) as [c1|] eqn:E1; destruct (cmp3 b c) as [c2|] eqn:E2; intros H1 H2; subst.
  - rewrite (cmp3_trans _ _ _ E1 E2). auto.
  - destruct (cmp3 a c) as [c3|] eqn:E3.
    + apply cmp3_some_fb in E1, E3. rewrite <- E1, E3, fb_cmp_refl in H2. discriminate.
    + apply cmp3_some_fb in E1. rewrite E1. auto.
  - destruct (cmp3 a c) as [c3|] eqn:E3.
    + apply cmp3_some_fb in E2, E3. rewrite E2, <- E3, fb_cmp_refl in H1. discriminate.
    + apply cmp3_some_fb in E2. rewrite <- E2. auto.
  - pose proof (fb_cmp_trans _ _ _ H1 H2) as H3.
    destruct (cmp3 a c) as [c3|] eqn:E3; auto.
    apply cmp3_some_fb in E3. rewrite E3, fb_cmp_refl in H3. discriminate.
Qed.

Lemma comparable_sym : forall a b, comparable a b = comparable b a.
Proof.
  intros. unfold comparable. rewrite (cmp3_opp a b). destruct (cmp3 a b); simpl; auto. apply orb_comm.
Qed.

Lemma col_cmp_eq_l : forall a b x, comparable a b = true -> col_cmp a b = Eq -> col_cmp a x = col_cmp b x.
Proof.
  intros a b x Hc. unfold col_cmp, comparable in *.
  destruct (cmp3 a b) as [c|] eqn:E.
  - intros ->. rewrite (cmp3_eq_l _ _ x E). apply cmp3_some_fb in E. rewrite E. auto.
  - intros H. rewrite !fb_lt_cmp, (fb_cmp_opp (fb_key a) (fb_key b)), H in Hc. discriminate.
Qed.

Lemma col_cmp_eq_r : forall a b x, comparable a b = true -> col_cmp a b = Eq -> col_cmp x a = col_cmp x b.
Proof.
  intros a b x Hc H. rewrite (col_cmp_opp a x), (col_cmp_opp b x). f_equal. apply col_cmp_eq_l; auto.
Qed.

Lemma col_cmp_refl : forall a, col_cmp a a = Eq.
Proof. intros. unfold col_cmp. rewrite cmp3_refl. auto. Qed.

Lemma scmp_opp : forall s a b, scmp s b a = CompOpp (scmp s a b).
Proof. intros. unfold scmp. rewrite (col_cmp_opp a b). destruct s; auto. Qed.

Lemma scmp_trans : forall s a b c, scmp s a b = Lt -> scmp s b c = Lt -> scmp s a c = Lt.
Proof.
  intros [] a b c; unfold scmp; intros H1 H2.
  - eapply col_cmp_trans; eauto.
  - assert (col_cmp b a = Lt) as H1' by (rewrite (col_cmp_opp a b); destruct (col_cmp a b); simpl in *; congruence).
    assert (col_cmp c b = Lt) as H2' by (rewrite (col_cmp_opp b c); destruct (col_cmp b c); simpl in *; congruence).
    rewrite (col_cmp_opp c a), (col_cmp_trans _ _ _ H2' H1'). auto.
Qed.

Lemma scmp_eq_l : forall s a b x, comparable a b = true -> scmp s a b = Eq -> scmp s a x = scmp s b x.
Proof.
  intros s a b x Hc H. unfold scmp in *.
  assert (col_cmp a b = Eq) as H' by (destruct s, (col_cmp a b); simpl in *; congruence).
  rewrite (col_cmp_eq_l _ _ x Hc H'). auto.
Qed.

Lemma scmp_eq_r : forall s a b x, comparable a b = true -> scmp s a b = Eq -> scmp s x a = scmp s x b.
Proof.
  intros s a b x Hc H. rewrite (scmp_opp s a x), (scmp_opp s b x). f_equal. apply scmp_eq_l; auto.
Qed.

Lemma scmp_refl : forall s a, scmp s a a = Eq.
Proof. intros. unfold scmp. rewrite col_cmp_refl. destruct s; auto. Qed.

(* ---------- value tuples ---------- *)
Fixpoint vals_cmp (spec : list bool) (va vb : list val) : comparison :=
  match va, vb, spec with
  | a :: va', b :: vb', s :: spec' => match scmp s a b with Eq => vals_cmp spec' va' vb' | c => c end
  | _, _, _ => Eq
  end.

Lemma vals_lt_cmp : forall spec va vb tie,
  vals_lt spec va vb tie = match vals_cmp spec va vb with Lt => true | Gt => false | Eq => tie end.
Proof.
  induction spec as [|s spec IH]; intros [|a va] [|b vb] tie; simpl; auto.
  rewrite col_step_scmp. destruct (scmp s a b); auto.
Qed.

Lemma vals_cmp_opp : forall spec va vb, vals_cmp spec vb va = CompOpp (vals_cmp spec va vb).
Proof.
  induction spec as [|s spec IH]; intros [|a va] [|b vb]; simpl; auto.
  rewrite (scmp_opp s a b). destruct (scmp s a b); simpl; auto.
Qed.

Lemma vals_cmp_refl : forall spec va, vals_cmp spec va va = Eq.
Proof. induction spec as [|s spec IH]; intros [|a va]; simpl; auto. rewrite scmp_refl. auto. Qed.

Lemma vals_comparable_sym : forall va vb, vals_comparable va vb = vals_comparable vb va.
Proof. induction va as [|a va IH]; intros [|b vb]; simpl; auto. rewrite comparable_sym, IH. auto. Qed.

(* a <= b (all columns of the spec), b before x (on the columns x has)  ==>  a before x *)
Lemma vals_cmp_le_lt : forall spec a b x,
  length a = length spec -> length b = length spec ->
  vals_comparable a b = true -> vals_comparable b x = true ->
  vals_cmp spec a b <> Gt -> vals_cmp spec b x = Lt -> vals_cmp spec a x = Lt.
Proof.
  induction spec as [|s spec IH]; intros [|a0 a] [|b0 b] [|x0 x]; simpl; intros La Lb Cab Cbx Hab Hbx;
    try discriminate; try congruence.
  apply andb_prop in Cab as [Cab0 Cab]. apply andb_prop in Cbx as [Cbx0 Cbx].
  destruct (scmp s a0 b0) eqn:Eab; try congruence; destruct (scmp s b0 x0) eqn:Ebx; try discriminate.
  - rewrite (scmp_eq_l _ _ _ x0 Cab0 Eab), Ebx. apply (IH a b x); auto.
  - rewrite (scmp_eq_l _ _ _ x0 Cab0 Eab), Ebx. auto.
  - rewrite <- (scmp_eq_r _ _ _ a0 Cbx0 Ebx), Eab. auto.
  - rewrite (scmp_trans _ _ _ _ Eab Ebx). auto.
Qed.

(* a <= b, x before a  ==>  x before b *)
Lemma vals_cmp_lt_le : forall spec a b x,
  length a = length spec -> length b = length spec ->
  vals_comparable a b = true -> vals_comparable x a = true ->
  vals_cmp spec a b <> Gt -> vals_cmp spec x a = Lt -> vals_cmp spec x b = Lt.
Proof.
  induction spec as [|s spec IH]; intros [|a0 a] [|b0 b] [|x0 x]; simpl; intros La Lb Cab Cxa Hab Hxa;
    try discriminate; try congruence.
  apply andb_prop in Cab as [Cab0 Cab]. apply andb_prop in Cxa as [Cxa0 Cxa].
  destruct (scmp s a0 b0) eqn:Eab; try congruence; destruct (scmp s x0 a0) eqn:Exa; try discriminate.
  - rewrite <- (scmp_eq_r _ _ _ x0 Cab0 Eab), Exa. apply (IH a b x); auto.
  - rewrite <- (scmp_eq_r _ _ _ x0 Cab0 Eab), Exa. auto.
  - rewrite (scmp_eq_l _ _ _ b0 Cxa0 Exa), Eab. auto.
  - rewrite (scmp_trans _ _ _ _ Exa Eab). auto.
Qed.
(* ---------- keys of records ---------- *)
Lemma key_lt_rows : forall spec a b,
  key_lt spec (row_key a) (row_key b) =
  match vals_cmp spec (rvals a) (rvals b) with Lt => true | Gt => false | Eq => rid a <? rid b end.
Proof. intros. unfold key_lt, row_key. simpl. apply vals_lt_cmp. Qed.

(* the domain of the theorems: every record has one value per sort column, and the values of the
   records are mutually comparable column by column *)

Lemma dom_ok_incl : forall spec l l', dom_ok spec l -> incl l' l -> dom_ok spec l'.
Proof. intros spec l l' [H1 H2] Hi. split; intros; [apply H1 | apply H2]; auto. Qed.

Lemma key_lt_irrefl : forall spec a, key_lt spec (row_key a) (row_key a) = false.
Proof. intros. rewrite key_lt_rows, vals_cmp_refl. apply Z.ltb_irrefl. Qed.

Lemma key_lt_asym : forall spec a b,
  key_lt spec (row_key a) (row_key b) = true -> key_lt spec (row_key b) (row_key a) = false.
Proof.
  intros spec a b. rewrite !key_lt_rows, (vals_cmp_opp spec (rvals a) (rvals b)).
  destruct (vals_cmp spec (rvals a) (rvals b)); simpl; auto; try discriminate.
  intros H. apply Z.ltb_lt in H. apply Z.ltb_ge. lia.
Qed.

Lemma key_lt_total : forall spec a b, rid a <> rid b ->
  key_lt spec (row_key a) (row_key b) = false -> key_lt spec (row_key b) (row_key a) = true.
Proof.
  intros spec a b Hne. rewrite !key_lt_rows, (vals_cmp_opp spec (rvals a) (rvals b)).
  destruct (vals_cmp spec (rvals a) (rvals b)); simpl; auto; try discriminate.
  intros H. apply Z.ltb_ge in H. apply Z.ltb_lt. lia.
Qed.

Lemma key_ge_vals : forall spec a b,
  key_lt spec (row_key b) (row_key a) = false -> vals_cmp spec (rvals a) (rvals b) <> Gt.
Proof.
  intros spec a b. rewrite key_lt_rows, (vals_cmp_opp spec (rvals a) (rvals b)).
  destruct (vals_cmp spec (rvals a) (rvals b)); simpl; congruence.
Qed.

Lemma key_lt_trans : forall spec rows a b c, dom_ok spec rows -> In a rows -> In b rows -> In c rows ->
  key_lt spec (row_key a) (row_key b) = true -> key_lt spec (row_key b) (row_key c) = true ->
  key_lt spec (row_key a) (row_key c) = true.
Proof.
  intros spec rows a b c [HL HC] Ia Ib Ic. rewrite !key_lt_rows.
  destruct (vals_cmp spec (rvals a) (rvals b)) eqn:Eab; try discriminate;
  destruct (vals_cmp spec (rvals b) (rvals c)) eqn:Ebc; try discriminate; intros H1 H2.
  - (* Eq Eq *)
    destruct (vals_cmp spec (rvals a) (rvals c)) eqn:Eac.
    + apply Z.ltb_lt in H1, H2. apply Z.ltb_lt. lia.
    + auto.
    + exfalso.
      assert (vals_cmp spec (rvals c) (rvals a) = Lt) as Eca by (rewrite vals_cmp_opp, Eac; auto).
      assert (vals_cmp spec (rvals b) (rvals a) = Lt) as Eba.
      { apply (vals_cmp_le_lt spec (rvals b) (rvals c) (rvals a)); auto; congruence. }
      rewrite vals_cmp_opp, Eab in Eba. discriminate.
  - (* Eq Lt *)
    rewrite (vals_cmp_le_lt spec (rvals a) (rvals b) (rvals c)); auto; congruence.
  - (* Lt Eq *)
    rewrite (vals_cmp_lt_le spec (rvals b) (rvals c) (rvals a)); auto; congruence.
  - rewrite (vals_cmp_le_lt spec (rvals a) (rvals b) (rvals c)); auto; congruence.
Qed.

(* ---------- bisect ---------- *)
Ltac Zify.zify_post_hook ::= Z.to_euclidean_division_equations.

Lemma forallb_In : forall {A} (P : A -> bool) l x, forallb P l = true -> In x l -> P x = true.
Proof. intros A P l x H. rewrite forallb_forall in H. auto. Qed.

Lemma bisect_loop_spec : forall {A} (P : A -> bool) (l1 l2 : list A),
  forallb P l1 = true -> forallb (fun e => negb (P e)) l2 = true ->
  forall fuel lo hi,
    0 <= lo <= Z.of_nat (length l1) -> Z.of_nat (length l1) <= hi <= Z.of_nat (length (l1 ++ l2)) ->
    hi - lo < Z.of_nat fuel ->
    bisect_loop P (l1 ++ l2) fuel lo hi = Z.of_nat (length l1).
Proof.
  intros A P l1 l2 H1 H2. induction fuel as [|f IH]; intros lo hi Hlo Hhi Hf.
  - simpl in Hf. lia.
  - cbn [bisect_loop]. destruct (Z.ltb_spec lo hi) as [Hlt|Hge]; [|lia].
    set (mid := (lo + hi) / 2). assert (lo <= mid < hi) as Hmid by (unfold mid; lia).
    rewrite app_length in Hhi.
    destruct (Z.ltb_spec mid (Z.of_nat (length l1))) as [Hm|Hm].
    + rewrite nth_error_app1 by lia.
      destruct (nth_error l1 (Z.to_nat mid)) as [e|] eqn:En.
      * apply nth_error_In in En. rewrite (forallb_In _ _ _ H1 En). apply IH; try rewrite app_length; lia.
      * apply nth_error_None in En. lia.
    + rewrite nth_error_app2 by lia.
      destruct (nth_error l2 (Z.to_nat mid - length l1)) as [e|] eqn:En.
      * apply nth_error_In in En. pose proof (forallb_In _ _ _ H2 En) as He.
        apply negb_true_iff in He. rewrite He. apply IH; try rewrite app_length; lia.
      * apply nth_error_None in En. lia.
Qed.

Lemma bisect_left_split : forall {A K} (ltb : K -> K -> bool) (keyf : A -> K) l1 l2 x,
  (forall e, In e l1 -> ltb (keyf e) x = true) -> (forall e, In e l2 -> ltb (keyf e) x = false) ->
  bisect_left ltb keyf (l1 ++ l2) x = Z.of_nat (length l1).
Proof.
  intros. unfold bisect_left, len. apply bisect_loop_spec.
  - apply forallb_forall. auto.
  - apply forallb_forall. intros e He. rewrite H0; auto.
  - lia.
  - rewrite app_length. lia.
  - lia.
Qed.

Lemma bisect_right_split : forall {A K} (ltb : K -> K -> bool) (keyf : A -> K) l1 l2 x,
  (forall e, In e l1 -> ltb x (keyf e) = false) -> (forall e, In e l2 -> ltb x (keyf e) = true) ->
  bisect_right ltb keyf (l1 ++ l2) x = Z.of_nat (length l1).
Proof.
  intros. unfold bisect_right, len. apply bisect_loop_spec.
  - apply forallb_forall. intros e He. rewrite H; auto.
  - apply forallb_forall. intros e He. rewrite H0; auto.
  - lia.
  - rewrite app_length. lia.
  - lia.
Qed.

(* a predicate that is downward closed along a sorted list splits it *)
Lemma mono_split : forall {A} (R : A -> A -> Prop) (P : A -> bool) l,
  StronglySorted R l ->
  (forall a b, In a l -> In b l -> R a b -> P b = true -> P a = true) ->
  exists l1 l2, l = l1 ++ l2 /\ (forall e, In e l1 -> P e = true) /\ (forall e, In e l2 -> P e = false).
Proof.
  intros A R P l HS. induction HS as [|a t HS IH HF]; intros Hm.
  - exists [], []. repeat split; intros e [].
  - destruct (P a) eqn:Pa.
    + destruct IH as (l1 & l2 & E & H1 & H2).
      { intros x y Hx Hy. apply Hm; right; auto. }
      exists (a :: l1), l2. subst. repeat split; auto. intros e [<-|He]; auto.
    + exists [], (a :: t). repeat split; [intros e []|].
      intros e [<-|He]; auto. destruct (P e) eqn:Pe; auto.
      rewrite Forall_forall in HF. assert (P a = true) as Pa'.
      { apply (Hm a e); auto; [left; auto|right; auto]. }
      congruence.
Qed.


(* ---------- _at and the scans ---------- *)

Lemma at_row_before : forall l1 l2, rid_of (at_row (l1 ++ l2) (Z.of_nat (length l1) + -1)) = last_id l1.
Proof.
  intros l1 l2. unfold at_row, last_id. destruct l1 as [|a l1] using rev_ind.
  - simpl. auto.
  - rewrite rev_app_distr. simpl. rewrite !app_length. simpl.
    destruct (Z.leb_spec 0 (Z.of_nat (length l1 + 1) + -1)); [|lia].
    destruct (Z.ltb_spec (Z.of_nat (length l1 + 1) + -1) (Z.of_nat (length l1 + 1 + length l2))); [|lia].
    simpl. replace (Z.to_nat (Z.of_nat (length l1 + 1) + -1)) with (length l1) by lia.
    rewrite <- app_assoc. rewrite nth_error_app2 by lia. rewrite Nat.sub_diag. simpl. auto.
Qed.

Lemma at_row_at : forall l1 l2 s, s = 0 -> rid_of (at_row (l1 ++ l2) (Z.of_nat (length l1) + s)) = head_id l2.
Proof.
  intros l1 l2 s ->. unfold at_row, head_id. rewrite app_length.
  destruct (Z.leb_spec 0 (Z.of_nat (length l1) + 0)); [|lia]. simpl.
  destruct l2 as [|y l2].
  - simpl. destruct (Z.ltb_spec (Z.of_nat (length l1) + 0) (Z.of_nat (length l1 + 0))); [lia|]. auto.
  - simpl length. destruct (Z.ltb_spec (Z.of_nat (length l1) + 0) (Z.of_nat (length l1 + S (length l2)))); [|lia].
    rewrite nth_error_app2 by lia. replace (Z.to_nat (Z.of_nat (length l1) + 0) - length l1)%nat with 0%nat by lia.
    simpl. auto.
Qed.

Lemma scan_last_acc_none : forall (P : row -> bool) l acc, (forall e, In e l -> P e = false) ->
  fold_left (fun acc r => if P r then rid r else acc) l acc = acc.
Proof.
  induction l as [|a l IH]; intros acc H; simpl; auto.
  rewrite (H a) by (left; auto). apply IH. intros. apply H. right. auto.
Qed.

Lemma scan_last_split : forall (P : row -> bool) l1 l2,
  (forall e, In e l1 -> P e = true) -> (forall e, In e l2 -> P e = false) ->
  scan_last P (l1 ++ l2) = last_id l1.
Proof.
  intros P l1 l2 H1 H2. unfold scan_last, last_id. rewrite fold_left_app, scan_last_acc_none by auto.
  destruct l1 as [|a l1] using rev_ind; simpl; auto.
  rewrite fold_left_app, rev_app_distr. simpl. rewrite H1; auto. apply in_or_app. right. left. auto.
Qed.

Lemma scan_first_split : forall (P : row -> bool) l1 l2,
  (forall e, In e l1 -> P e = false) -> (forall e, In e l2 -> P e = true) ->
  scan_first P (l1 ++ l2) = head_id l2.
Proof.
  intros P l1 l2 H1 H2. unfold scan_first, head_id. induction l1 as [|a l1 IH]; simpl.
  - destruct l2 as [|y l2]; simpl; auto. rewrite H2; auto. left. auto.
  - rewrite (H1 a) by (left; auto). apply IH. intros. apply H1. right. auto.
Qed.
(* ---------- find.lt / le / gt / ge / eq ---------- *)
Lemma before_cmp : forall spec vals r, before spec vals r = match vals_cmp spec (rvals r) vals with Lt => true | _ => false end.
Proof. intros. unfold before. rewrite vals_lt_cmp. destruct (vals_cmp spec (rvals r) vals); auto. Qed.
Lemma after_cmp : forall spec vals r, after spec vals r = match vals_cmp spec vals (rvals r) with Lt => true | _ => false end.
Proof. intros. unfold after. rewrite vals_lt_cmp. destruct (vals_cmp spec vals (rvals r)); auto. Qed.

Lemma before_mono : forall spec rows vals a b, dom_ok spec rows -> probe_ok rows vals -> In a rows -> In b rows ->
  key_lt spec (row_key b) (row_key a) = false -> before spec vals b = true -> before spec vals a = true.
Proof.
  intros spec rows vals a b [HL HC] HP Ia Ib Hab. rewrite !before_cmp.
  destruct (vals_cmp spec (rvals b) vals) eqn:E; try discriminate. intros _.
  rewrite (vals_cmp_le_lt spec (rvals a) (rvals b) vals); auto. apply key_ge_vals; auto.
Qed.

Lemma after_mono : forall spec rows vals a b, dom_ok spec rows -> probe_ok rows vals -> In a rows -> In b rows ->
  key_lt spec (row_key b) (row_key a) = false -> after spec vals a = true -> after spec vals b = true.
Proof.
  intros spec rows vals a b [HL HC] HP Ia Ib Hab. rewrite !after_cmp.
  destruct (vals_cmp spec vals (rvals a)) eqn:E; try discriminate. intros _.
  rewrite (vals_cmp_lt_le spec (rvals a) (rvals b) vals); auto.
  - rewrite vals_comparable_sym. auto.
  - apply key_ge_vals; auto.
Qed.

Lemma split_before : forall spec rows vals, dom_ok spec rows -> probe_ok rows vals -> sorted_rows spec rows ->
  exists l1 l2, rows = l1 ++ l2 /\ (forall e, In e l1 -> before spec vals e = true) /\
                (forall e, In e l2 -> before spec vals e = false).
Proof.
  intros spec rows vals HD HP HS. apply (mono_split _ (before spec vals) rows HS).
  intros a b Ia Ib. apply (before_mono spec rows); auto.
Qed.

Lemma split_not_after : forall spec rows vals, dom_ok spec rows -> probe_ok rows vals -> sorted_rows spec rows ->
  exists l1 l2, rows = l1 ++ l2 /\ (forall e, In e l1 -> after spec vals e = false) /\
                (forall e, In e l2 -> after spec vals e = true).
Proof.
  intros spec rows vals HD HP HS.
  destruct (mono_split _ (fun e => negb (after spec vals e)) rows HS) as (l1 & l2 & E & H1 & H2).
  - intros a b Ia Ib Hab Hb. destruct (after spec vals a) eqn:Ea; auto.
    rewrite (after_mono spec rows vals a b) in Hb; auto.
  - exists l1, l2. repeat split; auto; intros e He.
    + apply H1 in He. apply negb_true_iff in He. auto.
    + apply H2 in He. apply negb_false_iff in He. auto.
Qed.

Lemma key_lt_probe_neg : forall spec vals r,
  key_lt spec (row_key r) (vals, RNegInf) = before spec vals r.
Proof. intros. unfold key_lt, before, row_key. simpl. auto. Qed.
Lemma key_lt_probe_pos : forall spec vals r,
  key_lt spec (vals, RPosInf) (row_key r) = after spec vals r.
Proof. intros. unfold key_lt, after, row_key. simpl. auto. Qed.

Section FindOps.
  Variables (spec : list bool) (rows : list row) (vals : list val).
  Hypothesis Hspec : spec <> [].
  Hypothesis Hvals : vals <> [].
  Hypothesis HD : dom_ok spec rows.
  Hypothesis HP : probe_ok rows vals.
  Hypothesis HS : sorted_rows spec rows.

  Lemma find_lt_scan : find_lt (mkRset spec rows) vals = Ok (lt_scan spec vals rows).
  Proof.
    unfold find_lt, find_row, lt_scan. simpl. destruct spec as [|s0 sp]; [congruence|]. destruct vals as [|v0 vs]; [congruence|].
    destruct (split_before _ _ _ HD HP HS) as (l1 & l2 & E & H1 & H2). rewrite E.
    rewrite (bisect_left_split _ _ l1 l2).
    - simpl. rewrite at_row_before, scan_last_split; auto.
    - intros e He. rewrite key_lt_probe_neg. auto.
    - intros e He. rewrite key_lt_probe_neg. auto.
  Qed.

  Lemma find_ge_scan : find_ge (mkRset spec rows) vals = Ok (ge_scan spec vals rows).
  Proof.
    unfold find_ge, find_row, ge_scan. simpl. destruct spec as [|s0 sp]; [congruence|]. destruct vals as [|v0 vs]; [congruence|].
    destruct (split_before _ _ _ HD HP HS) as (l1 & l2 & E & H1 & H2). rewrite E.
    rewrite (bisect_left_split _ _ l1 l2).
    - simpl. rewrite at_row_at, scan_first_split; auto.
      + intros e He. rewrite H1; auto.
      + intros e He. rewrite H2; auto.
    - intros e He. rewrite key_lt_probe_neg. auto.
    - intros e He. rewrite key_lt_probe_neg. auto.
  Qed.

  Lemma find_le_scan : find_le (mkRset spec rows) vals = Ok (le_scan spec vals rows).
  Proof.
    unfold find_le, find_row, le_scan. simpl. destruct spec as [|s0 sp]; [congruence|]. destruct vals as [|v0 vs]; [congruence|].
    destruct (split_not_after _ _ _ HD HP HS) as (l1 & l2 & E & H1 & H2). rewrite E.
    rewrite (bisect_right_split _ _ l1 l2).
    - simpl. rewrite at_row_before, scan_last_split; auto.
      + intros e He. rewrite H1; auto.
      + intros e He. rewrite H2; auto.
    - intros e He. rewrite key_lt_probe_pos. auto.
    - intros e He. rewrite key_lt_probe_pos. auto.
  Qed.

  Lemma find_gt_scan : find_gt (mkRset spec rows) vals = Ok (gt_scan spec vals rows).
  Proof.
    unfold find_gt, find_row, gt_scan. simpl. destruct spec as [|s0 sp]; [congruence|]. destruct vals as [|v0 vs]; [congruence|].
    destruct (split_not_after _ _ _ HD HP HS) as (l1 & l2 & E & H1 & H2). rewrite E.
    rewrite (bisect_right_split _ _ l1 l2).
    - simpl. rewrite at_row_at, scan_first_split; auto.
    - intros e He. rewrite key_lt_probe_pos. auto.
    - intros e He. rewrite key_lt_probe_pos. auto.
  Qed.
End FindOps.
Lemma at_row_head : forall l1 l2, at_row (l1 ++ l2) (Z.of_nat (length l1) + 0) = hd_error l2.
Proof.
  intros l1 l2. unfold at_row. rewrite app_length.
  destruct (Z.leb_spec 0 (Z.of_nat (length l1) + 0)); [|lia]. simpl.
  destruct l2 as [|y l2].
  - simpl. destruct (Z.ltb_spec (Z.of_nat (length l1) + 0) (Z.of_nat (length l1 + 0))); [lia|]. auto.
  - simpl length. destruct (Z.ltb_spec (Z.of_nat (length l1) + 0) (Z.of_nat (length l1 + S (length l2)))); [|lia].
    rewrite nth_error_app2 by lia. replace (Z.to_nat (Z.of_nat (length l1) + 0) - length l1)%nat with 0%nat by lia.
    simpl. auto.
Qed.

Lemma sorted_app_inv : forall {A} (R : A -> A -> Prop) l1 x l2,
  StronglySorted R (l1 ++ x :: l2) -> Forall (fun e => R e x) l1 /\ Forall (R x) l2.
Proof.
  intros A R l1 x l2. induction l1 as [|a l1 IH]; simpl; intros H.
  - inversion H; subst. split; auto.
  - inversion H; subst. destruct (IH H2) as [H5 H6]. split; auto. constructor; auto.
    rewrite Forall_forall in H3. apply H3. apply in_or_app. right. left. auto.
Qed.

Lemma scan_first_none : forall (P : row -> bool) l, (forall e, In e l -> P e = false) -> scan_first P l = 0.
Proof.
  intros P l H. unfold scan_first. induction l as [|a l IH]; simpl; auto.
  rewrite (H a) by (left; auto). apply IH. intros. apply H. right. auto.
Qed.

Lemma find_app_none : forall {A} (P : A -> bool) l1 l2, (forall e, In e l1 -> P e = false) ->
  find P (l1 ++ l2) = find P l2.
Proof.
  intros A P l1 l2 H. induction l1 as [|a l1 IH]; simpl; auto.
  rewrite (H a) by (left; auto). apply IH. intros. apply H. right. auto.
Qed.

Lemma find_eq_scan : forall spec rows vals, spec <> [] -> vals <> [] ->
  dom_ok spec rows -> probe_ok rows vals -> sorted_rows spec rows ->
  find_eq (mkRset spec rows) vals = Ok (eq_scan spec vals rows).
Proof.
  intros spec rows vals Hspec Hvals HD HP HS.
  unfold find_eq, find_row, eq_scan. simpl. destruct spec as [|s0 sp] eqn:Esp; [congruence|]. rewrite <- Esp in *.
  destruct vals as [|v0 vs] eqn:Evs; [congruence|]. rewrite <- Evs in *.
  destruct (split_before _ _ _ HD HP HS) as (l1 & l2 & E & H1 & H2).
  rewrite E, (bisect_left_split _ _ l1 l2), at_row_head.
  2: { intros e He. rewrite key_lt_probe_neg. auto. }
  2: { intros e He. rewrite key_lt_probe_neg. auto. }
  destruct l2 as [|y l2]; simpl.
  - f_equal. symmetry. apply scan_first_none. intros e He. rewrite app_nil_r in He. rewrite H1; auto.
  - assert (key_lt spec (vals, RId (rid y)) (row_key y) = after spec vals y) as Hk.
    { unfold key_lt, after, row_key. simpl. rewrite Z.ltb_irrefl. auto. }
    rewrite Hk.
    assert (scan_first (fun r => negb (before spec vals r) && negb (after spec vals r)) (l1 ++ y :: l2)
            = if after spec vals y then 0 else rid y) as Hscan.
    { unfold scan_first. rewrite find_app_none.
      - simpl. rewrite (H2 y) by (left; auto). simpl.
        destruct (after spec vals y) eqn:Ay; simpl; auto.
        fold (scan_first (fun r => negb (before spec vals r) && negb (after spec vals r)) l2).
        apply scan_first_none. intros e He.
        assert (after spec vals e = true) as ->; [|apply andb_false_r].
        rewrite E in HS. apply sorted_app_inv in HS. destruct HS as [_ HF]. rewrite Forall_forall in HF.
        apply (after_mono spec rows vals y e); auto; subst rows.
        + apply in_or_app. right. left. auto.
        + apply in_or_app. right. right. auto.
      - intros e He. rewrite H1; auto. }
    rewrite Hscan. destruct (Z.eqb_spec (rid y) 0) as [E0|E0].
    + rewrite E0. destruct (after spec vals y); auto.
    + destruct (after spec vals y); auto.
Qed.
(* ---------- sorted(row_ids, key=sort_key) ---------- *)
Lemma insert_row_perm : forall spec r l, Permutation (insert_row spec r l) (r :: l).
Proof.
  induction l as [|y t IH]; simpl; auto.
  destruct (key_lt spec (row_key r) (row_key y)); auto.
  eapply perm_trans; [apply perm_skip; apply IH|apply perm_swap].
Qed.

Lemma sort_rows_perm : forall spec l, Permutation (sort_rows spec l) l.
Proof.
  induction l as [|r l IH]; simpl; auto.
  eapply perm_trans; [apply insert_row_perm|]. apply perm_skip. auto.
Qed.

Lemma insert_row_sorted : forall spec rows r l, dom_ok spec rows -> In r rows -> incl l rows ->
  sorted_rows spec l -> sorted_rows spec (insert_row spec r l).
Proof.
  intros spec rows r l HD Ir Hi HS. unfold sorted_rows in *. induction HS as [|y t HS IH HF]; simpl.
  - repeat constructor.
  - assert (In y rows) as Iy by (apply Hi; left; auto).
    assert (incl t rows) as Hit by (intros z Hz; apply Hi; right; auto).
    destruct (key_lt spec (row_key r) (row_key y)) eqn:Ery.
    + constructor; [constructor; auto|]. constructor.
      * apply key_lt_asym; auto.
      * rewrite Forall_forall in *. intros z Hz.
        destruct (key_lt spec (row_key z) (row_key r)) eqn:Ezr; auto.
        assert (key_lt spec (row_key z) (row_key y) = true) as Hzy by (apply (key_lt_trans spec rows z r y); auto).
        rewrite (HF z Hz) in Hzy. discriminate.
    + constructor; auto.
      rewrite Forall_forall in *. intros z Hz.
      apply (Permutation_in _ (insert_row_perm spec r t)) in Hz. destruct Hz as [<-|Hz]; auto.
Qed.

Lemma sort_rows_sorted : forall spec l, dom_ok spec l -> sorted_rows spec (sort_rows spec l).
Proof.
  intros spec l HD. assert (incl l l) as Hi by apply incl_refl. revert Hi. generalize l at 1 3.
  induction l0 as [|r t IH]; intros Hi; simpl.
  - constructor.
  - apply (insert_row_sorted spec l); auto.
    + apply Hi. left. auto.
    + intros z Hz. apply (Permutation_in _ (sort_rows_perm spec t)) in Hz. apply Hi. right. auto.
    + apply IH. intros z Hz. apply Hi. right. auto.
Qed.

(* ---------- previous / next / rank ---------- *)
Lemma nodup_app_mid : forall (g1 : list row) r g2, NoDup (map rid (g1 ++ r :: g2)) ->
  (forall e, In e g1 -> rid e <> rid r) /\ (forall e, In e g2 -> rid e <> rid r).
Proof.
  intros g1 r g2 H. rewrite map_app in H. simpl in H. apply NoDup_remove_2 in H.
  split; intros e He Heq; apply H; apply in_or_app; [left|right]; rewrite <- Heq; apply in_map; auto.
Qed.

Lemma filter_all : forall {A} (P : A -> bool) l, (forall e, In e l -> P e = true) -> filter P l = l.
Proof.
  intros A P l H. induction l as [|a l IH]; simpl; auto.
  rewrite (H a) by (left; auto). f_equal. apply IH. intros. apply H. right. auto.
Qed.
Lemma filter_none : forall {A} (P : A -> bool) l, (forall e, In e l -> P e = false) -> filter P l = [].
Proof.
  intros A P l H. induction l as [|a l IH]; simpl; auto.
  rewrite (H a) by (left; auto). apply IH. intros. apply H. right. auto.
Qed.

Lemma match_nonempty : forall {A B} (l : list A) (x y : B), l <> [] ->
  match l with [] => x | _ :: _ => y end = y.
Proof. intros A B [|a l] x y H; [congruence|auto]. Qed.

Section PrevNext.
  Variables (spec : list bool) (g1 g2 : list row) (r : row).
  Hypothesis Hspec : spec <> [].
  Hypothesis HD : dom_ok spec (g1 ++ r :: g2).
  Hypothesis HS : sorted_rows spec (g1 ++ r :: g2).
  Hypothesis HN : NoDup (map rid (g1 ++ r :: g2)).

  Lemma g1_before : forall e, In e g1 -> key_lt spec (row_key e) (row_key r) = true /\ key_lt spec (row_key r) (row_key e) = false.
  Proof.
    intros e He. destruct (sorted_app_inv _ _ _ _ HS) as [HF _]. rewrite Forall_forall in HF.
    destruct (nodup_app_mid _ _ _ HN) as [Hne _]. split; auto.
    apply key_lt_total; auto. intros Heq. apply (Hne e He). auto.
  Qed.

  Lemma g2_after : forall e, In e g2 -> key_lt spec (row_key r) (row_key e) = true /\ key_lt spec (row_key e) (row_key r) = false.
  Proof.
    intros e He. destruct (sorted_app_inv _ _ _ _ HS) as [_ HF]. rewrite Forall_forall in HF.
    destruct (nodup_app_mid _ _ _ HN) as [_ Hne]. split; auto.
    apply key_lt_total; auto.
  Qed.

  Lemma bisect_left_self : bisect_left (key_lt spec) row_key (g1 ++ r :: g2) (row_key r) = Z.of_nat (length g1).
  Proof.
    apply bisect_left_split.
    - intros e He. apply g1_before; auto.
    - intros e [<-|He]; [apply key_lt_irrefl|apply g2_after; auto].
  Qed.

  Lemma bisect_right_self : bisect_right (key_lt spec) row_key (g1 ++ r :: g2) (row_key r) = Z.of_nat (length g1) + 1.
  Proof.
    replace (g1 ++ r :: g2) with ((g1 ++ [r]) ++ g2) by (rewrite <- app_assoc; auto).
    rewrite (bisect_right_split _ _ (g1 ++ [r]) g2).
    - rewrite app_length. simpl. lia.
    - intros e He. apply in_app_or in He. destruct He as [He|[<-|[]]]; [apply g1_before; auto|apply key_lt_irrefl].
    - intros e He. apply g2_after; auto.
  Qed.

  Lemma find_previous_spec : find_previous (mkRset spec (g1 ++ r :: g2)) r = Ok (last_id g1).
  Proof.
    unfold find_previous. simpl. rewrite match_nonempty by auto.
    rewrite bisect_left_self, at_row_before. auto.
  Qed.

  Lemma find_next_spec : find_next (mkRset spec (g1 ++ r :: g2)) r = Ok (head_id g2).
  Proof.
    unfold find_next. simpl. rewrite match_nonempty by auto.
    rewrite bisect_right_self.
    replace (g1 ++ r :: g2) with ((g1 ++ [r]) ++ g2) by (rewrite <- app_assoc; auto).
    replace (Z.of_nat (length g1) + 1) with (Z.of_nat (length (g1 ++ [r]))) by (rewrite app_length; simpl; lia).
    rewrite at_row_at; auto.
  Qed.

  Lemma find_rank_asc_spec : find_rank (mkRset spec (g1 ++ r :: g2)) r true = Ok (Z.of_nat (length g1) + 1).
  Proof.
    unfold find_rank. simpl. rewrite match_nonempty by auto.
    rewrite bisect_left_self. auto.
  Qed.

  Lemma find_rank_desc_spec : find_rank (mkRset spec (g1 ++ r :: g2)) r false = Ok (Z.of_nat (length g2) + 1).
  Proof.
    unfold find_rank. simpl. rewrite match_nonempty by auto.
    rewrite bisect_left_self. f_equal. rewrite app_length. simpl. lia.
  Qed.

  Lemma count_before_spec : count_before spec r (g1 ++ r :: g2) = Z.of_nat (length g1).
  Proof.
    unfold count_before. f_equal. f_equal. rewrite filter_app. simpl. rewrite key_lt_irrefl.
    rewrite filter_all, filter_none.
    - apply app_nil_r.
    - intros e He. apply g2_after; auto.
    - intros e He. apply g1_before; auto.
  Qed.

  Lemma count_after_spec : count_after spec r (g1 ++ r :: g2) = Z.of_nat (length g2).
  Proof.
    unfold count_after. f_equal. f_equal. rewrite filter_app. simpl. rewrite key_lt_irrefl.
    rewrite filter_none, filter_all; auto.
    - intros e He. apply g2_after; auto.
    - intros e He. apply g1_before; auto.
  Qed.
End PrevNext.
(* ---------- the boolean domain check implies the domain hypotheses ---------- *)
Lemma all_comparable_spec : forall vss, all_comparable vss = true ->
  forall va vb, In va vss -> In vb vss -> vals_comparable va vb = true.
Proof.
  intros vss H va vb Ha Hb. unfold all_comparable in H. rewrite forallb_forall in H.
  specialize (H va Ha). rewrite forallb_forall in H. auto.
Qed.

Lemma all_comparable_dom : forall spec rows probes,
  (forall r, In r rows -> length (rvals r) = length spec) ->
  all_comparable (probes ++ map rvals rows) = true ->
  dom_ok spec rows /\ (forall vals, In vals probes -> probe_ok rows vals).
Proof.
  intros spec rows probes HL H. pose proof (all_comparable_spec _ H) as HC. split; [split; auto|].
  - intros a b Ia Ib. apply HC; apply in_or_app; right; apply in_map; auto.
  - intros vals Iv a Ia. apply HC; apply in_or_app; [right; apply in_map|left]; auto.
Qed.

(* ---------- permutations ---------- *)
Lemma dom_ok_perm : forall spec l l', Permutation l l' -> dom_ok spec l -> dom_ok spec l'.
Proof.
  intros spec l l' HP HD. apply (dom_ok_incl spec l); auto.
  intros x Hx. apply (Permutation_in _ (Permutation_sym HP)). auto.
Qed.

Lemma filter_perm_length : forall {A} (P : A -> bool) l l', Permutation l l' ->
  length (filter P l) = length (filter P l').
Proof.
  intros A P l l' H. induction H; simpl; auto.
  - destruct (P x); simpl; auto.
  - destruct (P x), (P y); simpl; auto.
  - congruence.
Qed.

(* ---------- PREVIOUS / NEXT / RANK over sorted(group) ---------- *)
Lemma prevnext_sorted_group : forall spec grp r,
  spec <> [] -> dom_ok spec grp -> NoDup (map rid grp) -> In r grp ->
  exists g1 g2,
    sort_rows spec grp = g1 ++ r :: g2 /\
    sorted_rows spec (g1 ++ r :: g2) /\
    find_previous (mkRset spec (sort_rows spec grp)) r = Ok (last_id g1) /\
    find_next (mkRset spec (sort_rows spec grp)) r = Ok (head_id g2) /\
    find_rank (mkRset spec (sort_rows spec grp)) r true = Ok (Z.of_nat (length g1) + 1) /\
    find_rank (mkRset spec (sort_rows spec grp)) r false = Ok (Z.of_nat (length g2) + 1) /\
    count_before spec r grp = Z.of_nat (length g1) /\
    count_after spec r grp = Z.of_nat (length g2).
Proof.
  intros spec grp r Hspec HD HN Ir.
  pose proof (sort_rows_perm spec grp) as HPm.
  assert (In r (sort_rows spec grp)) as Ir' by (apply (Permutation_in _ (Permutation_sym HPm)); auto).
  apply in_split in Ir'. destruct Ir' as (g1 & g2 & E).
  pose proof (sort_rows_sorted spec grp HD) as HS.
  assert (dom_ok spec (g1 ++ r :: g2)) as HD' by (rewrite <- E; apply (dom_ok_perm spec grp); auto using Permutation_sym).
  assert (NoDup (map rid (g1 ++ r :: g2))) as HN'.
  { rewrite <- E. apply (Permutation_NoDup (l := map rid grp)); auto. apply Permutation_map. apply Permutation_sym. auto. }
  rewrite E in *. exists g1, g2. repeat split; auto.
  - apply find_previous_spec; auto.
  - apply find_next_spec; auto.
  - apply find_rank_asc_spec; auto.
  - apply find_rank_desc_spec; auto.
  - rewrite <- (count_before_spec spec g1 g2 r); auto. unfold count_before. f_equal. apply filter_perm_length. apply Permutation_sym. auto.
  - rewrite <- (count_after_spec spec g1 g2 r); auto. unfold count_after. f_equal. apply filter_perm_length. apply Permutation_sym. auto.
Qed.

(* ---------- lookup_records ---------- *)

Lemma lookup_records_inv : forall tbl hm gkey ob sb rs,
  lookup_records tbl hm gkey ob sb = Some rs ->
  exists rows, rows_of (filter (fun r => group_match r gkey) tbl) (map fst (sort_cols ob sb hm)) = Some rows /\
               rs = mkRset (map snd (sort_cols ob sb hm)) (sort_rows (map snd (sort_cols ob sb hm)) rows).
Proof.
  intros tbl hm gkey ob sb rs. unfold lookup_records, sort_cols.
  destruct (rows_of tbl _) as [all|]; [|discriminate].
  destruct (rows_of (filter _ tbl) _) as [rows|]; [|discriminate]. intros H. injection H as <-. exists rows. auto.
Qed.

Lemma lookup_records_sorted : forall tbl hm gkey ob sb rs,
  lookup_records tbl hm gkey ob sb = Some rs -> dom_ok (rs_spec rs) (rs_rows rs) ->
  sorted_rows (rs_spec rs) (rs_rows rs).
Proof.
  intros tbl hm gkey ob sb rs H HD. apply lookup_records_inv in H. destruct H as (rows & _ & ->). simpl in *.
  apply sort_rows_sorted. apply (dom_ok_perm _ _ _ (sort_rows_perm (map snd (sort_cols ob sb hm)) rows)). auto.
Qed.

Lemma rows_of_ids : forall tbl cols rows, rows_of tbl cols = Some rows -> map rid rows = map t_id tbl.
Proof.
  induction tbl as [|r t IH]; simpl; intros cols rows H.
  - injection H as <-. auto.
  - destruct (cells_of r cols); [|discriminate]. destruct (rows_of t cols) eqn:E; [|discriminate].
    injection H as <-. simpl. f_equal. eauto.
Qed.

Lemma rows_of_in : forall tbl cols rows rec vs, rows_of tbl cols = Some rows -> In rec tbl ->
  cells_of rec cols = Some vs -> In (mkRow (t_id rec) vs) rows.
Proof.
  induction tbl as [|r t IH]; simpl; intros cols rows rec vs H Hi Hc; [contradiction|].
  destruct (cells_of r cols) eqn:E1; [|discriminate]. destruct (rows_of t cols) eqn:E2; [|discriminate].
  injection H as <-. destruct Hi as [->|Hi].
  - left. congruence.
  - right. eauto.
Qed.

Lemma NoDup_map_filter : forall {A B} (f : A -> B) (P : A -> bool) l, NoDup (map f l) -> NoDup (map f (filter P l)).
Proof.
  intros A B f P l. induction l as [|a l IH]; simpl; intros H; auto.
  inversion H; subst. destruct (P a); simpl; auto. constructor; auto.
  intros Hin. apply H2. apply in_map_iff in Hin. destruct Hin as (x & Hx & Hi). apply filter_In in Hi.
  apply in_map_iff. exists x. tauto.
Qed.

Lemma val_eqb_refl : forall v, val_eqb v v = true.
Proof. intros. unfold val_eqb. rewrite cmp3_refl. auto. Qed.

Lemma group_match_own : forall rec group_by gkey, gkey_of rec group_by = Some gkey -> group_match rec gkey = true.
Proof.
  intros rec. induction group_by as [|c t IH]; simpl; intros gkey H.
  - injection H as <-. auto.
  - destruct (cell rec c) eqn:Ec; [|discriminate]. destruct (gkey_of rec t) eqn:Eg; [|discriminate].
    injection H as <-. simpl. rewrite Ec, val_eqb_refl. simpl. auto.
Qed.

(* PREVIOUS / NEXT / RANK end to end *)
Lemma eval_prevnext_spec : forall tbl hm group_by ob rec_id rec gkey rs vs,
  NoDup (map t_id tbl) ->
  find (fun r => t_id r =? rec_id) tbl = Some rec ->
  gkey_of rec group_by = Some gkey ->
  lookup_records tbl hm gkey ob [] = Some rs ->
  cells_of rec (map fst (sort_cols ob [] hm)) = Some vs ->
  rs_spec rs <> [] ->
  dom_ok (rs_spec rs) (rs_rows rs) ->
  let r := mkRow rec_id vs in
  exists g1 g2,
    rs_rows rs = g1 ++ r :: g2 /\
    sorted_rows (rs_spec rs) (rs_rows rs) /\
    eval_prevnext OPrev tbl hm group_by ob rec_id = Ok (last_id g1) /\
    eval_prevnext ONext tbl hm group_by ob rec_id = Ok (head_id g2) /\
    eval_prevnext ORankAsc tbl hm group_by ob rec_id = Ok (Z.of_nat (length g1) + 1) /\
    eval_prevnext ORankDesc tbl hm group_by ob rec_id = Ok (Z.of_nat (length g2) + 1) /\
    count_before (rs_spec rs) r (rs_rows rs) = Z.of_nat (length g1) /\
    count_after (rs_spec rs) r (rs_rows rs) = Z.of_nat (length g2).
Proof.
  intros tbl hm group_by ob rec_id rec gkey rs vs HN Hf Hg Hl Hc Hspec HD r.
  pose proof Hl as Hl'. apply lookup_records_inv in Hl'. destruct Hl' as (rows & Hrows & ->). simpl in *.
  set (spec := map snd (sort_cols ob [] hm)) in *.
  apply find_some in Hf. destruct Hf as [Irec Hid]. apply Z.eqb_eq in Hid.
  assert (In r rows) as Ir.
  { unfold r. rewrite <- Hid. apply (rows_of_in _ _ _ _ _ Hrows); auto.
    apply filter_In. split; auto. apply (group_match_own _ group_by); auto. }
  assert (NoDup (map rid rows)) as HNr.
  { rewrite (rows_of_ids _ _ _ Hrows). apply NoDup_map_filter. auto. }
  assert (dom_ok spec rows) as HDr by (apply (dom_ok_perm _ _ _ (sort_rows_perm spec rows)); auto).
  destruct (prevnext_sorted_group spec rows r Hspec HDr HNr Ir) as (g1 & g2 & E & HS & Hp & Hn & Ha & Hd & Hcb & Hca).
  exists g1, g2. unfold eval_prevnext.
  assert (find (fun r0 => t_id r0 =? rec_id) tbl = Some rec) as ->.
  { clear -Irec Hid HN. induction tbl as [|a t IH]; [contradiction|]. simpl in *. inversion HN; subst.
    destruct Irec as [->|Hi].
    - rewrite Z.eqb_refl. auto.
    - destruct (Z.eqb_spec (t_id a) (t_id rec)) as [Heq|Hne]; auto.
      exfalso. apply H1. rewrite Heq. apply in_map. auto. }
  rewrite Hg, Hl. fold (sort_cols ob [] hm). rewrite Hc. fold r. fold spec.
  repeat split; auto.
  - rewrite E. auto.
  - rewrite <- Hcb. unfold count_before. f_equal. apply filter_perm_length. apply sort_rows_perm.
  - rewrite <- Hca. unfold count_after. f_equal. apply filter_perm_length. apply sort_rows_perm.
Qed.

(* find.* end to end *)
Lemma eval_find_spec : forall tbl hm gkey ob sb rs probe,
  lookup_records tbl hm gkey ob sb = Some rs ->
  rs_spec rs <> [] -> probe <> [] ->
  dom_ok (rs_spec rs) (rs_rows rs) -> probe_ok (rs_rows rs) probe ->
  sorted_rows (rs_spec rs) (rs_rows rs) /\
  eval_find OLt tbl hm gkey ob sb probe = Ok (lt_scan (rs_spec rs) probe (rs_rows rs)) /\
  eval_find OLe tbl hm gkey ob sb probe = Ok (le_scan (rs_spec rs) probe (rs_rows rs)) /\
  eval_find OGt tbl hm gkey ob sb probe = Ok (gt_scan (rs_spec rs) probe (rs_rows rs)) /\
  eval_find OGe tbl hm gkey ob sb probe = Ok (ge_scan (rs_spec rs) probe (rs_rows rs)) /\
  eval_find OEq tbl hm gkey ob sb probe = Ok (eq_scan (rs_spec rs) probe (rs_rows rs)).
Proof.
  intros tbl hm gkey ob sb rs probe Hl Hs Hp HD HP.
  pose proof (lookup_records_sorted _ _ _ _ _ _ Hl HD) as HS.
  unfold eval_find. rewrite Hl. destruct rs as [spec rows]. simpl in *.
  repeat split; auto.
  - apply find_lt_scan; auto.
  - apply find_le_scan; auto.
  - apply find_gt_scan; auto.
  - apply find_ge_scan; auto.
  - apply find_eq_scan; auto.
Qed.

(* the order is a strict total order on mutually comparable records with distinct ids *)
Lemma sortkey_strict_total : forall spec rows, dom_ok spec rows ->
  (forall a, key_lt spec (row_key a) (row_key a) = false) /\
  (forall a b, key_lt spec (row_key a) (row_key b) = true -> key_lt spec (row_key b) (row_key a) = false) /\
  (forall a b c, In a rows -> In b rows -> In c rows ->
     key_lt spec (row_key a) (row_key b) = true -> key_lt spec (row_key b) (row_key c) = true ->
     key_lt spec (row_key a) (row_key c) = true) /\
  (forall a b, rid a <> rid b ->
     key_lt spec (row_key a) (row_key b) = true \/ key_lt spec (row_key b) (row_key a) = true).
Proof.
  intros spec rows HD. repeat split.
  - apply key_lt_irrefl.
  - apply key_lt_asym.
  - intros a b c. apply key_lt_trans. auto.
  - intros a b Hne. destruct (key_lt spec (row_key a) (row_key b)) eqn:E; auto. right. apply key_lt_total; auto.
Qed.

(* bisect on sorted records with a probe key: the partition exists *)
Lemma bisect_left_probe : forall spec rows vals, dom_ok spec rows -> probe_ok rows vals -> sorted_rows spec rows ->
  exists l1 l2, rows = l1 ++ l2 /\
    bisect_left (key_lt spec) row_key rows (vals, RNegInf) = Z.of_nat (length l1) /\
    (forall e, In e l1 -> key_lt spec (row_key e) (vals, RNegInf) = true) /\
    (forall e, In e l2 -> key_lt spec (row_key e) (vals, RNegInf) = false).
Proof.
  intros spec rows vals HD HP HS. destruct (split_before _ _ _ HD HP HS) as (l1 & l2 & E & H1 & H2).
  exists l1, l2. assert (forall e, In e l1 -> key_lt spec (row_key e) (vals, RNegInf) = true) as K1.
  { intros e He. rewrite key_lt_probe_neg. auto. }
  assert (forall e, In e l2 -> key_lt spec (row_key e) (vals, RNegInf) = false) as K2.
  { intros e He. rewrite key_lt_probe_neg. auto. }
  repeat split; auto. rewrite E. apply bisect_left_split; auto.
Qed.

Lemma bisect_right_probe : forall spec rows vals, dom_ok spec rows -> probe_ok rows vals -> sorted_rows spec rows ->
  exists l1 l2, rows = l1 ++ l2 /\
    bisect_right (key_lt spec) row_key rows (vals, RPosInf) = Z.of_nat (length l1) /\
    (forall e, In e l1 -> key_lt spec (vals, RPosInf) (row_key e) = false) /\
    (forall e, In e l2 -> key_lt spec (vals, RPosInf) (row_key e) = true).
Proof.
  intros spec rows vals HD HP HS. destruct (split_not_after _ _ _ HD HP HS) as (l1 & l2 & E & H1 & H2).
  exists l1, l2. assert (forall e, In e l1 -> key_lt spec (vals, RPosInf) (row_key e) = false) as K1.
  { intros e He. rewrite key_lt_probe_pos. auto. }
  assert (forall e, In e l2 -> key_lt spec (vals, RPosInf) (row_key e) = true) as K2.
  { intros e He. rewrite key_lt_probe_pos. auto. }
  repeat split; auto. rewrite E. apply bisect_right_split; auto.
Qed.

Lemma rset_okb_spec : forall spec rows probes, rset_okb spec rows probes = true ->
  dom_ok spec rows /\ (forall vals, In vals probes -> probe_ok rows vals).
Proof.
  intros spec rows probes H. unfold rset_okb in H. apply andb_prop in H. destruct H as [HL HC].
  apply all_comparable_dom; auto. intros r Hr. rewrite forallb_forall in HL. apply Nat.eqb_eq. auto.
Qed.
