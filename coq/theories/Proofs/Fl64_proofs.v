(* Lemmas about Lib/Fl64.v: the order on doubles, exactness of the operations on small integers, and
   monotonicity of rounding (used by Proofs/Relabel_proofs.v, property C20). *)
From Coq Require Import ZArith List Bool Lia.
Import ListNotations.
Require Import Grist.Lib.Fl64.
Open Scope Z_scope.

(* ---------------------------------------------------------------------------------------------- *)
(* order *)

Lemma flt_iff a b : flt a b = true <-> is_nan a = false /\ is_nan b = false /\ ford a < ford b.
Proof.
  unfold flt. destruct (is_nan a), (is_nan b); cbn; rewrite ?Z.ltb_lt; intuition (try discriminate; auto).
Qed.
Lemma fle_iff a b : fle a b = true <-> is_nan a = false /\ is_nan b = false /\ ford a <= ford b.
Proof.
  unfold fle. destruct (is_nan a), (is_nan b); cbn; rewrite ?Z.leb_le; intuition (try discriminate; auto).
Qed.
Lemma feq_iff a b : feq a b = true <-> is_nan a = false /\ is_nan b = false /\ ford a = ford b.
Proof.
  unfold feq. destruct (is_nan a), (is_nan b); cbn; rewrite ?Z.eqb_eq; intuition (try discriminate; auto).
Qed.
Lemma flt_false a b : is_nan a = false -> is_nan b = false -> flt a b = false -> ford b <= ford a.
Proof. intros Ha Hb. unfold flt. rewrite Ha, Hb. cbn. rewrite Z.ltb_ge. tauto. Qed.
Lemma fle_false a b : is_nan a = false -> is_nan b = false -> fle a b = false -> ford b < ford a.
Proof. intros Ha Hb. unfold fle. rewrite Ha, Hb. cbn. rewrite Z.leb_gt. tauto. Qed.
Lemma feq_false a b : is_nan a = false -> is_nan b = false -> feq a b = false -> ford a <> ford b.
Proof. intros Ha Hb. unfold feq. rewrite Ha, Hb. cbn. rewrite Z.eqb_neq. tauto. Qed.

Lemma flt_trans a b c : flt a b = true -> flt b c = true -> flt a c = true.
Proof. rewrite !flt_iff. intuition lia. Qed.
Lemma fle_trans a b c : fle a b = true -> fle b c = true -> fle a c = true.
Proof. rewrite !fle_iff. intuition lia. Qed.
Lemma flt_fle_trans a b c : flt a b = true -> fle b c = true -> flt a c = true.
Proof. rewrite !flt_iff, fle_iff. intuition lia. Qed.
Lemma fle_flt_trans a b c : fle a b = true -> flt b c = true -> flt a c = true.
Proof. rewrite !flt_iff, fle_iff. intuition lia. Qed.
Lemma flt_fle a b : flt a b = true -> fle a b = true.
Proof. rewrite flt_iff, fle_iff. intuition lia. Qed.
Lemma flt_irrefl a : flt a a = false.
Proof. destruct (flt a a) eqn:E; [apply flt_iff in E; intuition lia | reflexivity]. Qed.
Lemma flt_asym a b : flt a b = true -> flt b a = false.
Proof.
  intros H. destruct (flt b a) eqn:E; [|reflexivity]. apply flt_iff in H. apply flt_iff in E. intuition lia.
Qed.
Lemma finite_not_nan x : is_finite x = true -> is_nan x = false.
Proof. destruct x; cbn; congruence. Qed.

(* ---------------------------------------------------------------------------------------------- *)
(* constants *)

Lemma P53_eq : P53 = 2 ^ 53. Proof. reflexivity. Qed.
Lemma P52_eq : P52 = 2 ^ 52. Proof. reflexivity. Qed.
Lemma UOVER_eq : UOVER = 2 ^ 2098. Proof. vm_compute. reflexivity. Qed.
Lemma UINF_eq : UINF = 2 ^ 2100. Proof. vm_compute. reflexivity. Qed.
Lemma pow2_pos' n : 0 <= n -> 0 < 2 ^ n.
Proof. intros. apply Z.pow_pos_nonneg; lia. Qed.
Lemma ulp_exp_nonneg u : 0 <= ulp_exp u.
Proof. unfold ulp_exp. lia. Qed.

(* ---------------------------------------------------------------------------------------------- *)
(* rounding an exactly representable value returns it *)

Lemma round_p2_exact neg u s :
  0 <= s -> 0 <= u < UOVER -> u mod 2 ^ ulp_exp u = 0 -> round_p2 neg (u * 2 ^ s) s = FFin neg u.
Proof.
  intros Hs Hu Hdiv. unfold round_p2.
  assert (Hsh : Z.shiftr (u * 2 ^ s) s = u).
  { rewrite Z.shiftr_div_pow2 by lia. apply Z.div_mul. pose proof (pow2_pos' s Hs). lia. }
  rewrite Hsh. set (k := ulp_exp u) in *. assert (Hk : 0 <= k) by apply ulp_exp_nonneg.
  assert (Hpk : 0 < 2 ^ k) by (apply pow2_pos'; lia).
  assert (Hps : 0 < 2 ^ s) by (apply pow2_pos'; lia).
  apply Z.mod_divide in Hdiv; [|lia]. destruct Hdiv as [c Hc].
  assert (Hr : rne_p2 (u * 2 ^ s) (s + k) = c).
  { unfold rne_p2. destruct (s + k <=? 0) eqn:E.
    - apply Z.leb_le in E. assert (s = 0) by lia. assert (k = 0) by lia. subst s.
      rewrite H0 in Hc. cbn in Hc. cbn. lia.
    - apply Z.leb_gt in E.
      rewrite Z.shiftr_div_pow2, Z.land_ones, Z.shiftl_mul_pow2 by lia.
      assert (Heq : u * 2 ^ s = c * 2 ^ (s + k)).
      { rewrite Z.pow_add_r by lia. rewrite Hc. ring. }
      rewrite Heq. rewrite Z.mod_mul, Z.div_mul by (pose proof (pow2_pos' (s + k)); lia).
      assert (0 < 2 ^ (s + k - 1)) by (apply pow2_pos'; lia).
      destruct (Z.compare_spec 0 (1 * 2 ^ (s + k - 1))); lia. }
  rewrite Hr. rewrite Z.shiftl_mul_pow2 by lia. rewrite <- Hc.
  destruct (UOVER <=? u) eqn:E; [apply Z.leb_le in E; lia | reflexivity].
Qed.

(* small integers *)
Definition fint (z : Z) : fl := FFin false (z * 2 ^ 1074).

Lemma int_representable z :
  0 <= z < 2 ^ 53 -> 0 <= z * 2 ^ 1074 < UOVER /\ (z * 2 ^ 1074) mod 2 ^ ulp_exp (z * 2 ^ 1074) = 0.
Proof.
  intros Hz. assert (H1074 : 0 < 2 ^ 1074) by (apply pow2_pos'; lia). split.
  - split; [nia|]. rewrite UOVER_eq.
    apply Z.lt_le_trans with (2 ^ 53 * 2 ^ 1074); [nia|].
    rewrite <- Z.pow_add_r by lia. apply Z.pow_le_mono_r; lia.
  - destruct (Z.eq_dec z 0) as [->|Hnz]; [reflexivity|].
    unfold ulp_exp. rewrite Z.log2_mul_pow2 by lia.
    assert (Hl : Z.log2 z < 53) by (apply Z.log2_lt_pow2; lia).
    assert (0 <= Z.log2 z) by apply Z.log2_nonneg.
    rewrite Z.max_r by lia.
    replace (1074 + Z.log2 z - 52) with (1022 + Z.log2 z) by lia.
    replace (2 ^ 1074) with (2 ^ (52 - Z.log2 z) * 2 ^ (1022 + Z.log2 z)).
    + rewrite Z.mul_assoc. apply Z.mod_mul. pose proof (pow2_pos' (1022 + Z.log2 z)). lia.
    + rewrite <- Z.pow_add_r by lia. f_equal. lia.
Qed.

Lemma round_int neg z s : 0 <= s -> 0 <= z < 2 ^ 53 -> round_p2 neg (z * 2 ^ 1074 * 2 ^ s) s = FFin neg (z * 2 ^ 1074).
Proof. intros Hs Hz. destruct (int_representable z Hz). apply round_p2_exact; auto. Qed.

Lemma of_Z_int z : 0 <= z < 2 ^ 53 -> of_Z z = fint z.
Proof.
  intros Hz. unfold of_Z, fint. destruct (z =? 0) eqn:E.
  - apply Z.eqb_eq in E. subst. reflexivity.
  - apply Z.eqb_neq in E. replace (z <? 0) with false by (symmetry; apply Z.ltb_ge; lia).
    rewrite Z.abs_eq by lia. rewrite Z.shiftl_mul_pow2 by lia.
    replace (z * 2 ^ 1074) with (z * 2 ^ 1074 * 2 ^ 0) at 1 by (rewrite Z.pow_0_r; ring).
    apply round_int; lia.
Qed.

Lemma fadd_int a b : 0 <= a -> 0 <= b -> a + b < 2 ^ 53 -> fadd (fint a) (fint b) = fint (a + b).
Proof.
  intros Ha Hb Hab. unfold fadd, fint, sval.
  assert (H1074 : 0 < 2 ^ 1074) by (apply pow2_pos'; lia).
  destruct (a * 2 ^ 1074 + b * 2 ^ 1074 =? 0) eqn:E.
  - apply Z.eqb_eq in E. assert (a + b = 0) by nia. rewrite H. reflexivity.
  - apply Z.eqb_neq in E. replace (a * 2 ^ 1074 + b * 2 ^ 1074 <? 0) with false by (symmetry; apply Z.ltb_ge; nia).
    rewrite Z.abs_eq by nia.
    replace (a * 2 ^ 1074 + b * 2 ^ 1074) with ((a + b) * 2 ^ 1074 * 2 ^ 0) by (rewrite Z.pow_0_r; ring).
    apply round_int; lia.
Qed.

Lemma fsub_int a b : 0 <= b <= a -> a < 2 ^ 53 -> fsub (fint a) (fint b) = fint (a - b).
Proof.
  intros Hb Ha. unfold fsub, fneg, fadd, fint, sval. cbn [negb andb].
  assert (H1074 : 0 < 2 ^ 1074) by (apply pow2_pos'; lia).
  destruct (a * 2 ^ 1074 + - (b * 2 ^ 1074) =? 0) eqn:E.
  - apply Z.eqb_eq in E. assert (a - b = 0) by nia. rewrite H. reflexivity.
  - apply Z.eqb_neq in E.
    replace (a * 2 ^ 1074 + - (b * 2 ^ 1074) <? 0) with false by (symmetry; apply Z.ltb_ge; nia).
    rewrite Z.abs_eq by nia.
    replace (a * 2 ^ 1074 + - (b * 2 ^ 1074)) with ((a - b) * 2 ^ 1074 * 2 ^ 0) by (rewrite Z.pow_0_r; ring).
    apply round_int; lia.
Qed.

Lemma fmul_one_int k : 0 <= k < 2 ^ 53 -> fmul (fint 1) (fint k) = fint k.
Proof.
  intros Hk. unfold fmul, fint. cbn [xorb].
  replace (1 * 2 ^ 1074 * (k * 2 ^ 1074)) with (k * 2 ^ 1074 * 2 ^ 1074) by ring.
  apply round_int; lia.
Qed.

Lemma rne_exact q D : 0 < D -> rne (q * D) D = q.
Proof.
  intros HD. unfold rne. rewrite Z.div_mul, Z.mod_mul by lia.
  destruct (Z.compare_spec (2 * 0) D); lia.
Qed.

Lemma ulp_exp_int a : 0 < a < 2 ^ 53 -> ulp_exp (a * 2 ^ 1074) = 1022 + Z.log2 a.
Proof.
  intros Ha. unfold ulp_exp. rewrite Z.log2_mul_pow2 by lia.
  pose proof (Z.log2_nonneg a). lia.
Qed.

Lemma fdiv_int_self a : 0 < a < 2 ^ 53 -> fdiv (fint a) (fint a) = fint 1.
Proof.
  intros Ha. unfold fdiv, fint. cbn [xorb].
  assert (H1074 : 0 < 2 ^ 1074) by (apply pow2_pos'; lia).
  replace (a * 2 ^ 1074 =? 0) with false by (symmetry; apply Z.eqb_neq; nia).
  rewrite ulp_exp_int by lia.
  assert (Hl : Z.log2 a < 53) by (apply Z.log2_lt_pow2; lia).
  assert (Hl0 : 0 <= Z.log2 a) by apply Z.log2_nonneg.
  set (m := Z.shiftr (a * 2 ^ 1074) (1022 + Z.log2 a)).
  assert (Hm : m = a * 2 ^ (52 - Z.log2 a)).
  { unfold m. rewrite Z.shiftr_div_pow2 by lia.
    replace (2 ^ 1074) with (2 ^ (52 - Z.log2 a) * 2 ^ (1022 + Z.log2 a))
      by (rewrite <- Z.pow_add_r by lia; f_equal; lia).
    rewrite Z.mul_assoc. apply Z.div_mul. pose proof (pow2_pos' (1022 + Z.log2 a)). lia. }
  assert (Hmpos : 0 < m) by (rewrite Hm; pose proof (pow2_pos' (52 - Z.log2 a)); nia).
  replace (1022 + Z.log2 a + 1074 - (1022 + Z.log2 a)) with 1074 by lia.
  cbn [Z.leb Z.compare].
  rewrite (Z.shiftl_mul_pow2 m 1074) by lia.
  replace (m * 2 ^ 1074 / m) with (2 ^ 1074) by (rewrite Z.mul_comm, Z.div_mul; lia).
  replace (ulp_exp (2 ^ 1074)) with 1022
    by (unfold ulp_exp; rewrite Z.log2_pow2 by lia; reflexivity).
  replace (1074 - 1022) with 52 by lia.
  rewrite (Z.shiftl_mul_pow2 m 52) by lia.
  rewrite Z.mul_comm, rne_exact by lia.
  rewrite Z.shiftl_mul_pow2 by lia. rewrite <- Z.pow_add_r by lia. change (52 + 1022) with 1074.
  unfold fin_or_inf. replace (UOVER <=? 2 ^ 1074) with false.
  - f_equal; lia.
  - symmetry. apply Z.leb_gt. rewrite UOVER_eq. apply Z.pow_lt_mono_r; lia.
Qed.

Lemma ford_fint a : ford (fint a) = a * 2 ^ 1074.
Proof. reflexivity. Qed.
Lemma flt_fint a b : flt (fint a) (fint b) = (a <? b).
Proof.
  unfold flt. cbn [is_nan fint negb andb]. rewrite !ford_fint.
  assert (H1074 : 0 < 2 ^ 1074) by (apply pow2_pos'; lia).
  destruct (Z.ltb_spec a b); [apply Z.ltb_lt | apply Z.ltb_ge]; nia.
Qed.
Lemma feq_fint a b : feq (fint a) (fint b) = (a =? b).
Proof.
  unfold feq. cbn [is_nan fint negb andb]. rewrite !ford_fint.
  assert (H1074 : 0 < 2 ^ 1074) by (apply pow2_pos'; lia).
  destruct (Z.eqb_spec a b); [apply Z.eqb_eq | apply Z.eqb_neq]; nia.
Qed.
Lemma fle_fint a b : fle (fint a) (fint b) = (a <=? b).
Proof.
  unfold fle. cbn [is_nan fint negb andb]. rewrite !ford_fint.
  assert (H1074 : 0 < 2 ^ 1074) by (apply pow2_pos'; lia).
  destruct (Z.leb_spec a b); [apply Z.leb_le | apply Z.leb_gt]; nia.
Qed.

(* prevfloat of the integer a+1 is not below the integer a *)
Lemma prevfloat_int_ge a : 0 <= a -> a + 1 < 2 ^ 53 ->
  exists u, prevfloat (fint (a + 1)) = FFin false u /\ a * 2 ^ 1074 <= u.
Proof.
  intros Ha Hb. unfold prevfloat, fint.
  assert (H1074 : 0 < 2 ^ 1074) by (apply pow2_pos'; lia).
  set (u := (a + 1) * 2 ^ 1074).
  assert (Hu : 2 ^ 1074 <= u) by (unfold u; nia).
  replace (u =? 0) with false by (symmetry; apply Z.eqb_neq; lia).
  eexists; split; [reflexivity|]. unfold upred.
  assert (H53 : P53 < 2 ^ 1074) by (rewrite P53_eq; apply Z.pow_lt_mono_r; lia).
  replace (u <=? P53) with false by (symmetry; apply Z.leb_gt; lia).
  set (k := Z.log2 (u - 1) - 52).
  assert (Hk0 : 0 <= k).
  { unfold k. assert (52 <= Z.log2 (u - 1)); [|lia].
    apply Z.log2_le_pow2; [lia|]. assert (2 ^ 52 < 2 ^ 1074) by (apply Z.pow_lt_mono_r; lia). lia. }
  assert (Hk1 : k <= 1074).
  { unfold k. assert (Z.log2 (u - 1) <= Z.log2 u) by (apply Z.log2_le_mono; lia).
    assert (Hlu : Z.log2 u = 1074 + Z.log2 (a + 1)) by (unfold u; apply Z.log2_mul_pow2; lia).
    assert (Z.log2 (a + 1) < 53) by (apply Z.log2_lt_pow2; lia). lia. }
  rewrite Z.shiftr_div_pow2, Z.shiftl_mul_pow2 by lia.
  assert (Hpk : 0 < 2 ^ k) by (apply pow2_pos'; lia).
  assert (Hsplit : 2 ^ 1074 = 2 ^ (1074 - k) * 2 ^ k) by (rewrite <- Z.pow_add_r by lia; f_equal; lia).
  assert (Hle : a * 2 ^ (1074 - k) <= (u - 1) / 2 ^ k).
  { apply Z.div_le_lower_bound; [lia|]. unfold u. rewrite Hsplit.
    pose proof (pow2_pos' (1074 - k)). nia. }
  rewrite Hsplit. nia.
Qed.
