(* Proofs about Model/Lookup.v (C13).  Part 5: histories of table writes and index maintenance; the sorted
   versions cache; lookups refine filter + sort. *)
From Coq Require Import ZArith List Bool Lia QArith Permutation Sorted.
Import ListNotations.
Require Import Grist.Model.Lookup Grist.Proofs.Lookup_proofs Grist.Proofs.LookupVal_proofs
  Grist.Proofs.LookupIndex_proofs Grist.Proofs.LookupSort_proofs.
Open Scope Z_scope.

(* ---- tables ------------------------------------------------------------------------------- *)

Definition cells_of (colids : list str) (t : table) (r : Z) : option (list val) :=
  match tbl_get t r with Some d => row_cells d colids | None => None end.

(* the keys under which row r of the table should be found *)
Definition keys_of_row (cols : list colspec) (colids : list str) (t : table) (r : Z) : list key :=
  match cells_of colids t r with Some cells => keys_of cols cells | None => [] end.

Definition tbl_ok (t : table) : Prop := NoDup (map fst t).

Lemma tbl_get_del : forall t r r', tbl_get (tbl_del t r) r' = if Z.eqb r r' then None else tbl_get t r'.
Proof.
  unfold tbl_del. induction t as [|[r0 d] t IH]; intros r r'; cbn [filter fst tbl_get].
  - now destruct (Z.eqb r r').
  - destruct (Z.eqb r0 r) eqn:E0; cbn [negb tbl_get].
    + rewrite IH. apply Z.eqb_eq in E0. subst r0. destruct (Z.eqb r r'); reflexivity.
    + rewrite IH. destruct (Z.eqb r0 r') eqn:E1; [|reflexivity].
      apply Z.eqb_eq in E1. subst r0. rewrite Z.eqb_sym, E0. reflexivity.
Qed.

Lemma tbl_get_app_miss : forall t u r, tbl_get t r = None -> tbl_get (t ++ u) r = tbl_get u r.
Proof.
  induction t as [|[r0 d] t IH]; intros u r H; cbn in *; [reflexivity|].
  destruct (Z.eqb r0 r); [discriminate|auto].
Qed.

Lemma tbl_get_app_hit : forall t u r d, tbl_get t r = Some d -> tbl_get (t ++ u) r = Some d.
Proof.
  induction t as [|[r0 d0] t IH]; intros u r d H; cbn in *; [discriminate|].
  destruct (Z.eqb r0 r); auto.
Qed.

Lemma tbl_get_set : forall t r d r', tbl_get (tbl_set t r d) r' = if Z.eqb r r' then Some d else tbl_get t r'.
Proof.
  intros t r d r'. unfold tbl_set. destruct (Z.eqb r r') eqn:E.
  - rewrite tbl_get_app_miss by (rewrite tbl_get_del, E; reflexivity). cbn. now rewrite E.
  - destruct (tbl_get t r') as [d'|] eqn:G.
    + apply tbl_get_app_hit. now rewrite tbl_get_del, E.
    + rewrite tbl_get_app_miss by (rewrite tbl_get_del, E; exact G). cbn. now rewrite E.
Qed.

Lemma tbl_del_ids : forall t r x, In x (map fst (tbl_del t r)) <-> In x (map fst t) /\ x <> r.
Proof.
  intros t r x. unfold tbl_del. rewrite !in_map_iff. split.
  - intros [[r0 d] [<- H]]. apply filter_In in H. destruct H as [H1 H2]. cbn in *.
    split; [exists (r0, d); auto|]. intros ->. now rewrite Z.eqb_refl in H2.
  - intros [[[r0 d] [<- H]] N]. exists (r0, d). split; [reflexivity|]. apply filter_In. split; [exact H|].
    cbn in *. destruct (Z.eqb_spec r0 r); [contradiction|reflexivity].
Qed.

Lemma tbl_ok_del : forall t r, tbl_ok t -> tbl_ok (tbl_del t r).
Proof.
  unfold tbl_ok, tbl_del. induction t as [|[r0 d] t IH]; intros r H; cbn; [constructor|].
  inversion H; subst. destruct (negb (Z.eqb r0 r)); cbn; [|auto].
  constructor; [|auto]. intros Hin. apply (tbl_del_ids t r r0) in Hin. tauto.
Qed.

Lemma NoDup_snoc : forall (l : list Z) x, NoDup l -> ~ In x l -> NoDup (l ++ [x]).
Proof.
  induction l as [|y l IH]; intros x H N; cbn; [constructor; [intros []|constructor]|].
  inversion H; subst. constructor.
  - intros Hin. apply in_app_or in Hin. destruct Hin as [Hin|[->|[]]]; [contradiction|]. apply N. left; reflexivity.
  - apply IH; auto. intros Hin. apply N. right. exact Hin.
Qed.

Lemma tbl_ok_set : forall t r d, tbl_ok t -> tbl_ok (tbl_set t r d).
Proof.
  intros t r d H. unfold tbl_ok, tbl_set. rewrite map_app. cbn.
  apply NoDup_snoc; [apply tbl_ok_del; exact H|]. intros Hin. apply tbl_del_ids in Hin. tauto.
Qed.

Lemma tbl_get_in : forall t r, (exists d, tbl_get t r = Some d) <-> In r (map fst t).
Proof.
  induction t as [|[r0 d0] t IH]; intros r; cbn.
  - split; [intros [d H]; discriminate|intros []].
  - destruct (Z.eqb_spec r0 r) as [->|N].
    + split; [auto|eauto].
    + rewrite IH. split; [auto|intros [E|H]; [contradiction|exact H]].
Qed.

Lemma tbl_get_filter : forall t r d, tbl_ok t -> (tbl_get t r = Some d <-> In (r, d) t).
Proof.
  induction t as [|[r0 d0] t IH]; intros r d H; cbn.
  - split; [discriminate|intros []].
  - inversion H as [|? ? Hn Hd]; subst. destruct (Z.eqb_spec r0 r) as [->|N].
    + split; [intros E; inversion E; auto|]. intros [E|Hin]; [inversion E; reflexivity|].
      exfalso. apply Hn. apply in_map_iff. exists (r, d). auto.
    + rewrite (IH r d Hd). split; [auto|]. intros [E|Hin]; [inversion E; contradiction|exact Hin].
Qed.

(* ---- which rows still need index maintenance ---------------------------------------------- *)

(* dirty r: the row was written/removed (or unset while present) and update_record/unset has not run since;
   pending r s: the row was written and _reset_sorted_versions(rec r, s) has not run since *)
Record track := mkTrack { tk_world : world; tk_dirty : Z -> bool; tk_pending : Z -> sortspec -> bool }.

Definition upd {A} (f : Z -> A) (r : Z) (v : A) : Z -> A := fun r' => if Z.eqb r r' then v else f r'.

Definition step_track (cols : list colspec) (colids : list str) (k : track) (s : step) : track :=
  let w := tk_world k in
  let w' := fst (step_world cols colids w s) in
  match s with
  | SWrite r _ => mkTrack w' (upd (tk_dirty k) r true) (upd (tk_pending k) r (fun _ => true))
  | SDelete r => mkTrack w' (upd (tk_dirty k) r true) (tk_pending k)
  | SUpdate r =>
      match cells_of colids (w_tbl w) r with
      | Some _ => mkTrack w' (upd (tk_dirty k) r false) (tk_pending k)
      | None => mkTrack w' (tk_dirty k) (tk_pending k)
      end
  | SUnset r =>
      (* the row leaves every set, so no sorted version can be stale because of it any more *)
      mkTrack w' (upd (tk_dirty k) r (match tbl_get (w_tbl w) r with Some _ => true | None => false end))
              (upd (tk_pending k) r (fun _ => false))
  | SReset r s0 =>
      match cells_of colids (w_tbl w) r with
      | Some _ => mkTrack w' (tk_dirty k)
                    (fun r' s' => if Z.eqb r r' && spec_eqb s0 s' then false else tk_pending k r' s')
      | None => mkTrack w' (tk_dirty k) (tk_pending k)
      end
  | SLookup _ _ => mkTrack w' (tk_dirty k) (tk_pending k)
  end.

Definition track0 : track := mkTrack world0 (fun _ => false) (fun _ _ => false).

Definition run_track (cols : list colspec) (colids : list str) (tr : list step) : track :=
  fold_left (step_track cols colids) tr track0.

Lemma run_track_world : forall cols colids tr k,
  tk_world (fold_left (step_track cols colids) tr k) = run_world cols colids (tk_world k) tr.
Proof.
  induction tr as [|s tr IH]; intros k; cbn; [reflexivity|]. rewrite IH. f_equal.
  destruct s; cbn; try reflexivity.
  - unfold cells_of. destruct (tbl_get (w_tbl (tk_world k)) r); [destruct (row_cells r0 colids)|]; reflexivity.
  - unfold cells_of. destruct (tbl_get (w_tbl (tk_world k)) r); [destruct (row_cells r0 colids)|]; reflexivity.
Qed.

(* ---- the invariant ------------------------------------------------------------------------ *)

Section Inv.
  Variables (cols : list colspec) (colids : list str).

  Definition synced (k : track) : Prop :=
    forall r, tk_dirty k r = false ->
      forall key, mrel (w_idx (tk_world k)) r key =
                  memb vals_eqb key (keys_of_row cols colids (w_tbl (tk_world k)) r).

  (* every remembered sorted version is the sort of its set under the current cell values, unless a row of
     the set awaits its reset for that spec or is about to leave the set *)
  Definition cache_inv (k : track) : Prop :=
    let w := tk_world k in
    forall key b s rows, dget vals_eqb (bwd (w_idx w)) key = Some b -> cache_get (cache b) s = Some rows ->
      sort_rows (w_tbl w) s (items b) = Some rows \/
      exists r, In r (items b) /\
        (tk_pending k r s = true \/ memb vals_eqb key (keys_of_row cols colids (w_tbl w) r) = false).

  Definition inv (k : track) : Prop :=
    lm_inv cols (w_idx (tk_world k)) /\ tbl_ok (w_tbl (tk_world k)) /\ synced k /\ cache_inv k.
End Inv.

Section InvFacts.
  Variables (cols : list colspec) (colids : list str).

  Definition cinv (p : Z -> sortspec -> bool) (t : table) (bw : dict key (bin Z)) : Prop :=
    forall key b s rows, dget vals_eqb bw key = Some b -> cache_get (cache b) s = Some rows ->
      sort_rows t s (items b) = Some rows \/
      exists r, In r (items b) /\
        (p r s = true \/ memb vals_eqb key (keys_of_row cols colids t r) = false).

  Lemma cache_inv_cinv : forall k, cache_inv cols colids k <->
    cinv (tk_pending k) (w_tbl (tk_world k)) (bwd (w_idx (tk_world k))).
  Proof. intros. reflexivity. Qed.

  (* index maintenance that leaves a bin alone or clears its cache keeps the cache invariant *)
  Lemma cinv_soc : forall p t bw bw', cinv p t bw -> stable_or_cleared vals_eqb bw bw' -> cinv p t bw'.
  Proof.
    intros p t bw bw' H S key b s rows Hg Hc.
    destruct (S key) as [[Hi Hca]|Hcl].
    - unfold items_of, cache_of in Hi, Hca. rewrite Hg in Hi, Hca.
      destruct (dget vals_eqb bw key) as [b0|] eqn:G0.
      + rewrite Hi. apply (H key b0 s rows G0). now rewrite <- Hca.
      + rewrite Hca in Hc. discriminate.
    - unfold cache_of in Hcl. rewrite Hg in Hcl. rewrite Hcl in Hc. discriminate.
  Qed.

  Lemma cells_of_set_other : forall t r d r', Z.eqb r r' = false -> cells_of colids (tbl_set t r d) r' = cells_of colids t r'.
  Proof. intros. unfold cells_of. now rewrite tbl_get_set, H. Qed.
  Lemma cells_of_del_other : forall t r r', Z.eqb r r' = false -> cells_of colids (tbl_del t r) r' = cells_of colids t r'.
  Proof. intros. unfold cells_of. now rewrite tbl_get_del, H. Qed.
  Lemma cells_of_del_same : forall t r, cells_of colids (tbl_del t r) r = None.
  Proof. intros. unfold cells_of. now rewrite tbl_get_del, Z.eqb_refl. Qed.

  Lemma sort_values_get : forall t t' s r, tbl_get t r = tbl_get t' r -> sort_values t s r = sort_values t' s r.
  Proof. induction s as [|c s IH]; intros r H; cbn; [reflexivity|]. now rewrite H, (IH r H). Qed.

  Lemma in_items_neq : forall (l : list Z) r, ~ In r l -> forall r', In r' l -> Z.eqb r r' = false.
  Proof. intros l r N r' H. destruct (Z.eqb_spec r r'); [subst; contradiction|reflexivity]. Qed.

  (* a table change at row r: versions of sets that do not contain r stay valid, the others are excused *)
  Lemma cinv_table_change : forall p p' t t' bw r,
    cinv p t bw ->
    (forall r', Z.eqb r r' = false -> tbl_get t' r' = tbl_get t r') ->
    (forall r' s, Z.eqb r r' = false -> p r' s = true -> p' r' s = true) ->
    ((forall s, p' r s = true) \/ cells_of colids t' r = None) ->
    cinv p' t' bw.
  Proof.
    intros p p' t t' bw r H Ht Hp Hr key b s rows Hg Hc.
    destruct (in_dec Z.eq_dec r (items b)) as [Hin|Hnin].
    - right. exists r. split; [exact Hin|]. destruct Hr as [Hr|Hr]; [left; apply Hr|right].
      unfold keys_of_row. now rewrite Hr.
    - pose proof (in_items_neq (items b) r Hnin) as Hne.
      destruct (H key b s rows Hg Hc) as [Hs|[r0 [Hin0 Hex]]].
      + left. rewrite <- Hs. apply sort_rows_ext. intros r' Hr'. apply sort_values_get. apply Ht. auto.
      + right. exists r0. split; [exact Hin0|]. destruct Hex as [Hex|Hex]; [left; apply Hp; auto|right].
        unfold keys_of_row, cells_of in *. now rewrite (Ht r0 (Hne r0 Hin0)).
  Qed.
End InvFacts.

(* ---- changes that touch only the sorted versions ------------------------------------------ *)

Lemma cache_pop_idem : forall c s, cache_pop (cache_pop c s) s = cache_pop c s.
Proof.
  intros c s. unfold cache_pop. induction c as [|[s' l] c IH]; cbn; [reflexivity|].
  destruct (spec_eqb s' s) eqn:E; cbn; [exact IH|]. rewrite E. cbn. now rewrite IH.
Qed.

Lemma cache_get_pop : forall c s s', cache_get (cache_pop c s) s' = if spec_eqb s s' then None else cache_get c s'.
Proof.
  intros c s s'. unfold cache_pop. induction c as [|[s0 l] c IH]; cbn.
  - now destruct (spec_eqb s s').
  - destruct (spec_eqb s0 s) eqn:E; cbn.
    + apply spec_eqb_eq in E. subst s0. rewrite IH. destruct (spec_eqb s s'); reflexivity.
    + rewrite IH. destruct (spec_eqb s0 s') eqn:E1; [|reflexivity].
      apply spec_eqb_eq in E1. subst s0. destruct (spec_eqb s s') eqn:E2; [|reflexivity].
      apply spec_eqb_eq in E2. subst s'. assert (X : spec_eqb s s = true) by now apply spec_eqb_eq. congruence.
Qed.

Lemma pop_each_get : forall ks bw s k, dget vals_eqb (pop_each bw ks s) k =
  match dget vals_eqb bw k with
  | Some b => Some (mkBin (items b) (if memb vals_eqb k ks then cache_pop (cache b) s else cache b))
  | None => None
  end.
Proof.
  induction ks as [|k0 ks IH]; intros bw s k; cbn [pop_each memb].
  - destruct (dget vals_eqb bw k) as [[it ca]|]; reflexivity.
  - rewrite IH. destruct (vals_eqb k0 k) eqn:E.
    + rewrite (dget_congr vals_eqb key_equiv bw k0 k E).
      destruct (dget vals_eqb bw k) as [b|] eqn:G.
      * rewrite (dget_dset vals_eqb key_equiv), E. cbn [items cache].
        destruct (memb vals_eqb k ks); [now rewrite cache_pop_idem|reflexivity].
      * now rewrite G.
    + destruct (dget vals_eqb bw k0) as [b0|]; [|reflexivity].
      now rewrite (dget_dset vals_eqb key_equiv), E.
Qed.

(* a new backward dictionary with the same keys and the same sets *)
Definition same_sets (bw bw' : dict key (bin Z)) : Prop :=
  forall k, match dget vals_eqb bw k, dget vals_eqb bw' k with
            | Some b, Some b' => items b = items b'
            | None, None => True
            | _, _ => False
            end.

Lemma lm_inv_same_sets : forall cols m bw', lm_inv cols m -> same_sets (bwd m) bw' ->
  lm_inv cols (mkTwm (fwd m) bw').
Proof.
  intros cols m bw' [Wf [[Wn [Ws Wh]] C]] S.
  assert (Hi : forall k, items_of vals_eqb bw' k = items_of vals_eqb (bwd m) k).
  { intros k. unfold items_of. specialize (S k).
    destruct (dget vals_eqb (bwd m) k), (dget vals_eqb bw' k); try contradiction; auto. }
  assert (Hk : forall k, has_key vals_eqb bw' k = has_key vals_eqb (bwd m) k).
  { intros k. unfold has_key. specialize (S k).
    destruct (dget vals_eqb (bwd m) k), (dget vals_eqb bw' k); try contradiction; auto. }
  split; [exact Wf|split; [split; [|split]|]]; cbn [fwd bwd].
  - intros k. rewrite Hi. apply Wn.
  - intros X. discriminate.
  - intros k. rewrite Hk. apply Wh.
  - intros l r. unfold fr, br, rel in *. cbn [fwd bwd]. rewrite Hi. apply C.
Qed.

Lemma same_sets_pop : forall bw ks s, same_sets bw (pop_each bw ks s).
Proof.
  intros bw ks s k. rewrite pop_each_get. destruct (dget vals_eqb bw k); [reflexivity|exact I].
Qed.

Lemma same_sets_dset : forall bw k b c, dget vals_eqb bw k = Some b ->
  same_sets bw (dset vals_eqb bw k (mkBin (items b) c)).
Proof.
  intros bw k b c H k'. rewrite (dget_dset vals_eqb key_equiv). destruct (vals_eqb k k') eqn:E.
  - rewrite <- (dget_congr vals_eqb key_equiv bw k k' E), H. reflexivity.
  - destruct (dget vals_eqb bw k'); [reflexivity|exact I].
Qed.

(* ---- every step keeps the invariant ------------------------------------------------------- *)

Section Steps.
  Variables (cols : list colspec) (colids : list str).
  Notation inv := (inv cols colids).
  Notation cinv := (cinv cols colids).

  Ltac simp_inv := unfold LookupWorld_proofs.inv, synced, cache_inv in *;
    cbn [tk_world tk_dirty tk_pending w_tbl w_idx step_track step_world fst snd] in *.

  Lemma keys_of_row_cells : forall t r cells, cells_of colids t r = Some cells ->
    keys_of_row cols colids t r = keys_of cols cells.
  Proof. intros. unfold keys_of_row. now rewrite H. Qed.

  Lemma inv_write : forall k r d, inv k -> inv (step_track cols colids k (SWrite r d)).
  Proof.
    intros [[t m] dd p] r d HI. simp_inv. destruct HI as [I [T [S C]]].
    split; [exact I|split; [apply tbl_ok_set; exact T|split]].
    - intros r' Hd key. unfold upd in Hd. destruct (Z.eqb r r') eqn:E; [discriminate|].
      rewrite (S r' Hd key). unfold keys_of_row. now rewrite (cells_of_set_other colids t r d r' E).
    - apply (cinv_table_change cols colids p _ t _ (bwd m) r C).
      + intros r' E. now rewrite tbl_get_set, E.
      + intros r' s E H. unfold upd. now rewrite E.
      + left. intros s. unfold upd. now rewrite Z.eqb_refl.
  Qed.

  Lemma inv_delete : forall k r, inv k -> inv (step_track cols colids k (SDelete r)).
  Proof.
    intros [[t m] dd p] r HI. simp_inv. destruct HI as [I [T [S C]]].
    split; [exact I|split; [apply tbl_ok_del; exact T|split]].
    - intros r' Hd key. unfold upd in Hd. destruct (Z.eqb r r') eqn:E; [discriminate|].
      rewrite (S r' Hd key). unfold keys_of_row. now rewrite (cells_of_del_other colids t r r' E).
    - apply (cinv_table_change cols colids p p t _ (bwd m) r C).
      + intros r' E. now rewrite tbl_get_del, E.
      + auto.
      + right. apply cells_of_del_same.
  Qed.

  Lemma inv_update : forall k r, inv k -> inv (step_track cols colids k (SUpdate r)).
  Proof.
    intros [[t m] dd p] r HI. simp_inv. destruct HI as [I [T [S C]]]. unfold cells_of in *.
    destruct (tbl_get t r) as [d|] eqn:G; [|simp_inv; exact (conj I (conj T (conj S C)))].
    destruct (row_cells d colids) as [cells|] eqn:RC; [|simp_inv; exact (conj I (conj T (conj S C)))].
    simp_inv. destruct (update_record_spec cols m r cells I) as [I' [B R]].
    split; [exact I'|split; [exact T|split]].
    - intros r' Hd key. rewrite R. unfold upd in Hd. destruct (Z.eqb r r') eqn:E.
      + apply Z.eqb_eq in E. subst r'. unfold keys_of_row, cells_of. now rewrite G, RC.
      + apply S. exact Hd.
    - eapply cinv_soc; [exact C|exact B].
  Qed.

  Lemma inv_unset : forall k r, inv k -> inv (step_track cols colids k (SUnset r)).
  Proof.
    intros [[t m] dd p] r HI. simp_inv. destruct HI as [I [T [S C]]].
    destruct (remove_row_id_spec cols m r I) as [I' [B R]].
    split; [exact I'|split; [exact T|split]].
    - intros r' Hd key. rewrite R. unfold upd in Hd. destruct (Z.eqb r r') eqn:E.
      + apply Z.eqb_eq in E. subst r'. unfold keys_of_row, cells_of.
        destruct (tbl_get t r); [discriminate|reflexivity].
      + apply S. exact Hd.
    - pose proof (cinv_soc cols colids p t _ _ C B) as C'.
      intros key b s rows Hg Hc. destruct (C' key b s rows Hg Hc) as [Hs|[r0 [Hin Hex]]]; [left; exact Hs|right].
      exists r0. split; [exact Hin|]. destruct Hex as [Hp|Hk]; [left|right; exact Hk].
      unfold upd. destruct (Z.eqb r r0) eqn:E; [|exact Hp]. exfalso.
      apply Z.eqb_eq in E. subst r0.
      assert (X : mrel (fst (remove_row_id cols m r)) r key = true).
      { rewrite <- (key_rows_mrel cols _ r key I'). unfold key_rows, items_of. rewrite Hg.
        apply memb_In; [apply Z_equiv|exact Hin]. }
      rewrite R, Z.eqb_refl in X. discriminate.
  Qed.

  Lemma memb_keys_of_new : forall cells key, memb vals_eqb key (new_keys cols cells) = false ->
    memb vals_eqb key (keys_of cols cells) = false.
  Proof.
    intros cells key H. unfold keys_of.
    rewrite (memb_filter vals_eqb key_hashable); [now rewrite H|apply key_equiv|apply key_hashable_congr].
  Qed.

  Lemma unhashable_no_keys : forall cells, forallb key_hashable (new_keys cols cells) = false ->
    keys_of cols cells = [].
  Proof.
    intros cells H. destruct (right_kind_cases cols) as [[_ Hu]|[_ Hu]].
    - rewrite (keys_of_simple cols cells Hu). unfold new_keys, new_keys_iter in H. rewrite Hu in H. cbn in H.
      rewrite andb_true_r in H. now rewrite H.
    - rewrite (contains_keys_hashable cols cells Hu) in H. discriminate.
  Qed.

  Lemma inv_reset : forall k r s0, inv k -> inv (step_track cols colids k (SReset r s0)).
  Proof.
    intros [[t m] dd p] r s0 HI. simp_inv. destruct HI as [I [T [S C]]]. unfold cells_of in *.
    destruct (tbl_get t r) as [d|] eqn:G; [|simp_inv; exact (conj I (conj T (conj S C)))].
    destruct (row_cells d colids) as [cells|] eqn:RC; [|simp_inv; exact (conj I (conj T (conj S C)))].
    simp_inv.
    assert (Hkr : keys_of_row cols colids t r = keys_of cols cells).
    { unfold keys_of_row, cells_of. now rewrite G, RC. }
    unfold reset_sorted. destruct (forallb key_hashable (new_keys cols cells)) eqn:Hh.
    - (* the sorted version for s0 is dropped from the sets of the record's keys *)
      split; [apply lm_inv_same_sets; [exact I|apply same_sets_pop]|split; [exact T|split]]; cbn [w_idx w_tbl fwd bwd].
      + exact S.
      + intros key b' s rows Hg Hc. rewrite pop_each_get in Hg.
        destruct (dget vals_eqb (bwd m) key) as [b|] eqn:G0; [|discriminate]. inversion Hg; subst b'; clear Hg.
        cbn [items cache] in *.
        assert (Hc0 : cache_get (cache b) s = Some rows).
        { destruct (memb vals_eqb key (new_keys cols cells)); [|exact Hc].
          rewrite cache_get_pop in Hc. destruct (spec_eqb s0 s); [discriminate|exact Hc]. }
        destruct (C key b s rows G0 Hc0) as [Hs|[r0 [Hin Hex]]]; [left; exact Hs|right].
        exists r0. split; [exact Hin|]. destruct Hex as [Hp|Hk]; [|right; exact Hk].
        destruct (Z.eqb r r0 && spec_eqb s0 s) eqn:E; [|left; exact Hp]. right.
        apply andb_true_iff in E. destruct E as [E1 E2]. apply Z.eqb_eq in E1. subst r0.
        rewrite Hkr. apply memb_keys_of_new.
        destruct (memb vals_eqb key (new_keys cols cells)) eqn:Hm; [|reflexivity].
        rewrite cache_get_pop, E2 in Hc. discriminate.
    - (* set() of an unhashable key raised: nothing changed; the record has no keys *)
      split; [exact I|split; [exact T|split; [exact S|]]].
      intros key b s rows Hg Hc.
      destruct (C key b s rows Hg Hc) as [Hs|[r0 [Hin Hex]]]; [left; exact Hs|right].
      exists r0. split; [exact Hin|]. destruct Hex as [Hp|Hk]; [|right; exact Hk].
      destruct (Z.eqb r r0 && spec_eqb s0 s) eqn:E; [|left; exact Hp]. right.
      apply andb_true_iff in E. destruct E as [E1 E2]. apply Z.eqb_eq in E1. subst r0.
      rewrite Hkr, (unhashable_no_keys cells Hh). reflexivity.
  Qed.

  Lemma inv_lookup : forall k key0 s0, inv k -> inv (step_track cols colids k (SLookup key0 s0)).
  Proof.
    intros [[t m] dd p] key0 s0 HI. simp_inv. destruct HI as [I [T [S C]]].
    unfold do_lookup.
    destruct (key_hashable key0); cbn [negb]; [|exact (conj I (conj T (conj S C)))].
    destruct (dget vals_eqb (bwd m) key0) as [b|] eqn:G; [|exact (conj I (conj T (conj S C)))].
    destruct (cache_get (cache b) s0) as [l0|] eqn:Hc0; [exact (conj I (conj T (conj S C)))|].
    destruct (sort_rows t s0 (items b)) as [l|] eqn:Hs; [|exact (conj I (conj T (conj S C)))].
    cbn [fst w_idx w_tbl].
    split; [apply lm_inv_same_sets; [exact I|apply same_sets_dset; exact G]|split; [exact T|split]];
      cbn [w_idx w_tbl fwd bwd].
    - exact S.
    - intros key b' s rows Hg Hc. rewrite (dget_dset vals_eqb key_equiv) in Hg.
      destruct (vals_eqb key0 key) eqn:E.
      + inversion Hg; subst b'; clear Hg. cbn [items cache cache_get] in *.
        destruct (spec_eqb s0 s) eqn:Es.
        * apply spec_eqb_eq in Es. subst s. inversion Hc; subst. left. exact Hs.
        * destruct (C key0 b s rows G Hc) as [Hs'|[r0 [Hin Hex]]]; [left; exact Hs'|right].
          exists r0. split; [exact Hin|]. destruct Hex as [Hp|Hk]; [left; exact Hp|right].
          rewrite <- Hk. symmetry. apply (memb_congr vals_eqb key_equiv). exact E.
      + exact (C key b' s rows Hg Hc).
  Qed.

  Lemma inv_step : forall k s, inv k -> inv (step_track cols colids k s).
  Proof.
    intros k s H. destruct s.
    - apply inv_write; exact H.
    - apply inv_delete; exact H.
    - apply inv_update; exact H.
    - apply inv_unset; exact H.
    - apply inv_reset; exact H.
    - apply inv_lookup; exact H.
  Qed.

  Lemma inv_track0 : inv track0.
  Proof.
    split; [apply lm_inv_empty|split; [constructor|split]].
    - intros r _ key. reflexivity.
    - intros key b s rows Hg. discriminate.
  Qed.

  Theorem inv_run : forall tr, inv (run_track cols colids tr).
  Proof.
    intros tr. unfold run_track. generalize inv_track0. generalize track0.
    induction tr as [|s tr IH]; intros k H; cbn; [exact H|]. apply IH. apply inv_step. exact H.
  Qed.
End Steps.

(* ---- the theorems -------------------------------------------------------------------------- *)

Lemma memb_Z_In : forall l r, memb Z.eqb r l = true <-> In r l.
Proof.
  induction l as [|y l IH]; intros r; cbn; [split; [discriminate|intros []]|].
  destruct (Z.eqb_spec y r) as [->|N]; [split; auto|]. rewrite IH. split; [auto|intros [E|H]; [contradiction|exact H]].
Qed.

Lemma nodup_eq_NoDup : forall l, nodup_eq Z.eqb l -> NoDup l.
Proof.
  induction l as [|y l IH]; cbn; intros H; [constructor|]. destruct H as [H1 H2]. constructor; [|auto].
  intros Hin. apply memb_Z_In in Hin. congruence.
Qed.

Section Theorems.
  Variables (cols : list colspec) (colids : list str).

  Lemma bin_rows : forall m key b r, lm_inv cols m -> dget vals_eqb (bwd m) key = Some b ->
    (In r (items b) <-> mrel m r key = true).
  Proof.
    intros m key b r I G. rewrite <- (key_rows_mrel cols m r key I). unfold key_rows, items_of. rewrite G.
    symmetry. apply memb_Z_In.
  Qed.

  Lemma bin_nodup : forall m key b, lm_inv cols m -> dget vals_eqb (bwd m) key = Some b -> NoDup (items b).
  Proof.
    intros m key b [_ [[Wn _] _]] G. apply nodup_eq_NoDup.
    assert (E : items_of vals_eqb (bwd m) key = items b) by (unfold items_of; now rewrite G).
    rewrite <- E. apply Wn.
  Qed.

  Theorem sorted_cache_valid_lemma : forall tr key b s rows,
    let k := run_track cols colids tr in
    let w := tk_world k in
    dget vals_eqb (bwd (w_idx w)) key = Some b -> cache_get (cache b) s = Some rows ->
    (forall r, In r (items b) -> tk_pending k r s = false /\ tk_dirty k r = false) ->
    sort_rows (w_tbl w) s (items b) = Some rows.
  Proof.
    intros tr key b s rows k w G Hc Hclean.
    destruct (inv_run cols colids tr) as [I [T [S C]]]. fold k in I, T, S, C. fold w in I, T.
    destruct (C key b s rows G Hc) as [H|[r [Hin [Hp|Hk]]]]; [exact H| |].
    - destruct (Hclean r Hin) as [X _]. congruence.
    - destruct (Hclean r Hin) as [_ Hd]. rewrite <- (S r Hd key) in Hk.
      apply (bin_rows (w_idx w) key b r I G) in Hin. unfold w in *. congruence.
  Qed.

  Lemma matching_rows_in : forall t key r, tbl_ok t ->
    (In r (matching_rows cols colids key t) <-> memb vals_eqb key (keys_of_row cols colids t r) = true).
  Proof.
    intros t key r T. unfold matching_rows, keys_of_row, cells_of. rewrite in_map_iff. split.
    - intros [[r0 d] [E H]]. cbn in E. subst r0. apply filter_In in H. destruct H as [H1 H2].
      apply (tbl_get_filter t r d T) in H1. rewrite H1. cbn in H2. unfold row_matches in H2.
      destruct (row_cells d colids); [exact H2|discriminate].
    - destruct (tbl_get t r) as [d|] eqn:G; [|discriminate]. intros H. exists (r, d). split; [reflexivity|].
      apply filter_In. split; [apply (tbl_get_filter t r d T); exact G|]. cbn. unfold row_matches.
      destruct (row_cells d colids); [exact H|discriminate].
  Qed.

  Lemma matching_rows_nodup : forall t key, tbl_ok t -> NoDup (matching_rows cols colids key t).
  Proof.
    unfold tbl_ok, matching_rows. induction t as [|[r d] t IH]; intros key H; cbn; [constructor|].
    inversion H as [|? ? Hn Hd]; subst. destruct (row_matches cols colids key d); cbn; [|auto].
    constructor; [|auto]. intros Hin. apply Hn. apply in_map_iff in Hin. destruct Hin as [[r0 d0] [E Hin]].
    apply filter_In in Hin. apply in_map_iff. exists (r0, d0). tauto.
  Qed.

  (* After any history in which every changed row was update_record'ed (or unset) and the resets for the
     spec ran, a lookup returns the rows whose key set contains the key, sorted by the spec. *)
  Theorem lookup_refines_filter_lemma : forall tr key s,
    let k := run_track cols colids tr in
    let w := tk_world k in
    (forall r, tk_dirty k r = false) ->
    (forall r, tk_pending k r s = false) ->
    key_hashable key = true ->
    rows_sortable (w_tbl w) s (matching_rows cols colids key (w_tbl w)) ->
    exists l, spec_lookup cols colids (w_tbl w) key s = Some l /\
              snd (do_lookup (w_idx w) (w_tbl w) key s) = LRows l.
  Proof.
    intros tr key s k w Hd Hp Hh Hsort.
    destruct (inv_run cols colids tr) as [I [T [S C]]]. fold k in I, T, S, C. fold w in I, T.
    unfold spec_lookup, do_lookup. rewrite Hh. cbn [negb].
    set (M := matching_rows cols colids key (w_tbl w)) in *.
    destruct (sort_rows_sorted_perm (w_tbl w) s M Hsort) as [l [El _]]. exists l. split; [exact El|].
    assert (Hmem : forall r, In r M <-> mrel (w_idx w) r key = true).
    { intros r. unfold M. rewrite (matching_rows_in (w_tbl w) key r T). unfold w. now rewrite (S r (Hd r) key). }
    destruct (dget vals_eqb (bwd (w_idx w)) key) as [b|] eqn:G.
    - assert (HP : Permutation M (items b)).
      { apply NoDup_Permutation; [apply matching_rows_nodup; exact T|eapply bin_nodup; eauto|].
        intros r. rewrite Hmem. symmetry. eapply bin_rows; eauto. }
      assert (Hsb : sort_rows (w_tbl w) s (items b) = Some l).
      { rewrite <- El. symmetry. apply sort_rows_perm_invariant; auto. apply matching_rows_nodup; exact T. }
      destruct (cache_get (cache b) s) as [rows|] eqn:Hc.
      + cbn [snd]. f_equal.
        pose proof (sorted_cache_valid_lemma tr key b s rows G Hc) as V. fold k in V. fold w in V.
        rewrite V in Hsb by (intros r _; split; [apply Hp|apply Hd]). congruence.
      + rewrite Hsb. reflexivity.
    - cbn [snd]. f_equal. destruct M as [|r M'] eqn:EM.
      + cbn in El. inversion El. reflexivity.
      + exfalso. assert (Hr : mrel (w_idx w) r key = true) by (apply Hmem; left; reflexivity).
        rewrite <- (key_rows_mrel cols (w_idx w) r key I) in Hr. unfold key_rows, items_of in Hr.
        rewrite G in Hr. discriminate.
  Qed.
End Theorems.

(* ---- only rows that a history touches can be dirty or pending (used to discharge the hypotheses of the
   theorems on concrete histories) -------------------------------------------------------------- *)

Definition step_row (s : step) : list Z :=
  match s with
  | SWrite r _ | SDelete r | SUpdate r | SUnset r | SReset r _ => [r]
  | SLookup _ _ => []
  end.

Lemma upd_true {A} : forall (f : Z -> A) r v r', upd f r v r' <> f r' -> r = r'.
Proof. intros f r v r' H. unfold upd in H. destruct (Z.eqb_spec r r'); [assumption|contradiction]. Qed.

Lemma track_support : forall cols colids tr k r,
  let k' := fold_left (step_track cols colids) tr k in
  (tk_dirty k' r = true -> tk_dirty k r = true \/ In r (flat_map step_row tr)) /\
  (forall s, tk_pending k' r s = true -> tk_pending k r s = true \/ In r (flat_map step_row tr)).
Proof.
  induction tr as [|st tr IH]; intros k r; cbn [fold_left flat_map]; [split; auto|].
  destruct (IH (step_track cols colids k st) r) as [H1 H2]. split.
  - intros H. destruct (H1 H) as [H'|H']; [|right; apply in_or_app; auto].
    destruct (Z.eq_dec (hd 0 (step_row st)) r) as [E|N].
    + destruct st; cbn in E; subst; try (right; left; reflexivity). left. exact H'.
    + left. destruct st; cbn in *; unfold upd in *;
        try (destruct (cells_of colids (w_tbl (tk_world k)) r0); cbn in * );
        try (destruct (Z.eqb_spec r0 r); [contradiction|]); auto.
  - intros s H. destruct (H2 s H) as [H'|H']; [|right; apply in_or_app; auto].
    destruct (Z.eq_dec (hd 0 (step_row st)) r) as [E|N].
    + destruct st; cbn in E; subst; try (right; left; reflexivity). left. exact H'.
    + left. destruct st; cbn in *; unfold upd in *;
        try (destruct (cells_of colids (w_tbl (tk_world k)) r0); cbn in * );
        try (destruct (Z.eqb_spec r0 r); [contradiction|]); cbn in *; auto.
Qed.

Lemma clean_outside : forall cols colids tr r, ~ In r (flat_map step_row tr) ->
  tk_dirty (run_track cols colids tr) r = false /\ forall s, tk_pending (run_track cols colids tr) r s = false.
Proof.
  intros cols colids tr r N. destruct (track_support cols colids tr track0 r) as [H1 H2]. split.
  - destruct (tk_dirty (run_track cols colids tr) r) eqn:E; [|reflexivity].
    destruct (H1 E) as [X|X]; [discriminate|contradiction].
  - intros s. destruct (tk_pending (run_track cols colids tr) r s) eqn:E; [|reflexivity].
    destruct (H2 s E) as [X|X]; [discriminate|contradiction].
Qed.
