(* Proofs about Model/Lookup.v (C13).  Part 5: histories of table writes and index maintenance; the sorted
   versions cache; lookups refine filter + sort. *)
From Coq Require Import ZArith List Bool Lia QArith Permutation Sorted.
Import ListNotations.
Require Import Grist.Model.Lookup Grist.Proofs.Lookup_proofs Grist.Proofs.LookupVal_proofs
  Grist.Proofs.LookupIndex_proofs Grist.Proofs.LookupSort_proofs.
Open Scope Z_scope.

(* ---- tables ------------------------------------------------------------------------------- *)

Definition cells_of (colids : list str) (t : table) (r : Z) : option (list val) :=
  match tbl_get t r with Some d => row_cells d colids | None => None end.

(* the keys under which row r of the table should be found *)
Definition keys_of_row (cols : list colspec) (colids : list str) (t : table) (r : Z) : list key :=
  match cells_of colids t r with Some cells => keys_of cols cells | None => [] end.

Definition tbl_ok (t : table) : Prop := NoDup (map fst t).

Lemma tbl_get_del : forall t r r', tbl_get (tbl_del t r) r' = if Z.eqb r r' then None else tbl_get t r'.
Proof.
  unfold tbl_del. induction t as [|[r0 d] t IH]; intros r r'; cbn [filter fst tbl_get].
  - now destruct (Z.eqb r r').
  - destruct (Z.eqb r0 r) eqn:E0; cbn [negb tbl_get].
    + rewrite IH. apply Z.eqb_eq in E0. subst r0. destruct (Z.eqb r r'); reflexivity.
    + rewrite IH. destruct (Z.eqb r0 r') eqn:E1; [|reflexivity].
      apply Z.eqb_eq in E1. subst r0. rewrite Z.eqb_sym, E0. reflexivity.
Qed.

Lemma tbl_get_app_miss : forall t u r, tbl_get t r = None -> tbl_get (t ++ u) r = tbl_get u r.
Proof.
  induction t as [|[r0 d] t IH]; intros u r H; cbn in *; [reflexivity|].
  destruct (Z.eqb r0 r); [discriminate|auto].
Qed.

Lemma tbl_get_app_hit : forall t u r d, tbl_get t r = Some d -> tbl_get (t ++ u) r = Some d.
Proof.
  induction t as [|[r0 d0] t IH]; intros u r d H; cbn in *; [discriminate|].
  destruct (Z.eqb r0 r); auto.
Qed.

Lemma tbl_get_set : forall t r d r', tbl_get (tbl_set t r d) r' = if Z.eqb r r' then Some d else tbl_get t r'.
Proof.
  intros t r d r'. unfold tbl_set. destruct (Z.eqb r r') eqn:E.
  - rewrite tbl_get_app_miss by (rewrite tbl_get_del, E; reflexivity). cbn. now rewrite E.
  - destruct (tbl_get t r') as [d'|] eqn:G.
    + apply tbl_get_app_hit. now rewrite tbl_get_del, E.
    + rewrite tbl_get_app_miss by (rewrite tbl_get_del, E; exact G). cbn. now rewrite E.
Qed.

Lemma tbl_del_ids : forall t r x, In x (map fst (tbl_del t r)) <-> In x (map fst t) /\ x <> r.
Proof.
  intros t r x. unfold tbl_del. rewrite !in_map_iff. split.
  - intros [[r0 d] [<- H]]. apply filter_In in H. destruct H as [H1 H2]. cbn in *.
    split; [exists (r0, d); auto|]. intros ->. now rewrite Z.eqb_refl in H2.
  - intros [[[r0 d] [<- H]] N]. exists (r0, d). split; [reflexivity|]. apply filter_In. split; [exact H|].
    cbn in *. destruct (Z.eqb_spec r0 r); [contradiction|reflexivity].
Qed.

Lemma tbl_ok_del : forall t r, tbl_ok t -> tbl_ok (tbl_del t r).
Proof.
  unfold tbl_ok, tbl_del. induction t as [|[r0 d] t IH]; intros r H; cbn; [constructor|].
  inversion H; subst. destruct (negb (Z.eqb r0 r)); cbn; [|auto].
  constructor; [|auto]. intros Hin. apply (tbl_del_ids t r r0) in Hin. tauto.
Qed.

Lemma NoDup_snoc : forall (l : list Z) x, NoDup l -> ~ In x l -> NoDup (l ++ [x]).
Proof.
  induction l as [|y l IH]; intros x H N; cbn; [constructor; [intros []|constructor]|].
  inversion H; subst. constructor.
  - intros Hin. apply in_app_or in Hin. destruct Hin as [Hin|[->|[]]]; [contradiction|]. apply N. left; reflexivity.
  - apply IH; auto. intros Hin. apply N. right. exact Hin.
Qed.

Lemma tbl_ok_set : forall t r d, tbl_ok t -> tbl_ok (tbl_set t r d).
Proof.
  intros t r d H. unfold tbl_ok, tbl_set. rewrite map_app. cbn.
  apply NoDup_snoc; [apply tbl_ok_del; exact H|]. intros Hin. apply tbl_del_ids in Hin. tauto.
Qed.

Lemma tbl_get_in : forall t r, (exists d, tbl_get t r = Some d) <-> In r (map fst t).
Proof.
  induction t as [|[r0 d0] t IH]; intros r; cbn.
  - split; [intros [d H]; discriminate|intros []].
  - destruct (Z.eqb_spec r0 r) as [->|N].
    + split; [auto|eauto].
    + rewrite IH. split; [auto|intros [E|H]; [contradiction|exact H]].
Qed.

Lemma tbl_get_filter : forall t r d, tbl_ok t -> (tbl_get t r = Some d <-> In (r, d) t).
Proof.
  induction t as [|[r0 d0] t IH]; intros r d H; cbn.
  - split; [discriminate|intros []].
  - inversion H as [|? ? Hn Hd]; subst. destruct (Z.eqb_spec r0 r) as [->|N].
    + split; [intros E; inversion E; auto|]. intros [E|Hin]; [inversion E; reflexivity|].
      exfalso. apply Hn. apply in_map_iff. exists (r, d). auto.
    + rewrite (IH r d Hd). split; [auto|]. intros [E|Hin]; [inversion E; contradiction|exact Hin].
Qed.

(* ---- which rows still need index maintenance ---------------------------------------------- *)

(* dirty r: the row was written/removed (or unset while present) and update_record/unset has not run since;
   pending r s: the row was written and _reset_sorted_versions(rec r, s) has not run since *)
Record track := mkTrack { tk_world : world; tk_dirty : Z -> bool; tk_pending : Z -> sortspec -> bool }.

Definition upd {A} (f : Z -> A) (r : Z) (v : A) : Z -> A := fun r' => if Z.eqb r r' then v else f r'.

Definition step_track (cols : list colspec) (colids : list str) (k : track) (s : step) : track :=
  let w := tk_world k in
  let w' := fst (step_world cols colids w s) in
  match s with
  | SWrite r _ => mkTrack w' (upd (tk_dirty k) r true) (upd (tk_pending k) r (fun _ => true))
  | SDelete r => mkTrack w' (upd (tk_dirty k) r true) (tk_pending k)
  | SUpdate r =>
      match cells_of colids (w_tbl w) r with
      | Some _ => mkTrack w' (upd (tk_dirty k) r false) (tk_pending k)
      | None => mkTrack w' (tk_dirty k) (tk_pending k)
      end
  | SUnset r =>
      mkTrack w' (upd (tk_dirty k) r (match tbl_get (w_tbl w) r with Some _ => true | None => false end))
              (tk_pending k)
  | SReset r s0 =>
      match cells_of colids (w_tbl w) r with
      | Some _ => mkTrack w' (tk_dirty k)
                    (fun r' s' => if Z.eqb r r' && spec_eqb s0 s' then false else tk_pending k r' s')
      | None => mkTrack w' (tk_dirty k) (tk_pending k)
      end
  | SLookup _ _ => mkTrack w' (tk_dirty k) (tk_pending k)
  end.

Definition track0 : track := mkTrack world0 (fun _ => false) (fun _ _ => false).

Definition run_track (cols : list colspec) (colids : list str) (tr : list step) : track :=
  fold_left (step_track cols colids) tr track0.

Lemma run_track_world : forall cols colids tr k,
  tk_world (fold_left (step_track cols colids) tr k) = run_world cols colids (tk_world k) tr.
Proof.
  induction tr as [|s tr IH]; intros k; cbn; [reflexivity|]. rewrite IH. f_equal.
  destruct s; cbn; try reflexivity.
  - unfold cells_of. destruct (tbl_get (w_tbl (tk_world k)) r); [destruct (row_cells r0 colids)|]; reflexivity.
  - unfold cells_of. destruct (tbl_get (w_tbl (tk_world k)) r); [destruct (row_cells r0 colids)|]; reflexivity.
Qed.

(* ---- the invariant ------------------------------------------------------------------------ *)

Section Inv.
  Variables (cols : list colspec) (colids : list str).

  Definition synced (k : track) : Prop :=
    forall r, tk_dirty k r = false ->
      forall key, mrel (w_idx (tk_world k)) r key =
                  memb vals_eqb key (keys_of_row cols colids (w_tbl (tk_world k)) r).

  (* every remembered sorted version is the sort of its set under the current cell values, unless a row of
     the set awaits its reset for that spec or is about to leave the set *)
  Definition cache_inv (k : track) : Prop :=
    let w := tk_world k in
    forall key b s rows, dget vals_eqb (bwd (w_idx w)) key = Some b -> cache_get (cache b) s = Some rows ->
      sort_rows (w_tbl w) s (items b) = Some rows \/
      exists r, In r (items b) /\
        (tk_pending k r s = true \/ memb vals_eqb key (keys_of_row cols colids (w_tbl w) r) = false).

  Definition inv (k : track) : Prop :=
    lm_inv cols (w_idx (tk_world k)) /\ tbl_ok (w_tbl (tk_world k)) /\ synced k /\ cache_inv k.
End Inv.
