(* Proofs about Model/Lookup.v (C13).  Part 2: Python == on the modelled values is an equivalence that
   respects hashability; keys. *)
From Coq Require Import ZArith List Bool Lia QArith.
Import ListNotations.
Require Import Grist.Model.Lookup Grist.Proofs.Lookup_proofs.
Open Scope Z_scope.

Section ValInd.
  Variable P : val -> Prop.
  Hypothesis HNone : P VNone.
  Hypothesis HBool : forall b, P (VBool b).
  Hypothesis HInt : forall z, P (VInt z).
  Hypothesis HFloat : forall q, P (VFloat q).
  Hypothesis HStr : forall s, P (VStr s).
  Hypothesis HAlt : forall s, P (VAlt s).
  Hypothesis HObj : forall c o, P (VObj c o).
  Hypothesis HRef : forall t i, P (VRef t i).
  Hypothesis HTuple : forall l, Forall P l -> P (VTuple l).
  Hypothesis HList : forall l, Forall P l -> P (VList l).

  Fixpoint val_ind' (v : val) : P v :=
    match v with
    | VNone => HNone | VBool b => HBool b | VInt z => HInt z | VFloat q => HFloat q
    | VStr s => HStr s | VAlt s => HAlt s | VObj c o => HObj c o | VRef t i => HRef t i
    | VTuple l => HTuple l ((fix go (l : list val) : Forall P l :=
                               match l with [] => Forall_nil P | x :: t => Forall_cons x (val_ind' x) (go t) end) l)
    | VList l => HList l ((fix go (l : list val) : Forall P l :=
                             match l with [] => Forall_nil P | x :: t => Forall_cons x (val_ind' x) (go t) end) l)
    end.
End ValInd.

Lemma str_eqb_eq : forall s t, str_eqb s t = true <-> s = t.
Proof.
  induction s as [|a s IH]; destruct t as [|b t]; cbn; split; intros H;
    try discriminate; try reflexivity.
  - apply andb_true_iff in H. destruct H as [H1 H2]. apply Z.eqb_eq in H1. apply IH in H2. congruence.
  - inversion H; subst. rewrite Z.eqb_refl. cbn. now apply IH.
Qed.

Lemma str_eqb_refl : forall s, str_eqb s s = true.
Proof. intros. now apply str_eqb_eq. Qed.

Lemma str_eqb_sym : forall s t, str_eqb s t = str_eqb t s.
Proof.
  intros s t. destruct (str_eqb s t) eqn:E.
  - apply str_eqb_eq in E. subst. symmetry. apply str_eqb_refl.
  - destruct (str_eqb t s) eqn:E2; [|reflexivity]. apply str_eqb_eq in E2. subst. now rewrite str_eqb_refl in E.
Qed.

Lemma val_eqb_tuple : forall l m, val_eqb (VTuple l) (VTuple m) = vals_eqb l m.
Proof.
  cbn. induction l as [|x l IH]; destruct m as [|y m]; cbn; try reflexivity; try (now rewrite IH).
Qed.
Lemma val_eqb_list : forall l m, val_eqb (VList l) (VList m) = vals_eqb l m.
Proof.
  cbn. induction l as [|x l IH]; destruct m as [|y m]; cbn; try reflexivity; try (now rewrite IH).
Qed.

Definition is_num (v : val) : bool := match numval v with Some _ => true | None => false end.

(* unfolding val_eqb once, in a form that does not expose the nested fixpoints *)
Lemma val_eqb_unfold : forall a b, val_eqb a b =
  match numval a, numval b with
  | Some x, Some y => Qeq_bool x y
  | _, _ =>
    match a, b with
    | VNone, VNone => true
    | VStr s, VStr t => str_eqb s t
    | VAlt s, VAlt t => str_eqb s t
    | VObj c o, VObj c' o' => str_eqb c c' && Z.eqb o o'
    | VRef t i, VRef t' i' => str_eqb t t' && Z.eqb i i'
    | VTuple l, VTuple m => vals_eqb l m
    | VList l, VList m => vals_eqb l m
    | _, _ => false
    end
  end.
Proof.
  intros a b. destruct a, b; try reflexivity; try apply val_eqb_tuple; apply val_eqb_list.
Qed.

Global Opaque Qeq_bool Qle_bool.

Lemma val_eqb_refl : forall a, val_eqb a a = true.
Proof.
  induction a using val_ind'; rewrite val_eqb_unfold; cbn [numval];
    try apply Qeq_bool_refl; try apply str_eqb_refl; try reflexivity.
  - now rewrite str_eqb_refl, Z.eqb_refl.
  - now rewrite str_eqb_refl, Z.eqb_refl.
  - induction H as [|x l Hx Hl IH]; cbn; [reflexivity|]. now rewrite Hx, IH.
  - induction H as [|x l Hx Hl IH]; cbn; [reflexivity|]. now rewrite Hx, IH.
Qed.

Lemma Qeq_bool_comm : forall x y, Qeq_bool x y = Qeq_bool y x.
Proof.
  intros x y. destruct (Qeq_bool x y) eqn:E.
  - symmetry. now apply Qeq_bool_sym.
  - destruct (Qeq_bool y x) eqn:E2; [|reflexivity]. apply Qeq_bool_sym in E2. congruence.
Qed.

Lemma vals_eqb_sym_aux : forall l, Forall (fun a => forall b, val_eqb a b = val_eqb b a) l ->
  forall m, vals_eqb l m = vals_eqb m l.
Proof.
  induction 1 as [|x l Hx Hl IH]; destruct m as [|y m]; cbn; try reflexivity. now rewrite Hx, IH.
Qed.

Lemma val_eqb_sym : forall a b, val_eqb a b = val_eqb b a.
Proof.
  induction a using val_ind'; intros y; rewrite (val_eqb_unfold _ y), (val_eqb_unfold y);
    destruct y; cbn [numval]; try reflexivity; try apply Qeq_bool_comm; try apply str_eqb_sym.
  - now rewrite str_eqb_sym, Z.eqb_sym.
  - now rewrite str_eqb_sym, Z.eqb_sym.
  - now apply vals_eqb_sym_aux.
  - now apply vals_eqb_sym_aux.
Qed.

Lemma vals_eqb_trans_aux : forall l,
  Forall (fun a => forall b c, val_eqb a b = true -> val_eqb b c = true -> val_eqb a c = true) l ->
  forall m n, vals_eqb l m = true -> vals_eqb m n = true -> vals_eqb l n = true.
Proof.
  induction 1 as [|x l Hx Hl IH]; destruct m as [|y m]; destruct n as [|z n]; cbn; intros H1 H2;
    try discriminate; try reflexivity.
  apply andb_true_iff in H1. apply andb_true_iff in H2. destruct H1, H2.
  rewrite (Hx y z), (IH m n); auto.
Qed.

Lemma str_eqb_trans : forall s t u, str_eqb s t = true -> str_eqb t u = true -> str_eqb s u = true.
Proof. intros s t u H1 H2. apply str_eqb_eq in H1. apply str_eqb_eq in H2. apply str_eqb_eq. congruence. Qed.

Lemma val_eqb_trans : forall a y w, val_eqb a y = true -> val_eqb y w = true -> val_eqb a w = true.
Proof.
  induction a using val_ind'; intros y w; rewrite (val_eqb_unfold _ y), (val_eqb_unfold y w), (val_eqb_unfold _ w);
    destruct y; cbn [numval]; try discriminate; destruct w; cbn [numval]; try discriminate; intros H1 H2;
    try reflexivity; try (eapply Qeq_bool_trans; eassumption); try (eapply str_eqb_trans; eassumption).
  - apply andb_true_iff in H1. apply andb_true_iff in H2. destruct H1 as [A1 B1], H2 as [A2 B2].
    rewrite (str_eqb_trans _ _ _ A1 A2). apply Z.eqb_eq in B1. apply Z.eqb_eq in B2. subst. now rewrite Z.eqb_refl.
  - apply andb_true_iff in H1. apply andb_true_iff in H2. destruct H1 as [A1 B1], H2 as [A2 B2].
    rewrite (str_eqb_trans _ _ _ A1 A2). apply Z.eqb_eq in B1. apply Z.eqb_eq in B2. subst. now rewrite Z.eqb_refl.
  - eapply vals_eqb_trans_aux; eauto.
  - eapply vals_eqb_trans_aux; eauto.
Qed.

Lemma val_equiv : equiv val_eqb.
Proof. split; [apply val_eqb_refl|apply val_eqb_sym|apply val_eqb_trans]. Qed.

Lemma vals_eqb_refl : forall l, vals_eqb l l = true.
Proof. induction l; cbn; [reflexivity|]. now rewrite val_eqb_refl. Qed.
Lemma vals_eqb_sym : forall l m, vals_eqb l m = vals_eqb m l.
Proof. intros l. apply vals_eqb_sym_aux. apply Forall_forall. intros a _. apply val_eqb_sym. Qed.
Lemma vals_eqb_trans : forall l m n, vals_eqb l m = true -> vals_eqb m n = true -> vals_eqb l n = true.
Proof. intros l. apply vals_eqb_trans_aux. apply Forall_forall. intros a _. apply val_eqb_trans. Qed.

Lemma key_equiv : equiv vals_eqb.
Proof. split; [apply vals_eqb_refl|apply vals_eqb_sym|apply vals_eqb_trans]. Qed.

Lemma Z_equiv : equiv Z.eqb.
Proof.
  split; [apply Z.eqb_refl|apply Z.eqb_sym|].
  intros a b c H1 H2. apply Z.eqb_eq in H1. apply Z.eqb_eq in H2. subst. apply Z.eqb_refl.
Qed.

Lemma spec_eqb_eq : forall a b, spec_eqb a b = true <-> a = b.
Proof.
  induction a as [|x a IH]; destruct b as [|y b]; cbn; split; intros H; try discriminate; try reflexivity.
  - apply andb_true_iff in H. destruct H as [H1 H2]. apply str_eqb_eq in H1. apply IH in H2. congruence.
  - inversion H; subst. rewrite str_eqb_refl. cbn. now apply IH.
Qed.

(* hash(): equal values are both hashable or both not *)
Lemma hashable_tuple : forall l, hashable (VTuple l) = forallb hashable l.
Proof. cbn. induction l as [|x l IH]; cbn; [reflexivity|]. now rewrite IH. Qed.

Lemma hashable_congr : forall a y, val_eqb a y = true -> hashable a = hashable y.
Proof.
  induction a using val_ind'; intros y; rewrite (val_eqb_unfold _ y);
    destruct y; cbn [numval]; try discriminate; intros H1; try reflexivity.
  rewrite !hashable_tuple. revert l0 H1.
  induction H as [|x l Hx Hl IH]; destruct l0 as [|y l0]; cbn; intros H1; try discriminate; try reflexivity.
  apply andb_true_iff in H1. destruct H1 as [A B]. now rewrite (Hx y A), (IH l0 B).
Qed.

Lemma key_hashable_congr : forall k k', vals_eqb k k' = true -> key_hashable k = key_hashable k'.
Proof.
  unfold key_hashable. induction k as [|x k IH]; destruct k' as [|y k']; cbn; intros H; try discriminate; try reflexivity.
  apply andb_true_iff in H. destruct H as [A B]. now rewrite (hashable_congr x y A), (IH k' B).
Qed.

Lemma always_congr : forall a b : Z, Z.eqb a b = true -> @always Z a = always b.
Proof. reflexivity. Qed.
