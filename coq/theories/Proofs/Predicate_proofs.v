(* Lemmas about Model/Predicate.v (C40; reused by C17). *)
From Coq Require Import ZArith List Bool Lia.
Import ListNotations.
Require Import Grist.Model.Predicate.
Open Scope Z_scope.

(* ------------------------------------------------------------------------------------------- *)
(* Induction over expressions with the nested lists. *)
Section ExprInd.
  Variable P : expr -> Prop.
  Hypothesis HBool : forall p op vs, Forall P vs -> P (EBoolOp p op vs).
  Hypothesis HBin : forall p op l r, P l -> P r -> P (EBinOp p op l r).
  Hypothesis HUn : forall p op x, P x -> P (EUnaryOp p op x).
  Hypothesis HCmp : forall p l ops cs, P l -> Forall P cs -> P (ECompare p l ops cs).
  Hypothesis HName : forall p id, P (EName p id).
  Hypothesis HConst : forall p c, P (EConstant p c).
  Hypothesis HAttr : forall p v a ap, P v -> P (EAttribute p v a ap).
  Hypothesis HList : forall p es, Forall P es -> P (EList p es).
  Hypothesis HTuple : forall p es, Forall P es -> P (ETuple p es).
  Hypothesis HCall : forall p f args kws, P f -> Forall P args -> Forall (fun kw => P (snd kw)) kws ->
                                          P (ECall p f args kws).
  Hypothesis HUns : forall p c, P (EUnsupported p c).

  Fixpoint expr_ind2 (e : expr) : P e :=
    let fix all (l : list expr) : Forall P l :=
      match l with
      | [] => Forall_nil P
      | x :: t => Forall_cons x (expr_ind2 x) (all t)
      end in
    let fix allkw (l : list (option str * expr)) : Forall (fun kw => P (snd kw)) l :=
      match l with
      | [] => Forall_nil _
      | kw :: t => Forall_cons kw (expr_ind2 (snd kw)) (allkw t)
      end in
    match e with
    | EBoolOp p op vs => HBool p op vs (all vs)
    | EBinOp p op l r => HBin p op l r (expr_ind2 l) (expr_ind2 r)
    | EUnaryOp p op x => HUn p op x (expr_ind2 x)
    | ECompare p l ops cs => HCmp p l ops cs (expr_ind2 l) (all cs)
    | EName p id => HName p id
    | EConstant p c => HConst p c
    | EAttribute p v a ap => HAttr p v a ap (expr_ind2 v)
    | EList p es => HList p es (all es)
    | ETuple p es => HTuple p es (all es)
    | ECall p f args kws => HCall p f args kws (expr_ind2 f) (all args) (allkw kws)
    | EUnsupported p c => HUns p c
    end.
End ExprInd.

(* ------------------------------------------------------------------------------------------- *)
(* Generic facts about the two monadic maps. *)

Lemma mapMc_ok_iff {A B} (f : A -> cres B) (l : list A) :
  is_ok (mapMc f l) = forallb (fun x => is_ok (f x)) l.
Proof.
  induction l as [|x t IH]; cbn; [reflexivity|].
  destruct (f x) as [y|e]; cbn; [|reflexivity].
  rewrite <- IH. destruct (mapMc f t); reflexivity.
Qed.

Lemma mapMc_cons {A B} (f : A -> cres B) x t :
  mapMc f (x :: t) = bindc (f x) (fun y => bindc (mapMc f t) (fun ys => Ok (y :: ys))).
Proof. reflexivity. Qed.

Lemma mapMo_cons {X A B} (f : A -> out X B) x t :
  mapMo f (x :: t) = bindo (f x) (fun y => bindo (mapMo f t) (fun ys => Val (y :: ys))).
Proof. reflexivity. Qed.

Lemma mapMc_ext_in {A B} (f g : A -> cres B) l :
  (forall x, In x l -> f x = g x) -> mapMc f l = mapMc g l.
Proof.
  induction l as [|x t IH]; intros H; [reflexivity|].
  rewrite !mapMc_cons, (H x (or_introl eq_refl)), IH; [reflexivity|].
  intros y Hy; apply H; right; exact Hy.
Qed.

Lemma mapMc_length {A B} (f : A -> cres B) l ys : mapMc f l = Ok ys -> length ys = length l.
Proof.
  revert ys; induction l as [|x t IH]; intros ys H.
  - inversion H; reflexivity.
  - rewrite mapMc_cons in H. destruct (f x); cbn in H; [|discriminate].
    destruct (mapMc f t) as [zs|]; cbn in H; [|discriminate].
    inversion H; subst; cbn; f_equal; apply IH; reflexivity.
Qed.

Lemma forallb_and {A} (f g : A -> bool) l :
  forallb (fun x => f x && g x) l = forallb f l && forallb g l.
Proof.
  induction l as [|x t IH]; cbn; [reflexivity|]. rewrite IH.
  destruct (f x), (g x), (forallb f t), (forallb g t); reflexivity.
Qed.

Lemma forallb_ext_in {A} (f g : A -> bool) l :
  (forall x, In x l -> f x = g x) -> forallb f l = forallb g l.
Proof.
  induction l as [|x t IH]; intros H; cbn; [reflexivity|].
  rewrite (H x (or_introl eq_refl)), IH; [reflexivity|].
  intros y Hy; apply H; right; exact Hy.
Qed.

Lemma Forall_forallb_eq {A} (P : A -> Prop) (f g : A -> bool) l :
  Forall P l -> (forall x, P x -> f x = g x) -> forallb f l = forallb g l.
Proof.
  intros HF H. induction HF as [|x t Hx _ IH]; cbn; [reflexivity|]. rewrite (H x Hx), IH; reflexivity.
Qed.

(* ------------------------------------------------------------------------------------------- *)
(* Which expressions the converter accepts. *)

Definition kw_shape (kw : option str * expr) : bool := match kw with (_, v) => shape_ok v end.
Definition kw_plain (kw : option str * expr) : bool :=
  match kw with (k, v) => (match k with Some _ => true | None => false end) && plain_ok v end.

Definition conv_kw (kw : option str * expr) : cres (option str * tree) :=
  match kw with (k, v) => bindc (convert v) (fun tv => Ok (k, tv)) end.

Lemma convert_call p f args kws :
  convert (ECall p f args kws) =
  if negb (forallb kw_named kws) then Err (ErrUnsupported p) else
  bindc (mapMc (convert) args) (fun targs =>
  bindc (mapMc (conv_kw) kws) (fun tkws =>
  bindc (convert f) (fun tf => Ok (TCall tf targs tkws)))).
Proof. reflexivity. Qed.

Lemma is_ok_bindc {A B} (x : cres A) (f : A -> cres B) (b : bool) :
  (forall a, x = Ok a -> is_ok (f a) = b) -> is_ok (bindc x f) = is_ok x && b.
Proof. destruct x; cbn; intros H; [apply H; reflexivity | reflexivity]. Qed.

(* The converter accepts exactly the supported expressions. *)
Ltac dbools :=
  repeat match goal with
  | H : context [shape_ok ?e] |- _ => destruct (shape_ok e)
  | H : context [plain_ok ?e] |- _ => destruct (plain_ok e)
  | H : context [forallb ?f ?l] |- _ => destruct (forallb f l)
  | |- context [shape_ok ?e] => destruct (shape_ok e)
  | |- context [plain_ok ?e] => destruct (plain_ok e)
  | |- context [forallb ?f ?l] => destruct (forallb f l)
  end; cbn in *; try congruence.

Lemma convert_ok_iff : forall e, is_ok (convert e) = supported e.
Proof.
  unfold supported. induction e using expr_ind2.
  - cbn [convert shape_ok plain_ok]. rewrite (is_ok_bindc _ _ true) by reflexivity.
    rewrite mapMc_ok_iff, andb_true_r, <- forallb_and. apply (Forall_forallb_eq _ _ _ _ H). auto.
  - destruct op; cbn [convert shape_ok plain_ok andb]; [|reflexivity].
    destruct (convert e1); cbn [bindc is_ok] in *;
      destruct (convert e2); cbn [bindc is_ok] in *; dbools.
  - destruct op; cbn [convert shape_ok plain_ok]; [|reflexivity].
    destruct (convert e); cbn in *; rewrite <- IHe; reflexivity.
  - cbn [convert shape_ok plain_ok]. destruct ops as [|op [|op2 ops]]; try reflexivity.
    destruct cs as [|c [|c2 cs]]; try reflexivity.
    inversion H as [|? ? Hc _]; subst. cbn [forallb]. rewrite andb_true_r.
    destruct (convert e); cbn [bindc is_ok] in *;
      destruct (convert c); cbn [bindc is_ok] in *; dbools.
  - cbn. destruct (named_constant id); reflexivity.
  - cbn. destruct (const_plain c); reflexivity.
  - cbn [convert shape_ok plain_ok]. destruct (convert e); cbn in *; rewrite <- IHe; reflexivity.
  - cbn [convert shape_ok plain_ok]. rewrite (is_ok_bindc _ _ true) by reflexivity.
    rewrite mapMc_ok_iff, andb_true_r, <- forallb_and. apply (Forall_forallb_eq _ _ _ _ H). auto.
  - cbn [convert shape_ok plain_ok]. rewrite (is_ok_bindc _ _ true) by reflexivity.
    rewrite mapMc_ok_iff, andb_true_r, <- forallb_and. apply (Forall_forallb_eq _ _ _ _ H). auto.
  - rewrite convert_call. cbn [andb shape_ok plain_ok]. fold kw_shape. fold kw_plain.
    assert (Ha : is_ok (mapMc (convert) args) = forallb shape_ok args && forallb plain_ok args).
    { rewrite mapMc_ok_iff, <- forallb_and. apply (Forall_forallb_eq _ _ _ _ H). auto. }
    assert (Hk : (if negb (forallb kw_named kws) then false else is_ok (mapMc (conv_kw) kws))
                 = forallb kw_shape kws && forallb kw_plain kws).
    { rewrite mapMc_ok_iff. clear - H0. induction H0 as [|[k v] t Hv _ IH]; [reflexivity|].
      cbn [forallb kw_named kw_shape kw_plain conv_kw fst snd] in *.
      assert (Hv' : is_ok (bindc (convert v) (fun tv => Ok (k, tv))) = shape_ok v && plain_ok v).
      { rewrite <- Hv. destruct (convert v); reflexivity. }
      rewrite Hv'. clear Hv Hv'. destruct k; cbn [negb andb].
      - destruct (forallb kw_named t); cbn [negb] in *.
        + rewrite IH. dbools.
        + dbools.
      - dbools. }
    destruct (negb (forallb kw_named kws)) eqn:Hn.
    + clear Ha IHe. dbools.
    + destruct (mapMc (convert) args); cbn [bindc is_ok] in *;
        destruct (mapMc (conv_kw) kws); cbn [bindc is_ok] in *;
          destruct (convert e); cbn [bindc is_ok] in *; dbools.
  - reflexivity.
Qed.

Lemma is_ok_false_err {A} (x : cres A) : is_ok x = false -> exists e, x = Err e.
Proof. destruct x; [discriminate | eauto]. Qed.
Lemma is_ok_true_ok {A} (x : cres A) : is_ok x = true -> exists a, x = Ok a.
Proof. destruct x; [eauto | discriminate]. Qed.

(* ------------------------------------------------------------------------------------------- *)
(* JSON: trees of expressions whose constants are plain and whose keywords are named hold only JSON values. *)

Lemma json_pstr s : json_value (pstr s) = true.
Proof. reflexivity. Qed.

Lemma forallb_map {A B} (f : B -> bool) (g : A -> B) l : forallb f (map g l) = forallb (fun x => f (g x)) l.
Proof. induction l as [|x t IH]; cbn; [reflexivity|]. rewrite IH; reflexivity. Qed.

Lemma forallb_app' {A} (f : A -> bool) l m : forallb f (l ++ m) = forallb f l && forallb f m.
Proof. induction l as [|x t IH]; cbn; [reflexivity|]. rewrite IH, andb_assoc; reflexivity. Qed.

Definition json_tree (t : tree) : bool := json_value (to_py t).

Lemma mapMc_json es :
  Forall (fun e => forall t, plain_ok e = true -> convert e = Ok t -> json_tree t = true) es ->
  forall ts, forallb plain_ok es = true -> mapMc (convert) es = Ok ts -> forallb json_tree ts = true.
Proof.
  induction 1 as [|e es He _ IH]; intros ts Hp Hc.
  - inversion Hc; reflexivity.
  - cbn in Hp. apply andb_true_iff in Hp. destruct Hp as [Hp1 Hp2].
    rewrite mapMc_cons in Hc. destruct (convert e) as [t|] eqn:E; cbn in Hc; [|discriminate].
    destruct (mapMc (convert) es) as [ts'|] eqn:E2; cbn in Hc; [|discriminate].
    inversion Hc; subst. cbn. rewrite (He t Hp1 eq_refl), (IH ts' Hp2 eq_refl). reflexivity.
Qed.

Lemma convert_plain_json : forall e t,
  plain_ok e = true -> convert e = Ok t -> json_tree t = true.
Proof.
  unfold json_tree.
  induction e using expr_ind2; intros t Hp Hc.
  - cbn [convert plain_ok] in *. destruct (mapMc (convert) vs) as [ts|] eqn:E; cbn in Hc; [|discriminate].
    inversion Hc; subst. cbn. rewrite forallb_map. exact (mapMc_json vs H ts Hp E).
  - cbn [convert plain_ok] in *. apply andb_true_iff in Hp. destruct Hp as [Hp1 Hp2].
    destruct op; [|discriminate].
    destruct (convert e1) as [t1|] eqn:E1; cbn in Hc; [|discriminate].
    destruct (convert e2) as [t2|] eqn:E2; cbn in Hc; [|discriminate].
    inversion Hc; subst. cbn. rewrite (IHe1 t1 Hp1 eq_refl), (IHe2 t2 Hp2 eq_refl). destruct a; reflexivity.
  - cbn [convert plain_ok] in *. destruct op; [|discriminate].
    destruct (convert e) as [t1|] eqn:E1; cbn in Hc; [|discriminate].
    inversion Hc; subst. cbn. rewrite (IHe t1 Hp eq_refl). reflexivity.
  - cbn [convert plain_ok] in *. apply andb_true_iff in Hp. destruct Hp as [Hp1 Hp2].
    destruct ops as [|op [|? ?]]; try discriminate. destruct cs as [|c [|? ?]]; try discriminate.
    inversion H as [|? ? Hc' _]; subst. cbn in Hp2. rewrite andb_true_r in Hp2.
    destruct (convert e) as [t1|] eqn:E1; cbn in Hc; [|discriminate].
    destruct (convert c) as [t2|] eqn:E2; cbn in Hc; [|discriminate].
    inversion Hc; subst. cbn. rewrite (IHe t1 Hp1 eq_refl), (Hc' t2 Hp2 eq_refl). destruct op; reflexivity.
  - cbn in Hc. unfold named_constant in Hc.
    repeat match type of Hc with context [if ?b then _ else _] => destruct b end; inversion Hc; reflexivity.
  - cbn in *. destruct (negb (const_plain c)); [discriminate|]. inversion Hc; subst. cbn. rewrite Hp; reflexivity.
  - cbn [convert plain_ok] in *. destruct (convert e) as [t1|] eqn:E1; cbn in Hc; [|discriminate].
    inversion Hc; subst. cbn. rewrite (IHe t1 Hp eq_refl). reflexivity.
  - cbn [convert plain_ok] in *. destruct (mapMc (convert) es) as [ts|] eqn:E; cbn in Hc; [|discriminate].
    inversion Hc; subst. cbn. rewrite forallb_map. exact (mapMc_json es H ts Hp E).
  - cbn [convert plain_ok] in *. destruct (mapMc (convert) es) as [ts|] eqn:E; cbn in Hc; [|discriminate].
    inversion Hc; subst. cbn. rewrite forallb_map. exact (mapMc_json es H ts Hp E).
  - rewrite convert_call in Hc. cbn [plain_ok] in Hp. fold kw_plain in Hp.
    apply andb_true_iff in Hp. destruct Hp as [Hp Hpk]. apply andb_true_iff in Hp. destruct Hp as [Hpf Hpa].
    destruct (negb (forallb kw_named kws)); [discriminate|].
    destruct (mapMc (convert) args) as [targs|] eqn:Ea; cbn in Hc; [|discriminate].
    destruct (mapMc (conv_kw) kws) as [tkws|] eqn:Ek; cbn in Hc; [|discriminate].
    destruct (convert e) as [tf|] eqn:Ef; cbn in Hc; [|discriminate].
    inversion Hc; subst. cbn [to_py json_value forallb]. rewrite json_pstr, (IHe tf Hpf eq_refl). cbn [andb].
    rewrite forallb_app', forallb_map. fold json_tree. rewrite (mapMc_json args H targs Hpa Ea). cbn [andb].
    assert (Hkws : forallb (fun kw : option str * tree =>
                     json_value (match kw with
                                 | (k, v) => PList [match k with Some n => PLeaf (CStr n) | None => PLeaf CNone end; to_py v]
                                 end)) tkws = true).
    { clear - H0 Hpk Ek. revert tkws Ek. induction H0 as [|[k v] t Hv _ IH]; intros tkws Ek.
      - inversion Ek; reflexivity.
      - cbn [forallb kw_plain] in Hpk. apply andb_true_iff in Hpk. destruct Hpk as [Hk1 Hk2].
        apply andb_true_iff in Hk1. destruct Hk1 as [Hk1 Hk1'].
        rewrite mapMc_cons in Ek. cbn [conv_kw] in Ek.
        destruct (convert v) as [tv|] eqn:Ev; cbn in Ek; [|discriminate].
        destruct (mapMc (conv_kw) t) as [tk'|] eqn:Et; cbn in Ek; [|discriminate].
        inversion Ek; subst. cbn [forallb]. rewrite (IH Hk2 tk' eq_refl), andb_true_r.
        cbn in Hv. cbn. rewrite (Hv tv Hk1' Ev). destruct k; reflexivity. }
    destruct tkws as [|kw tk]; [reflexivity|]. cbn [forallb json_value]. rewrite forallb_map, json_pstr.
    cbn [andb]. rewrite Hkws. reflexivity.
  - discriminate.
Qed.

Lemma json_dumpable : forall v, json_value v = true -> all_dumpable v = true.
Proof.
  fix IH 1. intros [c|l]; cbn.
  - destruct c; cbn; congruence.
  - induction l as [|x t IHl]; cbn; [reflexivity|]. intros H. apply andb_true_iff in H. destruct H as [H1 H2].
    rewrite (IH x H1), (IHl H2). reflexivity.
Qed.

Lemma json_dumps_ok v : json_value v = true -> dumps_outcome v = DumpsJSON.
Proof. intros H. unfold dumps_outcome. rewrite (json_dumpable v H), H. reflexivity. Qed.

(* ------------------------------------------------------------------------------------------- *)
(* The faithful subset.  A tuple display is allowed as the right operand of a membership test only, so the
   inductions run over [lenient]: in the subset, or a tuple display of expressions in the subset. *)

Definition lenient (e : expr) : bool :=
  match e with ETuple _ es => forallb in_subset es | _ => in_subset e end.

Lemma in_subset_lenient e : in_subset e = true -> lenient e = true.
Proof. destruct e; cbn; congruence. Qed.

Lemma cmp_right_lenient op c :
  match c with ETuple _ es => is_membership op && forallb in_subset es | _ => in_subset c end = true ->
  lenient c = true.
Proof. destruct c; cbn; try congruence. intros H. apply andb_true_iff in H. tauto. Qed.

Definition kw_in_subset (kw : option str * expr) : bool :=
  match kw with (k, v) => (match k with Some _ => true | None => false end) && in_subset v end.

Lemma in_subset_call p f args kws :
  in_subset (ECall p f args kws) =
  in_subset f && forallb in_subset args && str_nodup (kw_names kws) && forallb kw_in_subset kws.
Proof. reflexivity. Qed.

Lemma kw_in_subset_named kws : forallb kw_in_subset kws = true -> forallb kw_named kws = true.
Proof.
  induction kws as [|[k v] t IH]; cbn; [reflexivity|]. intros H.
  apply andb_true_iff in H. destruct H as [H1 H2]. apply andb_true_iff in H1. destruct H1 as [H1 _].
  unfold kw_named at 1. cbn. rewrite H1. apply IH, H2.
Qed.

Lemma lenient_supported : forall e, lenient e = true -> shape_ok e = true /\ plain_ok e = true.
Proof.
  induction e using expr_ind2; intros Hs; cbn [lenient] in Hs.
  - cbn [in_subset shape_ok plain_ok] in *. apply andb_true_iff in Hs. destruct Hs as [_ Hs].
    rewrite forallb_forall in Hs. rewrite Forall_forall in H.
    split; apply forallb_forall; intros x Hx; apply (H x Hx (in_subset_lenient x (Hs x Hx))).
  - destruct op; [|discriminate]. cbn [in_subset shape_ok plain_ok] in *.
    apply andb_true_iff in Hs. destruct Hs as [H1 H2].
    destruct (IHe1 (in_subset_lenient _ H1)) as [-> ->], (IHe2 (in_subset_lenient _ H2)) as [-> ->]. split; reflexivity.
  - destruct op; [|discriminate]. cbn [in_subset shape_ok plain_ok] in *. auto using in_subset_lenient.
  - cbn [in_subset shape_ok plain_ok] in *.
    destruct ops as [|op [|? ?]]; try discriminate. destruct cs as [|c [|? ?]]; try discriminate.
    apply andb_true_iff in Hs. destruct Hs as [H1 H2]. destruct (IHe (in_subset_lenient _ H1)) as [-> ->].
    inversion H as [|? ? Hc _]; subst. cbn [forallb andb]. rewrite andb_true_r.
    destruct (Hc (cmp_right_lenient _ _ H2)) as [-> ->]. split; reflexivity.
  - split; reflexivity.
  - cbn in *. split; [reflexivity|assumption].
  - cbn [in_subset shape_ok plain_ok] in *. auto using in_subset_lenient.
  - cbn [in_subset shape_ok plain_ok] in *.
    rewrite forallb_forall in Hs. rewrite Forall_forall in H.
    split; apply forallb_forall; intros x Hx; apply (H x Hx (in_subset_lenient x (Hs x Hx))).
  - cbn [in_subset shape_ok plain_ok] in *.
    rewrite forallb_forall in Hs. rewrite Forall_forall in H.
    split; apply forallb_forall; intros x Hx; apply (H x Hx (in_subset_lenient x (Hs x Hx))).
  - rewrite in_subset_call in Hs. cbn [shape_ok plain_ok]. fold kw_shape. fold kw_plain.
    apply andb_true_iff in Hs. destruct Hs as [Hs Hk]. apply andb_true_iff in Hs. destruct Hs as [Hs _].
    apply andb_true_iff in Hs. destruct Hs as [Hf Ha].
    destruct (IHe (in_subset_lenient _ Hf)) as [-> ->].
    rewrite forallb_forall in Ha, Hk. rewrite Forall_forall in H, H0.
    assert (A1 : forallb shape_ok args = true) by (apply forallb_forall; intros x Hx; apply (H x Hx (in_subset_lenient x (Ha x Hx)))).
    assert (A2 : forallb plain_ok args = true) by (apply forallb_forall; intros x Hx; apply (H x Hx (in_subset_lenient x (Ha x Hx)))).
    assert (K1 : forallb kw_shape kws = true).
    { apply forallb_forall; intros [k v] Hx. specialize (Hk _ Hx). cbn in Hk. apply andb_true_iff in Hk.
      apply (H0 _ Hx (in_subset_lenient v (proj2 Hk))). }
    assert (K2 : forallb kw_plain kws = true).
    { apply forallb_forall; intros [k v] Hx. specialize (Hk _ Hx). cbn in Hk. apply andb_true_iff in Hk.
      destruct Hk as [Hk1 Hk2]. cbn. rewrite Hk1. apply (H0 _ Hx (in_subset_lenient v Hk2)). }
    rewrite A1, A2, K1, K2. split; reflexivity.
  - discriminate.
Qed.

Lemma in_subset_supported e : in_subset e = true -> supported e = true.
Proof.
  intros H. destruct (lenient_supported e (in_subset_lenient e H)) as [H1 H2].
  unfold supported. rewrite H1, H2. reflexivity.
Qed.

(* ------------------------------------------------------------------------------------------- *)
(* Faithfulness: on the subset the tree evaluates to what the expression evaluates to. *)
Section Faithful.
  Context (M : PySem) (Hmem : membership_ignores_tuple M) (g : env M).

  Definition faithful_at (e : expr) : Prop :=
    exists t, convert e = Ok t /\ eval_tree M g t = eval_py M g e.

  Definition faithful_list (es : list expr) : Prop :=
    exists ts, mapMc (convert) es = Ok ts /\ mapMo (eval_tree M g) ts = mapMo (eval_py M g) es.

  (* what the induction carries: for a tuple display, element-wise agreement *)
  Definition Q (e : expr) : Prop :=
    match e with ETuple _ es => faithful_list es | _ => faithful_at e end.

  Lemma Q_in_subset e : in_subset e = true -> Q e -> faithful_at e.
  Proof. destruct e; cbn; try congruence; auto. Qed.

  Lemma faithful_elems es :
    Forall (fun x => lenient x = true -> Q x) es -> forallb in_subset es = true -> faithful_list es.
  Proof.
    induction 1 as [|x t Hx _ IH]; intros Hs.
    - exists []. split; reflexivity.
    - cbn in Hs. apply andb_true_iff in Hs. destruct Hs as [H1 H2].
      destruct (Q_in_subset x H1 (Hx (in_subset_lenient x H1))) as [tx [Cx Ex]].
      destruct (IH H2) as [ts [Cs Es]].
      exists (tx :: ts). rewrite mapMc_cons, Cx, Cs. split; [reflexivity|].
      rewrite !mapMo_cons, Ex, Es. reflexivity.
  Qed.

  Lemma boolop_sem_cons {A} op (ev : A -> out (exc M) (value M)) x y t :
    boolop_sem M op ev (x :: y :: t) =
    bindo (ev x) (fun v => bindo (sem_truthy M v) (fun b =>
      if (match op with BAnd => b | BOr => negb b end) then boolop_sem M op ev (y :: t) else Val v)).
  Proof. reflexivity. Qed.

  Lemma faithful_boolop op vs :
    Forall (fun x => lenient x = true -> Q x) vs -> forallb in_subset vs = true ->
    exists ts, mapMc (convert) vs = Ok ts /\
               boolop_sem M op (eval_tree M g) ts = boolop_sem M op (eval_py M g) vs.
  Proof.
    induction 1 as [|x t Hx _ IH]; intros Hs.
    - exists []. split; reflexivity.
    - cbn in Hs. apply andb_true_iff in Hs. destruct Hs as [H1 H2].
      destruct (Q_in_subset x H1 (Hx (in_subset_lenient x H1))) as [tx [Cx Ex]].
      destruct (IH H2) as [ts [Cs Es]].
      exists (tx :: ts). rewrite mapMc_cons, Cx, Cs. split; [reflexivity|].
      destruct t as [|y t'].
      + cbn in Cs. inversion Cs; subst. cbn. exact Ex.
      + destruct ts as [|ty ts']; [apply mapMc_length in Cs; discriminate|].
        rewrite !boolop_sem_cons, Ex, Es. reflexivity.
  Qed.

  Lemma faithful_kws kws :
    Forall (fun kw => lenient (snd kw) = true -> Q (snd kw)) kws -> forallb kw_in_subset kws = true ->
    exists tkws, mapMc (conv_kw) kws = Ok tkws /\
                 mapMo (kwarg_sem M (eval_tree M g)) tkws = mapMo (kwarg_sem M (eval_py M g)) kws.
  Proof.
    induction 1 as [|[k v] t Hv _ IH]; intros Hs.
    - exists []. split; reflexivity.
    - cbn [forallb kw_in_subset] in Hs. apply andb_true_iff in Hs. destruct Hs as [H1 H2].
      apply andb_true_iff in H1. destruct H1 as [Hk H1]. cbn [snd] in Hv.
      destruct (Q_in_subset v H1 (Hv (in_subset_lenient v H1))) as [tv [Cv Ev]].
      destruct (IH H2) as [ts [Cs Es]].
      exists ((k, tv) :: ts). rewrite mapMc_cons. cbn [conv_kw]. rewrite Cv. cbn [bindc]. rewrite Cs.
      split; [reflexivity|]. rewrite !mapMo_cons, Es. destruct k; [|discriminate].
      cbn [kwarg_sem]. rewrite Ev. reflexivity.
  Qed.

  Lemma convert_cmp p l op c :
    convert (ECompare p l [op] [c]) =
    bindc (convert l) (fun tl => bindc (convert c) (fun tc => Ok (TCmp op tl tc))).
  Proof. reflexivity. Qed.

  Lemma eval_py_cmp p l op c :
    eval_py M g (ECompare p l [op] [c]) =
    bindo (eval_py M g l) (fun vl => bindo (eval_py M g c) (fun vc => sem_cmp M op vl vc)).
  Proof. reflexivity. Qed.

  Lemma faithful_lenient : forall e, lenient e = true -> Q e.
  Proof.
    induction e using expr_ind2; intros Hs; cbn [lenient] in Hs; cbn [Q].
    - (* BoolOp *)
      cbn [in_subset] in Hs. apply andb_true_iff in Hs. destruct Hs as [_ Hs].
      destruct (faithful_boolop op vs H Hs) as [ts [Cs Es]].
      exists (TBoolOp op ts). cbn [convert]. rewrite Cs. split; [reflexivity|]. exact Es.
    - (* BinOp *)
      destruct op; [|discriminate]. cbn [in_subset] in Hs. apply andb_true_iff in Hs. destruct Hs as [H1 H2].
      destruct (Q_in_subset _ H1 (IHe1 (in_subset_lenient _ H1))) as [t1 [C1 E1]].
      destruct (Q_in_subset _ H2 (IHe2 (in_subset_lenient _ H2))) as [t2 [C2 E2]].
      exists (TBin a t1 t2). cbn [convert]. rewrite C1, C2. split; [reflexivity|].
      cbn [eval_tree eval_py]. rewrite E1, E2. reflexivity.
    - (* UnaryOp *)
      destruct op; [|discriminate]. cbn [in_subset] in Hs.
      destruct (Q_in_subset _ Hs (IHe (in_subset_lenient _ Hs))) as [t1 [C1 E1]].
      exists (TNot t1). cbn [convert]. rewrite C1. split; [reflexivity|].
      cbn [eval_tree eval_py]. rewrite E1. reflexivity.
    - (* Compare *)
      cbn [in_subset] in Hs.
      destruct ops as [|op [|? ?]]; try discriminate. destruct cs as [|c [|? ?]]; try discriminate.
      apply andb_true_iff in Hs. destruct Hs as [H1 H2].
      destruct (Q_in_subset _ H1 (IHe (in_subset_lenient _ H1))) as [t1 [C1 E1]].
      inversion H as [|? ? Hc _]; subst.
      specialize (Hc (cmp_right_lenient _ _ H2)).
      unfold faithful_at. rewrite convert_cmp, eval_py_cmp, C1. cbn [bindc].
      destruct c; try (destruct (Q_in_subset _ H2 Hc) as [t2 [C2 E2]];
        rewrite C2; eexists; split; [reflexivity|];
        cbn [eval_tree]; rewrite E1, E2; reflexivity).
      (* x in (a, b, ...): the converter yields a List node *)
      apply andb_true_iff in H2. destruct H2 as [Hop _].
      destruct Hc as [ts [Cs Es]].
      exists (TCmp op t1 (TListN ts)). cbn [convert]. rewrite Cs. split; [reflexivity|].
      cbn [eval_tree eval_py]. rewrite E1, Es.
      destruct (eval_py M g e); cbn [bindo]; try reflexivity.
      destruct (mapMo (eval_py M g) es); cbn [bindo]; try reflexivity.
      symmetry. apply Hmem. exact Hop.
    - (* Name *)
      cbn [in_subset] in Hs. apply negb_true_iff in Hs.
      unfold faithful_at. cbn [convert eval_py]. rewrite Hs.
      unfold reserved_name in Hs. destruct (named_constant id); [discriminate|].
      eexists; split; reflexivity.
    - (* Constant *)
      cbn [in_subset] in Hs. exists (TConst c). cbn [convert eval_tree eval_py]. rewrite Hs.
      split; reflexivity.
    - (* Attribute *)
      cbn [in_subset] in Hs.
      destruct (Q_in_subset _ Hs (IHe (in_subset_lenient _ Hs))) as [t1 [C1 E1]].
      exists (TAttr t1 a). cbn [convert]. rewrite C1. split; [reflexivity|].
      cbn [eval_tree eval_py]. rewrite E1. reflexivity.
    - (* List *)
      cbn [in_subset] in Hs. destruct (faithful_elems es H Hs) as [ts [Cs Es]].
      exists (TListN ts). cbn [convert]. rewrite Cs. split; [reflexivity|].
      cbn [eval_tree eval_py]. rewrite Es. reflexivity.
    - (* Tuple (only reached below a membership test) *)
      exact (faithful_elems es H Hs).
    - (* Call *)
      rewrite in_subset_call in Hs.
      apply andb_true_iff in Hs. destruct Hs as [Hs Hk]. apply andb_true_iff in Hs. destruct Hs as [Hs Hnd].
      apply andb_true_iff in Hs. destruct Hs as [Hf Ha].
      destruct (Q_in_subset _ Hf (IHe (in_subset_lenient _ Hf))) as [tf [Cf Ef]].
      destruct (faithful_elems args H Ha) as [targs [Ca Ea]].
      destruct (faithful_kws kws H0 Hk) as [tkws [Ck Ek]].
      exists (TCall tf targs tkws). rewrite convert_call, (kw_in_subset_named kws Hk). cbn [negb]. rewrite Ca, Ck, Cf.
      split; [reflexivity|]. cbn [eval_tree eval_py]. rewrite Hnd, Ef, Ea, Ek. reflexivity.
    - discriminate.
  Qed.

  Theorem convert_faithful_lemma e : in_subset e = true -> faithful_at e.
  Proof. intros H. exact (Q_in_subset e H (faithful_lenient e (in_subset_lenient e H))). Qed.
End Faithful.

(* the concrete semantics treats tuples and lists alike in membership tests *)
Lemma CSem_membership : membership_ignores_tuple CSem.
Proof. intros op v vs Hop. destruct op; try discriminate; reflexivity. Qed.

(* ------------------------------------------------------------------------------------------- *)
(* Rejection, stated with sub-expressions. *)

Lemma subexpr_child x e : child x e -> subexpr x e.
Proof. intros H. eapply sub_step; [apply sub_refl | exact H]. Qed.

Lemma subexpr_trans x y z : subexpr x y -> subexpr y z -> subexpr x z.
Proof. intros Hxy Hyz. induction Hyz as [|y' e _ IH Hc]; [assumption|]. eapply sub_step; [apply IH; exact Hxy | exact Hc]. Qed.

Lemma forallb_false_exists {A} (f : A -> bool) l : forallb f l = false -> exists x, In x l /\ f x = false.
Proof.
  induction l as [|x t IH]; cbn; [discriminate|]. intros H. apply andb_false_iff in H. destruct H as [H|H].
  - exists x; auto.
  - destruct (IH H) as [y [Hy Hf]]. exists y; auto.
Qed.

Lemma forallb_In_true {A} (f : A -> bool) l x : forallb f l = true -> In x l -> f x = true.
Proof. intros H Hx. rewrite forallb_forall in H. auto. Qed.

Lemma shape_child x e : child x e -> shape_ok e = true -> shape_ok x = true.
Proof.
  intros Hc. destruct Hc; cbn [shape_ok]; intros Hs.
  - eapply forallb_In_true; eauto.
  - destruct op; [|discriminate]. apply andb_true_iff in Hs; tauto.
  - destruct op; [|discriminate]. apply andb_true_iff in Hs; tauto.
  - destruct op; [|discriminate]. assumption.
  - destruct ops as [|? [|? ?]]; try discriminate. destruct cs as [|? [|? ?]]; try discriminate.
    apply andb_true_iff in Hs; tauto.
  - destruct ops as [|? [|? ?]]; try discriminate. destruct cs as [|c0 [|? ?]]; try discriminate.
    destruct H as [->|[]]. apply andb_true_iff in Hs; tauto.
  - assumption.
  - eapply forallb_In_true; eauto.
  - eapply forallb_In_true; eauto.
  - apply andb_true_iff in Hs. destruct Hs as [Hs _]. apply andb_true_iff in Hs; tauto.
  - apply andb_true_iff in Hs. destruct Hs as [Hs _]. apply andb_true_iff in Hs. destruct Hs as [_ Hs].
    eapply forallb_In_true; eauto.
  - apply andb_true_iff in Hs. destruct Hs as [_ Hs]. exact (forallb_In_true _ _ _ Hs H).
Qed.

Lemma shape_subexpr x e : subexpr x e -> shape_ok e = true -> shape_ok x = true.
Proof. induction 1 as [|y e _ IH Hc]; intros Hs; [exact Hs | apply IH; eapply shape_child; eauto]. Qed.

Lemma bad_node_shape x : bad_node x -> shape_ok x = false.
Proof.
  intros [[p [c ->]]|[[p [c [l [r ->]]]]|[[p [c [y ->]]]|[p [l [ops [cs [-> H]]]]]]]]; try reflexivity.
  cbn. destruct ops as [|? [|? ?]]; try reflexivity; destruct cs as [|? [|? ?]]; try reflexivity.
  cbn in H. destruct H; congruence.
Qed.

Lemma bad_subexpr_shape x e : subexpr x e -> bad_node x -> shape_ok e = false.
Proof.
  intros Hs Hb. destruct (shape_ok e) eqn:E; [|reflexivity].
  pose proof (shape_subexpr x e Hs E) as H1. pose proof (bad_node_shape x Hb). congruence.
Qed.

Lemma shape_false_bad : forall e, shape_ok e = false -> exists x, subexpr x e /\ bad_node x.
Proof.
  induction e using expr_ind2; cbn [shape_ok]; intros Hs.
  - destruct (forallb_false_exists _ _ Hs) as [v [Hv Hf]]. rewrite Forall_forall in H.
    destruct (H v Hv Hf) as [x [Hx Hb]]. exists x. split; [|exact Hb].
    eapply subexpr_trans; [exact Hx | apply subexpr_child; constructor; exact Hv].
  - destruct op.
    + apply andb_false_iff in Hs. destruct Hs as [Hs|Hs].
      * destruct (IHe1 Hs) as [x [Hx Hb]]. exists x. split; [|exact Hb].
        eapply subexpr_trans; [exact Hx | apply subexpr_child; constructor].
      * destruct (IHe2 Hs) as [x [Hx Hb]]. exists x. split; [|exact Hb].
        eapply subexpr_trans; [exact Hx | apply subexpr_child; constructor].
    + eexists. split; [apply sub_refl|]. right; left. eauto.
  - destruct op.
    + destruct (IHe Hs) as [x [Hx Hb]]. exists x. split; [|exact Hb].
      eapply subexpr_trans; [exact Hx | apply subexpr_child; constructor].
    + eexists. split; [apply sub_refl|]. right; right; left. eauto.
  - assert (Hlen : (length ops = 1%nat /\ length cs = 1%nat) \/ (length ops <> 1%nat \/ length cs <> 1%nat)) by lia.
    destruct Hlen as [[Ho Hc]|Hlen].
    + destruct ops as [|op [|? ?]]; try discriminate. destruct cs as [|c [|? ?]]; try discriminate.
      inversion H as [|? ? Hc' _]; subst.
      apply andb_false_iff in Hs. destruct Hs as [Hs|Hs].
      * destruct (IHe Hs) as [x [Hx Hb]]. exists x. split; [|exact Hb].
        eapply subexpr_trans; [exact Hx | apply subexpr_child; constructor].
      * destruct (Hc' Hs) as [x [Hx Hb]]. exists x. split; [|exact Hb].
        eapply subexpr_trans; [exact Hx | apply subexpr_child; apply ch_cmpc; left; reflexivity].
    + eexists. split; [apply sub_refl|]. right; right; right. eauto 8.
  - discriminate.
  - discriminate.
  - destruct (IHe Hs) as [x [Hx Hb]]. exists x. split; [|exact Hb].
    eapply subexpr_trans; [exact Hx | apply subexpr_child; constructor].
  - destruct (forallb_false_exists _ _ Hs) as [v [Hv Hf]]. rewrite Forall_forall in H.
    destruct (H v Hv Hf) as [x [Hx Hb]]. exists x. split; [|exact Hb].
    eapply subexpr_trans; [exact Hx | apply subexpr_child; constructor; exact Hv].
  - destruct (forallb_false_exists _ _ Hs) as [v [Hv Hf]]. rewrite Forall_forall in H.
    destruct (H v Hv Hf) as [x [Hx Hb]]. exists x. split; [|exact Hb].
    eapply subexpr_trans; [exact Hx | apply subexpr_child; constructor; exact Hv].
  - apply andb_false_iff in Hs. destruct Hs as [Hs|Hs]; [apply andb_false_iff in Hs; destruct Hs as [Hs|Hs]|].
    + destruct (IHe Hs) as [x [Hx Hb]]. exists x. split; [|exact Hb].
      eapply subexpr_trans; [exact Hx | apply subexpr_child; constructor].
    + destruct (forallb_false_exists _ _ Hs) as [v [Hv Hf]]. rewrite Forall_forall in H.
      destruct (H v Hv Hf) as [x [Hx Hb]]. exists x. split; [|exact Hb].
      eapply subexpr_trans; [exact Hx | apply subexpr_child; apply ch_callarg; exact Hv].
    + destruct (forallb_false_exists _ _ Hs) as [[k v] [Hv Hf]]. rewrite Forall_forall in H0.
      destruct (H0 _ Hv Hf) as [x [Hx Hb]]. exists x. split; [|exact Hb].
      eapply subexpr_trans; [exact Hx | apply subexpr_child; eapply ch_callkw; exact Hv].
  - eexists. split; [apply sub_refl|]. left. eauto.
Qed.

Lemma bad_node_rejected e x : subexpr x e -> bad_node x -> exists err, convert e = Err err.
Proof.
  intros Hx Hb. apply is_ok_false_err. pose proof (bad_subexpr_shape x e Hx Hb) as Hf.
  rewrite convert_ok_iff; unfold supported; rewrite Hf; reflexivity.
Qed.

(* the odd nodes: exactly what makes a shape-correct expression unsupported *)
Lemma plain_false_odd : forall e, plain_ok e = false -> exists x, subexpr x e /\ odd_node x.
Proof.
  induction e using expr_ind2; cbn [plain_ok]; intros Hs.
  - destruct (forallb_false_exists _ _ Hs) as [v [Hv Hf]]. rewrite Forall_forall in H.
    destruct (H v Hv Hf) as [x [Hx Hb]]. exists x. split; [|exact Hb].
    eapply subexpr_trans; [exact Hx | apply subexpr_child; constructor; exact Hv].
  - apply andb_false_iff in Hs. destruct Hs as [Hs|Hs].
    + destruct (IHe1 Hs) as [x [Hx Hb]]. exists x. split; [|exact Hb].
      eapply subexpr_trans; [exact Hx | apply subexpr_child; constructor].
    + destruct (IHe2 Hs) as [x [Hx Hb]]. exists x. split; [|exact Hb].
      eapply subexpr_trans; [exact Hx | apply subexpr_child; constructor].
  - destruct (IHe Hs) as [x [Hx Hb]]. exists x. split; [|exact Hb].
    eapply subexpr_trans; [exact Hx | apply subexpr_child; constructor].
  - apply andb_false_iff in Hs. destruct Hs as [Hs|Hs].
    + destruct (IHe Hs) as [x [Hx Hb]]. exists x. split; [|exact Hb].
      eapply subexpr_trans; [exact Hx | apply subexpr_child; constructor].
    + destruct (forallb_false_exists _ _ Hs) as [v [Hv Hf]]. rewrite Forall_forall in H.
      destruct (H v Hv Hf) as [x [Hx Hb]]. exists x. split; [|exact Hb].
      eapply subexpr_trans; [exact Hx | apply subexpr_child; apply ch_cmpc; exact Hv].
  - discriminate.
  - eexists. split; [apply sub_refl|]. left. eauto.
  - destruct (IHe Hs) as [x [Hx Hb]]. exists x. split; [|exact Hb].
    eapply subexpr_trans; [exact Hx | apply subexpr_child; constructor].
  - destruct (forallb_false_exists _ _ Hs) as [v [Hv Hf]]. rewrite Forall_forall in H.
    destruct (H v Hv Hf) as [x [Hx Hb]]. exists x. split; [|exact Hb].
    eapply subexpr_trans; [exact Hx | apply subexpr_child; constructor; exact Hv].
  - destruct (forallb_false_exists _ _ Hs) as [v [Hv Hf]]. rewrite Forall_forall in H.
    destruct (H v Hv Hf) as [x [Hx Hb]]. exists x. split; [|exact Hb].
    eapply subexpr_trans; [exact Hx | apply subexpr_child; constructor; exact Hv].
  - apply andb_false_iff in Hs. destruct Hs as [Hs|Hs]; [apply andb_false_iff in Hs; destruct Hs as [Hs|Hs]|].
    + destruct (IHe Hs) as [x [Hx Hb]]. exists x. split; [|exact Hb].
      eapply subexpr_trans; [exact Hx | apply subexpr_child; constructor].
    + destruct (forallb_false_exists _ _ Hs) as [v [Hv Hf]]. rewrite Forall_forall in H.
      destruct (H v Hv Hf) as [x [Hx Hb]]. exists x. split; [|exact Hb].
      eapply subexpr_trans; [exact Hx | apply subexpr_child; apply ch_callarg; exact Hv].
    + destruct (forallb_false_exists _ _ Hs) as [[k v] [Hv Hf]]. apply andb_false_iff in Hf.
      destruct Hf as [Hf|Hf].
      * (* a keyword without a name *)
        exists (ECall p e args kws). split; [apply sub_refl|]. right. do 4 eexists. split; [reflexivity|].
        destruct (forallb kw_named kws) eqn:E; [|reflexivity].
        pose proof (forallb_In_true _ _ _ E Hv) as Hn. unfold kw_named in Hn. cbn in Hn.
        destruct k; discriminate.
      * rewrite Forall_forall in H0. destruct (H0 _ Hv Hf) as [x [Hx Hb]]. exists x. split; [|exact Hb].
        eapply subexpr_trans; [exact Hx | apply subexpr_child; eapply ch_callkw; exact Hv].
  - discriminate.
Qed.

Lemma plain_child x e : child x e -> plain_ok e = true -> plain_ok x = true.
Proof.
  intros Hc. destruct Hc; cbn [plain_ok]; intros Hs.
  - eapply forallb_In_true; eauto.
  - apply andb_true_iff in Hs; tauto.
  - apply andb_true_iff in Hs; tauto.
  - assumption.
  - apply andb_true_iff in Hs; tauto.
  - apply andb_true_iff in Hs. destruct Hs as [_ Hs]. eapply forallb_In_true; eauto.
  - assumption.
  - eapply forallb_In_true; eauto.
  - eapply forallb_In_true; eauto.
  - apply andb_true_iff in Hs. destruct Hs as [Hs _]. apply andb_true_iff in Hs; tauto.
  - apply andb_true_iff in Hs. destruct Hs as [Hs _]. apply andb_true_iff in Hs. destruct Hs as [_ Hs].
    eapply forallb_In_true; eauto.
  - apply andb_true_iff in Hs. destruct Hs as [_ Hs]. pose proof (forallb_In_true _ _ _ Hs H) as Hk. cbn in Hk.
    apply andb_true_iff in Hk; tauto.
Qed.

Lemma plain_subexpr x e : subexpr x e -> plain_ok e = true -> plain_ok x = true.
Proof. induction 1 as [|y e _ IH Hc]; intros Hs; [exact Hs | apply IH; eapply plain_child; eauto]. Qed.

Lemma odd_node_plain x : odd_node x -> plain_ok x = false.
Proof.
  intros [[p [c [-> Hc]]]|[p [f [args [kws [-> Hk]]]]]]; [exact Hc|].
  cbn [plain_ok]. apply andb_false_iff. right.
  destruct (forallb_false_exists _ _ Hk) as [[k v] [Hin Hn]]. unfold kw_named in Hn. cbn in Hn.
  destruct k; [discriminate|].
  match goal with |- forallb ?f kws = false => destruct (forallb f kws) eqn:E; [|reflexivity];
    pose proof (forallb_In_true _ _ _ E Hin) as Hkv end. cbn in Hkv. discriminate.
Qed.

Lemma odd_node_rejected e x : subexpr x e -> odd_node x -> exists err, convert e = Err err.
Proof.
  intros Hx Ho. apply is_ok_false_err. rewrite convert_ok_iff. unfold supported.
  destruct (plain_ok e) eqn:E; [|apply andb_false_r].
  pose proof (plain_subexpr x e Hx E). pose proof (odd_node_plain x Ho). congruence.
Qed.

(* accepted  <->  no bad node and no odd node anywhere *)
Lemma convert_ok_spec e :
  (exists t, convert e = Ok t) <-> (forall x, subexpr x e -> ~ bad_node x /\ ~ odd_node x).
Proof.
  split.
  - intros [t Ht] x Hx. split; intros Hb;
      [destruct (bad_node_rejected e x Hx Hb) | destruct (odd_node_rejected e x Hx Hb)]; congruence.
  - intros H. apply is_ok_true_ok. rewrite convert_ok_iff. unfold supported.
    destruct (shape_ok e) eqn:E1.
    + destruct (plain_ok e) eqn:E2; [reflexivity|]. destruct (plain_false_odd e E2) as [x [Hx Ho]]. destruct (proj2 (H x Hx) Ho).
    + destruct (shape_false_bad e E1) as [x [Hx Hb]]. destruct (proj1 (H x Hx) Hb).
Qed.

(* ------------------------------------------------------------------------------------------- *)
(* Comments. *)

Lemma lstrip_spec s :
  exists a, s = a ++ lstrip s /\ forallb py_isspace a = true /\
            (forall c t, lstrip s = c :: t -> py_isspace c = false).
Proof.
  induction s as [|c s IH].
  - exists []. cbn. repeat split; intros; discriminate.
  - cbn [lstrip]. destruct (py_isspace c) eqn:E.
    + destruct IH as [a [H1 [H2 H3]]]. exists (c :: a). cbn. rewrite E, H2, <- H1. repeat split; assumption.
    + exists []. cbn. repeat split. intros c' t H. inversion H; subst; assumption.
Qed.

Lemma forallb_rev {A} (f : A -> bool) l : forallb f (rev l) = forallb f l.
Proof.
  induction l as [|x t IH]; cbn; [reflexivity|]. rewrite forallb_app', IH. cbn. rewrite andb_true_r, andb_comm. reflexivity.
Qed.

Lemma py_strip_spec s :
  exists a b, s = a ++ py_strip s ++ b /\ forallb py_isspace a = true /\ forallb py_isspace b = true /\
              (forall c t, py_strip s = c :: t -> py_isspace c = false) /\
              (forall c t, py_strip s = t ++ [c] -> py_isspace c = false).
Proof.
  unfold py_strip.
  destruct (lstrip_spec s) as [a [Ha [Hsa Hha]]].
  destruct (lstrip_spec (rev (lstrip s))) as [b [Hb [Hsb Hhb]]].
  set (s1 := lstrip s) in *. set (s2 := lstrip (rev s1)) in *.
  assert (Hs1 : s1 = rev s2 ++ rev b).
  { rewrite <- (rev_involutive s1), Hb, rev_app_distr. reflexivity. }
  exists a, (rev b). repeat split.
  - rewrite <- Hs1. exact Ha.
  - exact Hsa.
  - rewrite forallb_rev. exact Hsb.
  - intros c t Hr. apply (Hha c (t ++ rev b)). rewrite Hs1, Hr. reflexivity.
  - intros c t Hr. apply (Hhb c (rev t)).
    rewrite <- (rev_involutive s2), Hr, rev_app_distr. reflexivity.
Qed.

Lemma parse_predicate_comment e cs c t :
  first_comment cs = Some c -> parse_predicate (Some e) cs = Ok t ->
  exists t0, convert e = Ok t0 /\ t = TComment t0 (py_strip (tl c)).
Proof.
  intros Hc Hp. unfold parse_predicate in Hp. destruct (convert e) as [t0|]; cbn in Hp; [|discriminate].
  rewrite Hc in Hp. inversion Hp. eauto.
Qed.

Lemma parse_predicate_no_comment e cs :
  first_comment cs = None -> parse_predicate (Some e) cs = convert e.
Proof. intros Hc. unfold parse_predicate. destruct (convert e); cbn; rewrite ?Hc; reflexivity. Qed.

Lemma parse_predicate_err_iff e cs :
  is_ok (parse_predicate (Some e) cs) = is_ok (convert e).
Proof. unfold parse_predicate. destruct (convert e); cbn; [destruct (first_comment cs)|]; reflexivity. Qed.

(* the whole function on the faithful subset, comment or not *)
Lemma parse_predicate_faithful (M : PySem) (Hmem : membership_ignores_tuple M) (g : env M) e cs :
  in_subset e = true ->
  exists t, parse_predicate (Some e) cs = Ok t /\ eval_tree M g t = eval_py M g e.
Proof.
  intros Hs. destruct (convert_faithful_lemma M Hmem g e Hs) as [t [Ct Et]].
  unfold parse_predicate. rewrite Ct. cbn [bindc]. destruct (first_comment cs).
  - eexists; split; [reflexivity|]. exact Et.
  - eexists; split; [reflexivity|]. exact Et.
Qed.

Lemma parse_predicate_json_ok e cs t :
  plain_ok e = true -> parse_predicate (Some e) cs = Ok t -> json_value (to_py t) = true.
Proof.
  intros Hp H. unfold parse_predicate in H. destruct (convert e) as [t0|] eqn:E; cbn in H; [|discriminate].
  pose proof (convert_plain_json e t0 Hp E) as Hj. unfold json_tree in Hj.
  destruct (first_comment cs); inversion H; subst; cbn; rewrite ?Hj; reflexivity.
Qed.

