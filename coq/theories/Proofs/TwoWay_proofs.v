(* Two-way references stay symmetric: proofs about Model/TwoWay.v. *)
From Coq Require Import ZArith List Bool Arith Lia Sorted.
Import ListNotations.
Require Import Grist.Model.RefIndex Grist.Model.TwoWay Grist.Proofs.RefIndex_proofs Grist.Proofs.RefIndex_removal
               Grist.Proofs.TwoWay_adj.

(* ---- small facts -------------------------------------------------------------------------------------- *)
Lemma list_eqb_Z_eq : forall x y, list_eqb Z.eqb x y = true -> x = y.
Proof.
  induction x as [|a x IH]; intros [|b y] H; cbn in H; try discriminate; [reflexivity|].
  apply andb_true_iff in H. destruct H as [H1 H2]. apply Z.eqb_eq in H1. subst. f_equal. apply IH. assumption.
Qed.

Lemma cell_eqb_eq : forall a b, cell_eqb a b = true -> a = b.
Proof.
  intros [|x|x|x] [|y|y|y] H; cbn in H; try discriminate; try reflexivity.
  - apply Z.eqb_eq in H. subst. reflexivity.
  - apply list_eqb_Z_eq in H. subst. reflexivity.
  - apply list_eqb_Z_eq in H. subst. reflexivity.
Qed.

Fixpoint assoc (x : nat) (l : list (nat * cell)) : option cell :=
  match l with
  | [] => None
  | (k, v) :: l' => if x =? k then Some v else assoc x l'
  end.

Lemma assoc_in : forall x l v, NoDup (map fst l) -> In (x, v) l -> assoc x l = Some v.
Proof.
  intros x l v. induction l as [|[k w] l IH]; intros Hn Hin; [destruct Hin|].
  cbn [map fst] in Hn. inversion Hn as [|? ? Hnot Hn']; subst. cbn [assoc].
  destruct Hin as [Heq|Hin].
  - inversion Heq; subst. rewrite Nat.eqb_refl. reflexivity.
  - destruct (x =? k) eqn:E; [|apply IH; assumption].
    apply Nat.eqb_eq in E. subst k. exfalso. apply Hnot. apply in_map_iff. exists (x, v). split; [reflexivity|assumption].
Qed.

Lemma assoc_some_in : forall x l v, assoc x l = Some v -> In (x, v) l.
Proof.
  intros x l v. induction l as [|[k w] l IH]; cbn [assoc]; [discriminate|].
  destruct (x =? k) eqn:E.
  - intros H. inversion H; subst. apply Nat.eqb_eq in E. subst. left. reflexivity.
  - intros H. right. apply IH. assumption.
Qed.

Lemma assoc_none : forall x l, ~ In x (map fst l) -> assoc x l = None.
Proof.
  intros x l. induction l as [|[k w] l IH]; intros H; [reflexivity|]. cbn [assoc].
  destruct (x =? k) eqn:E.
  - apply Nat.eqb_eq in E. subst. exfalso. apply H. left. reflexivity.
  - apply IH. intros Hin. apply H. right. assumption.
Qed.

Lemma combine_fst : forall A B (l : list A) (l' : list B), length l = length l' -> map fst (combine l l') = l.
Proof.
  intros A B l. induction l as [|x l IH]; intros [|y l'] H; cbn in *; try discriminate; [reflexivity|].
  f_equal. apply IH. lia.
Qed.

Lemma triple_in : forall (f : nat -> cell) (rows : list nat) (news : list cell) (x : nat) (o n : cell),
  In (x, (o, n)) (combine rows (combine (map f rows) news)) -> o = f x /\ In (x, n) (combine rows news).
Proof.
  intros f rows. induction rows as [|r rows IH]; intros news x o n H; [destruct H|].
  destruct news as [|v news]; [destruct H|]. cbn in H. destruct H as [Heq|H].
  - inversion Heq; subst. split; [reflexivity|left; reflexivity].
  - destruct (IH news x o n H) as [H1 H2]. split; [assumption|right; assumption].
Qed.

Lemma triple_in_conv : forall (f : nat -> cell) (rows : list nat) (news : list cell) (x : nat) (n : cell),
  In (x, n) (combine rows news) -> In (x, (f x, n)) (combine rows (combine (map f rows) news)).
Proof.
  intros f rows. induction rows as [|r rows IH]; intros news x n H; [destruct H|].
  destruct news as [|v news]; [destruct H|]. cbn in H. destruct H as [Heq|H].
  - inversion Heq; subst. left. reflexivity.
  - right. apply IH. assumption.
Qed.

Lemma NoDup_filter : forall A (P : A -> bool) l, NoDup l -> NoDup (filter P l).
Proof.
  intros A P l H. induction H as [|x l Hn Hd IH]; cbn; [constructor|].
  destruct (P x); [constructor; [intros Hin; apply filter_In in Hin; tauto|assumption]|assumption].
Qed.

Lemma NoDup_map_fst_filter : forall (P : nat * cell -> bool) l, NoDup (map fst l) -> NoDup (map fst (filter P l)).
Proof.
  intros P l. induction l as [|[k v] l IH]; intros H; cbn; [constructor|].
  cbn in H. inversion H as [|? ? Hnot Hn]; subst. destruct (P (k, v)); cbn; [|apply IH; assumption].
  constructor; [|apply IH; assumption]. intros Hin. apply Hnot. apply in_map_iff in Hin.
  destruct Hin as [[k' v'] [E Hin]]. cbn in E. subst k'. apply filter_In in Hin. destruct Hin as [Hin _].
  apply in_map_iff. exists (k, v'). split; [reflexivity|assumption].
Qed.

Lemma clean_up_idem : forall hack k v, clean_up hack k (clean_up hack k v) = clean_up hack k v.
Proof.
  intros hack k v. destruct k, v as [|z|l|s]; cbn; try reflexivity.
  destruct (hack s) eqn:E; cbn; [reflexivity|rewrite E; reflexivity].
Qed.

Section Folds.
  Variable hack : list Z -> option (list Z).

  (* a sequence of sets on distinct rows with already-clean values *)
  Lemma set_fold_assoc : forall l c, inv_ok c -> NoDup (map fst l) ->
    (forall r v, In (r, v) l -> clean_up hack (rc_kind c) v = v) ->
    exists c2, fold_left (fun acc rv => bind acc (fun c' => col_set hack c' (fst rv) (snd rv))) l (Ok c) = Ok c2 /\
      rc_kind c2 = rc_kind c /\ inv_ok c2 /\
      forall r, raw_get c2 r = match assoc r l with Some v => v | None => raw_get c r end.
  Proof.
    induction l as [|[k v] l IH]; intros c H Hn Hc.
    - exists c. split; [reflexivity|]. split; [reflexivity|]. split; [assumption|]. reflexivity.
    - cbn [map fst] in Hn. inversion Hn as [|? ? Hnot Hn']; subst.
      destruct (col_set_spec hack c k v H) as [c' [E [Hk [Hg [_ Ho]]]]].
      destruct (IH c' Ho Hn') as [c2 [E2 [Hk2 [Ho2 Hg2]]]].
      { intros r w Hin. rewrite Hk. apply (Hc r w). right. assumption. }
      exists c2. cbn [fold_left bind fst snd]. rewrite E. split; [exact E2|]. split; [congruence|]. split; [assumption|].
      intros r. rewrite Hg2. cbn [assoc]. destruct (r =? k) eqn:Ek.
      + apply Nat.eqb_eq in Ek. subst r. rewrite assoc_none by assumption. rewrite Hg, Nat.eqb_refl.
        apply (Hc k v). left. reflexivity.
      + destruct (assoc r l); [reflexivity|]. rewrite Hg, Ek. reflexivity.
  Qed.
End Folds.

(* ---- the meaning of the adjustments ------------------------------------------------------------------- *)
(* the cell of row x in column A after writing `news` at `rows` *)
Definition new_cell (a : refcol) (rows : list nat) (news : list cell) (x : nat) : cell :=
  match assoc x (combine rows news) with Some v => v | None => raw_get a x end.

Lemma adj_meaning : forall a rows news, inv_ok a -> NoDup rows -> length news = length rows ->
  let k := rc_kind a in
  let adj := get_reverse_adjustments_ref rows (map (raw_get a) rows) news (value_iterable k) (rc_inv a) in
  NoDup (map fst adj) /\
  (forall t l, In (t, l) adj -> sorted l /\ forall x, In x l <-> In t (value_iterable k (new_cell a rows news x))) /\
  (forall t, ~ In t (map fst adj) ->
     forall x, In t (value_iterable k (new_cell a rows news x)) <-> In t (refs a x)) /\
  (forall t x, In t (value_iterable k (new_cell a rows news x)) -> ~ In t (refs a x) -> In t (map fst adj)).
Proof.
  intros a rows news [Hs Hm] Hnd Hlen k adj.
  destruct (adj_spec rows (map (raw_get a) rows) news (value_iterable k) (rc_inv a) Hs) as [Hn [Hk Hl]].
  fold adj in Hn, Hk, Hl.
  set (trs := combine rows (combine (map (raw_get a) rows) news)) in *.
  assert (Hfst : map fst (combine rows news) = rows) by (apply combine_fst; lia).
  assert (Hnd2 : NoDup (map fst (combine rows news))) by (rewrite Hfst; assumption).
  (* the two "changed" predicates in terms of the new cell *)
  assert (Hold : forall t x, changed_old (value_iterable k) trs t x <->
                             new_cell a rows news x <> raw_get a x /\ In t (refs a x)).
  { intros t x. unfold changed_old, new_cell. split.
    - intros [o [n [Hin [E Hi]]]]. apply triple_in in Hin. destruct Hin as [-> Hin].
      rewrite (assoc_in x _ n Hnd2 Hin). split; [|exact Hi].
      intros Heq. subst n. destruct (raw_get a x) as [|z|l|s]; cbn in E;
        try discriminate; try (rewrite Z.eqb_refl in E; discriminate);
        (assert (Hr : forall l0, list_eqb Z.eqb l0 l0 = true)
           by (induction l0 as [|y l0 IH0]; cbn; [reflexivity|rewrite Z.eqb_refl; exact IH0]);
         rewrite Hr in E; discriminate).
    - intros [Hne Hi]. destruct (assoc x (combine rows news)) as [n|] eqn:Ea; [|congruence].
      exists (raw_get a x), n. split; [apply triple_in_conv; apply assoc_some_in; assumption|].
      split; [|exact Hi]. destruct (cell_eqb n (raw_get a x)) eqn:E; [|reflexivity].
      apply cell_eqb_eq in E. congruence. }
  assert (Hnew : forall t x, changed_new (value_iterable k) trs t x <->
                             new_cell a rows news x <> raw_get a x /\ In t (value_iterable k (new_cell a rows news x))).
  { intros t x. unfold changed_new, new_cell. split.
    - intros [o [n [Hin [E Hi]]]]. apply triple_in in Hin. destruct Hin as [-> Hin].
      rewrite (assoc_in x _ n Hnd2 Hin). split; [|exact Hi].
      intros Heq. subst n. destruct (raw_get a x) as [|z|l|s]; cbn in E;
        try discriminate; try (rewrite Z.eqb_refl in E; discriminate);
        (assert (Hr : forall l0, list_eqb Z.eqb l0 l0 = true)
           by (induction l0 as [|y l0 IH0]; cbn; [reflexivity|rewrite Z.eqb_refl; exact IH0]);
         rewrite Hr in E; discriminate).
    - intros [Hne Hi]. destruct (assoc x (combine rows news)) as [n|] eqn:Ea; [|congruence].
      exists (raw_get a x), n. split; [apply triple_in_conv; apply assoc_some_in; assumption|].
      split; [|exact Hi]. destruct (cell_eqb n (raw_get a x)) eqn:E; [|reflexivity].
      apply cell_eqb_eq in E. congruence. }
  assert (Hdec : forall x, new_cell a rows news x = raw_get a x \/ new_cell a rows news x <> raw_get a x).
  { intros x. destruct (cell_eqb (new_cell a rows news x) (raw_get a x)) eqn:E.
    - left. apply cell_eqb_eq. assumption.
    - right. intros Heq. rewrite Heq in E. destruct (raw_get a x) as [|z|l|s]; cbn in E;
        try discriminate; try (rewrite Z.eqb_refl in E; discriminate);
        (assert (Hr : forall l0, list_eqb Z.eqb l0 l0 = true)
           by (induction l0 as [|y l0 IH0]; cbn; [reflexivity|rewrite Z.eqb_refl; exact IH0]);
         rewrite Hr in E; discriminate). }
  split; [exact Hn|]. split; [|split].
  - intros t l Hin. destruct (Hl t l Hin) as [Hsl Hx]. split; [exact Hsl|].
    intros x. rewrite Hx, Hold, Hnew, Hm. unfold refs. fold k.
    destruct (Hdec x) as [He|Hne].
    + rewrite He. tauto.
    + tauto.
  - intros t Hnot x. rewrite Hk in Hnot.
    destruct (Hdec x) as [He|Hne]; [rewrite He; unfold refs; tauto|].
    split; intros Hi; exfalso; apply Hnot; exists x.
    + right. apply Hnew. split; assumption.
    + left. apply Hold. split; assumption.
  - intros t x Hi Hno. rewrite Hk. exists x. right. apply Hnew. split; [|exact Hi].
    intros He. rewrite He in Hi. apply Hno. exact Hi.
Qed.

(* ---- invariants of a pair ------------------------------------------------------------------------------- *)
Definition rows_ok (rows : list nat) : Prop := forall r, In r rows -> 0 < r /\ (Z.of_nat r < 2147483648)%Z.

(* references sit only on existing rows and point only at existing rows *)
Definition closed (a : refcol) (rows_a rows_b : list nat) : Prop :=
  forall x t, In t (refs a x) -> In x rows_a /\ exists b, t = Z.of_nat b /\ In b rows_b.

Definition pair_ok (s : pair_state) : Prop :=
  inv_ok (p_a s) /\ inv_ok (p_b s) /\ rows_ok (p_rows_a s) /\ rows_ok (p_rows_b s) /\
  closed (p_a s) (p_rows_a s) (p_rows_b s) /\ closed (p_b s) (p_rows_b s) (p_rows_a s).

Lemma short_of_nat : forall r, (Z.of_nat r < 2147483648)%Z -> is_int_short (Z.of_nat r) = true.
Proof. intros r H. unfold is_int_short. apply andb_true_iff. split; [apply Z.leb_le|apply Z.ltb_lt]; lia. Qed.

Lemma iter_ltv : forall k l v, list_to_value k l = Ok v ->
  (forall x, In x l -> 0 < x /\ (Z.of_nat x < 2147483648)%Z) -> value_iterable k v = map Z.of_nat l.
Proof.
  intros k l v H Hl. destruct k; cbn in H.
  - destruct l as [|x [|y l]]; inversion H; subst; [reflexivity|].
    destruct (Hl x (or_introl eq_refl)) as [Hp Hs]. unfold value_iterable. cbn [truthy right_type map].
    rewrite (short_of_nat x Hs). destruct (Z.of_nat x =? 0)%Z eqn:E; [apply Z.eqb_eq in E; lia|reflexivity].
  - destruct l as [|x l]; inversion H; subst; [reflexivity|].
    unfold value_iterable. cbn [truthy right_type map andb].
    assert (Hf : forallb is_int_short (Z.of_nat x :: map Z.of_nat l) = true).
    { apply forallb_forall. intros z Hz. change (Z.of_nat x :: map Z.of_nat l) with (map Z.of_nat (x :: l)) in Hz.
      apply in_map_iff in Hz. destruct Hz as [y [<- Hy]]. apply short_of_nat. apply Hl. assumption. }
    rewrite Hf. reflexivity.
Qed.

Lemma ltv_clean : forall hack k k' l v, list_to_value k' l = Ok v -> clean_up hack k v = v.
Proof.
  intros hack k k' l v H. destruct k'; cbn in H.
  - destruct l as [|x [|y l]]; inversion H; subst; destruct k; reflexivity.
  - destruct l as [|x l]; inversion H; subst; destruct k; reflexivity.
Qed.

Lemma mapM_target_row : forall rows ts rs, mapM (target_row rows) ts = Ok rs ->
  rs = map Z.to_nat ts /\ forall t, In t ts -> (0 <= t)%Z /\ In (Z.to_nat t) rows.
Proof.
  intros rows ts. induction ts as [|t ts IH]; intros rs H; cbn in H.
  - inversion H; subst. split; [reflexivity|intros t []].
  - unfold target_row at 1 in H. destruct ((0 <=? t)%Z && memN (Z.to_nat t) rows) eqn:E; [|discriminate].
    cbn [bind] in H. destruct (mapM (target_row rows) ts) as [rs'|e] eqn:E2; [|discriminate].
    cbn [bind] in H. inversion H; subst. destruct (IH rs' eq_refl) as [-> Hall]. split; [reflexivity|].
    apply andb_true_iff in E. destruct E as [E1 E3]. apply Z.leb_le in E1. apply memN_In in E3.
    intros t' [->|Hin]; [split; assumption|apply Hall; assumption].
Qed.

Lemma mapM_target_row_ok : forall rows ts, (forall t, In t ts -> (0 <= t)%Z /\ In (Z.to_nat t) rows) ->
  mapM (target_row rows) ts = Ok (map Z.to_nat ts).
Proof.
  intros rows ts H. apply mapM_ok. intros t Ht. destruct (H t Ht) as [H1 H2]. unfold target_row.
  apply Z.leb_le in H1. apply memN_In in H2. rewrite H1, H2. reflexivity.
Qed.

Lemma mapM_inv : forall A B (f : A -> res B) l ys, mapM f l = Ok ys ->
  length ys = length l /\ forall x y, In (x, y) (combine l ys) -> f x = Ok y.
Proof.
  intros A B f l. induction l as [|a l IH]; intros ys H; cbn in H.
  - inversion H; subst. split; [reflexivity|intros x y []].
  - destruct (f a) as [b|e] eqn:E; [|discriminate]. cbn [bind] in H.
    destruct (mapM f l) as [ys'|e] eqn:E2; [|discriminate]. cbn [bind] in H. inversion H; subst.
    destruct (IH ys' eq_refl) as [Hl Hc]. split; [cbn; lia|].
    intros x y [Heq|Hin]; [inversion Heq; subst; assumption|apply Hc; assumption].
Qed.

Lemma adj_values : forall kb (radj : list (Z * list nat)) adj,
  mapM (fun tl => bind (list_to_value kb (snd tl)) (fun v => Ok (fst tl, v))) radj = Ok adj ->
  map fst adj = map fst radj /\
  (forall t l, In (t, l) radj -> exists v, list_to_value kb l = Ok v /\ In (t, v) adj) /\
  (forall t v, In (t, v) adj -> exists l, In (t, l) radj /\ list_to_value kb l = Ok v).
Proof.
  intros kb radj. induction radj as [|[t0 l0] radj IH]; intros adj H; cbn in H.
  - inversion H; subst. split; [reflexivity|]. split; [intros t l []|intros t v []].
  - destruct (list_to_value kb l0) as [v0|e] eqn:E0; [|discriminate]. cbn [bind] in H.
    destruct (mapM _ radj) as [adj'|e] eqn:E1; [|discriminate]. cbn [bind] in H. inversion H; subst.
    destruct (IH adj' eq_refl) as [H1 [H2 H3]]. split; [cbn; rewrite H1; reflexivity|]. split.
    + intros t l [Heq|Hin].
      * inversion Heq; subst. exists v0. split; [assumption|left; reflexivity].
      * destruct (H2 t l Hin) as [v [Hv Hi]]. exists v. split; [assumption|right; assumption].
    + intros t v [Heq|Hin].
      * inversion Heq; subst. exists l0. split; [left; reflexivity|assumption].
      * destruct (H3 t v Hin) as [l [Hl Hv]]. exists l. split; [right; assumption|assumption].
Qed.

Lemma combine_map_fst_snd : forall (adj : list (Z * cell)),
  combine (map Z.to_nat (map fst adj)) (map snd adj) = map (fun tv => (Z.to_nat (fst tv), snd tv)) adj.
Proof. induction adj as [|[t v] adj IH]; cbn; [reflexivity|]. rewrite IH. reflexivity. Qed.

Lemma combine_fst_snd_id : forall A B (l : list (A * B)), combine (map fst l) (map snd l) = l.
Proof. induction l as [|[x y] l IH]; cbn; [reflexivity|]. rewrite IH. reflexivity. Qed.

Lemma NoDup_map_to_nat : forall ts, NoDup ts -> (forall t, In t ts -> (0 <= t)%Z) -> NoDup (map Z.to_nat ts).
Proof.
  induction ts as [|t ts IH]; intros Hn Hp; cbn; [constructor|].
  inversion Hn as [|? ? Hnot Hn']; subst. constructor.
  - intros Hin. apply in_map_iff in Hin. destruct Hin as [t' [E Hin]]. apply Hnot.
    assert (t' = t); [|subst; assumption].
    pose proof (Hp t (or_introl eq_refl)). pose proof (Hp t' (or_intror Hin)). lia.
  - apply IH; [assumption|]. intros t' Ht'. apply Hp. right. assumption.
Qed.

Section Apply.
  Variable hack : list Z -> option (list Z).

  Lemma apply_adjustments_spec : forall rows_b b (radj : list (Z * list nat)) adj b',
    inv_ok b -> NoDup (map fst radj) ->
    mapM (fun tl => bind (list_to_value (rc_kind b) (snd tl)) (fun v => Ok (fst tl, v))) radj = Ok adj ->
    apply_adjustments hack rows_b b adj = Ok b' ->
    rc_kind b' = rc_kind b /\ inv_ok b' /\
    (forall t, In t (map fst radj) -> (0 <= t)%Z /\ In (Z.to_nat t) rows_b) /\
    (forall t l, In (t, l) radj -> exists v, list_to_value (rc_kind b) l = Ok v /\ raw_get b' (Z.to_nat t) = v) /\
    (forall x, ~ In (Z.of_nat x) (map fst radj) -> raw_get b' x = raw_get b x).
  Proof.
    intros rows_b b radj adj b' Hok Hnd Hm Happ.
    destruct (adj_values _ _ _ Hm) as [Hfst [Hfw Hbw]].
    destruct adj as [|p adj0] eqn:Eadj.
    - destruct radj; [|discriminate]. cbn in Happ. inversion Happ; subst.
      split; [reflexivity|]. split; [assumption|]. split; [intros t []|]. split; [intros t l []|reflexivity].
    - rewrite <- Eadj in *. assert (Happ' : apply_adjustments hack rows_b b adj =
        bind (mapM (target_row rows_b) (map fst adj))
             (fun rs => fold_left (fun acc rv => bind acc (fun c' => col_set hack c' (fst rv) (snd rv)))
                                  (combine rs (map snd adj)) (Ok b))).
      { rewrite Eadj. reflexivity. }
      rewrite Happ' in Happ. clear Happ'.
      destruct (mapM (target_row rows_b) (map fst adj)) as [rs|e] eqn:Et; [|discriminate]. cbn [bind] in Happ.
      destruct (mapM_target_row _ _ _ Et) as [-> Hrows]. rewrite combine_map_fst_snd in Happ.
      set (l' := map (fun tv : Z * cell => (Z.to_nat (fst tv), snd tv)) adj) in *.
      assert (Hfst' : map fst l' = map Z.to_nat (map fst adj)).
      { unfold l'. rewrite !map_map. reflexivity. }
      assert (Hnd' : NoDup (map fst l')).
      { rewrite Hfst'. apply NoDup_map_to_nat; [rewrite Hfst; assumption|]. intros t Ht. apply Hrows. assumption. }
      destruct (set_fold_assoc hack l' b Hok Hnd') as [c2 [E2 [Hk2 [Ho2 Hg2]]]].
      { intros r v Hin. unfold l' in Hin. apply in_map_iff in Hin. destruct Hin as [[t v'] [Heq Hin]].
        cbn [fst snd] in Heq. inversion Heq; subst. destruct (Hbw t v Hin) as [l [_ Hv]].
        apply (ltv_clean hack _ _ _ _ Hv). }
      rewrite E2 in Happ. inversion Happ; subst c2.
      split; [assumption|]. split; [assumption|]. split; [|split].
      + intros t Ht. apply Hrows. rewrite Hfst. assumption.
      + intros t l Hin. destruct (Hfw t l Hin) as [v [Hv Hi]]. exists v. split; [assumption|].
        rewrite Hg2. rewrite (assoc_in (Z.to_nat t) l' v Hnd'); [reflexivity|].
        unfold l'. apply in_map_iff. exists (t, v). split; [reflexivity|assumption].
      + intros x Hx. rewrite Hg2. rewrite assoc_none; [reflexivity|].
        intros Hin. rewrite Hfst' in Hin. apply in_map_iff in Hin. destruct Hin as [t [E Hin]].
        apply Hx. rewrite <- Hfst. destruct (Hrows t Hin) as [Hp _].
        assert (Z.of_nat x = t) by lia. subst t. assumption.
  Qed.

  Lemma apply_trimmed_spec : forall rows_a a rows news a',
    inv_ok a -> NoDup rows -> length news = length rows ->
    (forall v, In v news -> clean_up hack (rc_kind a) v = v) ->
    apply_trimmed hack rows_a a rows news = Ok a' ->
    rc_kind a' = rc_kind a /\ inv_ok a' /\
    (forall x, raw_get a' x = new_cell a rows news x) /\
    (forall x, new_cell a rows news x <> raw_get a x -> In x rows_a).
  Proof.
    intros rows_a a rows news a' Hok Hnd Hlen Hclean Happ. unfold apply_trimmed in Happ.
    set (kept := filter (fun rv => negb (cell_eqb (snd rv) (raw_get a (fst rv)))) (combine rows news)) in *.
    assert (Hfst : map fst (combine rows news) = rows) by (apply combine_fst; lia).
    assert (Hnd1 : NoDup (map fst (combine rows news))) by (rewrite Hfst; assumption).
    assert (Hndk : NoDup (map fst kept)) by (apply NoDup_map_fst_filter; assumption).
    assert (Hcell : forall x, match assoc x kept with Some v => v | None => raw_get a x end = new_cell a rows news x).
    { intros x. unfold new_cell. destruct (assoc x (combine rows news)) as [n|] eqn:Ea.
      - apply assoc_some_in in Ea. destruct (cell_eqb n (raw_get a x)) eqn:E.
        + rewrite assoc_none; [apply cell_eqb_eq in E; congruence|].
          intros Hin. apply in_map_iff in Hin. destruct Hin as [[x' n'] [Heq Hin]]. cbn in Heq. subst x'.
          apply filter_In in Hin. destruct Hin as [Hin Hc]. cbn [fst snd] in Hc.
          assert (n' = n).
          { pose proof (assoc_in x _ n' Hnd1 Hin) as A1. pose proof (assoc_in x _ n Hnd1 Ea) as A2. congruence. }
          subst n'. rewrite E in Hc. discriminate.
        + rewrite (assoc_in x kept n Hndk); [reflexivity|].
          apply filter_In. split; [assumption|]. cbn [fst snd]. rewrite E. reflexivity.
      - rewrite assoc_none; [reflexivity|]. intros Hin. apply in_map_iff in Hin.
        destruct Hin as [[x' n'] [Heq Hin]]. cbn in Heq. subst x'. apply filter_In in Hin. destruct Hin as [Hin _].
        rewrite (assoc_in x _ n' Hnd1 Hin) in Ea. discriminate. }
    assert (Hkeptrows : forall x, new_cell a rows news x <> raw_get a x -> In x (map fst kept)).
    { intros x Hne. rewrite <- Hcell in Hne. destruct (assoc x kept) as [v|] eqn:Ea; [|congruence].
      apply assoc_some_in in Ea. apply in_map_iff. exists (x, v). split; [reflexivity|assumption]. }
    destruct kept as [|p kept0] eqn:Ek.
    - inversion Happ; subst a'. split; [reflexivity|]. split; [assumption|]. split.
      + intros x. rewrite <- Hcell. reflexivity.
      + intros x Hne. destruct (Hkeptrows x Hne).
    - rewrite <- Ek in *. unfold doc_bulk_update in Happ.
      destruct (forallb (fun r => memN r rows_a) (map fst kept)) eqn:Ef; [|discriminate].
      rewrite combine_fst_snd_id in Happ.
      destruct (set_fold_assoc hack kept a Hok Hndk) as [c2 [E2 [Hk2 [Ho2 Hg2]]]].
      { intros r v Hin. apply Hclean. unfold kept in Hin. apply filter_In in Hin. destruct Hin as [Hin _].
        apply in_combine_r in Hin. assumption. }
      rewrite E2 in Happ. inversion Happ; subst c2.
      split; [assumption|]. split; [assumption|]. split.
      + intros x. rewrite Hg2. apply Hcell.
      + intros x Hne. rewrite forallb_forall in Ef. apply memN_In. apply Ef. apply Hkeptrows. assumption.
  Qed.
End Apply.

Lemma in_map_of_nat : forall x l, In (Z.of_nat x) (map Z.of_nat l) <-> In x l.
Proof.
  intros x l. rewrite in_map_iff. split.
  - intros [y [E Hy]]. apply Nat2Z.inj in E. subst. assumption.
  - intros H. exists x. split; [reflexivity|assumption].
Qed.

(* the common core of an update and an add: column A ends with cells new_cell, B gets the adjustments *)
Section Core.
  Variable hack : list Z -> option (list Z).

  Lemma core_sym : forall a b rows_a rows_b rows news adj a' b',
    let s := {| p_a := a; p_b := b; p_rows_a := rows_a; p_rows_b := rows_b |} in
    let radj := get_reverse_adjustments_ref rows (map (raw_get a) rows) news (value_iterable (rc_kind a)) (rc_inv a) in
    pair_ok s -> sym s -> NoDup rows -> length news = length rows ->
    mapM (fun tl => bind (list_to_value (rc_kind b) (snd tl)) (fun v => Ok (fst tl, v))) radj = Ok adj ->
    apply_adjustments hack rows_b b adj = Ok b' ->
    rc_kind a' = rc_kind a -> inv_ok a' ->
    (forall x, raw_get a' x = new_cell a rows news x) ->
    forall rows_a',
    (forall x, In x rows_a -> In x rows_a') -> rows_ok rows_a' ->
    (forall x, new_cell a rows news x <> raw_get a x -> In x rows_a') ->
    let s' := {| p_a := a'; p_b := b'; p_rows_a := rows_a'; p_rows_b := rows_b |} in
    pair_ok s' /\ sym s'.
  Proof.
    intros a b rows_a rows_b rows news adj a' b' s radj Hok Hsym Hnd Hlen Hm Happ Hka Hoka Hcells rows_a' Hsub Hrok' Hchg s'.
    destruct Hok as [Hia [Hib [Hra [Hrb [Hca Hcb]]]]]. cbn [p_a p_b p_rows_a p_rows_b] in *.
    destruct (adj_meaning a rows news Hia Hnd Hlen) as [Hndk [Hmean [Hnokey Hkey]]]. fold radj in Hndk, Hmean, Hnokey, Hkey.
    destruct (apply_adjustments_spec hack rows_b b radj adj b' Hib Hndk Hm Happ) as [Hkb [Hib' [Hkeys [Hvals Hother]]]].
    set (ka := rc_kind a) in *.
    assert (Hrefs' : forall x, refs a' x = value_iterable ka (new_cell a rows news x)).
    { intros x. unfold refs. rewrite Hka, Hcells. reflexivity. }
    (* A' is closed *)
    assert (Hca' : closed a' rows_a' rows_b).
    { intros x t Hin. rewrite Hrefs' in Hin.
      destruct (in_dec Z.eq_dec t (refs a x)) as [Hold|Hnew].
      - destruct (Hca x t Hold) as [H1 H2]. split; [apply Hsub; assumption|assumption].
      - pose proof (Hkey t x Hin Hnew) as Hk. destruct (Hkeys t Hk) as [Hp Hr]. split.
        + apply Hchg. intros Heq. rewrite Heq in Hin. apply Hnew. exact Hin.
        + exists (Z.to_nat t). split; [lia|assumption]. }
    assert (Hkeycell : forall y l, In (Z.of_nat y, l) radj -> refs b' y = map Z.of_nat l).
    { intros y l Hin. destruct (Hvals _ _ Hin) as [v [Hv Hg]]. rewrite Nat2Z.id in Hg.
      unfold refs. rewrite Hkb, Hg. apply (iter_ltv _ _ _ Hv).
      intros x Hx. apply Hrok'. destruct (Hmean _ _ Hin) as [_ Hl]. apply Hl in Hx.
      rewrite <- Hrefs' in Hx. apply (Hca' x _ Hx). }
    assert (Hcb' : closed b' rows_b rows_a').
    { intros y t Hin. destruct (in_dec Z.eq_dec (Z.of_nat y) (map fst radj)) as [Hk|Hnk].
      - apply in_map_iff in Hk. destruct Hk as [[t0 l] [E Hk]]. cbn in E. subst t0.
        rewrite (Hkeycell y l Hk) in Hin. apply in_map_iff in Hin. destruct Hin as [x [<- Hx]].
        split.
        + assert (Hk' : In (Z.of_nat y) (map fst radj)) by (apply in_map_iff; exists (Z.of_nat y, l); auto).
          destruct (Hkeys _ Hk') as [_ Hr]. rewrite Nat2Z.id in Hr. assumption.
        + exists x. split; [reflexivity|]. destruct (Hmean _ _ Hk) as [_ Hl]. apply Hl in Hx.
          rewrite <- Hrefs' in Hx. apply (Hca' x _ Hx).
      - unfold refs in Hin. rewrite Hkb, (Hother y Hnk) in Hin. destruct (Hcb y t Hin) as [H1 [x [E Hx]]].
        split; [assumption|]. exists x. split; [assumption|apply Hsub; assumption]. }
    split.
    - unfold pair_ok, s'. cbn [p_a p_b p_rows_a p_rows_b]. tauto.
    - intros x y. unfold s'. cbn [p_a p_b].
      destruct (in_dec Z.eq_dec (Z.of_nat y) (map fst radj)) as [Hk|Hnk].
      + apply in_map_iff in Hk. destruct Hk as [[t0 l] [E Hk]]. cbn in E. subst t0.
        rewrite (Hkeycell y l Hk), in_map_of_nat, Hrefs'. destruct (Hmean _ _ Hk) as [_ Hl]. rewrite Hl. tauto.
      + rewrite Hrefs'. rewrite (Hnokey _ Hnk x). unfold refs at 2. rewrite Hkb, (Hother y Hnk).
        apply (Hsym x y).
  Qed.
End Core.

Section Steps.
  Variable hack : list Z -> option (list Z).
  Let gra := get_reverse_adjustments_ref.

  Theorem update_a_sym : forall s rows vals s',
    pair_ok s -> sym s -> NoDup rows -> length vals = length rows ->
    update_a hack gra s rows vals = Ok s' ->
    pair_ok s' /\ sym s' /\ p_rows_a s' = p_rows_a s /\ p_rows_b s' = p_rows_b s /\
    forall x, raw_get (p_a s') x = new_cell (p_a s) rows (map (clean_up hack (rc_kind (p_a s))) vals) x.
  Proof.
    intros [a b rows_a rows_b] rows vals s' Hok Hsym Hnd Hlen Hup.
    unfold update_a, prepare_new_values in Hup. cbn [p_a p_b p_rows_a p_rows_b] in *.
    set (news := map (clean_up hack (rc_kind a)) vals) in *.
    destruct (mapM _ (gra rows (map (raw_get a) rows) news (value_iterable (rc_kind a)) (rc_inv a))) as [adj|e] eqn:Em;
      [|discriminate].
    cbn [bind fst snd] in Hup.
    destruct (apply_adjustments hack rows_b b adj) as [b'|e] eqn:Eb; [|discriminate]. cbn [bind] in Hup.
    destruct (apply_trimmed hack rows_a a rows news) as [a'|e] eqn:Ea; [|discriminate]. cbn [bind] in Hup.
    inversion Hup; subst s'. clear Hup. cbn [p_a p_b p_rows_a p_rows_b].
    assert (Hlen' : length news = length rows) by (unfold news; rewrite map_length; assumption).
    pose proof Hok as [Hia [Hib [Hra [Hrb [Hca Hcb]]]]]. cbn [p_a p_b p_rows_a p_rows_b] in *.
    destruct (apply_trimmed_spec hack rows_a a rows news a' Hia Hnd Hlen') as [Hka [Hia' [Hcells Hchg]]].
    { intros v Hv. unfold news in Hv. apply in_map_iff in Hv. destruct Hv as [v0 [<- _]]. apply clean_up_idem. }
    { exact Ea. }
    destruct (core_sym hack a b rows_a rows_b rows news adj a' b' Hok Hsym Hnd Hlen' Em Eb Hka Hia' Hcells
                rows_a (fun x H => H) Hra Hchg) as [Hok' Hsym'].
    split; [exact Hok'|]. split; [exact Hsym'|]. split; [reflexivity|]. split; [reflexivity|exact Hcells].
  Qed.

  Lemma sym_swap : forall s, sym (swap s) <-> sym s.
  Proof.
    intros s. unfold sym, swap. cbn [p_a p_b]. split; intros H a b; specialize (H b a); tauto.
  Qed.

  Lemma pair_ok_swap : forall s, pair_ok (swap s) <-> pair_ok s.
  Proof. intros s. unfold pair_ok, swap. cbn [p_a p_b p_rows_a p_rows_b]. tauto. Qed.

  Theorem update_b_sym : forall s rows vals s',
    pair_ok s -> sym s -> NoDup rows -> length vals = length rows ->
    update_b hack gra s rows vals = Ok s' -> pair_ok s' /\ sym s'.
  Proof.
    intros s rows vals s' Hok Hsym Hnd Hlen Hup. unfold update_b in Hup.
    destruct (update_a hack gra (swap s) rows vals) as [s1|e] eqn:E; [|discriminate]. cbn [bind] in Hup.
    inversion Hup; subst s'.
    destruct (update_a_sym (swap s) rows vals s1 (proj2 (pair_ok_swap s) Hok) (proj2 (sym_swap s) Hsym) Hnd Hlen E)
      as [H1 [H2 _]].
    split; [apply pair_ok_swap|apply sym_swap]; destruct s1; assumption.
  Qed.
End Steps.

(* ---- adding rows ------------------------------------------------------------------------------------------ *)
Lemma pair_ok_grow_b : forall a b rows_a rows_b rows_b',
  pair_ok {| p_a := a; p_b := b; p_rows_a := rows_a; p_rows_b := rows_b |} ->
  (forall x, In x rows_b -> In x rows_b') -> rows_ok rows_b' ->
  pair_ok {| p_a := a; p_b := b; p_rows_a := rows_a; p_rows_b := rows_b' |}.
Proof.
  intros a b rows_a rows_b rows_b' [Hia [Hib [Hra [Hrb [Hca Hcb]]]]] Hsub Hrok.
  cbn [p_a p_b p_rows_a p_rows_b] in *. unfold pair_ok. cbn [p_a p_b p_rows_a p_rows_b].
  split; [assumption|]. split; [assumption|]. split; [assumption|]. split; [assumption|]. split.
  - intros x t Hin. destruct (Hca x t Hin) as [H1 [y [E Hy]]]. split; [assumption|]. exists y. auto.
  - intros y t Hin. destruct (Hcb y t Hin) as [H1 H2]. split; [apply Hsub; assumption|assumption].
Qed.

Lemma rows_ok_union : forall a b, rows_ok a -> rows_ok b -> rows_ok (set_union a b).
Proof. intros a b Ha Hb r Hr. apply set_union_In in Hr. destruct Hr; [apply Ha|apply Hb]; assumption. Qed.

Section AddStep.
  Variable hack : list Z -> option (list Z).
  Let gra := get_reverse_adjustments_ref.

  Theorem add_a_sym : forall same s rows vals s',
    pair_ok s -> sym s -> NoDup rows -> length vals = length rows -> rows_ok rows ->
    (same = true -> p_rows_b s = p_rows_a s) ->
    add_a hack gra same s rows vals = Ok s' -> pair_ok s' /\ sym s'.
  Proof.
    intros same [a b rows_a rows_b] rows vals s' Hok Hsym Hnd Hlen Hrok Hsame Hup.
    unfold add_a, prepare_new_values in Hup. cbn [p_a p_b p_rows_a p_rows_b] in *.
    set (news := map (clean_up hack (rc_kind a)) vals) in *.
    destruct (mapM _ (gra rows (map (raw_get a) rows) news (value_iterable (rc_kind a)) (rc_inv a))) as [adj|e] eqn:Em;
      [|discriminate].
    cbn [bind fst snd] in Hup.
    destruct (apply_adjustments hack rows_b b adj) as [b'|e] eqn:Eb; [|discriminate]. cbn [bind] in Hup.
    assert (Hlen' : length news = length rows) by (unfold news; rewrite map_length; assumption).
    pose proof Hok as [Hia [Hib [Hra [Hrb [Hca Hcb]]]]]. cbn [p_a p_b p_rows_a p_rows_b] in *.
    assert (Hfst : map fst (combine rows news) = rows) by (apply combine_fst; lia).
    destruct (set_fold_assoc hack (combine rows news) a Hia) as [a' [Ea [Hka [Hia' Hg]]]].
    { rewrite Hfst. assumption. }
    { intros r v Hin. apply in_combine_r in Hin. unfold news in Hin. apply in_map_iff in Hin.
      destruct Hin as [v0 [<- _]]. apply clean_up_idem. }
    rewrite Ea in Hup. cbn [bind] in Hup. inversion Hup; subst s'. clear Hup.
    destruct (core_sym hack a b rows_a rows_b rows news adj a' b' Hok Hsym Hnd Hlen' Em Eb Hka Hia'
                (fun x => Hg x) (set_union rows_a rows)) as [Hok' Hsym'].
    { intros x Hx. apply set_union_In. left. assumption. }
    { apply rows_ok_union; assumption. }
    { intros x Hne. apply set_union_In. right. unfold new_cell in Hne.
      destruct (assoc x (combine rows news)) as [v|] eqn:Ex; [|congruence].
      apply assoc_some_in in Ex. apply in_combine_l in Ex. assumption. }
    split.
    - destruct same.
      + apply (pair_ok_grow_b _ _ _ rows_b); [exact Hok'| |].
        * intros x Hx. apply set_union_In. left. assumption.
        * apply rows_ok_union; assumption.
      + exact Hok'.
    - exact Hsym'.
  Qed.
End AddStep.

(* END-PART-7 *)
