(* Lib/Fl64.v: error bounds and grid properties of rounding, for C20 (evenly spread keys are distinct). *)
From Coq Require Import ZArith List Bool Lia.
Import ListNotations.
Require Import Grist.Lib.Fl64 Grist.Proofs.Fl64_proofs Grist.Proofs.Fl64_mono_proofs.
Open Scope Z_scope.

(* ---- rne *)
Lemma rne_err a D : 0 < D -> - D <= 2 * (rne a D * D - a) <= D.
Proof.
  intros HD. unfold rne. pose proof (Z.div_mod a D ltac:(lia)) as Hdm. pose proof (Z.mod_pos_bound a D HD) as Hm.
  destruct (Z.compare_spec (2 * (a mod D)) D); [destruct (Z.even (a / D))|..]; nia.
Qed.

Lemma rne_scale a D f : 0 < D -> 0 < f -> rne (a * f) (D * f) = rne a D.
Proof.
  intros HD Hf. unfold rne. rewrite Z.div_mul_cancel_r by lia. rewrite Z.mul_mod_distr_r by lia.
  replace (2 * (a mod D * f)) with ((2 * (a mod D)) * f) by ring.
  rewrite <- Zmult_compare_compat_r by lia. reflexivity.
Qed.

(* more than one grid step apart: different roundings (exactly one step apart is not enough: 1.5 and 2.5 both
   round to 2) *)
Lemma rne_gap a b D : 0 < D -> a + D + 1 <= b -> rne a D + 1 <= rne b D.
Proof. intros HD Hab. pose proof (rne_err a D HD). pose proof (rne_err b D HD). nia. Qed.

(* ---- R x: the double nearest to the integer x >= 0 (a magnitude in units), unbounded *)
Definition R (x : Z) : Z := round_mag x 0.

Lemma R_unfold x : R x = rne x (2 ^ ulp_exp x) * 2 ^ ulp_exp x.
Proof. unfold R, round_mag. rewrite Z.pow_0_r, Z.div_1_r, Z.add_0_l. reflexivity. Qed.

Lemma R_err x : - 2 ^ ulp_exp x <= 2 * (R x - x) <= 2 ^ ulp_exp x.
Proof. rewrite R_unfold. apply rne_err. apply pow2_pos', ulp_exp_nonneg. Qed.

Lemma R_mono a b : 0 <= a <= b -> R a <= R b.
Proof. intros H. apply round_mag_mono; lia. Qed.

Lemma R_exact x : 0 <= x -> x mod 2 ^ ulp_exp x = 0 -> R x = x.
Proof.
  intros Hx Hd. rewrite R_unfold. pose proof (pow2_pos' _ (ulp_exp_nonneg x)) as Hp.
  apply Z.mod_divide in Hd; [|lia]. destruct Hd as [q Hq]. rewrite Hq at 1. rewrite rne_exact by lia. lia.
Qed.

(* more than one grid step further, inside the same binade, rounds at least one grid step further *)
Lemma R_step a b : 0 <= a -> ulp_exp b = ulp_exp a -> a + 2 ^ ulp_exp a + 1 <= b ->
  R a + 2 ^ ulp_exp a <= R b.
Proof.
  intros Ha Hk Hb. pose proof (pow2_pos' _ (ulp_exp_nonneg a)) as Hp.
  rewrite !R_unfold. rewrite Hk. pose proof (rne_gap a b (2 ^ ulp_exp a) Hp Hb). nia.
Qed.

Lemma round_mag_scale x s : 0 <= s -> round_mag (x * 2 ^ s) s = R x.
Proof.
  intros Hs. unfold R, round_mag. pose proof (pow2_pos' s Hs).
  rewrite Z.div_mul by lia. rewrite Z.pow_0_r, Z.div_1_r, Z.add_0_l.
  rewrite Z.pow_add_r by (try lia; apply ulp_exp_nonneg). rewrite (Z.mul_comm (2 ^ s)).
  rewrite rne_scale by (try lia; apply pow2_pos', ulp_exp_nonneg). reflexivity.
Qed.

(* ---- division of a double by a small integer: the correctly rounded quotient *)
Lemma fdiv_int_spec u1 K :
  0 < u1 -> u1 mod 2 ^ ulp_exp u1 = 0 -> 0 < K < 2 ^ 53 ->
  fdiv (FFin false u1) (fint K) =
  fin_or_inf false (rne u1 (K * 2 ^ ulp_exp (u1 / K)) * 2 ^ ulp_exp (u1 / K)).
Proof.
  intros Hu Hd HK. unfold fdiv, fint. cbn [xorb].
  assert (H1074 : 0 < 2 ^ 1074) by (apply pow2_pos'; lia).
  replace (K * 2 ^ 1074 =? 0) with false by (symmetry; apply Z.eqb_neq; nia).
  rewrite (ulp_exp_int K) by lia.
  assert (HlK : 0 <= Z.log2 K < 53) by (split; [apply Z.log2_nonneg | apply Z.log2_lt_pow2; lia]).
  set (e1 := ulp_exp u1) in *. assert (He1 : 0 <= e1) by apply ulp_exp_nonneg.
  assert (Hpe1 : 0 < 2 ^ e1) by (apply pow2_pos'; lia).
  apply Z.mod_divide in Hd; [|lia]. destruct Hd as [m1 Hm1].
  assert (Hm1pos : 0 < m1) by nia.
  assert (Hsh1 : Z.shiftr u1 e1 = m1) by (rewrite Z.shiftr_div_pow2 by lia; rewrite Hm1; apply Z.div_mul; lia).
  rewrite Hsh1.
  set (f1 := 2 ^ (52 - Z.log2 K)). assert (Hf1 : 0 < f1) by (apply pow2_pos'; lia).
  assert (Hsh2 : Z.shiftr (K * 2 ^ 1074) (1022 + Z.log2 K) = K * f1).
  { rewrite Z.shiftr_div_pow2 by lia. unfold f1.
    replace (2 ^ 1074) with (2 ^ (52 - Z.log2 K) * 2 ^ (1022 + Z.log2 K)) by (rewrite <- Z.pow_add_r by lia; f_equal; lia).
    rewrite Z.mul_assoc. apply Z.div_mul. pose proof (pow2_pos' (1022 + Z.log2 K)). lia. }
  rewrite Hsh2.
  set (s := e1 + 1074 - (1022 + Z.log2 K)). assert (Hs : s = e1 + (52 - Z.log2 K)) by (unfold s; lia).
  replace (0 <=? s) with true by (symmetry; apply Z.leb_le; lia).
  assert (Hq0 : Z.shiftl m1 s / (K * f1) = u1 / K).
  { rewrite Z.shiftl_mul_pow2 by lia. rewrite Hs, Z.pow_add_r by lia. fold f1.
    rewrite Z.mul_assoc. rewrite Z.div_mul_cancel_r by lia. rewrite Hm1. reflexivity. }
  rewrite Hq0. set (k := ulp_exp (u1 / K)). assert (Hk0 : 0 <= k) by apply ulp_exp_nonneg.
  assert (Hke : k <= e1).
  { unfold k, e1, ulp_exp. assert (Z.log2 (u1 / K) <= Z.log2 u1); [|lia].
    apply Z.log2_le_mono. apply Z.div_le_upper_bound; [lia | nia]. }
  assert (Hpk : 0 < 2 ^ k) by (apply pow2_pos'; lia).
  f_equal. rewrite !Z.shiftl_mul_pow2 by lia. f_equal.
  replace (s - k) with ((e1 - k) + (52 - Z.log2 K)) by lia. rewrite Z.pow_add_r by lia. fold f1.
  rewrite Z.mul_assoc. rewrite rne_scale by lia.
  rewrite Hm1. replace (2 ^ e1) with (2 ^ (e1 - k) * 2 ^ k) by (rewrite <- Z.pow_add_r by lia; f_equal; lia).
  rewrite Z.mul_assoc. rewrite rne_scale by lia. reflexivity.
Qed.

(* product with a small integer, sum of two non-negative doubles: correctly rounded *)
Lemma fmul_int_spec S k : 0 <= S -> 0 <= k -> fmul (FFin false S) (fint k) = fin_or_inf false (R (S * k)).
Proof.
  intros HS Hk. unfold fmul, fint. cbn [xorb]. rewrite round_p2_mag by lia.
  rewrite Z.mul_assoc. rewrite round_mag_scale by lia. reflexivity.
Qed.

Lemma fadd_pos_spec a p : 0 <= a -> 0 <= p -> fadd (FFin false a) (FFin false p) = fin_or_inf false (R (a + p)).
Proof.
  intros Ha Hp. unfold fadd, sval. destruct (a + p =? 0) eqn:E.
  - apply Z.eqb_eq in E. rewrite E. cbn [andb]. unfold fin_or_inf, R.
    replace (round_mag 0 0) with 0 by reflexivity.
    replace (UOVER <=? 0) with false; [reflexivity|]. symmetry. apply Z.leb_gt. rewrite UOVER_eq. apply pow2_pos'. lia.
  - apply Z.eqb_neq in E. replace (a + p <? 0) with false by (symmetry; apply Z.ltb_ge; lia).
    rewrite Z.abs_eq by lia. rewrite round_p2_mag by lia. reflexivity.
Qed.

(* a finite double with a + sign *)
Definition posfin (x : fl) : Prop := exists u, x = FFin false u.
