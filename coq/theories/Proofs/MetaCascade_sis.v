(* K6 proofs: SetDisplayFormula on a formula column of a summary table (with its sister columns). *)
From Coq Require Import ZArith List Bool Lia.
Import ListNotations.
Require Import Grist.Model.MetaCascade Grist.Proofs.MetaCascade_base Grist.Proofs.MetaCascade_inv
  Grist.Proofs.MetaCascade_rm Grist.Proofs.MetaCascade_add3 Grist.Proofs.MetaCascade_upd.
Open Scope Z_scope.

Lemma set_display_sisters_inv : forall X t col set reuse sisters m m',
  InvX X m -> set_display_sisters t col set reuse sisters m = Ok m' -> InvX X m'.
Proof.
  intros X t col set reuse sisters m m' HI H. unfold set_display_sisters in H.
  destruct (negb (mem t (tids m))) eqn:Et; [discriminate|].
  apply negb_false_iff in Et. apply mem_In in Et.
  destruct (find_column m col) as [c|]; [|discriminate].
  destruct (negb ((c_src c =? 0) && is_summary_table m (c_parent c))); [discriminate|].
  destruct (helper_col t (c_display c) set reuse m) as [[m1 r]| |] eqn:Eh; unfold bind in H; try discriminate.
  destruct (helper_col_inv X t _ _ _ m m1 r HI Et Eh) as [J1 [J2 [J3 J4]]].
  destruct r as [d|]; [|inversion H; subst; exact J1].
  inversion H; subst m'. apply map_columns_inv; [exact J1 | |].
  - intros x. destruct ((c_id x =? col) || mem (c_id x) sisters); split; reflexivity.
  - intros x Hx. pose proof (inv_col X m1 J1 x Hx) as K.
    destruct ((c_id x =? col) || mem (c_id x) sisters); [|exact K].
    apply ColOk_with_display; [exact K | apply J4; reflexivity].
Qed.
