(* The tie of get_reverse_adjustments: the function regenerated from reverse_references.py on every run
   (coq/gen/RevAdj_gen.v, written by harness/k4gen.py) is extensionally the hand model the proofs are about.
   An edit of the Python function that changes its meaning makes this file fail to compile. *)
From Coq Require Import ZArith List Bool.
Import ListNotations.
Require Import Grist.Model.RefIndex Grist.Model.TwoWay GristGen.RevAdj_gen.

Definition gra := get_reverse_adjustments.

Lemma fold_app_map : forall A B (g : A -> B) l acc,
  fold_left (fun acc0 x => acc0 ++ [g x]) l acc = acc ++ map g l.
Proof.
  intros A B g l. induction l as [|x l IH]; intros acc; cbn.
  - rewrite app_nil_r. reflexivity.
  - rewrite IH, <- app_assoc. reflexivity.
Qed.

Lemma gra_ext : forall r o n it rel, gra r o n it rel = get_reverse_adjustments_ref r o n it rel.
Proof.
  intros. unfold gra, get_reverse_adjustments, get_reverse_adjustments_ref. cbv zeta.
  rewrite fold_app_map. reflexivity.
Qed.

Section Ext.
  Variable hack : list Z -> option (list Z).

  Lemma prepare_gra : forall a kb rows vals,
    prepare_new_values hack gra a kb rows vals = prepare_new_values hack get_reverse_adjustments_ref a kb rows vals.
  Proof. intros. unfold prepare_new_values. rewrite gra_ext. reflexivity. Qed.

  Lemma update_a_gra : forall s rows vals,
    update_a hack gra s rows vals = update_a hack get_reverse_adjustments_ref s rows vals.
  Proof. intros. unfold update_a. rewrite prepare_gra. reflexivity. Qed.

  Lemma update_b_gra : forall s rows vals,
    update_b hack gra s rows vals = update_b hack get_reverse_adjustments_ref s rows vals.
  Proof. intros. unfold update_b. rewrite update_a_gra. reflexivity. Qed.

  Lemma user_update_a_gra : forall s rows vals,
    user_update_a hack gra s rows vals = user_update_a hack get_reverse_adjustments_ref s rows vals.
  Proof. intros. unfold user_update_a. apply update_a_gra. Qed.

  Lemma user_update_b_gra : forall s rows vals,
    user_update_b hack gra s rows vals = user_update_b hack get_reverse_adjustments_ref s rows vals.
  Proof. intros. unfold user_update_b. apply update_b_gra. Qed.

  Lemma add_a_gra : forall same s rows vals,
    add_a hack gra same s rows vals = add_a hack get_reverse_adjustments_ref same s rows vals.
  Proof. intros. unfold add_a. rewrite prepare_gra. reflexivity. Qed.
End Ext.
