(* Bridging lemmas: every function of gen/Schedule_gen.v (translated from functions/schedule.py on every
   run) equals the hand model of Model/ScheduleCode.v.  The proofs are generic facts about the loop
   combinators plus conversion checks of the generated loop bodies against hand-written ones, so a
   semantic edit of the source breaks them and a renaming does not. *)
From Coq Require Import ZArith List Bool Lia.
Import ListNotations.
Require Import Grist.Model.Schedule Grist.Lib.PySched Grist.Model.ScheduleCode GristGen.Schedule_gen.
Open Scope Z_scope.

Section Bridge.
  Context {T TD date tz smatch : Type} (P : prims T TD date tz smatch).

  Lemma bridge_delta_init : Delta_init P = m_delta_init P.
  Proof. reflexivity. Qed.

  Lemma bridge_add_interval : forall d n u, Delta_add_interval P d n u = m_add_interval P d n u.
  Proof. intros. reflexivity. Qed.

  (* months first, then the timedelta *)
  Lemma bridge_add_to : forall d t, Delta_add_to P d t = m_add_to P d t.
  Proof. intros. reflexivity. Qed.

  (* ---- series ---- *)
  Definition step_of (s : step T) : gstep T Z :=
    match s with Stop o => GReturn o | Go o c => GNext o c end.

  (* what one pass of `for slot in self._slots` does with one slot *)
  Definition one_slot (start : T) (end_ : option T) (dtime : T) (slot : delta TD) (count : Z) : gstep T Z :=
    if count <=? 0 then GReturn []
    else let out := m_add_to P slot dtime in
         if p_ltb P out start then GNext [] count
         else if after_end T (p_ltb P) end_ out then GReturn []
         else GNext [out] (count - 1).

  Lemma gfor_run_slots : forall start end_ dtime (body : delta TD -> Z -> gstep T Z),
    (forall slot c, body slot c = one_slot start end_ dtime slot c) ->
    forall sl count,
    py_gfor sl count body = step_of (run_slots T (p_ltb P) (map (m_add_to P) sl) dtime start end_ count).
  Proof.
    intros start end_ dtime body Hb. induction sl as [|s r IH]; intros count; [reflexivity|].
    cbn [py_gfor map run_slots]. rewrite Hb. unfold one_slot.
    destruct (count <=? 0); [reflexivity|]. cbv zeta.
    destruct (p_ltb P (m_add_to P s dtime) start).
    - cbn [gbind]. rewrite IH. destruct (run_slots _ _ _ _ _ _ _); reflexivity.
    - destruct (after_end T (p_ltb P) end_ (m_add_to P s dtime)); [reflexivity|].
      cbn [gbind]. rewrite IH. destruct (run_slots _ _ _ _ _ _ _); reflexivity.
  Qed.

  Lemma gwhile_series : forall start end_ (next : T -> T) (slots : list (delta TD))
      (body : Z * T -> gstep T (Z * T)),
    (forall c d, body (c, d) =
       gbind (py_gfor slots c (one_slot start end_ d)) (fun c' => GNext [] (c', next d))) ->
    forall fuel count dtime,
    py_gwhile fuel (count, dtime) body =
    series_from T (p_ltb P) next (map (m_add_to P) slots) fuel dtime start end_ count.
  Proof.
    intros start end_ next slots body Hb. induction fuel as [|f IH]; intros count dtime; [reflexivity|].
    cbn [py_gwhile series_from]. rewrite Hb.
    rewrite (gfor_run_slots start end_ dtime _ (fun _ _ => eq_refl)).
    destruct (run_slots _ _ _ _ _ _ _) as [o|o c]; cbn [step_of gbind]; [reflexivity|].
    rewrite app_nil_r, IH. reflexivity.
  Qed.

  Lemma bridge_series : forall self fuel start end_ count,
    Schedule_series P self fuel start end_ count = m_series P self fuel start end_ count.
  Proof.
    intros. unfold Schedule_series, m_series, series.
    apply (gwhile_series (p_DTIME P start) (option_map (p_DTIME P) end_) (m_add_to P (s_interval self))).
    intros c d. reflexivity.
  Qed.
End Bridge.

Section BridgeParse.
  Context {T TD date tz smatch : Type} (P : prims T TD date tz smatch).

  Lemma bridge_parse_interval : forall s,
    parse_interval P s = m_parse_interval P INTERVAL_ALIASES SINGULAR_UNITS VALID_UNITS s.
  Proof.
    intros s. unfold parse_interval, m_parse_interval, assoc_mem, assoc_find. cbv zeta.
    destruct (assoc_get INTERVAL_ALIASES (p_lower P s)); [reflexivity|].
    destruct (p_interval_match P (p_lower P s)) as [[num unit]|]; [|reflexivity].
    cbn [fst snd]. destruct (p_int P num) as [n|e]; [|reflexivity]. cbn [bind].
    destruct (n <=? 0); [reflexivity|]. destruct (str_mem _ VALID_UNITS); reflexivity.
  Qed.

  Lemma bridge_slot_date : forall m, parse_slot_date P m = m_slot_date P MONTH_OFFSETS m.
  Proof.
    intros m. unfold parse_slot_date, m_slot_date.
    destruct (py_int_o _ _) as [mday|e]; [|reflexivity]. cbn [bind]. cbv zeta.
    destruct (ostr_truthy _); [|reflexivity].
    destruct (ostr_lower _ _) as [name|e]; [|reflexivity]. cbn [bind].
    destruct (assoc_mem MONTH_OFFSETS name); reflexivity.
  Qed.

  Lemma bridge_slot_mday : forall m, parse_slot_mday P m = m_slot_mday P m.
  Proof. intros. reflexivity. Qed.

  Lemma bridge_slot_wday : forall m, parse_slot_wday P m = m_slot_wday P WEEKDAY_OFFSETS m.
  Proof.
    intros m. unfold parse_slot_wday, m_slot_wday.
    destruct (ostr_lower _ _) as [w|e]; [|reflexivity]. cbn [bind].
    destruct (assoc_mem WEEKDAY_OFFSETS w); reflexivity.
  Qed.

  Lemma bridge_slot_time : forall m, parse_slot_time P m = m_slot_time P m.
  Proof. intros. reflexivity. Qed.

  Lemma bridge_slot_mins : forall m, parse_slot_mins P m = m_slot_mins P m.
  Proof. intros. reflexivity. Qed.

  Lemma bridge_slot_delta : forall m, parse_slot_delta P m = m_slot_delta P SHORT_UNITS m.
  Proof.
    intros m. unfold parse_slot_delta, m_slot_delta.
    destruct (py_int_o _ _) as [c|e]; [|reflexivity]. cbn [bind]. cbv zeta.
    destruct (ostr_mem_dict SHORT_UNITS _); reflexivity.
  Qed.

  Lemma bridge_slot_parsers : forall k m,
    SLOT_PARSERS P k m = m_slot_parsers P MONTH_OFFSETS WEEKDAY_OFFSETS SHORT_UNITS k m.
  Proof.
    intros k m. unfold SLOT_PARSERS, m_slot_parsers.
    rewrite bridge_slot_date, bridge_slot_wday, bridge_slot_delta. reflexivity.
  Qed.
End BridgeParse.

Section BridgeSlot.
  Context {T TD date tz smatch : Type} (P : prims T TD date tz smatch).
  Let St := (delta TD * list str)%type.

  (* hand-written bodies of the three nested loops of _parse_slot, innermost first *)
  Definition units_body : Z * str -> St -> exc (ctrl * St) :=
    fun '(count, unit) '(d, seen) =>
      bind (m_add_interval P d count unit) (fun d' =>
        if str_mem unit seen then Exn ValueError else Val (Next, (d', unit :: seen))).

  Definition type_body (parsers : str -> smatch -> exc (list (Z * str))) (m : smatch) : str -> St -> exc (ctrl * St) :=
    fun slot_type '(d, seen) =>
      if ostr_truthy (p_group P m slot_type) then
        bind (parsers slot_type m) (fun l =>
          bind (py_for l (d, seen) units_body) (fun '(_, (d', seen')) => Val (Brk, (d', seen'))))
      else Val (Next, (d, seen)).

  Definition part_body parsers (allowed : list str) : str -> St -> exc (ctrl * St) :=
    fun part '(d, seen) =>
      match p_slot_match P part with
      | None => Exn ValueError
      | Some m =>
          bind (py_for allowed (d, seen) (type_body parsers m)) (fun '(brk, (d', seen')) =>
            if brk then Val (Next, (d', seen')) else Exn ValueError)
      end.

  Lemma for_units : forall l d seen,
    py_for l (d, seen) units_body = bind (m_add_units P l d seen) (fun ds => Val (false, ds)).
  Proof.
    induction l as [|[c u] r IH]; intros d seen; cbn [py_for m_add_units]; [reflexivity|].
    unfold units_body at 1. destruct (m_add_interval P d c u) as [d'|e]; cbn [bind]; [|reflexivity].
    destruct (str_mem u seen); [reflexivity|]. apply IH.
  Qed.

  Lemma for_types : forall parsers m types d seen,
    py_for types (d, seen) (type_body parsers m) =
    match m_first_type P types m with
    | None => Val (false, (d, seen))
    | Some t => bind (parsers t m) (fun l => bind (m_add_units P l d seen) (fun ds => Val (true, ds)))
    end.
  Proof.
    intros parsers m. induction types as [|t r IH]; intros d seen; cbn [py_for m_first_type]; [reflexivity|].
    unfold type_body at 1. destruct (ostr_truthy (p_group P m t)); [|apply IH].
    destruct (parsers t m) as [l|e]; cbn [bind]; [|reflexivity].
    rewrite for_units. destruct (m_add_units P l d seen) as [[d' seen']|e]; reflexivity.
  Qed.

  Lemma for_parts : forall parsers allowed parts d seen,
    bind (py_for parts (d, seen) (part_body parsers allowed)) (fun '(_, (d', _)) => Val d') =
    m_parse_parts P parsers allowed parts d seen.
  Proof.
    intros parsers allowed. induction parts as [|p r IH]; intros d seen; cbn [py_for m_parse_parts]; [reflexivity|].
    unfold part_body at 1, m_parse_part. destruct (p_slot_match P p) as [m|]; [|reflexivity].
    rewrite for_types. destruct (m_first_type P allowed m) as [t|]; [|reflexivity].
    destruct (parsers t m) as [l|e]; cbn [bind]; [|reflexivity].
    destruct (m_add_units P l d seen) as [[d' seen']|e]; cbn [bind fst snd]; [|reflexivity].
    apply IH.
  Qed.

  Lemma m_parse_parts_ext : forall f g allowed,
    (forall k m, f k m = g k m) ->
    forall parts d seen, m_parse_parts P f allowed parts d seen = m_parse_parts P g allowed parts d seen.
  Proof.
    intros f g allowed H. induction parts as [|p r IH]; intros d seen; cbn [m_parse_parts]; [reflexivity|].
    unfold m_parse_part. destruct (p_slot_match P p) as [m|]; [|reflexivity].
    destruct (m_first_type P allowed m) as [t|]; [|reflexivity]. rewrite H.
    destruct (bind (g t m) _) as [ds|e]; cbn [bind]; [apply IH|reflexivity].
  Qed.

  Lemma bridge_parse_slot : forall s u,
    parse_slot P s u =
    m_parse_slot P ALLOWED_SLOTS_BY_UNIT (m_slot_parsers P MONTH_OFFSETS WEEKDAY_OFFSETS SHORT_UNITS) s u.
  Proof.
    intros s u. unfold parse_slot, m_parse_slot. cbv zeta.
    destruct (p_split P s) as [|p ps]; [reflexivity|]. cbn [nonempty negb].
    rewrite <- (m_parse_parts_ext (SLOT_PARSERS P) _ _ (bridge_slot_parsers P)).
    rewrite <- for_parts. reflexivity.
  Qed.
End BridgeSlot.

(* ---------------- the property theorems, about the generated functions ---------------- *)
Require Import Grist.Proofs.Schedule_proofs.

Section CodeTheorems.
  Context {T TD date tz smatch : Type} (P : prims T TD date tz smatch).
  Variable lt : T -> T -> Prop.
  Hypothesis ltb_lt : forall a b, p_ltb P a b = true <-> lt a b.
  Hypothesis lt_irrefl : forall a, ~ lt a a.
  Hypothesis lt_trans : forall a b c, lt a b -> lt b c -> lt a c.
  Hypothesis lt_total : forall a b, lt a b \/ a = b \/ lt b a.

  Lemma code_series_eq_spec : forall self fuel start end_ count o,
    chain_from T lt (Delta_add_to P (s_interval self)) (map (Delta_add_to P) (s_slots self))
      (p_round_down P (p_DTIME P start) (s_interval_unit self)) ->
    Schedule_series P self fuel start end_ count = Done o ->
    forall n, (fuel <= n)%nat ->
    o = spec T (p_ltb P) (Delta_add_to P (s_interval self)) (map (Delta_add_to P) (s_slots self))
          (fun s => p_round_down P s (s_interval_unit self)) n
          (p_DTIME P start) (option_map (p_DTIME P) end_) count.
  Proof.
    intros self fuel start end_ count o Hc H. rewrite bridge_series in H.
    exact (series_eq_spec T lt (p_ltb P) ltb_lt lt_trans _ _ _ fuel _ _ count o Hc H).
  Qed.

  Lemma code_series_sorted : forall self fuel start end_ count o,
    chain_from T lt (Delta_add_to P (s_interval self)) (map (Delta_add_to P) (s_slots self))
      (p_round_down P (p_DTIME P start) (s_interval_unit self)) ->
    Schedule_series P self fuel start end_ count = Done o -> ssorted T lt o.
  Proof.
    intros self fuel start end_ count o Hc H. rewrite bridge_series in H.
    exact (series_sorted T lt (p_ltb P) ltb_lt lt_trans _ _ _ fuel _ _ count o Hc H).
  Qed.

  Lemma code_series_terminates : forall self fuel start end_ count k0,
    chain_from T lt (Delta_add_to P (s_interval self)) (map (Delta_add_to P) (s_slots self))
      (p_round_down P (p_DTIME P start) (s_interval_unit self)) ->
    (forall x, In x (instants T (map (Delta_add_to P) (s_slots self))
                       (period T (Delta_add_to P (s_interval self))
                          (p_round_down P (p_DTIME P start) (s_interval_unit self)) k0)) ->
               le T lt (p_DTIME P start) x) ->
    Z.of_nat (fuel - k0) * Z.of_nat (length (s_slots self)) > Z.max count 0 ->
    exists o, Schedule_series P self fuel start end_ count = Done o.
  Proof.
    intros self fuel start end_ count k0 Hc Hk Hf.
    destruct (series_terminates T lt (p_ltb P) ltb_lt lt_irrefl lt_trans lt_total
                (Delta_add_to P (s_interval self)) (map (Delta_add_to P) (s_slots self))
                (fun s => p_round_down P s (s_interval_unit self))
                fuel (p_DTIME P start) (option_map (p_DTIME P) end_) count k0 Hc Hk) as [o Ho].
    - rewrite map_length. exact Hf.
    - exists o. rewrite bridge_series. exact Ho.
  Qed.

  Lemma code_series_nonpositive_count : forall self fuel start end_ count,
    s_slots self <> [] -> count <= 0 -> Schedule_series P self (S fuel) start end_ count = Done [].
  Proof.
    intros self fuel start end_ count Hne Hc. rewrite bridge_series. unfold m_series.
    apply series_nonpositive_count; [|exact Hc]. destruct (s_slots self); [congruence|discriminate].
  Qed.
End CodeTheorems.

Lemma assoc_get_forall : forall {V} (ok : V -> bool) (d : list (str * V)) k v,
  forallb ok (map snd d) = true -> assoc_get d k = Some v -> ok v = true.
Proof.
  intros V ok d k v. induction d as [|[k' v'] r IH]; cbn [assoc_get map forallb snd]; [discriminate|].
  intros H. apply andb_true_iff in H. destruct H as [Hv Hr].
  destruct (str_eqb k k'); [intros E; injection E as <-; exact Hv | apply IH; exact Hr].
Qed.

Lemma assoc_get_In : forall {V} (d : list (str * V)) k v, assoc_get d k = Some v -> In v (map snd d).
Proof.
  intros V d k v. induction d as [|[k' v'] r IH]; cbn [assoc_get map snd In]; [discriminate|].
  destruct (str_eqb k k'); [intros E; injection E as <-; left; reflexivity | intros H; right; apply IH; exact H].
Qed.

(* facts about the regenerated tables *)
Lemma aliases_ok :
  forallb (fun r => (0 <? fst r) && str_mem (snd r) VALID_UNITS) (map snd INTERVAL_ALIASES) = true.
Proof. vm_compute. reflexivity. Qed.

Section CodeParse.
  Context {T TD date tz smatch : Type} (P : prims T TD date tz smatch).

  (* an accepted interval is a positive multiple of a known unit: no zero interval reaches series *)
  Lemma code_parse_interval_positive : forall s n u,
    parse_interval P s = Val (n, u) -> 0 < n /\ str_mem u VALID_UNITS = true.
  Proof.
    intros s n u H. rewrite bridge_parse_interval in H. unfold m_parse_interval in H. cbv zeta in H.
    destruct (assoc_get INTERVAL_ALIASES (p_lower P s)) as [r|] eqn:Ha.
    - injection H as ->. pose proof (assoc_get_forall _ _ _ _ aliases_ok Ha) as Hok.
      cbn [fst snd] in Hok. apply andb_true_iff in Hok. destruct Hok as [H1 H2]. split; [lia|exact H2].
    - destruct (p_interval_match P (p_lower P s)) as [[num unit]|]; [|discriminate].
      destruct (p_int P num) as [k|e]; [|discriminate]. cbn [bind] in H.
      destruct (Z.leb_spec k 0); [discriminate|].
      destruct (str_mem _ VALID_UNITS) eqn:Hv; [|discriminate]. injection H as <- <-. split; [lia|exact Hv].
  Qed.

  Lemma code_parse_interval_only_ValueError : forall s e,
    (forall x e', p_int P x = Exn e' -> e' = ValueError) ->
    parse_interval P s = Exn e -> e = ValueError.
  Proof.
    intros s e Hint H. rewrite bridge_parse_interval in H. unfold m_parse_interval in H. cbv zeta in H.
    destruct (assoc_get INTERVAL_ALIASES (p_lower P s)); [discriminate|].
    destruct (p_interval_match P (p_lower P s)) as [[num unit]|]; [|injection H as <-; reflexivity].
    destruct (p_int P num) as [k|e'] eqn:Hk; cbn [bind] in H.
    - destruct (k <=? 0); [injection H as <-; reflexivity|].
      destruct (str_mem _ VALID_UNITS); [discriminate|injection H as <-; reflexivity].
    - injection H as <-. eapply Hint; exact Hk.
  Qed.
End CodeParse.

(* the module's tables, regenerated from the running module, are the ones the model was written against *)
Lemma bridge_tables :
  INTERVAL_ALIASES = m_INTERVAL_ALIASES /\ SINGULAR_UNITS = m_SINGULAR_UNITS /\ VALID_UNITS = m_VALID_UNITS /\
  SHORT_UNITS = m_SHORT_UNITS /\ WEEKDAY_OFFSETS = m_WEEKDAY_OFFSETS /\ MONTH_OFFSETS = m_MONTH_OFFSETS /\
  ALLOWED_SLOTS_BY_UNIT = m_ALLOWED_SLOTS_BY_UNIT.
Proof. repeat split; vm_compute; reflexivity. Qed.

(* ---------------- _parse_slot raises nothing but ValueError (or timedelta's OverflowError) ---------------- *)
Lemma str_eqb_eq : forall a b, str_eqb a b = true <-> a = b.
Proof.
  induction a as [|x a IH]; destruct b as [|y b]; cbn [str_eqb]; try (split; [discriminate|discriminate]).
  - split; reflexivity.
  - rewrite andb_true_iff, Z.eqb_eq, IH. split; [intros [-> ->]; reflexivity | intros E; injection E; auto].
Qed.

Lemma assoc_mem_find : forall {V} (d : list (str * V)) k,
  assoc_mem d k = true -> exists v, assoc_find d k = Val v /\ assoc_get d k = Some v.
Proof.
  intros V d k. unfold assoc_mem, assoc_find. destruct (assoc_get d k) as [v|]; [|discriminate].
  intros _. exists v. split; reflexivity.
Qed.

Definition S_weeks : str := [119; 101; 101; 107; 115].
Definition S_seconds : str := [115; 101; 99; 111; 110; 100; 115].
Definition td_units : list str := [S_weeks; S_days; S_hours; S_minutes; S_seconds].
Definition unit_okb (u : str) : bool := str_eqb u S_months || str_eqb u S_years || str_mem u td_units.
Definition slot_types : list str :=
  [[100; 97; 116; 101]; [109; 100; 97; 121]; [119; 100; 97; 121]; [116; 105; 109; 101]; [109; 105; 110; 115]; S_delta].

(* facts about the regenerated tables *)
Lemma short_units_ok : forallb unit_okb (map snd SHORT_UNITS) = true.
Proof. vm_compute. reflexivity. Qed.
Lemma allowed_types_ok :
  forallb (fun l => forallb (fun t => str_mem t slot_types) l) ([S_delta] :: map snd ALLOWED_SLOTS_BY_UNIT) = true.
Proof. vm_compute. reflexivity. Qed.

Lemma str_mem_In : forall k l, str_mem k l = true <-> In k l.
Proof.
  intros k. induction l as [|x t IH]; cbn [str_mem In]; [split; [discriminate|tauto]|].
  destruct (str_eqb k x) eqn:E.
  - apply str_eqb_eq in E. subst. tauto.
  - rewrite IH. split; [tauto|]. intros [->|H]; [|exact H].
    assert (str_eqb k k = true) by (apply str_eqb_eq; reflexivity). congruence.
Qed.

Section SlotErrors.
  Context {T TD date tz smatch : Type} (P : prims T TD date tz smatch).
  Local Notation G m name := (p_group P m name).

  Definition ok_exn (e : pyexn) : Prop := e = ValueError \/ e = OverflowError.
  Definition res_ok (r : exc (list (Z * str))) : Prop :=
    match r with Exn e => e = ValueError | Val l => Forall (fun cu => unit_okb (snd cu) = true) l end.

  (* assumed of the opaque primitives (monitored by the harness) *)
  Hypothesis Hint : forall x e, p_int P x = Exn e -> e = ValueError.
  Hypothesis Htd : forall u n e, In u td_units -> p_td_unit P u n = Exn e -> e = OverflowError.
  (* assumed of _SLOT_RE: when the group of a slot type took part, so did the groups its parser reads *)
  Hypothesis Hdate : forall m, ostr_truthy (G m [100; 97; 116; 101]) = true ->
    G m [109; 111; 110; 116; 104; 95; 100; 97; 121] <> None /\
    (ostr_truthy (G m [109; 111; 110; 116; 104; 95; 110; 97; 109; 101]) = true \/
     G m [109; 111; 110; 116; 104; 95; 110; 117; 109] <> None).
  Hypothesis Hmday : forall m, ostr_truthy (G m [109; 100; 97; 121]) = true ->
    G m [109; 111; 110; 116; 104; 95; 100; 97; 121; 50] <> None.
  Hypothesis Hwday : forall m, ostr_truthy (G m [119; 100; 97; 121]) = true ->
    G m [119; 101; 101; 107; 100; 97; 121] <> None.
  Hypothesis Htime : forall m, ostr_truthy (G m [116; 105; 109; 101]) = true -> G m [104; 111; 117; 114; 115] <> None.
  Hypothesis Hmins : forall m, ostr_truthy (G m [109; 105; 110; 115]) = true ->
    G m [109; 105; 110; 117; 116; 101; 115; 50] <> None.
  Hypothesis Hdelta : forall m, ostr_truthy (G m S_delta) = true -> G m [99; 111; 117; 110; 116] <> None.

  Lemma int_o_err : forall o e, o <> None -> py_int_o (p_int P) o = Exn e -> e = ValueError.
  Proof. intros [s|] e Hn H; [exact (Hint s e H)|congruence]. Qed.

  Lemma int_or_err : forall o d e, py_int_or (p_int P) o d = Exn e -> e = ValueError.
  Proof.
    intros o d e. unfold py_int_or. destruct (ostr_truthy o) eqn:Ht; [|discriminate].
    apply int_o_err. destruct o; [discriminate|discriminate].
  Qed.

  Lemma lower_truthy : forall f o, ostr_truthy o = true -> exists s, ostr_lower f o = Val s.
  Proof. intros f [s|] H; [exists (f s); reflexivity|discriminate]. Qed.

  Lemma lower_some : forall f o, o <> None -> exists s, ostr_lower f o = Val s.
  Proof. intros f [s|] H; [exists (f s); reflexivity|congruence]. Qed.

  Ltac ok_units := repeat constructor.

  Lemma slot_mday_ok : forall m, ostr_truthy (G m [109; 100; 97; 121]) = true -> res_ok (m_slot_mday P m).
  Proof.
    intros m Ht. unfold m_slot_mday. destruct (py_int_o _ _) as [v|e] eqn:E; cbn [bind res_ok]; [ok_units|].
    eapply int_o_err; [apply Hmday; exact Ht | exact E].
  Qed.

  Lemma slot_mins_ok : forall m, ostr_truthy (G m [109; 105; 110; 115]) = true -> res_ok (m_slot_mins P m).
  Proof.
    intros m Ht. unfold m_slot_mins. destruct (py_int_o _ _) as [v|e] eqn:E; cbn [bind res_ok]; [ok_units|].
    eapply int_o_err; [apply Hmins; exact Ht | exact E].
  Qed.

  Lemma slot_wday_ok : forall wo m, ostr_truthy (G m [119; 100; 97; 121]) = true -> res_ok (m_slot_wday P wo m).
  Proof.
    intros wo m Ht. unfold m_slot_wday.
    destruct (lower_some (p_lower P) _ (Hwday m Ht)) as [w ->]. cbn [bind].
    destruct (assoc_mem wo w) eqn:Em; [|reflexivity].
    destruct (assoc_mem_find _ _ Em) as (v & -> & _). cbn [bind res_ok]. ok_units.
  Qed.

  Lemma slot_time_ok : forall m, ostr_truthy (G m [116; 105; 109; 101]) = true -> res_ok (m_slot_time P m).
  Proof.
    intros m Ht. unfold m_slot_time.
    destruct (py_int_o _ _) as [h|e] eqn:E; cbn [bind]; [|eapply int_o_err; [apply Htime; exact Ht | exact E]].
    destruct (py_int_or _ _ _) as [mi|e] eqn:E2; cbn [bind]; [|eapply int_or_err; exact E2].
    cbv zeta. destruct (ostr_truthy (ostr_or _ _)) eqn:Ea; [|cbn [res_ok]; ok_units].
    destruct (lower_truthy (p_lower P) _ Ea) as [a ->]. cbn [bind res_ok]. ok_units.
  Qed.

  Lemma slot_date_ok : forall mo m, ostr_truthy (G m [100; 97; 116; 101]) = true -> res_ok (m_slot_date P mo m).
  Proof.
    intros mo m Ht. destruct (Hdate m Ht) as [Hd Hn]. unfold m_slot_date.
    destruct (py_int_o _ _) as [d|e] eqn:E; cbn [bind]; [|eapply int_o_err; [exact Hd | exact E]].
    cbv zeta. destruct (ostr_truthy (G m [109; 111; 110; 116; 104; 95; 110; 97; 109; 101])) eqn:En.
    - destruct (lower_truthy (p_lower P) _ En) as [a ->]. cbn [bind].
      destruct (assoc_mem mo a) eqn:Em; [|reflexivity].
      destruct (assoc_mem_find _ _ Em) as (v & -> & _). cbn [bind res_ok]. ok_units.
    - destruct Hn as [Hn|Hn]; [congruence|].
      destruct (py_int_o (p_int P) (G m [109; 111; 110; 116; 104; 95; 110; 117; 109])) as [k|e] eqn:E2;
        cbn [bind res_ok]; [ok_units|].
      eapply int_o_err; [exact Hn | exact E2].
  Qed.

  Lemma slot_delta_ok : forall m, ostr_truthy (G m S_delta) = true -> res_ok (m_slot_delta P SHORT_UNITS m).
  Proof.
    intros m Ht. unfold m_slot_delta.
    destruct (py_int_o _ _) as [c|e] eqn:E; cbn [bind]; [|eapply int_o_err; [apply Hdelta; exact Ht | exact E]].
    cbv zeta. destruct (ostr_mem_dict SHORT_UNITS _) eqn:Em; [|reflexivity].
    unfold ostr_mem_dict in Em. unfold assoc_find_o.
    destruct (p_group P m [117; 110; 105; 116]) as [u|]; [|discriminate].
    destruct (assoc_mem_find _ _ Em) as (v & -> & Hg). cbn [bind res_ok].
    constructor; [|constructor]. cbn [snd]. exact (assoc_get_forall unit_okb _ _ _ short_units_ok Hg).
  Qed.

  Lemma add_interval_err : forall d n u e,
    unit_okb u = true -> m_add_interval P d n u = Exn e -> e = OverflowError.
  Proof.
    intros d n u e Hu. unfold m_add_interval, unit_okb in *.
    destruct (str_eqb u S_months); [discriminate|]. destruct (str_eqb u S_years); [discriminate|].
    cbn [orb] in Hu. apply str_mem_In in Hu.
    destruct (p_td_unit P u n) as [x|e'] eqn:E; cbn [bind]; [discriminate|].
    intros H. injection H as <-. exact (Htd u n e' Hu E).
  Qed.

  Lemma add_units_err : forall l d seen e,
    Forall (fun cu => unit_okb (snd cu) = true) l -> m_add_units P l d seen = Exn e -> ok_exn e.
  Proof.
    induction l as [|[c u] r IH]; intros d seen e Hl; cbn [m_add_units]; [discriminate|].
    inversion Hl as [|x y Hu Hr]; subst. cbn [snd] in Hu.
    destruct (m_add_interval P d c u) as [d'|e'] eqn:E; cbn [bind].
    - destruct (str_mem u seen); [intros H; injection H as <-; left; reflexivity | apply IH; exact Hr].
    - intros H. injection H as <-. right. exact (add_interval_err d c u e' Hu E).
  Qed.

  Lemma first_type_spec : forall types m t,
    m_first_type P types m = Some t -> In t types /\ ostr_truthy (G m t) = true.
  Proof.
    induction types as [|x r IH]; intros m t; cbn [m_first_type]; [discriminate|].
    destruct (ostr_truthy (G m x)) eqn:E.
    - intros H. injection H as <-. split; [left; reflexivity|exact E].
    - intros H. destruct (IH m t H) as [Hin Ht]. split; [right; exact Hin|exact Ht].
  Qed.

  Lemma slot_parsers_ok : forall t m,
    In t slot_types -> ostr_truthy (G m t) = true ->
    res_ok (m_slot_parsers P MONTH_OFFSETS WEEKDAY_OFFSETS SHORT_UNITS t m).
  Proof.
    intros t m Hin Ht. unfold slot_types in Hin. cbn [In] in Hin.
    destruct Hin as [<-|[<-|[<-|[<-|[<-|[<-|[]]]]]]].
    - apply (slot_date_ok MONTH_OFFSETS m Ht).
    - apply (slot_mday_ok m Ht).
    - apply (slot_wday_ok WEEKDAY_OFFSETS m Ht).
    - apply (slot_time_ok m Ht).
    - apply (slot_mins_ok m Ht).
    - apply (slot_delta_ok m Ht).
  Qed.

  Lemma parse_parts_err : forall allowed parts d seen e,
    (forall t, In t allowed -> In t slot_types) ->
    m_parse_parts P (m_slot_parsers P MONTH_OFFSETS WEEKDAY_OFFSETS SHORT_UNITS) allowed parts d seen = Exn e ->
    ok_exn e.
  Proof.
    intros allowed parts. induction parts as [|p r IH]; intros d seen e Ha; cbn [m_parse_parts]; [discriminate|].
    unfold m_parse_part. destruct (p_slot_match P p) as [m|]; [|intros H; injection H as <-; left; reflexivity].
    destruct (m_first_type P allowed m) as [t|] eqn:Ef; [|intros H; injection H as <-; left; reflexivity].
    destruct (first_type_spec _ _ _ Ef) as [Hin Ht].
    pose proof (slot_parsers_ok t m (Ha t Hin) Ht) as Hok.
    destruct (m_slot_parsers P MONTH_OFFSETS WEEKDAY_OFFSETS SHORT_UNITS t m) as [l|e'] eqn:Ep; cbn [bind res_ok] in *.
    - destruct (m_add_units P l d seen) as [[d' seen']|e'] eqn:Eu; cbn [bind fst snd].
      + apply IH. exact Ha.
      + intros H. injection H as <-. exact (add_units_err l d seen e' Hok Eu).
    - intros H. injection H as <-. left. exact Hok.
  Qed.

  Theorem parse_slot_errors : forall s u e,
    parse_slot P s u = Exn e -> ok_exn e.
  Proof.
    intros s u e. rewrite bridge_parse_slot. unfold m_parse_slot.
    destruct (p_split P s) as [|p ps]; [intros H; injection H as <-; left; reflexivity|].
    apply parse_parts_err. intros t Hin.
    pose proof allowed_types_ok as Hall. rewrite forallb_forall in Hall.
    assert (Hlist : forall l, In l ([S_delta] :: map snd ALLOWED_SLOTS_BY_UNIT) -> forall t0, In t0 l -> In t0 slot_types).
    { intros l Hl t0 Ht0. specialize (Hall l Hl). rewrite forallb_forall in Hall. apply str_mem_In, Hall, Ht0. }
    unfold olist_or in Hin. destruct (assoc_get ALLOWED_SLOTS_BY_UNIT u) as [[|x l]|] eqn:Eg.
    - apply (Hlist [S_delta]); [left; reflexivity|exact Hin].
    - apply (Hlist (x :: l)); [right; exact (assoc_get_In _ _ _ Eg)|exact Hin].
    - apply (Hlist [S_delta]); [left; reflexivity|exact Hin].
  Qed.
End SlotErrors.
