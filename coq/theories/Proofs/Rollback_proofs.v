(* Proofs about Model/Rollback.v (C04, C29). *)
From stdpp Require Import gmap sorting.
Require Import Grist.Model.Rollback.
Open Scope Z_scope.

(* ---------------------------------------------------------------------------------------------------------- *)
(* Well-formed documents: what every document reachable by complete doc actions satisfies.
   - tables and columns are exactly those of the schema, and each Column object has the schema's info;
   - a column stores no default value and no cell of a row that does not exist. *)
Definition wf_col (rows : gset rowid) (col : column) : Prop :=
  map_Forall (fun r v => v ≠ cdefault col /\ r ∈ rows) (c_data col).

Definition wf_table (sc : gmap name colinfo) (tb : table) : Prop :=
  dom sc = dom (t_cols tb) /\
  map_Forall (fun c col => sc !! c = Some (c_info col) /\ wf_col (t_rows tb) col) (t_cols tb).

Definition wf (d : doc) : Prop :=
  dom (d_schema d) = dom (d_tables d) /\
  map_Forall (fun t tb => from_option (fun sc => wf_table sc tb) False (d_schema d !! t)) (d_tables d).

Global Instance wf_col_dec rows col : Decision (wf_col rows col).
Proof. unfold wf_col. apply _. Defined.
Global Instance wf_table_dec sc tb : Decision (wf_table sc tb).
Proof. unfold wf_table. apply _. Defined.
Global Instance wf_dec d : Decision (wf d).
Proof.
  unfold wf. apply and_dec; [apply _|]. apply map_Forall_dec. intros t tb.
  destruct (d_schema d !! t); simpl; apply _.
Defined.

Lemma wf_lookup d t sc tb :
  wf d -> d_schema d !! t = Some sc -> d_tables d !! t = Some tb -> wf_table sc tb.
Proof.
  intros [_ H] Hs Ht. apply (proj1 (map_Forall_lookup _ _) H) in Ht. rewrite Hs in Ht. exact Ht.
Qed.

Lemma wf_schema_of_table d t tb :
  wf d -> d_tables d !! t = Some tb -> exists sc, d_schema d !! t = Some sc /\ wf_table sc tb.
Proof.
  intros [_ H] Ht. apply (proj1 (map_Forall_lookup _ _) H) in Ht.
  destruct (d_schema d !! t) as [sc|] eqn:E; simpl in Ht; [eauto|contradiction].
Qed.

Lemma wf_table_of_schema d t sc :
  wf d -> d_schema d !! t = Some sc -> exists tb, d_tables d !! t = Some tb /\ wf_table sc tb.
Proof.
  intros Hwf Hs. destruct Hwf as [Hd H].
  assert (Hin : t ∈ dom (d_tables d)) by (rewrite <- Hd; apply elem_of_dom; eauto).
  apply elem_of_dom in Hin as [tb Ht]. exists tb. split; [exact Ht|].
  eapply wf_lookup; eauto. split; assumption.
Qed.

Lemma wf_none d t : wf d -> d_tables d !! t = None -> d_schema d !! t = None.
Proof.
  intros [Hd _] Ht. apply not_elem_of_dom. rewrite Hd. apply not_elem_of_dom. exact Ht.
Qed.

Lemma wf_table_col sc tb c col :
  wf_table sc tb -> t_cols tb !! c = Some col -> sc !! c = Some (c_info col) /\ wf_col (t_rows tb) col.
Proof. intros [_ H] Hc. exact (proj1 (map_Forall_lookup _ _) H _ _ Hc). Qed.

Lemma wf_table_col_none sc tb c : wf_table sc tb -> t_cols tb !! c = None -> sc !! c = None.
Proof. intros [Hd _] Hc. apply not_elem_of_dom. rewrite Hd. apply not_elem_of_dom. exact Hc. Qed.

Lemma wf_table_col_of_schema sc tb c ci :
  wf_table sc tb -> sc !! c = Some ci -> exists col, t_cols tb !! c = Some col /\ c_info col = ci.
Proof.
  intros Hwf Hs. destruct (t_cols tb !! c) as [col|] eqn:E.
  - exists col. split; [reflexivity|]. destruct (wf_table_col _ _ _ _ Hwf E) as [H _]. congruence.
  - rewrite (wf_table_col_none _ _ _ Hwf E) in Hs. discriminate.
Qed.

(* ---------------------------------------------------------------------------------------------------------- *)
(* Column cells *)
Lemma upd_info_undo ci m : upd_info (upd_info ci m) (undo_mod ci m) = ci.
Proof. destruct ci, m as [[[]|] [] [] []]; reflexivity. Qed.

Lemma undo_mod_noop ci m : upd_info ci (undo_mod ci m) = ci.
Proof. destruct ci, m as [[[]|] [] [] []]; reflexivity. Qed.

Lemma cget_cset col r v r' : cget (cset col r v) r' = if decide (r' = r) then v else cget col r'.
Proof.
  unfold cget, cset, cdefault. simpl. destruct (decide (v = _)) as [->|Hne].
  - destruct (decide (r' = r)) as [->|Hr]; [rewrite lookup_delete|rewrite lookup_delete_ne by auto]; reflexivity.
  - destruct (decide (r' = r)) as [->|Hr]; [rewrite lookup_insert|rewrite lookup_insert_ne by auto]; reflexivity.
Qed.

Lemma cset_info col r v : c_info (cset col r v) = c_info col.
Proof. reflexivity. Qed.

Lemma wf_col_cset rows col r v : wf_col rows col -> r ∈ rows -> wf_col rows (cset col r v).
Proof.
  unfold wf_col, cset, cdefault. simpl. intros H Hr. destruct (decide (v = _)).
  - apply map_Forall_delete. exact H.
  - apply map_Forall_insert_2; [split; assumption|exact H].
Qed.

Lemma wf_col_mono rows rows' col : wf_col rows col -> rows ⊆ rows' -> wf_col rows' col.
Proof. unfold wf_col. intros H Hs. eapply map_Forall_impl; [exact H|]. simpl. intros ? ? []. split; auto. Qed.

Lemma wf_col_new rows ci : wf_col rows (new_col ci).
Proof. unfold wf_col, new_col. simpl. apply map_Forall_empty. Qed.

(* two columns with the same info and no stored defaults are equal when they read the same everywhere *)
Lemma col_ext rows1 rows2 c1 c2 :
  wf_col rows1 c1 -> wf_col rows2 c2 -> c_info c1 = c_info c2 -> (forall r, cget c1 r = cget c2 r) -> c1 = c2.
Proof.
  destruct c1 as [i1 d1], c2 as [i2 d2]. unfold wf_col, cget, cdefault. simpl. intros H1 H2 -> Hg.
  f_equal. apply map_eq. intros r. specialize (Hg r).
  destruct (d1 !! r) as [v1|] eqn:E1, (d2 !! r) as [v2|] eqn:E2; simpl in Hg.
  - congruence.
  - apply (proj1 (map_Forall_lookup _ _) H1) in E1. destruct E1. congruence.
  - apply (proj1 (map_Forall_lookup _ _) H2) in E2. destruct E2. congruence.
  - reflexivity.
Qed.

Lemma cget_default_notin rows col r : wf_col rows col -> r ∉ rows -> cget col r = cdefault col.
Proof.
  unfold wf_col, cget. intros H Hr. destruct (c_data col !! r) eqn:E; [|reflexivity].
  apply (proj1 (map_Forall_lookup _ _) H) in E. destruct E. contradiction.
Qed.

(* a list of sets: the last assignment to a row wins *)
Definition cset_list (col : column) (l : list (rowid * val)) : column :=
  foldl (fun c rv => cset c rv.1 rv.2) col l.

Lemma cset_list_info l : forall col, c_info (cset_list col l) = c_info col.
Proof. induction l as [|[r v] l IH]; intros col; simpl; [reflexivity|]. unfold cset_list in *. simpl. rewrite IH. reflexivity. Qed.

Lemma cget_cset_list_notin l : forall col r, r ∉ l.*1 -> cget (cset_list col l) r = cget col r.
Proof.
  induction l as [|[r0 v] l IH]; intros col r Hr; [reflexivity|].
  unfold cset_list in *. simpl in *. rewrite IH by (intros ?; apply Hr; right; assumption).
  rewrite cget_cset. destruct (decide (r = r0)) as [->|]; [|reflexivity]. exfalso. apply Hr. left.
Qed.

(* if every assignment to r in l carries the value f r, the result reads f r there *)
Lemma cget_cset_list_in l f : forall col r,
  r ∈ l.*1 -> (forall r' v, (r', v) ∈ l -> v = f r') -> cget (cset_list col l) r = f r.
Proof.
  induction l as [|[r0 v] l IH]; intros col r Hr Hf; [inversion Hr|].
  unfold cset_list in *. simpl in *. destruct (decide (r ∈ l.*1)) as [Hin|Hnin].
  - apply IH; [exact Hin|]. intros r' v' H. apply Hf. right. exact H.
  - fold (cset_list (cset col r0 v) l). rewrite cget_cset_list_notin by exact Hnin. rewrite cget_cset.
    apply elem_of_cons in Hr as [->|Hr]; [|contradiction].
    rewrite decide_True by reflexivity. apply Hf. left.
Qed.

Lemma wf_col_cset_list rows l : forall col,
  wf_col rows col -> (forall r, r ∈ l.*1 -> r ∈ rows) -> wf_col rows (cset_list col l).
Proof.
  induction l as [|[r v] l IH]; intros col H Hr; [exact H|].
  unfold cset_list in *. simpl in *. apply IH.
  - apply wf_col_cset; [exact H|]. apply Hr. left.
  - intros r' H'. apply Hr. right. exact H'.
Qed.
