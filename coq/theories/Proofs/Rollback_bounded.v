(* Bounded exhaustive check, by computation on the witness document: after [UpdateRecord T 2 {A:10}; recalculation of
   B[2]], EVERY sequence of up to three follow-up events taken from a list of row / column / table actions on the
   recomputed column, its table and their renamed successors (renames, removals, re-creation, further
   recalculations under the new names) is reverted by flush + rollback at EVERY event boundary -- except the
   sequences that remove row 2 and add it again (C04_refuted_readded_row).  This is the part of C04 for which there
   is no general proof: pending calc deltas combined with schema actions (front insertion, original names). *)
From stdpp Require Import gmap.
Require Import Grist.Model.Rollback Grist.Proofs.Rollback_proofs Grist.Proofs.Rollback_run Grist.Proofs.Rollback_witness.
Open Scope Z_scope.

(* the event boundaries of a bundle at which flush + rollback does NOT give the checkpoint document back *)
Definition boundaries_bad (es : list event) : list nat :=
  filter (fun k => match run_until_crash w_ord (init_state w_doc []) es k with
                   | Crashed st _ [] =>
                       negb (bool_decide (rollback_flush w_ord st (sum_log (run_log w_ord (init_state w_doc []) es k)) = Some w_doc))
                   | _ => false end = true) (seq 0 70).

Definition b_pre : list event := [EDoc (UpdateRecord T 2 [(A, 10)]); ECalc T B [(2, 20)]].
Definition b_cands : list event :=
  [EDoc (RenameColumn T B N); EDoc (RemoveColumn T B); EDoc (RenameTable T 5); EDoc (RemoveTable T);
   EDoc (RenameColumn T A N); EDoc (RemoveColumn T A); EDoc (RemoveRecord T 2); EDoc (AddRecord T 3 [(A, 7)]);
   EDoc (AddColumn T 9 ci_int); EDoc (UpdateRecord T 1 [(A, 5)]); ECalc T B [(1, 10)]; ECalc T N [(1, 11)]; ECalc 5 B [(1, 12)];
   EDoc (RemoveRecord 5 2); EDoc (RenameColumn 5 B N); EDoc (RemoveColumn 5 B); EDoc (RenameTable 5 T); EDoc (RenameColumn T N B);
   EDoc (AddColumn T B ci_formula_B); EDoc (RemoveTable 5); EDoc (AddRecord T 2 [(A, 8)])].
Definition b_ev (i : nat) : event := nth i b_cands (ECalc 0 0 []).
Definition b_idx : list nat := seq 0 (length b_cands).
Definition b_seqs1 : list (list nat) := map (fun x => [x]) b_idx.
Definition b_seqs2 : list (list nat) := flat_map (fun x => map (fun y => [x; y]) b_idx) b_idx.
Definition b_seqs3 : list (list nat) := flat_map (fun x => map (fun yz => x :: yz) b_seqs2) b_idx.
Definition b_bad (l : list (list nat)) : list (list nat * list nat) :=
  filter (fun r => match r.2 with [] => false | _ => true end = true)
         (map (fun xs => (xs, boundaries_bad (b_pre ++ map b_ev xs))) l).
(* row 2 removed (candidate 6) and added again (candidate 20) *)
Definition b_readd (xs : list nat) : bool :=
  match xs with [6; 20; _] | [_; 6; 20] | [6; _; 20] => true | _ => false end%nat.

Lemma bounded_one_followup : b_bad b_seqs1 = [].
Proof. vm_cast_no_check (eq_refl ([] : list (list nat * list nat))). Qed.
(* 441 bundles; the only one with a bad boundary is [RemoveRecord T 2; AddRecord T 2], at its end *)
Lemma bounded_two_followups : b_bad b_seqs2 = [([6; 20], [14])]%nat.
Proof. vm_cast_no_check (eq_refl ([([6; 20], [14])]%nat : list (list nat * list nat))). Qed.
(* three follow-ups out of the twelve that touch the recomputed column, its table or their renamed successors: 1728
   bundles (all 9198 sequences over the 21 candidates without the re-add pattern were also evaluated once, none bad;
   not part of the build for its five minutes) *)
Definition b_idx3 : list nat := [0; 1; 2; 3; 6; 7; 10; 11; 12; 14; 16; 17]%nat.
Definition b_seqs3s : list (list nat) :=
  flat_map (fun x => flat_map (fun y => map (fun z => [x; y; z]) b_idx3) b_idx3) b_idx3.
Lemma bounded_three_followups : b_bad b_seqs3s = [].
Proof. vm_cast_no_check (eq_refl ([] : list (list nat * list nat))). Qed.
