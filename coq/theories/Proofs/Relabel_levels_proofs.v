(* C20, partial renumbering path: at EVERY level 1 <= i <= 63 and around every double 0 <= u < 2^1012 the range of
   range_around_float contains u, and the keys _adjust_range spreads over it, when their number passed the density
   test of that level, are strictly increasing and strictly inside the range. *)
From Coq Require Import ZArith List Bool Lia Sorted.
Import ListNotations.
Require Import Grist.Lib.Fl64 Grist.Proofs.Fl64_proofs Grist.Proofs.Fl64_mono_proofs Grist.Proofs.Fl64_err_proofs
               Grist.Model.Relabel Grist.Proofs.Relabel_ungroup_proofs Grist.Proofs.Relabel_sparse_proofs
               Grist.Proofs.Relabel_spread_proofs Grist.Proofs.Relabel_block_proofs Grist.Proofs.Relabel_widespread_proofs.
Open Scope Z_scope.

(* ---- level 1: a block of two doubles, one key: the key is the upper double *)
Lemma pair_block g A :
  0 <= g -> 0 <= A -> (g = 0 \/ 2 ^ (52 + g) <= A * 2 ^ g) -> A * 2 ^ g + 2 * 2 ^ g <= 2 ^ (53 + g) ->
  A * 2 ^ g + 2 * 2 ^ g < UOVER ->
  get_range (FFin false (A * 2 ^ g)) (FFin false (A * 2 ^ g + 2 * 2 ^ g)) 1 = [FFin false (A * 2 ^ g + 2 ^ g)].
Proof.
  intros Hg HA Hlo Hhi Hov. assert (H253 : 2 < 2 ^ 53) by (apply Z.ltb_lt; reflexivity). set (G := 2 ^ g) in *. assert (HG : 1 <= G) by (unfold G; pose proof (pow2_pos' g Hg); lia).
  set (rb := A * G) in *. set (re := rb + 2 * G) in *. assert (Hrb : 0 <= rb) by (unfold rb; nia).
  assert (Hblock : forall x, rb <= x < re -> ulp_exp x = g).
  { intros x Hx. unfold ulp_exp. destruct Hlo as [H0|Hl].
    - rewrite H0 in *. assert (Z.log2 x < 53); [|lia]. destruct (Z.eq_dec x 0) as [->|Hne]; [cbn; lia|].
      apply Z.log2_lt_pow2; [lia|]. cbn [Z.add] in Hhi. lia.
    - assert (Z.log2 x = 52 + g); [|lia]. apply Z.log2_unique; [lia|]. replace (Z.succ (52 + g)) with (53 + g) by lia. lia. }
  (* W = 2G, K = 2: step = G exactly *)
  assert (HWrep : (2 * G) mod 2 ^ ulp_exp (2 * G) = 0).
  { unfold G. replace (2 * 2 ^ g) with (2 ^ (g + 1)) by (rewrite Z.pow_add_r by lia; ring).
    unfold ulp_exp. rewrite Z.log2_pow2 by lia.
    replace (2 ^ (g + 1)) with (2 ^ (g + 1 - Z.max 0 (g + 1 - 52)) * 2 ^ Z.max 0 (g + 1 - 52)) by (rewrite <- Z.pow_add_r by lia; f_equal; lia).
    apply Z.mod_mul. pose proof (pow2_pos' (Z.max 0 (g + 1 - 52))). lia. }
  assert (HGrep : G mod 2 ^ ulp_exp G = 0).
  { unfold G, ulp_exp. rewrite Z.log2_pow2 by lia.
    replace (2 ^ g) with (2 ^ (g - Z.max 0 (g - 52)) * 2 ^ Z.max 0 (g - 52)) at 1 by (rewrite <- Z.pow_add_r by lia; f_equal; lia).
    apply Z.mod_mul. pose proof (pow2_pos' (Z.max 0 (g - 52))). lia. }
  assert (Hsub : fsub (FFin false re) (FFin false rb) = FFin false (2 * G)).
  { unfold fsub, fneg, fadd, sval. cbn [negb andb]. replace (re + - rb) with (2 * G) by (unfold re; ring).
    replace (2 * G =? 0) with false by (symmetry; apply Z.eqb_neq; lia).
    replace (2 * G <? 0) with false by (symmetry; apply Z.ltb_ge; lia). rewrite Z.abs_eq by lia.
    replace (2 * G) with (2 * G * 2 ^ 0) at 1 by (rewrite Z.pow_0_r; lia). apply round_p2_exact; [lia | unfold re in Hov; lia | exact HWrep]. }
  assert (Hstep : fdiv (FFin false (2 * G)) (of_Z 2) = FFin false G).
  { rewrite of_Z_int by lia.
    rewrite fdiv_int_spec; [| lia | exact HWrep | lia].
    replace (2 * G / 2) with G by (rewrite Z.mul_comm, Z.div_mul; lia).
    apply Z.mod_divide in HGrep; [|pose proof (pow2_pos' _ (ulp_exp_nonneg G)); lia]. destruct HGrep as [q Hq].
    assert (Hp : 0 < 2 ^ ulp_exp G) by (apply pow2_pos', ulp_exp_nonneg).
    set (P := 2 ^ ulp_exp G) in *. replace (2 * G) with (q * (2 * P)) by nia. rewrite rne_exact by lia.
    rewrite <- Hq. unfold fin_or_inf. replace (UOVER <=? G) with false; [reflexivity|]. symmetry. apply Z.leb_gt. unfold re in Hov. lia. }
  unfold get_range. rewrite Hsub. change (1 + 1) with 2. rewrite Hstep. change (zrange 1 2) with [1]. cbn [map].
  rewrite of_Z_int by lia.
  rewrite fmul_int_spec by lia. rewrite Z.mul_1_r. rewrite (R_exact G) by (try lia; exact HGrep).
  assert (Hfin : forall v, 0 <= v <= re -> fin_or_inf false v = FFin false v).
  { intros v Hv. unfold fin_or_inf. replace (UOVER <=? v) with false; [reflexivity|]. symmetry. apply Z.leb_gt. lia. }
  rewrite Hfin by (unfold re; lia). rewrite fadd_pos_spec by lia.
  assert (Hmid : (rb + G) mod 2 ^ ulp_exp (rb + G) = 0).
  { rewrite Hblock by (unfold re; lia). unfold rb. fold G. replace (A * G + G) with ((A + 1) * G) by ring. apply Z.mod_mul. lia. }
  rewrite (R_exact (rb + G)) by (try lia; exact Hmid). rewrite Hfin by (unfold re; lia).
  (* the clamp: prevfloat re >= rb + G *)
  unfold prevfloat. replace (re =? 0) with false by (symmetry; apply Z.eqb_neq; unfold re; lia).
  unfold fmin, flt. cbn [is_nan negb andb ford].
  replace (upred re <? rb + G) with false; [reflexivity|]. symmetry. apply Z.ltb_ge.
  apply upred_max; [unfold re; lia | unfold re; lia | exact Hmid].
Qed.

(* ---- ranges that start at 0: around 0.0, and at levels >= 53 *)
Lemma pow_rep T : 0 <= T -> 2 ^ T mod 2 ^ ulp_exp (2 ^ T) = 0.
Proof.
  intros HT. unfold ulp_exp. rewrite Z.log2_pow2 by lia.
  replace (2 ^ T) with (2 ^ (T - Z.max 0 (T - 52)) * 2 ^ Z.max 0 (T - 52)) at 1 by (rewrite <- Z.pow_add_r by lia; f_equal; lia).
  apply Z.mod_mul. pose proof (pow2_pos' (Z.max 0 (T - 52))). lia.
Qed.

Lemma round_pow T : 0 <= T < 2098 -> round_p2 false (2 ^ T) 0 = FFin false (2 ^ T).
Proof.
  intros HT. replace (2 ^ T) with (2 ^ T * 2 ^ 0) at 1 by (rewrite Z.pow_0_r; lia).
  apply round_p2_exact; [lia | | apply pow_rep; lia].
  split; [apply Z.pow_nonneg; lia|]. rewrite UOVER_eq. apply Z.pow_lt_mono_r; lia.
Qed.

Lemma range_around_zero i : 0 <= i <= 63 -> range_around 0 i = Some (FFin false 0, FFin false (2 ^ (i + 1021))).
Proof.
  intros Hi. unfold range_around. cbn [Z.eqb]. rewrite Z.shiftl_mul_pow2 by lia. rewrite Z.mul_1_l.
  rewrite round_pow by lia. reflexivity.
Qed.

Lemma range_around_high u i : 0 < u -> 53 <= i <= 63 -> u < 2 ^ 2086 ->
  let t := if u <? P52 then i else Z.log2 u + i - 52 in
  range_around u i = Some (FFin false 0, FFin false (2 ^ t)) /\ u < 2 ^ t /\ 53 <= t < 2098.
Proof.
  intros Hu Hi Hov t.
  assert (Ht : 53 <= t < 2098 /\ u < 2 ^ t).
  { unfold t. rewrite P52_eq. destruct (Z.ltb_spec u (2 ^ 52)) as [H|H].
    - split; [lia|]. apply Z.lt_le_trans with (2 ^ 52); [exact H | apply Z.pow_le_mono_r; lia].
    - assert (52 <= Z.log2 u) by (apply Z.log2_le_pow2; lia).
      assert (Z.log2 u < 2086) by (apply Z.log2_lt_pow2; lia).
      split; [lia|]. pose proof (Z.log2_spec u Hu) as [_ L2].
      apply Z.lt_le_trans with (2 ^ Z.succ (Z.log2 u)); [exact L2 | apply Z.pow_le_mono_r; lia]. }
  destruct Ht as [Ht Hut]. split; [|split; assumption].
  unfold range_around. replace (u =? 0) with false by (symmetry; apply Z.eqb_neq; lia). fold t.
  replace (0 <=? t) with true by (symmetry; apply Z.leb_le; lia).
  rewrite Z.shiftr_div_pow2 by lia. rewrite Z.div_small by lia. cbn [Z.add].
  rewrite !Z.shiftl_mul_pow2 by lia. rewrite Z.mul_1_l, Z.mul_0_l. rewrite round_pow by lia.
  change (round_p2 false 0 0) with (FFin false 0). reflexivity.
Qed.

Lemma threshold_counts :
  forallb (fun i => (cmaxZ (thr f114 i) + 1 <=? 2 ^ 24) && (cmaxZ (thr f130 i) + 1 <=? 2 ^ 24)) (seq 0 64) = true.
Proof. vm_compute. reflexivity. Qed.

(* ---- every level *)
Theorem levels_keys_strict u (i : nat) frac c :
  0 <= u < 2 ^ 2086 -> (0 < u -> u mod 2 ^ ulp_exp u = 0) -> (1 <= i < 64)%nat -> frac = f114 \/ frac = f130 ->
  1 <= c < 2 ^ 53 -> flt (of_Z c) (thr frac i) = true ->
  exists rb re, range_around u (Z.of_nat i) = Some (FFin false rb, FFin false re) /\ 0 <= rb <= u /\ u < re /\
    StronglySorted Flt (FFin false rb :: get_range (FFin false rb) (FFin false re) c ++ [FFin false re]) /\
    Forall posfin (get_range (FFin false rb) (FFin false re) c).
Proof.
  intros Hu Hrep Hi Hf Hc Hlt.
  assert (Hpos : posb (thr frac i) = true).
  { destruct threshold_small as (HP & _). rewrite forallb_forall in HP. specialize (HP i ltac:(apply in_seq; lia)).
    apply andb_prop in HP. destruct Hf as [-> | ->]; tauto. }
  pose proof (flt_of_Z_cmax c _ ltac:(lia) Hpos Hlt) as Hmax.
  assert (HK24 : c + 1 <= 2 ^ 24).
  { pose proof threshold_counts as HT. rewrite forallb_forall in HT. specialize (HT i ltac:(apply in_seq; lia)).
    apply andb_prop in HT. destruct HT as [H1 H2]. apply Z.leb_le in H1. apply Z.leb_le in H2.
    destruct Hf as [-> | ->]; lia. }
  assert (Hwide : forall T, 52 <= T < 2098 -> u < 2 ^ T ->
            StronglySorted Flt (FFin false 0 :: get_range (FFin false 0) (FFin false (2 ^ T)) c ++ [FFin false (2 ^ T)]) /\
            Forall posfin (get_range (FFin false 0) (FFin false (2 ^ T)) c)).
  { intros T HT HuT. assert (2 ^ T < UOVER) by (rewrite UOVER_eq; apply Z.pow_lt_mono_r; lia).
    split; [apply wide_spread_strict | apply wide_spread_posfin]; try lia; exact HK24. }
  destruct (Z.eq_dec u 0) as [->|Hu0].
  - exists 0, (2 ^ (Z.of_nat i + 1021)). rewrite range_around_zero by lia. split; [reflexivity|].
    assert (0 < 2 ^ (Z.of_nat i + 1021)) by (apply pow2_pos'; lia). split; [lia|]. split; [lia|]. apply Hwide; lia.
  - destruct (Z.le_gt_cases 53 (Z.of_nat i)) as [Hhigh|Hlow].
    + destruct (range_around_high u (Z.of_nat i) ltac:(lia) ltac:(lia) ltac:(lia)) as (Hr & HuT & HT).
      eexists 0, _. split; [exact Hr|]. split; [lia|]. split; [lia|]. apply Hwide; lia.
    + assert (Hov : 2 * u < UOVER).
      { rewrite UOVER_eq. apply Z.lt_le_trans with (2 ^ 2087).
        - replace 2087 with (Z.succ 2086) by reflexivity. rewrite Z.pow_succ_r by lia. lia.
        - apply Z.pow_le_mono_r; lia. }
      destruct (Nat.eq_dec i 1) as [->|Hi1].
      * (* level 1: count = 1, the block of two doubles *)
        assert (Hc1 : c = 1).
        { destruct threshold_small as (_ & _ & _ & E1 & E2). destruct Hf as [-> | ->]; [rewrite E1 in Hmax | rewrite E2 in Hmax]; lia. }
        subst c. change (Z.of_nat 1) with 1.
        pose proof (range_around_block u 1 ltac:(lia) ltac:(lia) Hov) as Hr.
        destruct (block_facts u 1 ltac:(lia) ltac:(lia)) as (Ht & Hin & Hw & Hdiv & Hlo & Hhi & Hrb).
        destruct (g_facts u 1 ltac:(lia)) as (Hg & Hlu & _).
        set (g := if u <? P52 then 0 else Z.log2 u - 52) in *.
        set (rb := u / 2 ^ (g + 1) * 2 ^ (g + 1)) in *. set (re := rb + 2 ^ (g + 1)) in *.
        exists rb, re. split; [exact Hr|]. split; [lia|]. split; [lia|].
        assert (Hpg : 0 < 2 ^ g) by (apply pow2_pos'; lia).
        apply Z.mod_divide in Hdiv; [|lia]. destruct Hdiv as [A HA]. assert (HA0 : 0 <= A) by nia.
        change (2 ^ 1) with 2 in Hw. assert (Hre : re = A * 2 ^ g + 2 * 2 ^ g) by lia.
        assert (HovA : re < UOVER).
        { apply Z.le_lt_trans with (Z.max (2 * u) (2 ^ 53)).
          - destruct Hlu as [H0|Hl]; [rewrite H0 in Hhi; cbn [Z.add] in Hhi; lia|].
            assert (2 ^ (53 + g) = 2 * 2 ^ (52 + g)) by (replace (53 + g) with (1 + (52 + g)) by lia; rewrite Z.pow_add_r by lia; reflexivity). lia.
          - pose proof UOVER_big. assert (2 ^ 53 < 2 ^ 60) by (apply Z.pow_lt_mono_r; lia). lia. }
        rewrite Hre in Hhi, HovA |- *. rewrite HA in Hlo |- *.
        rewrite (pair_block g A Hg HA0 Hlo Hhi HovA). cbn [app].
        assert (Hl : forall a b, 0 <= a < b -> Flt (FFin false a) (FFin false b)).
        { intros a b Hab. unfold Flt. apply flt_iff. cbn [is_nan ford]. repeat split; auto. lia. }
        split; [repeat constructor; apply Hl; nia | repeat constructor; eexists; reflexivity].
      * pose proof (level_dense i frac c ltac:(lia) Hf Hc Hlt) as Hd.
        exact (adjust_range_keys_strict u (Z.of_nat i) c ltac:(lia) Hov ltac:(lia) ltac:(lia) Hd).
Qed.
