(* Proofs about Model/Lookup.v (C13).  Part 1: dictionaries, bins, TwoWayMap. *)
From Coq Require Import ZArith List Bool Lia QArith Permutation Sorted.
Import ListNotations.
Require Import Grist.Model.Lookup.
Open Scope Z_scope.

(* A boolean equality that is an equivalence (Python == on the modelled values). *)
Record equiv {A} (eqb : A -> A -> bool) : Prop := {
  eq_refl_b : forall a, eqb a a = true;
  eq_sym_b : forall a b, eqb a b = eqb b a;
  eq_trans_b : forall a b c, eqb a b = true -> eqb b c = true -> eqb a c = true }.

Lemma eq_trans_f {A} (eqb : A -> A -> bool) (E : equiv eqb) a b c :
  eqb a b = true -> eqb a c = eqb b c.
Proof.
  intros H. destruct (eqb b c) eqn:Hbc.
  - eapply eq_trans_b; eauto.
  - destruct (eqb a c) eqn:Hac; [|reflexivity].
    rewrite <- Hbc. symmetry. eapply eq_trans_b; eauto. rewrite eq_sym_b; auto.
Qed.

Lemma eq_trans_f2 {A} (eqb : A -> A -> bool) (E : equiv eqb) a b c :
  eqb a b = true -> eqb c a = eqb c b.
Proof. intros H. rewrite (eq_sym_b _ E c a), (eq_sym_b _ E c b). apply eq_trans_f; auto. Qed.

Section DictFacts.
  Context {K A : Type} (keq : K -> K -> bool) (EK : equiv keq).

  Lemma dget_congr : forall (m : dict K A) k k', keq k k' = true -> dget keq m k = dget keq m k'.
  Proof.
    induction m as [|[k0 v] t IH]; intros k k' H; cbn; [reflexivity|].
    rewrite (eq_trans_f2 keq EK k k' k0 H). destruct (keq k0 k'); auto.
  Qed.

  Lemma dget_ddel : forall (m : dict K A) k k',
    dget keq (ddel keq m k) k' = if keq k k' then None else dget keq m k'.
  Proof.
    induction m as [|[k0 v] t IH]; intros k k'; cbn.
    - destruct (keq k k'); reflexivity.
    - destruct (keq k0 k) eqn:H0.
      + rewrite IH. destruct (keq k k') eqn:H1; [reflexivity|].
        rewrite (eq_trans_f keq EK k0 k k' H0), H1. reflexivity.
      + cbn. rewrite IH. destruct (keq k0 k') eqn:H2; [|reflexivity].
        destruct (keq k k') eqn:H1; [|reflexivity].
        exfalso. rewrite (eq_sym_b _ EK k k') in H1.
        rewrite (eq_trans_b _ EK k0 k' k H2 H1) in H0. discriminate.
  Qed.

  Lemma dget_dset : forall (m : dict K A) k v k',
    dget keq (dset keq m k v) k' = if keq k k' then Some v else dget keq m k'.
  Proof.
    induction m as [|[k0 v0] t IH]; intros k v k'; cbn.
    - destruct (keq k k'); reflexivity.
    - destruct (keq k0 k) eqn:H0; cbn.
      + rewrite (eq_trans_f keq EK k0 k k' H0).
        destruct (keq k k') eqn:H1; [reflexivity|]. rewrite dget_ddel, H1. reflexivity.
      + rewrite IH. destruct (keq k0 k') eqn:H2; [|reflexivity].
        destruct (keq k k') eqn:H1; [|reflexivity].
        exfalso. rewrite (eq_sym_b _ EK k k') in H1.
        rewrite (eq_trans_b _ EK k0 k' k H2 H1) in H0. discriminate.
  Qed.
End DictFacts.

Section ListFacts.
  Context {A : Type} (aeq : A -> A -> bool) (EA : equiv aeq).

  Fixpoint nodup_eq (l : list A) : Prop :=
    match l with [] => True | x :: t => memb aeq x t = false /\ nodup_eq t end.

  Lemma memb_congr : forall l a b, aeq a b = true -> memb aeq a l = memb aeq b l.
  Proof.
    induction l as [|y t IH]; intros a b H; cbn; [reflexivity|].
    rewrite (eq_trans_f2 aeq EA a b y H). destruct (aeq y b); auto.
  Qed.

  Lemma memb_app : forall l m a, memb aeq a (l ++ m) = memb aeq a l || memb aeq a m.
  Proof. induction l as [|y t IH]; intros; cbn; [reflexivity|]. destruct (aeq y a); auto. Qed.

  Lemma memb_In : forall l a, In a l -> memb aeq a l = true.
  Proof.
    induction l as [|y t IH]; intros a H; [contradiction|]. destruct H as [H|H]; cbn.
    - subst. now rewrite (eq_refl_b _ EA).
    - destruct (aeq y a); auto.
  Qed.

  Lemma memb_ex : forall l a, memb aeq a l = true -> exists b, In b l /\ aeq b a = true.
  Proof.
    induction l as [|y t IH]; intros a H; cbn in H; [discriminate|].
    destruct (aeq y a) eqn:E.
    - exists y. split; [left; reflexivity|exact E].
    - destruct (IH a H) as [b [Hb1 Hb2]]. exists b. split; [right; exact Hb1|exact Hb2].
  Qed.

  Lemma memb_remove_first : forall l v a, nodup_eq l ->
    memb aeq a (remove_first aeq v l) = memb aeq a l && negb (aeq v a).
  Proof.
    induction l as [|y t IH]; intros v a Hd0; cbn; [reflexivity|]. destruct Hd0 as [Hn Hd].
    destruct (aeq y v) eqn:Hyv.
    - rewrite (eq_trans_f aeq EA y v a Hyv).
      destruct (aeq v a) eqn:Hva; cbn.
      + rewrite <- (memb_congr t y a); [exact Hn|]. eapply eq_trans_b; eauto.
      + now rewrite andb_true_r.
    - cbn. destruct (aeq y a) eqn:Hya.
      + cbn. destruct (aeq v a) eqn:Hva; [|reflexivity].
        exfalso. rewrite (eq_sym_b _ EA v a) in Hva.
        rewrite (eq_trans_b _ EA y a v Hya Hva) in Hyv. discriminate.
      + apply IH. exact Hd.
  Qed.

  Lemma nodup_remove_first : forall l v, nodup_eq l -> nodup_eq (remove_first aeq v l).
  Proof.
    induction l as [|y t IH]; intros v Hd0; cbn; [exact I|]. destruct Hd0 as [Hn Hd].
    destruct (aeq y v); [exact Hd|]. cbn. split; [|apply IH; exact Hd].
    rewrite memb_remove_first by exact Hd. now rewrite Hn.
  Qed.

  Lemma nodup_app1 : forall l v, nodup_eq l -> memb aeq v l = false -> nodup_eq (l ++ [v]).
  Proof.
    induction l as [|y t IH]; intros v Hd Hm; cbn; [split; [reflexivity|exact I]|].
    destruct Hd as [Hn Hd]. cbn in Hm. destruct (aeq y v) eqn:Hyv; [discriminate|].
    split; [|apply IH; assumption].
    rewrite memb_app, Hn. cbn. rewrite (eq_sym_b _ EA v y), Hyv. reflexivity.
  Qed.
End ListFacts.

(* ------------------------------------------------------------------------------------------- *)
(* bins                                                                                        *)

Section BinFacts.
  Context {K A : Type}.
  Variables (keq : K -> K -> bool) (aeq : A -> A -> bool) (khash : K -> bool) (ahash : A -> bool).
  Variable kfmt : K -> bool.
  Hypothesis EK : equiv keq.
  Hypothesis EA : equiv aeq.
  Hypothesis HKH : forall a b, keq a b = true -> khash a = khash b.

  Notation D := (dict K (bin A)).
  Definition rel (m : D) (k : K) (a : A) : bool := memb aeq a (items_of keq m k).
  Definition cache_of (m : D) (k : K) : list (sortspec * list A) :=
    match dget keq m k with Some b => cache b | None => [] end.
  Definition has_key (m : D) (k : K) : bool := match dget keq m k with Some _ => true | None => false end.

  (* well-formed for kind kd: no repeated element in a bin, single-value bins hold exactly one,
     every key present is hashable *)
  Definition wf (kd : kind) (m : D) : Prop :=
    (forall k, nodup_eq aeq (items_of keq m k)) /\
    (is_single kd = true -> forall k b, dget keq m k = Some b -> exists s, items b = [s]) /\
    (forall k, has_key m k = true -> khash k = true).

  Lemma items_of_congr : forall (m : D) k k', keq k k' = true -> items_of keq m k = items_of keq m k'.
  Proof. intros. unfold items_of. now rewrite (dget_congr keq EK m k k'). Qed.

  Lemma rel_congr_k : forall (m : D) k k' a, keq k k' = true -> rel m k a = rel m k' a.
  Proof. intros. unfold rel. now rewrite (items_of_congr m k k'). Qed.

  Lemma rel_congr_a : forall (m : D) k a a', aeq a a' = true -> rel m k a = rel m k a'.
  Proof. intros. unfold rel. now apply memb_congr. Qed.

  Lemma items_dset : forall (m : D) k b k',
    items_of keq (dset keq m k b) k' = if keq k k' then items b else items_of keq m k'.
  Proof. intros. unfold items_of. rewrite (dget_dset keq EK). destruct (keq k k'); reflexivity. Qed.

  Lemma items_ddel : forall (m : D) k k',
    items_of keq (ddel keq m k) k' = if keq k k' then [] else items_of keq m k'.
  Proof. intros. unfold items_of. rewrite (dget_ddel keq EK). destruct (keq k k'); reflexivity. Qed.

  Lemma rel_true_has_key : forall (m : D) k a, rel m k a = true -> has_key m k = true.
  Proof.
    unfold rel, items_of, has_key. intros m k a H. destruct (dget keq m k); [reflexivity|discriminate].
  Qed.

  (* what add_item does to the relation; [stable] = items and cache of untouched keys stay *)
  Definition stable_or_cleared (m m' : D) : Prop :=
    forall k, (items_of keq m' k = items_of keq m k /\ cache_of m' k = cache_of m k) \/ cache_of m' k = [].

  Lemma soc_refl : forall m, stable_or_cleared m m.
  Proof. intros m k. left. split; reflexivity. Qed.

  Lemma soc_trans : forall m1 m2 m3, stable_or_cleared m1 m2 -> stable_or_cleared m2 m3 -> stable_or_cleared m1 m3.
  Proof.
    intros m1 m2 m3 H1 H2 k. destruct (H2 k) as [[Ha Hb]|Hc]; [|right; exact Hc].
    destruct (H1 k) as [[Hc Hd]|He].
    - left. split; congruence.
    - right. congruence.
  Qed.

  Lemma soc_dset_one : forall (m : D) k v, stable_or_cleared m (dset keq m k (mkBin v [])).
  Proof.
    intros m k v k'. unfold cache_of, items_of. rewrite (dget_dset keq EK).
    destruct (keq k k'); [right; reflexivity|left; split; reflexivity].
  Qed.

  Lemma soc_ddel : forall (m : D) k, stable_or_cleared m (ddel keq m k).
  Proof.
    intros m k k'. unfold cache_of, items_of. rewrite (dget_ddel keq EK).
    destruct (keq k k'); [right; reflexivity|left; split; reflexivity].
  Qed.

  (* storing a bin under a key *)
  Lemma set_bin_facts : forall kd (m : D) key (b1 : bin A),
    wf kd m -> khash key = true -> nodup_eq aeq (items b1) ->
    (is_single kd = true -> exists s, items b1 = [s]) ->
    let m1 := dset keq m key b1 in
    wf kd m1 /\
    (forall k a, rel m1 k a = if keq key k then memb aeq a (items b1) else rel m k a) /\
    (forall k, has_key m1 k = keq key k || has_key m k).
  Proof.
    intros kd m key b1 [Wn [Ws Wh]] Hk Hn Hs m1. unfold m1. split; [split; [|split]|split].
    - intros k. rewrite items_dset. destruct (keq key k); [exact Hn|apply Wn].
    - intros Hsg k b Hb. rewrite (dget_dset keq EK) in Hb. destruct (keq key k).
      + inversion Hb; subst. auto.
      + eapply Ws; eauto.
    - intros k Hb. unfold has_key in Hb. rewrite (dget_dset keq EK) in Hb.
      destruct (keq key k) eqn:E.
      + rewrite <- (HKH key k E). exact Hk.
      + apply Wh. exact Hb.
    - intros k a. unfold rel. rewrite items_dset. destruct (keq key k); reflexivity.
    - intros k. unfold has_key. rewrite (dget_dset keq EK). destruct (keq key k); reflexivity.
  Qed.

  Lemma del_facts : forall kd (m : D) key,
    wf kd m ->
    let m1 := ddel keq m key in
    wf kd m1 /\
    (forall k a, rel m1 k a = if keq key k then false else rel m k a) /\
    (forall k, has_key m1 k = negb (keq key k) && has_key m k).
  Proof.
    intros kd m key [Wn [Ws Wh]] m1. unfold m1. split; [split; [|split]|split].
    - intros k. rewrite items_ddel. destruct (keq key k); [exact I|apply Wn].
    - intros Hsg k b Hb. rewrite (dget_ddel keq EK) in Hb. destruct (keq key k); [discriminate|].
      eapply Ws; eauto.
    - intros k Hb. unfold has_key in Hb. rewrite (dget_ddel keq EK) in Hb.
      destruct (keq key k); [discriminate|]. apply Wh. exact Hb.
    - intros k a. unfold rel. rewrite items_ddel. destruct (keq key k); reflexivity.
    - intros k. unfold has_key. rewrite (dget_ddel keq EK). destruct (keq key k); reflexivity.
  Qed.

  Definition add_post (kd : kind) (m : D) (key : K) (value : A) (m' : D) (rem add : option A) : Prop :=
    wf kd m' /\
    (forall k a, rel m' k a =
       if keq key k then (aeq value a || (negb (is_single kd) && rel m key a)) else rel m k a) /\
    (forall k, has_key m' k = keq key k || has_key m k) /\
    khash key = true /\
    (hashes_values kd = true -> ahash value = true) /\
    (forall s, rem = Some s -> is_single kd = true /\ aeq s value = false /\ forall a, rel m key a = aeq s a) /\
    (rem = None -> is_single kd = true -> forall s, rel m key s = true -> aeq s value = true) /\
    (forall a, add = Some a -> a = value) /\
    (add = None -> rem = None /\ rel m key value = true) /\
    (add <> None -> rem = None -> rel m key value = false) /\
    stable_or_cleared m m'.

  Lemma rel_of_dget_some : forall (m : D) key b a, dget keq m key = Some b -> rel m key a = memb aeq a (items b).
  Proof. intros. unfold rel, items_of. now rewrite H. Qed.
  Lemma rel_of_dget_none : forall (m : D) key a, dget keq m key = None -> rel m key a = false.
  Proof. intros. unfold rel, items_of. now rewrite H. Qed.

  Lemma set_one_facts : forall kd (m : D) key value,
    wf kd m -> khash key = true -> (is_single kd = true \/ dget keq m key = None) ->
    let m1 := dset keq m key (one value) in
    wf kd m1 /\
    (forall k a, rel m1 k a =
       if keq key k then (aeq value a || (negb (is_single kd) && rel m key a)) else rel m k a) /\
    (forall k, has_key m1 k = keq key k || has_key m k) /\
    stable_or_cleared m m1.
  Proof.
    intros kd m key value W Hk Hor m1.
    destruct (set_bin_facts kd m key (one value) W Hk) as [F1 [F2 F3]]; cbn; auto.
    { intros _. eauto. }
    split; [exact F1|split; [|split; [exact F3|apply soc_dset_one]]].
    intros k a. unfold m1. rewrite F2. destruct (keq key k); [|reflexivity]. cbn.
    destruct Hor as [Hs|Hn].
    - rewrite Hs. cbn. destruct (aeq value a); reflexivity.
    - rewrite (rel_of_dget_none m key a Hn), andb_false_r. destruct (aeq value a); reflexivity.
  Qed.

  Ltac post_split F1 F2 F3 F4 Hk := unfold add_post;
    refine (conj F1 (conj F2 (conj F3 (conj Hk (conj _ (conj _ (conj _ (conj _ (conj _ (conj _ F4)))))))))).

  Lemma add_item_spec : forall kd (m : D) key value m' rem add,
    wf kd m ->
    add_item keq aeq khash ahash kfmt kd m key value = AOk m' rem add ->
    add_post kd m key value m' rem add.
  Proof.
    intros kd m key value m' rem add W H. unfold add_item in H.
    destruct (khash key) eqn:Hk; cbn [negb] in H; [|discriminate].
    pose proof W as [Wn [Ws Wh]].
    destruct (is_single kd) eqn:Hsg.
    - (* single-value bins *)
      assert (Hcase : (exists s ca, dget keq m key = Some (mkBin [s] ca)) \/ dget keq m key = None).
      { destruct (dget keq m key) as [b|] eqn:Hg; [left|right; reflexivity].
        destruct (Ws eq_refl key b Hg) as [s Hs]. destruct b as [it ca]. cbn in Hs. subst it. eauto. }
      destruct Hcase as [[s [ca Hg]]|Hg].
      + assert (Hrel : forall a, rel m key a = aeq s a).
        { intros a. rewrite (rel_of_dget_some m key _ a Hg). cbn. destruct (aeq s a); reflexivity. }
        rewrite Hg in H.
        destruct (aeq s value) eqn:Hsv.
        * (* same value again *)
          assert (Hm' : rem = None /\ add = None /\ (m' = dset keq m key (one value) \/ m' = m)).
          { destruct kd; try discriminate; inversion H; auto. }
          destruct Hm' as [-> [-> Hm']].
          assert (Hfacts : wf kd m' /\
            (forall k a, rel m' k a = if keq key k then (aeq value a || (negb (is_single kd) && rel m key a)) else rel m k a) /\
            (forall k, has_key m' k = keq key k || has_key m k) /\ stable_or_cleared m m').
          { destruct Hm' as [->| ->].
            - apply set_one_facts; auto.
            - split; [exact W|split; [|split; [|apply soc_refl]]].
              + intros k a. destruct (keq key k) eqn:E; [|reflexivity]. rewrite Hsg. cbn.
                rewrite orb_false_r, <- (rel_congr_k m key k a E), Hrel. apply eq_trans_f; auto.
              + intros k. destruct (keq key k) eqn:E; [|reflexivity]. cbn.
                unfold has_key. rewrite <- (dget_congr keq EK m key k E), Hg. reflexivity. }
          destruct Hfacts as [F1 [F2 [F3 F4]]].
          post_split F1 F2 F3 F4 Hk; auto; try discriminate; try (intros; congruence).
          -- destruct kd; cbn in *; congruence.
          -- intros _ _ s' Hs'. rewrite Hrel in Hs'. rewrite <- Hsv. symmetry. apply eq_trans_f; auto.
          -- intros _. split; [reflexivity|]. now rewrite Hrel.
          -- intros C; contradiction.
        * (* another value: KStrict raises, KSingle overwrites *)
          destruct kd; try discriminate. inversion H; subst; clear H.
          destruct (set_one_facts KSingle m key value W Hk (or_introl eq_refl)) as [F1 [F2 [F3 F4]]].
          post_split F1 F2 F3 F4 Hk; auto; try discriminate; try (intros; congruence).
          -- intros s' Hs'. inversion Hs'; subst. auto.
          -- intros a Ha. inversion Ha. reflexivity.
      + (* key absent *)
        rewrite Hg in H.
        assert (Hm' : rem = None /\ add = Some value /\ m' = dset keq m key (one value)).
        { destruct kd; try discriminate; inversion H; auto. }
        destruct Hm' as [-> [-> ->]].
        destruct (set_one_facts kd m key value W Hk (or_intror Hg)) as [F1 [F2 [F3 F4]]].
        post_split F1 F2 F3 F4 Hk; auto; try discriminate; try (intros; congruence).
        * destruct kd; cbn in *; congruence.
        * intros _ _ s Hs. rewrite (rel_of_dget_none m key s Hg) in Hs. discriminate.
        * intros a Ha. inversion Ha. reflexivity.
        * intros _ _. apply (rel_of_dget_none m key value Hg).
    - (* containers *)
      assert (Hc : (if hashes_values kd && negb (ahash value) then ARaise TypeErr
                    else match dget keq m key with
                         | None => AOk (dset keq m key (one value)) None (Some value)
                         | Some b => if memb aeq value (items b) then AOk m None None
                                     else AOk (dset keq m key (mkBin (items b ++ [value]) [])) None (Some value)
                         end) = AOk m' rem add).
      { destruct kd; try discriminate; exact H. }
      clear H.
      destruct (hashes_values kd && negb (ahash value)) eqn:Hh; [discriminate|].
      assert (Hah : hashes_values kd = true -> ahash value = true).
      { intros E. rewrite E in Hh. cbn in Hh. now destruct (ahash value). }
      destruct (dget keq m key) as [b|] eqn:Hg.
      + destruct (memb aeq value (items b)) eqn:Hmem; inversion Hc; subst; clear Hc.
        * assert (F1 : wf kd m') by exact W.
          assert (F2 : forall k a, rel m' k a =
             if keq key k then (aeq value a || (negb (is_single kd) && rel m' key a)) else rel m' k a).
          { intros k a. destruct (keq key k) eqn:E; [|reflexivity]. rewrite Hsg. cbn.
            rewrite <- (rel_congr_k m' key k a E).
            destruct (aeq value a) eqn:Eva; [|reflexivity]. cbn.
            rewrite <- (rel_congr_a m' key value a Eva). rewrite (rel_of_dget_some m' key b value Hg). exact Hmem. }
          assert (F3 : forall k, has_key m' k = keq key k || has_key m' k).
          { intros k. destruct (keq key k) eqn:E; [|reflexivity]. cbn.
            unfold has_key. rewrite <- (dget_congr keq EK m' key k E), Hg. reflexivity. }
          assert (F4 := soc_refl m').
          post_split F1 F2 F3 F4 Hk; auto; try discriminate; try (intros; congruence).
          -- intros _. split; [reflexivity|]. rewrite (rel_of_dget_some m' key b value Hg). exact Hmem.
          -- intros C; contradiction.
        * assert (Hnd : nodup_eq aeq (items b ++ [value])).
          { apply nodup_app1; auto. specialize (Wn key). unfold items_of in Wn. now rewrite Hg in Wn. }
          destruct (set_bin_facts kd m key (mkBin (items b ++ [value]) []) W Hk Hnd) as [F1 [F2 F3]].
          { rewrite Hsg. discriminate. }
          assert (F2' : forall k a, rel (dset keq m key (mkBin (items b ++ [value]) [])) k a =
             if keq key k then (aeq value a || (negb (is_single kd) && rel m key a)) else rel m k a).
          { intros k a. rewrite F2. destruct (keq key k); [|reflexivity]. cbn [items].
            rewrite (memb_app aeq), Hsg, (rel_of_dget_some m key b a Hg). cbn.
            destruct (aeq value a); cbn; [now rewrite orb_true_r|now rewrite orb_false_r]. }
          assert (F4 := soc_dset_one m key (items b ++ [value])).
          post_split F1 F2' F3 F4 Hk; auto; try discriminate; try (intros; congruence).
          -- intros a Ha. inversion Ha. reflexivity.
          -- intros _ _. rewrite (rel_of_dget_some m key b value Hg). exact Hmem.
      + inversion Hc; subst; clear Hc.
        destruct (set_one_facts kd m key value W Hk (or_intror Hg)) as [F1 [F2 [F3 F4]]].
        post_split F1 F2 F3 F4 Hk; auto; try discriminate; try (intros; congruence).
        * intros a Ha. inversion Ha. reflexivity.
        * intros _ _. apply (rel_of_dget_none m key value Hg).
  Qed.
End BinFacts.
