(* Proofs about Model/Lookup.v (C13).  Part 1: dictionaries, bins, TwoWayMap. *)
From Coq Require Import ZArith List Bool Lia QArith Permutation Sorted.
Import ListNotations.
Require Import Grist.Model.Lookup.
Open Scope Z_scope.

(* A boolean equality that is an equivalence (Python == on the modelled values). *)
Record equiv {A} (eqb : A -> A -> bool) : Prop := {
  eq_refl_b : forall a, eqb a a = true;
  eq_sym_b : forall a b, eqb a b = eqb b a;
  eq_trans_b : forall a b c, eqb a b = true -> eqb b c = true -> eqb a c = true }.

Lemma eq_trans_f {A} (eqb : A -> A -> bool) (E : equiv eqb) a b c :
  eqb a b = true -> eqb a c = eqb b c.
Proof.
  intros H. destruct (eqb b c) eqn:Hbc.
  - eapply eq_trans_b; eauto.
  - destruct (eqb a c) eqn:Hac; [|reflexivity].
    rewrite <- Hbc. symmetry. eapply eq_trans_b; eauto. rewrite eq_sym_b; auto.
Qed.

Lemma eq_trans_f2 {A} (eqb : A -> A -> bool) (E : equiv eqb) a b c :
  eqb a b = true -> eqb c a = eqb c b.
Proof. intros H. rewrite (eq_sym_b _ E c a), (eq_sym_b _ E c b). apply eq_trans_f; auto. Qed.

Section DictFacts.
  Context {K A : Type} (keq : K -> K -> bool) (EK : equiv keq).

  Lemma dget_congr : forall (m : dict K A) k k', keq k k' = true -> dget keq m k = dget keq m k'.
  Proof.
    induction m as [|[k0 v] t IH]; intros k k' H; cbn; [reflexivity|].
    rewrite (eq_trans_f2 keq EK k k' k0 H). destruct (keq k0 k'); auto.
  Qed.

  Lemma dget_ddel : forall (m : dict K A) k k',
    dget keq (ddel keq m k) k' = if keq k k' then None else dget keq m k'.
  Proof.
    induction m as [|[k0 v] t IH]; intros k k'; cbn.
    - destruct (keq k k'); reflexivity.
    - destruct (keq k0 k) eqn:H0.
      + rewrite IH. destruct (keq k k') eqn:H1; [reflexivity|].
        rewrite (eq_trans_f keq EK k0 k k' H0), H1. reflexivity.
      + cbn. rewrite IH. destruct (keq k0 k') eqn:H2; [|reflexivity].
        destruct (keq k k') eqn:H1; [|reflexivity].
        exfalso. rewrite (eq_sym_b _ EK k k') in H1.
        rewrite (eq_trans_b _ EK k0 k' k H2 H1) in H0. discriminate.
  Qed.

  Lemma dget_dset : forall (m : dict K A) k v k',
    dget keq (dset keq m k v) k' = if keq k k' then Some v else dget keq m k'.
  Proof.
    induction m as [|[k0 v0] t IH]; intros k v k'; cbn.
    - destruct (keq k k'); reflexivity.
    - destruct (keq k0 k) eqn:H0; cbn.
      + rewrite (eq_trans_f keq EK k0 k k' H0).
        destruct (keq k k') eqn:H1; [reflexivity|]. rewrite dget_ddel, H1. reflexivity.
      + rewrite IH. destruct (keq k0 k') eqn:H2; [|reflexivity].
        destruct (keq k k') eqn:H1; [|reflexivity].
        exfalso. rewrite (eq_sym_b _ EK k k') in H1.
        rewrite (eq_trans_b _ EK k0 k' k H2 H1) in H0. discriminate.
  Qed.
  Lemma dget_dupd : forall (m : dict K A) k v k',
    dget keq (dupd keq m k v) k' =
    match dget keq m k with Some _ => if keq k k' then Some v else dget keq m k' | None => dget keq m k' end.
  Proof.
    induction m as [|[k0 v0] t IH]; intros k v k'; cbn; [reflexivity|].
    destruct (keq k0 k) eqn:H0; cbn.
    - rewrite (eq_trans_f keq EK k0 k k' H0). destruct (keq k k'); reflexivity.
    - rewrite IH. destruct (keq k0 k') eqn:H2.
      + destruct (dget keq t k); [|reflexivity]. destruct (keq k k') eqn:H1; [|reflexivity].
        exfalso. rewrite (eq_sym_b _ EK k k') in H1. rewrite (eq_trans_b _ EK k0 k' k H2 H1) in H0. discriminate.
      + reflexivity.
  Qed.

  Lemma dupd_same : forall (m : dict K A) k v, dget keq m k = Some v -> dupd keq m k v = m.
  Proof.
    induction m as [|[k0 v0] t IH]; intros k v H; cbn in *; [reflexivity|].
    destruct (keq k0 k); [inversion H; reflexivity|]. now rewrite IH.
  Qed.
End DictFacts.

Section ListFacts.
  Context {A : Type} (aeq : A -> A -> bool) (EA : equiv aeq).

  Fixpoint nodup_eq (l : list A) : Prop :=
    match l with [] => True | x :: t => memb aeq x t = false /\ nodup_eq t end.

  Lemma memb_congr : forall l a b, aeq a b = true -> memb aeq a l = memb aeq b l.
  Proof.
    induction l as [|y t IH]; intros a b H; cbn; [reflexivity|].
    rewrite (eq_trans_f2 aeq EA a b y H). destruct (aeq y b); auto.
  Qed.

  Lemma memb_app : forall l m a, memb aeq a (l ++ m) = memb aeq a l || memb aeq a m.
  Proof. induction l as [|y t IH]; intros; cbn; [reflexivity|]. destruct (aeq y a); auto. Qed.

  Lemma memb_In : forall l a, In a l -> memb aeq a l = true.
  Proof.
    induction l as [|y t IH]; intros a H; [contradiction|]. destruct H as [H|H]; cbn.
    - subst. now rewrite (eq_refl_b _ EA).
    - destruct (aeq y a); auto.
  Qed.

  Lemma memb_ex : forall l a, memb aeq a l = true -> exists b, In b l /\ aeq b a = true.
  Proof.
    induction l as [|y t IH]; intros a H; cbn in H; [discriminate|].
    destruct (aeq y a) eqn:E.
    - exists y. split; [left; reflexivity|exact E].
    - destruct (IH a H) as [b [Hb1 Hb2]]. exists b. split; [right; exact Hb1|exact Hb2].
  Qed.

  Lemma memb_remove_first : forall l v a, nodup_eq l ->
    memb aeq a (remove_first aeq v l) = memb aeq a l && negb (aeq v a).
  Proof.
    induction l as [|y t IH]; intros v a Hd0; cbn; [reflexivity|]. destruct Hd0 as [Hn Hd].
    destruct (aeq y v) eqn:Hyv.
    - rewrite (eq_trans_f aeq EA y v a Hyv).
      destruct (aeq v a) eqn:Hva; cbn.
      + rewrite <- (memb_congr t y a); [exact Hn|]. eapply eq_trans_b; eauto.
      + now rewrite andb_true_r.
    - cbn. destruct (aeq y a) eqn:Hya.
      + cbn. destruct (aeq v a) eqn:Hva; [|reflexivity].
        exfalso. rewrite (eq_sym_b _ EA v a) in Hva.
        rewrite (eq_trans_b _ EA y a v Hya Hva) in Hyv. discriminate.
      + apply IH. exact Hd.
  Qed.

  Lemma nodup_remove_first : forall l v, nodup_eq l -> nodup_eq (remove_first aeq v l).
  Proof.
    induction l as [|y t IH]; intros v Hd0; cbn; [exact I|]. destruct Hd0 as [Hn Hd].
    destruct (aeq y v); [exact Hd|]. cbn. split; [|apply IH; exact Hd].
    rewrite memb_remove_first by exact Hd. now rewrite Hn.
  Qed.

  Lemma nodup_app1 : forall l v, nodup_eq l -> memb aeq v l = false -> nodup_eq (l ++ [v]).
  Proof.
    induction l as [|y t IH]; intros v Hd Hm; cbn; [split; [reflexivity|exact I]|].
    destruct Hd as [Hn Hd]. cbn in Hm. destruct (aeq y v) eqn:Hyv; [discriminate|].
    split; [|apply IH; assumption].
    rewrite memb_app, Hn. cbn. rewrite (eq_sym_b _ EA v y), Hyv. reflexivity.
  Qed.
End ListFacts.

(* ------------------------------------------------------------------------------------------- *)
(* bins                                                                                        *)

Section BinFacts.
  Context {K A : Type}.
  Variables (keq : K -> K -> bool) (aeq : A -> A -> bool) (khash : K -> bool) (ahash : A -> bool).
  Variable kfmt : K -> bool.
  Hypothesis EK : equiv keq.
  Hypothesis EA : equiv aeq.
  Hypothesis HKH : forall a b, keq a b = true -> khash a = khash b.

  Notation D := (dict K (bin A)).
  Definition rel (m : D) (k : K) (a : A) : bool := memb aeq a (items_of keq m k).
  Definition cache_of (m : D) (k : K) : list (sortspec * list A) :=
    match dget keq m k with Some b => cache b | None => [] end.
  Definition has_key (m : D) (k : K) : bool := match dget keq m k with Some _ => true | None => false end.

  (* well-formed for kind kd: no repeated element in a bin, single-value bins hold exactly one,
     every key present is hashable *)
  Definition wf (kd : kind) (m : D) : Prop :=
    (forall k, nodup_eq aeq (items_of keq m k)) /\
    (is_single kd = true -> forall k b, dget keq m k = Some b -> exists s, items b = [s]) /\
    (forall k, has_key m k = true -> khash k = true).

  Lemma items_of_congr : forall (m : D) k k', keq k k' = true -> items_of keq m k = items_of keq m k'.
  Proof. intros. unfold items_of. now rewrite (dget_congr keq EK m k k'). Qed.

  Lemma rel_congr_k : forall (m : D) k k' a, keq k k' = true -> rel m k a = rel m k' a.
  Proof. intros. unfold rel. now rewrite (items_of_congr m k k'). Qed.

  Lemma rel_congr_a : forall (m : D) k a a', aeq a a' = true -> rel m k a = rel m k a'.
  Proof. intros. unfold rel. now apply memb_congr. Qed.

  Lemma items_dset : forall (m : D) k b k',
    items_of keq (dset keq m k b) k' = if keq k k' then items b else items_of keq m k'.
  Proof. intros. unfold items_of. rewrite (dget_dset keq EK). destruct (keq k k'); reflexivity. Qed.

  Lemma items_ddel : forall (m : D) k k',
    items_of keq (ddel keq m k) k' = if keq k k' then [] else items_of keq m k'.
  Proof. intros. unfold items_of. rewrite (dget_ddel keq EK). destruct (keq k k'); reflexivity. Qed.

  Lemma rel_true_has_key : forall (m : D) k a, rel m k a = true -> has_key m k = true.
  Proof.
    unfold rel, items_of, has_key. intros m k a H. destruct (dget keq m k); [reflexivity|discriminate].
  Qed.

  (* what add_item does to the relation; [stable] = items and cache of untouched keys stay *)
  Definition stable_or_cleared (m m' : D) : Prop :=
    forall k, (items_of keq m' k = items_of keq m k /\ cache_of m' k = cache_of m k) \/ cache_of m' k = [].

  Lemma soc_refl : forall m, stable_or_cleared m m.
  Proof. intros m k. left. split; reflexivity. Qed.

  Lemma soc_trans : forall m1 m2 m3, stable_or_cleared m1 m2 -> stable_or_cleared m2 m3 -> stable_or_cleared m1 m3.
  Proof.
    intros m1 m2 m3 H1 H2 k. destruct (H2 k) as [[Ha Hb]|Hc]; [|right; exact Hc].
    destruct (H1 k) as [[Hc Hd]|He].
    - left. split; congruence.
    - right. congruence.
  Qed.

  Lemma soc_dset_one : forall (m : D) k v, stable_or_cleared m (dset keq m k (mkBin v [])).
  Proof.
    intros m k v k'. unfold cache_of, items_of. rewrite (dget_dset keq EK).
    destruct (keq k k'); [right; reflexivity|left; split; reflexivity].
  Qed.

  Lemma soc_ddel : forall (m : D) k, stable_or_cleared m (ddel keq m k).
  Proof.
    intros m k k'. unfold cache_of, items_of. rewrite (dget_ddel keq EK).
    destruct (keq k k'); [right; reflexivity|left; split; reflexivity].
  Qed.

  (* storing a bin under a key *)
  Lemma set_bin_facts : forall kd (m : D) key (b1 : bin A),
    wf kd m -> khash key = true -> nodup_eq aeq (items b1) ->
    (is_single kd = true -> exists s, items b1 = [s]) ->
    let m1 := dset keq m key b1 in
    wf kd m1 /\
    (forall k a, rel m1 k a = if keq key k then memb aeq a (items b1) else rel m k a) /\
    (forall k, has_key m1 k = keq key k || has_key m k).
  Proof.
    intros kd m key b1 [Wn [Ws Wh]] Hk Hn Hs m1. unfold m1. split; [split; [|split]|split].
    - intros k. rewrite items_dset. destruct (keq key k); [exact Hn|apply Wn].
    - intros Hsg k b Hb. rewrite (dget_dset keq EK) in Hb. destruct (keq key k).
      + inversion Hb; subst. auto.
      + eapply Ws; eauto.
    - intros k Hb. unfold has_key in Hb. rewrite (dget_dset keq EK) in Hb.
      destruct (keq key k) eqn:E.
      + rewrite <- (HKH key k E). exact Hk.
      + apply Wh. exact Hb.
    - intros k a. unfold rel. rewrite items_dset. destruct (keq key k); reflexivity.
    - intros k. unfold has_key. rewrite (dget_dset keq EK). destruct (keq key k); reflexivity.
  Qed.

  Lemma upd_bin_facts : forall kd (m : D) key (b0 b1 : bin A),
    wf kd m -> dget keq m key = Some b0 -> nodup_eq aeq (items b1) ->
    (is_single kd = true -> exists s, items b1 = [s]) ->
    let m1 := dupd keq m key b1 in
    wf kd m1 /\
    (forall k a, rel m1 k a = if keq key k then memb aeq a (items b1) else rel m k a) /\
    (forall k, has_key m1 k = has_key m k).
  Proof.
    intros kd m key b0 b1 [Wn [Ws Wh]] G Hn Hs m1. unfold m1.
    assert (Hg : forall k, dget keq (dupd keq m key b1) k = if keq key k then Some b1 else dget keq m k).
    { intros k. rewrite (dget_dupd keq EK), G. reflexivity. }
    split; [split; [|split]|split].
    - intros k. unfold items_of. rewrite Hg. destruct (keq key k); [exact Hn|apply Wn].
    - intros Hsg k b Hb. rewrite Hg in Hb. destruct (keq key k).
      + inversion Hb; subst. auto.
      + eapply Ws; eauto.
    - intros k Hb. unfold has_key in *. rewrite Hg in Hb. destruct (keq key k) eqn:E.
      + apply Wh. unfold has_key. rewrite <- (dget_congr keq EK m key k E), G. reflexivity.
      + apply Wh. exact Hb.
    - intros k a. unfold rel, items_of. rewrite Hg. destruct (keq key k); reflexivity.
    - intros k. unfold has_key. rewrite Hg. destruct (keq key k) eqn:E; [|reflexivity].
      rewrite <- (dget_congr keq EK m key k E), G. reflexivity.
  Qed.

  Lemma soc_dupd_one : forall (m : D) k v, stable_or_cleared m (dupd keq m k (mkBin v [])).
  Proof.
    intros m k v k'. unfold cache_of, items_of. rewrite (dget_dupd keq EK).
    destruct (dget keq m k); [|left; split; reflexivity].
    destruct (keq k k'); [right; reflexivity|left; split; reflexivity].
  Qed.

  Lemma del_facts : forall kd (m : D) key,
    wf kd m ->
    let m1 := ddel keq m key in
    wf kd m1 /\
    (forall k a, rel m1 k a = if keq key k then false else rel m k a) /\
    (forall k, has_key m1 k = negb (keq key k) && has_key m k).
  Proof.
    intros kd m key [Wn [Ws Wh]] m1. unfold m1. split; [split; [|split]|split].
    - intros k. rewrite items_ddel. destruct (keq key k); [exact I|apply Wn].
    - intros Hsg k b Hb. rewrite (dget_ddel keq EK) in Hb. destruct (keq key k); [discriminate|].
      eapply Ws; eauto.
    - intros k Hb. unfold has_key in Hb. rewrite (dget_ddel keq EK) in Hb.
      destruct (keq key k); [discriminate|]. apply Wh. exact Hb.
    - intros k a. unfold rel. rewrite items_ddel. destruct (keq key k); reflexivity.
    - intros k. unfold has_key. rewrite (dget_ddel keq EK). destruct (keq key k); reflexivity.
  Qed.

  Definition add_post (kd : kind) (m : D) (key : K) (value : A) (m' : D) (rem add : option A) : Prop :=
    wf kd m' /\
    (forall k a, rel m' k a =
       if keq key k then (aeq value a || (negb (is_single kd) && rel m key a)) else rel m k a) /\
    (forall k, has_key m' k = keq key k || has_key m k) /\
    khash key = true /\
    (hashes_values kd = true -> ahash value = true) /\
    (forall s, rem = Some s -> is_single kd = true /\ aeq s value = false /\ forall a, rel m key a = aeq s a) /\
    (rem = None -> is_single kd = true -> forall s, rel m key s = true -> aeq s value = true) /\
    (forall a, add = Some a -> a = value) /\
    (add = None -> rem = None /\ rel m key value = true) /\
    (add <> None -> rem = None -> rel m key value = false) /\
    stable_or_cleared m m'.

  Lemma rel_of_dget_some : forall (m : D) key b a, dget keq m key = Some b -> rel m key a = memb aeq a (items b).
  Proof. intros. unfold rel, items_of. now rewrite H. Qed.
  Lemma rel_of_dget_none : forall (m : D) key a, dget keq m key = None -> rel m key a = false.
  Proof. intros. unfold rel, items_of. now rewrite H. Qed.

  Lemma set_one_facts : forall kd (m : D) key value,
    wf kd m -> khash key = true -> (is_single kd = true \/ dget keq m key = None) ->
    let m1 := dset keq m key (one value) in
    wf kd m1 /\
    (forall k a, rel m1 k a =
       if keq key k then (aeq value a || (negb (is_single kd) && rel m key a)) else rel m k a) /\
    (forall k, has_key m1 k = keq key k || has_key m k) /\
    stable_or_cleared m m1.
  Proof.
    intros kd m key value W Hk Hor m1.
    destruct (set_bin_facts kd m key (one value) W Hk) as [F1 [F2 F3]]; cbn; auto.
    { intros _. eauto. }
    split; [exact F1|split; [|split; [exact F3|apply soc_dset_one]]].
    intros k a. unfold m1. rewrite F2. destruct (keq key k); [|reflexivity]. cbn.
    destruct Hor as [Hs|Hn].
    - rewrite Hs. cbn. destruct (aeq value a); reflexivity.
    - rewrite (rel_of_dget_none m key a Hn), andb_false_r. destruct (aeq value a); reflexivity.
  Qed.

  Ltac post_split F1 F2 F3 F4 Hk := unfold add_post;
    refine (conj F1 (conj F2 (conj F3 (conj Hk (conj _ (conj _ (conj _ (conj _ (conj _ (conj _ F4)))))))))).

  Lemma add_item_spec : forall kd (m : D) key value m' rem add,
    wf kd m ->
    add_item keq aeq khash ahash kfmt kd m key value = AOk m' rem add ->
    add_post kd m key value m' rem add.
  Proof.
    intros kd m key value m' rem add W H. unfold add_item in H.
    destruct (khash key) eqn:Hk; cbn [negb] in H; [|discriminate].
    pose proof W as [Wn [Ws Wh]].
    destruct (is_single kd) eqn:Hsg.
    - (* single-value bins *)
      assert (Hcase : (exists s ca, dget keq m key = Some (mkBin [s] ca)) \/ dget keq m key = None).
      { destruct (dget keq m key) as [b|] eqn:Hg; [left|right; reflexivity].
        destruct (Ws eq_refl key b Hg) as [s Hs]. destruct b as [it ca]. cbn in Hs. subst it. eauto. }
      destruct Hcase as [[s [ca Hg]]|Hg].
      + assert (Hrel : forall a, rel m key a = aeq s a).
        { intros a. rewrite (rel_of_dget_some m key _ a Hg). cbn. destruct (aeq s a); reflexivity. }
        rewrite Hg in H.
        destruct (aeq s value) eqn:Hsv.
        * (* same value again *)
          assert (Hm' : rem = None /\ add = None /\ (m' = dset keq m key (one value) \/ m' = m)).
          { destruct kd; try discriminate; inversion H; auto. }
          destruct Hm' as [-> [-> Hm']].
          assert (Hfacts : wf kd m' /\
            (forall k a, rel m' k a = if keq key k then (aeq value a || (negb (is_single kd) && rel m key a)) else rel m k a) /\
            (forall k, has_key m' k = keq key k || has_key m k) /\ stable_or_cleared m m').
          { destruct Hm' as [->| ->].
            - apply set_one_facts; auto.
            - split; [exact W|split; [|split; [|apply soc_refl]]].
              + intros k a. destruct (keq key k) eqn:E; [|reflexivity]. rewrite Hsg. cbn.
                rewrite orb_false_r, <- (rel_congr_k m key k a E), Hrel. apply eq_trans_f; auto.
              + intros k. destruct (keq key k) eqn:E; [|reflexivity]. cbn.
                unfold has_key. rewrite <- (dget_congr keq EK m key k E), Hg. reflexivity. }
          destruct Hfacts as [F1 [F2 [F3 F4]]].
          post_split F1 F2 F3 F4 Hk; auto; try discriminate; try (intros; congruence).
          -- destruct kd; cbn in *; congruence.
          -- intros _ _ s' Hs'. rewrite Hrel in Hs'. rewrite <- Hsv. symmetry. apply eq_trans_f; auto.
          -- intros _. split; [reflexivity|]. now rewrite Hrel.
        * (* another value: KStrict raises, KSingle overwrites *)
          destruct kd; try discriminate. inversion H; subst; clear H.
          destruct (set_one_facts KSingle m key value W Hk (or_introl eq_refl)) as [F1 [F2 [F3 F4]]].
          post_split F1 F2 F3 F4 Hk; auto; try discriminate; try (intros; congruence).
          -- intros s' Hs'. inversion Hs'; subst. auto.
      + (* key absent *)
        rewrite Hg in H.
        assert (Hm' : rem = None /\ add = Some value /\ m' = dset keq m key (one value)).
        { destruct kd; try discriminate; inversion H; auto. }
        destruct Hm' as [-> [-> ->]].
        destruct (set_one_facts kd m key value W Hk (or_intror Hg)) as [F1 [F2 [F3 F4]]].
        post_split F1 F2 F3 F4 Hk; auto; try discriminate; try (intros; congruence).
        * destruct kd; cbn in *; congruence.
        * intros _ _ s Hs. rewrite (rel_of_dget_none m key s Hg) in Hs. discriminate.
        * intros _ _. apply (rel_of_dget_none m key value Hg).
    - (* containers *)
      assert (Hc : (if hashes_values kd && negb (ahash value) then ARaise TypeErr
                    else match dget keq m key with
                         | None => AOk (dset keq m key (one value)) None (Some value)
                         | Some b => if memb aeq value (items b) then AOk m None None
                                     else AOk (dupd keq m key (mkBin (items b ++ [value]) [])) None (Some value)
                         end) = AOk m' rem add).
      { destruct kd; try discriminate; exact H. }
      clear H.
      destruct (hashes_values kd && negb (ahash value)) eqn:Hh; [discriminate|].
      assert (Hah : hashes_values kd = true -> ahash value = true).
      { intros E. rewrite E in Hh. cbn in Hh. now destruct (ahash value). }
      destruct (dget keq m key) as [b|] eqn:Hg.
      + destruct (memb aeq value (items b)) eqn:Hmem; inversion Hc; subst; clear Hc.
        * assert (F1 : wf kd m') by exact W.
          assert (F2 : forall k a, rel m' k a =
             if keq key k then (aeq value a || (negb (is_single kd) && rel m' key a)) else rel m' k a).
          { intros k a. destruct (keq key k) eqn:E; [|reflexivity]. rewrite Hsg. cbn.
            rewrite <- (rel_congr_k m' key k a E).
            destruct (aeq value a) eqn:Eva; [|reflexivity]. cbn.
            rewrite <- (rel_congr_a m' key value a Eva). rewrite (rel_of_dget_some m' key b value Hg). exact Hmem. }
          assert (F3 : forall k, has_key m' k = keq key k || has_key m' k).
          { intros k. destruct (keq key k) eqn:E; [|reflexivity]. cbn.
            unfold has_key. rewrite <- (dget_congr keq EK m' key k E), Hg. reflexivity. }
          assert (F4 := soc_refl m').
          post_split F1 F2 F3 F4 Hk; auto; try discriminate; try (intros; congruence).
          -- intros _. split; [reflexivity|]. rewrite (rel_of_dget_some m' key b value Hg). exact Hmem.
        * assert (Hnd : nodup_eq aeq (items b ++ [value])).
          { apply nodup_app1; auto. specialize (Wn key). unfold items_of in Wn. now rewrite Hg in Wn. }
          destruct (upd_bin_facts kd m key b (mkBin (items b ++ [value]) []) W Hg Hnd) as [F1 [F2 F3a]].
          { rewrite Hsg. discriminate. }
          assert (F3 : forall k, has_key (dupd keq m key (mkBin (items b ++ [value]) [])) k = keq key k || has_key m k).
          { intros k. rewrite F3a. destruct (keq key k) eqn:E; [|reflexivity]. cbn.
            unfold has_key. rewrite <- (dget_congr keq EK m key k E), Hg. reflexivity. }
          assert (F2' : forall k a, rel (dupd keq m key (mkBin (items b ++ [value]) [])) k a =
             if keq key k then (aeq value a || (negb (is_single kd) && rel m key a)) else rel m k a).
          { intros k a. rewrite F2. destruct (keq key k); [|reflexivity]. cbn [items].
            rewrite (memb_app aeq), Hsg, (rel_of_dget_some m key b a Hg). cbn.
            destruct (aeq value a); cbn; [now rewrite orb_true_r|now rewrite orb_false_r]. }
          assert (F4 := soc_dupd_one m key (items b ++ [value])).
          post_split F1 F2' F3 F4 Hk; auto; try discriminate; try (intros; congruence).
          -- intros _ _. rewrite (rel_of_dget_some m key b value Hg). exact Hmem.
      + inversion Hc; subst; clear Hc.
        destruct (set_one_facts kd m key value W Hk (or_intror Hg)) as [F1 [F2 [F3 F4]]].
        post_split F1 F2 F3 F4 Hk; auto; try discriminate; try (intros; congruence).
        * intros _ _. apply (rel_of_dget_none m key value Hg).
  Qed.
  Lemma add_item_raise : forall kd (m : D) key value e,
    add_item keq aeq khash ahash kfmt kd m key value = ARaise e ->
    khash key = false \/ (hashes_values kd = true /\ ahash value = false) \/
    (kd = KStrict /\ exists s, rel m key s = true /\ aeq s value = false).
  Proof.
    intros kd m key value e H. unfold add_item in H.
    destruct (khash key); cbn [negb] in H; [|left; reflexivity]. right.
    destruct kd; cbn [hashes_values andb] in H.
    - destruct (dget keq m key) as [[[|s it] ca]|]; try discriminate. destruct (aeq s value); discriminate.
    - right. split; [reflexivity|].
      destruct (dget keq m key) as [[[|s it] ca]|] eqn:Hg; try discriminate.
      destruct (aeq s value) eqn:E; [discriminate|]. exists s. split; [|exact E].
      rewrite (rel_of_dget_some m key _ s Hg). cbn. now rewrite (eq_refl_b _ EA).
    - left. destruct (ahash value); cbn in H; [|auto].
      destruct (dget keq m key) as [b|]; [destruct (memb aeq value (items b))|]; discriminate.
    - cbn in H. destruct (dget keq m key) as [b|]; [destruct (memb aeq value (items b))|]; discriminate.
    - left. destruct (ahash value); cbn in H; [|auto].
      destruct (dget keq m key) as [b|]; [destruct (memb aeq value (items b))|]; discriminate.
  Qed.

  Lemma remove_item_spec : forall kd (m : D) key value m',
    wf kd m ->
    remove_item keq aeq khash ahash kd m key value = Some m' ->
    wf kd m' /\
    (forall k a, rel m' k a = rel m k a && negb (keq key k && aeq value a)) /\
    khash key = true /\ stable_or_cleared m m'.
  Proof.
    intros kd m key value m' W H. unfold remove_item in H.
    destruct (khash key) eqn:Hk; cbn [negb] in H; [|discriminate].
    pose proof W as [Wn [Ws Wh]].
    assert (Hsame : m' = m -> rel m key value = false ->
              wf kd m' /\ (forall k a, rel m' k a = rel m k a && negb (keq key k && aeq value a)) /\
              true = true /\ stable_or_cleared m m').
    { intros -> Hf. split; [exact W|split; [|split; [reflexivity|apply soc_refl]]].
      intros k a. destruct (keq key k) eqn:E; cbn; [|now rewrite andb_true_r].
      destruct (aeq value a) eqn:E2; cbn; [|now rewrite andb_true_r].
      rewrite andb_false_r, <- (rel_congr_k m key k a E), <- (rel_congr_a m key value a E2). exact Hf. }
    destruct (dget keq m key) as [b|] eqn:Hg.
    2:{ inversion H; subst. apply Hsame; auto. apply rel_of_dget_none. exact Hg. }
    destruct (is_single kd) eqn:Hsg.
    - destruct (Ws eq_refl key b Hg) as [s Hs]. destruct b as [it ca]. cbn in Hs. subst it. cbn in H.
      assert (Hrel : forall a, rel m key a = aeq s a).
      { intros a. rewrite (rel_of_dget_some m key _ a Hg). cbn. destruct (aeq s a); reflexivity. }
      destruct (aeq s value) eqn:Hsv; inversion H; subst; clear H.
      + destruct (del_facts kd m key W) as [F1 [F2 F3]].
        split; [exact F1|split; [|split; [reflexivity|apply soc_ddel]]].
        intros k a. rewrite F2. destruct (keq key k) eqn:E; cbn; [|now rewrite andb_true_r].
        rewrite <- (rel_congr_k m key k a E), Hrel, (eq_trans_f aeq EA s value a Hsv).
        now destruct (aeq value a).
      + apply Hsame; auto. rewrite Hrel. exact Hsv.
    - destruct (hashes_values kd && negb (ahash value)); [discriminate|].
      assert (Hnd : nodup_eq aeq (items b)).
      { specialize (Wn key). unfold items_of in Wn. now rewrite Hg in Wn. }
      destruct (memb aeq value (items b)) eqn:Hmem.
      + destruct (remove_first aeq value (items b)) as [|x it] eqn:Hrf.
        * inversion H; subst; clear H. destruct (del_facts kd m key W) as [F1 [F2 F3]].
          split; [exact F1|split; [|split; [reflexivity|apply soc_ddel]]].
          intros k a. rewrite F2. destruct (keq key k) eqn:E; cbn; [|now rewrite andb_true_r].
          rewrite <- (rel_congr_k m key k a E), (rel_of_dget_some m key b a Hg).
          pose proof (memb_remove_first aeq EA (items b) value a Hnd) as Hr. rewrite Hrf in Hr. cbn in Hr.
          now rewrite <- Hr.
        * inversion H; subst; clear H.
          assert (Hnd2 : nodup_eq aeq (items (mkBin (x :: it) (@nil (sortspec * list A))))).
          { cbn [items]. rewrite <- Hrf. apply nodup_remove_first; auto. }
          destruct (upd_bin_facts kd m key b (mkBin (x :: it) []) W Hg Hnd2) as [F1 [F2 F3]].
          { rewrite Hsg. discriminate. }
          split; [exact F1|split; [|split; [reflexivity|apply soc_dupd_one]]].
          intros k a. rewrite F2. destruct (keq key k) eqn:E; cbn [items andb]; [|now rewrite andb_true_r].
          rewrite <- (rel_congr_k m key k a E), (rel_of_dget_some m key b a Hg), <- Hrf.
          apply memb_remove_first; auto.
      + destruct (items b) as [|y its] eqn:Hit.
        * (* an empty container is deleted *)
          inversion H; subst; clear H. destruct (del_facts kd m key W) as [F1 [F2 F3]].
          split; [exact F1|split; [|split; [reflexivity|apply soc_ddel]]].
          intros k a. rewrite F2. destruct (keq key k) eqn:E; cbn; [|now rewrite andb_true_r].
          rewrite <- (rel_congr_k m key k a E), (rel_of_dget_some m key b a Hg), Hit. reflexivity.
        * inversion H; subst. apply Hsame; auto. erewrite rel_of_dget_some by exact Hg. rewrite Hit. exact Hmem.
  Qed.

  Lemma remove_item_raise : forall kd (m : D) key value,
    remove_item keq aeq khash ahash kd m key value = None ->
    khash key = false \/ (hashes_values kd = true /\ ahash value = false).
  Proof.
    intros kd m key value H. unfold remove_item in H.
    destruct (khash key); cbn [negb] in H; [|left; reflexivity]. right.
    destruct (dget keq m key) as [b|]; [|discriminate].
    destruct (is_single kd).
    - destruct (items b); [discriminate|]. destruct (aeq a value); discriminate.
    - destruct (hashes_values kd); cbn in H.
      + destruct (ahash value); cbn in H; [|auto].
        destruct (if memb aeq value (items b) then remove_first aeq value (items b) else items b); discriminate.
      + destruct (if memb aeq value (items b) then remove_first aeq value (items b) else items b); discriminate.
  Qed.

  Lemma remove_key_spec : forall kd (m : D) key m' removed,
    wf kd m ->
    remove_key keq khash kd m key = Some (m', removed) ->
    wf kd m' /\
    (forall k a, rel m' k a = rel m k a && negb (keq key k)) /\
    removed = items_of keq m key /\ stable_or_cleared m m'.
  Proof.
    intros kd m key m' removed W H. unfold remove_key in H.
    destruct m as [|p m0] eqn:Hm.
    - inversion H; subst. split; [exact W|split; [|split; [reflexivity|apply soc_refl]]].
      intros k a. reflexivity.
    - rewrite <- Hm in *. clear Hm.
      assert (H' : (if negb (khash key) then None else
                     match dget keq m key with
                     | None => Some (m, [])
                     | Some b => Some (ddel keq m key,
                                       if is_single kd then match items b with s :: _ => [s] | [] => [] end else items b)
                     end) = Some (m', removed)).
      { exact H. }
      clear H. destruct (khash key); cbn [negb] in H'; [|discriminate].
      destruct (dget keq m key) as [b|] eqn:Hg; inversion H'; subst; clear H'.
      + destruct (del_facts kd m key W) as [F1 [F2 F3]].
        split; [exact F1|split; [|split; [|apply soc_ddel]]].
        * intros k a. rewrite F2. destruct (keq key k); cbn; [now rewrite andb_false_r|now rewrite andb_true_r].
        * unfold items_of. rewrite Hg. destruct (is_single kd) eqn:Hs; [|reflexivity].
          destruct W as [_ [Ws _]]. destruct (Ws Hs key b Hg) as [s0 E]. now rewrite E.
      + split; [exact W|split; [|split; [|apply soc_refl]]].
        * intros k a. destruct (keq key k) eqn:E; cbn; [|now rewrite andb_true_r].
          rewrite andb_false_r, <- (rel_congr_k m' key k a E). apply (rel_of_dget_none m' key a Hg).
        * unfold items_of. now rewrite Hg.
  Qed.
End BinFacts.

(* ------------------------------------------------------------------------------------------- *)
(* TwoWayMap                                                                                   *)

Section TwoWayFacts.
  Context {L R : Type}.
  Variables (leq : L -> L -> bool) (req : R -> R -> bool) (lhash : L -> bool) (rhash : R -> bool).
  Variables (lfmt : L -> bool) (rfmt : R -> bool).
  Variables (lk rk : kind).
  Hypothesis EL : equiv leq.
  Hypothesis ER : equiv req.
  Hypothesis HLH : forall a b, leq a b = true -> lhash a = lhash b.
  Hypothesis HRH : forall a b, req a b = true -> rhash a = rhash b.

  Notation T := (twm L R).
  Definition fr (t : T) (l : L) (r : R) : bool := rel leq req (fwd t) l r.
  Definition br (t : T) (r : R) (l : L) : bool := rel req leq (bwd t) r l.

  (* forward and backward maps are mutually inverse (and both dictionaries well formed) *)
  Definition tw_inv (t : T) : Prop :=
    wf leq req lhash rk (fwd t) /\ wf req leq rhash lk (bwd t) /\ forall l r, fr t l r = br t r l.

  Lemma tw_inv_empty : tw_inv (mkTwm [] []).
  Proof.
    split; [|split]; try (split; [|split]); cbn; intros; try exact I; try discriminate; reflexivity.
  Qed.

  Lemma fr_hash : forall t l r, tw_inv t -> fr t l r = true -> lhash l = true /\ rhash r = true.
  Proof.
    intros t l r [[_ [_ Wf]] [[_ [_ Wb]] C]] H. split.
    - apply Wf. eapply rel_true_has_key. exact H.
    - apply Wb. rewrite C in H. eapply rel_true_has_key. exact H.
  Qed.

  Lemma rm_fwd_ok : forall m l r, wf leq req lhash rk m -> lhash l = true ->
    (hashes_values rk = true -> rhash r = true) ->
    exists m', rm_fwd leq req lhash rhash rk m l r = (m', true) /\
      wf leq req lhash rk m' /\
      (forall k a, rel leq req m' k a = rel leq req m k a && negb (leq l k && req r a)) /\
      stable_or_cleared leq m m'.
  Proof.
    intros m l r W Hl Hr. unfold rm_fwd.
    destruct (remove_item leq req lhash rhash rk m l r) as [m'|] eqn:E.
    - destruct (remove_item_spec leq req lhash rhash EL ER rk m l r m' W E) as [F1 [F2 [F3 F4]]].
      exists m'. auto.
    - apply remove_item_raise in E. destruct E as [E|[E1 E]]; [congruence|]. rewrite (Hr E1) in E. discriminate.
  Qed.

  Lemma rm_bwd_ok : forall m r l, wf req leq rhash lk m -> (hashes_values lk = true -> lhash l = true) ->
    rhash r = true ->
    exists m', rm_bwd leq req lhash rhash lk m r l = (m', true) /\
      wf req leq rhash lk m' /\
      (forall k a, rel req leq m' k a = rel req leq m k a && negb (req r k && leq l a)) /\
      stable_or_cleared req m m'.
  Proof.
    intros m r l W Hl Hr. unfold rm_bwd.
    destruct (remove_item req leq rhash lhash lk m r l) as [m'|] eqn:E.
    - destruct (remove_item_spec req leq rhash lhash ER EL lk m r l m' W E) as [F1 [F2 [F3 F4]]].
      exists m'. auto.
    - apply remove_item_raise in E. destruct E as [E|[E1 E]]; [congruence|]. rewrite (Hl E1) in E. discriminate.
  Qed.
  Lemma rm_fwd_some : forall m l r m', rm_fwd leq req lhash rhash rk m l r = (m', true) ->
    remove_item leq req lhash rhash rk m l r = Some m'.
  Proof.
    intros m l r m' H. unfold rm_fwd in H. destruct (remove_item leq req lhash rhash rk m l r); inversion H; reflexivity.
  Qed.

  (* the except-branch of insert restores the forward relation and re-raises the same exception *)
  Lemma insert_rollback : forall t left right fwd1 rrem radd e,
    wf leq req lhash rk (fwd t) ->
    add_post leq req lhash rhash rk (fwd t) left right fwd1 rrem radd ->
    exists fwd3, tw_rollback leq req lhash rhash lfmt rk t fwd1 left rrem radd e = (mkTwm fwd3 (bwd t), Raise e) /\
      wf leq req lhash rk fwd3 /\ (forall k a, rel leq req fwd3 k a = rel leq req (fwd t) k a) /\
      stable_or_cleared leq (fwd t) fwd3.
  Proof.
    intros t left right fwd1 rrem radd e W [W1 [R1 [K1 [Hl [Hhv [Rm1 [Rn1 [Ad1 [An1 [Ann1 S1]]]]]]]]]].
    set (m := fwd t) in *. unfold tw_rollback.
    assert (Hcong : forall k a, leq left k = true -> rel leq req m left a = rel leq req m k a).
    { intros k a E. apply rel_congr_k; auto. }
    destruct radd as [a0|].
    - pose proof (Ad1 a0 eq_refl) as Ha0. subst a0.
      destruct (rm_fwd_ok fwd1 left right W1 Hl Hhv) as [m2 [E2 [W2 [R2 S2]]]].
      rewrite (rm_fwd_some fwd1 left right m2 E2).
      destruct rrem as [s|].
      + destruct (Rm1 s eq_refl) as [Hsrk [Hsv Hsrel]].
        assert (R2' : forall k a, rel leq req m2 k a = if leq left k then false else rel leq req m k a).
        { intros k a. rewrite R2, R1. destruct (leq left k) eqn:E; cbn; [|now rewrite andb_true_r].
          rewrite Hsrk. cbn. rewrite orb_false_r. now destruct (req right a). }
        destruct (add_item leq req lhash rhash lfmt rk m2 left s) as [m3 rem3 add3|e3] eqn:E3.
        * destruct (add_item_spec leq req lhash rhash lfmt EL ER HLH rk m2 left s m3 rem3 add3 W2 E3)
            as [W3 [R3 [_ [_ [_ [_ [_ [_ [_ [_ S3]]]]]]]]]].
          exists m3. split; [reflexivity|split; [exact W3|split]].
          -- intros k a. rewrite R3. destruct (leq left k) eqn:E.
             ++ rewrite R2', (eq_refl_b _ EL), andb_false_r, orb_false_r.
                rewrite <- (Hcong k a E). symmetry. apply Hsrel.
             ++ rewrite R2', E. reflexivity.
          -- eapply soc_trans; [exact S1|]. eapply soc_trans; [exact S2|exact S3].
        * exfalso. apply add_item_raise in E3; auto. destruct E3 as [E3|[[E3 _]|[_ [s' [E3 _]]]]].
          -- congruence.
          -- destruct rk; discriminate.
          -- rewrite R2', (eq_refl_b _ EL) in E3. discriminate.
      + exists m2. split; [reflexivity|split; [exact W2|split]].
        * intros k a. rewrite R2, R1. destruct (leq left k) eqn:E; cbn; [|now rewrite andb_true_r].
          assert (Hnv : rel leq req m left right = false) by (apply Ann1; [discriminate|reflexivity]).
          rewrite <- (Hcong k a E).
          destruct (req right a) eqn:Era; cbn.
          -- rewrite <- (rel_congr_a leq req ER m left right a Era). now rewrite Hnv.
          -- rewrite andb_true_r. destruct (is_single rk) eqn:Hs; cbn; [|reflexivity].
             destruct (rel leq req m left a) eqn:Hra; [|reflexivity].
             rewrite (eq_sym_b _ ER), (Rn1 eq_refl eq_refl a Hra) in Era. discriminate.
        * eapply soc_trans; [exact S1|exact S2].
    - destruct (An1 eq_refl) as [-> Hv]. exists fwd1. split; [reflexivity|split; [exact W1|split; [|exact S1]]].
      intros k a. rewrite R1. destruct (leq left k) eqn:E; [|reflexivity].
      rewrite <- (Hcong k a E).
      destruct (req right a) eqn:Era; cbn.
      + rewrite <- (rel_congr_a leq req ER m left right a Era). now rewrite Hv.
      + destruct (is_single rk) eqn:Hs; cbn; [|reflexivity].
        destruct (rel leq req m left a) eqn:Hra; [|reflexivity].
        rewrite (eq_sym_b _ ER), (Rn1 eq_refl eq_refl a Hra) in Era. discriminate.
  Qed.

  Definition ins_rel (t : T) (left : L) (right : R) (l : L) (r : R) : bool :=
    (if leq left l then (req right r || (negb (is_single rk) && fr t left r)) else fr t l r)
    && negb (is_single lk && req right r && negb (leq left l)).

  Lemma tw_insert_spec : forall t left right t' o, tw_inv t ->
    tw_insert leq req lhash rhash lfmt rfmt lk rk t left right = (t', o) ->
    tw_inv t' /\ stable_or_cleared leq (fwd t) (fwd t') /\ stable_or_cleared req (bwd t) (bwd t') /\
    (o = Done -> lhash left = true /\ rhash right = true /\ forall l r, fr t' l r = ins_rel t left right l r) /\
    (o <> Done -> forall l r, fr t' l r = fr t l r) /\
    (forall e, o = Raise e -> lhash left = false \/ rhash right = false \/ rk = KStrict \/ lk = KStrict).
  Proof.
    intros t left right t' o [Wf [Wb C]] H. unfold tw_insert in H.
    destruct (add_item leq req lhash rhash lfmt rk (fwd t) left right) as [fwd1 rrem radd|e1] eqn:E1.
    2:{ inversion H; subst; clear H. split; [split; auto|]. split; [apply soc_refl|split; [apply soc_refl|]].
        split; [discriminate|split; [reflexivity|]]. intros e He. inversion He; subst.
        apply add_item_raise in E1; auto. destruct E1 as [E1|[[_ E1]|[E1 _]]]; auto. }
    pose proof (add_item_spec leq req lhash rhash lfmt EL ER HLH rk (fwd t) left right fwd1 rrem radd Wf E1) as A1.
    destruct (add_item req leq rhash lhash rfmt lk (bwd t) right left) as [bwd1 lrem ladd|e2] eqn:E2.
    - pose proof (add_item_spec req leq rhash lhash rfmt ER EL HRH lk (bwd t) right left bwd1 lrem ladd Wb E2) as A2.
      destruct A1 as [W1 [R1 [K1 [Hl [Hhv [Rm1 [Rn1 [Ad1 [An1 [Ann1 S1]]]]]]]]]].
      destruct A2 as [W2 [R2 [K2 [Hr [Hhv2 [Rm2 [Rn2 [Ad2 [An2 [Ann2 S2]]]]]]]]]].
      (* second halves of the two overwritten pairs are removed *)
      assert (B2 : exists bwd2,
        match rrem with Some a => rm_bwd leq req lhash rhash lk bwd1 a left | None => (bwd1, true) end = (bwd2, true) /\
        wf req leq rhash lk bwd2 /\ stable_or_cleared req bwd1 bwd2 /\
        forall k a, rel req leq bwd2 k a = rel req leq bwd1 k a &&
                     negb (match rrem with Some s => req s k && leq left a | None => false end)).
      { destruct rrem as [s|].
        - destruct (Rm1 s eq_refl) as [_ [_ Hsrel]].
          assert (Hs : rhash s = true).
          { apply (fr_hash t left s); [split; auto|]. unfold fr. rewrite Hsrel. apply (eq_refl_b _ ER). }
          destruct (rm_bwd_ok bwd1 s left W2 (fun _ => Hl) Hs) as [m2 [Ea [Wa [Ra Sa]]]].
          exists m2. auto.
        - exists bwd1. split; [reflexivity|split; [exact W2|split; [apply soc_refl|]]].
          intros k a. now rewrite andb_true_r. }
      destruct B2 as [bwd2 [EB [WB [SB RB]]]]. rewrite EB in H. cbn [negb] in H.
      assert (F2 : exists fwd2,
        match lrem with Some a => rm_fwd leq req lhash rhash rk fwd1 a right | None => (fwd1, true) end = (fwd2, true) /\
        wf leq req lhash rk fwd2 /\ stable_or_cleared leq fwd1 fwd2 /\
        forall k a, rel leq req fwd2 k a = rel leq req fwd1 k a &&
                     negb (match lrem with Some s => leq s k && req right a | None => false end)).
      { destruct lrem as [s|].
        - destruct (Rm2 s eq_refl) as [_ [_ Hsrel]].
          assert (Hs : lhash s = true).
          { apply (fr_hash t s right); [split; auto|]. rewrite C. unfold br. rewrite Hsrel. apply (eq_refl_b _ EL). }
          destruct (rm_fwd_ok fwd1 s right W1 Hs (fun _ => Hr)) as [m2 [Ea [Wa [Ra Sa]]]].
          exists m2. auto.
        - exists fwd1. split; [reflexivity|split; [exact W1|split; [apply soc_refl|]]].
          intros k a. now rewrite andb_true_r. }
      destruct F2 as [fwd2 [EF [WF [SF RF]]]]. rewrite EF in H. inversion H; subst; clear H.
      (* the forward relation after the insert *)
      assert (HF : forall l r, fr (mkTwm fwd2 bwd2) l r = ins_rel t left right l r).
      { intros l r. unfold fr, ins_rel. cbn [fwd]. rewrite RF, R1. fold (fr t left r). fold (fr t l r).
        destruct (leq left l) eqn:El.
        - cbn [negb]. rewrite andb_false_r. cbn [negb]. rewrite andb_true_r.
          destruct lrem as [s|]; [|now rewrite andb_true_r].
          destruct (Rm2 s eq_refl) as [_ [Hsv _]].
          rewrite <- (eq_trans_f2 leq EL left l s El), Hsv. cbn. now rewrite andb_true_r.
        - cbn [negb]. rewrite andb_true_r.
          assert (HFr : req right r = true -> fr t l r = br t right l).
          { intros Er. rewrite C. unfold br. symmetry. apply rel_congr_k; auto. }
          destruct lrem as [s|].
          + destruct (Rm2 s eq_refl) as [Hslk [_ Hsrel]]. rewrite Hslk. cbn [andb].
            destruct (req right r) eqn:Er; cbn [andb negb]; [|now rewrite andb_false_r].
            rewrite andb_true_r, andb_false_r, (HFr eq_refl). unfold br. rewrite Hsrel.
            now destruct (leq s l).
          + cbn [negb]. rewrite andb_true_r.
            destruct (is_single lk) eqn:Hslk; cbn [andb negb]; [|now rewrite andb_true_r].
            destruct (req right r) eqn:Er; cbn [negb]; [|now rewrite andb_true_r].
            rewrite andb_false_r. rewrite (HFr eq_refl).
            destruct (br t right l) eqn:Hb; [|reflexivity].
            pose proof (Rn2 eq_refl eq_refl l Hb) as Hc. rewrite (eq_sym_b _ EL) in Hc. congruence. }
      assert (HB : forall r l, br (mkTwm fwd2 bwd2) r l =
         (if req right r then (leq left l || (negb (is_single lk) && br t right l)) else br t r l)
         && negb (is_single rk && leq left l && negb (req right r))).
      { intros r l. unfold br. cbn [bwd]. rewrite RB, R2. fold (br t right l). fold (br t r l).
        destruct (req right r) eqn:Er.
        - cbn [negb]. rewrite andb_false_r. cbn [negb]. rewrite andb_true_r.
          destruct rrem as [s|]; [|now rewrite andb_true_r].
          destruct (Rm1 s eq_refl) as [_ [Hsv _]].
          rewrite <- (eq_trans_f2 req ER right r s Er), Hsv. cbn. now rewrite andb_true_r.
        - cbn [negb]. rewrite andb_true_r.
          assert (HFr : leq left l = true -> br t r l = fr t left r).
          { intros El. rewrite <- C. unfold fr. symmetry. apply rel_congr_k; auto. }
          destruct rrem as [s|].
          + destruct (Rm1 s eq_refl) as [Hsrk [_ Hsrel]]. rewrite Hsrk. cbn [andb].
            destruct (leq left l) eqn:El; cbn [andb negb]; [|now rewrite andb_false_r].
            rewrite andb_true_r, andb_false_r, (HFr eq_refl). unfold fr. rewrite Hsrel.
            now destruct (req s r).
          + cbn [negb]. rewrite andb_true_r.
            destruct (is_single rk) eqn:Hsrk; cbn [andb negb]; [|now rewrite andb_true_r].
            destruct (leq left l) eqn:El; cbn [negb]; [|now rewrite andb_true_r].
            rewrite andb_false_r. rewrite (HFr eq_refl).
            destruct (fr t left r) eqn:Hb; [|reflexivity].
            pose proof (Rn1 eq_refl eq_refl r Hb) as Hc. rewrite (eq_sym_b _ ER) in Hc. congruence. }
      split; [split; [exact WF|split; [exact WB|]]|].
      { intros l r. rewrite HF, HB. unfold ins_rel.
        destruct (leq left l) eqn:El; destruct (req right r) eqn:Er; cbn [negb andb orb];
          rewrite ?andb_true_r, ?andb_false_r; cbn [negb andb orb]; rewrite ?andb_true_r.
        - reflexivity.
        - assert (X : fr t left r = br t r l).
          { rewrite <- C. unfold fr. apply rel_congr_k; auto. }
          rewrite X. now destruct (is_single rk), (br t r l).
        - assert (X : br t right l = fr t l r).
          { rewrite C. unfold br. apply rel_congr_k; auto. }
          rewrite X. now destruct (is_single lk), (fr t l r).
        - apply C. }
      split; [eapply soc_trans; eauto|]. split; [eapply soc_trans; eauto|].
      split; [intros _; split; [exact Hl|split; [exact Hr|exact HF]]|].
      split; [intros X; congruence|discriminate].
    - destruct (insert_rollback t left right fwd1 rrem radd e2 Wf A1) as [fwd3 [E3 [W3 [R3 S3]]]].
      rewrite E3 in H. inversion H; subst; clear H.
      split; [split; [exact W3|split; [exact Wb|]]|].
      { intros l r. unfold fr. cbn [fwd]. rewrite R3. apply C. }
      split; [exact S3|]. split; [apply soc_refl|].
      split; [discriminate|]. split; [intros _ l r; unfold fr; cbn [fwd]; apply R3|].
      intros e He. inversion He; subst.
      apply add_item_raise in E2; auto. destruct E2 as [E2|[[_ E2]|[E2 _]]]; auto.
  Qed.
  Lemma tw_remove_spec : forall t left right t' o, tw_inv t ->
    tw_remove leq req lhash rhash lk rk t left right = (t', o) ->
    tw_inv t' /\ stable_or_cleared leq (fwd t) (fwd t') /\ stable_or_cleared req (bwd t) (bwd t') /\
    (o = Done -> forall l r, fr t' l r = fr t l r && negb (leq left l && req right r)) /\
    (o <> Done -> forall l r, fr t' l r = fr t l r).
  Proof.
    intros t left right t' o [Wf [Wb C]] H. unfold tw_remove, rm_fwd, rm_bwd in H.
    destruct (remove_item leq req lhash rhash rk (fwd t) left right) as [fwd1|] eqn:E1.
    2:{ cbn in H. inversion H; subst; clear H. split; [split; auto|].
        split; [apply soc_refl|split; [apply soc_refl|]]. split; [discriminate|reflexivity]. }
    destruct (remove_item_spec leq req lhash rhash EL ER rk (fwd t) left right fwd1 Wf E1) as [W1 [R1 [Hl S1]]].
    cbn [negb] in H.
    destruct (remove_item req leq rhash lhash lk (bwd t) right left) as [bwd1|] eqn:E2.
    - destruct (remove_item_spec req leq rhash lhash ER EL lk (bwd t) right left bwd1 Wb E2) as [W2 [R2 [Hr S2]]].
      inversion H; subst; clear H.
      split; [split; [exact W1|split; [exact W2|]]|].
      { intros l r. unfold fr, br. cbn [fwd bwd]. rewrite R1, R2. fold (fr t l r). fold (br t r l). rewrite C.
        now rewrite (andb_comm (leq left l)). }
      split; [exact S1|split; [exact S2|]]. split; [intros _ l r; apply R1|intros X; congruence].
    - apply remove_item_raise in E2. inversion H; subst; clear H.
      assert (Hnot : fr t left right = false).
      { destruct (fr t left right) eqn:Hf; [|reflexivity]. exfalso.
        destruct (fr_hash t left right (conj Wf (conj Wb C)) Hf) as [_ Hrr].
        destruct E2 as [E2|[_ E2]]; congruence. }
      assert (Hsame : forall l r, rel leq req fwd1 l r = fr t l r).
      { intros l r. rewrite R1. fold (fr t l r).
        destruct (leq left l) eqn:El; cbn; [|now rewrite andb_true_r].
        destruct (req right r) eqn:Er; cbn; [|now rewrite andb_true_r].
        rewrite andb_false_r. unfold fr. rewrite <- (rel_congr_k leq req EL (fwd t) left l r El).
        rewrite <- (rel_congr_a leq req ER (fwd t) left right r Er). symmetry. exact Hnot. }
      split; [split; [exact W1|split; [exact Wb|]]|].
      { intros l r. unfold fr at 1. cbn [fwd]. rewrite Hsame. apply C. }
      split; [exact S1|split; [apply soc_refl|]]. split; [discriminate|]. intros _ l r. apply Hsame.
  Qed.

  Lemma rm_each_bwd_spec : forall xs m left, wf req leq rhash lk m ->
    (forall x, In x xs -> rhash x = true /\ lhash left = true) ->
    exists m', rm_each_bwd leq req lhash rhash lk m xs left = (m', true) /\ wf req leq rhash lk m' /\
      (forall k a, rel req leq m' k a = rel req leq m k a && negb (memb req k xs && leq left a)) /\
      stable_or_cleared req m m'.
  Proof.
    induction xs as [|x xs IH]; intros m left W Hx; cbn [rm_each_bwd].
    - exists m. split; [reflexivity|split; [exact W|split; [|apply soc_refl]]].
      intros k a. cbn. now rewrite andb_true_r.
    - destruct (Hx x (or_introl eq_refl)) as [Hrx Hll].
      destruct (rm_bwd_ok m x left W (fun _ => Hll) Hrx) as [m1 [E1 [W1 [R1 S1]]]]. rewrite E1.
      destruct (IH m1 left W1) as [m2 [E2 [W2 [R2 S2]]]]; [intros y Hy; apply Hx; right; exact Hy|].
      exists m2. split; [exact E2|split; [exact W2|split; [|eapply soc_trans; eauto]]].
      intros k a. rewrite R2, R1. cbn [memb]. destruct (req x k); cbn [andb negb orb].
      + destruct (leq left a), (rel req leq m k a), (memb req k xs); reflexivity.
      + now rewrite andb_true_r.
  Qed.

  Lemma rm_each_fwd_spec : forall xs m right, wf leq req lhash rk m ->
    (forall x, In x xs -> lhash x = true /\ rhash right = true) ->
    exists m', rm_each_fwd leq req lhash rhash rk m xs right = (m', true) /\ wf leq req lhash rk m' /\
      (forall k a, rel leq req m' k a = rel leq req m k a && negb (memb leq k xs && req right a)) /\
      stable_or_cleared leq m m'.
  Proof.
    induction xs as [|x xs IH]; intros m right W Hx; cbn [rm_each_fwd].
    - exists m. split; [reflexivity|split; [exact W|split; [|apply soc_refl]]].
      intros k a. cbn. now rewrite andb_true_r.
    - destruct (Hx x (or_introl eq_refl)) as [Hlx Hrr].
      destruct (rm_fwd_ok m x right W Hlx (fun _ => Hrr)) as [m1 [E1 [W1 [R1 S1]]]]. rewrite E1.
      destruct (IH m1 right W1) as [m2 [E2 [W2 [R2 S2]]]]; [intros y Hy; apply Hx; right; exact Hy|].
      exists m2. split; [exact E2|split; [exact W2|split; [|eapply soc_trans; eauto]]].
      intros k a. rewrite R2, R1. cbn [memb]. destruct (leq x k); cbn [andb negb orb].
      + destruct (req right a), (rel leq req m k a), (memb leq k xs); reflexivity.
      + now rewrite andb_true_r.
  Qed.
  Lemma tw_remove_left_inv : forall t left t' o, tw_inv t ->
    tw_remove_left leq req lhash rhash lk rk t left = (t', o) -> tw_inv t'.
  Proof.
    intros t left t' o [Wf [Wb C]] H. unfold tw_remove_left in H.
    destruct (remove_key leq lhash rk (fwd t) left) as [[fwd1 removed]|] eqn:E1.
    2:{ inversion H; subst. split; auto. }
    destruct (remove_key_spec leq req lhash EL rk (fwd t) left fwd1 removed Wf E1) as [W1 [R1 [Hrem S1]]].
    assert (Hx : forall x, In x removed -> rhash x = true /\ lhash left = true).
    { intros x Hin. subst removed. apply (memb_In req ER) in Hin.
      destruct (fr_hash t left x (conj Wf (conj Wb C)) Hin). auto. }
    destruct (rm_each_bwd_spec removed (bwd t) left Wb Hx) as [bwd1 [E2 [W2 [R2 S2]]]].
    rewrite E2 in H. inversion H; subst t' o; clear H.
    split; [exact W1|split; [exact W2|]].
    intros l r. unfold fr, br. cbn [fwd bwd]. rewrite R1, R2. fold (fr t l r). fold (br t r l). rewrite <- C.
    destruct (leq left l) eqn:El; cbn; [|now rewrite andb_false_r].
    rewrite andb_false_r, andb_true_r. subst removed. fold (rel leq req (fwd t) left r).
    rewrite (rel_congr_k leq req EL (fwd t) left l r El). fold (fr t l r). now destruct (fr t l r).
  Qed.

  Lemma tw_remove_right_inv : forall t right t' o, tw_inv t ->
    tw_remove_right leq req lhash rhash lk rk t right = (t', o) -> tw_inv t'.
  Proof.
    intros t right t' o [Wf [Wb C]] H. unfold tw_remove_right in H.
    destruct (remove_key req rhash lk (bwd t) right) as [[bwd1 removed]|] eqn:E1.
    2:{ inversion H; subst. split; auto. }
    destruct (remove_key_spec req leq rhash ER lk (bwd t) right bwd1 removed Wb E1) as [W1 [R1 [Hrem S1]]].
    assert (Hx : forall x, In x removed -> lhash x = true /\ rhash right = true).
    { intros x Hin. subst removed. apply (memb_In leq EL) in Hin.
      destruct (fr_hash t x right (conj Wf (conj Wb C))); [rewrite C; exact Hin|]. auto. }
    destruct (rm_each_fwd_spec removed (fwd t) right Wf Hx) as [fwd1 [E2 [W2 [R2 S2]]]].
    rewrite E2 in H. inversion H; subst t' o; clear H.
    split; [exact W2|split; [exact W1|]].
    intros l r. unfold fr, br. cbn [fwd bwd]. rewrite R1, R2. fold (fr t l r). fold (br t r l). rewrite C.
    destruct (req right r) eqn:Er; cbn; [|now rewrite andb_false_r].
    rewrite andb_false_r, andb_true_r. subst removed. fold (rel req leq (bwd t) right l).
    rewrite (rel_congr_k req leq ER (bwd t) right r l Er). fold (br t r l). now destruct (br t r l).
  Qed.

  Lemma tw_step_inv : forall t o t' out, tw_inv t ->
    tw_step leq req lhash rhash lfmt rfmt lk rk t o = (t', out) -> tw_inv t'.
  Proof.
    intros t o t' out I H. destruct o; cbn [tw_step] in H.
    - eapply tw_insert_spec; eauto.
    - eapply tw_remove_spec; eauto.
    - eapply tw_remove_left_inv; eauto.
    - eapply tw_remove_right_inv; eauto.
    - inversion H. apply tw_inv_empty.
  Qed.

  Theorem tw_run_inv : forall ops t t' outs, tw_inv t ->
    tw_run leq req lhash rhash lfmt rfmt lk rk t ops = (t', outs) -> tw_inv t'.
  Proof.
    induction ops as [|o ops IH]; intros t t' outs I H; cbn [tw_run] in H.
    - inversion H; subst. exact I.
    - destruct (tw_step leq req lhash rhash lfmt rfmt lk rk t o) as [t1 r] eqn:E1.
      destruct (tw_run leq req lhash rhash lfmt rfmt lk rk t1 ops) as [t2 rs] eqn:E2.
      inversion H; subst. eapply IH; [|exact E2]. eapply tw_step_inv; eauto.
  Qed.
End TwoWayFacts.
