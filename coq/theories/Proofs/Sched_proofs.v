(* K2: basic facts about the scheduler model (sets as lists, exec vs step, replay, stability of clean
   cells) and termination. *)
From Coq Require Import ZArith List Bool Lia Arith Wellfounded.
Import ListNotations.
Require Import Grist.Model.Sched.
Open Scope Z_scope.

Lemma cell_eqb_eq a b : cell_eqb a b = true <-> a = b.
Proof.
  unfold cell_eqb. destruct a as [a1 a2], b as [b1 b2]; cbn [fst snd].
  rewrite andb_true_iff, !Z.eqb_eq. split; [intros [-> ->]; reflexivity | intros E; inversion E; auto].
Qed.

Lemma cell_eqb_refl a : cell_eqb a a = true.
Proof. apply cell_eqb_eq; reflexivity. Qed.

Lemma cell_eqb_neq a b : cell_eqb a b = false <-> a <> b.
Proof.
  split.
  - intros H E. apply cell_eqb_eq in E. congruence.
  - intros H. destruct (cell_eqb a b) eqn:E; [apply cell_eqb_eq in E; contradiction | reflexivity].
Qed.

Lemma cell_eq_dec (a b : cell) : {a = b} + {a <> b}.
Proof.
  destruct (cell_eqb a b) eqn:E; [left; apply cell_eqb_eq; exact E | right; apply cell_eqb_neq; exact E].
Qed.

Lemma mem_In c l : mem c l = true <-> In c l.
Proof.
  unfold mem. rewrite existsb_exists. split.
  - intros [x [Hx E]]. apply cell_eqb_eq in E. subst; exact Hx.
  - intros H. exists c. split; [exact H | apply cell_eqb_refl].
Qed.

Lemma mem_false c l : mem c l = false <-> ~ In c l.
Proof.
  rewrite <- mem_In. destruct (mem c l); split; intros H; try congruence; try reflexivity;
    try (exfalso; apply H; reflexivity).
Qed.

Lemma In_remove x c l : In x (remove c l) <-> In x l /\ x <> c.
Proof.
  unfold remove. rewrite filter_In. split.
  - intros [H E]. split; [exact H|]. intros ->. rewrite cell_eqb_refl in E. discriminate.
  - intros [H E]. split; [exact H|]. destruct (cell_eqb c x) eqn:F; [|reflexivity].
    apply cell_eqb_eq in F. subst. contradiction.
Qed.

Lemma mem_remove_same c l : mem c (remove c l) = false.
Proof. apply mem_false. rewrite In_remove. intros [_ H]. apply H; reflexivity. Qed.

Lemma mem_remove_other x c l : x <> c -> mem x (remove c l) = mem x l.
Proof.
  intros H. destruct (mem x l) eqn:E.
  - apply mem_In. apply In_remove. split; [apply mem_In; exact E | exact H].
  - apply mem_false. rewrite In_remove. intros [H1 _]. apply mem_false in E. contradiction.
Qed.

Lemma filter_length_le {A} (f : A -> bool) l : (length (filter f l) <= length l)%nat.
Proof. induction l as [|x l IH]; cbn [filter length]; [lia|]. destruct (f x); cbn [length]; lia. Qed.

Lemma remove_length_le c l : (length (remove c l) <= length l)%nat.
Proof. unfold remove. apply filter_length_le. Qed.

Lemma remove_length_lt c l : In c l -> (length (remove c l) < length l)%nat.
Proof.
  unfold remove. induction l as [|x l IH]; intros H; [destruct H|].
  cbn [filter]. destruct (cell_eqb c x) eqn:E; cbn [negb length].
  - pose proof (filter_length_le (fun x0 => negb (cell_eqb c x0)) l). lia.
  - destruct H as [->|H]; [rewrite cell_eqb_refl in E; discriminate|].
    specialize (IH H). lia.
Qed.

Lemma upd_same v c x : upd v c x c = x.
Proof. unfold upd. rewrite cell_eqb_refl. reflexivity. Qed.

Lemma upd_other v c x d : d <> c -> upd v c x d = v d.
Proof. intros H. unfold upd. apply cell_eqb_neq in H. rewrite H. reflexivity. Qed.

(* ---------------------------------------------------------------------------------------- *)
(* exec is the step relation *)

Lemma exec_sound P l s s' : exec P l s = Some s' -> step P s s'.
Proof.
  destruct l as [c|c|c d|c|c|]; cbn [exec]; intros H.
  - destruct (stack s) eqn:Es; [|discriminate].
    destruct (mem c (dirty s)) eqn:Ed; [|discriminate]. inversion H; subst. apply step_pick; assumption.
  - destruct (stack s) as [|[c' l] rest] eqn:Es; [discriminate|].
    destruct (cell_eqb c c') eqn:Ec; cbn [andb] in H; [|discriminate].
    apply cell_eqb_eq in Ec. subst c'.
    destruct (mem c (dirty s)) eqn:Ed; cbn [andb] in H; [|discriminate].
    destruct (mem c (locked s)) eqn:El; cbn [negb] in H; [discriminate|].
    destruct (run_formula P s c) as [[v|d]|] eqn:Er; try discriminate.
    inversion H; subst. eapply step_done; eassumption.
  - destruct (stack s) as [|[c' l] rest] eqn:Es; [discriminate|].
    destruct (cell_eqb c c') eqn:Ec; cbn [andb] in H; [|discriminate].
    apply cell_eqb_eq in Ec. subst c'.
    destruct (mem c (dirty s)) eqn:Ed; cbn [andb] in H; [|discriminate].
    destruct (mem c (locked s)) eqn:El; cbn [negb] in H; [discriminate|].
    destruct (run_formula P s c) as [[v|d']|] eqn:Er; try discriminate.
    destruct (cell_eqb d d') eqn:Edd; [|discriminate]. apply cell_eqb_eq in Edd. subst d'.
    inversion H; subst. rewrite <- Es. eapply step_need; eassumption.
  - destruct (stack s) as [|[c' l] rest] eqn:Es; [discriminate|].
    destruct (cell_eqb c c') eqn:Ec; cbn [andb] in H; [|discriminate].
    apply cell_eqb_eq in Ec. subst c'.
    destruct (mem c (dirty s)) eqn:Ed; cbn [andb] in H; [|discriminate].
    destruct (mem c (locked s)) eqn:El; [|discriminate].
    inversion H; subst. eapply step_cycle; eassumption.
  - destruct (mem c (dirty s)) eqn:Ed; [|discriminate].
    destruct (run_formula P s c) as [[v|d]|] eqn:Er; try discriminate.
    inversion H; subst. eapply step_opp; eassumption.
  - destruct (stack s) as [|[c l] rest] eqn:Es; [discriminate|].
    destruct (mem c (dirty s)) eqn:Ed; [discriminate|].
    inversion H; subst. eapply step_pop; eassumption.
Qed.

Lemma exec_complete P s s' : step P s s' -> exists l, exec P l s = Some s'.
Proof.
  intros H. destruct H.
  - exists (LPick c). cbn [exec]. rewrite H, H0. reflexivity.
  - exists (LDone c). cbn [exec]. rewrite H, cell_eqb_refl, H0, H1, H2. reflexivity.
  - exists (LNeed c d). cbn [exec]. rewrite H, cell_eqb_refl, H0, H1, H2, cell_eqb_refl. reflexivity.
  - exists (LCycle c). cbn [exec]. rewrite H, cell_eqb_refl, H0, H1. reflexivity.
  - exists (LOpp c). cbn [exec]. rewrite H, H0. reflexivity.
  - exists LPop. cbn [exec]. rewrite H, H0. reflexivity.
Qed.

Lemma steps_trans P a b c : steps P a b -> steps P b c -> steps P a c.
Proof. induction 1; intros; [assumption | eapply steps_cons; eauto]. Qed.

Lemma replay_steps P ls : forall s s', replay P ls s = Some s' -> steps P s s'.
Proof.
  induction ls as [|l ls IH]; cbn [replay]; intros s s' H.
  - inversion H; subst. apply steps_refl.
  - destruct (exec P l s) as [s1|] eqn:E; [|discriminate].
    eapply steps_cons; [eapply exec_sound; exact E | apply IH; exact H].
Qed.

Lemma replay_ok_replay P ls : forall s d s', has_inval ls = false ->
  replay_ok P ls s d = Some s' -> replay P (labels_of ls) s = Some s'.
Proof.
  induction ls as [|[l|dd k|cs] ls IH]; cbn [replay replay_ok labels_of has_inval]; intros s d s' Hi H;
    [exact H| | |discriminate].
  - destruct (exec P l s) as [s1|]; [|discriminate].
    destruct (nexp s1 <=? ndone s1)%nat; [eapply IH; eassumption | discriminate].
  - destruct (same_set dd (dirty s) && same_set k (locked s)); [eapply IH; eassumption | discriminate].
Qed.

Lemma run_steps P strat fuel : forall s, steps P s (run P strat fuel s).
Proof.
  induction fuel as [|n IH]; intros s; cbn [run]; [apply steps_refl|].
  destruct (strat s) as [l|]; [|apply steps_refl].
  destruct (exec P l s) as [s1|] eqn:E; [|apply steps_refl].
  eapply steps_cons; [eapply exec_sound; exact E | apply IH].
Qed.

Lemma is_final_final s : is_final s = true <-> final s.
Proof.
  unfold is_final, final. destruct (dirty s); destruct (stack s); split; intros H; try discriminate;
    try (split; reflexivity); try reflexivity; destruct H; discriminate.
Qed.

(* ---------------------------------------------------------------------------------------- *)
(* clean cells are never re-evaluated; values of other cells do not change *)

Lemma eval_need_dirty v isd t d : eval v isd t = ONeed d -> isd d = true.
Proof.
  induction t as [z|e|c k IH]; cbn [eval]; intros H; try discriminate.
  destruct (isd c) eqn:E; [inversion H; subst; exact E | eapply IH; exact H].
Qed.

Lemma step_clean_stable P s s' c :
  step P s s' -> mem c (dirty s) = false -> mem c (dirty s') = false /\ val s' c = val s c.
Proof.
  intros H Hc.
  assert (F : forall x v, mem x (dirty s) = true ->
              mem c (dirty (finish s x v)) = false /\ val (finish s x v) c = val s c).
  { intros x v Hx. assert (c <> x) by (intros ->; congruence).
    cbn [finish dirty val]. rewrite mem_remove_other by assumption. rewrite upd_other by assumption. auto. }
  destruct H; cbn [dirty val]; auto.
Qed.

Lemma step_dirty_subset P s s' c : step P s s' -> In c (dirty s') -> In c (dirty s).
Proof.
  intros H. destruct H; cbn [finish dirty]; auto; rewrite In_remove; tauto.
Qed.

(* ---------------------------------------------------------------------------------------- *)
(* termination: the triple (number of dirty cells, frames whose cell is clean, unlocked dirty cells
   [+ a bonus while the stack is empty]) decreases lexicographically with every transition *)

Definition lt3 (a b : nat * nat * nat) : Prop :=
  (fst (fst a) < fst (fst b) \/
   (fst (fst a) = fst (fst b) /\
    (snd (fst a) < snd (fst b) \/ (snd (fst a) = snd (fst b) /\ snd a < snd b))))%nat.

Lemma lt3_wf : well_founded lt3.
Proof.
  intros [[a b] c]. revert b c.
  induction a as [a IHa] using lt_wf_ind. intros b.
  induction b as [b IHb] using lt_wf_ind. intros c.
  induction c as [c IHc] using lt_wf_ind.
  constructor. intros [[a' b'] c'] H. unfold lt3 in H. cbn [fst snd] in H.
  destruct H as [H|[E [H|[E2 H]]]]; subst; auto.
Qed.

Definition clean_frames (s : state) : nat :=
  length (filter (fun f : frame => negb (mem (fst f) (dirty s))) (stack s)).
Definition unlocked_dirty (s : state) : nat :=
  length (filter (fun c => negb (mem c (locked s))) (dirty s)).
Definition measure (s : state) : nat * nat * nat :=
  (length (dirty s), clean_frames s,
   (match stack s with [] => S (length (dirty s)) | _ => O end + unlocked_dirty s)%nat).

Lemma mem_cons y c L : mem y (c :: L) = cell_eqb y c || mem y L.
Proof. reflexivity. Qed.

Lemma filter_lock_lt c L D :
  In c D -> ~ In c L ->
  (length (filter (fun x => negb (mem x (c :: L))) D) < length (filter (fun x => negb (mem x L)) D))%nat.
Proof.
  intros Hc HL. induction D as [|x D IH]; [destruct Hc|].
  assert (G : (length (filter (fun x => negb (mem x (c :: L))) D)
               <= length (filter (fun x => negb (mem x L)) D))%nat).
  { clear. induction D as [|y D IH]; cbn [filter length]; [lia|].
    rewrite mem_cons. destruct (cell_eqb y c); cbn [orb negb].
    - destruct (mem y L); cbn [negb length]; lia.
    - destruct (mem y L); cbn [negb length]; lia. }
  cbn [filter]. rewrite mem_cons.
  destruct (cell_eqb x c) eqn:E; cbn [orb negb].
  - apply cell_eqb_eq in E. subst x. apply mem_false in HL. rewrite HL. cbn [negb length]. lia.
  - destruct Hc as [->|Hc]; [rewrite cell_eqb_refl in E; discriminate|].
    specialize (IH Hc). destruct (mem x L); cbn [negb length]; lia.
Qed.

Lemma step_measure P s s' : step P s s' -> lt3 (measure s') (measure s).
Proof.
  intros H.
  assert (F : forall x v, mem x (dirty s) = true -> lt3 (measure (finish s x v)) (measure s)).
  { intros x v Hx. left. cbn [measure fst snd finish dirty]. apply remove_length_lt. apply mem_In. exact Hx. }
  destruct H; auto.
  - (* pick *) right. split; [reflexivity|]. right. unfold measure, clean_frames, unlocked_dirty.
    cbn [fst snd stack dirty locked]. rewrite H. cbn [filter fst]. rewrite H0. cbn [negb length]. split; lia.
  - (* need *) right. split; [reflexivity|]. right. unfold measure, clean_frames, unlocked_dirty.
    cbn [fst snd stack dirty locked]. rewrite H. cbn [filter fst].
    unfold run_formula in H2. destruct (P c) as [t|]; [|discriminate]. inversion H2 as [H3].
    apply eval_need_dirty in H3. rewrite H3, H0. cbn [negb]. split; [reflexivity|].
    cbn [Nat.add]. apply filter_lock_lt; [apply mem_In; exact H0 | apply mem_false; exact H1].
  - (* pop *) right. split; [reflexivity|]. left. unfold measure, clean_frames.
    cbn [fst snd stack dirty]. rewrite H. cbn [filter fst]. rewrite H0. cbn [negb length]. lia.
Qed.

Theorem step_wf P : well_founded (fun s' s => step P s s').
Proof.
  eapply wf_incl; [|apply (wf_inverse_image _ _ lt3 measure lt3_wf)].
  intros s' s H. apply step_measure in H. exact H.
Qed.

(* ---------------------------------------------------------------------------------------- *)
(* no stuck states: as long as something is dirty or on the stack, a transition is enabled; the
   engine's strategy always proposes an enabled transition; hence its run reaches a final state *)

Definition has_formulas (P : prog) (s : state) : Prop := forall c, In c (dirty s) -> P c <> None.

Lemma has_formulas_step P s s' : step P s s' -> has_formulas P s -> has_formulas P s'.
Proof. intros H F c Hc. apply F. eapply step_dirty_subset; eassumption. Qed.

Lemma engine_strategy_enabled P order s :
  has_formulas P s -> (forall c, In c (dirty s) -> In c order) -> ~ final s ->
  exists l s', engine_strategy P order s = Some l /\ exec P l s = Some s'.
Proof.
  intros HF HO NF. unfold engine_strategy.
  destruct (stack s) as [|[c l] rest] eqn:Es.
  - unfold first_dirty. destruct (find (fun c => mem c (dirty s)) order) as [c|] eqn:Ef.
    + apply find_some in Ef. destruct Ef as [_ Ef].
      exists (LPick c). eexists. split; [reflexivity|]. cbn [exec]. rewrite Es, Ef. reflexivity.
    + exfalso. apply NF. split; [|exact Es].
      destruct (dirty s) as [|x D] eqn:Ed; [reflexivity|].
      pose proof (find_none _ _ Ef x) as Hn. cbn beta in Hn.
      assert (In x order) by (apply HO; left; reflexivity).
      specialize (Hn H). apply mem_false in Hn. exfalso. apply Hn. left; reflexivity.
  - destruct (mem c (dirty s)) eqn:Ed.
    + destruct (mem c (locked s)) eqn:El.
      * exists (LCycle c). eexists. split; [reflexivity|]. cbn [exec]. rewrite Es, cell_eqb_refl, Ed, El. reflexivity.
      * assert (Hc : P c <> None) by (apply HF; apply mem_In; exact Ed).
        unfold run_formula. destruct (P c) as [t|] eqn:Ep; [|congruence].
        destruct (eval (val s) (fun x => mem x (dirty s)) t) as [v|d] eqn:Ee.
        -- exists (LDone c). eexists. split; [reflexivity|]. cbn [exec].
           rewrite Es, cell_eqb_refl, Ed, El. unfold run_formula. rewrite Ep, Ee. reflexivity.
        -- exists (LNeed c d). eexists. split; [reflexivity|]. cbn [exec].
           rewrite Es, cell_eqb_refl, Ed, El. unfold run_formula. rewrite Ep, Ee, cell_eqb_refl. reflexivity.
    + assert (Hpop : exists s', exec P LPop s = Some s').
      { eexists. cbn [exec]. rewrite Es, Ed. reflexivity. }
      destruct Hpop as [sp Hpop].
      destruct l as [lk|]; [|exists LPop, sp; split; [reflexivity | exact Hpop]].
      destruct (find (fun x => Z.eqb (fst x) (fst c) && mem x (dirty s)) order) as [x|] eqn:Ef.
      * apply find_some in Ef. destruct Ef as [_ Ef]. apply andb_true_iff in Ef. destruct Ef as [_ Ef].
        destruct (run_formula P s x) as [[v|d]|] eqn:Er.
        -- exists (LOpp x). eexists. split; [reflexivity|]. cbn [exec]. rewrite Ef, Er. reflexivity.
        -- exists LPop, sp. split; [reflexivity | exact Hpop].
        -- exists LPop, sp. split; [reflexivity | exact Hpop].
      * exists LPop, sp. split; [reflexivity | exact Hpop].
Qed.

Lemma progress P s : has_formulas P s -> ~ final s -> exists s', step P s s'.
Proof.
  intros HF NF.
  destruct (engine_strategy_enabled P (dirty s) s HF (fun c H => H) NF) as [l [s' [_ H]]].
  exists s'. eapply exec_sound; exact H.
Qed.

Lemma final_dec s : {final s} + {~ final s}.
Proof.
  destruct (is_final s) eqn:E; [left; apply is_final_final; exact E|].
  right. intros H. apply is_final_final in H. congruence.
Qed.

Theorem engine_run_completes P order s :
  has_formulas P s -> (forall c, In c (dirty s) -> In c order) ->
  exists n, final (run P (engine_strategy P order) n s).
Proof.
  induction s as [s IH] using (well_founded_induction (step_wf P)). intros HF HO.
  destruct (final_dec s) as [F|NF].
  - exists O. exact F.
  - destruct (engine_strategy_enabled P order s HF HO NF) as [l [s' [E1 E2]]].
    assert (St : step P s s') by (eapply exec_sound; exact E2).
    destruct (IH s' St (has_formulas_step _ _ _ St HF)) as [n Hn].
    { intros c Hc. apply HO. eapply step_dirty_subset; eassumption. }
    exists (S n). cbn [run]. rewrite E1, E2. exact Hn.
Qed.

(* every run can be extended to a complete run, and every maximal run is complete *)
Theorem complete_run_exists P s : has_formulas P s -> exists s', complete_run P s s'.
Proof.
  intros HF. destruct (engine_run_completes P (dirty s) s HF (fun c H => H)) as [n Hn].
  eexists. split; [apply run_steps | exact Hn].
Qed.

(* ---------------------------------------------------------------------------------------- *)
(* the two "data engine not making progress" checks of _update_loop never fire:
   (1) whenever a lock is released by a completed work item, _recompute_done_counter >=
       _expected_done_counter (after the increment);
   (2) when a top-level work item completes, at least one cell has been computed since it was picked. *)

Inductive lchain : list frame -> Prop :=
| lchain_nil : lchain []
| lchain_bottom c : lchain [(c, None)]
| lchain_push d c l rest : lchain ((c, l) :: rest) -> lchain ((d, Some c) :: (c, l) :: rest).

Definition ctr_inv (s : state) : Prop :=
  (forall x, In x (locked s) -> In x (dirty s)) /\
  (nexp s <= ndone s)%nat /\
  (forall c l rest, stack s = (c, l) :: rest -> mem c (dirty s) = false -> locked s <> [] ->
     (nexp s < ndone s)%nat) /\
  (ndone s = O -> forall f, In f (stack s) -> mem (fst f) (dirty s) = true) /\
  lchain (stack s).

Lemma ctr_inv_init v d : ctr_inv (init_state v d).
Proof.
  unfold ctr_inv, init_state; cbn [locked dirty stack ndone nexp].
  split; [intros x []|]. split; [lia|]. split; [intros; discriminate|]. split; [intros _ f [] | constructor].
Qed.

Lemma ctr_inv_step P s s' : step P s s' -> ctr_inv s -> ctr_inv s'.
Proof.
  intros St [C1 [C2 [C3 [C4 C5]]]].
  assert (Fin : forall x v, ctr_inv (finish s x v)).
  { intros x v. unfold ctr_inv; cbn [finish locked dirty stack ndone nexp].
    split; [intros y Hy; apply In_remove in Hy; apply In_remove; split; [apply C1|]; tauto|].
    split; [lia|]. split; [intros; lia|]. split; [intros; discriminate | exact C5]. }
  destruct St; try apply Fin; unfold ctr_inv; cbn [locked dirty stack ndone nexp].
  - (* pick *) split; [exact C1|]. split; [lia|]. split.
    + intros c0 l rest E Hc. inversion E; subst. congruence.
    + split; [intros _ f [<-|[]]; exact H0 | constructor].
  - (* need *) assert (Hd : mem d (dirty s) = true).
    { unfold run_formula in H2. destruct (P c); [|discriminate]. inversion H2 as [H3].
      apply eval_need_dirty in H3. exact H3. }
    split; [intros x [<-|Hx]; [apply mem_In; exact H0 | apply C1; exact Hx]|].
    split; [exact C2|]. split.
    + intros c0 l0 rest0 E Hc. inversion E; subst. congruence.
    + split; [intros Hz f [<-|Hf]; [exact Hd | apply C4; assumption]|].
      rewrite H. constructor. rewrite <- H. exact C5.
  - (* pop *)
    assert (Hsub : forall x, In x (unlock l (locked s)) -> In x (locked s)).
    { intros x. destruct l; cbn [unlock]; [rewrite In_remove; tauto | auto]. }
    assert (Hlt : lock_held l (locked s) = true -> (nexp s < ndone s)%nat).
    { intros Hh. apply (C3 _ _ _ H H0). destruct l as [cl|]; [|discriminate]. cbn [lock_held] in Hh.
      apply mem_In in Hh. intros E. rewrite E in Hh. destruct Hh. }
    rewrite H in C5.
    split; [intros x Hx; apply C1; apply Hsub; exact Hx|].
    split; [destruct (lock_held l (locked s)); [apply Hlt; reflexivity | exact C2]|].
    split; [|split].
    + intros c1 l1 rest1 E Hc1 Hne. subst rest. inversion C5; subst. cbn [lock_held unlock] in *.
      destruct (mem c1 (locked s)) eqn:Hh.
      * apply mem_In in Hh. apply C1 in Hh. apply mem_In in Hh. congruence.
      * apply (C3 _ _ _ H H0). intros E0. rewrite E0 in Hne. apply Hne. reflexivity.
    + intros Hz f Hf. apply C4; [exact Hz|]. rewrite H. right. exact Hf.
    + inversion C5; subst; [constructor | assumption].
Qed.

Lemma ctr_inv_steps P s s' : steps P s s' -> ctr_inv s -> ctr_inv s'.
Proof. induction 1; intros; [assumption | eauto using ctr_inv_step]. Qed.

(* (1) in every reachable state the done counter is at least the expected counter *)
Theorem progress_checks_hold P v d s : steps P (init_state v d) s -> progress_ok s.
Proof. intros H. apply (ctr_inv_steps _ _ _ H (ctr_inv_init v d)). Qed.

(* (2) a top-level work item can only complete after at least one cell was computed *)
Theorem pass_computes_a_cell P v d s c :
  steps P (init_state v d) s -> stack s = [(c, None)] -> mem c (dirty s) = false -> (1 <= ndone s)%nat.
Proof.
  intros H Hs Hc. destruct (ctr_inv_steps _ _ _ H (ctr_inv_init v d)) as [_ [_ [_ [C4 _]]]].
  destruct (ndone s) eqn:E; [|lia]. specialize (C4 eq_refl (c, None)). rewrite Hs in C4.
  specialize (C4 (or_introl eq_refl)). cbn [fst] in C4. congruence.
Qed.

(* ---------------------------------------------------------------------------------------- *)
(* calc changes: a cell's value changes at most once in an update loop (when the cell is computed), so
   the changes recorded by a run (_changes_map: row, previous, new) are, as a multiset, the difference
   between the initial and the final values, whatever the order of evaluation *)

Lemma value_eq_dec (a b : value) : {a = b} + {a <> b}.
Proof. repeat decide equality. Qed.

Lemma step_val_change_clean P s s' c : step P s s' -> val s' c <> val s c -> mem c (dirty s') = false.
Proof.
  intros H Hv.
  assert (F : forall x v, val (finish s x v) c <> val s c -> mem c (dirty (finish s x v)) = false).
  { intros x v Hx. cbn [finish val dirty] in *. destruct (cell_eq_dec c x) as [->|Ne].
    - apply mem_remove_same.
    - rewrite upd_other in Hx by exact Ne. congruence. }
  destruct H; cbn [val] in Hv; try congruence; apply F; exact Hv.
Qed.

Lemma steps_clean_stable P s s' c :
  steps P s s' -> mem c (dirty s) = false -> mem c (dirty s') = false /\ val s' c = val s c.
Proof.
  induction 1 as [s|s1 s2 s3 H12 H23 IH]; intros Hc; [auto|].
  destruct (step_clean_stable P s1 s2 c H12 Hc) as [Hc2 Hv2].
  destruct (IH Hc2) as [Hc3 Hv3]. split; [exact Hc3 | congruence].
Qed.

Lemma steps_val_change_clean P s s' c : steps P s s' -> val s' c <> val s c -> mem c (dirty s') = false.
Proof.
  induction 1 as [s|s1 s2 s3 H12 H23 IH]; intros Hv; [congruence|].
  destruct (value_eq_dec (val s2 c) (val s1 c)) as [E|Ne].
  - apply IH. congruence.
  - apply (steps_clean_stable P s2 s3 c H23). eapply step_val_change_clean; eassumption.
Qed.

Theorem value_changes_once P s s' s'' c :
  steps P s s' -> steps P s' s'' -> val s' c <> val s c -> val s'' c = val s' c.
Proof.
  intros H1 H2 Hv. apply (steps_clean_stable P s' s'' c H2). eapply steps_val_change_clean; eassumption.
Qed.
