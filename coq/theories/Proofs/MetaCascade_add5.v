(* K6 proofs, part 12: CreateViewSection without group-by columns. *)
From Coq Require Import ZArith List Bool Lia.
Import ListNotations.
Require Import Grist.Model.MetaCascade Grist.Proofs.MetaCascade_base Grist.Proofs.MetaCascade_inv
  Grist.Proofs.MetaCascade_rm
  Grist.Proofs.MetaCascade_add Grist.Proofs.MetaCascade_add2 Grist.Proofs.MetaCascade_add3
  Grist.Proofs.MetaCascade_add4.
Open Scope Z_scope.

Lemma append_fields_inv : forall X m nf,
  InvX X m -> map f_id nf = zseq (next_id (fids m)) (length nf) -> (forall f, In f nf -> FieldOk m f) ->
  InvX X (set_fields m (m_fields m ++ nf)).
Proof.
  intros X m nf HI Hids HF.
  assert (E : set_fields m (m_fields m ++ nf) = extend m [] [] [] [] nf [] [] []).
  { destruct m. unfold set_fields, extend. simpl. rewrite !app_nil_r. reflexivity. }
  rewrite E. destruct (inv_ids X m HI) as [A [B [C [D [E' [F G]]]]]].
  apply inv_extend; try (intros ? Hnil; exact (False_ind _ Hnil)); try exact HI.
  - apply IdsOk_extend; try (apply IdList_nil; assumption). rewrite Hids. apply IdList_zseq. exact E'.
  - apply NamesOk_extend_same. apply (inv_names X m HI).
  - intros f Hf. apply (FieldOk_mono m); [apply incl_appl, incl_refl | apply incl_appl, incl_refl | apply HF; exact Hf].
Qed.

Lemma create_section_inv : forall t v cardlike newname m m',
  Inv m -> create_section t v cardlike newname m = Ok m' -> Inv m'.
Proof.
  intros t v cardlike newname m m' HI H. unfold create_section in H.
  (* the table *)
  assert (HA : exists m1 t1, (if t =? 0 then add_table newname [K_NORMAL; K_NORMAL; K_NORMAL] false m
                              else if mem t (tids m) then Ok (m, t) else Fail) = Ok (m1, t1) /\
                             Inv m1 /\ In t1 (tids m1)).
  { destruct (t =? 0).
    - destruct (add_table newname [K_NORMAL; K_NORMAL; K_NORMAL] false m) as [[m1 t1]| |] eqn:Ea; simpl in H; try discriminate.
      exists m1, t1. split; [reflexivity|]. apply (add_table_inv _ _ _ _ _ _ HI Ea).
    - destruct (mem t (tids m)) eqn:Em; simpl in H; try discriminate.
      exists m, t. split; [reflexivity|]. split; [exact HI | apply mem_In; exact Em]. }
  destruct HA as [m1 [t1 [EA [HI1 Ht1]]]]. rewrite EA in H. unfold bind in H at 1. cbv beta iota in H.
  (* the view *)
  assert (HB : exists m2 v2, (if v =? 0 then add_view t1 false m1
                              else if mem v (m_views m1) then Ok (m1, v) else Fail) = Ok (m2, v2) /\
                             Inv m2 /\ In v2 (m_views m2) /\ In t1 (tids m2)).
  { destruct (v =? 0).
    - destruct (add_view t1 false m1) as [[m2 v2]| |] eqn:Ev; simpl in H; try discriminate.
      exists m2, v2. split; [reflexivity|]. destruct (add_view_inv [] t1 false m1 m2 v2 HI1 Ev) as [J1 [J2 [_ [_ J5]]]].
      split; [exact J1|]. split; [exact J2 | rewrite J5; exact Ht1].
    - destruct (mem v (m_views m1)) eqn:Em; simpl in H; try discriminate.
      exists m1, v. split; [reflexivity|]. split; [exact HI1|]. split; [apply mem_In; exact Em | exact Ht1]. }
  destruct HB as [m2 [v2 [EB [HI2 [Hv2 Ht2]]]]]. rewrite EB in H. unfold bind in H. cbv beta iota in H.
  destruct cardlike.
  - destruct (find_table m2 t1) as [tr|] eqn:Ef; [|discriminate].
    apply find_table_some in Ef. destruct Ef as [Htr Eid].
    set (cf := filter (fun f => f_section f =? t_card tr) (m_fields m2)) in *.
    destruct (existsb _ cf) eqn:Ex; [discriminate|].
    set (custom := existsb (fun s => (s_id s =? t_card tr) && s_custom s) (m_sections m2)) in *.
    pose proof (add_section_inv [] t1 v2 custom m2 HI2 Ht2 (or_intror Hv2)) as HI3.
    destruct (add_section_sec t1 v2 custom m2) as [S3 [C3 _]].
    destruct (add_section t1 v2 custom m2) as [m3 s]. simpl in HI3, S3, C3.
    inversion H; subst m'. clear H.
    apply append_fields_inv; [exact HI3 | |].
    + rewrite map_map. simpl.
      change (map (fun x : Z * frec => fst x) (combine (zseq (next_id (fids m3)) (length cf)) cf))
        with (map fst (combine (zseq (next_id (fids m3)) (length cf)) cf)).
      rewrite map_length, combine_length, zseq_length, Nat.min_id. apply combine_fst. apply zseq_length.
    + intros f' Hf'. apply in_map_iff in Hf'. destruct Hf' as [[i f] [E Hp]]. subst f'. simpl.
      apply in_combine_r in Hp. unfold cf in Hp. apply filter_In in Hp. destruct Hp as [Hf Hsec].
      apply Z.eqb_eq in Hsec.
      destruct (inv_fld [] m2 HI2 f Hf) as [[sr0 [cr [Hs0 [H1 [Hc [H2 H3]]]]]] _].
      assert (Hnil : ~ In (t_id tr) []) by (intros []).
      destruct (inv_tab [] m2 HI2 tr Htr Hnil) as [_ [Jcard _]].
      destruct (inv_ids [] m2 HI2) as [_ [_ [_ [[Dn Dp] _]]]].
      assert (Etab : s_table sr0 = t1).
      { destruct Jcard as [Jz|[s2 [Hs2 [E1 E2]]]].
        - exfalso. rewrite Forall_forall in Dp. assert (0 < s_id sr0) by (apply Dp; unfold sids; apply in_map; exact Hs0). lia.
        - assert (sr0 = s2) by (apply (NoDup_map_inj s_id (m_sections m2)); try assumption; congruence).
          subst sr0. congruence. }
      unfold FieldOk. simpl.
      split; [|split; [left; reflexivity | split; [left; reflexivity | intros x []]]].
      exists (mkS s t1 v2 [] custom), cr. split; [exact S3|]. split; [reflexivity|].
      split; [rewrite C3; exact Hc|]. split; [exact H2 | simpl; congruence].
  - pose proof (section_with_fields_inv [] t1 v2 false m2 HI2 Ht2 (or_intror Hv2)) as HI3.
    destruct (add_section t1 v2 false m2) as [m3 s]. inversion H; subst m'. exact HI3.
Qed.
