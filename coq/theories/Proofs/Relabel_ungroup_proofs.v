(* C20: _group_insertions / ungroup -- the j-th smallest request (ties in batch order) receives the j-th
   new position, so new rows keep the order of their requested positions. *)
From Coq Require Import ZArith List Bool Lia Sorted Permutation.
Import ListNotations.
Require Import Grist.Lib.Fl64 Grist.Proofs.Fl64_proofs Grist.Model.Relabel Grist.Proofs.Sort_by_proofs.
Open Scope Z_scope.

(* ---- zrange *)
Lemma zrange_length a b : length (zrange a b) = Z.to_nat (b - a).
Proof. unfold zrange. rewrite map_length, seq_length. reflexivity. Qed.

Lemma zrange_nth a b i d : (i < Z.to_nat (b - a))%nat -> nth i (zrange a b) d = a + Z.of_nat i.
Proof.
  intros Hi. unfold zrange.
  rewrite (nth_indep _ d (a + Z.of_nat 0)) by (rewrite map_length, seq_length; exact Hi).
  rewrite (map_nth (fun k => a + Z.of_nat k)). rewrite seq_nth by exact Hi. reflexivity.
Qed.

Lemma zrange_In a b x : In x (zrange a b) <-> a <= x < b.
Proof.
  unfold zrange. rewrite in_map_iff. split.
  - intros (k & <- & Hk). apply in_seq in Hk. lia.
  - intros H. exists (Z.to_nat (x - a)). split; [lia|]. apply in_seq. lia.
Qed.

Lemma zrange_sorted a b : StronglySorted Z.lt (zrange a b).
Proof.
  unfold zrange. generalize (Z.to_nat (b - a)) as n. intros n. generalize 0%nat as s.
  induction n as [|n IH]; intros s; cbn; constructor.
  - apply IH.
  - rewrite Forall_forall. intros y Hy. apply in_map_iff in Hy. destruct Hy as (k & <- & Hk).
    apply in_seq in Hk. lia.
Qed.

Lemma sorted_Zlt_NoDup l : StronglySorted Z.lt l -> NoDup l.
Proof.
  induction 1 as [|x t Hs IH Hx]; constructor; [|assumption].
  intros Hin. rewrite Forall_forall in Hx. specialize (Hx x Hin). lia.
Qed.

Lemma sorted_perm_unique : forall l1 l2,
  StronglySorted Z.lt l1 -> StronglySorted Z.lt l2 -> Permutation l1 l2 -> l1 = l2.
Proof.
  induction l1 as [|x t IH]; intros l2 H1 H2 HP.
  - apply Permutation_nil in HP. subst. reflexivity.
  - destruct l2 as [|y u]; [apply Permutation_sym, Permutation_nil in HP; discriminate|].
    inversion H1 as [|? ? Ht Hx]; subst. inversion H2 as [|? ? Hu Hy]; subst.
    assert (x = y).
    { assert (Hxin : In x (y :: u)) by (eapply Permutation_in; [exact HP | left; reflexivity]).
      assert (Hyin : In y (x :: t)) by (eapply Permutation_in; [symmetry; exact HP | left; reflexivity]).
      rewrite Forall_forall in Hx, Hy.
      destruct Hxin as [->|Hxin]; [reflexivity|]. destruct Hyin as [->|Hyin]; [reflexivity|].
      specialize (Hx _ Hyin). specialize (Hy _ Hxin). lia. }
    subst y. f_equal. apply IH; [assumption | assumption |]. eapply Permutation_cons_inv. exact HP.
Qed.

Lemma map_snd_combine {A B} (l : list A) : forall (l' : list B), length l = length l' -> map snd (combine l l') = l'.
Proof.
  induction l as [|x t IH]; intros [|y u] H; cbn in *; try lia; [reflexivity|]. f_equal. apply IH. lia.
Qed.
Lemma map_fst_combine {A B} (l : list A) : forall (l' : list B), length l = length l' -> map fst (combine l l') = l.
Proof.
  induction l as [|x t IH]; intros [|y u] H; cbn in *; try lia; [reflexivity|]. f_equal. apply IH. lia.
Qed.

(* ---- the two tuple orders *)
Lemma pair_lt_iff p q : pair_lt p q = true <->
  is_nan (fst p) = false /\ is_nan (fst q) = false /\
  (ford (fst p) < ford (fst q) \/ (ford (fst p) = ford (fst q) /\ snd p < snd q)).
Proof.
  unfold pair_lt. rewrite orb_true_iff, andb_true_iff, flt_iff, feq_iff, Z.ltb_lt. tauto.
Qed.
Lemma pair_lt_trans a b c : pair_lt a b = true -> pair_lt b c = true -> pair_lt a c = true.
Proof. rewrite !pair_lt_iff. intuition lia. Qed.

Lemma idx_lt_iff p q : idx_lt p q = true <->
  (fst p < fst q \/ (fst p = fst q /\ flt (snd p) (snd q) = true)).
Proof. unfold idx_lt. rewrite orb_true_iff, andb_true_iff, Z.ltb_lt, Z.eqb_eq. tauto. Qed.
Lemma idx_lt_trans a b c : idx_lt a b = true -> idx_lt b c = true -> idx_lt a c = true.
Proof.
  rewrite !idx_lt_iff. intros [H1|[H1 H1']] [H2|[H2 H2']]; try (left; lia).
  right. split; [lia|]. eapply flt_trans; eassumption.
Qed.

(* ---- sorted_requests *)
Section Ungroup.
Variable keys : list fl.
Hypothesis keys_nonnan : Forall (fun x => is_nan x = false) keys.
Let n := length keys.
Let reqs := combine keys (zrange 0 (lenZ keys)).
Let SR := sorted_requests keys.

Lemma zr_len : length (zrange 0 (lenZ keys)) = n.
Proof. rewrite zrange_length. unfold lenZ, n. lia. Qed.

Lemma reqs_nth i : (i < n)%nat -> nth i reqs (FNaN, 0) = (nth i keys FNaN, Z.of_nat i).
Proof.
  intros Hi. unfold reqs. rewrite combine_nth by (rewrite zr_len; reflexivity).
  rewrite zrange_nth by (unfold lenZ; fold n; lia). reflexivity.
Qed.
Lemma reqs_len : length reqs = n.
Proof. unfold reqs. rewrite combine_length, zr_len. fold n. lia. Qed.

Lemma reqs_In p : In p reqs -> 0 <= snd p < Z.of_nat n /\ fst p = nth (Z.to_nat (snd p)) keys FNaN.
Proof.
  intros H. destruct (In_nth _ _ (FNaN, 0) H) as (i & Hi & Hp). rewrite reqs_len in Hi.
  rewrite reqs_nth in Hp by exact Hi. subst p. cbn. rewrite Nat2Z.id. split; [lia | reflexivity].
Qed.

Lemma SR_perm : Permutation reqs SR.
Proof. apply sort_by_perm. Qed.

Lemma SR_sorted : StronglySorted (LT pair_lt) SR.
Proof.
  apply (sort_by_sorted pair_lt pair_lt_trans). apply (FOP_of_nth _ (FNaN, 0)).
  fold reqs. intros i j Hij. rewrite reqs_len in Hij. rewrite !reqs_nth by lia.
  rewrite Forall_forall in keys_nonnan.
  assert (N1 : is_nan (nth i keys FNaN) = false) by (apply keys_nonnan, nth_In; fold n; lia).
  assert (N2 : is_nan (nth j keys FNaN) = false) by (apply keys_nonnan, nth_In; fold n; lia).
  unfold apart. rewrite !pair_lt_iff. cbn [fst snd].
  destruct (Z.lt_trichotomy (ford (nth i keys FNaN)) (ford (nth j keys FNaN))) as [H|[H|H]].
  - left. repeat split; auto.
  - left. repeat split; auto. right. split; [exact H | lia].
  - right. repeat split; auto.
Qed.

Lemma SR_len : length SR = n.
Proof. unfold SR, sorted_requests. rewrite sort_by_length. apply reqs_len. Qed.

Lemma idxs_perm : Permutation (zrange 0 (lenZ keys)) (map snd SR).
Proof.
  rewrite <- (map_snd_combine keys (zrange 0 (lenZ keys))) at 1 by (rewrite zr_len; reflexivity).
  apply Permutation_map. exact SR_perm.
Qed.

Lemma idxs_NoDup : NoDup (map snd SR).
Proof. eapply Permutation_NoDup; [exact idxs_perm | apply sorted_Zlt_NoDup, zrange_sorted]. Qed.

Lemma SR_nth_shape j : (j < n)%nat ->
  let p := nth j SR (FNaN, 0) in 0 <= snd p < Z.of_nat n /\ fst p = nth (Z.to_nat (snd p)) keys FNaN.
Proof.
  intros Hj. apply reqs_In. eapply Permutation_in; [symmetry; exact SR_perm|]. apply nth_In. rewrite SR_len. exact Hj.
Qed.

(* ---- ungroup *)
Variable L : list fl.
Hypothesis L_len : length L = n.

Let PL := combine (map snd SR) L.
Let S := sort_by idx_lt PL.

Lemma PL_len : length PL = n.
Proof. unfold PL. rewrite combine_length, map_length, SR_len, L_len. lia. Qed.

Lemma PL_nth j : (j < n)%nat -> nth j PL (0, FNaN) = (snd (nth j SR (FNaN, 0)), nth j L FNaN).
Proof.
  intros Hj. unfold PL. rewrite combine_nth by (rewrite map_length, SR_len, L_len; reflexivity).
  f_equal. change 0 with (snd (FNaN, 0)) at 1. apply map_nth.
Qed.

Lemma S_perm : Permutation PL S.
Proof. apply sort_by_perm. Qed.

Lemma S_sorted : StronglySorted (LT idx_lt) S.
Proof.
  apply (sort_by_sorted idx_lt idx_lt_trans). apply (FOP_of_nth _ (0, FNaN)).
  intros i j Hij. rewrite PL_len in Hij. rewrite !PL_nth by lia.
  assert (Hne : snd (nth i SR (FNaN, 0)) <> snd (nth j SR (FNaN, 0))).
  { intros Heq. pose proof idxs_NoDup as ND. rewrite (NoDup_nth _ 0) in ND.
    assert (i = j); [|lia]. apply ND; rewrite ?map_length, ?SR_len; try lia.
    change 0 with (snd (FNaN, 0)). rewrite !map_nth. exact Heq. }
  unfold apart. rewrite !idx_lt_iff. cbn [fst snd]. lia.
Qed.

Lemma S_fst : map fst S = zrange 0 (lenZ keys).
Proof.
  apply sorted_perm_unique.
  - assert (ND : NoDup (map fst S)).
    { eapply Permutation_NoDup; [apply Permutation_map; exact S_perm|].
      unfold PL. rewrite map_fst_combine by (rewrite map_length, SR_len, L_len; reflexivity). exact idxs_NoDup. }
    pose proof S_sorted as HS. revert ND. induction HS as [|x t Ht IH Hx]; intros ND; cbn; constructor.
    + apply IH. inversion ND; assumption.
    + inversion ND as [|? ? Hnotin _]; subst. rewrite Forall_forall in *. intros y Hy.
      apply in_map_iff in Hy. destruct Hy as (q & <- & Hq).
      specialize (Hx q Hq). unfold LT in Hx. apply idx_lt_iff in Hx.
      destruct Hx as [Hx|[Hx _]]; [exact Hx|]. exfalso. apply Hnotin. rewrite Hx. apply in_map. exact Hq.
  - apply zrange_sorted.
  - rewrite <- (Permutation_map fst S_perm). unfold PL.
    rewrite map_fst_combine by (rewrite map_length, SR_len, L_len; reflexivity).
    symmetry. exact idxs_perm.
Qed.

Lemma S_len : length S = n.
Proof. unfold S. rewrite sort_by_length. apply PL_len. Qed.

Lemma ungroup_len : length (ungroup keys L) = n.
Proof. unfold ungroup. rewrite map_length. apply S_len. Qed.

(* the request sorted into place j receives L[j] *)
Lemma ungroup_nth j : (j < n)%nat ->
  nth (Z.to_nat (snd (nth j SR (FNaN, 0)))) (ungroup keys L) FNaN = nth j L FNaN.
Proof.
  intros Hj.
  assert (Hin : In (nth j PL (0, FNaN)) S).
  { eapply Permutation_in; [exact S_perm|]. apply nth_In. rewrite PL_len. exact Hj. }
  destruct (In_nth _ _ (0, FNaN) Hin) as (t & Ht & Heq). rewrite S_len in Ht.
  rewrite PL_nth in Heq by exact Hj.
  assert (Hfst : fst (nth t S (0, FNaN)) = Z.of_nat t).
  { change 0 with (fst (0, FNaN)) at 1. rewrite <- (map_nth fst). rewrite S_fst.
    rewrite zrange_nth by (unfold lenZ; fold n; lia). cbn. lia. }
  rewrite Heq in Hfst. cbn in Hfst. rewrite Hfst, Nat2Z.id.
  unfold ungroup. fold SR. fold PL. fold S.
  change FNaN with (snd (0, FNaN)) at 1. rewrite (map_nth snd). rewrite Heq. reflexivity.
Qed.

Hypothesis L_sorted : StronglySorted Flt L.

Theorem ungroup_order k1 k2 : (k1 < n)%nat -> (k2 < n)%nat -> req_before keys k1 k2 ->
  Flt (nth k1 (ungroup keys L) FNaN) (nth k2 (ungroup keys L) FNaN).
Proof.
  intros H1 H2 Hreq.
  (* positions of k1, k2 among the sorted requests *)
  assert (Hpos : forall k, (k < n)%nat -> exists j, (j < n)%nat /\ snd (nth j SR (FNaN, 0)) = Z.of_nat k).
  { intros k Hk. assert (Hin : In (Z.of_nat k) (map snd SR)).
    { eapply Permutation_in; [exact idxs_perm|]. apply zrange_In. unfold lenZ. fold n. lia. }
    destruct (In_nth _ _ 0 Hin) as (j & Hj & Heq). rewrite map_length, SR_len in Hj.
    exists j. split; [exact Hj|]. rewrite <- Heq. change 0 with (snd (FNaN, 0)) at 2. symmetry. apply map_nth. }
  destruct (Hpos k1 H1) as (j1 & Hj1 & E1). destruct (Hpos k2 H2) as (j2 & Hj2 & E2).
  pose proof (ungroup_nth j1 Hj1) as U1. pose proof (ungroup_nth j2 Hj2) as U2.
  rewrite E1, Nat2Z.id in U1. rewrite E2, Nat2Z.id in U2. rewrite U1, U2.
  destruct (SR_nth_shape j1 Hj1) as [_ F1]. destruct (SR_nth_shape j2 Hj2) as [_ F2].
  rewrite E1, Nat2Z.id in F1. rewrite E2, Nat2Z.id in F2.
  assert (Hlt12 : pair_lt (nth j1 SR (FNaN, 0)) (nth j2 SR (FNaN, 0)) = true).
  { apply pair_lt_iff. rewrite F1, F2, E1, E2. unfold req_before, Flt in Hreq.
    destruct Hreq as [Hreq|[Hreq Hk]].
    - apply flt_iff in Hreq. intuition.
    - apply feq_iff in Hreq. intuition lia. }
  destruct (Nat.lt_trichotomy j1 j2) as [Hlt|[Heq|Hgt]].
  - apply (StronglySorted_nth _ FNaN _ L_sorted). rewrite L_len. lia.
  - subst j2. apply pair_lt_iff in Hlt12. lia.
  - pose proof (StronglySorted_nth _ (FNaN, 0) _ SR_sorted j2 j1) as Hc. rewrite SR_len in Hc.
    specialize (Hc ltac:(lia)). unfold LT in Hc. apply pair_lt_iff in Hc. apply pair_lt_iff in Hlt12. lia.
Qed.

Lemma ungroup_In x : In x (ungroup keys L) -> In x L.
Proof.
  unfold ungroup. fold SR. fold PL. fold S. intros H. apply in_map_iff in H. destruct H as (p & <- & Hp).
  assert (Hp' : In p PL) by (eapply Permutation_in; [symmetry; exact S_perm | exact Hp]).
  unfold PL in Hp'. destruct p as [a b]. apply in_combine_r in Hp'. exact Hp'.
Qed.

End Ungroup.

(* ---- the groups: each sorted request is counted under the index bisect_left gives it, i.e. before the
   existing rows with an equal position *)
Lemma group_counts_flatten l :
  concat (map (fun g => repeat (fst g) (Z.to_nat (snd g))) (group_counts l)) = l /\
  Forall (fun g => 0 < snd g) (group_counts l).
Proof.
  induction l as [|x t [IH1 IH2]]; cbn; [split; [reflexivity | constructor]|].
  destruct (group_counts t) as [|[y c] r] eqn:E.
  - cbn in IH1. subst t. cbn. split; [reflexivity | repeat constructor].
  - inversion IH2 as [|? ? Hc Hr]; subst. cbn in Hc. destruct (Z.eqb_spec x y) as [->|Hne].
    + split; [|constructor; [cbn; lia | assumption]].
      cbn [map concat fst snd]. replace (Z.to_nat (c + 1)) with (Datatypes.S (Z.to_nat c)) by lia. reflexivity.
    + split; [|constructor; [cbn; lia | constructor; assumption]]. reflexivity.
Qed.
