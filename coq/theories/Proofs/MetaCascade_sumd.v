(* K6 proofs: display-column copies made for the group-by columns of a new summary table. *)
From Coq Require Import ZArith List Bool Lia.
Import ListNotations.
Require Import Grist.Model.MetaCascade Grist.Proofs.MetaCascade_base Grist.Proofs.MetaCascade_inv
  Grist.Proofs.MetaCascade_rm
  Grist.Proofs.MetaCascade_add Grist.Proofs.MetaCascade_add2 Grist.Proofs.MetaCascade_add3
  Grist.Proofs.MetaCascade_add6 Grist.Proofs.MetaCascade_upd.
Open Scope Z_scope.

(* what the later steps need from a state change that only touches column records *)
Definition same_frame (m m' : meta) : Prop :=
  tids m' = tids m /\ m_views m' = m_views m /\ m_sections m' = m_sections m /\ m_tables m' = m_tables m.

Lemma same_frame_refl : forall m, same_frame m m.
Proof. intros. unfold same_frame. tauto. Qed.

Lemma same_frame_trans : forall a b c, same_frame a b -> same_frame b c -> same_frame a c.
Proof. intros a b c [A1 [A2 [A3 A4]]] [B1 [B2 [B3 B4]]]. unfold same_frame. repeat split; congruence. Qed.

Lemma upd_column_frame : forall i g m, same_frame m (upd_column i g m).
Proof. intros. unfold same_frame, upd_column, set_columns, tids. simpl. tauto. Qed.

Lemma do_add_column_same_frame : forall t k r m, same_frame m (fst (do_add_column t k r m)).
Proof. intros. destruct m. unfold same_frame, do_add_column, set_columns, tids. simpl. tauto. Qed.

Lemma set_display_col_inv : forall g d m, Inv m -> Optref (cids m) d -> Inv (upd_column g (with_display d) m).
Proof.
  intros g d m HI Hd. apply upd_column_inv; [exact HI | intros; split; reflexivity |].
  intros c Hc. apply ColOk_with_display; [apply (inv_col [] m HI c Hc) | exact Hd].
Qed.

Lemma copy_displays_inv : forall t ps m m', Inv m -> In t (tids m) -> copy_displays t ps m = Ok m' ->
  Inv m' /\ same_frame m m'.
Proof.
  intros t ps. induction ps as [|[[g sd] d] rest IH]; intros m m' HI Ht H; cbn [copy_displays] in H.
  - inversion H; subst. split; [exact HI | apply same_frame_refl].
  - destruct (sd =? 0).
    + destruct (d =? 0); [apply IH; assumption | discriminate].
    + destruct (d =? next_id (cids m)).
      * pose proof (do_add_column_inv [] t K_DISPLAY 0 m HI Ht) as J.
        destruct (do_add_column_extend t K_DISPLAY 0 m) as [E1 E2].
        pose proof (do_add_column_same_frame t K_DISPLAY 0 m) as F.
        destruct (do_add_column t K_DISPLAY 0 m) as [m1 h]. simpl in J, E1, E2, F.
        assert (Hh : Optref (cids m1) h).
        { right. rewrite E1, E2. unfold cids, extend. simpl. rewrite map_app. apply in_app_iff. right. left. reflexivity. }
        pose proof (set_display_col_inv g h m1 J Hh) as J2.
        assert (Ht2 : In t (tids (upd_column g (with_display h) m1))).
        { destruct (upd_column_frame g (with_display h) m1) as [T _]. rewrite T. destruct F as [T1 _]. rewrite T1. exact Ht. }
        destruct (IH _ _ J2 Ht2 H) as [K1 K2]. split; [exact K1|].
        apply (same_frame_trans _ m1); [exact F|]. apply (same_frame_trans _ _ _ (upd_column_frame g (with_display h) m1) K2).
      * destruct (existsb _ (m_columns m)) eqn:Ex; [|discriminate].
        assert (Hd : Optref (cids m) d).
        { right. apply existsb_exists in Ex. destruct Ex as [c [Hc Hp]].
          apply andb_true_iff in Hp. destruct Hp as [Hp _]. apply andb_true_iff in Hp. destruct Hp as [Hp _].
          apply Z.eqb_eq in Hp. rewrite <- Hp. unfold cids. apply in_map. exact Hc. }
        pose proof (set_display_col_inv g d m HI Hd) as J2.
        assert (Ht2 : In t (tids (upd_column g (with_display d) m))).
        { destruct (upd_column_frame g (with_display d) m) as [T _]. rewrite T. exact Ht. }
        destruct (IH _ _ J2 Ht2 H) as [K1 K2]. split; [exact K1|].
        apply (same_frame_trans _ _ _ (upd_column_frame g (with_display d) m) K2).
Qed.

Lemma add_summary_table_sections0 : forall name src gb gbkinds fkinds m m' t,
  add_summary_table name src gb gbkinds fkinds m = Ok (m', t) -> incl (m_sections m) (m_sections m').
Proof.
  intros name src gb gbkinds fkinds m m' t H. unfold add_summary_table in H.
  destruct (mem name (m_schema m) || mem name (map t_name (m_tables m))); [discriminate|].
  destruct (negb (Nat.eqb (length gb) (length gbkinds)) || negb (nodupb gb)); [discriminate|].
  unfold add_section in H. cbv zeta in H. cbn [fst snd] in H. inversion H; subst m'. clear H.
  unfold set_tables, add_fields, set_fields, set_sections. cbn [m_sections]. apply incl_appl, incl_refl.
Qed.

Lemma add_summary_table_d_inv : forall name src gb gbkinds fkinds dcopies m m' t,
  Inv m -> In src (tids m) -> incl gb (cids m) ->
  add_summary_table_d name src gb gbkinds fkinds dcopies m = Ok (m', t) ->
  Inv m' /\ In t (tids m') /\ m_views m' = m_views m /\ incl (m_sections m) (m_sections m').
Proof.
  intros name src gb gbkinds fkinds dcopies m m' t HI Hs Hg H. unfold add_summary_table_d in H.
  destruct (negb (Nat.eqb (length dcopies) (length gb))); [discriminate|].
  destruct (add_summary_table name src gb gbkinds fkinds m) as [[m1 t1]| |] eqn:E; unfold bind in H; try discriminate.
  cbv beta iota zeta in H.
  destruct (add_summary_table_inv _ _ _ _ _ _ _ _ HI Hs Hg E) as [J1 [J2 [J3 _]]].
  pose proof (add_summary_table_sections0 _ _ _ _ _ _ _ _ E) as J4.
  match type of H with context [copy_displays ?a ?b ?c] => destruct (copy_displays a b c) as [m2| |] eqn:Ec end;
    try discriminate.
  inversion H; subst m' t. clear H.
  destruct (copy_displays_inv _ _ _ _ J1 J2 Ec) as [K1 [T [V [S _]]]].
  split; [exact K1|]. split; [rewrite T; exact J2|]. split; [rewrite V; exact J3 | rewrite S; exact J4].
Qed.
