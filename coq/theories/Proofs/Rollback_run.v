(* Run-level theorems: rollback restores the document (C04, C29). *)
From stdpp Require Import gmap sorting.
Require Import Grist.Model.Rollback Grist.Proofs.Rollback_proofs Grist.Proofs.Rollback_actions Grist.Proofs.Rollback_undo.
Open Scope Z_scope.

Definition no_replace (a : action) : Prop := match a with ReplaceTableData _ _ _ => False | _ => True end.
Definition no_replace_ev (e : event) : Prop := match e with EDoc a => no_replace a | ECalc _ _ _ => True end.

Lemma replay_app ord l1 : forall d l2, replay ord d (l1 ++ l2) = replay ord d l1 ≫= fun d' => replay ord d' l2.
Proof.
  induction l1 as [|a l1 IH]; intros d l2; simpl; [reflexivity|].
  destruct (apply_doc ord d a); simpl; [apply IH|reflexivity].
Qed.

(* what a completed doc action leaves: a well-formed document, its undo appended, and -- unless it put deltas
   into the summary -- replaying that undo (newest first) gives the previous document back *)
Definition action_post (ord : name -> list name) (d : doc) (u : list action) (p : list delta) (st' : mstate) : Prop :=
  wf (ms_doc st') /\ ms_saved st' = None /\
  exists ua pa, ms_undo st' = u ++ ua /\ ms_pending st' = p ++ pa /\
    (pa = [] -> replay ord (ms_doc st') (rev ua) = Some d).

Lemma replay1 ord d a d' : apply_doc ord d a = Some d' -> replay ord d [a] = Some d'.
Proof. intros H. simpl. rewrite H. reflexivity. Qed.

Lemma action_post_simple ord d u p d' a :
  wf d' -> apply_doc ord d' a = Some d -> action_post ord d u p (MState d' (u ++ [a]) p None).
Proof.
  intros Hw Ha. split; [exact Hw|]. split; [reflexivity|]. exists [a], []. simpl.
  split; [reflexivity|]. split; [rewrite app_nil_r; reflexivity|]. intros _. rewrite Ha. reflexivity.
Qed.

Lemma action_undo ord d a u p st' :
  wf d -> no_replace a ->
  exec_all (MState d u p None) (doc_steps ord d a) = Some st' -> action_post ord d u p st'.
Proof.
  intros Hw Hnr H. unfold doc_steps in H.
  assert (Hrec : forall t, (d_tables d !! t = None -> steps_of ord d (normalize a) = [MFail]) ->
             exists tb sc, d_tables d !! t = Some tb /\ d_schema d !! t = Some sc).
  { intros t Hf. destruct (d_tables d !! t) as [tb|] eqn:Ht.
    - destruct (wf_schema_of_table _ _ _ Hw Ht) as (sc & Hs & _). eauto.
    - rewrite (Hf eq_refl) in H. discriminate. }
  destruct a as [t r vals|t rows vals|t r|t rows|t r vals|t rows vals|t rows vals|t c ci|t c|t c c'|t c m|t cols|t|t t'];
    simpl normalize in *; try contradiction.
  - (* AddRecord *)
    destruct (Hrec t) as (tb & sc & Ht & Hs); [intros E; unfold steps_of; rewrite E; reflexivity|].
    destruct (exec_add _ _ _ _ _ _ _ _ _ _ Ht H) as (Hr & Hk & ->).
    destruct (undo_add ord d t tb sc _ _ Hw Ht Hs Hr Hk) as [Hw' Hu]. apply action_post_simple; assumption.
  - (* BulkAddRecord *)
    destruct (Hrec t) as (tb & sc & Ht & Hs); [intros E; unfold steps_of; rewrite E; reflexivity|].
    destruct (exec_add _ _ _ _ _ _ _ _ _ _ Ht H) as (Hr & Hk & ->).
    destruct (undo_add ord d t tb sc _ _ Hw Ht Hs Hr Hk) as [Hw' Hu]. apply action_post_simple; assumption.
  - (* RemoveRecord *)
    destruct (Hrec t) as (tb & sc & Ht & Hs); [intros E; unfold steps_of; rewrite E; reflexivity|].
    destruct (exec_remove _ _ _ _ _ _ _ _ _ Ht H) as [[_ ->]|[_ ->]].
    + split; [exact Hw|]. split; [reflexivity|]. exists [], []. rewrite !app_nil_r. auto.
    + destruct (undo_remove ord d t tb sc [r] Hw Ht Hs) as [Hw' Hu]. apply action_post_simple; assumption.
  - (* BulkRemoveRecord *)
    destruct (Hrec t) as (tb & sc & Ht & Hs); [intros E; unfold steps_of; rewrite E; reflexivity|].
    destruct (exec_remove _ _ _ _ _ _ _ _ _ Ht H) as [[_ ->]|[_ ->]].
    + split; [exact Hw|]. split; [reflexivity|]. exists [], []. rewrite !app_nil_r. auto.
    + destruct (undo_remove ord d t tb sc rows Hw Ht Hs) as [Hw' Hu]. apply action_post_simple; assumption.
  - (* UpdateRecord *)
    destruct (Hrec t) as (tb & sc & Ht & Hs); [intros E; unfold steps_of; rewrite E; reflexivity|].
    destruct (exec_update _ _ _ _ _ _ _ _ _ _ Ht H) as (Hr & Hk & ->).
    destruct (undo_update ord d t tb sc _ _ Hw Ht Hs Hr Hk) as [Hw' Hu]. apply action_post_simple; assumption.
  - (* BulkUpdateRecord *)
    destruct (Hrec t) as (tb & sc & Ht & Hs); [intros E; unfold steps_of; rewrite E; reflexivity|].
    destruct (exec_update _ _ _ _ _ _ _ _ _ _ Ht H) as (Hr & Hk & ->).
    destruct (undo_update ord d t tb sc _ _ Hw Ht Hs Hr Hk) as [Hw' Hu]. apply action_post_simple; assumption.
  - (* AddColumn *)
    destruct (exec_add_column _ _ _ _ _ _ _ _ Hw H) as (tb & sc & Ht & Hs & Hc & ->).
    destruct (undo_add_column ord d t c ci tb sc Hw Ht Hs Hc) as [Hw' Hu]. apply action_post_simple; assumption.
  - (* RemoveColumn *)
    destruct (exec_remove_column _ _ _ _ _ _ _ Hw H) as (tb & sc & col & ci & Ht & Hs & Hc & Hsc & Hdoc & Hsaved & Hcases).
    assert (Hwt : wf_table sc tb) by (eapply wf_lookup; eauto).
    assert (Hci : ci = c_info col) by (destruct (wf_table_col _ _ _ _ Hwt Hc); congruence). subst ci.
    destruct (undo_remove_column_data ord d t c tb sc col Hw Ht Hs Hc) as (Hw' & Hu0 & Hu1).
    split; [rewrite Hdoc; exact Hw'|]. split; [exact Hsaved|]. rewrite Hdoc.
    destruct Hcases as [(Hnd & Hun & Hp)|[(Hnd & Hf & Hp & Hun)|(Hnd & Hf & Hun & dl & Hdl & Hp)]].
    + eexists _, []. split; [exact Hun|]. split; [rewrite app_nil_r; exact Hp|]. intros _. simpl. rewrite (Hu0 Hnd). reflexivity.
    + eexists _, []. split; [exact Hun|]. split; [rewrite app_nil_r; exact Hp|]. intros _.
      destruct (Hu1 Hnd) as (d'' & Ha & Hb). simpl. rewrite Ha, Hb. reflexivity.
    + eexists _, dl. split; [exact Hun|]. split; [exact Hp|]. intros E. contradiction.
  - (* RenameColumn *)
    destruct (exec_rename_column _ _ _ _ _ _ _ _ Hw H) as (tb & sc & col & Ht & Hs & Hc & Hc' & ->).
    destruct (undo_rename_column ord d t c c' tb sc col Hw Ht Hs Hc Hc') as [Hw' Hu]. apply action_post_simple; assumption.
  - (* ModifyColumn *)
    destruct (exec_modify_column _ _ _ _ _ _ _ _ Hw H) as (tb & sc & col & Ht & Hs & Hc & [[_ ->]|[Hne ->]]).
    + split; [exact Hw|]. split; [reflexivity|]. exists [], []. rewrite !app_nil_r. auto.
    + destruct (undo_modify_column ord d t c m tb sc col Hw Ht Hs Hc Hne) as [Hw' Hu]. apply action_post_simple; assumption.
  - (* AddTable *)
    destruct (exec_add_table _ _ _ _ _ _ _ Hw H) as (Ht & ->).
    destruct (undo_add_table ord d t cols Hw Ht) as [Hw' Hu]. apply action_post_simple; assumption.
  - (* RemoveTable *)
    destruct (exec_remove_table _ _ _ _ _ _ Hw H) as (tb & sc & Ht & Hs & ->).
    destruct (undo_remove_table ord d t tb sc Hw Ht Hs) as [Hw' Hu].
    split; [exact Hw'|]. split; [reflexivity|]. eexists _, []. split; [reflexivity|]. split; [rewrite app_nil_r; reflexivity|]. intros _. exact Hu.
  - (* RenameTable *)
    destruct (exec_rename_table _ _ _ _ _ _ _ Hw H) as (tb & sc & Ht & Hs & Ht' & ->).
    destruct (undo_rename_table ord d t t' tb sc Hw Ht Hs Ht') as [Hw' Hu]. apply action_post_simple; assumption.
Qed.
(* ---------------------------------------------------------------------------------------------------------- *)
(* pending deltas only grow *)
Lemma exec_step_pending st m st' : exec_step st m = Some st' -> exists pa, ms_pending st' = ms_pending st ++ pa.
Proof.
  destruct m as [| | | | | | | | | | | | |s]; simpl; intros H; try discriminate; try (injection H as <-; exists []; rewrite app_nil_r; reflexivity).
  destruct s; injection H as <-; try (exists []; rewrite app_nil_r; reflexivity). eexists. reflexivity.
Qed.

Lemma exec_all_pending l : forall st st', exec_all st l = Some st' -> exists pa, ms_pending st' = ms_pending st ++ pa.
Proof.
  induction l as [|m l IH]; intros st st' H; simpl in H.
  - injection H as <-. exists []. rewrite app_nil_r. reflexivity.
  - destruct (exec_step st m) as [st1|] eqn:E; [|discriminate].
    destruct (exec_step_pending _ _ _ E) as (p1 & H1). destruct (IH _ _ H) as (p2 & H2).
    exists (p1 ++ p2). rewrite H2, H1, app_assoc. reflexivity.
Qed.

(* exec_upto runs a prefix of the steps *)
Lemma exec_upto_spec steps : forall st k acc st' done r,
  exec_upto st steps k acc = (st', done, r) ->
  exists l rest, done = acc ++ l /\ steps = l ++ rest /\ exec_all st l = Some st' /\ (is_Some r -> rest = []).
Proof.
  induction steps as [|m steps IH]; intros st k acc st' done r H; simpl in H.
  - injection H as <- <- <-. exists [], []. rewrite app_nil_r. auto.
  - destruct k as [|k].
    + injection H as <- <- <-. exists [], (m :: steps). rewrite app_nil_r. split; [reflexivity|]. split; [reflexivity|]. split; [reflexivity|]. intros [? ?]; discriminate.
    + destruct (exec_step st m) as [st1|] eqn:E.
      * destruct (IH _ _ _ _ _ _ H) as (l & rest & -> & -> & Hex & Hr). exists (m :: l), rest.
        rewrite <- app_assoc. split; [reflexivity|]. split; [reflexivity|]. split; [simpl; rewrite E; exact Hex|exact Hr].
      * injection H as <- <- <-. exists [], (m :: steps). rewrite app_nil_r. split; [reflexivity|]. split; [reflexivity|]. split; [reflexivity|]. intros [? ?]; discriminate.
Qed.

Lemma run_pending ord es : forall st k st_k cur done,
  run_until_crash ord st es k = Crashed st_k cur done -> exists pa, ms_pending st_k = ms_pending st ++ pa.
Proof.
  induction es as [|e es IH]; intros st k st_k cur done H; simpl in H.
  - destruct k; [|discriminate]. injection H as <- <- <-. exists []. rewrite app_nil_r. reflexivity.
  - destruct (exec_upto st (event_steps ord (ms_doc st) e) k []) as [[st' dn] r] eqn:E.
    destruct (exec_upto_spec _ _ _ _ _ _ _ E) as (l & rest & _ & _ & Hex & _).
    destruct (exec_all_pending _ _ _ Hex) as (p1 & H1). destruct r as [k'|].
    + destruct (IH _ _ _ _ _ H) as (p2 & H2). exists (p1 ++ p2). rewrite H2, H1, app_assoc. reflexivity.
    + injection H as <- <- <-. exists p1. exact H1.
Qed.

(* ---------------------------------------------------------------------------------------------------------- *)
Section Run.
  Variable ord : name -> list name.
  Variable s0 : doc.
  Variable u0 : list action.

  (* between events: the document is well-formed, no schema action is open, and replaying the undo actions
     appended since the checkpoint (newest first) gives the checkpointed document *)
  Definition Inv (st : mstate) : Prop :=
    wf (ms_doc st) /\ ms_saved st = None /\
    exists ua, ms_undo st = u0 ++ ua /\ replay ord (ms_doc st) (rev ua) = Some s0.

  Lemma event_complete st e st' :
    Inv st -> no_replace_ev e -> ms_pending st = [] ->
    exec_all st (event_steps ord (ms_doc st) e) = Some st' -> ms_pending st' = [] -> Inv st'.
  Proof.
    intros (Hw & Hsv & ua & Hu & Hre) Hnr Hp H Hp'. destruct e as [a|t c cells].
    - simpl in H. rewrite <- (mstate_eta st), Hsv in H.
      destruct (action_undo ord _ a _ _ _ Hw Hnr H) as (Hw' & Hsv' & ua' & pa & Hu' & Hpa & Hrep).
      split; [exact Hw'|]. split; [exact Hsv'|]. exists (ua ++ ua'). split; [rewrite Hu', Hu, app_assoc; reflexivity|].
      rewrite rev_app_distr, replay_app. rewrite Hrep; [exact Hre|].
      rewrite Hpa, Hp in Hp'. exact Hp'.
    - simpl in H. destruct cells as [|rv cells]; [simpl in H; injection H as <-; split; [exact Hw|]; split; [exact Hsv|]; eauto|].
      exfalso. destruct (d_tables (ms_doc st) !! t) as [tb|]; [|discriminate].
      destruct (t_cols tb !! c) as [col|]; [|discriminate].
      destruct (bool_decide (Forall _ (rv :: cells))); [|discriminate].
      rewrite exec_all_app in H. destruct (exec_all st _) as [st1|]; [|discriminate]. simpl in H. injection H as <-.
      simpl in Hp'. apply app_eq_nil in Hp' as [_ Hx]. discriminate.
  Qed.

  Lemma exec_saves l : forall st st',
    Forall (fun m => m = MSave) l -> exec_all st l = Some st' ->
    ms_doc st' = ms_doc st /\ ms_undo st' = ms_undo st /\
    (ms_saved st' = ms_saved st \/ ms_saved st' = Some (d_schema (ms_doc st))).
  Proof.
    induction l as [|m l IH]; intros st st' Hl H.
    - injection H as <-. auto.
    - inversion Hl as [|? ? -> Hl']; subst. simpl in H. destruct (IH _ _ Hl' H) as (H1 & H2 & H3). simpl in *.
      split; [exact H1|]. split; [exact H2|]. right. destruct H3 as [H3|H3]; exact H3.
  Qed.

  Lemma rollback_inv st st' :
    Inv st -> ms_doc st' = ms_doc st -> ms_undo st' = ms_undo st ->
    (ms_saved st' = None \/ ms_saved st' = Some (d_schema (ms_doc st))) ->
    rollback ord (length u0) st' = Some s0.
  Proof.
    intros (Hw & Hsv & ua & Hu & Hre) Hd Hun Hs. unfold rollback, restore_schema.
    rewrite Hun, Hu, drop_app.
    destruct Hs as [->| ->]; [rewrite Hd; exact Hre|].
    rewrite Hd, doc_eta, (rebuild_id _ Hw). exact Hre.
  Qed.

  (* crash points between doc actions (at most the saved_schema clone of the next schema action has run) *)
  Theorem rollback_between_actions es : forall st k st_k cur done,
    Inv st -> Forall no_replace_ev es ->
    run_until_crash ord st es k = Crashed st_k cur done ->
    ms_pending st_k = [] -> Forall (fun m => m = MSave) done ->
    rollback ord (length u0) st_k = Some s0.
  Proof.
    induction es as [|e es IH]; intros st k st_k cur done HI Hnr H Hp Hdone; simpl in H.
    - destruct k; [|discriminate]. injection H as <- <- <-. apply (rollback_inv st); auto. left. exact (proj1 (proj2 HI)).
    - inversion Hnr as [|? ? Hnr1 Hnr2]; subst.
      destruct (exec_upto st (event_steps ord (ms_doc st) e) k []) as [[st' dn] r] eqn:E.
      destruct (exec_upto_spec _ _ _ _ _ _ _ E) as (l & rest & Hdn & Hsteps & Hex & Hrest). simpl in Hdn. subst dn.
      destruct r as [k'|].
      + rewrite (Hrest (ltac:(eauto))), app_nil_r in Hsteps. subst l.
        destruct (run_pending _ _ _ _ _ _ _ H) as (p2 & Hp2). rewrite Hp in Hp2. symmetry in Hp2. apply app_eq_nil in Hp2 as [Hp' _].
        destruct (exec_all_pending _ _ _ Hex) as (p1 & Hp1). rewrite Hp' in Hp1. symmetry in Hp1. apply app_eq_nil in Hp1 as [Hp0 _].
        eapply IH; [eapply event_complete; eauto|exact Hnr2|exact H|exact Hp|exact Hdone].
      + injection H as <- <- <-. destruct (exec_saves _ _ _ Hdone Hex) as (H1 & H2 & H3).
        apply (rollback_inv st); auto. rewrite (proj1 (proj2 HI)) in H3. exact H3.
  Qed.
End Run.

Lemma Inv_init ord s u0 : wf s -> Inv ord s u0 (init_state s u0).
Proof.
  intros Hw. split; [exact Hw|]. split; [reflexivity|]. exists []. simpl. rewrite app_nil_r. auto.
Qed.

(* a failure before the first micro-step (validation failure): nothing ran, rollback is the identity *)
Lemma crash_at_zero ord es : forall st st_k cur done,
  run_until_crash ord st es 0 = Crashed st_k cur done -> st_k = st /\ done = [].
Proof.
  induction es as [|e es IH]; intros st st_k cur done H; simpl in H.
  - injection H as <- <- <-. auto.
  - destruct (event_steps ord (ms_doc st) e) as [|m steps]; simpl in H; [apply (IH _ _ _ _ H)|].
    injection H as <- <- <-. auto.
Qed.

Lemma rollback_validation_failure ord s u0 es st cur done :
  run_until_crash ord (init_state s u0) es 0 = Crashed st cur done -> rollback ord (length u0) st = Some s.
Proof.
  intros H. destruct (crash_at_zero _ _ _ _ _ _ H) as [-> _]. unfold rollback, restore_schema. simpl.
  rewrite drop_all. reflexivity.
Qed.

Theorem rollback_partial ord s u0 es k st cur done :
  wf s -> Forall no_replace_ev es ->
  run_until_crash ord (init_state s u0) es k = Crashed st cur done ->
  ms_pending st = [] -> Forall (fun m => m = MSave) done ->
  rollback ord (length u0) st = Some s.
Proof. intros Hw. apply rollback_between_actions. apply Inv_init. exact Hw. Qed.

(* ---------------------------------------------------------------------------------------------------------- *)
(* complete execution of the events (get_formula_value: evaluation finished or raised, then the finally clause) *)
Lemma state_after_pending ord es : forall st st',
  state_after ord st es = Some st' -> exists pa, ms_pending st' = ms_pending st ++ pa.
Proof.
  induction es as [|e es IH]; intros st st' H; simpl in H.
  - injection H as <-. exists []. rewrite app_nil_r. reflexivity.
  - destruct (exec_all st (event_steps ord (ms_doc st) e)) as [st1|] eqn:E; [|discriminate].
    destruct (exec_all_pending _ _ _ E) as (p1 & H1). destruct (IH _ _ H) as (p2 & H2).
    exists (p1 ++ p2). rewrite H2, H1, app_assoc. reflexivity.
Qed.

Lemma state_after_inv ord s0 u0 es : forall st st',
  Inv ord s0 u0 st -> Forall no_replace_ev es -> state_after ord st es = Some st' -> ms_pending st' = [] ->
  Inv ord s0 u0 st'.
Proof.
  induction es as [|e es IH]; intros st st' HI Hnr H Hp; simpl in H.
  - injection H as <-. exact HI.
  - inversion Hnr as [|? ? Hnr1 Hnr2]; subst.
    destruct (exec_all st (event_steps ord (ms_doc st) e)) as [st1|] eqn:E; [|discriminate].
    destruct (state_after_pending _ _ _ _ H) as (p2 & Hp2). rewrite Hp in Hp2. symmetry in Hp2. apply app_eq_nil in Hp2 as [Hp1 _].
    destruct (exec_all_pending _ _ _ E) as (p1 & Hp1'). rewrite Hp1 in Hp1'. symmetry in Hp1'. apply app_eq_nil in Hp1' as [Hp0 _].
    eapply IH; [eapply event_complete; eauto|exact Hnr2|exact H|exact Hp].
Qed.

Theorem rollback_after_all ord s u0 es st :
  wf s -> Forall no_replace_ev es -> state_after ord (init_state s u0) es = Some st -> ms_pending st = [] ->
  rollback ord (length u0) st = Some s.
Proof.
  intros Hw Hnr H Hp. pose proof (state_after_inv ord s u0 es _ _ (Inv_init ord s u0 Hw) Hnr H Hp) as HI.
  apply (rollback_inv ord s u0 st st HI); auto. left. exact (proj1 (proj2 HI)).
Qed.
