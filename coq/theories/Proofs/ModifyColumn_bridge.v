(* C23: the loops regenerated from /repo (GristGen.ModifyColumn_gen) are the hand model's loops, pointwise. *)
From Coq Require Import ZArith List Bool Lia.
Import ListNotations.
Require Import Grist.Model.ModifyColumn Grist.Proofs.ModifyColumn_proofs GristGen.ModifyColumn_gen.

Section Bridge.
  Variable V : Type.
  Variable col_convert : V -> V.
  Variable col_set : V -> V.
  Variable strict_equal : V -> V -> bool.
  Variable dflt : V.

  (* docactions.ModifyColumn: `for row_id in table.row_ids: new_column.set(row_id, old_column.raw_get(row_id))` *)
  Lemma fill_loop_bridge : forall rows old new,
    fill_loop_gen V col_set dflt rows old new = da_fill V col_set dflt rows old new.
  Proof. reflexivity. Qed.

  Definition old_values (old : column V) : nat -> V := fun r => raw_get V (c_default old) (c_data old) r.

  (* useractions.doModifyColumn: the conversion loop and the `changes` it collects *)
  Definition conv_step (old : column V) (st : list V * list (nat * V * V)) (r : nat) : list V * list (nat * V * V) :=
    let ov := old_values old r in
    if strict_equal ov (col_convert ov) then st
    else (store V dflt (fst st) r (col_set (col_convert ov)), snd st ++ [(r, ov, col_set (col_convert ov))]).

  Lemma fold_left_ext : forall {A B} (f g : A -> B -> A) l a, (forall x y, f x y = g x y) -> fold_left f l a = fold_left g l a.
  Proof. intros A B f g l. induction l as [|y t IH]; intros a H; cbn; [reflexivity|]. rewrite H. apply IH. exact H. Qed.

  (* the regenerated loop is a fold of conv_step: one iteration of its body is conv_step *)
  Lemma conv_loop_is_fold : forall rows old new,
    conv_loop_gen V col_convert col_set strict_equal dflt rows (old_values old) new = fold_left (conv_step old) rows (new, []).
  Proof.
    intros rows old new. unfold conv_loop_gen. cbv zeta.
    lazymatch goal with
    | |- (match ?X with (_, _) => _ end) = _ => transitivity X; [destruct X; reflexivity|]
    end.
    apply fold_left_ext. intros [nc ch] r. unfold conv_step. cbv zeta. cbn [fst snd].
    destruct (strict_equal (old_values old r) (col_convert (old_values old r))); cbn [negb]; [reflexivity|].
    rewrite (store_same V). reflexivity.
  Qed.

  Lemma conv_fold_model : forall rows old new ch,
    fold_left (conv_step old) rows (new, ch) =
    (ua_convert V col_convert col_set strict_equal dflt rows old new,
     ch ++ ua_changes V col_convert col_set strict_equal rows old).
  Proof.
    induction rows as [|r rows IH]; intros old new ch.
    - cbn. rewrite app_nil_r. reflexivity.
    - cbn [fold_left]. unfold conv_step at 2. cbv zeta. unfold old_values.
      unfold ua_convert, ua_changes. cbn [fold_left flat_map]. cbv zeta.
      destruct (strict_equal (raw_get V (c_default old) (c_data old) r)
                             (col_convert (raw_get V (c_default old) (c_data old) r))) eqn:E.
      + rewrite IH. reflexivity.
      + cbn [fst snd]. rewrite IH. unfold ua_convert, ua_changes. rewrite <- app_assoc. reflexivity.
  Qed.

  Lemma conv_loop_bridge : forall rows old new,
    conv_loop_gen V col_convert col_set strict_equal dflt rows (old_values old) new =
    (ua_convert V col_convert col_set strict_equal dflt rows old new,
     ua_changes V col_convert col_set strict_equal rows old).
  Proof. intros. rewrite conv_loop_is_fold, conv_fold_model. reflexivity. Qed.

  (* the new column object as the regenerated code builds it *)
  Definition new_data_gen (size0 : nat) (rows : list nat) (old : column V) : list V :=
    fst (conv_loop_gen V col_convert col_set strict_equal dflt rows (old_values old)
           (fill_loop_gen V col_set dflt rows old (repeat dflt size0))).

  Lemma new_data_bridge : forall size0 rows old,
    new_data_gen size0 rows old = c_data (new_column V col_convert col_set strict_equal dflt size0 rows old).
  Proof.
    intros. unfold new_data_gen. rewrite fill_loop_bridge, conv_loop_bridge. reflexivity.
  Qed.

  Lemma code_cell : forall size0 rows old r, In r rows ->
    let ov := raw_get V (c_default old) (c_data old) r in
    raw_get V dflt (new_data_gen size0 rows old) r =
    if strict_equal ov (col_convert ov) then col_set ov else col_set (col_convert ov).
  Proof.
    intros size0 rows old r Hin ov. rewrite new_data_bridge.
    apply (new_column_cell V col_convert col_set strict_equal dflt). exact Hin.
  Qed.
End Bridge.
