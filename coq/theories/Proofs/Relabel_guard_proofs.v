(* C20: the first assertion of prep_inserts_at_index ("assert self.count_range(begin, end) > 0") cannot fire for a
   group whose neighbours are valid doubles begin < end, as long as no existing row has been adjusted yet in the
   call: the count new keys just added all lie in [begin, end). *)
From Coq Require Import ZArith List Bool Lia Sorted.
Import ListNotations.
Require Import Grist.Lib.Fl64 Grist.Proofs.Fl64_proofs Grist.Proofs.Fl64_mono_proofs Grist.Model.Relabel
               Grist.Proofs.Relabel_total_proofs Grist.Proofs.Relabel_plain_proofs Grist.Proofs.Relabel_plain2_proofs.
Open Scope Z_scope.

Lemma sl_update_weak vs : forall acc, StronglySorted Fle (acc ++ vs) -> sl_update acc vs = acc ++ vs.
Proof.
  unfold sl_update. induction vs as [|v t IH]; intros acc H; cbn; [rewrite app_nil_r; reflexivity|].
  rewrite sl_add_last.
  - rewrite IH; rewrite <- app_assoc; [reflexivity | exact H].
  - rewrite Forall_forall. intros y Hy. clear IH. induction acc as [|x acc IHa]; [destruct Hy|].
    cbn in H. inversion H as [|? ? H1 H2]; subst. destruct Hy as [->|Hy]; [|apply IHa; assumption].
    rewrite Forall_forall in H2. apply H2. apply in_or_app. right. left. reflexivity.
Qed.

Lemma bkl_app_all l1 l2 k : (forall x, In x l1 -> flt x k = true) -> bkl (l1 ++ l2) k = lenZ l1 + bkl l2 k.
Proof.
  unfold lenZ. induction l1 as [|x t IH]; intros H; cbn [app bkl length]; [lia|].
  rewrite (H x (or_introl eq_refl)). rewrite IH by (intros; apply H; right; assumption). lia.
Qed.

Lemma bkl_head_not_lt l k : (forall x, In x l -> flt x k = false) -> bkl l k = 0.
Proof. destruct l as [|x t]; intros H; cbn [bkl]; [reflexivity|]. rewrite (H x (or_introl eq_refl)). reflexivity. Qed.

Lemma adj_bisect_noadj orig prev k : adj_bisect_key_left orig (mkwl [] prev) k = bkl orig k.
Proof.
  unfold adj_bisect_key_left. cbn [adjs map bkl lenZ length Z.of_nat Z.ltb Z.compare].
  pose proof (bkl_range orig k) as Hr. fold (lenZ orig).
  destruct (Z.ltb_spec (-1) (bkl orig k)), (Z.ltb_spec (bkl orig k) (lenZ orig)); cbn [andb]; lia.
Qed.

Theorem first_assert_guard orig prev sb ub ue c :
  let b := FFin sb ub in let e := FFin false ue in
  wf_fl b -> 0 <= ue < UOVER -> 0 <= ford b -> flt b e = true -> 1 <= c /\ c + 1 < 2 ^ 53 ->
  (forall x, In x prev -> Flt x b) -> StronglySorted Fle prev ->
  c <= count_range orig (mkwl [] (sl_update prev (get_range b e c))) b e.
Proof.
  intros b e Hwb Hwe Hb0 Hbe Hc Hprev Hps.
  pose proof (range_In sb ub ue c Hwb Hwe Hb0 Hbe Hc) as HIn.
  pose proof (range_weakly_sorted sb ub ue c Hwb Hwe Hb0 Hbe Hc) as Hws.
  pose proof (range_length sb ub ue c) as Hlen.
  pose proof (limit_facts sb ub ue c Hwb Hwe Hb0 Hbe) as (L1 & L2 & L3).
  fold b e in HIn, Hws, Hlen. set (R := get_range b e c) in *.
  assert (HbR : forall x, In x R -> fle b x = true /\ flt x e = true /\ flt x b = false).
  { intros x Hx. destruct (HIn x Hx) as (u & -> & Hu). unfold b, e in *. apply flt_iff in Hbe.
    destruct Hbe as (N1 & _ & _). repeat split.
    - apply fle_iff. cbn [is_nan ford] in *. repeat split; auto. lia.
    - apply flt_iff. cbn [is_nan ford]. repeat split; auto. lia.
    - destruct (flt (FFin false u) (FFin sb ub)) eqn:E; [|reflexivity]. apply flt_iff in E. cbn [ford] in *. lia. }
  assert (Hsorted : StronglySorted Fle (prev ++ R)).
  { clear Hlen. induction Hps as [|x t Ht IH Hx]; cbn [app]; [exact Hws|].
    constructor; [apply IH; intros; apply Hprev; right; assumption|].
    rewrite Forall_forall in *. intros y Hy. apply in_app_or in Hy. destruct Hy as [Hy|Hy]; [apply Hx; exact Hy|].
    eapply fle_trans; [apply flt_fle, Hprev; left; reflexivity | apply HbR; exact Hy]. }
  rewrite (sl_update_weak R prev Hsorted).
  unfold count_range. rewrite !adj_bisect_noadj. cbn [inss].
  rewrite (bkl_app_all prev R b) by (intros x Hx; apply Hprev; exact Hx).
  rewrite (bkl_head_not_lt R b) by (intros x Hx; apply HbR; exact Hx).
  rewrite (bkl_app_all prev R e).
  2:{ intros x Hx. eapply flt_trans; [apply Hprev; exact Hx | exact Hbe]. }
  rewrite (bkl_all R e) by (intros x Hx; apply HbR; exact Hx).
  assert (Hmono : bkl orig b <= bkl orig e).
  { apply bkl_mono. intros x _ Hx. eapply flt_trans; [exact Hx | exact Hbe]. }
  assert (HlR : lenZ R = c) by (unfold lenZ; rewrite Hlen; lia). pose proof (bkl_range orig b). lia.
Qed.
