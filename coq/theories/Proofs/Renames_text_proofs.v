(* C16, text level: the patches of _prepare_formula_renames touch only the name tokens; round trip. *)
From Coq Require Import ZArith List Bool Lia.
Import ListNotations.
Require Import Grist.Model.Renames Grist.Proofs.Renames_proofs.
Open Scope Z_scope.

Lemma tlen_app : forall a b, tlen (a ++ b) = tlen a + tlen b.
Proof. intros. unfold tlen. rewrite app_length. lia. Qed.

Lemma tlen_nonneg : forall a, 0 <= tlen a.
Proof. intro a. unfold tlen. lia. Qed.

Lemma to_nat_tlen : forall a, Z.to_nat (tlen a) = length a.
Proof. intro a. unfold tlen. lia. Qed.

Lemma skipn_tlen_app : forall a b : text, skipn (Z.to_nat (tlen a)) (a ++ b) = b.
Proof. intros a b. rewrite to_nat_tlen. rewrite skipn_app, skipn_all, Nat.sub_diag. reflexivity. Qed.

(* s = pre ++ mid ++ post: the slice between the two cut points is mid *)
Lemma slice_mid : forall pre mid post : text,
  slice (pre ++ mid ++ post) (tlen pre) (tlen pre + tlen mid) = mid.
Proof.
  intros pre mid post. unfold slice. rewrite skipn_tlen_app.
  replace (tlen pre + tlen mid - tlen pre) with (tlen mid) by lia. rewrite to_nat_tlen.
  rewrite firstn_app, firstn_all, Nat.sub_diag. cbn. apply app_nil_r.
Qed.

Lemma seg_text_rn : forall rt rc g,
  seg_text (rn_seg rt rc g) = match g with Lit s => s | Nm t c => new_text rt rc (0, t, c) end.
Proof. intros rt rc g. destruct g as [s|t [c|]]; reflexivity. Qed.

Section Go.
  Variable rt : name -> name.
  Variable rc : name -> name -> name.

  (* the heart: walking the segments, Replacer's loop produces the renamed segments *)
  Lemma replace_go_segs : forall l pre pnd,
    replace_go (pre ++ pnd ++ flatten l) (tlen pre)
      (map (occ_patch rt rc (pre ++ pnd ++ flatten l)) (filter (renamed rt rc) (occs l (tlen pre + tlen pnd))))
    = ROk (pnd ++ flatten (map (rn_seg rt rc) l)).
  Proof.
    induction l as [|g l IH]; intros pre pnd.
    - cbn. unfold slice_from. rewrite skipn_tlen_app. rewrite !app_nil_r. reflexivity.
    - destruct g as [x|tb c].
      + cbn [occs flatten seg_text map rn_seg].
        pose proof (IH pre (pnd ++ x)) as H. rewrite tlen_app in H. rewrite <- !app_assoc in H.
        rewrite Z.add_assoc in H. exact H.
      + remember (seg_text (Nm tb c)) as w eqn:Ew. cbn [occs flatten map]. rewrite <- Ew.
        remember (tlen pre + tlen pnd) as off eqn:Eoff.
        remember (pre ++ pnd ++ w ++ flatten l) as s eqn:Es.
        assert (Hw : occ_text (off, tb, c) = w) by (subst w; destruct c; reflexivity).
        assert (Hnt : seg_text (rn_seg rt rc (Nm tb c)) = new_text rt rc (off, tb, c)) by (destruct c; reflexivity).
        cbn [filter]. destruct (renamed rt rc (off, tb, c)) eqn:Hren.
        * cbn [map replace_go].
          change (pstart (occ_patch rt rc s (off, tb, c))) with off.
          change (pend (occ_patch rt rc s (off, tb, c))) with (off + tlen (occ_text (off, tb, c))).
          change (pold (occ_patch rt rc s (off, tb, c))) with (slice s off (off + tlen (occ_text (off, tb, c)))).
          change (pnew (occ_patch rt rc s (off, tb, c))) with (new_text rt rc (off, tb, c)).
          rewrite name_eqb_refl. rewrite Hw.
          pose proof (IH ((pre ++ pnd) ++ w) []) as H.
          rewrite <- !app_assoc in H. cbn [app] in H. rewrite <- Es in H.
          replace (tlen (pre ++ pnd ++ w) + tlen []) with (off + tlen w) in H
            by (rewrite !tlen_app; subst off; change (tlen []) with 0; lia).
          replace (tlen (pre ++ pnd ++ w)) with (off + tlen w) in H by (rewrite !tlen_app; subst off; lia).
          rewrite H. cbn [rbind]. f_equal.
          assert (Hsl : slice s (tlen pre) off = pnd) by (subst s off; apply slice_mid).
          rewrite Hsl. rewrite Hnt. reflexivity.
        * pose proof (IH pre (pnd ++ w)) as H. rewrite tlen_app in H. rewrite <- !app_assoc in H.
          rewrite Z.add_assoc in H. rewrite <- Eoff, <- Es in H. rewrite H.
          rewrite Hnt. unfold renamed in Hren. apply negb_false_iff in Hren. apply name_eqb_eq in Hren.
          rewrite Hren, Hw. reflexivity.
  Qed.

  (* every name token sits where occs says it does *)
  Lemma occs_slice : forall l pre o, In o (occs l (tlen pre)) ->
    slice (pre ++ flatten l) (fst (fst o)) (fst (fst o) + tlen (occ_text o)) = occ_text o.
  Proof.
    induction l as [|g l IH]; intros pre o Hin; [contradiction|].
    destruct g as [x|tb c]; cbn [occs flatten seg_text] in *.
    - rewrite <- tlen_app in Hin. rewrite app_assoc. apply IH. exact Hin.
    - destruct Hin as [E|Hin].
      + subst o. cbn [fst snd]. assert (Hw : occ_text (tlen pre, tb, c) = seg_text (Nm tb c)) by (destruct c; reflexivity).
        rewrite Hw. apply slice_mid.
      + rewrite <- tlen_app in Hin. rewrite app_assoc. apply IH. exact Hin.
  Qed.
End Go.

(* ---- with the name discovery as an oracle ------------------------------------------------------------ *)
(* l: the ground truth -- how the formula text s divides into literal text and name tokens, and which table / column
   each name token refers to.  reported: what codebuilder.parse_grist_names (astroid) reports for the formula.
   names_complete: the reported positions are exactly the occurrences -- the reported names that the rename selects,
   put in the order in which Replacer processes them, are the selected name tokens of l in text order. *)
Definition names_complete rt rc (s : text) (l : list seg) (reported : list occ) : Prop :=
  flatten l = s /\
  sort_by (occ_lt rt rc s) (filter (renamed rt rc) reported) = filter (renamed rt rc) (occs l 0).

Lemma rename_text_spec : forall rt rc s l reported,
  names_complete rt rc s l reported -> rename_text rt rc s reported = ROk (flatten (map (rn_seg rt rc) l)).
Proof.
  intros rt rc s l reported [Hfl Hnc]. unfold rename_text, replacer_text.
  rewrite (sort_by_map (occ_patch rt rc s) (occ_lt rt rc s) patch_lt) by (intros; reflexivity).
  rewrite Hnc.
  pose proof (replace_go_segs rt rc l [] []) as H. cbn [app] in H. rewrite Hfl in H. exact H.
Qed.

(* The new text is the old text with exactly the renamed name tokens replaced (all other segments are kept as they
   are, in place), and every patched span held the old name. *)
Theorem patches_touch_only_spans_proof : forall rt rc s l reported,
  names_complete rt rc s l reported ->
  rename_text rt rc s reported = ROk (flatten (map (rn_seg rt rc) l)) /\
  (forall g, rn_seg rt rc g <> g -> exists t c, g = Nm t c) /\
  (forall o, In o (filter (renamed rt rc) (occs l 0)) ->
     slice s (fst (fst o)) (fst (fst o) + tlen (occ_text o)) = occ_text o).
Proof.
  intros rt rc s l reported Hnc. split; [apply rename_text_spec; exact Hnc|]. split.
  - intros g Hg. destruct g as [x|t c]; [contradiction Hg; reflexivity | eauto].
  - intros o Ho. apply filter_In in Ho. destruct Ho as [Ho _]. destruct Hnc as [Hfl _].
    pose proof (occs_slice l [] o Ho) as H. cbn [app] in H. rewrite Hfl in H. exact H.
Qed.

(* rename, then rename back: the text is restored, provided the discovery is complete on the intermediate text too
   (its tokens are the renamed tokens: replacing an identifier by an identifier does not change how the text
   divides into tokens) and the second renaming undoes the first on the tokens that occur *)
Theorem rename_roundtrip_text_proof : forall rt rc rt' rc' s l reported reported',
  names_complete rt rc s l reported ->
  names_complete rt' rc' (flatten (map (rn_seg rt rc) l)) (map (rn_seg rt rc) l) reported' ->
  (forall g, In g l -> rn_seg rt' rc' (rn_seg rt rc g) = g) ->
  rbind (rename_text rt rc s reported) (fun s' => rename_text rt' rc' s' reported') = ROk s.
Proof.
  intros rt rc rt' rc' s l reported reported' H1 H2 Hinv. rewrite (rename_text_spec _ _ _ _ _ H1). cbn [rbind].
  rewrite (rename_text_spec _ _ _ _ _ H2). rewrite map_map. f_equal. destruct H1 as [Hfl _].
  rewrite <- Hfl. f_equal. rewrite <- (map_id l) at 2. apply map_ext_in. exact Hinv.
Qed.

(* for the single renames: a -> b and back restores every token when (T, b) / table b does not occur *)
Lemma seg_col_roundtrip : forall T a b g, g <> Nm T (Some b) ->
  rn_seg id_tab (col1 T b a) (rn_seg id_tab (col1 T a b) g) = g.
Proof.
  intros T a b g Hg. destruct g as [x|t [c|]]; try reflexivity. cbn. unfold id_tab. f_equal. f_equal.
  unfold col1. destruct (name_eqb t T) eqn:Et; [|reflexivity]. apply name_eqb_eq in Et. subst t.
  unfold ren1. destruct (name_eqb c a) eqn:Eca.
  - apply name_eqb_eq in Eca. subst. rewrite name_eqb_refl. reflexivity.
  - destruct (name_eqb c b) eqn:Ecb; [|reflexivity]. apply name_eqb_eq in Ecb. subst. contradiction.
Qed.
