(* K6 proofs: fuel sufficiency of auto_fix. *)
From Coq Require Import ZArith List Bool Lia.
Import ListNotations.
Require Import Grist.Model.MetaCascade Grist.Proofs.MetaCascade_base Grist.Proofs.MetaCascade_fuel.
Open Scope Z_scope.

Definition tkey (t : trec) : Z * Z := (t_id t, t_src t).

Lemma count_map_eq : forall {A} (p : A -> bool) (g : A -> A) (l : list A),
  (forall x, p (g x) = p x) -> length (filter p (map g l)) = length (filter p l).
Proof.
  intros A p g l H. induction l as [|x t IH]; simpl; [reflexivity|]. rewrite H. destruct (p x); simpl; rewrite IH; reflexivity.
Qed.

Lemma convert_refs_counts : forall tabs m,
  hcount (convert_refs tabs m) = hcount m /\ scount (convert_refs tabs m) = scount m /\
  m_tables (convert_refs tabs m) = m_tables m.
Proof.
  intros. unfold hcount, scount, convert_refs. cbn [m_columns m_tables]. split; [|split; reflexivity].
  apply count_map_eq. intros c. unfold is_helper.
  destruct (mem (c_id c) _); [reflexivity|]. destruct (mem (c_src c) _); reflexivity.
Qed.

Lemma remove_sections_raw_tkeys : forall secs m,
  map tkey (m_tables (remove_sections_raw secs m)) = map tkey (m_tables m).
Proof. intros. unfold remove_sections_raw. simpl. rewrite map_map. reflexivity. Qed.

Lemma remove_views_tkeys : forall vs m m', remove_views vs m = Ok m' ->
  map tkey (m_tables m') = map tkey (m_tables m).
Proof.
  intros vs m m' H. unfold remove_views in H.
  destruct (negb (all_in vs (m_views m))); [discriminate|].
  set (m1 := rm_tabbar _ m) in *.
  destruct (if isnil _ then Ok m1 else remove_sections _ m1) as [m2| |] eqn:E; unfold bind in H; try discriminate.
  inversion H; subst m'. clear H.
  assert (H2 : map tkey (m_tables m2) = map tkey (m_tables m)).
  { destruct (isnil _); [inversion E; subst; reflexivity|].
    unfold remove_sections in E. destruct (negb (all_in _ (sids m1))); [discriminate|].
    destruct (existsb _ (m_sections m1)); [discriminate|]. inversion E; subst m2.
    rewrite remove_sections_raw_tkeys. reflexivity. }
  rewrite <- H2. simpl. rewrite map_map. reflexivity.
Qed.

Lemma tkeys_In : forall l l' t, map tkey l' = map tkey l -> In t l ->
  exists t', In t' l' /\ t_id t' = t_id t /\ t_src t' = t_src t.
Proof.
  intros l l' t E Ht. assert (Hk : In (tkey t) (map tkey l')) by (rewrite E; apply in_map; exact Ht).
  apply in_map_iff in Hk. destruct Hk as [t' [Ek Ht']]. exists t'. unfold tkey in Ek. inversion Ek. tauto.
Qed.

Lemma remove_tables_counts : forall ts m m', remove_tables ts m = Ok m' ->
  (hcount m' <= hcount m)%nat /\ (scount m' <= scount m)%nat /\
  (forall t, In t (m_tables m) -> is_summary t = true -> In (t_id t) ts -> (scount m' < scount m)%nat).
Proof.
  intros ts m0 m' H. unfold remove_tables in H.
  destruct (negb (all_in ts (tids m0))); [discriminate|].
  set (tabs := ts ++ _) in *.
  destruct (negb (nodupb tabs)); [discriminate|].
  destruct (convert_refs_counts tabs m0) as [C1 [C2 C3]].
  set (m := convert_refs tabs m0) in *.
  set (secs := map s_id _) in *.
  destruct (remove_sections_raw_counts secs m) as [R1 R2].
  pose proof (remove_sections_raw_tkeys secs m) as R3.
  set (m1 := remove_sections_raw secs m) in *.
  destruct (if isnil _ then Ok m1 else remove_views _ m1) as [m2| |] eqn:E; unfold bind in H; try discriminate.
  assert (H2 : hcount m2 = hcount m1 /\ scount m2 = scount m1 /\ map tkey (m_tables m2) = map tkey (m_tables m1)).
  { destruct (isnil _); [inversion E; subst; repeat split; reflexivity|].
    destruct (remove_views_counts _ _ _ E) as [A B]. pose proof (remove_views_tkeys _ _ _ E). tauto. }
  destruct H2 as [V1 [V2 V3]].
  cbv zeta in H. set (cols := map c_id _) in *.
  destruct (sister_hazard cols m2); [discriminate|]. inversion H; subst m'. clear H.
  destruct (rm_columns_counts cols m2) as [K1 K2].
  destruct (rm_tables_counts tabs (rm_columns cols m2)) as [T1 T2].
  split; [lia|]. split; [lia|].
  intros t Ht Hs Hin.
  assert (Ek : map tkey (m_tables (rm_columns cols m2)) = map tkey (m_tables m0)).
  { change (m_tables (rm_columns cols m2)) with (m_tables m2). rewrite V3, R3, C3. reflexivity. }
  destruct (tkeys_In _ _ t Ek Ht) as [t' [Ht' [E1 E2]]].
  assert (Hs' : is_summary t' = true) by (unfold is_summary in *; rewrite E2; exact Hs).
  assert (Hin' : In (t_id t') tabs) by (rewrite E1; unfold tabs; apply in_app_iff; left; exact Hin).
  pose proof (rm_tables_strict tabs (rm_columns cols m2) t' Ht' Hs' Hin'). lia.
Qed.

Lemma col_unused_helper : forall m c, col_unused m c = true -> is_helper c = true.
Proof.
  intros m c H. unfold col_unused in H. unfold is_helper.
  repeat (apply orb_true_iff in H; destruct H as [H|H]); apply andb_true_iff in H; destruct H as [H _];
    apply Z.eqb_eq in H; rewrite H; reflexivity.
Qed.

Lemma table_unused_summary : forall m t, table_unused m t = true -> is_summary t = true.
Proof. intros m t H. unfold table_unused in H. apply andb_true_iff in H. destruct H as [H _]. exact H. Qed.

(* a round that has something to remove decreases the measure *)
Lemma auto_round_decreases : forall m m1,
  isnil (auto_cols m) && isnil (auto_tabs m) = false -> auto_round m = Ok m1 -> (measure m1 < measure m)%nat.
Proof.
  intros m m1 Hne H. unfold auto_round in H. unfold measure.
  destruct (if isnil (auto_cols m) then Ok m else remove_columns (auto_cols m) m) as [m2| |] eqn:E;
    unfold bind in H; try discriminate.
  destruct (auto_cols m) as [|c0 cs] eqn:Ec; simpl isnil in *.
  - inversion E; subst m2. simpl in Hne.
    destruct (auto_tabs m) as [|t0 ts] eqn:Et; simpl in Hne; [discriminate|]. simpl isnil in H.
    destruct (remove_tables_counts _ _ _ H) as [A [B C]].
    assert (Hin : In t0 (auto_tabs m)) by (rewrite Et; left; reflexivity).
    unfold auto_tabs in Hin. apply in_map_iff in Hin. destruct Hin as [t [E1 Ht]]. apply filter_In in Ht.
    destruct Ht as [Ht Hu]. assert (St : (scount m1 < scount m)%nat).
    { apply (C t Ht (table_unused_summary m t Hu)). rewrite E1. left. reflexivity. }
    lia.
  - destruct (remove_columns_counts _ _ _ E) as [A [B C]].
    assert (Hin : In c0 (auto_cols m)) by (rewrite Ec; left; reflexivity).
    unfold auto_cols in Hin. apply in_map_iff in Hin. destruct Hin as [c [E1 Hc]]. apply filter_In in Hc.
    destruct Hc as [Hc Hu].
    assert (Sc : (hcount m2 < hcount m)%nat).
    { apply (C c Hc (col_unused_helper m c Hu)). rewrite E1. left. reflexivity. }
    destruct (isnil (auto_tabs m)).
    + inversion H; subst m1. lia.
    + destruct (remove_tables_counts _ _ _ H) as [A2 [B2 _]]. lia.
Qed.

(* with fuel >= measure, one more unit of fuel changes nothing: fuel is never what stops the loop *)
Theorem auto_fix_fuel_stable : forall k m, (measure m <= k)%nat -> auto_fix (S k) m = auto_fix k m.
Proof.
  induction k as [|k IH]; intros m Hm.
  - simpl. destruct (isnil (auto_cols m) && isnil (auto_tabs m)) eqn:E; [reflexivity|]. exfalso.
    unfold measure, hcount, scount in Hm.
    destruct (auto_cols m) as [|c0 cs] eqn:Ec.
    + destruct (auto_tabs m) as [|t0 ts] eqn:Et; [discriminate E|].
      assert (Hin : In t0 (auto_tabs m)) by (rewrite Et; left; reflexivity).
      unfold auto_tabs in Hin. apply in_map_iff in Hin. destruct Hin as [t [_ Ht]]. apply filter_In in Ht.
      destruct Ht as [Ht Hu]. apply table_unused_summary in Hu.
      assert (In t (filter is_summary (m_tables m))) by (apply filter_In; split; assumption).
      destruct (filter is_summary (m_tables m)); [contradiction | simpl in Hm; lia].
    + assert (Hin : In c0 (auto_cols m)) by (rewrite Ec; left; reflexivity).
      unfold auto_cols in Hin. apply in_map_iff in Hin. destruct Hin as [c [_ Hc]]. apply filter_In in Hc.
      destruct Hc as [Hc Hu]. apply col_unused_helper in Hu.
      assert (In c (filter is_helper (m_columns m))) by (apply filter_In; split; assumption).
      destruct (filter is_helper (m_columns m)); [contradiction | simpl in Hm; lia].
  - change (auto_fix (S (S k)) m) with
      (if isnil (auto_cols m) && isnil (auto_tabs m) then Ok m else bind (auto_round m) (auto_fix (S k))).
    change (auto_fix (S k) m) with
      (if isnil (auto_cols m) && isnil (auto_tabs m) then Ok m else bind (auto_round m) (auto_fix k)).
    destruct (isnil (auto_cols m) && isnil (auto_tabs m)) eqn:E; [reflexivity|].
    destruct (auto_round m) as [m1| |] eqn:Er; unfold bind; try reflexivity.
    apply IH. pose proof (auto_round_decreases m m1 E Er). lia.
Qed.

Lemma filter_len_le : forall {A} (p : A -> bool) (l : list A), (length (filter p l) <= length l)%nat.
Proof. intros A p l. induction l as [|x t IH]; simpl; [lia|]. destruct (p x); simpl; lia. Qed.

Lemma measure_le_fuel : forall m, (measure m <= length (m_columns m) + length (m_tables m))%nat.
Proof.
  intros m. unfold measure, hcount, scount.
  pose proof (filter_len_le is_helper (m_columns m)). pose proof (filter_len_le is_summary (m_tables m)). lia.
Qed.

(* any amount of fuel above the measure gives the result of fuel_of; in particular auto_fix (fuel_of m) m is not
   cut short *)
Theorem auto_fix_enough_fuel : forall n m, (measure m <= n)%nat -> auto_fix n m = auto_fix (measure m) m.
Proof.
  intros n m H. induction n as [|n IH].
  - assert (measure m = O) by lia. rewrite H0. reflexivity.
  - destruct (Nat.eq_dec (measure m) (S n)) as [E|E]; [rewrite E; reflexivity|].
    assert (Hn : (measure m <= n)%nat) by lia. rewrite (auto_fix_fuel_stable n m Hn). apply IH. exact Hn.
Qed.
