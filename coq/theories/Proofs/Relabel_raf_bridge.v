(* C20: relabeling.range_around_float, regenerated from /repo into the frexp / ldexp / floor vocabulary of
   Model/RelabelFrexp.v (coq/gen/Relabel_gen.v: gen_range_around_float), equals the shift-and-round model
   Relabel.range_around_float on every non-negative double and every level 0..63. *)
From Coq Require Import ZArith List Bool Lia.
Import ListNotations.
Require Import Grist.Lib.Fl64 Grist.Model.Relabel Grist.Model.RelabelFrexp.
Require Import GristGen.Relabel_gen.
Require Import Grist.Proofs.Fl64_proofs Grist.Proofs.Fl64_mono_proofs Grist.Proofs.Fl64_err_proofs.
Open Scope Z_scope.

Lemma UOVER_pow : UOVER = 2 ^ 2098.
Proof. reflexivity. Qed.

(* q * 2^a with q < 2^53 is representable when it does not overflow *)
Lemma rep_scaled q a : 0 < q < 2 ^ 53 -> 0 <= a -> (q * 2 ^ a) mod 2 ^ ulp_exp (q * 2 ^ a) = 0.
Proof.
  intros Hq Ha. unfold ulp_exp. rewrite Z.log2_mul_pow2 by lia.
  assert (Hl : Z.log2 q < 53) by (apply Z.log2_lt_pow2; lia).
  set (k := Z.max 0 (a + Z.log2 q - 52)). assert (Hk : 0 <= k <= a) by lia.
  replace (q * 2 ^ a) with (q * 2 ^ (a - k) * 2 ^ k).
  - apply Z.mod_mul. pose proof (pow2_pos' k). lia.
  - rewrite <- Z.mul_assoc, <- Z.pow_add_r by lia. f_equal. f_equal. lia.
Qed.

Lemma round_p2_scale neg n s k : 0 <= s -> 0 <= k -> round_p2 neg (n * 2 ^ k) (s + k) = round_p2 neg n s.
Proof.
  intros Hs Hk. rewrite !round_p2_mag by lia. f_equal. unfold round_mag.
  pose proof (pow2_pos' k Hk). pose proof (pow2_pos' s Hs).
  replace ((n * 2 ^ k) / 2 ^ (s + k)) with (n / 2 ^ s)
    by (rewrite (Z.pow_add_r 2 s k) by lia; rewrite Z.div_mul_cancel_r by lia; reflexivity).
  set (K := ulp_exp (n / 2 ^ s)). pose proof (ulp_exp_nonneg (n / 2 ^ s)). fold K in H1.
  f_equal.
  replace (2 ^ (s + k + K)) with (2 ^ (s + K) * 2 ^ k).
  - apply rne_scale; apply pow2_pos'; lia.
  - rewrite <- Z.pow_add_r by lia. f_equal. lia.
Qed.

(* ldexp of a double whose scaled value is again a double *)
Lemma fldexp_exact s U n V :
  0 < U -> 0 < V < UOVER -> V mod 2 ^ ulp_exp V = 0 ->
  (0 <= n -> V = U * 2 ^ n) -> (n < 0 -> U = V * 2 ^ (- n)) -> fldexp (FFin s U) n = Ok (FFin s V).
Proof.
  intros HU HV Hrep Hpos Hneg. unfold fldexp.
  replace (U =? 0) with false by (symmetry; apply Z.eqb_neq; lia).
  destruct (0 <=? n) eqn:En.
  - apply Z.leb_le in En. rewrite Z.shiftl_mul_pow2 by lia. rewrite <- (Hpos En).
    replace V with (V * 2 ^ 0) at 1 by (rewrite Z.pow_0_r; lia).
    rewrite round_p2_exact by (try lia; assumption). reflexivity.
  - apply Z.leb_gt in En. rewrite (Hneg En).
    rewrite round_p2_exact by (try lia; assumption). reflexivity.
Qed.

Lemma of_Z_int z : 0 < z <= 2 ^ 53 -> of_Z z = FFin false (z * 2 ^ 1074).
Proof.
  intros Hz. destruct (Z.eq_dec z (2 ^ 53)) as [->|Hne]; [vm_compute; reflexivity|].
  unfold of_Z. replace (z =? 0) with false by (symmetry; apply Z.eqb_neq; lia).
  replace (z <? 0) with false by (symmetry; apply Z.ltb_ge; lia).
  rewrite Z.abs_eq by lia. rewrite Z.shiftl_mul_pow2 by lia.
  replace (z * 2 ^ 1074) with (z * 2 ^ 1074 * 2 ^ 0) at 1 by (rewrite Z.pow_0_r; lia).
  apply round_int; lia.
Qed.

(* ldexp(int, T - 1074): the integer times 2^T units, rounded *)
Lemma fldexp_int z T : 0 <= z <= 2 ^ 53 -> 0 <= T ->
  fldexp (of_Z z) (T - 1074) = match round_p2 false (z * 2 ^ T) 0 with FInf _ => Err 5 | r => Ok r end.
Proof.
  intros Hz HT. destruct (Z.eq_dec z 0) as [->|Hnz].
  - rewrite Z.mul_0_l. reflexivity.
  - rewrite of_Z_int by lia. unfold fldexp.
    assert (H1074 : 0 < 2 ^ 1074) by (apply pow2_pos'; lia).
    replace (z * 2 ^ 1074 =? 0) with false by (symmetry; apply Z.eqb_neq; lia).
    destruct (0 <=? T - 1074) eqn:En.
    + apply Z.leb_le in En. rewrite Z.shiftl_mul_pow2 by lia.
      rewrite <- Z.mul_assoc, <- Z.pow_add_r by lia. replace (1074 + (T - 1074)) with T by lia. reflexivity.
    + apply Z.leb_gt in En.
      replace (z * 2 ^ 1074) with (z * 2 ^ T * 2 ^ (1074 - T))
        by (rewrite <- Z.mul_assoc, <- Z.pow_add_r by lia; f_equal; f_equal; lia).
      replace (- (T - 1074)) with (0 + (1074 - T)) by lia.
      rewrite round_p2_scale by lia. reflexivity.
Qed.

(* a value below an exactly representable finite one does not round to infinity *)
Lemma round_p2_le_fin n u : 0 <= n <= u -> u < UOVER -> u mod 2 ^ ulp_exp u = 0 ->
  exists v, round_p2 false n 0 = FFin false v.
Proof.
  intros Hn Hu Hrep. pose proof (round_p2_mono n u 0 (Z.le_refl 0) Hn) as Hm.
  assert (Hex : round_p2 false u 0 = FFin false u).
  { pose proof (round_p2_exact false u 0) as H. rewrite Z.pow_0_r, Z.mul_1_r in H. apply H; try lia; assumption. }
  rewrite Hex in Hm.
  rewrite round_p2_mag in * by lia. unfold fin_or_inf in *.
  destruct (UOVER <=? round_mag n 0); [|eauto].
  exfalso. cbn [ford] in Hm. pose proof UOVER_lt_UINF. lia.
Qed.

Definition raf_rest (m : fl) (e i : Z) : res (fl * fl) :=
  bind (fldexp m (53 - i)) (fun t2 =>
  let mf := ffloor t2 in
  let exp := e + i - 53 in
  bind (fldexp (of_Z mf) exp) (fun t3 => bind (fldexp (of_Z (mf + 1)) exp) (fun t4 => Ok (t3, t4)))).

Lemma raf_rest_spec q i t u e :
  0 <= i < 64 -> i <= t -> 0 < q < 2 ^ 53 -> u = q * 2 ^ (t - i) -> u < UOVER -> e + i - 53 + 1074 = t ->
  raf_rest (FFin false (q * 2 ^ 1021)) e i =
    let mf := Z.shiftr u t in
    match round_p2 false (Z.shiftl (mf + 1) t) 0 with
    | FInf _ => Err 5
    | hi => Ok (round_p2 false (Z.shiftl mf t) 0, hi)
    end.
Proof.
  intros Hi Ht Hq Hu Hov He.
  assert (Hpi : 0 < 2 ^ i) by (apply pow2_pos'; lia).
  assert (Hpti : 0 < 2 ^ (t - i)) by (apply pow2_pos'; lia).
  assert (Hp1021 : 0 < 2 ^ 1021) by (apply pow2_pos'; lia).
  assert (HpW : 0 < 2 ^ (1074 - i)) by (apply pow2_pos'; lia).
  set (W := q * 2 ^ (1074 - i)).
  assert (HW : 0 < W < UOVER).
  { unfold W. split; [apply Z.mul_pos_pos; lia|]. rewrite UOVER_eq.
    apply Z.lt_le_trans with (2 ^ 53 * 2 ^ (1074 - i)); [apply Z.mul_lt_mono_pos_r; lia|].
    rewrite <- Z.pow_add_r by lia. apply Z.pow_le_mono_r; lia. }
  assert (Hld : fldexp (FFin false (q * 2 ^ 1021)) (53 - i) = Ok (FFin false W)).
  { apply fldexp_exact; [apply Z.mul_pos_pos; lia | exact HW | apply rep_scaled; lia | |].
    - intros Hn. unfold W. rewrite <- Z.mul_assoc, <- Z.pow_add_r by lia. f_equal. f_equal. lia.
    - intros Hn. unfold W. rewrite <- Z.mul_assoc, <- Z.pow_add_r by lia. f_equal. f_equal. lia. }
  unfold raf_rest. rewrite Hld. cbn [bind ffloor]. cbv zeta.
  set (mf := q / 2 ^ i).
  assert (Hfl : Z.shiftr W 1074 = mf).
  { rewrite Z.shiftr_div_pow2 by lia. unfold W, mf.
    replace (2 ^ 1074) with (2 ^ i * 2 ^ (1074 - i)) by (rewrite <- Z.pow_add_r by lia; f_equal; lia).
    apply Z.div_mul_cancel_r; lia. }
  assert (Hsh : Z.shiftr u t = mf).
  { rewrite Z.shiftr_div_pow2 by lia. rewrite Hu. unfold mf.
    replace (2 ^ t) with (2 ^ i * 2 ^ (t - i)) by (rewrite <- Z.pow_add_r by lia; f_equal; lia).
    apply Z.div_mul_cancel_r; lia. }
  rewrite Hfl, Hsh.
  assert (Hmf0 : 0 <= mf) by (apply Z.div_pos; lia).
  assert (Hmfq : mf * 2 ^ i <= q) by (unfold mf; rewrite Z.mul_comm; apply Z.mul_div_le; lia).
  assert (Hmf : mf < 2 ^ 53).
  { apply Z.le_lt_trans with q; [|lia]. apply Z.le_trans with (mf * 2 ^ i); [|lia].
    replace mf with (mf * 1) at 1 by lia. apply Z.mul_le_mono_nonneg_l; lia. }
  replace (e + i - 53) with (t - 1074) by lia.
  rewrite !fldexp_int by lia. rewrite !Z.shiftl_mul_pow2 by lia.
  assert (Hle : mf * 2 ^ t <= u).
  { rewrite Hu. replace (2 ^ t) with (2 ^ i * 2 ^ (t - i)) by (rewrite <- Z.pow_add_r by lia; f_equal; lia).
    rewrite Z.mul_assoc. apply Z.mul_le_mono_nonneg_r; lia. }
  assert (Hrep : u mod 2 ^ ulp_exp u = 0) by (rewrite Hu; apply rep_scaled; lia).
  assert (Hpt : 0 < 2 ^ t) by (apply pow2_pos'; lia).
  destruct (round_p2_le_fin (mf * 2 ^ t) u) as [v Hv]; [split; [apply Z.mul_nonneg_nonneg; lia | exact Hle] | lia | exact Hrep |].
  rewrite Hv. cbn [bind].
  destruct (round_p2 false ((mf + 1) * 2 ^ t) 0); reflexivity.
Qed.

Lemma gen_raf_unfold x i : gen_range_around_float x i =
  (if snd (ffrexp x) <? -1021 then bind (fldexp x 1021) (fun t1 => raf_rest t1 (-1021) i)
   else raf_rest (fst (ffrexp x)) (snd (ffrexp x)) i).
Proof. reflexivity. Qed.

(* relabeling.range_around_float as written (frexp, ldexp, floor, ldexp, ldexp) is the shift-and-round model, for every
   non-negative double x and every level i of _find_sparse_enough_range *)
Theorem gen_range_around_float_eq : forall u i,
  0 <= i < 64 -> 0 <= u < UOVER -> u mod 2 ^ ulp_exp u = 0 ->
  gen_range_around_float (FFin false u) i = range_around_float (FFin false u) i.
Proof.
  intros u i Hi Hu Hrep. rewrite gen_raf_unfold. unfold range_around_float, range_around.
  destruct (Z.eq_dec u 0) as [->|Hnz].
  - (* frexp(0.0) = (0.0, 0): the 64 levels are evaluated *)
    assert (Hcases : forall n, (n < 64)%nat ->
              raf_rest (fst (ffrexp (FFin false 0))) (snd (ffrexp (FFin false 0))) (Z.of_nat n) =
              Ok (fzero, round_p2 false (Z.shiftl 1 (Z.of_nat n + 1021)) 0)).
    { intros n Hn. do 64 (destruct n as [|n]; [vm_compute; reflexivity|]). lia. }
    replace i with (Z.of_nat (Z.to_nat i)) by lia. cbn [Z.eqb]. 
    change (snd (ffrexp (FFin false 0)) <? -1021) with false. cbv iota.
    rewrite Hcases by lia. reflexivity.
  - replace (u =? 0) with false by (symmetry; apply Z.eqb_neq; lia).
    assert (Hl0 : 0 <= Z.log2 u) by apply Z.log2_nonneg.
    assert (Hlog : 2 ^ Z.log2 u <= u < 2 ^ Z.succ (Z.log2 u)) by (apply Z.log2_spec; lia).
    unfold ffrexp. replace (u =? 0) with false by (symmetry; apply Z.eqb_neq; lia).
    cbv zeta. cbn [fst snd].
    destruct (u <? P52) eqn:Esub.
    + (* subnormal: the exponent is fixed to -1021 *)
      apply Z.ltb_lt in Esub. change P52 with (2 ^ 52) in Esub.
      assert (Hl : Z.log2 u < 52) by (apply Z.log2_lt_pow2; lia).
      replace (Z.log2 u - 1073 <? -1021) with true by (symmetry; apply Z.ltb_lt; lia).
      assert (Hp : 0 < 2 ^ 1021) by (apply pow2_pos'; lia).
      rewrite (fldexp_exact false u 1021 (u * 2 ^ 1021)); try lia.
      * cbn [bind]. replace (0 <=? i) with true by (symmetry; apply Z.leb_le; lia).
        etransitivity; [apply (raf_rest_spec u i i u (-1021)); try lia;
                        replace (i - i) with 0 by lia; rewrite Z.pow_0_r; lia|].
        cbv zeta. destruct (round_p2 false (Z.shiftl (Z.shiftr u i + 1) i) 0); reflexivity.
      * split; [apply Z.mul_pos_pos; lia|]. rewrite UOVER_eq.
        apply Z.lt_le_trans with (2 ^ 52 * 2 ^ 1021); [apply Z.mul_lt_mono_pos_r; lia|].
        rewrite <- Z.pow_add_r by lia. apply Z.pow_le_mono_r; lia.
      * apply rep_scaled; lia.
    + (* normal: mantissa q = u / 2^(l-52) *)
      apply Z.ltb_ge in Esub. change P52 with (2 ^ 52) in Esub.
      set (l := Z.log2 u) in *.
      assert (Hl : 52 <= l) by (apply Z.log2_le_pow2; lia).
      replace (l - 1073 <? -1021) with false by (symmetry; apply Z.ltb_ge; lia).
      replace (0 <=? l + i - 52) with true by (symmetry; apply Z.leb_le; lia).
      assert (Hue : ulp_exp u = l - 52) by (unfold ulp_exp; fold l; lia).
      rewrite Hue in Hrep.
      assert (Hpd : 0 < 2 ^ (l - 52)) by (apply pow2_pos'; lia).
      set (q := u / 2 ^ (l - 52)).
      assert (Huq : u = q * 2 ^ (l - 52)).
      { unfold q. rewrite Z.mul_comm. apply Z.div_exact; lia. }
      assert (Hq : 0 < q < 2 ^ 53).
      { split.
        - apply Z.div_str_pos. split; [lia|]. apply Z.le_trans with (2 ^ l); [apply Z.pow_le_mono_r; lia | lia].
        - apply Z.div_lt_upper_bound; [lia|]. rewrite <- Z.pow_add_r by lia.
          replace (l - 52 + 53) with (Z.succ l) by lia. lia. }
      assert (HM : (if l <=? 1073 then Z.shiftl u (1073 - l) else Z.shiftr u (l - 1073)) = q * 2 ^ 1021).
      { destruct (l <=? 1073) eqn:El.
        - apply Z.leb_le in El. rewrite Z.shiftl_mul_pow2 by lia. rewrite Huq.
          rewrite <- Z.mul_assoc, <- Z.pow_add_r by lia. f_equal. f_equal. lia.
        - apply Z.leb_gt in El. rewrite Z.shiftr_div_pow2 by lia. rewrite Huq.
          replace (2 ^ (l - 52)) with (2 ^ 1021 * 2 ^ (l - 1073)) by (rewrite <- Z.pow_add_r by lia; f_equal; lia).
          rewrite Z.mul_assoc. apply Z.div_mul. pose proof (pow2_pos' (l - 1073)). lia. }
      rewrite HM.
      etransitivity; [apply (raf_rest_spec q i (l + i - 52) u (l - 1073)); try lia;
                      replace (l + i - 52 - i) with (l - 52) by lia; exact Huq|].
      cbv zeta. destruct (round_p2 false (Z.shiftl (Z.shiftr u (l + i - 52) + 1) (l + i - 52)) 0); reflexivity.
Qed.
