(* K6 proofs: AddVisibleColumn. *)
From Coq Require Import ZArith List Bool Lia.
Import ListNotations.
Require Import Grist.Model.MetaCascade Grist.Proofs.MetaCascade_base Grist.Proofs.MetaCascade_inv
  Grist.Proofs.MetaCascade_rm Grist.Proofs.MetaCascade_add Grist.Proofs.MetaCascade_add2
  Grist.Proofs.MetaCascade_add3.
Open Scope Z_scope.

Lemma add_field_each_inv : forall secs c m,
  Inv m -> (forall s, In s secs -> ColOfSection m s c) -> Inv (add_field_each secs c m).
Proof.
  induction secs as [|s r IH]; intros c m HI Hs; simpl; [exact HI|].
  apply IH.
  - apply add_fields_inv; [exact HI|]. intros c0 [E|[]]. subst c0. apply Hs. left. reflexivity.
  - intros s0 Hs0. destruct (add_fields_frame s [c] m) as [_ [F2 [F3 _]]].
    destruct (Hs s0 (or_intror Hs0)) as [sr [cr [A [B [C [D E]]]]]].
    exists sr, cr. rewrite F2, F3. tauto.
Qed.

Lemma add_visible_column_inv : forall t kind reft secs m m',
  Inv m -> add_visible_column t kind reft secs m = Ok m' -> Inv m'.
Proof.
  intros t kind reft secs m m' HI H. unfold add_visible_column in H.
  destruct (add_column t kind reft m) as [m1| |] eqn:E; unfold bind in H; try discriminate.
  pose proof (add_column_inv _ _ _ _ _ HI E) as HI1.
  destruct (forallb _ secs) eqn:Ef; [|discriminate]. inversion H; subst m'.
  apply add_field_each_inv; [exact HI1|].
  intros s Hs. rewrite forallb_forall in Ef. apply col_of_section_iff. apply Ef. exact Hs.
Qed.
