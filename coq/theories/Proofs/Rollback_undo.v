(* Every completed doc action is reverted by replaying the undo actions it appended (newest first), and keeps
   the document well-formed (Model/Rollback.v). *)
From stdpp Require Import gmap sorting.
Require Import Grist.Model.Rollback Grist.Proofs.Rollback_proofs Grist.Proofs.Rollback_actions.
Open Scope Z_scope.

Lemma wf_tset_same d t sc tb' : wf d -> d_schema d !! t = Some sc -> wf_table sc tb' -> wf (tset t tb' d).
Proof.
  intros Hw Hs Hwt. unfold tset. rewrite <- (insert_id (d_schema d) t sc Hs). apply wf_tset; assumption.
Qed.

(* two tables over the same schema entry are equal when rows agree and every column reads the same *)
Lemma table_restore sc tb tb2 R2 :
  wf_table sc tb -> t_rows tb2 = t_rows tb -> dom (t_cols tb2) = dom (t_cols tb) ->
  (forall c col col2, t_cols tb !! c = Some col -> t_cols tb2 !! c = Some col2 ->
     c_info col2 = c_info col /\ wf_col R2 col2 /\ forall r, cget col2 r = cget col r) ->
  tb2 = tb.
Proof.
  intros Hw Hr Hd H. apply table_ext; [exact Hr|]. intros c.
  destruct (t_cols tb !! c) as [col|] eqn:E.
  - assert (Hin : c ∈ dom (t_cols tb2)) by (rewrite Hd; apply elem_of_dom; eauto).
    apply elem_of_dom in Hin as [col2 E2]. rewrite E2. f_equal.
    destruct (H _ _ _ E E2) as (Hi & Hw2 & Hg).
    eapply col_ext; [exact Hw2|exact (proj2 (wf_table_col _ _ _ _ Hw E))|exact Hi|exact Hg].
  - apply (not_elem_of_dom (D := gset name)). rewrite Hd. apply not_elem_of_dom. exact E.
Qed.

Lemma apply_doc_unfold ord d a :
  apply_doc ord d a = ms_doc <$> exec_all (MState d [] [] None) (steps_of ord d (normalize a)).
Proof. reflexivity. Qed.

(* facts about the undo values of BulkUpdateRecord *)
Lemma update_undo_fst tb rows vals : Forall (known tb) vals -> (update_undo tb rows vals).*1 = vals.*1.
Proof.
  induction 1 as [|cv vals [col H] _ IH]; [reflexivity|]. unfold update_undo in *. simpl. rewrite H. simpl. f_equal. exact IH.
Qed.

Lemma update_undo_in tb rows vals cv :
  cv ∈ update_undo tb rows vals -> exists col, t_cols tb !! cv.1 = Some col /\ cv.2 = map (cget col) rows.
Proof.
  unfold update_undo. intros H. apply elem_of_list_omap in H as (cv0 & _ & H).
  destruct (t_cols tb !! cv0.1) as [col|] eqn:E; [|discriminate]. simpl in H. injection H as <-. simpl. eauto.
Qed.

Lemma undo_update ord d t tb sc rows vals :
  wf d -> d_tables d !! t = Some tb -> d_schema d !! t = Some sc ->
  Forall (fun r => r ∈ t_rows tb) rows -> Forall (known tb) vals ->
  let d' := tset t (write_cols rows vals tb) d in
  wf d' /\ apply_doc ord d' (BulkUpdateRecord t rows (update_undo tb rows vals)) = Some d.
Proof.
  intros Hw Ht Hs Hr Hk d'. assert (Hwt : wf_table sc tb) by (eapply wf_lookup; eauto).
  assert (Hrin : forall r, r ∈ rows -> r ∈ t_rows tb) by (intros r; rewrite Forall_forall in Hr; apply Hr).
  split; [apply (wf_tset_same d t sc); [exact Hw|exact Hs|apply wf_table_write_cols; assumption]|].
  rewrite apply_doc_unfold. simpl normalize.
  rewrite (exec_update_ok ord d' t (write_cols rows vals tb)); [|apply tset_lookup|rewrite write_cols_rows; exact Hr|].
  2: { apply Forall_forall. intros cv Hcv. apply update_undo_in in Hcv as (col & Hc & _). unfold known.
       rewrite write_cols_lookup, Hc. eexists. reflexivity. }
  simpl. f_equal. unfold d'. rewrite tset_tset. apply tset_id. rewrite Ht. f_equal. symmetry.
  apply (table_restore sc tb _ (t_rows tb) Hwt).
  - rewrite !write_cols_rows. reflexivity.
  - rewrite !write_cols_dom. reflexivity.
  - intros c col col2 Hc H2. rewrite !write_cols_lookup, Hc in H2. simpl in H2. injection H2 as <-.
    destruct (wf_table_col _ _ _ _ Hwt Hc) as [_ Hwc].
    split; [rewrite !col_writes_info; reflexivity|]. split; [apply col_writes_wf; [apply col_writes_wf; assumption|assumption]|].
    intros r. destruct (decide (r ∈ rows)) as [Hin|Hnin]; [|rewrite !col_writes_other by exact Hnin; reflexivity].
    destruct (decide (c ∈ vals.*1)) as [Hcv|Hcv].
    + apply (col_writes_restores c rows (cget col)); [rewrite update_undo_fst by exact Hk; exact Hcv| |exact Hin].
      intros cv Hcvin Hcv1. apply update_undo_in in Hcvin as (col0 & Hc0 & ->). rewrite Hcv1, Hc in Hc0. congruence.
    + rewrite (col_writes_notin c rows (update_undo tb rows vals)) by (rewrite update_undo_fst by exact Hk; exact Hcv).
      rewrite col_writes_notin by exact Hcv. reflexivity.
Qed.
Lemma filter_all {A} (P : A -> Prop) `{forall x, Decision (P x)} (l : list A) : Forall P l -> filter P l = l.
Proof. induction 1 as [|x l Hx _ IH]; [reflexivity|]. rewrite filter_cons_True by exact Hx. f_equal. exact IH. Qed.

Lemma wf_table_more_rows sc tb R :
  wf_table sc tb -> t_rows tb ⊆ R -> wf_table sc {| t_rows := R; t_cols := t_cols tb |}.
Proof.
  intros [Hd H] HR. split; [exact Hd|]. simpl. eapply map_Forall_impl; [exact H|]. simpl.
  intros c col [H1 H2]. split; [exact H1|]. eapply wf_col_mono; eauto.
Qed.

Lemma unset_values_in tb cs rows cv :
  cv ∈ unset_values tb cs rows ->
  exists col, t_cols tb !! cv.1 = Some col /\ cv.2 = map (fun _ => cdefault col) rows.
Proof.
  unfold unset_values. intros H. apply elem_of_list_omap in H as (c & _ & H).
  destruct (t_cols tb !! c) as [col|] eqn:E; [|discriminate]. simpl in H. injection H as <-. simpl. eauto.
Qed.

Lemma unset_values_fst tb cs rows c col :
  c ∈ cs -> t_cols tb !! c = Some col -> c ∈ (unset_values tb cs rows).*1.
Proof.
  intros Hin Hc. apply elem_of_list_fmap. exists (c, map (fun _ => cdefault col) rows). split; [reflexivity|].
  unfold unset_values. apply elem_of_list_omap. exists c. split; [exact Hin|]. rewrite Hc. reflexivity.
Qed.

Lemma col_values_in tb cs rows cv :
  cv ∈ col_values tb cs rows -> exists col, cv.1 ∈ cs /\ t_cols tb !! cv.1 = Some col /\ cv.2 = map (cget col) rows.
Proof.
  unfold col_values. intros H. apply elem_of_list_omap in H as (c & Hin & H).
  destruct (t_cols tb !! c) as [col|] eqn:E; [|discriminate]. simpl in H. injection H as <-. simpl. eauto.
Qed.

Lemma col_values_fst tb cs rows c col :
  c ∈ cs -> t_cols tb !! c = Some col -> c ∈ (col_values tb cs rows).*1.
Proof.
  intros Hin Hc. apply elem_of_list_fmap. exists (c, map (cget col) rows). split; [reflexivity|].
  unfold col_values. apply elem_of_list_omap. exists c. split; [exact Hin|]. rewrite Hc. reflexivity.
Qed.

Lemma map_const_eq {A B} (f : A -> B) (b : B) (l : list A) : (forall x, x ∈ l -> f x = b) -> map f l = map (fun _ => b) l.
Proof. induction l as [|x l IH]; intros H; [reflexivity|]. simpl. f_equal; [apply H; left|apply IH; intros; apply H; right; assumption]. Qed.

Lemma undo_add ord d t tb sc rows vals :
  wf d -> d_tables d !! t = Some tb -> d_schema d !! t = Some sc ->
  Forall (fun r => r ∉ t_rows tb) rows -> Forall (known tb) vals ->
  let d' := tset t (write_cols rows vals (set_rows (fun rs => list_to_set rows ∪ rs) tb)) d in
  wf d' /\ apply_doc ord d' (BulkRemoveRecord t rows) = Some d.
Proof.
  intros Hw Ht Hs Hr Hk d'. assert (Hwt : wf_table sc tb) by (eapply wf_lookup; eauto).
  set (tb1 := set_rows (fun rs => list_to_set rows ∪ rs) tb).
  assert (Hwt1 : wf_table sc tb1) by (apply wf_table_more_rows; [exact Hwt|set_solver]).
  assert (Hrin1 : forall r, r ∈ rows -> r ∈ t_rows tb1) by (intros r Hin; unfold tb1; simpl; set_solver).
  assert (Hwt' : wf_table sc (write_cols rows vals tb1)) by (apply wf_table_write_cols; assumption).
  split; [apply (wf_tset_same d t sc); assumption|].
  rewrite apply_doc_unfold. simpl normalize. rewrite (exec_remove_ok ord d' t (write_cols rows vals tb1)) by apply tset_lookup.
  rewrite filter_all by (apply Forall_forall; intros r Hin; rewrite write_cols_rows; apply Hrin1; exact Hin).
  assert (Hgoal : forall tbx, t_rows tbx = t_rows tb -> dom (t_cols tbx) = dom (t_cols tb) ->
            (forall c col, t_cols tb !! c = Some col -> exists colx, t_cols tbx !! c = Some colx /\
               c_info colx = c_info col /\ wf_col (t_rows tb1) colx /\ forall r, cget colx r = cget col r) ->
            tset t tbx d' = d).
  { intros tbx H1 H2 H3. unfold d'. rewrite tset_tset. apply tset_id. rewrite Ht. f_equal. symmetry.
    apply (table_restore sc tb tbx (t_rows tb1) Hwt H1 H2). intros c col col2 Hc Hc2.
    destruct (H3 _ _ Hc) as (colx & Hx & ?). rewrite Hx in Hc2. injection Hc2 as <-. assumption. }
  destruct rows as [|r0 rows0].
  - simpl. f_equal. rewrite <- (tset_id t (write_cols [] vals tb1) d') by apply tset_lookup. apply Hgoal.
    + rewrite write_cols_rows. unfold tb1. simpl. set_solver.
    + rewrite write_cols_dom. reflexivity.
    + intros c col Hc. rewrite write_cols_lookup. unfold tb1. simpl. rewrite Hc. simpl. eexists. split; [reflexivity|].
      destruct (wf_table_col _ _ _ _ Hwt Hc) as [_ Hwc].
      split; [apply col_writes_info|]. split; [apply col_writes_wf; [eapply wf_col_mono; [exact Hwc|set_solver]|intros r Hr0; inversion Hr0]|].
      intros r. apply col_writes_other. apply not_elem_of_nil.
  - cbv iota. remember (r0 :: rows0) as rows eqn:Erows. simpl. f_equal. apply Hgoal.
    + unfold remove_tb. rewrite write_cols_rows. simpl. rewrite write_cols_rows. unfold tb1. simpl.
      apply set_eq. intros r. rewrite elem_of_difference, elem_of_union, elem_of_list_to_set.
      rewrite Forall_forall in Hr. split; [intros [[?|?] ?]; [contradiction|assumption]|]. intros H. split; [right; exact H|]. intros Hin. exact (Hr r Hin H).
    + unfold remove_tb. rewrite write_cols_dom. simpl. rewrite write_cols_dom. reflexivity.
    + intros c col Hc. unfold remove_tb. rewrite write_cols_lookup. simpl. rewrite write_cols_lookup. unfold tb1. simpl. rewrite Hc. simpl.
      eexists. split; [reflexivity|]. destruct (wf_table_col _ _ _ _ Hwt Hc) as [_ Hwc].
      assert (Hwc1 : wf_col (t_rows tb1) col) by (eapply wf_col_mono; [exact Hwc|unfold tb1; simpl; set_solver]).
      split; [rewrite !col_writes_info; reflexivity|].
      split; [apply col_writes_wf; [apply col_writes_wf; assumption|assumption]|].
      intros r. destruct (decide (r ∈ rows)) as [Hin|Hnin]; [|rewrite !col_writes_other by exact Hnin; reflexivity].
      rewrite (col_writes_restores c rows (fun _ => cdefault col)); [| | |exact Hin].
      * symmetry. apply (cget_default_notin (t_rows tb)); [exact Hwc|]. rewrite Forall_forall in Hr. apply Hr. exact Hin.
      * eapply unset_values_fst; [eapply cols_in_order_complete|]; rewrite write_cols_lookup; unfold tb1; simpl; rewrite Hc; reflexivity.
      * intros cv Hcv Hcv1. apply unset_values_in in Hcv as (colx & Hx & ->).
        rewrite write_cols_lookup, Hcv1 in Hx. unfold tb1 in Hx. simpl in Hx. rewrite Hc in Hx. simpl in Hx. injection Hx as <-.
        unfold cdefault. rewrite col_writes_info. reflexivity.
Qed.

Lemma in_l2s (r : rowid) (l : list rowid) : r ∈ (list_to_set l : gset rowid) <-> r ∈ l.
Proof. apply elem_of_list_to_set. Qed.

Lemma wf_col_shrink R R' col :
  wf_col R col -> (forall r, r ∈ R -> r ∉ R' -> cget col r = cdefault col) -> wf_col R' col.
Proof.
  unfold wf_col. intros H Hd. apply map_Forall_lookup. intros r v Hl.
  destruct (proj1 (map_Forall_lookup _ _) H _ _ Hl) as [Hv Hr]. split; [exact Hv|].
  destruct (decide (r ∈ R')) as [|Hn]; [assumption|]. exfalso. apply Hv.
  specialize (Hd r Hr Hn). unfold cget in Hd. rewrite Hl in Hd. exact Hd.
Qed.

Lemma all_default_spec col rows r : all_default col rows = true -> r ∈ rows -> cget col r = cdefault col.
Proof.
  unfold all_default. rewrite forallb_forall. intros H Hin. apply elem_of_list_In in Hin.
  specialize (H _ Hin). apply bool_decide_eq_true in H. exact H.
Qed.

Lemma undo_remove ord d t tb sc rows :
  wf d -> d_tables d !! t = Some tb -> d_schema d !! t = Some sc ->
  let rows' := filter (fun r => r ∈ t_rows tb) rows in
  let d' := tset t (remove_tb ord t tb rows') d in
  wf d' /\ apply_doc ord d' (remove_undo t tb (cols_in_order ord t tb) rows') = Some d.
Proof.
  intros Hw Ht Hs rows' d'. assert (Hwt : wf_table sc tb) by (eapply wf_lookup; eauto).
  assert (Hrin : forall r, r ∈ rows' -> r ∈ t_rows tb) by (intros r Hin; apply elem_of_list_filter in Hin as [? _]; assumption).
  set (cs := cols_in_order ord t tb). set (uv := unset_values tb cs rows').
  assert (Hlook : forall c, t_cols (remove_tb ord t tb rows') !! c = col_writes c rows' uv <$> t_cols tb !! c).
  { intros c. unfold remove_tb. rewrite write_cols_lookup. reflexivity. }
  assert (Hunset : forall c col r, t_cols tb !! c = Some col -> r ∈ rows' -> cget (col_writes c rows' uv col) r = cdefault col).
  { intros c col r Hc Hin. apply (col_writes_restores c rows' (fun _ => cdefault col)); [| |exact Hin].
    - eapply unset_values_fst; [eapply cols_in_order_complete|]; exact Hc.
    - intros cv Hcv Hcv1. apply unset_values_in in Hcv as (colx & Hx & ->). rewrite Hcv1, Hc in Hx. injection Hx as <-. reflexivity. }
  assert (Hrows' : t_rows (remove_tb ord t tb rows') = t_rows tb ∖ list_to_set rows') by (unfold remove_tb; rewrite write_cols_rows; reflexivity).
  assert (Hdom' : dom (t_cols (remove_tb ord t tb rows')) = dom (t_cols tb)) by (unfold remove_tb; rewrite write_cols_dom; reflexivity).
  assert (Hwt' : wf_table sc (remove_tb ord t tb rows')).
  { eapply wf_table_same_schema; [exact Hwt|exact Hdom'|]. intros c col' Hl. rewrite Hlook in Hl.
    destruct (t_cols tb !! c) as [col|] eqn:Hc; [|discriminate]. simpl in Hl. injection Hl as <-.
    exists col. split; [reflexivity|]. split; [apply col_writes_info|]. rewrite Hrows'.
    destruct (wf_table_col _ _ _ _ Hwt Hc) as [_ Hwc].
    apply (wf_col_shrink (t_rows tb)); [apply col_writes_wf; assumption|].
    intros r Hr Hnr. unfold cdefault. rewrite col_writes_info. apply Hunset; [exact Hc|].
    apply in_l2s. destruct (decide (r ∈ (list_to_set rows' : gset rowid))); [assumption|]. exfalso. apply Hnr. set_solver. }
  split; [apply (wf_tset_same d t sc); assumption|].
  rewrite apply_doc_unfold. unfold remove_undo. simpl normalize.
  set (ucs := filter (fun c => from_option (fun col => negb (all_default col rows')) false (t_cols tb !! c) = true) cs).
  rewrite (exec_add_ok ord d' t (remove_tb ord t tb rows')); [|apply tset_lookup| |].
  - simpl. f_equal. unfold d'. rewrite tset_tset. apply tset_id. rewrite Ht. f_equal. symmetry.
    apply (table_restore sc tb _ (t_rows tb) Hwt).
    + rewrite write_cols_rows. simpl. rewrite Hrows'. symmetry. apply union_difference_L.
      intros r Hr. apply in_l2s in Hr. apply Hrin. exact Hr.
    + rewrite write_cols_dom. simpl. exact Hdom'.
    + intros c col col2 Hc H2. rewrite write_cols_lookup in H2. simpl in H2. rewrite Hlook, Hc in H2. simpl in H2. injection H2 as <-.
      destruct (wf_table_col _ _ _ _ Hwt Hc) as [_ Hwc].
      split; [rewrite !col_writes_info; reflexivity|].
      split; [apply col_writes_wf; [apply col_writes_wf; assumption|assumption]|].
      intros r. destruct (decide (r ∈ rows')) as [Hin|Hnin]; [|rewrite !col_writes_other by exact Hnin; reflexivity].
      destruct (all_default col rows') eqn:Ead.
      * rewrite col_writes_notin.
        -- rewrite (Hunset c col r Hc Hin). symmetry. eapply all_default_spec; eauto.
        -- intros Hx. apply elem_of_list_fmap in Hx as (cv & -> & Hcv). apply col_values_in in Hcv as (colx & Hcs & Hx & _).
           unfold ucs in Hcs. apply elem_of_list_filter in Hcs as [Hf _]. rewrite Hc in Hf. simpl in Hf. rewrite Ead in Hf. discriminate.
      * apply (col_writes_restores c rows' (cget col)); [| |exact Hin].
        -- eapply col_values_fst; [|exact Hc]. unfold ucs. apply elem_of_list_filter. split; [rewrite Hc; simpl; rewrite Ead; reflexivity|].
           eapply cols_in_order_complete. exact Hc.
        -- intros cv Hcv Hcv1. apply col_values_in in Hcv as (colx & _ & Hx & ->). rewrite Hcv1, Hc in Hx. injection Hx as <-. reflexivity.
  - apply Forall_forall. intros r Hin. rewrite Hrows'. intros Hx. apply elem_of_difference in Hx as [_ Hx]. apply Hx. apply in_l2s. exact Hin.
  - apply Forall_forall. intros cv Hcv. apply col_values_in in Hcv as (colx & _ & Hx & _). unfold known. rewrite Hlook, Hx. eexists. reflexivity.
Qed.
