(* Every completed doc action is reverted by replaying the undo actions it appended (newest first), and keeps
   the document well-formed (Model/Rollback.v). *)
From stdpp Require Import gmap sorting.
Require Import Grist.Model.Rollback Grist.Proofs.Rollback_proofs Grist.Proofs.Rollback_actions.
Open Scope Z_scope.

Lemma wf_tset_same d t sc tb' : wf d -> d_schema d !! t = Some sc -> wf_table sc tb' -> wf (tset t tb' d).
Proof.
  intros Hw Hs Hwt. unfold tset. rewrite <- (insert_id (d_schema d) t sc Hs). apply wf_tset; assumption.
Qed.

(* two tables over the same schema entry are equal when rows agree and every column reads the same *)
Lemma table_restore sc tb tb2 R2 :
  wf_table sc tb -> t_rows tb2 = t_rows tb -> dom (t_cols tb2) = dom (t_cols tb) ->
  (forall c col col2, t_cols tb !! c = Some col -> t_cols tb2 !! c = Some col2 ->
     c_info col2 = c_info col /\ wf_col R2 col2 /\ forall r, cget col2 r = cget col r) ->
  tb2 = tb.
Proof.
  intros Hw Hr Hd H. apply table_ext; [exact Hr|]. intros c.
  destruct (t_cols tb !! c) as [col|] eqn:E.
  - assert (Hin : c ∈ dom (t_cols tb2)) by (rewrite Hd; apply elem_of_dom; eauto).
    apply elem_of_dom in Hin as [col2 E2]. rewrite E2. f_equal.
    destruct (H _ _ _ E E2) as (Hi & Hw2 & Hg).
    eapply col_ext; [exact Hw2|exact (proj2 (wf_table_col _ _ _ _ Hw E))|exact Hi|exact Hg].
  - apply (not_elem_of_dom (D := gset name)). rewrite Hd. apply not_elem_of_dom. exact E.
Qed.

Lemma apply_doc_unfold ord d a :
  apply_doc ord d a = ms_doc <$> exec_all (MState d [] [] None) (steps_of ord d (normalize a)).
Proof. reflexivity. Qed.

(* facts about the undo values of BulkUpdateRecord *)
Lemma update_undo_fst tb rows vals : Forall (known tb) vals -> (update_undo tb rows vals).*1 = vals.*1.
Proof.
  induction 1 as [|cv vals [col H] _ IH]; [reflexivity|]. unfold update_undo in *. simpl. rewrite H. simpl. f_equal. exact IH.
Qed.

Lemma update_undo_in tb rows vals cv :
  cv ∈ update_undo tb rows vals -> exists col, t_cols tb !! cv.1 = Some col /\ cv.2 = map (cget col) rows.
Proof.
  unfold update_undo. intros H. apply elem_of_list_omap in H as (cv0 & _ & H).
  destruct (t_cols tb !! cv0.1) as [col|] eqn:E; [|discriminate]. simpl in H. injection H as <-. simpl. eauto.
Qed.

Lemma undo_update ord d t tb sc rows vals :
  wf d -> d_tables d !! t = Some tb -> d_schema d !! t = Some sc ->
  Forall (fun r => r ∈ t_rows tb) rows -> Forall (known tb) vals ->
  let d' := tset t (write_cols rows vals tb) d in
  wf d' /\ apply_doc ord d' (BulkUpdateRecord t rows (update_undo tb rows vals)) = Some d.
Proof.
  intros Hw Ht Hs Hr Hk d'. assert (Hwt : wf_table sc tb) by (eapply wf_lookup; eauto).
  assert (Hrin : forall r, r ∈ rows -> r ∈ t_rows tb) by (intros r; rewrite Forall_forall in Hr; apply Hr).
  split; [apply (wf_tset_same d t sc); [exact Hw|exact Hs|apply wf_table_write_cols; assumption]|].
  rewrite apply_doc_unfold. simpl normalize.
  rewrite (exec_update_ok ord d' t (write_cols rows vals tb)); [|apply tset_lookup|rewrite write_cols_rows; exact Hr|].
  2: { apply Forall_forall. intros cv Hcv. apply update_undo_in in Hcv as (col & Hc & _). unfold known.
       rewrite write_cols_lookup, Hc. eexists. reflexivity. }
  simpl. f_equal. unfold d'. rewrite tset_tset. apply tset_id. rewrite Ht. f_equal. symmetry.
  apply (table_restore sc tb _ (t_rows tb) Hwt).
  - rewrite !write_cols_rows. reflexivity.
  - rewrite !write_cols_dom. reflexivity.
  - intros c col col2 Hc H2. rewrite !write_cols_lookup, Hc in H2. simpl in H2. injection H2 as <-.
    destruct (wf_table_col _ _ _ _ Hwt Hc) as [_ Hwc].
    split; [rewrite !col_writes_info; reflexivity|]. split; [apply col_writes_wf; [apply col_writes_wf; assumption|assumption]|].
    intros r. destruct (decide (r ∈ rows)) as [Hin|Hnin]; [|rewrite !col_writes_other by exact Hnin; reflexivity].
    destruct (decide (c ∈ vals.*1)) as [Hcv|Hcv].
    + apply (col_writes_restores c rows (cget col)); [rewrite update_undo_fst by exact Hk; exact Hcv| |exact Hin].
      intros cv Hcvin Hcv1. apply update_undo_in in Hcvin as (col0 & Hc0 & ->). rewrite Hcv1, Hc in Hc0. congruence.
    + rewrite (col_writes_notin c rows (update_undo tb rows vals)) by (rewrite update_undo_fst by exact Hk; exact Hcv).
      rewrite col_writes_notin by exact Hcv. reflexivity.
Qed.
Lemma filter_all {A} (P : A -> Prop) `{forall x, Decision (P x)} (l : list A) : Forall P l -> filter P l = l.
Proof. induction 1 as [|x l Hx _ IH]; [reflexivity|]. rewrite filter_cons_True by exact Hx. f_equal. exact IH. Qed.

Lemma wf_table_more_rows sc tb R :
  wf_table sc tb -> t_rows tb ⊆ R -> wf_table sc {| t_rows := R; t_cols := t_cols tb |}.
Proof.
  intros [Hd H] HR. split; [exact Hd|]. simpl. eapply map_Forall_impl; [exact H|]. simpl.
  intros c col [H1 H2]. split; [exact H1|]. eapply wf_col_mono; eauto.
Qed.

Lemma unset_values_in tb cs rows cv :
  cv ∈ unset_values tb cs rows ->
  exists col, t_cols tb !! cv.1 = Some col /\ cv.2 = map (fun _ => cdefault col) rows.
Proof.
  unfold unset_values. intros H. apply elem_of_list_omap in H as (c & _ & H).
  destruct (t_cols tb !! c) as [col|] eqn:E; [|discriminate]. simpl in H. injection H as <-. simpl. eauto.
Qed.

Lemma unset_values_fst tb cs rows c col :
  c ∈ cs -> t_cols tb !! c = Some col -> c ∈ (unset_values tb cs rows).*1.
Proof.
  intros Hin Hc. apply elem_of_list_fmap. exists (c, map (fun _ => cdefault col) rows). split; [reflexivity|].
  unfold unset_values. apply elem_of_list_omap. exists c. split; [exact Hin|]. rewrite Hc. reflexivity.
Qed.

Lemma col_values_in tb cs rows cv :
  cv ∈ col_values tb cs rows -> exists col, cv.1 ∈ cs /\ t_cols tb !! cv.1 = Some col /\ cv.2 = map (cget col) rows.
Proof.
  unfold col_values. intros H. apply elem_of_list_omap in H as (c & Hin & H).
  destruct (t_cols tb !! c) as [col|] eqn:E; [|discriminate]. simpl in H. injection H as <-. simpl. eauto.
Qed.

Lemma col_values_fst tb cs rows c col :
  c ∈ cs -> t_cols tb !! c = Some col -> c ∈ (col_values tb cs rows).*1.
Proof.
  intros Hin Hc. apply elem_of_list_fmap. exists (c, map (cget col) rows). split; [reflexivity|].
  unfold col_values. apply elem_of_list_omap. exists c. split; [exact Hin|]. rewrite Hc. reflexivity.
Qed.

Lemma map_const_eq {A B} (f : A -> B) (b : B) (l : list A) : (forall x, x ∈ l -> f x = b) -> map f l = map (fun _ => b) l.
Proof. induction l as [|x l IH]; intros H; [reflexivity|]. simpl. f_equal; [apply H; left|apply IH; intros; apply H; right; assumption]. Qed.

Lemma undo_add ord d t tb sc rows vals :
  wf d -> d_tables d !! t = Some tb -> d_schema d !! t = Some sc ->
  Forall (fun r => r ∉ t_rows tb) rows -> Forall (known tb) vals ->
  let d' := tset t (write_cols rows vals (set_rows (fun rs => list_to_set rows ∪ rs) tb)) d in
  wf d' /\ apply_doc ord d' (BulkRemoveRecord t rows) = Some d.
Proof.
  intros Hw Ht Hs Hr Hk d'. assert (Hwt : wf_table sc tb) by (eapply wf_lookup; eauto).
  set (tb1 := set_rows (fun rs => list_to_set rows ∪ rs) tb).
  assert (Hwt1 : wf_table sc tb1) by (apply wf_table_more_rows; [exact Hwt|set_solver]).
  assert (Hrin1 : forall r, r ∈ rows -> r ∈ t_rows tb1) by (intros r Hin; unfold tb1; simpl; set_solver).
  assert (Hwt' : wf_table sc (write_cols rows vals tb1)) by (apply wf_table_write_cols; assumption).
  split; [apply (wf_tset_same d t sc); assumption|].
  rewrite apply_doc_unfold. simpl normalize. rewrite (exec_remove_ok ord d' t (write_cols rows vals tb1)) by apply tset_lookup.
  rewrite filter_all by (apply Forall_forall; intros r Hin; rewrite write_cols_rows; apply Hrin1; exact Hin).
  assert (Hgoal : forall tbx, t_rows tbx = t_rows tb -> dom (t_cols tbx) = dom (t_cols tb) ->
            (forall c col, t_cols tb !! c = Some col -> exists colx, t_cols tbx !! c = Some colx /\
               c_info colx = c_info col /\ wf_col (t_rows tb1) colx /\ forall r, cget colx r = cget col r) ->
            tset t tbx d' = d).
  { intros tbx H1 H2 H3. unfold d'. rewrite tset_tset. apply tset_id. rewrite Ht. f_equal. symmetry.
    apply (table_restore sc tb tbx (t_rows tb1) Hwt H1 H2). intros c col col2 Hc Hc2.
    destruct (H3 _ _ Hc) as (colx & Hx & ?). rewrite Hx in Hc2. injection Hc2 as <-. assumption. }
  destruct rows as [|r0 rows0].
  - simpl. f_equal. rewrite <- (tset_id t (write_cols [] vals tb1) d') by apply tset_lookup. apply Hgoal.
    + rewrite write_cols_rows. unfold tb1. simpl. set_solver.
    + rewrite write_cols_dom. reflexivity.
    + intros c col Hc. rewrite write_cols_lookup. unfold tb1. simpl. rewrite Hc. simpl. eexists. split; [reflexivity|].
      destruct (wf_table_col _ _ _ _ Hwt Hc) as [_ Hwc].
      split; [apply col_writes_info|]. split; [apply col_writes_wf; [eapply wf_col_mono; [exact Hwc|set_solver]|intros r Hr0; inversion Hr0]|].
      intros r. apply col_writes_other. apply not_elem_of_nil.
  - cbv iota. remember (r0 :: rows0) as rows eqn:Erows. simpl. f_equal. apply Hgoal.
    + unfold remove_tb. rewrite write_cols_rows. simpl. rewrite write_cols_rows. unfold tb1. simpl.
      apply set_eq. intros r. rewrite elem_of_difference, elem_of_union, elem_of_list_to_set.
      rewrite Forall_forall in Hr. split; [intros [[?|?] ?]; [contradiction|assumption]|]. intros H. split; [right; exact H|]. intros Hin. exact (Hr r Hin H).
    + unfold remove_tb. rewrite write_cols_dom. simpl. rewrite write_cols_dom. reflexivity.
    + intros c col Hc. unfold remove_tb. rewrite write_cols_lookup. simpl. rewrite write_cols_lookup. unfold tb1. simpl. rewrite Hc. simpl.
      eexists. split; [reflexivity|]. destruct (wf_table_col _ _ _ _ Hwt Hc) as [_ Hwc].
      assert (Hwc1 : wf_col (t_rows tb1) col) by (eapply wf_col_mono; [exact Hwc|unfold tb1; simpl; set_solver]).
      split; [rewrite !col_writes_info; reflexivity|].
      split; [apply col_writes_wf; [apply col_writes_wf; assumption|assumption]|].
      intros r. destruct (decide (r ∈ rows)) as [Hin|Hnin]; [|rewrite !col_writes_other by exact Hnin; reflexivity].
      rewrite (col_writes_restores c rows (fun _ => cdefault col)); [| | |exact Hin].
      * symmetry. apply (cget_default_notin (t_rows tb)); [exact Hwc|]. rewrite Forall_forall in Hr. apply Hr. exact Hin.
      * eapply unset_values_fst; [eapply cols_in_order_complete|]; rewrite write_cols_lookup; unfold tb1; simpl; rewrite Hc; reflexivity.
      * intros cv Hcv Hcv1. apply unset_values_in in Hcv as (colx & Hx & ->).
        rewrite write_cols_lookup, Hcv1 in Hx. unfold tb1 in Hx. simpl in Hx. rewrite Hc in Hx. simpl in Hx. injection Hx as <-.
        unfold cdefault. rewrite col_writes_info. reflexivity.
Qed.

Lemma in_l2s (r : rowid) (l : list rowid) : r ∈ (list_to_set l : gset rowid) <-> r ∈ l.
Proof. apply elem_of_list_to_set. Qed.

Lemma wf_col_shrink R R' col :
  wf_col R col -> (forall r, r ∈ R -> r ∉ R' -> cget col r = cdefault col) -> wf_col R' col.
Proof.
  unfold wf_col. intros H Hd. apply map_Forall_lookup. intros r v Hl.
  destruct (proj1 (map_Forall_lookup _ _) H _ _ Hl) as [Hv Hr]. split; [exact Hv|].
  destruct (decide (r ∈ R')) as [|Hn]; [assumption|]. exfalso. apply Hv.
  specialize (Hd r Hr Hn). unfold cget in Hd. rewrite Hl in Hd. exact Hd.
Qed.

Lemma all_default_spec col rows r : all_default col rows = true -> r ∈ rows -> cget col r = cdefault col.
Proof.
  unfold all_default. rewrite forallb_forall. intros H Hin. apply elem_of_list_In in Hin.
  specialize (H _ Hin). apply bool_decide_eq_true in H. exact H.
Qed.

Lemma undo_remove ord d t tb sc rows :
  wf d -> d_tables d !! t = Some tb -> d_schema d !! t = Some sc ->
  let rows' := filter (fun r => r ∈ t_rows tb) rows in
  let d' := tset t (remove_tb ord t tb rows') d in
  wf d' /\ apply_doc ord d' (remove_undo t tb (cols_in_order ord t tb) rows') = Some d.
Proof.
  intros Hw Ht Hs rows' d'. assert (Hwt : wf_table sc tb) by (eapply wf_lookup; eauto).
  assert (Hrin : forall r, r ∈ rows' -> r ∈ t_rows tb) by (intros r Hin; apply elem_of_list_filter in Hin as [? _]; assumption).
  set (cs := cols_in_order ord t tb). set (uv := unset_values tb cs rows').
  assert (Hlook : forall c, t_cols (remove_tb ord t tb rows') !! c = col_writes c rows' uv <$> t_cols tb !! c).
  { intros c. unfold remove_tb. rewrite write_cols_lookup. reflexivity. }
  assert (Hunset : forall c col r, t_cols tb !! c = Some col -> r ∈ rows' -> cget (col_writes c rows' uv col) r = cdefault col).
  { intros c col r Hc Hin. apply (col_writes_restores c rows' (fun _ => cdefault col)); [| |exact Hin].
    - eapply unset_values_fst; [eapply cols_in_order_complete|]; exact Hc.
    - intros cv Hcv Hcv1. apply unset_values_in in Hcv as (colx & Hx & ->). rewrite Hcv1, Hc in Hx. injection Hx as <-. reflexivity. }
  assert (Hrows' : t_rows (remove_tb ord t tb rows') = t_rows tb ∖ list_to_set rows') by (unfold remove_tb; rewrite write_cols_rows; reflexivity).
  assert (Hdom' : dom (t_cols (remove_tb ord t tb rows')) = dom (t_cols tb)) by (unfold remove_tb; rewrite write_cols_dom; reflexivity).
  assert (Hwt' : wf_table sc (remove_tb ord t tb rows')).
  { eapply wf_table_same_schema; [exact Hwt|exact Hdom'|]. intros c col' Hl. rewrite Hlook in Hl.
    destruct (t_cols tb !! c) as [col|] eqn:Hc; [|discriminate]. simpl in Hl. injection Hl as <-.
    exists col. split; [reflexivity|]. split; [apply col_writes_info|]. rewrite Hrows'.
    destruct (wf_table_col _ _ _ _ Hwt Hc) as [_ Hwc].
    apply (wf_col_shrink (t_rows tb)); [apply col_writes_wf; assumption|].
    intros r Hr Hnr. unfold cdefault. rewrite col_writes_info. apply Hunset; [exact Hc|].
    apply in_l2s. destruct (decide (r ∈ (list_to_set rows' : gset rowid))); [assumption|]. exfalso. apply Hnr. set_solver. }
  split; [apply (wf_tset_same d t sc); assumption|].
  rewrite apply_doc_unfold. unfold remove_undo. simpl normalize.
  set (ucs := filter (fun c => from_option (fun col => negb (all_default col rows')) false (t_cols tb !! c) = true) cs).
  rewrite (exec_add_ok ord d' t (remove_tb ord t tb rows')); [|apply tset_lookup| |].
  - simpl. f_equal. unfold d'. rewrite tset_tset. apply tset_id. rewrite Ht. f_equal. symmetry.
    apply (table_restore sc tb _ (t_rows tb) Hwt).
    + rewrite write_cols_rows. simpl. rewrite Hrows'. symmetry. apply union_difference_L.
      intros r Hr. apply in_l2s in Hr. apply Hrin. exact Hr.
    + rewrite write_cols_dom. simpl. exact Hdom'.
    + intros c col col2 Hc H2. rewrite write_cols_lookup in H2. simpl in H2. rewrite Hlook, Hc in H2. simpl in H2. injection H2 as <-.
      destruct (wf_table_col _ _ _ _ Hwt Hc) as [_ Hwc].
      split; [rewrite !col_writes_info; reflexivity|].
      split; [apply col_writes_wf; [apply col_writes_wf; assumption|assumption]|].
      intros r. destruct (decide (r ∈ rows')) as [Hin|Hnin]; [|rewrite !col_writes_other by exact Hnin; reflexivity].
      destruct (all_default col rows') eqn:Ead.
      * rewrite col_writes_notin.
        -- rewrite (Hunset c col r Hc Hin). symmetry. eapply all_default_spec; eauto.
        -- intros Hx. apply elem_of_list_fmap in Hx as (cv & -> & Hcv). apply col_values_in in Hcv as (colx & Hcs & Hx & _).
           unfold ucs in Hcs. apply elem_of_list_filter in Hcs as [Hf _]. rewrite Hc in Hf. simpl in Hf. rewrite Ead in Hf. discriminate.
      * apply (col_writes_restores c rows' (cget col)); [| |exact Hin].
        -- eapply col_values_fst; [|exact Hc]. unfold ucs. apply elem_of_list_filter. split; [rewrite Hc; simpl; rewrite Ead; reflexivity|].
           eapply cols_in_order_complete. exact Hc.
        -- intros cv Hcv Hcv1. apply col_values_in in Hcv as (colx & _ & Hx & ->). rewrite Hcv1, Hc in Hx. injection Hx as <-. reflexivity.
  - apply Forall_forall. intros r Hin. rewrite Hrows'. intros Hx. apply elem_of_difference in Hx as [_ Hx]. apply Hx. apply in_l2s. exact Hin.
  - apply Forall_forall. intros cv Hcv. apply col_values_in in Hcv as (colx & _ & Hx & _). unfold known. rewrite Hlook, Hx. eexists. reflexivity.
Qed.
(* ---------------------------------------------------------------------------------------------------------- *)
(* schema actions *)
Lemma rows_list_in tb r : r ∈ rows_list tb <-> r ∈ t_rows tb.
Proof. unfold rows_list. rewrite merge_sort_Permutation. apply elem_of_elements. Qed.

Lemma undo_add_column ord d t c ci tb sc :
  wf d -> d_tables d !! t = Some tb -> d_schema d !! t = Some sc -> t_cols tb !! c = None ->
  let d' := mk_doc (<[t := <[c := ci]> sc]> (d_schema d))
                   (<[t := Table (t_rows tb) (<[c := new_col ci]> (t_cols tb))]> (d_tables d)) in
  wf d' /\ apply_doc ord d' (RemoveColumn t c) = Some d.
Proof.
  intros Hw Ht Hs Hc d'. assert (Hwt : wf_table sc tb) by (eapply wf_lookup; eauto).
  assert (Hw' : wf d') by (apply wf_tset; [exact Hw|apply wf_table_insert; [exact Hwt|reflexivity|apply wf_col_new]]).
  split; [exact Hw'|]. rewrite apply_doc_unfold. simpl normalize.
  edestruct (exec_remove_column_ok ord d' t c) with (u := @nil action) (p := @nil delta) as (st' & Hex & Hdoc);
    [exact Hw'|unfold d'; simpl; apply lookup_insert|unfold d'; simpl; apply lookup_insert|simpl; apply lookup_insert|].
  rewrite Hex. simpl. f_equal. rewrite Hdoc. unfold d', mk_doc. simpl. rewrite !insert_insert.
  rewrite (delete_insert _ _ _ (wf_table_col_none _ _ _ Hwt Hc)), (delete_insert _ _ _ Hc).
  rewrite (insert_id _ _ _ Hs). rewrite table_eta, (insert_id _ _ _ Ht). apply doc_eta.
Qed.

(* a column whose rows all read the default is an empty column *)
Lemma col_all_default tb col :
  wf_col (t_rows tb) col -> nondefault_rows tb col = [] -> col = new_col (c_info col).
Proof.
  intros Hwc Hnd. apply (col_ext (t_rows tb) (t_rows tb)); [exact Hwc|apply wf_col_new|reflexivity|].
  intros r. change (cget (new_col (c_info col)) r) with (cdefault col).
  destruct (decide (r ∈ t_rows tb)) as [Hin|Hnin]; [|apply (cget_default_notin _ _ _ Hwc Hnin)].
  destruct (decide (cget col r = cdefault col)) as [|Hne]; [assumption|]. exfalso.
  assert (r ∈ nondefault_rows tb col) by (apply elem_of_list_filter; split; [exact Hne|apply rows_list_in; exact Hin]).
  rewrite Hnd in H. inversion H.
Qed.

Local Opaque col_writes.

Lemma undo_remove_column_data ord d t c tb sc col :
  wf d -> d_tables d !! t = Some tb -> d_schema d !! t = Some sc -> t_cols tb !! c = Some col ->
  let d' := mk_doc (<[t := delete c sc]> (d_schema d))
                   (<[t := Table (t_rows tb) (delete c (t_cols tb))]> (d_tables d)) in
  let nd := nondefault_rows tb col in
  wf d' /\
  (nd = [] -> apply_doc ord d' (AddColumn t c (c_info col)) = Some d) /\
  (nd ≠ [] -> exists d'', apply_doc ord d' (AddColumn t c (c_info col)) = Some d'' /\
                          apply_doc ord d'' (BulkUpdateRecord t nd [(c, map (cget col) nd)]) = Some d).
Proof.
  intros Hw Ht Hs Hc d' nd. assert (Hwt : wf_table sc tb) by (eapply wf_lookup; eauto).
  destruct (wf_table_col _ _ _ _ Hwt Hc) as [Hsc Hwc].
  assert (Hw' : wf d') by (apply wf_tset; [exact Hw|apply wf_table_delete; exact Hwt]).
  set (d'' := mk_doc (<[t := <[c := c_info col]> sc]> (d_schema d))
                     (<[t := Table (t_rows tb) (<[c := new_col (c_info col)]> (t_cols tb))]> (d_tables d))).
  assert (Hadd : apply_doc ord d' (AddColumn t c (c_info col)) = Some d'').
  { rewrite apply_doc_unfold. simpl normalize.
    rewrite (exec_add_column_ok ord d' t c (c_info col) (Table (t_rows tb) (delete c (t_cols tb))) (delete c sc) [] [] Hw');
      [|unfold d'; simpl; apply lookup_insert|unfold d'; simpl; apply lookup_insert|simpl; apply lookup_delete].
    simpl. f_equal. unfold d', d'', mk_doc. simpl. rewrite !insert_insert, !insert_delete_insert. reflexivity. }
  split; [exact Hw'|]. split.
  - intros Hnd. rewrite Hadd. f_equal. unfold d''. rewrite <- (col_all_default tb col Hwc Hnd).
    rewrite (insert_id _ _ _ Hsc), (insert_id _ _ _ Hs), (insert_id _ _ _ Hc), table_eta, (insert_id _ _ _ Ht). apply doc_eta.
  - intros Hnd. exists d''. split; [exact Hadd|].
    assert (Hs'' : d_schema d'' = d_schema d) by (unfold d''; simpl; rewrite (insert_id _ _ _ Hsc), (insert_id _ _ _ Hs); reflexivity).
    set (tb'' := Table (t_rows tb) (<[c := new_col (c_info col)]> (t_cols tb))).
    assert (Hin_nd : forall r, r ∈ nd -> r ∈ t_rows tb) by (intros r Hr; apply elem_of_list_filter in Hr as [_ Hr]; apply rows_list_in; exact Hr).
    rewrite apply_doc_unfold. simpl normalize.
    rewrite (exec_update_ok ord d'' t tb''); [|unfold d''; simpl; apply lookup_insert|apply Forall_forall; exact Hin_nd|].
    2: { constructor; [|constructor]. unfold known. simpl. rewrite lookup_insert. eexists. reflexivity. }
    simpl. f_equal. unfold tset. rewrite Hs''. unfold d''. simpl. rewrite insert_insert.
    change (upd_col c (fun col0 => cset_list col0 (zip nd (map (cget col) nd))) tb'')
      with (write_cols nd [(c, map (cget col) nd)] tb'').
    rewrite <- (doc_eta d) at 3. f_equal. etransitivity; [|apply (insert_id _ _ _ Ht)]. f_equal.
    apply (table_restore sc tb _ (t_rows tb) Hwt).
    + rewrite write_cols_rows. reflexivity.
    + rewrite write_cols_dom. unfold tb''. simpl. rewrite dom_insert_L. apply set_eq. intros x. rewrite elem_of_union, elem_of_singleton.
      split; [intros [->|?]; [apply elem_of_dom; eauto|assumption]|auto].
    + intros c0 col0 col2 Hc0 H2. rewrite write_cols_lookup in H2. unfold tb'' in H2. simpl in H2.
      destruct (decide (c0 = c)) as [->|Hne].
      * rewrite lookup_insert in H2. simpl in H2. injection H2 as <-. assert (col0 = col) by congruence. subst col0.
        split; [rewrite col_writes_info; reflexivity|]. split; [apply col_writes_wf; [apply wf_col_new|exact Hin_nd]|].
        intros r. destruct (decide (r ∈ nd)) as [Hin|Hnin].
        -- apply (col_writes_restores c nd (cget col)); [left| |exact Hin]. intros cv Hcv _. apply elem_of_list_singleton in Hcv. subst cv. reflexivity.
        -- rewrite col_writes_other by exact Hnin. change (cget (new_col (c_info col)) r) with (cdefault col).
           destruct (decide (r ∈ t_rows tb)) as [Hr|Hr]; [|symmetry; apply (cget_default_notin _ _ _ Hwc Hr)].
           destruct (decide (cget col r = cdefault col)) as [E|E]; [congruence|]. exfalso. apply Hnin.
           apply elem_of_list_filter. split; [exact E|apply rows_list_in; exact Hr].
      * rewrite lookup_insert_ne in H2 by auto. rewrite Hc0 in H2. simpl in H2. injection H2 as <-.
        rewrite col_writes_notin by (intros Hx; apply elem_of_list_singleton in Hx; simpl in Hx; congruence).
        split; [reflexivity|]. split; [exact (proj2 (wf_table_col _ _ _ _ Hwt Hc0))|reflexivity].
Qed.

Lemma undo_rename_column ord d t c c' tb sc col :
  wf d -> d_tables d !! t = Some tb -> d_schema d !! t = Some sc ->
  t_cols tb !! c = Some col -> t_cols tb !! c' = None ->
  let d' := mk_doc (<[t := <[c' := c_info col]> (delete c sc)]> (d_schema d))
                   (<[t := Table (t_rows tb) (<[c' := col]> (delete c (t_cols tb)))]> (d_tables d)) in
  wf d' /\ apply_doc ord d' (RenameColumn t c' c) = Some d.
Proof.
  intros Hw Ht Hs Hc Hc' d'. assert (Hwt : wf_table sc tb) by (eapply wf_lookup; eauto).
  destruct (wf_table_col _ _ _ _ Hwt Hc) as [Hsc Hwc].
  assert (Hw' : wf d').
  { apply wf_tset; [exact Hw|].
    pose proof (wf_table_insert (delete c sc) (Table (t_rows tb) (delete c (t_cols tb))) c' (c_info col) col
                  (wf_table_delete _ _ c Hwt) eq_refl Hwc) as H. simpl in H. exact H. }
  split; [exact Hw'|]. rewrite apply_doc_unfold. simpl normalize.
  assert (Hne : c ≠ c') by congruence.
  rewrite (exec_rename_column_ok ord d' t c' c (Table (t_rows tb) (<[c' := col]> (delete c (t_cols tb))))
             (<[c' := c_info col]> (delete c sc)) col [] [] Hw');
    [|unfold d'; simpl; apply lookup_insert|unfold d'; simpl; apply lookup_insert|simpl; apply lookup_insert
     |simpl; rewrite lookup_insert_ne by auto; apply lookup_delete].
  simpl. f_equal. unfold d', mk_doc. simpl. rewrite !insert_insert.
  rewrite (delete_insert (delete c sc) c' _) by (rewrite lookup_delete_ne by auto; exact (wf_table_col_none _ _ _ Hwt Hc')).
  rewrite (delete_insert (delete c (t_cols tb)) c' _) by (rewrite lookup_delete_ne by auto; exact Hc').
  rewrite (insert_delete _ _ _ Hsc), (insert_delete _ _ _ Hc), (insert_id _ _ _ Hs), table_eta, (insert_id _ _ _ Ht).
  apply doc_eta.
Qed.

Lemma modified_col_get tb col ci' r : r ∈ t_rows tb -> cget (modified_col tb col ci') r = cget col r.
Proof.
  intros Hr. unfold modified_col. apply (cget_cset_list_in _ (cget col)).
  - rewrite <- list_fmap_compose. simpl. rewrite list_fmap_id. apply rows_list_in. exact Hr.
  - intros r' v H. apply elem_of_list_fmap in H as (r0 & [= -> ->] & _). reflexivity.
Qed.

Lemma modified_col_other tb col ci' r : r ∉ t_rows tb -> cget (modified_col tb col ci') r = ci_default ci'.
Proof.
  intros Hr. unfold modified_col. rewrite cget_cset_list_notin; [reflexivity|].
  rewrite <- list_fmap_compose. simpl. rewrite list_fmap_id. intros H. apply Hr. apply rows_list_in. exact H.
Qed.

Lemma modified_col_wf tb col ci' : wf_col (t_rows tb) (modified_col tb col ci').
Proof.
  unfold modified_col. apply wf_col_cset_list; [apply wf_col_new|]. intros r H.
  rewrite <- list_fmap_compose in H. simpl in H. rewrite list_fmap_id in H. apply rows_list_in. exact H.
Qed.

Lemma modified_col_info tb col ci' : c_info (modified_col tb col ci') = ci'.
Proof. unfold modified_col. rewrite cset_list_info. reflexivity. Qed.

Lemma undo_modify_column ord d t c m tb sc col :
  wf d -> d_tables d !! t = Some tb -> d_schema d !! t = Some sc -> t_cols tb !! c = Some col ->
  let ci' := upd_info (c_info col) m in
  ci' ≠ c_info col ->
  let d' := mk_doc (<[t := <[c := ci']> sc]> (d_schema d))
                   (<[t := Table (t_rows tb) (<[c := modified_col tb col ci']> (t_cols tb))]> (d_tables d)) in
  wf d' /\ apply_doc ord d' (ModifyColumn t c (undo_mod (c_info col) m)) = Some d.
Proof.
  intros Hw Ht Hs Hc ci' Hne d'. assert (Hwt : wf_table sc tb) by (eapply wf_lookup; eauto).
  destruct (wf_table_col _ _ _ _ Hwt Hc) as [Hsc Hwc].
  assert (Hw' : wf d').
  { apply wf_tset; [exact Hw|]. apply wf_table_insert; [exact Hwt|apply modified_col_info|apply modified_col_wf]. }
  split; [exact Hw'|]. rewrite apply_doc_unfold. simpl normalize.
  set (tb' := Table (t_rows tb) (<[c := modified_col tb col ci']> (t_cols tb))).
  rewrite (exec_modify_column_ok ord d' t c _ tb' (<[c := ci']> sc) (modified_col tb col ci') [] [] Hw');
    [|unfold d'; simpl; apply lookup_insert|unfold d'; simpl; apply lookup_insert|simpl; apply lookup_insert].
  rewrite modified_col_info. unfold ci' in *. rewrite !upd_info_undo. rewrite decide_False by (intros E; apply Hne; symmetry; exact E).
  simpl. f_equal. unfold d', mk_doc. simpl. rewrite !insert_insert.
  rewrite (insert_id _ _ _ Hsc), (insert_id _ _ _ Hs).
  assert (Hcol : modified_col tb' (modified_col tb col (upd_info (c_info col) m)) (c_info col) = col).
  { apply (col_ext (t_rows tb) (t_rows tb)); [apply (modified_col_wf tb')|exact Hwc|apply modified_col_info|].
    intros r. destruct (decide (r ∈ t_rows tb)) as [Hr|Hr].
    - rewrite (modified_col_get tb') by exact Hr. apply modified_col_get. exact Hr.
    - rewrite (modified_col_other tb') by exact Hr. symmetry. apply (cget_default_notin _ _ _ Hwc Hr). }
  rewrite Hcol, (insert_id _ _ _ Hc), table_eta, (insert_id _ _ _ Ht). apply doc_eta.
Qed.

Lemma wf_table_new (sc : gmap name colinfo) : wf_table sc (Table ∅ (new_col <$> sc)).
Proof.
  split; simpl; [rewrite dom_fmap_L; reflexivity|]. apply map_Forall_lookup. intros c col H.
  rewrite lookup_fmap in H. destruct (sc !! c) as [ci|] eqn:E; [|discriminate]. simpl in H. injection H as <-.
  split; [reflexivity|apply wf_col_new].
Qed.

Lemma undo_add_table ord d t cols :
  wf d -> d_tables d !! t = None ->
  let d' := mk_doc (<[t := list_to_map cols]> (d_schema d))
                   (<[t := Table ∅ (new_col <$> list_to_map cols)]> (d_tables d)) in
  wf d' /\ apply_doc ord d' (RemoveTable t) = Some d.
Proof.
  intros Hw Ht d'. assert (Hw' : wf d') by (apply wf_tset; [exact Hw|apply wf_table_new]).
  split; [exact Hw'|]. rewrite apply_doc_unfold. simpl normalize.
  rewrite (exec_remove_table_ok ord d' t (Table ∅ (new_col <$> list_to_map cols)) (list_to_map cols) [] [] Hw');
    [|unfold d'; simpl; apply lookup_insert|unfold d'; simpl; apply lookup_insert].
  simpl. f_equal. unfold d', mk_doc. simpl. rewrite (delete_insert _ _ _ (wf_none _ _ Hw Ht)), (delete_insert _ _ _ Ht).
  apply doc_eta.
Qed.

Lemma rows_list_set tb : (list_to_set (rows_list tb) : gset rowid) = t_rows tb.
Proof. apply set_eq. intros r. rewrite elem_of_list_to_set. apply rows_list_in. Qed.

Lemma undo_remove_table ord d t tb sc :
  wf d -> d_tables d !! t = Some tb -> d_schema d !! t = Some sc ->
  let d' := mk_doc (delete t (d_schema d)) (delete t (d_tables d)) in
  wf d' /\ replay ord d' (rev (remove_table_undo ord t tb sc)) = Some d.
Proof.
  intros Hw Ht Hs d'. assert (Hwt : wf_table sc tb) by (eapply wf_lookup; eauto).
  assert (Hw' : wf d') by (apply wf_delete_table; exact Hw). split; [exact Hw'|].
  set (d'' := mk_doc (<[t := sc]> (d_schema d')) (<[t := Table ∅ (new_col <$> sc)]> (d_tables d'))).
  assert (Hadd : apply_doc ord d' (AddTable t (map_to_list sc)) = Some d'').
  { rewrite apply_doc_unfold. simpl normalize. rewrite (exec_add_table_ok ord d' t _ [] [] Hw') by (unfold d'; simpl; apply lookup_delete).
    simpl. rewrite list_to_map_to_list. reflexivity. }
  assert (Hs'' : d_schema d'' = d_schema d) by (unfold d'', d'; simpl; apply insert_delete; exact Hs).
  assert (Hempty : rows_list tb = [] -> d'' = d).
  { intros Hr. unfold d'', d', mk_doc. simpl. rewrite (insert_delete _ _ _ Hs). rewrite <- (doc_eta d) at 3. f_equal.
    rewrite <- (insert_delete _ _ _ Ht) at 2. f_equal.
    assert (Hrows : t_rows tb = ∅) by (rewrite <- rows_list_set, Hr; reflexivity).
    apply (table_restore sc tb _ ∅ Hwt); simpl; [congruence|rewrite dom_fmap_L; exact (proj1 Hwt)|].
    intros c col col2 Hc H2. rewrite lookup_fmap in H2. destruct (wf_table_col _ _ _ _ Hwt Hc) as [Hsc Hwc].
    rewrite Hsc in H2. simpl in H2. injection H2 as <-. split; [reflexivity|]. split; [apply wf_col_new|].
    intros r. symmetry. apply (cget_default_notin _ _ _ Hwc). rewrite Hrows. apply not_elem_of_empty. }
  unfold remove_table_undo. destruct (rows_list tb) as [|r0 rows0] eqn:Er.
  - simpl. rewrite Hadd. f_equal. apply Hempty. reflexivity.
  - rewrite <- Er. clear Hempty. simpl rev. simpl replay. rewrite Hadd.
    set (tb'' := Table ∅ (new_col <$> sc)).
    assert (Hw'' : wf d'') by (apply wf_tset; [exact Hw'|apply wf_table_new]).
    rewrite apply_doc_unfold. simpl normalize.
    rewrite (exec_add_ok ord d'' t tb''); [|unfold d''; simpl; apply lookup_insert|apply Forall_forall; intros r _; apply not_elem_of_empty|].
    2: { apply Forall_forall. intros cv Hcv. apply col_values_in in Hcv as (colx & _ & Hx & _). unfold known, tb''. simpl.
         rewrite lookup_fmap. destruct (wf_table_col _ _ _ _ Hwt Hx) as [-> _]. eexists. reflexivity. }
    simpl. f_equal. unfold tset. rewrite Hs''. unfold d'', d', mk_doc. simpl. rewrite insert_insert.
    rewrite <- (doc_eta d) at 3. f_equal. rewrite <- (insert_delete _ _ _ Ht) at 2. f_equal.
    apply (table_restore sc tb _ (t_rows tb) Hwt).
    + rewrite write_cols_rows. simpl. rewrite rows_list_set. set_solver.
    + rewrite write_cols_dom. simpl. rewrite dom_fmap_L. exact (proj1 Hwt).
    + intros c col col2 Hc H2. rewrite write_cols_lookup in H2. simpl in H2. rewrite lookup_fmap in H2.
      destruct (wf_table_col _ _ _ _ Hwt Hc) as [Hsc Hwc]. rewrite Hsc in H2. simpl in H2. injection H2 as <-.
      split; [rewrite col_writes_info; reflexivity|].
      split; [apply col_writes_wf; [apply wf_col_new|intros r Hr; apply rows_list_in; exact Hr]|].
      intros r. destruct (decide (r ∈ rows_list tb)) as [Hin|Hnin].
      * apply (col_writes_restores c (rows_list tb) (cget col)); [| |exact Hin].
        -- eapply col_values_fst; [eapply cols_in_order_complete; exact Hc|exact Hc].
        -- intros cv Hcv Hcv1. apply col_values_in in Hcv as (colx & _ & Hx & ->). rewrite Hcv1, Hc in Hx. injection Hx as <-. reflexivity.
      * rewrite col_writes_other by exact Hnin. symmetry. apply (cget_default_notin _ _ _ Hwc). intros Hx. apply Hnin. apply rows_list_in. exact Hx.
Qed.

Lemma undo_rename_table ord d t t' tb sc :
  wf d -> d_tables d !! t = Some tb -> d_schema d !! t = Some sc -> d_tables d !! t' = None ->
  let d' := mk_doc (<[t' := sc]> (delete t (d_schema d))) (<[t' := tb]> (delete t (d_tables d))) in
  wf d' /\ apply_doc ord d' (RenameTable t' t) = Some d.
Proof.
  intros Hw Ht Hs Ht' d'. assert (Hwt : wf_table sc tb) by (eapply wf_lookup; eauto).
  assert (Hne : t ≠ t') by congruence.
  assert (Hw' : wf d').
  { pose proof (wf_tset (mk_doc (delete t (d_schema d)) (delete t (d_tables d))) t' sc tb (wf_delete_table d t Hw) Hwt) as H.
    simpl in H. exact H. }
  split; [exact Hw'|]. rewrite apply_doc_unfold. simpl normalize.
  rewrite (exec_rename_table_ok ord d' t' t tb sc [] [] Hw');
    [|unfold d'; simpl; apply lookup_insert|unfold d'; simpl; apply lookup_insert
     |unfold d'; simpl; rewrite lookup_insert_ne by auto; apply lookup_delete].
  simpl. f_equal. unfold d', mk_doc. simpl.
  rewrite (delete_insert (delete t (d_schema d)) t' _) by (rewrite lookup_delete_ne by auto; apply (wf_none _ _ Hw Ht')).
  rewrite (delete_insert (delete t (d_tables d)) t' _) by (rewrite lookup_delete_ne by auto; exact Ht').
  rewrite (insert_delete _ _ _ Hs), (insert_delete _ _ _ Ht). apply doc_eta.
Qed.
