(* Bridging lemma for the de-duplication block of UserActions.doBulkUpdateRecord (gen_dedup, regenerated from
   useractions.py): it keeps, in order, exactly the LAST occurrence of every row id -- the model's keep_last / select. *)
From Coq Require Import ZArith List Bool Arith Lia Sorted.
Import ListNotations.
Require Import Grist.Model.RefIndex Grist.Model.K4Support Grist.Model.TwoWay GristGen.K4_gen
               Grist.Proofs.RefIndex_proofs.

(* ---- the dict {row_id: i for i, row_id in enumerate(row_ids)} ------------------------------------------------- *)
Lemma nm_put_keys : forall k v m k', In k' (map fst (nm_put k v m)) <-> k' = k \/ In k' (map fst m).
Proof.
  intros k v m k'. induction m as [|[k0 v0] m IH]; cbn [nm_put map fst In].
  - intuition.
  - destruct (Nat.eqb k k0) eqn:E; cbn [map fst In].
    + apply Nat.eqb_eq in E. subst. intuition.
    + rewrite IH. intuition.
Qed.

Lemma nm_put_nodup : forall k v m, NoDup (map fst m) -> NoDup (map fst (nm_put k v m)).
Proof.
  intros k v m. induction m as [|[k0 v0] m IH]; intros H; cbn [nm_put map fst].
  - constructor; [intros []|constructor].
  - cbn [map fst] in H. inversion H as [|? ? Hn Hd]; subst. destruct (Nat.eqb k k0) eqn:E; cbn [map fst].
    + constructor; assumption.
    + constructor; [|apply IH; assumption]. intros Hin. apply nm_put_keys in Hin.
      destruct Hin as [->|Hin]; [rewrite Nat.eqb_refl in E; discriminate|contradiction].
Qed.

Lemma nm_put_in : forall k v m, NoDup (map fst m) ->
  forall k' v', In (k', v') (nm_put k v m) <-> (k' = k /\ v' = v) \/ (k' <> k /\ In (k', v') m).
Proof.
  intros k v m. induction m as [|[k0 v0] m IH]; intros H k' v'; cbn [nm_put In].
  - split.
    + intros [E|[]]. inversion E; subst. left. split; reflexivity.
    + intros [[-> ->]|[_ []]]. left. reflexivity.
  - cbn [map fst] in H. inversion H as [|? ? Hn Hd]; subst. destruct (Nat.eqb k k0) eqn:E; cbn [In].
    + apply Nat.eqb_eq in E. subst k0. split.
      * intros [E|Hin]; [inversion E; subst; left; split; reflexivity|].
        right. split; [|right; assumption]. intros ->. apply Hn. apply in_map_iff. exists (k, v'). split; [reflexivity|assumption].
      * intros [[-> ->]|[Hne [E|Hin]]]; [left; reflexivity|inversion E; subst; congruence|right; assumption].
    + apply Nat.eqb_neq in E. rewrite (IH Hd). split.
      * intros [E1|[[-> ->]|[Hne Hin]]].
        -- inversion E1; subst. right. split; [congruence|left; reflexivity].
        -- left. split; reflexivity.
        -- right. split; [assumption|right; assumption].
      * intros [[-> ->]|[Hne [E1|Hin]]].
        -- right. left. split; reflexivity.
        -- left. assumption.
        -- right. right. split; assumption.
Qed.

Lemma combine_app : forall A B (a a' : list A) (b b' : list B), length a = length b ->
  combine (a ++ a') (b ++ b') = combine a b ++ combine a' b'.
Proof.
  intros A B a. induction a as [|x a IH]; intros a' b b' H; destruct b as [|y b]; cbn in H; try discriminate; [reflexivity|].
  cbn. rewrite IH by lia. reflexivity.
Qed.

Lemma enumerate_snoc : forall A (l : list A) x, enumerate (l ++ [x]) = enumerate l ++ [(length l, x)].
Proof.
  intros A l x. unfold enumerate. rewrite app_length. cbn [length]. rewrite Nat.add_1_r, seq_S. cbn [plus].
  rewrite combine_app by (rewrite seq_length; reflexivity). reflexivity.
Qed.

(* the dict holds, for every row id, the index of its last occurrence *)
Definition last_inv (rows : list nat) (m : list (nat * nat)) : Prop :=
  NoDup (map fst m) /\
  forall k v, In (k, v) m <-> (v < length rows /\ nth v rows 0 = k /\ ~ In k (skipn (S v) rows)).

Lemma last_fold : forall rows,
  last_inv rows (fold_left (fun d ix => let i := fst ix in let row_id := snd ix in nm_put row_id i d) (enumerate rows) []).
Proof.
  intros rows. induction rows as [|x rows IH] using rev_ind.
  - split; [constructor|]. intros k v. cbn. split; [intros []|intros [H _]; lia].
  - rewrite enumerate_snoc, fold_left_app. cbn [fold_left fst snd]. cbv zeta.
    set (m := fold_left _ (enumerate rows) []) in *. destruct IH as [Hnd Hm].
    set (n := length rows).
    assert (Hlen : length (rows ++ [x]) = S n) by (unfold n; rewrite app_length; cbn [length]; lia).
    split; [apply nm_put_nodup; assumption|].
    intros k v. rewrite (nm_put_in x n m Hnd), Hm, app_length. cbn [length]. fold n.
    destruct (Nat.lt_trichotomy v n) as [Hlt|[->|Hgt]].
    + rewrite app_nth1 by (fold n; lia). rewrite skipn_app.
      replace (S v - length rows) with 0 by (fold n; lia). cbn [skipn]. rewrite in_app_iff. cbn [In].
      split.
      * intros [[-> ->]|[Hne [_ [E Hn]]]]; [lia|]. split; [lia|]. split; [assumption|]. intros [H|[H|[]]]; [contradiction|congruence].
      * intros [_ [E Hn]]. right. split; [intros ->; apply Hn; right; left; reflexivity|].
        split; [assumption|]. split; [assumption|]. intros H. apply Hn. left. assumption.
    + rewrite app_nth2 by (fold n; lia). fold n. rewrite Nat.sub_diag. cbn [nth].
      rewrite skipn_all2 by (pose proof Hlen; unfold n in *; rewrite ?app_length; cbn [length]; lia). split.
      * intros [[-> _]|[_ [H _]]]; [|lia]. split; [lia|]. split; [reflexivity|].
        intros Hin. rewrite skipn_all2 in Hin by (rewrite Hlen; lia). destruct Hin.
      * intros [_ [E _]]. left. split; [symmetry; assumption|reflexivity].
    + split; [intros [[_ ->]|[_ [H _]]]; lia|intros [H _]; lia].
Qed.

(* ---- the indices keep_last keeps -------------------------------------------------------------------------------- *)
Fixpoint kidx (off : nat) (rows : list nat) : list nat :=
  match rows with
  | [] => []
  | r :: t => if memN r t then kidx (S off) t else off :: kidx (S off) t
  end.

Lemma kidx_in : forall rows off i,
  In i (kidx off rows) <->
  off <= i < off + length rows /\ ~ In (nth (i - off) rows 0) (skipn (S (i - off)) rows).
Proof.
  induction rows as [|r t IH]; intros off i; cbn [kidx length].
  - cbn. split; [intros []|intros [H _]; lia].
  - assert (Hrest : In i (kidx (S off) t) <->
                    S off <= i < off + S (length t) /\ ~ In (nth (i - off) (r :: t) 0) (skipn (S (i - off)) (r :: t))).
    { rewrite IH. split.
      - intros [H1 H2]. split; [lia|]. replace (i - off) with (S (i - S off)) by lia. exact H2.
      - intros [H1 H2]. split; [lia|]. replace (i - off) with (S (i - S off)) in H2 by lia. exact H2. }
    destruct (memN r t) eqn:E.
    + rewrite Hrest. split; [intros [H1 H2]; split; [lia|assumption]|].
      intros [H1 H2]. split; [|assumption]. destruct (Nat.eq_dec i off) as [->|Hne]; [|lia].
      exfalso. rewrite Nat.sub_diag in H2. cbn in H2. apply H2. apply memN_In. assumption.
    + cbn [In]. rewrite Hrest. split.
      * intros [<-|[H1 H2]]; [|split; [lia|assumption]]. split; [lia|]. rewrite Nat.sub_diag. cbn.
        intros H. apply memN_In in H. congruence.
      * intros [H1 H2]. destruct (Nat.eq_dec i off) as [->|Hne]; [left; reflexivity|right]. split; [lia|assumption].
Qed.

Lemma kidx_sorted : forall rows off, sorted (kidx off rows).
Proof.
  induction rows as [|r t IH]; intros off; cbn [kidx]; [constructor|].
  destruct (memN r t); [apply IH|]. constructor; [apply IH|].
  apply Forall_forall. intros i Hi. apply kidx_in in Hi. lia.
Qed.

Lemma kidx_select : forall A (d : A) rows (pre l : list A), length l = length rows ->
  map (fun i => nth i (pre ++ l) d) (kidx (length pre) rows) = select (keep_last rows) l.
Proof.
  intros A d rows. induction rows as [|r t IH]; intros pre l H; destruct l as [|y l]; cbn in H; try discriminate;
    [reflexivity|].
  cbn [kidx keep_last select].
  assert (Hstep : map (fun i => nth i (pre ++ y :: l) d) (kidx (S (length pre)) t) = select (keep_last t) l).
  { specialize (IH (pre ++ [y]) l ltac:(lia)). rewrite app_length in IH. cbn [length] in IH.
    rewrite Nat.add_1_r, <- app_assoc in IH. exact IH. }
  destruct (memN r t); cbn [negb].
  - exact Hstep.
  - cbn [map]. rewrite Hstep. f_equal. rewrite app_nth2 by lia. rewrite Nat.sub_diag. reflexivity.
Qed.

(* ---- sorted() ---------------------------------------------------------------------------------------------------- *)
Lemma ins_nat_in : forall x l y, In y (ins_nat x l) <-> y = x \/ In y l.
Proof.
  intros x l y. induction l as [|z l IH]; cbn [ins_nat In]; [intuition|].
  destruct (Nat.leb x z); cbn [In]; [intuition|]. rewrite IH. intuition.
Qed.

Lemma sort_nat_in : forall l y, In y (sort_nat l) <-> In y l.
Proof.
  induction l as [|x l IH]; intros y; cbn [sort_nat fold_right In]; [tauto|].
  fold (sort_nat l). rewrite ins_nat_in, IH. intuition.
Qed.

Lemma ins_nat_sorted : forall x l, ~ In x l -> sorted l -> sorted (ins_nat x l).
Proof.
  intros x l. induction l as [|z l IH]; intros Hn Hs; cbn [ins_nat]; [repeat constructor|].
  destruct (sorted_inv _ _ Hs) as [Hl Hz]. destruct (Nat.leb x z) eqn:E.
  - apply Nat.leb_le in E. assert (x < z) by (assert (x <> z) by (intros ->; apply Hn; left; reflexivity); lia).
    constructor; [assumption|]. constructor; [assumption|]. eapply Forall_impl; [|exact Hz]. cbn. lia.
  - apply Nat.leb_gt in E. constructor; [apply IH; [intros H; apply Hn; right; assumption|assumption]|].
    apply Forall_forall. intros y Hy. apply ins_nat_in in Hy. destruct Hy as [->|Hy]; [assumption|].
    rewrite Forall_forall in Hz. apply Hz. assumption.
Qed.

Lemma sort_nat_sorted : forall l, NoDup l -> sorted (sort_nat l).
Proof.
  induction l as [|x l IH]; intros H; cbn [sort_nat fold_right]; [constructor|]. fold (sort_nat l).
  inversion H as [|? ? Hn Hd]; subst. apply ins_nat_sorted; [rewrite sort_nat_in; assumption|apply IH; assumption].
Qed.

Lemma nodup_snd : forall (m : list (nat * nat)), NoDup (map fst m) ->
  (forall k k' v, In (k, v) m -> In (k', v) m -> k = k') -> NoDup (map snd m).
Proof.
  induction m as [|[k0 v0] m IH]; intros Hn Hf; cbn [map snd]; [constructor|].
  cbn [map fst] in Hn. inversion Hn as [|? ? Hnot Hd]; subst. constructor.
  - intros Hin. apply in_map_iff in Hin. destruct Hin as [[k' v'] [E Hin]]. cbn in E. subst v'.
    assert (k' = k0) by (apply (Hf k' k0 v0); [right; assumption|left; reflexivity]). subst k'.
    apply Hnot. apply in_map_iff. exists (k0, v0). split; [reflexivity|assumption].
  - apply IH; [assumption|]. intros k k' v H1 H2. apply (Hf k k' v); right; assumption.
Qed.

Lemma nodup_length_le : forall l, length (nodup Nat.eq_dec l) <= length l.
Proof. induction l as [|x l IH]; cbn; [lia|]. destruct (in_dec Nat.eq_dec x l); cbn; lia. Qed.

Lemma distinct_count_nodup : forall l, distinct_count l = length l -> NoDup l.
Proof.
  unfold distinct_count. induction l as [|x l IH]; intros H; [constructor|]. cbn in H.
  destruct (in_dec Nat.eq_dec x l) as [Hin|Hn].
  - pose proof (nodup_length_le l). lia.
  - cbn in H. constructor; [assumption|]. apply IH. lia.
Qed.

Lemma keep_last_all : forall rows, NoDup rows -> forall A (l : list A), length l = length rows ->
  select (keep_last rows) l = l.
Proof.
  induction rows as [|r t IH]; intros Hn A l H; destruct l as [|y l]; cbn in H; try discriminate; [reflexivity|].
  inversion Hn as [|? ? Hnot Hd]; subst. cbn [keep_last select].
  destruct (memN r t) eqn:E; [apply memN_In in E; contradiction|]. cbn [negb]. f_equal. apply IH; [assumption|lia].
Qed.

(* the generated de-duplication IS keep-the-last-occurrence, for the row ids and for every column's values *)
Theorem gen_dedup_eq : forall rows (vals : list cell), length vals = length rows ->
  gen_dedup rows vals = (select (keep_last rows) rows, select (keep_last rows) vals).
Proof.
  intros rows vals Hlen. unfold gen_dedup.
  destruct (negb (Nat.eqb (distinct_count rows) (length rows))) eqn:Ec.
  - cbv zeta. destruct (last_fold rows) as [Hnd Hm].
    set (m := fold_left _ (enumerate rows) []) in *.
    assert (Hkeep : sort_nat (map snd m) = kidx 0 rows).
    { apply sorted_ext.
      - apply sort_nat_sorted. apply nodup_snd; [assumption|]. intros k k' v H1 H2.
        apply Hm in H1. apply Hm in H2. destruct H1 as [_ [<- _]]. destruct H2 as [_ [<- _]]. reflexivity.
      - apply kidx_sorted.
      - intros i. rewrite sort_nat_in, kidx_in, Nat.sub_0_r. cbn [plus]. rewrite in_map_iff. split.
        + intros [[k v] [E Hin]]. cbn in E. subst v. apply Hm in Hin. destruct Hin as [H1 [<- H3]].
          split; [lia|assumption].
        + intros [H1 H2]. exists (nth i rows 0, i). split; [reflexivity|]. apply Hm. split; [lia|]. split; [reflexivity|assumption]. }
    rewrite Hkeep.
    pose proof (kidx_select nat 0 rows [] rows eq_refl) as K1. pose proof (kidx_select cell CNone rows [] vals Hlen) as K2.
    cbn [app length] in K1, K2. rewrite K1, K2. reflexivity.
  - apply negb_false_iff in Ec. apply Nat.eqb_eq in Ec. apply distinct_count_nodup in Ec.
    rewrite (keep_last_all rows Ec nat rows eq_refl), (keep_last_all rows Ec cell vals Hlen). reflexivity.
Qed.
