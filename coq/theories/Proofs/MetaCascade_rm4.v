(* K6 proofs, part 6: the column cascade (doRemoveColumns) and the table cascade (_removeTableRecords). *)
From Coq Require Import ZArith List Bool Lia.
Import ListNotations.
Require Import Grist.Model.MetaCascade Grist.Proofs.MetaCascade_base Grist.Proofs.MetaCascade_inv
  Grist.Proofs.MetaCascade_rm Grist.Proofs.MetaCascade_rm2 Grist.Proofs.MetaCascade_rm3.
Open Scope Z_scope.

Lemma remove_columns_core_inv : forall X cols m m',
  InvX X m -> remove_columns_core cols m = Ok m' -> InvX X m'.
Proof.
  intros X cols m m' HI H. unfold remove_columns_core in H.
  set (fs := map f_id (filter (fun f => mem (f_col f) cols) (m_fields m))) in *.
  set (extra := filter (fun x => negb (mem x cols) && mem x (cids m)) (more_removals cols m)) in *.
  destruct (existsb (fun f => negb (mem (f_id f) fs) && mem (f_col f) extra) (m_fields m)) eqn:E; [discriminate|].
  destruct (sister_hazard (cols ++ extra) m); [discriminate|]. inversion H; subst m'. clear H.
  apply rm_columns_inv; [apply rm_fields_inv; exact HI|].
  intros f Hf Hin. simpl in Hf. apply filter_In in Hf. destruct Hf as [Hf Hn].
  apply in_app_iff in Hin. destruct Hin as [Hin|Hin].
  - apply negb_mem_true in Hn. apply Hn. unfold fs. apply (in_map_filter f_id); [exact Hf | apply mem_In; exact Hin].
  - assert (Et : existsb (fun f0 => negb (mem (f_id f0) fs) && mem (f_col f0) extra) (m_fields m) = true).
    { apply existsb_exists. exists f. split; [exact Hf|]. apply andb_true_iff. split; [exact Hn | apply mem_In; exact Hin]. }
    congruence.
Qed.

Lemma remove_columns_inv : forall X cols m m', InvX X m -> remove_columns cols m = Ok m' -> InvX X m'.
Proof.
  intros X cols m m' HI H. unfold remove_columns in H.
  destruct (negb (all_in cols (cids m))); [discriminate|].
  destruct (negb (nodupb cols)); [discriminate|].
  destruct (existsb _ (m_columns m)); [discriminate|].
  destruct (has_groupby_users cols m); [discriminate|].
  apply (remove_columns_core_inv X cols m m' HI H).
Qed.

(* ---------------------------------------------------------------------------------------------- *)
(* table records *)

Lemma tids_rm_tables_In : forall ids m x, In x (tids m) -> ~ In x ids -> In x (tids (rm_tables ids m)).
Proof.
  intros ids m x Hx Hn. unfold tids in *. simpl. rewrite map_map. simpl.
  apply in_map_iff in Hx. destruct Hx as [t [E Ht]]. subst x.
  apply in_map_iff. exists t. split; [reflexivity|]. apply filter_In. split; [exact Ht | apply negb_mem_true; exact Hn].
Qed.

Lemma rm_tables_inv : forall X ids m,
  InvX X m -> incl X ids ->
  (forall c, In c (m_columns m) -> ~ In (c_parent c) ids) ->
  (forall s, In s (m_sections m) -> ~ In (s_table s) ids) ->
  Inv (rm_tables ids m).
Proof.
  intros X ids m [I1 I2 I3 I4 I5 I6 I7 I8] HX HC HS.
  assert (Hsec : forall sid t, ~ In t ids -> SecOfTable m sid t -> SecOfTable (rm_tables ids m) sid t).
  { intros sid t Hn [s [Hs [H1 H2]]].
    exists (mkS (s_id s) (clr ids (s_table s)) (s_view s) (s_rules s) (s_custom s)). split.
    - simpl. apply in_map_iff. exists s. split; [reflexivity | exact Hs].
    - simpl. split; [exact H1|]. destruct (clr_cases ids (s_table s)) as [[Hin _]|[_ Hz]]; [congruence | congruence]. }
  constructor.
  - destruct I1 as [A [B [C [D [E [F G]]]]]]. unfold IdsOk.
    assert (Et : tids (rm_tables ids m) = map t_id (filter (fun t => negb (mem (t_id t) ids)) (m_tables m))).
    { unfold tids. simpl. rewrite map_map. reflexivity. }
    assert (Ec : cids (rm_tables ids m) = cids m) by (unfold cids; simpl; apply map_map_id; reflexivity).
    assert (Es : sids (rm_tables ids m) = sids m) by (unfold sids; simpl; apply map_map_id; reflexivity).
    rewrite Et, Ec, Es. repeat split; try (apply B || apply C || apply D || apply E || apply F || apply G).
    + apply (IdList_filter_map t_id). exact A.
    + apply (IdList_filter_map t_id). exact A.
  - intros c' Hc'. simpl in Hc'. apply in_map_iff in Hc'. destruct Hc' as [c [Ec Hc]]. subst c'.
    specialize (HC c Hc). specialize (I2 c Hc). destruct I2 as [J1 [J2 [J3 [J4 J5]]]].
    assert (Ecid : cids (rm_tables ids m) = cids m) by (unfold cids; simpl; apply map_map_id; reflexivity).
    unfold ColOk. rewrite Ecid. simpl.
    destruct (clr_cases ids (c_parent c)) as [[Hin _]|[_ Hz]]; [contradiction|]. rewrite Hz.
    split; [apply tids_rm_tables_In; assumption | tauto].
  - intros f Hf. simpl in Hf. specialize (I3 f Hf). destruct I3 as [[sr [cr [Hs [H1 [Hc [H2 H3]]]]]] J].
    assert (Ecid : cids (rm_tables ids m) = cids m) by (unfold cids; simpl; apply map_map_id; reflexivity).
    unfold FieldOk. rewrite Ecid. split; [|exact J].
    exists (mkS (s_id sr) (clr ids (s_table sr)) (s_view sr) (s_rules sr) (s_custom sr)).
    exists (mkC (c_id cr) (clr ids (c_parent cr)) (c_kind cr) (c_display cr) (c_visible cr) (c_src cr) (c_rules cr)
                (clr ids (c_reft cr))).
    split; [simpl; apply in_map_iff; exists sr; split; [reflexivity | exact Hs]|].
    split; [exact H1|].
    split; [simpl; apply in_map_iff; exists cr; split; [reflexivity | exact Hc]|].
    split; [exact H2|]. simpl. rewrite H3. reflexivity.
  - intros s' Hs'. simpl in Hs'. apply in_map_iff in Hs'. destruct Hs' as [s [Es Hs]]. subst s'.
    specialize (HS s Hs). specialize (I4 s Hs). destruct I4 as [J1 [J2 J3]].
    assert (Ecid : cids (rm_tables ids m) = cids m) by (unfold cids; simpl; apply map_map_id; reflexivity).
    unfold SecOk. rewrite Ecid. simpl.
    destruct (clr_cases ids (s_table s)) as [[Hin _]|[_ Hz]]; [contradiction|]. rewrite Hz.
    split; [apply tids_rm_tables_In; assumption | tauto].
  - intros t' Ht' _. simpl in Ht'. apply in_map_iff in Ht'. destruct Ht' as [t [Et Ht]]. subst t'.
    apply filter_In in Ht. destruct Ht as [Ht Hn]. apply negb_mem_true in Hn.
    assert (HnX : ~ In (t_id t) X) by (intro Hx; apply Hn; apply HX; exact Hx).
    specialize (I5 t Ht HnX). destruct I5 as [J1 [J2 [J3 J4]]]. unfold TableOk. simpl.
    split; [apply Hsec; assumption|].
    split; [destruct J2 as [J2|J2]; [left; exact J2 | right; apply Hsec; assumption]|].
    split; [exact J3|].
    destruct (clr_cases ids (t_src t)) as [[_ Hz]|[Hn2 Hz]]; rewrite Hz; [left; reflexivity|].
    destruct J4 as [J4|J4]; [left; exact J4 | right; apply tids_rm_tables_In; assumption].
  - intros b Hb. simpl in *. apply I6. exact Hb.
  - intros b Hb. simpl in *. apply I7. exact Hb.
  - destruct I8 as [N1 [N2 [N3 N4]]]. unfold NamesOk. simpl. rewrite map_map. simpl.
    change (map (fun x => t_name x) (filter (fun t => negb (mem (t_id t) ids)) (m_tables m)))
      with (map t_name (filter (fun t => negb (mem (t_id t) ids)) (m_tables m))).
    assert (Hkeep : forall t, In t (m_tables m) -> ~ In (t_id t) ids ->
                    ~ In (t_name t) (map t_name (filter (fun t0 => mem (t_id t0) ids) (m_tables m)))).
    { intros t Ht Hn Hin. apply in_map_iff in Hin. destruct Hin as [t2 [E Ht2]]. apply filter_In in Ht2.
      destruct Ht2 as [Ht2 Hm]. apply mem_In in Hm.
      assert (t2 = t) by (apply (NoDup_map_inj t_name (m_tables m)); assumption). subst t2. contradiction. }
    split; [apply NoDup_filter_map; exact N1|].
    split; [apply NoDup_filter; exact N2|].
    split.
    + intros n Hn. apply in_map_iff in Hn. destruct Hn as [t [E Ht]]. subst n. apply filter_In in Ht.
      destruct Ht as [Ht Hn]. apply negb_mem_true in Hn. apply filter_In. split.
      * apply N3. apply in_map. exact Ht.
      * apply negb_mem_true. apply Hkeep; assumption.
    + intros n Hn. apply filter_In in Hn. destruct Hn as [Hn Hx]. apply negb_mem_true in Hx.
      specialize (N4 n Hn). apply in_map_iff in N4. destruct N4 as [t [E Ht]]. subst n.
      apply in_map. apply filter_In. split; [exact Ht|]. apply negb_mem_true. intro Hin. apply Hx.
      apply in_map. apply filter_In. split; [exact Ht | apply mem_In; exact Hin].
Qed.
