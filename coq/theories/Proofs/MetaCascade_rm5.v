(* K6 proofs, part 7: _removeTableRecords keeps the invariant. *)
From Coq Require Import ZArith List Bool Lia.
Import ListNotations.
Require Import Grist.Model.MetaCascade Grist.Proofs.MetaCascade_base Grist.Proofs.MetaCascade_inv
  Grist.Proofs.MetaCascade_rm Grist.Proofs.MetaCascade_rm2 Grist.Proofs.MetaCascade_rm3
  Grist.Proofs.MetaCascade_rm4 Grist.Proofs.MetaCascade_conv.
Open Scope Z_scope.

Lemma remove_tables_inv : forall trefs m m', Inv m -> remove_tables trefs m = Ok m' -> Inv m'.
Proof.
  intros trefs m0 m' HI0 H. unfold remove_tables in H.
  destruct (negb (all_in trefs (tids m0))); [discriminate|].
  set (tabs := trefs ++ map t_id (filter (fun t => mem (t_src t) trefs) (m_tables m0))) in *.
  destruct (negb (nodupb tabs)); [discriminate|].
  set (m := convert_refs tabs m0) in *.
  assert (HI : Inv m) by (apply convert_refs_inv; exact HI0).
  set (secs := map s_id (filter (fun s => mem (s_table s) tabs) (m_sections m))) in *.
  set (m1 := remove_sections_raw secs m) in *.
  (* after the sections are gone *)
  assert (HI1 : InvX tabs m1).
  { apply remove_sections_raw_inv.
    - apply (InvX_weaken [] tabs); [intros x [] | exact HI].
    - intros t Ht Hn Hin. unfold secs in Hin. apply in_map_iff in Hin. destruct Hin as [s' [E Hs']].
      apply filter_In in Hs'. destruct Hs' as [Hs' Hm]. apply mem_In in Hm.
      assert (Hnil : ~ In (t_id t) []) by (intros []).
      destruct (inv_tab [] m HI t Ht Hnil) as [[s [Hs [H1 H2]]] _].
      assert (s' = s).
      { apply (NoDup_map_inj s_id (m_sections m)); try assumption; [|congruence].
        destruct (inv_ids [] m HI) as [_ [_ [_ [[D _] _]]]]. exact D. }
      subst s'. apply Hn. rewrite <- H2. exact Hm. }
  assert (P1 : forall s, In s (m_sections m1) -> ~ In (s_table s) tabs).
  { intros s Hs Hin. unfold m1, remove_sections_raw in Hs. simpl in Hs. apply filter_In in Hs.
    destruct Hs as [Hs Hn]. apply negb_mem_true in Hn. apply Hn. unfold secs.
    apply (in_map_filter s_id); [exact Hs | apply mem_In; exact Hin]. }
  set (vs := filter (fun v => negb (existsb (fun s => s_view s =? v) (m_sections m1))) (m_views m1)) in *.
  assert (Hm2 : exists m2, (if isnil vs then Ok m1 else remove_views vs m1) = Ok m2 /\
            (let cols := map c_id (filter (fun c => mem (c_parent c) tabs) (m_columns m2)) in
             if sister_hazard cols m2 then Unmodelled else Ok (rm_tables tabs (rm_columns cols m2))) = Ok m').
  { destruct (if isnil vs then Ok m1 else remove_views vs m1) as [m2| |]; simpl in H; try discriminate.
    exists m2. split; [reflexivity | exact H]. }
  clear H. destruct Hm2 as [m2 [Hm2 H]].
  assert (HI2 : InvX tabs m2 /\ SecSub m1 m2).
  { destruct (isnil vs).
    - inversion Hm2; subst m2. split; [exact HI1 | apply SecSub_refl].
    - destruct (remove_views_inv tabs vs m1 m2 HI1 Hm2) as [J1 [J2 J3]]. split; assumption. }
  destruct HI2 as [HI2 S2].
  assert (P2 : forall s, In s (m_sections m2) -> ~ In (s_table s) tabs).
  { intros s Hs. destruct (S2 s Hs) as [s1 [Hs1 [E1 E2]]]. rewrite E2. apply P1. exact Hs1. }
  cbv zeta in H.
  set (cols := map c_id (filter (fun c => mem (c_parent c) tabs) (m_columns m2))) in *.
  destruct (sister_hazard cols m2); [discriminate|]. inversion H; subst m'. clear H.
  apply (rm_tables_inv tabs).
  - apply rm_columns_inv; [exact HI2|].
    intros f Hf Hin. destruct (inv_fld tabs m2 HI2 f Hf) as [[sr [cr [Hs [H1 [Hc [H2 H3]]]]]] _].
    unfold cols in Hin. apply in_map_iff in Hin. destruct Hin as [c' [E Hc']]. apply filter_In in Hc'.
    destruct Hc' as [Hc' Hm]. apply mem_In in Hm.
    assert (c' = cr).
    { apply (NoDup_map_inj c_id (m_columns m2)); try assumption; [|congruence].
      destruct (inv_ids tabs m2 HI2) as [_ [[B _] _]]. exact B. }
    subst c'. apply (P2 sr Hs). rewrite <- H3. exact Hm.
  - apply incl_refl.
  - intros c' Hc' Hin. simpl in Hc'. apply in_map_iff in Hc'. destruct Hc' as [c [E Hc]]. subst c'. simpl in Hin.
    apply filter_In in Hc. destruct Hc as [Hc Hn]. apply negb_mem_true in Hn. apply Hn. unfold cols.
    apply (in_map_filter c_id); [exact Hc | apply mem_In; exact Hin].
  - intros s' Hs' Hin. simpl in Hs'. apply in_map_iff in Hs'. destruct Hs' as [s [E Hs]]. subst s'. simpl in Hin.
    apply (P2 s Hs Hin).
Qed.
