(* C20, partial renumbering path: the keys get_range spreads over a block (0, 2^T) with T >= 52 (the ranges of
   range_around_float at levels >= 53, and every range around 0.0) are strictly increasing and strictly inside. *)
From Coq Require Import ZArith List Bool Lia Sorted.
Import ListNotations.
Require Import Grist.Lib.Fl64 Grist.Proofs.Fl64_proofs Grist.Proofs.Fl64_mono_proofs Grist.Proofs.Fl64_err_proofs
               Grist.Model.Relabel Grist.Proofs.Relabel_ungroup_proofs.
Open Scope Z_scope.

Section Wide.
Variables (T c : Z).
Let W := 2 ^ T.
Let K := c + 1.
Let E := 2 ^ (T - 52).
Hypothesis HT : 52 <= T.
Hypothesis Hc : 1 <= c.
Hypothesis HK : K <= 2 ^ 24.
Hypothesis Hover : W < UOVER.

Lemma E_pos : 1 <= E. Proof. unfold E. pose proof (pow2_pos' (T - 52)). lia. Qed.
Lemma W_E : W = E * 2 ^ 52.
Proof. unfold W, E. rewrite <- Z.pow_add_r by lia. f_equal. lia. Qed.
Lemma ulp_W : ulp_exp W = T - 52.
Proof. unfold ulp_exp, W. rewrite Z.log2_pow2 by lia. lia. Qed.
Lemma ulp_le x : 0 <= x <= W -> 2 ^ ulp_exp x <= E.
Proof. intros Hx. unfold E. rewrite <- ulp_W. apply Z.pow_le_mono_r; [lia|]. apply ulp_exp_mono. lia. Qed.

Let kS := ulp_exp (W / K).
Let S := rne W (K * 2 ^ kS) * 2 ^ kS.

Lemma S_err : - (K * E) <= 2 * (S * K - W) <= K * E.
Proof.
  assert (HK2 : 2 <= K) by (unfold K; lia). pose proof E_pos as HE.
  assert (HW : 0 < W) by (unfold W; apply pow2_pos'; lia).
  assert (Hks : 2 ^ kS <= E) by (apply ulp_le; split; [apply Z.div_pos; lia | apply Z.div_le_upper_bound; nia]).
  assert (Hp : 0 < 2 ^ kS) by (apply pow2_pos', ulp_exp_nonneg).
  pose proof (rne_err W (K * 2 ^ kS) ltac:(nia)) as Herr.
  replace (S * K) with (rne W (K * 2 ^ kS) * (K * 2 ^ kS)) by (unfold S; ring). nia.
Qed.

(* K <= 2^24 and W = E * 2^52: S is about W/K >= 2^28 E *)
Lemma S_bounds : 2 ^ 27 * E <= S /\ 2 * (S * c) + 4 * E <= 2 * W - 4 * E.
Proof.
  pose proof S_err as HS. pose proof E_pos as HE. pose proof W_E as HW. assert (HK2 : 2 <= K) by (unfold K; lia).
  assert (HKc : c = K - 1) by (unfold K; lia).
  assert (H24 : 2 ^ 24 * 2 ^ 28 = 2 ^ 52) by reflexivity. assert (H27 : 2 * 2 ^ 27 = 2 ^ 28) by reflexivity.
  assert (H16 : 16 <= 2 ^ 28) by (apply Z.leb_le; reflexivity).
  assert (H2428 : 2 ^ 24 <= 2 ^ 28) by (apply Z.leb_le; reflexivity).
  set (P24 := 2 ^ 24) in *. set (P28 := 2 ^ 28) in *. set (P27 := 2 ^ 27) in *. set (P52 := 2 ^ 52) in *.
  assert (0 < P24) by (unfold P24; apply pow2_pos'; lia). assert (0 < P27) by (unfold P27; apply pow2_pos'; lia).
  clearbody P24 P28 P27 P52. rewrite HW in *. rewrite HKc. clear HW HKc Hover. split.
  - (* 2 S K >= 2W - K E = 2 E P52 - K E  and  P52 = P24 P28 >= K P28 *)
    assert (B0 : K * P28 <= P52) by nia.
    assert (B1 : 4 * (E * K * P27) <= 2 * (E * P52)) by nia.
    assert (B2 : K * E * (4 * P27 - 1) <= 2 * (S * K)) by nia.
    destruct (Z.le_gt_cases (P27 * E) S) as [Hle|Hgt]; [exact Hle|]. exfalso.
    assert (B3 : 2 * (S * K) < 2 * (P27 * E) * K) by nia. nia.
  - assert (A1 : 2 * (S * (K - 1)) * K <= (2 * (E * P52) + K * E) * (K - 1)) by nia.
    assert (A2 : (2 * (E * P52) + K * E) * (K - 1) + 8 * E * K <= 2 * (E * P52) * K).
    { assert (C1 : K + 7 <= 2 * P28) by lia.
      assert (C2 : K * (K + 7) <= P24 * (2 * P28)) by nia.
      assert (C3 : K * (K - 1) + 8 * K <= 2 * P52) by nia.
      assert (C4 : E * (K * (K - 1) + 8 * K) <= E * (2 * P52)) by (apply Z.mul_le_mono_nonneg_l; lia).
      nia. }
    nia.
Qed.

Definition pk (k : Z) : Z := R (S * k).
Definition yk (k : Z) : Z := R (pk k).

Lemma S_pos : 1 <= S. Proof. pose proof S_bounds as [H _]. pose proof E_pos. assert (0 < 2 ^ 27) by (apply pow2_pos'; lia). nia. Qed.

Lemma Sk_le k : 0 <= k <= c -> 0 <= S * k /\ S * k + 4 * E <= W.
Proof. intros Hk. pose proof S_bounds as [_ H]. pose proof S_pos. pose proof E_pos. split; nia. Qed.

Lemma pk_err k : 0 <= k <= c -> - E <= 2 * (pk k - S * k) <= E.
Proof.
  intros Hk. destruct (Sk_le k Hk) as [H0 H1]. pose proof E_pos. unfold pk.
  pose proof (R_err (S * k)). pose proof (ulp_le (S * k) ltac:(lia)). lia.
Qed.

Lemma yk_err k : 0 <= k <= c -> - (2 * E) <= 2 * (yk k - S * k) <= 2 * E.
Proof.
  intros Hk. destruct (Sk_le k Hk) as [H0 H1]. pose proof E_pos as HE. pose proof (pk_err k Hk) as Hp. unfold yk.
  assert (Hpk0 : 0 <= pk k) by (unfold pk; apply round_mag_nonneg; lia).
  pose proof (R_err (pk k)) as Hr. pose proof (ulp_le (pk k) ltac:(lia)) as Hu. lia.
Qed.

Lemma yk_first : 1 <= yk 1.
Proof.
  pose proof (yk_err 1 ltac:(lia)) as Hy. pose proof S_bounds as [HS _]. pose proof E_pos as HE.
  assert (H4 : 4 <= 2 ^ 27) by (apply Z.leb_le; reflexivity). nia.
Qed.

Lemma yk_step k : 0 <= k -> k + 1 <= c -> yk k < yk (k + 1).
Proof.
  intros H0 H1. pose proof (yk_err k ltac:(lia)) as Ha. pose proof (yk_err (k + 1) ltac:(lia)) as Hb.
  pose proof S_bounds as [HS _]. pose proof E_pos as HE. assert (H4 : 4 <= 2 ^ 27) by (apply Z.leb_le; reflexivity). nia.
Qed.

Lemma yk_mono a b : 0 <= a -> a < b -> b <= c -> yk a < yk b.
Proof.
  intros Ha Hab Hb.
  assert (Hgen : forall d, 0 <= d -> a + d + 1 <= c -> yk a < yk (a + d + 1)).
  { intros d Hd. pattern d. apply natlike_ind; [| |exact Hd].
    - intros Hc0. replace (a + 0 + 1) with (a + 1) by lia. apply yk_step; lia.
    - intros x Hx IHx Hc1. specialize (IHx ltac:(lia)).
      pose proof (yk_step (a + x + 1) ltac:(lia) ltac:(lia)). replace (a + Z.succ x + 1) with (a + x + 1 + 1) by lia. lia. }
  replace b with (a + (b - a - 1) + 1) by lia. apply Hgen; lia.
Qed.

Lemma yk_range k : 1 <= k <= c -> 1 <= yk k /\ yk k + E <= W.
Proof.
  intros Hk. split.
  - pose proof yk_first. destruct (Z.eq_dec k 1) as [->|Hne]; [lia|]. pose proof (yk_mono 1 k ltac:(lia) ltac:(lia) ltac:(lia)). lia.
  - pose proof (yk_err k ltac:(lia)). destruct (Sk_le k ltac:(lia)). pose proof E_pos. lia.
Qed.

Lemma mod_pow_le x a b : 0 <= b <= a -> x mod 2 ^ a = 0 -> x mod 2 ^ b = 0.
Proof.
  intros Hab H. apply Z.mod_divide in H; [|pose proof (pow2_pos' a); lia]. destruct H as [q Hq].
  rewrite Hq. replace (2 ^ a) with (2 ^ (a - b) * 2 ^ b) by (rewrite <- Z.pow_add_r by lia; f_equal; lia).
  rewrite Z.mul_assoc. apply Z.mod_mul. pose proof (pow2_pos' b). lia.
Qed.

Lemma limit_ge : exists l, prevfloat (FFin false W) = FFin false l /\ W - E <= l.
Proof.
  pose proof E_pos as HE. pose proof W_E as HW. assert (HP : 2 <= 2 ^ 52) by (apply Z.leb_le; reflexivity).
  unfold prevfloat. replace (W =? 0) with false by (symmetry; apply Z.eqb_neq; nia).
  eexists. split; [reflexivity|]. apply upred_max; [nia | nia |].
  apply (mod_pow_le _ (T - 52)).
  - split; [apply ulp_exp_nonneg|]. rewrite <- ulp_W. apply ulp_exp_mono. lia.
  - fold E. rewrite HW. replace (E * 2 ^ 52 - E) with ((2 ^ 52 - 1) * E) by ring. apply Z.mod_mul. lia.
Qed.

Lemma fin_small u : 0 <= u <= W -> fin_or_inf false u = FFin false u.
Proof. intros H. unfold fin_or_inf. replace (UOVER <=? u) with false; [reflexivity|]. symmetry. apply Z.leb_gt. lia. Qed.

Lemma W_rep : W mod 2 ^ ulp_exp W = 0.
Proof.
  rewrite ulp_W. unfold W. replace (2 ^ T) with (2 ^ 52 * 2 ^ (T - 52)) by (rewrite <- Z.pow_add_r by lia; f_equal; lia).
  apply Z.mod_mul. pose proof (pow2_pos' (T - 52)). lia.
Qed.

Lemma key_is_yk k : 1 <= k <= c ->
  fmin (fadd (FFin false 0) (fmul (FFin false S) (of_Z k))) (prevfloat (FFin false W)) = FFin false (yk k).
Proof.
  intros Hk. pose proof (yk_range k Hk) as [Hy0 Hy1]. pose proof E_pos as HE. pose proof S_pos as HS.
  destruct (Sk_le k ltac:(lia)) as [Hs0 Hs1]. pose proof (pk_err k ltac:(lia)) as Hp.
  assert (Hpk0 : 0 <= pk k) by (unfold pk; apply round_mag_nonneg; lia).
  assert (HKs : c + 1 < 2 ^ 53) by (fold K; assert (2 ^ 24 < 2 ^ 53) by (apply Z.pow_lt_mono_r; lia); lia).
  rewrite of_Z_int by lia. rewrite fmul_int_spec by lia. fold (pk k). rewrite fin_small by lia.
  rewrite fadd_pos_spec by lia. cbn [Z.add]. fold (yk k). rewrite fin_small by lia.
  destruct limit_ge as (l & -> & Hl). unfold fmin, flt. cbn [is_nan negb andb ford].
  replace (l <? yk k) with false; [reflexivity|]. symmetry. apply Z.ltb_ge. lia.
Qed.

Lemma step_is_S : fdiv (fsub (FFin false W) (FFin false 0)) (of_Z (c + 1)) = FFin false S.
Proof.
  pose proof E_pos as HE. pose proof W_E as HW. assert (HP : 2 <= 2 ^ 52) by (apply Z.leb_le; reflexivity).
  assert (HW0 : 0 < W) by nia.
  assert (Hsub : fsub (FFin false W) (FFin false 0) = FFin false W).
  { unfold fsub, fneg, fadd, sval. cbn [negb andb]. replace (W + - 0) with W by ring.
    replace (W =? 0) with false by (symmetry; apply Z.eqb_neq; lia).
    replace (W <? 0) with false by (symmetry; apply Z.ltb_ge; lia). rewrite Z.abs_eq by lia.
    replace W with (W * 2 ^ 0) at 1 by (rewrite Z.pow_0_r; lia). apply round_p2_exact; [lia | lia | apply W_rep]. }
  rewrite Hsub. fold K.
  assert (HKs : K < 2 ^ 53) by (assert (2 ^ 24 < 2 ^ 53) by (apply Z.pow_lt_mono_r; lia); lia).
  rewrite of_Z_int by (unfold K in *; lia).
  rewrite fdiv_int_spec; [| lia | apply W_rep | unfold K in *; lia].
  fold kS. fold S. apply fin_small. pose proof S_pos. destruct (Sk_le c ltac:(lia)). split; [lia | nia].
Qed.

Theorem wide_spread_posfin : Forall posfin (get_range (FFin false 0) (FFin false W) c).
Proof.
  assert (Hkeys : get_range (FFin false 0) (FFin false W) c = map (fun k => FFin false (yk k)) (zrange 1 (c + 1))).
  { unfold get_range. rewrite step_is_S. apply map_ext_in. intros k Hk. apply zrange_In in Hk. apply key_is_yk. lia. }
  rewrite Hkeys. rewrite Forall_forall. intros x Hx. apply in_map_iff in Hx. destruct Hx as (k & <- & _). eexists; reflexivity.
Qed.

Theorem wide_spread_strict :
  StronglySorted Flt (FFin false 0 :: get_range (FFin false 0) (FFin false W) c ++ [FFin false W]).
Proof.
  assert (Hkeys : get_range (FFin false 0) (FFin false W) c = map (fun k => FFin false (yk k)) (zrange 1 (c + 1))).
  { unfold get_range. rewrite step_is_S. apply map_ext_in. intros k Hk. apply zrange_In in Hk. apply key_is_yk. lia. }
  rewrite Hkeys. pose proof E_pos as HE.
  assert (Hlt : forall a b, 0 <= a < b -> Flt (FFin false a) (FFin false b)).
  { intros a b Hab. unfold Flt. apply flt_iff. cbn [is_nan ford]. repeat split; auto. lia. }
  assert (Hgen : forall l, StronglySorted Z.lt l -> (forall k, In k l -> 1 <= k <= c) ->
            StronglySorted Flt (map (fun k => FFin false (yk k)) l ++ [FFin false W])).
  { induction 1 as [|k t Hs IH Hk]; intros Hin; cbn [map app].
    - repeat constructor.
    - constructor; [apply IH; intros; apply Hin; right; assumption|].
      pose proof (Hin k (or_introl eq_refl)) as Hkr. pose proof (yk_range k Hkr) as Hv.
      rewrite Forall_forall in *. intros y Hy. apply in_app_or in Hy. destruct Hy as [Hy|[<-|[]]].
      + apply in_map_iff in Hy. destruct Hy as (k' & <- & Hk'). specialize (Hk k' Hk').
        pose proof (Hin k' (or_intror Hk')). apply Hlt. pose proof (yk_mono k k' ltac:(lia) Hk ltac:(lia)). lia.
      + apply Hlt. lia. }
  constructor.
  - apply Hgen; [apply zrange_sorted|]. intros k Hk. apply zrange_In in Hk. lia.
  - rewrite Forall_forall. intros y Hy. apply in_app_or in Hy. destruct Hy as [Hy|[<-|[]]].
    + apply in_map_iff in Hy. destruct Hy as (k & <- & Hk). apply zrange_In in Hk.
      pose proof (yk_range k ltac:(lia)). apply Hlt. lia.
    + apply Hlt. pose proof W_E. assert (2 <= 2 ^ 52) by (apply Z.leb_le; reflexivity). nia.
Qed.
End Wide.
