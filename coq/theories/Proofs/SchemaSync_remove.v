(* C08, part 4c: the coupled steps that remove columns and tables. *)
From Coq Require Import ZArith List Bool Lia Permutation.
Import ListNotations.
Require Import Grist.Model.SchemaSync Grist.Proofs.SchemaSync_build Grist.Proofs.SchemaSync_spec
               Grist.Proofs.SchemaSync_steps Grist.Proofs.SchemaSync_aux Grist.Proofs.SchemaSync_proofs.
Open Scope Z_scope.

Lemma mem_z_in : forall k l, mem_z k l = true <-> In k l.
Proof.
  intros k l. unfold mem_z. rewrite existsb_exists. split.
  - intros [x [H1 H2]]. apply Z.eqb_eq in H2. subst. exact H1.
  - intro H. exists k. split; [exact H | apply Z.eqb_refl].
Qed.

Lemma mem_z_false : forall k l, mem_z k l = false <-> ~ In k l.
Proof. intros k l. rewrite <- mem_z_in. destruct (mem_z k l); split; intro H; congruence. Qed.

Definition keep (ids : list Z) (cs : list crec) : list crec := filter (fun r => negb (mem_z (c_id r) ids)) cs.

Lemma keep_in : forall ids cs x, In x (keep ids cs) <-> In x cs /\ ~ In (c_id x) ids.
Proof. intros ids cs x. unfold keep. rewrite filter_In, negb_true_iff, mem_z_false. tauto. Qed.

Lemma filter_filter : forall {A} (p q : A -> bool) l, filter p (filter q l) = filter (fun x => q x && p x) l.
Proof.
  intros A p q l. induction l as [|x t IH]; [reflexivity|]. cbn. destruct (q x); cbn; [|exact IH].
  destruct (p x); [f_equal|]; exact IH.
Qed.

Lemma keep_cons : forall k ids cs, keep (k :: ids) cs = keep ids (drop k cs).
Proof.
  intros k ids cs. unfold keep, drop. rewrite filter_filter. apply filter_ext. intro x.
  unfold mem_z. cbn [existsb]. rewrite negb_orb. reflexivity.
Qed.

Lemma find_filter_same : forall {A} (q p : A -> bool) l, (forall x, In x l -> q x = true -> p x = true) ->
  find q (filter p l) = find q l.
Proof.
  intros A q p l H. induction l as [|x t IH]; [reflexivity|]. cbn.
  assert (IH' : find q (filter p t) = find q t) by (apply IH; intros y Hy; apply H; right; exact Hy).
  destruct (p x) eqn:Ep; cbn.
  - destruct (q x); [reflexivity | exact IH'].
  - destruct (q x) eqn:Eq; [|exact IH']. rewrite (H x (or_introl eq_refl) Eq) in Ep. discriminate.
Qed.

Lemma find_col_keep : forall ids cs k, ~ In k ids -> find_col k (keep ids cs) = find_col k cs.
Proof.
  intros ids cs k Hk. unfold find_col, keep. apply find_filter_same. intros x _ Hx. apply Z.eqb_eq in Hx. subst k.
  apply negb_true_iff. apply mem_z_false. exact Hk.
Qed.

Definition removal_of (ts : list trec) (cs : list crec) (k : Z) : list sev :=
  match find_col k cs with
  | Some r => match find_table (c_parent r) ts with
              | Some t => [SRemoveColumn (t_tableId t) (c_colId r)]
              | None => [SRemoveColumn [] (c_colId r)]
              end
  | None => []
  end.

Lemma remove_loop : forall base ts cs0 rho, wf_t ts -> wf_c cs0 -> no_stray ts cs0 ->
  forall ids cur sch sch',
    wf_c cur -> (forall x, In x cur -> In x cs0) -> Sync base sch ts cur rho ->
    forallb (fun k => match find_col k cs0 with Some _ => true | None => false end) ids = true ->
    run_s (flat_map (removal_of ts cs0) ids) sch = Ok sch' ->
    wf_c (keep ids cur) /\ Sync base sch' ts (keep ids cur) rho.
Proof.
  intros base ts cs0 rho Hwt Hwc0 Hns ids. induction ids as [|k rest IH]; intros cur sch sch' Hwc Hsub Hs Hall Hrun.
  - cbn in Hrun. inversion Hrun; subst sch'. unfold keep. cbn.
    assert (E : filter (fun _ : crec => true) cur = cur) by (clear; induction cur as [|x t IH]; cbn; [reflexivity | f_equal; exact IH]).
    rewrite E. tauto.
  - cbn [forallb] in Hall. apply andb_true_iff in Hall. destruct Hall as [Hk Hall].
    cbn [flat_map] in Hrun. unfold removal_of at 1 in Hrun.
    destruct (find_col k cs0) as [rk|] eqn:Ef; [|discriminate]. apply find_col_in in Ef. destruct Ef as [Hrk Hidk].
    destruct (Hns rk Hrk) as [t [Ht Htid]].
    rewrite (find_table_intro (c_parent rk) ts t (wt_ids _ Hwt) Ht Htid) in Hrun.
    cbn [app run_s] in Hrun.
    destruct (apply_s (SRemoveColumn (t_tableId t) (c_colId rk)) sch) as [sch1|] eqn:Ea; [|discriminate].
    cbn in Ea. destruct (od_get (t_tableId t) sch) as [cols|] eqn:Et; [|discriminate].
    destruct (od_get (c_colId rk) cols) as [i|] eqn:Ec; [|discriminate]. inversion Ea; subst sch1; clear Ea.
    (* rk is still there *)
    assert (Hcur : In rk cur).
    { destruct (sync_table_entry base sch ts cur rho t Hwt Hs Ht) as [cols0 [H0 H1]]. rewrite Et in H0. inversion H0; subst cols0.
      rewrite H1 in Ec. unfold spec_col in Ec. destruct (mcol cur (t_id t) (c_colId rk)) as [x|] eqn:Em; [|discriminate].
      apply mcol_some in Em. destruct Em as [Hx [Hpx Hcx]].
      assert (x = rk) by (apply (wc_keys _ Hwc0); try assumption; [apply Hsub; exact Hx | congruence]). subst x. exact Hx. }
    destruct (sync_remove_col base sch (od_set (t_tableId t) (od_del (c_colId rk) cols) sch) ts cur rho t rk cols
                (od_del (c_colId rk) cols) Hwt Hwc Hs Ht Hcur (eq_sym Htid) Et) as [Hwc1 Hs1].
    + intro c. apply od_get_del.
    + apply sch_upd_set.
    + rewrite keep_cons. rewrite <- Hidk. apply (IH (drop (c_id rk) cur) (od_set (t_tableId t) (od_del (c_colId rk) cols) sch) sch'); try assumption.
      intros x Hx. apply drop_in in Hx. apply Hsub. tauto.
Qed.

Lemma rho_after_keep : forall cs ids, wf_c cs ->
  (forall r, In r cs -> In (c_id r) ids \/ ~ In (c_rev r) ids) ->
  forall x, In x (keep ids cs) -> rho_of (keep ids cs) (c_id x) = rho_of cs (c_id x).
Proof.
  intros cs ids Hwc Hpre x Hx. apply keep_in in Hx. destruct Hx as [Hx Hnin].
  apply rho_of_agree; [apply find_col_keep; exact Hnin|].
  intros y Hy. apply find_col_in in Hy. destruct Hy as [Hy Hid].
  assert (y = x) by (apply (nodup_ids_unique cs); try assumption; apply Hwc). subst y.
  apply find_col_keep. destruct (Hpre x Hx) as [H|H]; [contradiction | exact H].
Qed.

Lemma no_dangling_keep : forall cs ids, no_dangling cs ->
  (forall r, In r cs -> In (c_id r) ids \/ ~ In (c_rev r) ids) -> no_dangling (keep ids cs).
Proof.
  intros cs ids Hnd Hpre x Hx. apply keep_in in Hx. destruct Hx as [Hx Hnin].
  destruct (Hnd x Hx) as [H0|[y [Hy Hid]]]; [left; exact H0|]. right. exists y. split; [|exact Hid].
  apply keep_in. split; [exact Hy|]. rewrite Hid. destruct (Hpre x Hx) as [H|H]; [contradiction | exact H].
Qed.

Lemma pre_ids : forall cs ids,
  forallb (fun r => mem_z (c_id r) ids || negb (mem_z (c_rev r) ids)) cs = true ->
  forall r, In r cs -> In (c_id r) ids \/ ~ In (c_rev r) ids.
Proof.
  intros cs ids H r Hr. apply (proj1 (forallb_forall _ _) H) in Hr. apply orb_true_iff in Hr.
  destruct Hr as [Hr|Hr]; [left; apply mem_z_in; exact Hr | right; apply mem_z_false; apply negb_true_iff; exact Hr].
Qed.

Lemma coupled_remove_columns : forall base ids s s' log,
  InvD base s -> cop_pre (CRemoveColumns ids) s = true -> coupled (CRemoveColumns ids) s = Ok (s', log) -> InvD base s'.
Proof.
  intros base ids s s' log [Hwt Hwc Hnd Hns Hall Hbd Hs] Hpre H.
  cbn [cop_pre] in Hpre. pose proof (pre_ids _ _ Hpre) as Hp.
  unfold coupled in H.
  destruct (forallb (fun k => match find_col k (m_cols (st_meta s)) with Some _ => true | None => false end) ids) eqn:Hex;
    [|discriminate]. cbn [negb] in H. cbn [apply_m] in H.
  fold (removal_of (m_tables (st_meta s)) (m_cols (st_meta s))) in H.
  destruct (run_s (flat_map (removal_of (m_tables (st_meta s)) (m_cols (st_meta s))) ids) (st_schema s)) as [sch'|] eqn:Er;
    [|discriminate].
  cbn [m_cols m_tables] in H. fold (keep ids (m_cols (st_meta s))) in H.
  destruct (forallb (table_has_cols (keep ids (m_cols (st_meta s)))) (m_tables (st_meta s))) eqn:Eh; [|discriminate].
  inversion H; subst s'; clear H.
  destruct (remove_loop base _ _ (rho_of (m_cols (st_meta s))) Hwt Hwc Hns ids (m_cols (st_meta s)) _ _ Hwc (fun x H => H) Hs Hex Er)
    as [Hwc' Hs'].
  constructor; cbn [st_meta st_schema m_tables m_cols]; try assumption.
  - apply no_dangling_keep; assumption.
  - intros c Hc. apply keep_in in Hc. apply Hns. tauto.
  - intros t Ht. apply (proj1 (forallb_forall _ _) Eh) in Ht. unfold table_has_cols in Ht. apply existsb_exists in Ht.
    destruct Ht as [c [Hc1 Hc2]]. exists c. split; [exact Hc1 | apply Z.eqb_eq; exact Hc2].
  - apply (sync_rho_ext _ _ _ _ _ _ Hs'). intros r Hr. apply rho_after_keep; assumption.
Qed.

(* ---------------------------------------------------------------- CRemoveTables *)
Definition keept (ids : list Z) (ts : list trec) : list trec := filter (fun t => negb (mem_z (t_id t) ids)) ts.

Lemma keept_in : forall ids ts x, In x (keept ids ts) <-> In x ts /\ ~ In (t_id x) ids.
Proof. intros ids ts x. unfold keept. rewrite filter_In, negb_true_iff, mem_z_false. tauto. Qed.

Lemma keept_cons : forall k ids ts, keept (k :: ids) ts = keept ids (dropt k ts).
Proof.
  intros k ids ts. unfold keept, dropt. rewrite filter_filter. apply filter_ext. intro x.
  unfold mem_z. cbn [existsb]. rewrite negb_orb. reflexivity.
Qed.

Definition tid_of (ts : list trec) (k : Z) : list str :=
  match find_table k ts with Some t => [t_tableId t] | None => [] end.

Lemma tremove_loop : forall base ts0 cs rho, wf_t ts0 -> base_disjoint base ts0 ->
  forall ids cur sch sch',
    wf_t cur -> (forall x, In x cur -> In x ts0) -> Sync base sch cur cs rho ->
    forallb (fun k => match find_table k ts0 with Some _ => true | None => false end) ids = true ->
    run_s (map SRemoveTable (flat_map (tid_of ts0) ids)) sch = Ok sch' ->
    wf_t (keept ids cur) /\ Sync base sch' (keept ids cur) cs rho.
Proof.
  intros base ts0 cs rho Hwt0 Hbd0 ids. induction ids as [|k rest IH]; intros cur sch sch' Hwt Hsub Hs Hall Hrun.
  - cbn in Hrun. inversion Hrun; subst sch'. unfold keept. cbn.
    assert (E : filter (fun _ : trec => true) cur = cur) by (clear; induction cur as [|x t IH]; cbn; [reflexivity | f_equal; exact IH]).
    rewrite E. tauto.
  - cbn [forallb] in Hall. apply andb_true_iff in Hall. destruct Hall as [Hk Hall].
    cbn [flat_map] in Hrun. unfold tid_of at 1 in Hrun.
    destruct (find_table k ts0) as [t|] eqn:Ef; [|discriminate]. apply find_table_some in Ef. destruct Ef as [Ht0 Hidk].
    cbn [app map run_s] in Hrun.
    destruct (apply_s (SRemoveTable (t_tableId t)) sch) as [sch1|] eqn:Ea; [|discriminate].
    cbn in Ea. destruct (od_get (t_tableId t) sch) as [cols|] eqn:Et; [|discriminate]. inversion Ea; subst sch1; clear Ea.
    assert (Hcur : In t cur).
    { pose proof (Hs (t_tableId t)) as H. rewrite Et in H. unfold target in H.
      destruct (mtable cur (t_tableId t)) as [t2|] eqn:Em.
      - apply mtable_some in Em. destruct Em as [H1 H2].
        assert (t2 = t) by (apply (nodup_map_unique t_tableId ts0); try assumption; [apply Hwt0 | apply Hsub; exact H1]).
        subst t2. exact H1.
      - rewrite (Hbd0 t Ht0) in H. contradiction. }
    assert (Hbd : base_disjoint base cur) by (intros x Hx; apply Hbd0; apply Hsub; exact Hx).
    destruct (sync_remove_table base sch (od_del (t_tableId t) sch) cur cs rho t Hwt Hs Hbd Hcur (sch_upd_del _ _))
      as [Hwt1 [Hs1 _]].
    rewrite keept_cons, <- Hidk. apply (IH (dropt (t_id t) cur) (od_del (t_tableId t) sch) sch'); try assumption.
    intros x Hx. apply dropt_in in Hx. apply Hsub. tauto.
Qed.

Lemma sync_filter_orphans : forall base sch ts cs rho p,
  Sync base sch ts cs rho ->
  (forall x, In x cs -> p x = false -> forall t, In t ts -> t_id t <> c_parent x) ->
  Sync base sch ts (filter p cs) rho.
Proof.
  intros base sch ts cs rho p Hs Horph tid. specialize (Hs tid). unfold target in *.
  destruct (mtable ts tid) as [t|] eqn:Em; [|exact Hs].
  destruct (od_get tid sch) as [cols|]; [|exact Hs]. intro c. rewrite (Hs c). unfold spec_col, mcol.
  apply mtable_some in Em. destruct Em as [Ht _].
  rewrite find_filter_same; [reflexivity|]. intros x Hx Hq. apply andb_true_iff in Hq. destruct Hq as [Hq _].
  apply Z.eqb_eq in Hq. destruct (p x) eqn:Ep; [reflexivity|]. exfalso. apply (Horph x Hx Ep t Ht). congruence.
Qed.

Lemma coupled_remove_tables : forall base ids s s' log,
  InvD base s -> cop_pre (CRemoveTables ids) s = true -> coupled (CRemoveTables ids) s = Ok (s', log) -> InvD base s'.
Proof.
  intros base ids s s' log [Hwt Hwc Hnd Hns Hall Hbd Hs] Hpre H.
  cbn [cop_pre] in Hpre. set (cs := m_cols (st_meta s)) in *. set (ts := m_tables (st_meta s)) in *.
  set (gone := map c_id (filter (fun c => mem_z (c_parent c) ids) cs)) in *.
  pose proof (pre_ids _ _ Hpre) as Hp.
  unfold coupled in H. fold cs ts in H.
  destruct (forallb (fun k => match find_table k ts with Some _ => true | None => false end) ids) eqn:Hex; [|discriminate].
  cbn [negb] in H. fold gone in H. cbn [apply_m m_cols m_tables] in H. fold (tid_of ts) in H.
  destruct (run_s (map SRemoveTable (flat_map (tid_of ts) ids)) (st_schema s)) as [sch'|] eqn:Er; [|discriminate].
  inversion H; subst s'; clear H. fold (keep gone cs). fold (keept ids ts).
  destruct (tremove_loop base ts cs (rho_of cs) Hwt Hbd ids ts _ _ Hwt (fun x H => H) Hs Hex Er) as [Hwt' Hs'].
  assert (Hgone : forall x, In x cs -> (In (c_id x) gone <-> In (c_parent x) ids)).
  { intros x Hx. unfold gone. rewrite in_map_iff. split.
    - intros [y [Hy1 Hy2]]. apply filter_In in Hy2. destruct Hy2 as [Hy2 Hy3].
      assert (y = x) by (apply (nodup_ids_unique cs); try assumption; apply Hwc). subst y. apply mem_z_in. exact Hy3.
    - intro Hin. exists x. split; [reflexivity|]. apply filter_In. split; [exact Hx | apply mem_z_in; exact Hin]. }
  assert (Hwc' : wf_c (keep gone cs)).
  { apply (wf_c_sub cs); [exact Hwc | apply nodup_map_filter; apply Hwc | intros x Hx; apply keep_in in Hx; tauto]. }
  constructor; cbn [st_meta st_schema m_tables m_cols]; try assumption.
  - apply no_dangling_keep; assumption.
  - intros c Hc. apply keep_in in Hc. destruct Hc as [Hc Hng]. destruct (Hns c Hc) as [t [Ht Hid]].
    exists t. split; [|exact Hid]. apply keept_in. split; [exact Ht|]. rewrite Hid. intro Hin. apply Hng. apply Hgone; assumption.
  - intros t Ht. apply keept_in in Ht. destruct Ht as [Ht Hnin]. destruct (Hall t Ht) as [c [Hc1 Hc2]].
    exists c. split; [|exact Hc2]. apply keep_in. split; [exact Hc1|]. intro Hin. apply Hnin. rewrite <- Hc2. apply Hgone; assumption.
  - intros t Ht. apply keept_in in Ht. apply Hbd. tauto.
  - apply (sync_rho_ext _ _ _ _ (rho_of cs)).
    + unfold keep. apply sync_filter_orphans; [exact Hs'|]. intros x Hx Hpx t Ht. apply keept_in in Ht. destruct Ht as [Ht Hnin].
      apply negb_false_iff in Hpx. apply mem_z_in in Hpx. intro Heq. apply Hnin. rewrite Heq. apply Hgone; assumption.
    + intros r Hr. apply rho_after_keep; assumption.
Qed.
