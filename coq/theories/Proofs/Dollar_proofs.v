(* Lemmas for C19: the `$name` -> `rec.name` translation (Model/Dollar.v). *)
From Coq Require Import ZArith List Bool Lia Permutation Sorted.
Import ListNotations.
Require Import Grist.Model.Codegen Grist.Model.Dollar.
Open Scope Z_scope.

Lemma len_app : forall a b : text, len (a ++ b) = len a + len b.
Proof. intros. unfold len. rewrite app_length. lia. Qed.

Lemma len_cons : forall c (a : text), len (c :: a) = 1 + len a.
Proof. intros. unfold len. cbn [length]. lia. Qed.

Lemma len_nonneg : forall a : text, 0 <= len a.
Proof. intros. unfold len. lia. Qed.

(* ---------------------------------------------------------------------------------------------
   sorted(patches) *)

Definition patch_lt (a b : patch) : Prop :=
  p_start a < p_start b \/ (p_start a = p_start b /\ p_end a < p_end b).
Definition patch_le (a b : patch) : Prop :=
  p_start a < p_start b \/ (p_start a = p_start b /\ p_end a <= p_end b).

Lemma patch_leb_le : forall a b, patch_leb a b = true <-> patch_le a b.
Proof.
  intros a b. unfold patch_leb, patch_le. rewrite orb_true_iff, andb_true_iff, Z.ltb_lt, Z.eqb_eq, Z.leb_le.
  tauto.
Qed.

Lemma patch_leb_false : forall a b, patch_leb a b = false -> patch_le b a.
Proof.
  intros a b H. unfold patch_leb in H. apply orb_false_iff in H. destruct H as [H1 H2].
  apply Z.ltb_ge in H1. apply andb_false_iff in H2. unfold patch_le.
  destruct H2 as [H2|H2]; [apply Z.eqb_neq in H2|apply Z.leb_gt in H2]; lia.
Qed.

Lemma patch_le_trans : forall a b c, patch_le a b -> patch_le b c -> patch_le a c.
Proof. unfold patch_le. intros. lia. Qed.

Lemma insert_perm : forall a l, Permutation (a :: l) (insert_patch a l).
Proof.
  induction l as [|b r IH]; cbn [insert_patch]; [apply Permutation_refl|].
  destruct (patch_leb a b); [apply Permutation_refl|].
  eapply Permutation_trans; [apply perm_swap|]. apply perm_skip. exact IH.
Qed.

Lemma sort_perm : forall l, Permutation l (sort_patches l).
Proof.
  induction l as [|a r IH]; cbn [sort_patches]; [constructor|].
  eapply Permutation_trans; [apply perm_skip; exact IH|]. apply insert_perm.
Qed.

Lemma insert_sorted : forall a l, StronglySorted patch_le l -> StronglySorted patch_le (insert_patch a l).
Proof.
  induction l as [|b r IH]; intros H; cbn [insert_patch].
  - constructor; constructor.
  - inversion H as [|? ? Hr Hb]; subst. destruct (patch_leb a b) eqn:E.
    + constructor; [exact H|]. apply patch_leb_le in E. constructor; [exact E|].
      eapply Forall_impl; [|exact Hb]. intros c Hc. eapply patch_le_trans; eauto.
    + constructor; [apply IH; exact Hr|]. apply patch_leb_false in E.
      eapply Permutation_Forall; [apply insert_perm|]. constructor; assumption.
Qed.

Lemma sort_sorted : forall l, StronglySorted patch_le (sort_patches l).
Proof. induction l as [|a r IH]; cbn [sort_patches]; [constructor|]. apply insert_sorted. exact IH. Qed.

Lemma sorted_unique : forall l' s, Permutation s l' -> StronglySorted patch_le s -> StronglySorted patch_lt l' ->
  s = l'.
Proof.
  induction l' as [|x t IH]; intros s Hp Hs Hl.
  - apply Permutation_sym in Hp. apply Permutation_nil in Hp. exact Hp.
  - destruct s as [|y u]; [apply Permutation_nil in Hp; discriminate|].
    inversion Hs as [|? ? Hsu Hy]; subst. inversion Hl as [|? ? Hlt Hx]; subst.
    assert (Hyx : y = x).
    { assert (Hin1 : In y (x :: t)) by (eapply Permutation_in; [exact Hp|left; reflexivity]).
      assert (Hin2 : In x (y :: u)) by (eapply Permutation_in; [apply Permutation_sym; exact Hp|left; reflexivity]).
      destruct Hin1 as [E|Hin1]; [congruence|]. destruct Hin2 as [E|Hin2]; [congruence|].
      rewrite Forall_forall in Hy, Hx. specialize (Hy _ Hin2). specialize (Hx _ Hin1).
      unfold patch_le, patch_lt in *. lia. }
    subst y. f_equal. apply IH; [eapply Permutation_cons_inv; exact Hp|exact Hsu|exact Hlt].
Qed.

Lemma sort_unique : forall l l', Permutation l l' -> StronglySorted patch_lt l' -> sort_patches l = l'.
Proof.
  intros l l' Hp Hl. apply sorted_unique; [|apply sort_sorted|exact Hl].
  eapply Permutation_trans; [apply Permutation_sym; apply sort_perm|exact Hp].
Qed.

(* ---------------------------------------------------------------------------------------------
   DOLLAR_REGEX matches *)

Lemma dp_shift : forall t p k, dollar_positions_from (p + k) t = map (Z.add k) (dollar_positions_from p t).
Proof.
  induction t as [|c r IH]; intros p k; [reflexivity|].
  cbn [dollar_positions_from]. replace (p + k + 1) with (p + 1 + k) by lia. rewrite IH.
  destruct r as [|d r']; [reflexivity|].
  destruct ((c =? DOLLAR_CH) && is_ident_start d); [|reflexivity]. cbn [map]. f_equal. lia.
Qed.

Lemma dp_length : forall t p q, length (dollar_positions_from p t) = length (dollar_positions_from q t).
Proof.
  intros t p q. replace q with (p + (q - p)) by lia. rewrite dp_shift. rewrite map_length. reflexivity.
Qed.

Lemma dp_bounds : forall t p x, In x (dollar_positions_from p t) -> p <= x < p + len t.
Proof.
  induction t as [|c r IH]; intros p x H; [destruct H|].
  cbn [dollar_positions_from] in H. rewrite len_cons.
  assert (G : In x (dollar_positions_from (p + 1) r) -> p <= x < p + (1 + len r)).
  { intros Hi. apply IH in Hi. lia. }
  destruct r as [|d r']; [destruct H|].
  destruct ((c =? DOLLAR_CH) && is_ident_start d); [|exact (G H)].
  destruct H as [<-|H]; [|exact (G H)]. pose proof (len_nonneg (d :: r')). lia.
Qed.

Lemma dp_sorted : forall t p, StronglySorted Z.lt (dollar_positions_from p t).
Proof.
  induction t as [|c r IH]; intros p; [constructor|].
  cbn [dollar_positions_from]. destruct r as [|d r']; [constructor|].
  destruct ((c =? DOLLAR_CH) && is_ident_start d); [|apply IH].
  constructor; [apply IH|]. apply Forall_forall. intros x Hx. apply dp_bounds in Hx. lia.
Qed.

Fixpoint ends_dollar (a : text) : bool :=
  match a with
  | [] => false
  | c :: r => match r with [] => c =? DOLLAR_CH | _ :: _ => ends_dollar r end
  end.

Lemma last_is_dollar_ends : forall a, last_is_dollar a = ends_dollar a.
Proof.
  unfold last_is_dollar. induction a as [|c r IH]; [reflexivity|].
  cbn [ends_dollar]. destruct r as [|d r']; [reflexivity|].
  rewrite <- IH. cbn [rev]. destruct (rev r' ++ [d]) as [|e u] eqn:E.
  - destruct (rev r'); discriminate.
  - reflexivity.
Qed.

Lemma ends_dollar_app : forall a b, b <> [] -> ends_dollar (a ++ b) = ends_dollar b.
Proof.
  induction a as [|c a IH]; intros b Hb; [reflexivity|].
  cbn [app ends_dollar]. destruct (a ++ b) as [|d u] eqn:E.
  - destruct a; destruct b; try discriminate. congruence.
  - rewrite <- E. apply IH. exact Hb.
Qed.

Lemma dp_app : forall a b p, ends_dollar a = false ->
  dollar_positions_from p (a ++ b) = dollar_positions_from p a ++ dollar_positions_from (p + len a) b.
Proof.
  induction a as [|c a IH]; intros b p H.
  - cbn. f_equal. unfold len. cbn. lia.
  - cbn [app dollar_positions_from]. rewrite len_cons.
    cbn [ends_dollar] in H. destruct a as [|d a'].
    + cbn [app]. cbn [dollar_positions_from]. replace (p + (1 + len [])) with (p + 1) by (unfold len; cbn; lia).
      destruct b as [|e b']; [reflexivity|]. rewrite H. reflexivity.
    + rewrite (IH b (p + 1) H). replace (p + 1 + len (d :: a')) with (p + (1 + len (d :: a'))) by lia.
      cbn [app]. destruct ((c =? DOLLAR_CH) && is_ident_start d); reflexivity.
Qed.

Lemma dp_no_dollar : forall t p, mem DOLLAR_CH t = false -> dollar_positions_from p t = [].
Proof.
  induction t as [|c r IH]; intros p H; [reflexivity|].
  unfold mem in H. cbn [existsb] in H. apply orb_false_iff in H. destruct H as [H1 H2].
  cbn [dollar_positions_from]. rewrite (IH (p + 1) H2). rewrite Z.eqb_sym in H1. rewrite H1.
  destruct r; reflexivity.
Qed.

Lemma ends_dollar_no_dollar : forall t, mem DOLLAR_CH t = false -> ends_dollar t = false.
Proof.
  induction t as [|c r IH]; intros H; [reflexivity|].
  unfold mem in H. cbn [existsb] in H. apply orb_false_iff in H. destruct H as [H1 H2].
  cbn [ends_dollar]. destruct r; [rewrite Z.eqb_sym; exact H1|apply IH; exact H2].
Qed.

(* ---------------------------------------------------------------------------------------------
   The Replacer of the temporary text: offset table and get_input_pos *)

Lemma adj_sorted_sort_id : forall l, StronglySorted patch_lt l -> sort_patches l = l.
Proof. intros l H. apply sort_unique; [apply Permutation_refl|exact H]. Qed.

Definition tmp_patch (d : Z) : patch := mkpatch d (d + 1) s_DOLLAR.

Lemma tmp_patches_sorted : forall ds, StronglySorted Z.lt ds -> StronglySorted patch_lt (map tmp_patch ds).
Proof.
  induction 1 as [|d r Hr IH Hd]; cbn [map]; constructor; [exact IH|].
  apply Forall_map. eapply Forall_impl; [|exact Hd]. intros x Hx. left. cbn. exact Hx.
Qed.

Fixpoint tmp_offs (k : Z) (ds : list Z) : list (Z * Z) :=
  match ds with
  | [] => []
  | d :: r => (d + 1, d + 1 + 5 * (k + 1)) :: tmp_offs (k + 1) r
  end.

Lemma offsets_loop_tmp : forall ds in_pos k,
  offsets_loop in_pos (in_pos + 5 * k) (map tmp_patch ds) = tmp_offs k ds.
Proof.
  induction ds as [|d r IH]; intros in_pos k; [reflexivity|].
  cbn [map offsets_loop tmp_patch p_start p_end p_new tmp_offs].
  replace (len s_DOLLAR) with 6 by reflexivity.
  replace (6 =? d + 1 - d) with false by (symmetry; apply Z.eqb_neq; lia).
  replace (in_pos + 5 * k + (d - in_pos) + 6) with (d + 1 + 5 * (k + 1)) by lia.
  f_equal. apply IH.
Qed.

Lemma replacer_offsets_tmp : forall f,
  replacer_offsets (tmp_patches f) = (0, 0) :: tmp_offs 0 (dollar_positions f).
Proof.
  intros f. unfold replacer_offsets, tmp_patches. fold tmp_patch.
  rewrite adj_sorted_sort_id by (apply tmp_patches_sorted; apply dp_sorted).
  f_equal. apply (offsets_loop_tmp (dollar_positions f) 0 0).
Qed.

Definition pick (q : Z) (offs : list (Z * Z)) (acc : Z * Z) : Z * Z :=
  fold_left (fun acc io => if snd io <=? q then io else acc) offs acc.

Definition count_lt (x : Z) (ds : list Z) : Z := len (filter (fun d => d <? x) ds).

Lemma pick_none : forall ds k q x acc, Forall (fun d => x <= d) ds -> q <= x + 5 * k ->
  pick q (tmp_offs k ds) acc = acc.
Proof.
  induction ds as [|d r IH]; intros k q x acc H Hq; [reflexivity|].
  inversion H; subst. cbn [tmp_offs pick fold_left snd].
  replace (d + 1 + 5 * (k + 1) <=? q) with false by (symmetry; apply Z.leb_gt; lia).
  apply (IH (k + 1) q x); [assumption|lia].
Qed.

Lemma pick_main : forall ds k x i, StronglySorted Z.lt ds ->
  let q := x + 5 * (k + count_lt x ds) in
  let r := pick q (tmp_offs k ds) (i, i + 5 * k) in
  fst r + (q - snd r) = x.
Proof.
  induction ds as [|d r IH]; intros k x i Hs; cbn zeta.
  - unfold count_lt, len, pick. cbn [filter length fold_left tmp_offs fst snd Z.of_nat]. lia.
  - inversion Hs as [|? ? Hr Hd]; subst. unfold count_lt. cbn [filter].
    destruct (d <? x) eqn:E.
    + apply Z.ltb_lt in E. rewrite len_cons. fold (count_lt x r).
      cbn [tmp_offs pick fold_left snd].
      replace (d + 1 + 5 * (k + 1) <=? x + 5 * (k + (1 + count_lt x r))) with true
        by (symmetry; apply Z.leb_le; unfold count_lt; pose proof (len_nonneg (filter (fun d0 => d0 <? x) r)); lia).
      specialize (IH (k + 1) x (d + 1) Hr). cbn zeta in IH.
      replace (x + 5 * (k + (1 + count_lt x r))) with (x + 5 * (k + 1 + count_lt x r)) by lia.
      exact IH.
    + apply Z.ltb_ge in E.
      assert (Hall : Forall (fun d0 => x <= d0) (d :: r)).
      { constructor; [exact E|]. eapply Forall_impl; [|exact Hd]. intros; cbn in *; lia. }
      assert (Hf : filter (fun d0 => d0 <? x) r = []).
      { clear - Hall. inversion Hall as [|? ? _ Hr]; subst. induction Hr as [|y u Hy Hu IHu]; [reflexivity|].
        cbn [filter]. replace (y <? x) with false by (symmetry; apply Z.ltb_ge; exact Hy). apply IHu.
        constructor; [inversion Hall; assumption|exact Hu]. }
      rewrite Hf. replace (len []) with 0 by reflexivity.
      fold (pick (x + 5 * (k + 0)) (tmp_offs k (d :: r)) (i, i + 5 * k)).
      rewrite (pick_none (d :: r) k (x + 5 * (k + 0)) x) by (assumption || lia).
      cbn [fst snd]. lia.
Qed.

Lemma get_input_pos_tmp : forall f x,
  get_input_pos (replacer_offsets (tmp_patches f)) (x + 5 * count_lt x (dollar_positions f)) = x.
Proof.
  intros f x. rewrite replacer_offsets_tmp. unfold get_input_pos.
  cbn [fold_left snd]. set (q := x + 5 * count_lt x (dollar_positions f)).
  pose proof (pick_main (dollar_positions f) 0 x 0 (dp_sorted f 0)) as H. cbn zeta in H.
  replace (x + 5 * (0 + count_lt x (dollar_positions f))) with q in H by (unfold q; lia).
  replace (0 + 5 * 0) with 0 in H by lia.
  destruct (0 <=? q) eqn:E; unfold pick in H; exact H.
Qed.

(* ---------------------------------------------------------------------------------------------
   token streams *)

Lemma tok_wf_ends : forall k, tok_wf k = true -> ends_dollar (tok_src k) = false.
Proof.
  intros k H. destruct k as [s|n|s|]; cbn [tok_wf tok_src] in *.
  - apply ends_dollar_no_dollar. apply negb_true_iff. exact H.
  - destruct n as [|c n']; [discriminate|]. apply andb_true_iff in H. destruct H as [_ H].
    apply negb_true_iff in H. change (DOLLAR_CH :: c :: n') with ([DOLLAR_CH] ++ c :: n').
    rewrite ends_dollar_app by discriminate. apply ends_dollar_no_dollar. exact H.
  - rewrite <- last_is_dollar_ends. apply negb_true_iff. exact H.
  - reflexivity.
Qed.

Lemma src_of_app : forall a b, src_of (a ++ b) = src_of a ++ src_of b.
Proof. intros. unfold src_of. apply flat_map_app. Qed.

Lemma src_of_ends : forall ks, forallb tok_wf ks = true -> ends_dollar (src_of ks) = false.
Proof.
  induction ks as [|k r IH]; intros H; [reflexivity|].
  cbn [forallb] in H. apply andb_true_iff in H. destruct H as [H1 H2].
  change (src_of (k :: r)) with (tok_src k ++ src_of r).
  destruct (src_of r) as [|c u] eqn:E.
  - rewrite app_nil_r. apply tok_wf_ends. exact H1.
  - rewrite ends_dollar_app by discriminate. apply IH. exact H2.
Qed.

Definition ndollars (t : text) : Z := len (dollar_positions t).

Lemma ndollars_app : forall a b, ends_dollar a = false -> ndollars (a ++ b) = ndollars a + ndollars b.
Proof.
  intros a b H. unfold ndollars, dollar_positions. rewrite dp_app by exact H. rewrite len_app.
  f_equal. unfold len. f_equal. apply dp_length.
Qed.

Fixpoint tmp_off (ks : list tok) : Z :=
  match ks with [] => 0 | k :: r => tok_tmp_len k + tmp_off r end.

Lemma tmp_off_eq : forall ks, forallb tok_wf ks = true ->
  tmp_off ks = len (src_of ks) + 5 * ndollars (src_of ks).
Proof.
  induction ks as [|k r IH]; intros H; [reflexivity|].
  cbn [forallb] in H. apply andb_true_iff in H. destruct H as [H1 H2].
  cbn [tmp_off]. rewrite (IH H2). change (src_of (k :: r)) with (tok_src k ++ src_of r).
  rewrite len_app, ndollars_app by (apply tok_wf_ends; exact H1). unfold tok_tmp_len, ndollars. lia.
Qed.

Lemma forallb_app_l : forall (A : Type) (p : A -> bool) a b, forallb p (a ++ b) = true -> forallb p a = true.
Proof. intros A p a b H. rewrite forallb_app in H. apply andb_true_iff in H. tauto. Qed.

Lemma count_lt_pre : forall pre post, forallb tok_wf (pre ++ post) = true ->
  count_lt (len (src_of pre)) (dollar_positions (src_of (pre ++ post))) = ndollars (src_of pre).
Proof.
  intros pre post H. pose proof (forallb_app_l _ _ _ _ H) as Hpre.
  rewrite src_of_app. unfold dollar_positions, count_lt, ndollars.
  rewrite dp_app by (apply src_of_ends; exact Hpre). rewrite filter_app.
  assert (F1 : filter (fun d => d <? len (src_of pre)) (dollar_positions_from 0 (src_of pre))
               = dollar_positions_from 0 (src_of pre)).
  { assert (G : forall l, Forall (fun d => d < len (src_of pre)) l -> filter (fun d => d <? len (src_of pre)) l = l).
    { induction 1 as [|y u Hy Hu IHu]; [reflexivity|]. cbn [filter].
      replace (y <? len (src_of pre)) with true by (symmetry; apply Z.ltb_lt; exact Hy). f_equal. exact IHu. }
    apply G. apply Forall_forall. intros x Hx. apply dp_bounds in Hx. lia. }
  assert (F2 : filter (fun d => d <? len (src_of pre)) (dollar_positions_from (0 + len (src_of pre)) (src_of post))
               = []).
  { assert (G : forall l, Forall (fun d => len (src_of pre) <= d) l -> filter (fun d => d <? len (src_of pre)) l = []).
    { induction 1 as [|y u Hy Hu IHu]; [reflexivity|]. cbn [filter].
      replace (y <? len (src_of pre)) with false by (symmetry; apply Z.ltb_ge; exact Hy). exact IHu. }
    apply G. apply Forall_forall. intros x Hx. apply dp_bounds in Hx. lia. }
  rewrite F1, F2, app_nil_r. reflexivity.
Qed.

(* the oracle's offset of the token after `pre` maps back to its source offset *)
Lemma map_back_token : forall pre post, forallb tok_wf (pre ++ post) = true ->
  get_input_pos (replacer_offsets (tmp_patches (src_of (pre ++ post)))) (tmp_off pre) = len (src_of pre).
Proof.
  intros pre post H. rewrite (tmp_off_eq pre) by (eapply forallb_app_l; exact H).
  rewrite <- (count_lt_pre pre post H). apply get_input_pos_tmp.
Qed.

(* generic collectors of token offsets *)
Fixpoint collect (sel : tok -> bool) (wlen : tok -> Z) (off : Z) (ks : list tok) : list Z :=
  match ks with
  | [] => []
  | k :: r => (if sel k then [off] else []) ++ collect sel wlen (off + wlen k) r
  end.

Definition is_dollar_tok (k : tok) : bool := match k with TDollar _ => true | _ => false end.
Definition is_mark_tok (k : tok) : bool := match k with TMark => true | _ => false end.
Definition src_len (k : tok) : Z := len (tok_src k).

Lemma name_offsets_collect : forall ks off, name_offsets off ks = collect is_dollar_tok tok_tmp_len off ks.
Proof. induction ks as [|k r IH]; intros off; [reflexivity|]. cbn. rewrite IH. destruct k; reflexivity. Qed.

Lemma mark_offsets_collect : forall ks off, mark_offsets off ks = collect is_mark_tok tok_tmp_len off ks.
Proof. induction ks as [|k r IH]; intros off; [reflexivity|]. cbn. rewrite IH. destruct k; reflexivity. Qed.

Lemma tmp_off_snoc : forall pre k, tmp_off (pre ++ [k]) = tmp_off pre + tok_tmp_len k.
Proof. induction pre as [|a r IH]; intros k; cbn [app tmp_off]; [lia|]. rewrite IH. lia. Qed.

Lemma src_len_snoc : forall pre k, len (src_of (pre ++ [k])) = len (src_of pre) + src_len k.
Proof. intros. rewrite src_of_app, len_app. unfold src_len. cbn. rewrite app_nil_r. reflexivity. Qed.

Lemma map_back_collect : forall sel post pre,
  forallb tok_wf (pre ++ post) = true ->
  map (get_input_pos (replacer_offsets (tmp_patches (src_of (pre ++ post)))))
      (collect sel tok_tmp_len (tmp_off pre) post)
  = collect sel src_len (len (src_of pre)) post.
Proof.
  intros sel. induction post as [|k r IH]; intros pre H; [reflexivity|].
  cbn [collect]. rewrite map_app.
  assert (E : pre ++ k :: r = (pre ++ [k]) ++ r) by (rewrite <- app_assoc; reflexivity).
  f_equal.
  - destruct (sel k); [|reflexivity]. cbn [map]. f_equal. apply map_back_token. exact H.
  - rewrite <- tmp_off_snoc, <- src_len_snoc. rewrite E. apply IH. rewrite <- E. exact H.
Qed.

Lemma dollar_match_at_token : forall pre n post, tok_wf (TDollar n) = true ->
  dollar_match_at (src_of (pre ++ TDollar n :: post)) (len (src_of pre)) = true.
Proof.
  intros pre n post H. unfold dollar_match_at.
  replace (len (src_of pre) <? 0) with false by (symmetry; apply Z.ltb_ge; apply len_nonneg).
  rewrite src_of_app. unfold len. rewrite Nat2Z.id. rewrite skipn_app, skipn_all, Nat.sub_diag. cbn [app skipn].
  cbn [tok_wf] in H. destruct n as [|c n']; [discriminate|]. apply andb_true_iff in H. destruct H as [H _].
  change (src_of (TDollar (c :: n') :: post)) with (DOLLAR_CH :: c :: n' ++ src_of post).
  cbv iota. rewrite H. reflexivity.
Qed.

(* ---------------------------------------------------------------------------------------------
   the final patches, in token order *)

Definition rec_patch (o : Z) : patch := mkpatch o (o + 1) s_rec.
Definition ret_patch (o : Z) : patch := mkpatch o o s_return.

Fixpoint patches_of (off : Z) (ks : list tok) : list patch :=
  match ks with
  | [] => []
  | k :: r => match k with
              | TDollar _ => [rec_patch off]
              | TMark => [ret_patch off]
              | _ => []
              end ++ patches_of (off + src_len k) r
  end.

Lemma src_len_nonneg : forall k, 0 <= src_len k.
Proof. intros. unfold src_len. apply len_nonneg. Qed.

Lemma patches_of_bounds : forall ks off p, In p (patches_of off ks) ->
  off <= p_start p /\ (p_end p = p_start p \/ p_end p = p_start p + 1).
Proof.
  induction ks as [|k r IH]; intros off p H; [destruct H|].
  cbn [patches_of] in H. apply in_app_or in H. destruct H as [H|H].
  - destruct k; try destruct H as [<-|[]]; try destruct H; cbn; lia.
  - apply IH in H. pose proof (src_len_nonneg k). lia.
Qed.

Lemma patches_of_nomark : forall ks off p, forallb (fun k => negb (is_mark_tok k)) ks = true ->
  In p (patches_of off ks) -> p_end p = p_start p + 1.
Proof.
  induction ks as [|k r IH]; intros off p Hm H; [destruct H|].
  cbn [forallb] in Hm. apply andb_true_iff in Hm. destruct Hm as [Hk Hr].
  cbn [patches_of] in H. apply in_app_or in H. destruct H as [H|H].
  - destruct k; try destruct H as [<-|[]]; try destruct H; try reflexivity. discriminate.
  - eapply IH; eauto.
Qed.

Lemma collect_mark_nil : forall ks wlen off, collect is_mark_tok wlen off ks = [] ->
  forallb (fun k => negb (is_mark_tok k)) ks = true.
Proof.
  induction ks as [|k r IH]; intros wlen off H; [reflexivity|].
  cbn [collect] in H. apply app_eq_nil in H. destruct H as [H1 H2].
  cbn [forallb]. rewrite (IH _ _ H2). destruct (is_mark_tok k); [discriminate|reflexivity].
Qed.

Lemma patches_of_sorted : forall ks off, (length (collect is_mark_tok src_len off ks) <= 1)%nat ->
  StronglySorted patch_lt (patches_of off ks).
Proof.
  induction ks as [|k r IH]; intros off Hm; [constructor|].
  cbn [patches_of]. cbn [collect] in Hm. rewrite app_length in Hm.
  assert (Hr : StronglySorted patch_lt (patches_of (off + src_len k) r)) by (apply IH; lia).
  destruct k as [s|n|s|]; cbn [app]; try exact Hr.
  - constructor; [exact Hr|]. apply Forall_forall. intros p Hp. apply patches_of_bounds in Hp.
    unfold src_len in Hp. cbn [tok_src] in Hp. rewrite len_cons in Hp. pose proof (len_nonneg n).
    left. cbn. lia.
  - constructor; [exact Hr|]. apply Forall_forall. intros p Hp.
    cbn [is_mark_tok length] in Hm.
    assert (Hnil : collect is_mark_tok src_len (off + src_len TMark) r = []).
    { destruct (collect is_mark_tok src_len (off + src_len TMark) r); [reflexivity|cbn in Hm; lia]. }
    pose proof (patches_of_nomark _ _ _ (collect_mark_nil _ _ _ Hnil) Hp) as He.
    apply patches_of_bounds in Hp. replace (src_len TMark) with 0 in Hp by reflexivity.
    unfold patch_lt. cbn. lia.
Qed.

Lemma patches_of_perm : forall ks off,
  Permutation (map rec_patch (collect is_dollar_tok src_len off ks)
               ++ map ret_patch (collect is_mark_tok src_len off ks))
              (patches_of off ks).
Proof.
  induction ks as [|k r IH]; intros off; [constructor|].
  cbn [collect patches_of]. specialize (IH (off + src_len k)).
  destruct k as [s|n|s|]; cbn [is_dollar_tok is_mark_tok app map]; try exact IH.
  - apply perm_skip. exact IH.
  - eapply Permutation_trans; [apply Permutation_sym; apply Permutation_middle|]. apply perm_skip. exact IH.
Qed.

(* ---------------------------------------------------------------------------------------------
   applying the patches *)

Lemma apply_loop_copy : forall s rest off ps,
  match ps with [] => True | p :: _ => off + len s <= p_start p end ->
  apply_loop (s ++ rest) off ps = s ++ apply_loop rest (off + len s) ps.
Proof.
  intros s rest off ps H. destruct ps as [|p ps']; [reflexivity|].
  cbn [apply_loop].
  assert (E : Z.to_nat (p_start p - off) = (length s + Z.to_nat (p_start p - (off + len s)))%nat).
  { unfold len in *. lia. }
  rewrite E. rewrite firstn_app, skipn_app.
  replace (length s + Z.to_nat (p_start p - (off + len s)) - length s)%nat
    with (Z.to_nat (p_start p - (off + len s))) by lia.
  rewrite firstn_all2 by lia. rewrite (@skipn_all2 _ (length s + Z.to_nat (p_start p - (off + len s))) s) by lia. cbn [app].
  rewrite <- app_assoc. reflexivity.
Qed.

Lemma patches_of_head : forall ks off,
  match patches_of off ks with [] => True | p :: _ => off <= p_start p end.
Proof.
  intros ks off. destruct (patches_of off ks) as [|p ps] eqn:E; [exact I|].
  assert (H : In p (patches_of off ks)) by (rewrite E; left; reflexivity).
  apply patches_of_bounds in H. lia.
Qed.

Lemma apply_patches_of : forall ks off, apply_loop (src_of ks) off (patches_of off ks) = spec_of ks.
Proof.
  induction ks as [|k r IH]; intros off; [reflexivity|].
  change (src_of (k :: r)) with (tok_src k ++ src_of r).
  change (spec_of (k :: r)) with (tok_out k ++ spec_of r).
  cbn [patches_of]. pose proof (patches_of_head r (off + src_len k)) as Hh.
  destruct k as [s|n|s|]; cbn [app tok_src tok_out].
  - rewrite apply_loop_copy by exact Hh. rewrite IH. reflexivity.
  - cbn [apply_loop rec_patch p_start p_end p_new].
    replace (Z.to_nat (off - off)) with 0%nat by lia. replace (Z.to_nat (off + 1 - off)) with 1%nat by lia.
    cbn [firstn skipn app].
    unfold src_len in *. cbn [tok_src] in *. rewrite len_cons in *.
    rewrite apply_loop_copy.
    + replace (off + 1 + len n) with (off + (1 + len n)) by lia. rewrite IH. rewrite <- app_assoc. reflexivity.
    + replace (off + 1 + len n) with (off + (1 + len n)) by lia. exact Hh.
  - rewrite apply_loop_copy by exact Hh. rewrite IH. reflexivity.
  - cbn [apply_loop ret_patch p_start p_end p_new].
    replace (Z.to_nat (off - off)) with 0%nat by lia. cbn [firstn skipn app].
    replace (off + src_len TMark) with off by (unfold src_len; cbn; lia).
    rewrite IH. reflexivity.
Qed.

(* ---------------------------------------------------------------------------------------------
   the theorem *)

Theorem translate_meets_spec : forall (ks : list tok) (name_pos : list Z) (last_expr : option Z),
  forallb tok_wf ks = true ->
  Permutation name_pos (name_offsets 0 ks) ->
  mark_offsets 0 ks = match last_expr with Some p => [p] | None => [] end ->
  translate (src_of ks) name_pos last_expr = spec_of ks.
Proof.
  intros ks name_pos last_expr Hwf Hperm Hmark.
  unfold translate, apply_patches.
  set (f := src_of ks).
  set (offs := replacer_offsets (tmp_patches f)).
  set (g := fun p => let ip := get_input_pos offs p in
                     if dollar_match_at f ip then [mkpatch ip (ip + 1) s_rec] else []).
  pose proof (map_back_collect is_dollar_tok ks [] Hwf) as Hn. cbn [app tmp_off src_of flat_map] in Hn.
  pose proof (map_back_collect is_mark_tok ks [] Hwf) as Hm. cbn [app tmp_off src_of flat_map] in Hm.
  fold f in Hn, Hm. fold offs in Hn, Hm. replace (len []) with 0 in Hn, Hm by reflexivity.
  rewrite <- name_offsets_collect in Hn. rewrite <- mark_offsets_collect in Hm.
  (* the rec patches for the oracle's own order *)
  assert (Hrec : flat_map g (name_offsets 0 ks) = map rec_patch (collect is_dollar_tok src_len 0 ks)).
  { rewrite <- Hn. rewrite name_offsets_collect.
    assert (G : forall post pre, forallb tok_wf (pre ++ post) = true -> pre ++ post = ks ->
              flat_map g (collect is_dollar_tok tok_tmp_len (tmp_off pre) post)
              = map rec_patch (map (get_input_pos offs) (collect is_dollar_tok tok_tmp_len (tmp_off pre) post))).
    { induction post as [|k r IHr]; intros pre Hw He; [reflexivity|].
      assert (E : pre ++ k :: r = (pre ++ [k]) ++ r) by (rewrite <- app_assoc; reflexivity).
      cbn [collect]. rewrite flat_map_app, map_app, map_app. f_equal.
      - destruct k as [s|n|s|]; try reflexivity. cbn [is_dollar_tok flat_map map app].
        unfold g at 1. cbn zeta. unfold offs, f. rewrite <- He.
        rewrite (map_back_token pre (TDollar n :: r) Hw).
        rewrite dollar_match_at_token; [reflexivity|].
        rewrite forallb_app in Hw. apply andb_true_iff in Hw. destruct Hw as [_ Hw].
        cbn [forallb] in Hw. apply andb_true_iff in Hw. tauto.
      - rewrite <- tmp_off_snoc. apply IHr; rewrite <- E; assumption. }
    apply (G ks []); [exact Hwf|reflexivity]. }
  assert (Hret : match last_expr with
                 | Some p => [mkpatch (get_input_pos offs p) (get_input_pos offs p) s_return]
                 | None => []
                 end = map ret_patch (collect is_mark_tok src_len 0 ks)).
  { rewrite <- Hm. rewrite Hmark. destruct last_expr; reflexivity. }
  assert (Hfinal : Permutation (final_patches f name_pos last_expr) (patches_of 0 ks)).
  { unfold final_patches. fold offs. fold g. rewrite Hret.
    eapply Permutation_trans; [|apply patches_of_perm].
    apply Permutation_app; [|apply Permutation_refl]. rewrite <- Hrec.
    apply Permutation_flat_map. exact Hperm. }
  rewrite (sort_unique _ _ Hfinal).
  - apply apply_patches_of.
  - apply patches_of_sorted. rewrite <- Hm. rewrite map_length. rewrite Hmark. destruct last_expr; cbn; lia.
Qed.

(* non-vacuity: `$a + '$b' # $c`, expression statement starting at 0, oracle answers in reverse order *)
Example translate_example :
  let ks := [TMark; TDollar [97]; TCode [32; 43; 32]; TOpaque [39; 36; 98; 39]; TCode [32];
             TOpaque [35; 32; 36; 99]; TCode [10]; TDollar [100]] in
  forallb tok_wf ks = true /\
  translate (src_of ks) (rev (name_offsets 0 ks)) (Some 0) = spec_of ks /\
  spec_of ks = s_return ++ s_rec ++ [97; 32; 43; 32; 39; 36; 98; 39; 32; 35; 32; 36; 99; 10] ++ s_rec ++ [100].
Proof. cbv zeta. repeat split; vm_compute; reflexivity. Qed.
