(* Generic facts about Relabel.sort_by (stable insertion sort with a boolean "<"), used for C20. *)
From Coq Require Import ZArith List Bool Lia Sorted Permutation.
Import ListNotations.
Require Import Grist.Lib.Fl64 Grist.Model.Relabel.

Section SortBy.
Context {A : Type} (lt : A -> A -> bool).
Hypothesis lt_trans : forall a b c, lt a b = true -> lt b c = true -> lt a c = true.

Definition LT (a b : A) : Prop := lt a b = true.
Definition apart (a b : A) : Prop := lt a b = true \/ lt b a = true.

Lemma apart_sym a b : apart a b -> apart b a.
Proof. unfold apart. tauto. Qed.

Lemma insert_by_In x l y : In y (insert_by lt x l) <-> y = x \/ In y l.
Proof.
  induction l as [|z t IH]; cbn; [intuition|].
  destruct (lt x z); cbn; [intuition|]. rewrite IH. intuition.
Qed.

Lemma insert_by_perm x l : Permutation (x :: l) (insert_by lt x l).
Proof.
  induction l as [|z t IH]; cbn; [reflexivity|].
  destruct (lt x z); [reflexivity|].
  rewrite perm_swap. constructor. exact IH.
Qed.

Lemma insert_by_length x l : length (insert_by lt x l) = S (length l).
Proof. symmetry. apply (Permutation_length (insert_by_perm x l)). Qed.

Lemma insert_by_sorted x l :
  StronglySorted LT l -> Forall (apart x) l -> StronglySorted LT (insert_by lt x l).
Proof.
  induction l as [|z t IH]; intros Hs Ha; cbn.
  - constructor; constructor.
  - inversion Hs as [|? ? Hst Hzt]; subst. inversion Ha as [|? ? Hxz Hat]; subst.
    destruct (lt x z) eqn:E.
    + constructor; [assumption|]. constructor; [exact E|].
      rewrite Forall_forall in *. intros y Hy. eapply lt_trans; [exact E | apply Hzt; exact Hy].
    + constructor; [apply IH; assumption|].
      rewrite Forall_forall. intros y Hy. apply insert_by_In in Hy. destruct Hy as [->|Hy].
      * destruct Hxz as [Hxz|Hxz]; [congruence | exact Hxz].
      * rewrite Forall_forall in Hzt. apply Hzt. exact Hy.
Qed.

Lemma fold_insert_sorted l : forall acc,
  StronglySorted LT acc -> ForallOrdPairs apart l -> (forall x, In x l -> Forall (apart x) acc) ->
  StronglySorted LT (fold_left (fun acc x => insert_by lt x acc) l acc).
Proof.
  induction l as [|x t IH]; intros acc Hs Hp Hacc; cbn; [assumption|].
  inversion Hp as [|? ? Hxt Hpt]; subst.
  apply IH; [apply insert_by_sorted; [assumption | apply Hacc; left; reflexivity] | assumption |].
  intros y Hy. rewrite Forall_forall. intros z Hz. apply insert_by_In in Hz. destruct Hz as [->|Hz].
  - apply apart_sym. rewrite Forall_forall in Hxt. apply Hxt. exact Hy.
  - specialize (Hacc y (or_intror Hy)). rewrite Forall_forall in Hacc. apply Hacc. exact Hz.
Qed.

Lemma sort_by_sorted l : ForallOrdPairs apart l -> StronglySorted LT (sort_by lt l).
Proof.
  intros H. unfold sort_by. apply fold_insert_sorted; [constructor | assumption |].
  intros; constructor.
Qed.

Lemma fold_insert_perm l : forall acc,
  Permutation (l ++ acc) (fold_left (fun acc x => insert_by lt x acc) l acc).
Proof.
  induction l as [|x t IH]; intros acc; cbn; [reflexivity|].
  rewrite <- IH. rewrite <- insert_by_perm. apply Permutation_middle.
Qed.

Lemma sort_by_perm l : Permutation l (sort_by lt l).
Proof. unfold sort_by. rewrite <- fold_insert_perm. rewrite app_nil_r. reflexivity. Qed.

Lemma sort_by_In l x : In x (sort_by lt l) <-> In x l.
Proof.
  split; intros H; [eapply Permutation_in; [symmetry; apply sort_by_perm | exact H]
                   | eapply Permutation_in; [apply sort_by_perm | exact H]].
Qed.

Lemma sort_by_length l : length (sort_by lt l) = length l.
Proof. symmetry. apply Permutation_length, sort_by_perm. Qed.

End SortBy.

(* ForallOrdPairs from an index form *)
Lemma FOP_of_nth {A} (R : A -> A -> Prop) (d : A) (l : list A) :
  (forall i j, (i < j < length l)%nat -> R (nth i l d) (nth j l d)) -> ForallOrdPairs R l.
Proof.
  induction l as [|x t IH]; intros H; constructor.
  - rewrite Forall_forall. intros y Hy. destruct (In_nth _ _ d Hy) as (j & Hj & <-).
    apply (H 0%nat (S j)). cbn. lia.
  - apply IH. intros i j Hij. apply (H (S i) (S j)). cbn. lia.
Qed.

Lemma FOP_app {A} (R : A -> A -> Prop) (l1 l2 : list A) :
  ForallOrdPairs R l1 -> ForallOrdPairs R l2 -> (forall x y, In x l1 -> In y l2 -> R x y) ->
  ForallOrdPairs R (l1 ++ l2).
Proof.
  induction l1 as [|x t IH]; intros H1 H2 H12; cbn; [assumption|].
  inversion H1 as [|? ? Hxt Ht]; subst. constructor.
  - rewrite Forall_forall. intros y Hy. apply in_app_or in Hy. destruct Hy as [Hy|Hy].
    + rewrite Forall_forall in Hxt. apply Hxt. exact Hy.
    + apply H12; [left; reflexivity | exact Hy].
  - apply IH; [assumption | assumption |]. intros a b Ha Hb. apply H12; [right; exact Ha | exact Hb].
Qed.

Lemma StronglySorted_nth {A} (R : A -> A -> Prop) (d : A) (l : list A) :
  StronglySorted R l -> forall i j, (i < j < length l)%nat -> R (nth i l d) (nth j l d).
Proof.
  induction 1 as [|x t Hs IH Hx]; intros i j Hij; cbn in Hij; [lia|].
  destruct j as [|j]; [lia|]. destruct i as [|i]; cbn.
  - rewrite Forall_forall in Hx. apply Hx. apply nth_In. lia.
  - apply IH. lia.
Qed.
