(* Bridging: the code generated from table.py / column.py (GristGen.Summary_gen, regenerated on every run by
   harness/sum2v.py) is pointwise the hand model of Model/Summary.v and Model/SummaryChain.v. *)
From Coq Require Import ZArith List Bool Lia.
Import ListNotations.
Require Import Grist.Model.Summary Grist.Model.SummaryChain Grist.Lib.SmPrelude GristGen.Summary_gen
  Grist.Proofs.Summary_proofs.
Open Scope Z_scope.

Lemma fold_flow_ext : forall {S X} (f g : S -> X -> flow S) l s,
  (forall s x, f s x = g s x) -> fold_flow f l s = fold_flow g l s.
Proof.
  intros S X f g l. induction l as [|x t IH]; intros s H; simpl; [reflexivity|].
  rewrite H. destruct (g s x); simpl; try reflexivity. apply IH. exact H.
Qed.

(* ------------------------------------------------------------------ first loop: the lookup values *)

(* one iteration of `for group_col in groupby_cols`, as the model sees it *)
Definition step1 (summ : list mrow) (acc : list (list elem)) (gc : kind * cell) : flow (list (list elem)) :=
  match snd gc with
  | CError => ExcOther
  | c =>
      if is_list_kind (fst gc) then
        match c with
        | CSeq l => Go (acc ++ [match dedup l with [] => [EAtom (empty_value (fst gc))] | s => map EAtom s end])
        | _ => Ret (summ, [])
        end
      else Go (acc ++ [py_list1 c])
  end.

Definition nonempty_all (ev : list (list elem)) : Prop := Forall (fun v => v <> []) ev.

Lemma to_key_atoms : forall k, to_key (map EAtom k) = Some k.
Proof. induction k as [|a t IH]; simpl; [reflexivity|]. rewrite IH. reflexivity. Qed.

Lemma all_keys_app1 : forall ev v, all_keys (ev ++ [v]) =
  match all_keys ev, to_key v with Some ks, Some k => Some (ks ++ [k]) | _, _ => None end.
Proof.
  induction ev as [|x t IH]; intros v; simpl.
  - destruct (to_key v); reflexivity.
  - rewrite IH. destruct (to_key x), (all_keys t), (to_key v); reflexivity.
Qed.

(* what the first loop computes, against Model/Summary.lookup_values *)
Lemma loop1_spec : forall summ kinds cells acc,
  length cells = length kinds ->
  match lookup_values kinds cells with
  | LvRaise => fold_flow (step1 summ) (combine kinds cells) acc = ExcOther
  | LvReturnEmpty => fold_flow (step1 summ) (combine kinds cells) acc = Ret (summ, [])
  | LvOk vals u =>
      exists ev, fold_flow (step1 summ) (combine kinds cells) acc = Go (acc ++ ev) /\ nonempty_all ev /\
                 (u = false -> all_keys ev = Some vals) /\
                 (u = true -> Exists (fun v => v = [EUnhash]) ev)
  end.
Proof.
  intros summ kinds. induction kinds as [|kd ks IH]; intros cells acc Hlen.
  - destruct cells; [|discriminate]. simpl. exists []. rewrite app_nil_r.
    repeat split; try constructor; intros; discriminate.
  - destruct cells as [|c cs]; [discriminate|]. simpl in Hlen. injection Hlen as Hlen.
    assert (Hgo : forall v u0, (u0 = false -> exists k, to_key v = Some k /\ map EAtom k = v) ->
                  (u0 = true -> v = [EUnhash]) -> v <> [] ->
                  forall vk, (u0 = false -> to_key v = Some vk) ->
      match lv_cons vk u0 (lookup_values ks cs) with
      | LvRaise => bind (Go (acc ++ [v])) (fold_flow (step1 summ) (combine ks cs)) = ExcOther
      | LvReturnEmpty => bind (Go (acc ++ [v])) (fold_flow (step1 summ) (combine ks cs)) = Ret (summ, [])
      | LvOk vals u => exists ev, bind (Go (acc ++ [v])) (fold_flow (step1 summ) (combine ks cs)) = Go (acc ++ ev) /\
                       nonempty_all ev /\ (u = false -> all_keys ev = Some vals) /\
                       (u = true -> Exists (fun v => v = [EUnhash]) ev)
      end).
    { intros v u0 _ Hu Hne vk Hk. simpl. specialize (IH cs (acc ++ [v]) Hlen). unfold lv_cons.
      destruct (lookup_values ks cs) as [| |vals u']; try exact IH.
      destruct IH as [ev [He [Hn [H1 H2]]]]. exists (v :: ev). rewrite He, <- app_assoc. split; [reflexivity|].
      split; [constructor; assumption|]. split.
      - intros E. apply orb_false_iff in E. destruct E as [E0 E']. simpl. rewrite (Hk E0), (H1 E'). reflexivity.
      - intros E. destruct u0; [left; apply Hu; reflexivity|]. right. apply H2. exact E. }
    simpl. unfold step1 at 1. simpl.
    destruct c as [a|l| |].
    + destruct kd; simpl.
      * apply (Hgo [EAtom a] false); try discriminate; intros; try reflexivity. exists [a]. split; reflexivity.
      * specialize (IH cs acc Hlen). reflexivity.
      * reflexivity.
    + destruct kd; simpl.
      * apply (Hgo [EUnhash] true); try discriminate; intros; try reflexivity; discriminate.
      * destruct (dedup l) as [|d ds] eqn:E.
        -- apply (Hgo [EAtom (AStr [])] false); try discriminate; intros; try reflexivity.
           exists [AStr []]. split; reflexivity.
        -- apply (Hgo (map EAtom (d :: ds)) false); try discriminate; intros; try apply to_key_atoms.
           exists (d :: ds). split; [apply to_key_atoms|reflexivity].
      * destruct (dedup l) as [|d ds] eqn:E.
        -- apply (Hgo [EAtom (AInt 0)] false); try discriminate; intros; try reflexivity.
           exists [AInt 0]. split; reflexivity.
        -- apply (Hgo (map EAtom (d :: ds)) false); try discriminate; intros; try apply to_key_atoms.
           exists (d :: ds). split; [apply to_key_atoms|reflexivity].
    + destruct kd; simpl; try reflexivity.
      apply (Hgo [EUnhash] true); try discriminate; intros; try reflexivity; discriminate.
    + reflexivity.
Qed.

(* ------------------------------------------------------------------ second loop: lookups, collecting the missing keys *)

Definition st2 := (list Z * list (list elem) * list unit)%type.

Definition step2 (summ : list mrow) (s : st2) (t : list elem) : flow st2 :=
  let '(result, vta, nri) := s in
  bind (py_lookup_one summ t) (fun row_id =>
    if py_truthy_z row_id then Go (result ++ [row_id], vta, nri) else Go (result, vta ++ [t], nri ++ [tt])).

Definition ids_positive (summ : list mrow) : Prop := forall r, In r summ -> fst r <> 0.

Lemma first_match_nonzero : forall summ k i, ids_positive summ -> first_match summ k = Some i -> i <> 0.
Proof. intros summ k i Hp H. apply fm_some_in in H. exact (Hp _ H). Qed.

Lemma loop2_spec : forall summ ks res vta nri, ids_positive summ ->
  fold_flow (step2 summ) (map (map EAtom) ks) (res, vta, nri) =
  Go (res ++ found_ids summ ks, vta ++ map (map EAtom) (missing_keys summ ks),
      nri ++ map (fun _ => tt) (missing_keys summ ks)).
Proof.
  intros summ ks. induction ks as [|k t IH]; intros res vta nri Hp; simpl.
  - rewrite !app_nil_r. reflexivity.
  - unfold py_lookup_one. rewrite to_key_atoms. simpl. unfold found_ids, missing_keys in *. simpl.
    destruct (first_match summ k) as [i|] eqn:E.
    + assert (Hi : py_truthy_z i = true).
      { unfold py_truthy_z. destruct (Z.eqb_spec i 0) as [E0|E0]; [|reflexivity].
        exfalso. exact (first_match_nonzero _ _ _ Hp E E0). }
      rewrite Hi. simpl. rewrite IH by exact Hp. rewrite <- !app_assoc. reflexivity.
    + simpl. rewrite IH by exact Hp. rewrite <- !app_assoc. reflexivity.
Qed.

Lemma keys_of_tuples_atoms : forall ks, keys_of_tuples (map (map EAtom) ks) = ks.
Proof.
  induction ks as [|k t IH]; [reflexivity|]. unfold keys_of_tuples in *. simpl. rewrite to_key_atoms. simpl.
  rewrite IH. reflexivity.
Qed.

(* a tuple of the product of value sets one of which is the unhashable scalar has no key *)
Lemma eproduct_unhash : forall ev, nonempty_all ev -> Exists (fun v => v = [EUnhash]) ev ->
  exists t rest, eproduct ev = t :: rest /\ to_key t = None.
Proof.
  induction ev as [|v r IH]; intros Hn Hex; [inversion Hex|].
  inversion Hn as [|x l Hv Hr]; subst. simpl.
  assert (Hrest : exists t rest, eproduct r = t :: rest).
  { clear IH Hex Hv Hn. induction Hr as [|y m Hy _ IHr]; [exists [], []; reflexivity|].
    destruct IHr as [t [rest E]]. simpl. rewrite E. destruct y as [|a y']; [congruence|].
    simpl. eexists. eexists. reflexivity. }
  inversion Hex as [x l E|x l Hex']; subst.
  - destruct Hrest as [t [rest E]]. simpl. rewrite E. simpl. exists (EUnhash :: t). eexists. split; reflexivity.
  - destruct (IH Hr Hex') as [t [rest [E Hk]]]. destruct v as [|a v']; [congruence|]. simpl. rewrite E. simpl.
    exists (a :: t). eexists. split; [reflexivity|]. simpl. destruct a; [rewrite Hk|]; reflexivity.
Qed.

(* ------------------------------------------------------------------ the list-mode helper formula *)

Definition is_exc {A} (m : flow A) : bool := match m with ExcType | ExcOther => true | _ => false end.

Theorem gen_list_bridge : forall kinds cells stale summ,
  length cells = length kinds -> ids_positive summ ->
  match row_keys kinds cells with
  | Some _ => gen_update_summary_list false (combine kinds cells) summ = Ret (helper_list kinds stale summ cells)
  | None => is_exc (gen_update_summary_list false (combine kinds cells) summ) = true
  end.
Proof.
  intros kinds cells stale summ Hlen Hp. unfold gen_update_summary_list.
  erewrite (fold_flow_ext _ (step1 summ)).
  2:{ intros acc [kd c]. unfold step1. simpl.
      destruct c as [a|l| |]; destruct kd; simpl; try reflexivity;
        try (destruct a; reflexivity); try (destruct (dedup l); reflexivity). }
  pose proof (loop1_spec summ kinds cells [] Hlen) as L1. unfold helper_list, row_keys.
  destruct (lookup_values kinds cells) as [| |vals u].
  - rewrite L1. simpl. unfold found_ids, missing_keys. simpl. rewrite app_nil_r. reflexivity.
  - rewrite L1. reflexivity.
  - destruct L1 as [ev [He [Hn [H1 H2]]]]. rewrite He. simpl.
    erewrite (fold_flow_ext _ (step2 summ)).
    2:{ intros [[r v] n] t. unfold step2. destruct (py_lookup_one summ t); simpl; try reflexivity.
        destruct (py_truthy_z a); reflexivity. }
    destruct u.
    + assert (Hnone : all_keys ev = None).
      { clear He H1. specialize (H2 eq_refl). induction H2 as [x l E|x l _ IH]; simpl.
        - subst x. reflexivity.
        - inversion Hn as [|y m Hy Hm]; subst. rewrite (IH Hm). destruct (to_key x); reflexivity. }
      unfold py_sorted_product. rewrite Hnone.
      destruct (eproduct_unhash ev Hn (H2 eq_refl)) as [t [rest [E Hk]]]. rewrite E. simpl.
      unfold py_lookup_one. rewrite Hk. destruct vals; reflexivity.
    + unfold py_sorted_product. rewrite (H1 eq_refl).
      rewrite (loop2_spec summ (sort_keys (product vals)) [] [] [] Hp). simpl.
      set (ks := sort_keys (product vals)).
      destruct (missing_keys summ ks) as [|m ms] eqn:Em; simpl.
      * rewrite !app_nil_r. reflexivity.
      * rewrite to_key_atoms, keys_of_tuples_atoms. reflexivity.
Qed.

(* ------------------------------------------------------------------ simple mode, lookupOrAddDerived *)

Lemma getattr_all_spec : forall kinds cells, length cells = length kinds ->
  match simple_values kinds cells with
  | None => py_getattr_all cells = ExcOther
  | Some (k, u) => exists ev, py_getattr_all cells = Go ev /\
                              (u = false -> to_key ev = Some k) /\ (u = true -> to_key ev = None)
  end.
Proof.
  induction kinds as [|kd ks IH]; intros cells Hlen.
  - destruct cells; [|discriminate]. simpl. exists []. repeat split; intros; discriminate.
  - destruct cells as [|c cs]; [discriminate|]. simpl in Hlen. injection Hlen as Hlen. specialize (IH cs Hlen).
    simpl. destruct c as [a|l| |]; simpl; try reflexivity;
      destruct (simple_values ks cs) as [[k u]|]; try (rewrite IH; reflexivity);
      destruct IH as [ev [He [H1 H2]]]; rewrite He; simpl.
    + exists (EAtom a :: ev). split; [reflexivity|]. split; intros E; simpl; [rewrite (H1 E)|rewrite (H2 E)]; reflexivity.
    + exists (EUnhash :: ev). split; [reflexivity|]. split; intros E; [discriminate|reflexivity].
    + exists (EUnhash :: ev). split; [reflexivity|]. split; intros E; [discriminate|reflexivity].
Qed.

Theorem gen_simple_bridge : forall kinds cells stale summ,
  length cells = length kinds -> ids_positive summ ->
  match simple_values kinds cells with
  | Some (_, false) =>
      gen_update_summary_simple false (combine kinds cells) summ = Ret (helper_simple kinds stale summ cells)
  | _ => is_exc (gen_update_summary_simple false (combine kinds cells) summ) = true
  end.
Proof.
  intros kinds cells stale summ Hlen Hp. unfold gen_update_summary_simple, helper_simple.
  assert (Hmap : map snd (combine kinds cells) = cells).
  { clear Hp. revert cells Hlen. induction kinds as [|kd ks IH]; intros [|c cs] H; try discriminate; [reflexivity|].
    simpl. rewrite IH; [reflexivity|]. simpl in H. lia. }
  rewrite Hmap. pose proof (getattr_all_spec kinds cells Hlen) as L.
  destruct (simple_values kinds cells) as [[k u]|]; [|rewrite L; reflexivity].
  destruct L as [ev [He [H1 H2]]]. rewrite He. simpl. unfold gen_lookup_or_add, py_lookup_one.
  destruct u; [rewrite (H2 eq_refl); reflexivity|]. rewrite (H1 eq_refl). simpl.
  destruct (first_match summ k) as [i|] eqn:E.
  - assert (Hi : py_truthy_z i = true).
    { unfold py_truthy_z. destruct (Z.eqb_spec i 0) as [E0|E0]; [|reflexivity].
      exfalso. exact (first_match_nonzero _ _ _ Hp E E0). }
    rewrite Hi. reflexivity.
  - simpl. unfold py_add_record. rewrite (H1 eq_refl). reflexivity.
Qed.

(* ------------------------------------------------------------------ getSummarySourceGroup *)

Theorem gen_group_bridge : forall hs i,
  gen_group false hs i = (group_of hs i, negb (keepb hs i)).
Proof.
  intros hs i. unfold gen_group, keepb, group_of. simpl. destruct (map fst _); reflexivity.
Qed.

Theorem gen_group_simple_bridge : forall hs i,
  Forall (fun rh => (length (snd rh) <= 1)%nat) hs ->
  gen_group true hs i = (group_of hs i, negb (keepb hs i)).
Proof.
  intros hs i H. unfold gen_group, keepb. simpl.
  assert (E : map fst (filter (fun rh => match snd rh with [j] => Z.eqb i j | _ => false end) hs) = group_of hs i).
  { unfold group_of. induction H as [|rh t Hrh _ IH]; [reflexivity|]. simpl.
    destruct (snd rh) as [|j [|j2 r]] eqn:Es; simpl in *; try lia.
    - exact IH.
    - rewrite orb_false_r. destruct (Z.eqb i j); simpl; rewrite IH; reflexivity. }
  rewrite E. destruct (group_of hs i); reflexivity.
Qed.

(* ------------------------------------------------------------------ reference clean-up (column._raw_get_without) *)

Theorem gen_reflist_without_bridge : forall rem l,
  gen_reflist_without rem (CSeq l) = clean_cell true rem (CSeq l).
Proof.
  intros rem l. unfold gen_reflist_without, clean_cell. f_equal. apply filter_ext.
  intros a. destruct a; reflexivity.
Qed.

Theorem gen_ref_without_bridge : forall rem j, mem_z j rem = true ->
  gen_ref_without rem (CAtom (AInt j)) = clean_cell true rem (CAtom (AInt j)).
Proof. intros rem j H. unfold gen_ref_without, clean_cell, clean_atom. rewrite H. reflexivity. Qed.

(* ------------------------------------------------------------------ the helper cell, computed by the generated code *)

(* what Engine._recompute_one_cell stores: the returned ids, or - when the formula raised - an error value, which
   leaves the entry of the lookup map as it was *)
Definition helper_gen (kinds : list kind) (stale : list Z) (summ : list mrow) (cells : list cell)
  : list mrow * list Z :=
  match (if summary_simple kinds then gen_update_summary_simple false (combine kinds cells) summ
         else gen_update_summary_list false (combine kinds cells) summ) with
  | Ret r => r
  | _ => (summ, stale)
  end.

Theorem helper_gen_bridge : forall kinds stale summ cells,
  length cells = length kinds -> ids_positive summ ->
  helper_gen kinds stale summ cells = helper kinds stale summ cells.
Proof.
  intros kinds stale summ cells Hlen Hp. unfold helper_gen, helper. destruct (summary_simple kinds).
  - pose proof (gen_simple_bridge kinds cells stale summ Hlen Hp) as B. unfold helper_simple in *.
    destruct (simple_values kinds cells) as [[k [|]]|].
    + destruct (gen_update_summary_simple false (combine kinds cells) summ); try discriminate; reflexivity.
    + rewrite B. reflexivity.
    + destruct (gen_update_summary_simple false (combine kinds cells) summ); try discriminate; reflexivity.
  - pose proof (gen_list_bridge kinds cells stale summ Hlen Hp) as B. unfold helper_list in *.
    destruct (row_keys kinds cells) as [ks|].
    + rewrite B. reflexivity.
    + destruct (gen_update_summary_list false (combine kinds cells) summ); try discriminate; reflexivity.
Qed.

(* one round with the generated helper formula *)
Fixpoint pass_gen (kinds : list kind) (prev : list (Z * list Z)) (src : list srow) (summ : list mrow)
  : list mrow * list (Z * list Z) :=
  match src with
  | [] => (summ, [])
  | r :: t =>
      let '(s1, h) := helper_gen kinds (entry prev (fst r)) summ (snd r) in
      let '(s2, hs) := pass_gen kinds prev t s1 in
      (s2, (fst r, h) :: hs)
  end.

Lemma next_id_positive : forall s, 0 < next_id s.
Proof. intros s. unfold next_id. pose proof (max_id_nonneg s). lia. Qed.

Lemma helper_ids_positive : forall kinds stale s cells s1 h,
  helper kinds stale s cells = (s1, h) -> ids_positive s -> ids_positive s1.
Proof.
  intros kinds stale s cells s1 h H Hp. rewrite helper_is_list in H.
  destruct (helper_list_spec _ _ _ _ _ _ H) as [added [-> [_ [Hid _]]]].
  intros r Hr. apply in_app_or in Hr. destruct Hr as [Hr|Hr]; [exact (Hp r Hr)|].
  specialize (Hid r Hr). pose proof (max_id_nonneg s). lia.
Qed.

Theorem pass_gen_bridge : forall kinds prev src summ,
  Forall (fun r => length (snd r) = length kinds) src -> ids_positive summ ->
  pass_gen kinds prev src summ = pass kinds prev src summ.
Proof.
  intros kinds prev src. induction src as [|r t IH]; intros summ Hl Hp; [reflexivity|].
  inversion Hl as [|x l Hr Ht]; subst. simpl. rewrite (helper_gen_bridge _ _ _ _ Hr Hp).
  destruct (helper kinds (entry prev (fst r)) summ (snd r)) as [s1 h] eqn:Eh.
  rewrite (IH s1 Ht (helper_ids_positive _ _ _ _ _ _ Eh Hp)). reflexivity.
Qed.

(* ------------------------------------------------------------------ differential check of the translator

   One recorded evaluation of a helper cell by the running engine: (kinds, cells read, summary rows before) and
   (did it raise, returned ids, summary rows after); the generated formula must do the same. *)
Fixpoint mrows_eqb (a b : list mrow) : bool :=
  match a, b with
  | [], [] => true
  | x :: a', y :: b' => Z.eqb (fst x) (fst y) && key_eqb (snd x) (snd y) && mrows_eqb a' b'
  | _, _ => false
  end.

Definition check_gen_helper
  (c : (list kind * list cell * list mrow) * (bool * list Z * list mrow)) : bool :=
  let '(kinds, cells, summ, (raised, ids, after)) := c in
  match (if summary_simple kinds then gen_update_summary_simple false (combine kinds cells) summ
         else gen_update_summary_list false (combine kinds cells) summ) with
  | Ret (s', ids') => negb raised && mrows_eqb s' after && zs_eqb ids' ids
  | Go _ => false
  | _ => raised
  end.
